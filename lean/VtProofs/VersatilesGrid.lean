import VtModel.Versatiles
/-!
The 256-grid partition of a level box (`iter_bbox_grid(256)` as used by the writers): every tile
of the box lies in exactly one cell, the cell of block `(x div 256, y div 256)`; cells stay inside
one block; different cells have different block coordinates.
-/
namespace VtProofs.VersatilesGrid
open VtModel VtModel.Versatiles

/-- a valid non-empty level box -/
structure BoxOk (b : BBox) : Prop where
  lvl : b.level ≤ 31
  x : b.xmin ≤ b.xmax
  y : b.ymin ≤ b.ymax
  xm : b.xmax < 2 ^ b.level
  ym : b.ymax < 2 ^ b.level

/-- the cell of block column `bx`, block row `by_` -/
def cell (b : BBox) (bx by_ : Nat) : BBox :=
  ⟨b.level, max b.xmin (bx * 256), max b.ymin (by_ * 256), min b.xmax (bx * 256 + 255), min b.ymax (by_ * 256 + 255)⟩

theorem mem_grid {b c : BBox} : c ∈ grid256 b ↔
    ∃ bx by_, b.xmin / 256 ≤ bx ∧ bx ≤ b.xmax / 256 ∧ b.ymin / 256 ≤ by_ ∧ by_ ≤ b.ymax / 256 ∧ c = cell b bx by_ := by
  unfold grid256
  simp only [List.mem_flatMap, List.mem_map, List.mem_range'_1]
  constructor
  · rintro ⟨by_, ⟨h1, h2⟩, bx, ⟨h3, h4⟩, rfl⟩
    exact ⟨bx, by_, h3, by omega, h1, by omega, rfl⟩
  · rintro ⟨bx, by_, h1, h2, h3, h4, rfl⟩
    exact ⟨by_, ⟨h3, by omega⟩, bx, ⟨h1, by omega⟩, rfl⟩

theorem contains2_iff (b : BBox) (x y : Nat) :
    b.contains2 x y = true ↔ (b.xmin ≤ x ∧ x ≤ b.xmax ∧ b.ymin ≤ y ∧ y ≤ b.ymax) := by
  simp [BBox.contains2]
  omega

/-- facts about one cell -/
theorem cell_facts {b : BBox} (ok : BoxOk b) {bx by_ : Nat}
    (h1 : b.xmin / 256 ≤ bx) (h2 : bx ≤ b.xmax / 256) (h3 : b.ymin / 256 ≤ by_) (h4 : by_ ≤ b.ymax / 256) :
    (cell b bx by_).level = b.level ∧ (cell b bx by_).xmin / 256 = bx ∧ (cell b bx by_).ymin / 256 = by_ ∧
    (cell b bx by_).xmax / 256 = bx ∧ (cell b bx by_).ymax / 256 = by_ ∧
    (cell b bx by_).xmin ≤ (cell b bx by_).xmax ∧ (cell b bx by_).ymin ≤ (cell b bx by_).ymax ∧
    b.xmin ≤ (cell b bx by_).xmin ∧ (cell b bx by_).xmax ≤ b.xmax ∧ b.ymin ≤ (cell b bx by_).ymin ∧
    (cell b bx by_).ymax ≤ b.ymax := by
  have := ok.x; have := ok.y
  refine ⟨rfl, ?_, ?_, ?_, ?_, ?_, ?_, ?_, ?_, ?_, ?_⟩ <;> simp only [cell] <;> omega

/-- every tile of the box is in the cell of its block -/
theorem cell_of_tile {b : BBox} (ok : BoxOk b) {x y : Nat} (h : b.contains2 x y = true) :
    cell b (x / 256) (y / 256) ∈ grid256 b ∧ (cell b (x / 256) (y / 256)).contains2 x y = true := by
  rw [contains2_iff] at h
  constructor
  · rw [mem_grid]
    exact ⟨x / 256, y / 256, by omega, by omega, by omega, by omega, rfl⟩
  · rw [contains2_iff]
    simp only [cell]
    omega

/-- a tile inside a cell belongs to the cell's block -/
theorem tile_in_cell {b : BBox} (ok : BoxOk b) {c : BBox} (hc : c ∈ grid256 b) {x y : Nat}
    (h : c.contains2 x y = true) : x / 256 = c.xmin / 256 ∧ y / 256 = c.ymin / 256 ∧ b.contains2 x y = true := by
  rw [mem_grid] at hc
  obtain ⟨bx, by_, h1, h2, h3, h4, rfl⟩ := hc
  have := ok.x; have := ok.y
  rw [contains2_iff] at h ⊢
  simp only [cell] at h ⊢
  omega

/-- block coordinate of a box -/
def key (c : BBox) : Nat × Nat × Nat := (c.xmin / 256, c.ymin / 256, c.level)

theorem grid_pairwise {b : BBox} (ok : BoxOk b) : (grid256 b).Pairwise (fun c d => key c ≠ key d) := by
  unfold grid256
  rw [List.pairwise_flatMap]
  constructor
  · intro by_ hby
    rw [List.pairwise_map]
    have hnd := List.nodup_range' (s := b.xmin / 256) (n := b.xmax / 256 + 1 - b.xmin / 256) 1
    rw [List.nodup_iff_pairwise_ne] at hnd
    -- need membership to use cell facts: strengthen through `Pairwise.imp_of_mem`
    apply List.Pairwise.imp_of_mem _ hnd
    intro bx1 bx2 m1 m2 hne hk
    rw [List.mem_range'_1] at m1 m2 hby
    have f1 := cell_facts ok (bx := bx1) (by_ := by_) (by omega) (by omega) (by omega) (by omega)
    have f2 := cell_facts ok (bx := bx2) (by_ := by_) (by omega) (by omega) (by omega) (by omega)
    simp only [key, cell] at hk f1 f2
    injection hk with hk1 _
    omega
  · have hnd := List.nodup_range' (s := b.ymin / 256) (n := b.ymax / 256 + 1 - b.ymin / 256) 1
    rw [List.nodup_iff_pairwise_ne] at hnd
    apply List.Pairwise.imp_of_mem _ hnd
    intro by1 by2 m1 m2 hne c hc d hd hk
    rw [List.mem_map] at hc hd
    obtain ⟨bx1, mx1, rfl⟩ := hc
    obtain ⟨bx2, mx2, rfl⟩ := hd
    rw [List.mem_range'_1] at m1 m2 mx1 mx2
    have f1 := cell_facts ok (bx := bx1) (by_ := by1) (by omega) (by omega) (by omega) (by omega)
    have f2 := cell_facts ok (bx := bx2) (by_ := by2) (by omega) (by omega) (by omega) (by omega)
    simp only [key, cell] at hk f1 f2
    injection hk with _ hk2
    injection hk2 with hk2 _
    omega

theorem key_level {b : BBox} {c : BBox} (hc : c ∈ grid256 b) : c.level = b.level := by
  rw [mem_grid] at hc
  obtain ⟨bx, by_, _, _, _, _, rfl⟩ := hc
  rfl

/-- all cells of a pyramid with strictly increasing levels have different block coordinates -/
theorem cells_pairwise {levels : List BBox} (hok : ∀ L ∈ levels, BoxOk L)
    (hs : levels.Pairwise (fun a b => a.level < b.level)) :
    (levels.flatMap grid256).Pairwise (fun c d => key c ≠ key d) := by
  rw [List.pairwise_flatMap]
  constructor
  · intro L hL; exact grid_pairwise (hok L hL)
  · apply List.Pairwise.imp_of_mem _ hs
    intro L1 L2 _ _ hlt c hc d hd hk
    have := key_level hc
    have := key_level hd
    simp only [key] at hk
    injection hk with _ hk
    injection hk with _ hk
    omega

end VtProofs.VersatilesGrid
