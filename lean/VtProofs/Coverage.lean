import VtModel.Coverage
import VtProofs.Converter
/-!
Helper lemmas for C03: `include_coord` folds to the exact bounding box; MIN/MAX queries of the
MBTiles model.
-/
namespace VtProofs.Coverage
open VtModel VtModel.Coverage VtProofs.Converter

/-! ### `include_coord` on one box -/

theorem includeCoord_level (b : BBox) (x y : Nat) : (b.includeCoord x y).level = b.level := by
  unfold BBox.includeCoord; split <;> rfl

theorem includeCoord_wf (b : BBox) (hb : b.WF) (x y : Nat) (hx : x < 2 ^ b.level) (hy : y < 2 ^ b.level) :
    (b.includeCoord x y).WF := by
  unfold BBox.includeCoord
  split
  · exact ⟨hb.1, hx, hy⟩
  · refine ⟨hb.1, ?_, ?_⟩
    · have := hb.2.1; simp only [BBox.maxv]; omega
    · have := hb.2.2; simp only [BBox.maxv]; omega

/-- a coordinate of another level does not disturb the bounding-box property -/
theorem bb_other (b : BBox) (seen : List Coord) (z : Nat) (h : IsBoundingBox b seen z) (c : Coord)
    (hc : c.2.2 ≠ z) : IsBoundingBox b (c :: seen) z := by
  obtain ⟨h1, h2, h3⟩ := h
  have hex : (∃ d ∈ c :: seen, d.2.2 = z) ↔ (∃ d ∈ seen, d.2.2 = z) := by
    constructor
    · rintro ⟨d, hd, hz⟩
      cases hd with
      | head => exact absurd hz hc
      | tail _ hd => exact ⟨d, hd, hz⟩
    · rintro ⟨d, hd, hz⟩
      exact ⟨d, List.mem_cons_of_mem _ hd, hz⟩
  refine ⟨?_, ?_, ?_⟩
  · intro d hd hz
    cases hd with
    | head => exact absurd hz hc
    | tail _ hd => exact h1 d hd hz
  · intro he
    obtain ⟨⟨a, ha, ha'⟩, ⟨b', hb, hb'⟩, ⟨c', hc1, hc'⟩, ⟨d, hd, hd'⟩⟩ := h2 (hex.1 he)
    exact ⟨⟨a, List.mem_cons_of_mem _ ha, ha'⟩, ⟨b', List.mem_cons_of_mem _ hb, hb'⟩,
      ⟨c', List.mem_cons_of_mem _ hc1, hc'⟩, ⟨d, List.mem_cons_of_mem _ hd, hd'⟩⟩
  · intro hne
    exact h3 (fun he => hne (hex.2 he))

/-- **one `include_coord` step keeps the box the exact bounding box** -/
theorem bb_include (b : BBox) (hb : b.WF) (seen : List Coord) (z : Nat) (h : IsBoundingBox b seen z)
    (c : Coord) (hc : c.2.2 = z) (hx : c.1 < 2 ^ b.level) (hy : c.2.1 < 2 ^ b.level) :
    IsBoundingBox (b.includeCoord c.1 c.2.1) (c :: seen) z := by
  obtain ⟨h1, h2, h3⟩ := h
  have hwx := hb.2.1
  have hwy := hb.2.2
  by_cases hs : ∃ d ∈ seen, d.2.2 = z
  · -- the box is not empty: min / max
    obtain ⟨d0, hd0, hz0⟩ := hs
    have hin := (contains2_iff b _ _).1 (h1 d0 hd0 hz0)
    have hne : b.isEmpty = false := by
      cases he : b.isEmpty with
      | false => rfl
      | true => rw [isEmpty_iff] at he; omega
    obtain ⟨⟨a1, ha1, ha1z, ha1v⟩, ⟨a2, ha2, ha2z, ha2v⟩, ⟨a3, ha3, ha3z, ha3v⟩, ⟨a4, ha4, ha4z, ha4v⟩⟩ :=
      h2 ⟨d0, hd0, hz0⟩
    have hm : b.maxv = 2 ^ b.level - 1 := rfl
    unfold BBox.includeCoord
    rw [hne]
    simp only [Bool.false_eq_true, if_false]
    refine ⟨?_, ?_, ?_⟩
    · intro d hd hz
      rw [contains2_iff]
      simp only
      cases hd with
      | head => omega
      | tail _ hd =>
        have := (contains2_iff b _ _).1 (h1 d hd hz)
        omega
    · intro _
      refine ⟨?_, ?_, ?_, ?_⟩
      · by_cases hcmp : c.1 ≤ b.xmin
        · exact ⟨c, by simp, hc, by simp only; omega⟩
        · exact ⟨a1, List.mem_cons_of_mem _ ha1, ha1z, by simp only; omega⟩
      · by_cases hcmp : b.xmax ≤ c.1
        · exact ⟨c, by simp, hc, by simp only; omega⟩
        · exact ⟨a2, List.mem_cons_of_mem _ ha2, ha2z, by simp only; omega⟩
      · by_cases hcmp : c.2.1 ≤ b.ymin
        · exact ⟨c, by simp, hc, by simp only; omega⟩
        · exact ⟨a3, List.mem_cons_of_mem _ ha3, ha3z, by simp only; omega⟩
      · by_cases hcmp : b.ymax ≤ c.2.1
        · exact ⟨c, by simp, hc, by simp only; omega⟩
        · exact ⟨a4, List.mem_cons_of_mem _ ha4, ha4z, by simp only; omega⟩
    · intro hno
      exact absurd ⟨c, by simp, hc⟩ hno
  · -- first coordinate of the level: the box becomes the point
    have he : b.isEmpty = true := h3 hs
    unfold BBox.includeCoord
    rw [he]
    simp only [if_true]
    refine ⟨?_, ?_, ?_⟩
    · intro d hd hz
      cases hd with
      | head => simp [BBox.contains2]
      | tail _ hd => exact absurd ⟨d, hd, hz⟩ hs
    · intro _
      exact ⟨⟨c, by simp, hc, rfl⟩, ⟨c, by simp, hc, rfl⟩, ⟨c, by simp, hc, rfl⟩, ⟨c, by simp, hc, rfl⟩⟩
    · intro hno
      exact absurd ⟨c, by simp, hc⟩ hno

/-! ### the fold over a pyramid -/

/-- the invariant of the walk: well-formed, and every level box is the bounding box of the
    coordinates seen so far -/
def Inv (p : Pyramid) (seen : List Coord) : Prop :=
  p.WF ∧ ∀ z b, p[z]? = some b → IsBoundingBox b seen z

theorem inv_init : Inv Pyramid.newEmpty [] := by
  refine ⟨wf_newEmpty, ?_⟩
  intro z b hb
  refine ⟨(by intro c hc; cases hc), (by rintro ⟨c, hc, _⟩; cases hc), ?_⟩
  intro _
  have hz : z < 32 := by
    by_cases h : z < 32
    · exact h
    · rw [wf_none _ wf_newEmpty z h] at hb; cases hb
  simp only [Pyramid.newEmpty, Pyramid.levels, List.getElem?_map, List.getElem?_range hz, Option.map_some] at hb
  cases hb
  simp [BBox.isEmpty]

theorem inv_step (p : Pyramid) (seen : List Coord) (h : Inv p seen) (c : Coord) (hc : Coord.Valid c) :
    ∃ p', includeStep (.ok p) c = .ok p' ∧ Inv p' (c :: seen) := by
  obtain ⟨hw, hbb⟩ := h
  obtain ⟨b, hb, hl, hbw⟩ := wf_getElem? p hw c.2.2 (by have := hc.1; omega)
  have hx : c.1 < 2 ^ b.level := by rw [hl]; exact hc.2.1
  have hy : c.2.1 < 2 ^ b.level := by rw [hl]; exact hc.2.2
  refine ⟨p.set c.2.2 (b.includeCoord c.1 c.2.1), ?_, ?_, ?_⟩
  · simp only [includeStep, Outcome.bind]
    rw [if_neg (by have := hc.1; omega)]
    simp [Pyramid.includeCoord, Pyramid.updateLevel, hb, Outcome.unwrap]
  · have := wf_set p hw (b.includeCoord c.1 c.2.1) (includeCoord_wf b hbw _ _ hx hy)
    rw [includeCoord_level, hl] at this
    exact this
  · intro z b' hb'
    by_cases hz : z = c.2.2
    · subst hz
      have hlt : c.2.2 < p.length := by rw [hw.1]; have := hc.1; omega
      rw [List.getElem?_set_self hlt] at hb'
      cases hb'
      exact bb_include b hbw seen _ (hbb _ b hb) c rfl hx hy
    · rw [List.getElem?_set_ne (fun h => hz h.symm)] at hb'
      exact bb_other b' seen z (hbb z b' hb') c (fun h => hz h.symm)

theorem fold_inv : ∀ (cs : List Coord) (p : Pyramid) (seen : List Coord), Inv p seen →
    (∀ c ∈ cs, Coord.Valid c) →
    ∃ p', cs.foldl includeStep (.ok p) = .ok p' ∧ Inv p' (cs.reverse ++ seen)
  | [], p, seen, h, _ => ⟨p, rfl, by simpa using h⟩
  | c :: cs, p, seen, h, hv => by
    obtain ⟨p1, h1, i1⟩ := inv_step p seen h c (hv c (by simp))
    obtain ⟨p2, h2, i2⟩ := fold_inv cs p1 (c :: seen) i1 (fun d hd => hv d (by simp [hd]))
    refine ⟨p2, by simp only [List.foldl_cons, h1, h2], ?_⟩
    simpa [List.reverse_cons, List.append_assoc] using i2

/-- the bounding-box property only depends on the set of coordinates -/
theorem bb_congr (b : BBox) (l1 l2 : List Coord) (z : Nat) (h : ∀ c, c ∈ l1 ↔ c ∈ l2)
    (hb : IsBoundingBox b l1 z) : IsBoundingBox b l2 z := by
  obtain ⟨h1, h2, h3⟩ := hb
  have hex : (∃ d ∈ l2, d.2.2 = z) → (∃ d ∈ l1, d.2.2 = z) := by
    rintro ⟨d, hd, hz⟩; exact ⟨d, (h d).2 hd, hz⟩
  refine ⟨fun c hc hz => h1 c ((h c).2 hc) hz, ?_, ?_⟩
  · intro he
    obtain ⟨⟨a, ha, ha'⟩, ⟨b', hb, hb'⟩, ⟨c', hc1, hc'⟩, ⟨d, hd, hd'⟩⟩ := h2 (hex he)
    exact ⟨⟨a, (h a).1 ha, ha'⟩, ⟨b', (h b').1 hb, hb'⟩, ⟨c', (h c').1 hc1, hc'⟩, ⟨d, (h d).1 hd, hd'⟩⟩
  · intro hne
    exact h3 (fun ⟨d, hd, hz⟩ => hne ⟨d, (h d).1 hd, hz⟩)

/-! ### MIN / MAX queries of the MBTiles model -/

open VtModel.MBTiles in
theorem foldMin_spec (f : Row → Nat) : ∀ (l : List Row) (acc : Option Nat),
    (l.foldl (fun acc r => match acc with | none => some (f r) | some a => some (min a (f r))) acc = none
        ↔ acc = none ∧ l = []) ∧
    ∀ m, l.foldl (fun acc r => match acc with | none => some (f r) | some a => some (min a (f r))) acc = some m →
      ((acc = some m ∨ ∃ r ∈ l, f r = m) ∧ (∀ a, acc = some a → m ≤ a) ∧ ∀ r ∈ l, m ≤ f r)
  | [], acc => by
    refine ⟨by simp, ?_⟩
    intro m h
    simp only [List.foldl_nil] at h
    subst h
    exact ⟨Or.inl rfl, by intro a ha; cases ha; exact Nat.le_refl _, by intro r hr; cases hr⟩
  | r :: l, acc => by
    simp only [List.foldl_cons]
    cases acc with
    | none =>
      have ih := foldMin_spec f l (some (f r))
      refine ⟨by simp [ih.1], ?_⟩
      intro m h
      obtain ⟨h1, h2, h3⟩ := ih.2 m h
      refine ⟨Or.inr ?_, (by intro a ha; cases ha), ?_⟩
      · cases h1 with
        | inl h1 => exact ⟨r, by simp, (Option.some.inj h1)⟩
        | inr h1 => obtain ⟨r', hr', e⟩ := h1; exact ⟨r', by simp [hr'], e⟩
      · intro r' hr'
        cases hr' with
        | head => exact h2 _ rfl
        | tail _ hr' => exact h3 r' hr'
    | some a =>
      have ih := foldMin_spec f l (some (min a (f r)))
      refine ⟨by simp [ih.1], ?_⟩
      intro m h
      obtain ⟨h1, h2, h3⟩ := ih.2 m h
      have hle := h2 _ rfl
      refine ⟨?_, ?_, ?_⟩
      · cases h1 with
        | inl h1 =>
          have e := Option.some.inj h1
          by_cases hc : a ≤ f r
          · left; congr 1; omega
          · right; exact ⟨r, by simp, by omega⟩
        | inr h1 => obtain ⟨r', hr', e⟩ := h1; exact Or.inr ⟨r', by simp [hr'], e⟩
      · intro a' ha'; cases ha'; omega
      · intro r' hr'
        cases hr' with
        | head => omega
        | tail _ hr' => exact h3 r' hr'

open VtModel.MBTiles in
theorem foldMax_spec (f : Row → Nat) : ∀ (l : List Row) (acc : Option Nat),
    (l.foldl (fun acc r => match acc with | none => some (f r) | some a => some (max a (f r))) acc = none
        ↔ acc = none ∧ l = []) ∧
    ∀ m, l.foldl (fun acc r => match acc with | none => some (f r) | some a => some (max a (f r))) acc = some m →
      ((acc = some m ∨ ∃ r ∈ l, f r = m) ∧ (∀ a, acc = some a → a ≤ m) ∧ ∀ r ∈ l, f r ≤ m)
  | [], acc => by
    refine ⟨by simp, ?_⟩
    intro m h
    simp only [List.foldl_nil] at h
    subst h
    exact ⟨Or.inl rfl, by intro a ha; cases ha; exact Nat.le_refl _, by intro r hr; cases hr⟩
  | r :: l, acc => by
    simp only [List.foldl_cons]
    cases acc with
    | none =>
      have ih := foldMax_spec f l (some (f r))
      refine ⟨by simp [ih.1], ?_⟩
      intro m h
      obtain ⟨h1, h2, h3⟩ := ih.2 m h
      refine ⟨Or.inr ?_, (by intro a ha; cases ha), ?_⟩
      · cases h1 with
        | inl h1 => exact ⟨r, by simp, (Option.some.inj h1)⟩
        | inr h1 => obtain ⟨r', hr', e⟩ := h1; exact ⟨r', by simp [hr'], e⟩
      · intro r' hr'
        cases hr' with
        | head => exact h2 _ rfl
        | tail _ hr' => exact h3 r' hr'
    | some a =>
      have ih := foldMax_spec f l (some (max a (f r)))
      refine ⟨by simp [ih.1], ?_⟩
      intro m h
      obtain ⟨h1, h2, h3⟩ := ih.2 m h
      have hle := h2 _ rfl
      refine ⟨?_, ?_, ?_⟩
      · cases h1 with
        | inl h1 =>
          have e := Option.some.inj h1
          by_cases hc : f r ≤ a
          · left; congr 1; omega
          · right; exact ⟨r, by simp, by omega⟩
        | inr h1 => obtain ⟨r', hr', e⟩ := h1; exact Or.inr ⟨r', by simp [hr'], e⟩
      · intro a' ha'; cases ha'; omega
      · intro r' hr'
        cases hr' with
        | head => omega
        | tail _ hr' => exact h3 r' hr'

open VtModel.MBTiles in
/-- `SELECT MIN(f) … WHERE p` is NULL iff no row satisfies `p` -/
theorem qmin_none (db : DB) (p : Row → Bool) (f : Row → Nat) :
    qmin db p f = none ↔ ∀ r ∈ db, p r = false := by
  have h' : qmin db p f = none ↔ (none : Option Nat) = none ∧ db.filter p = [] :=
    (foldMin_spec f (db.filter p) none).1
  rw [h']
  simp [List.filter_eq_nil_iff]

open VtModel.MBTiles in
/-- … otherwise it is attained by a selected row and bounds all selected rows -/
theorem qmin_some (db : DB) (p : Row → Bool) (f : Row → Nat) (m : Nat) (h : qmin db p f = some m) :
    (∃ r ∈ db, p r = true ∧ f r = m) ∧ ∀ r ∈ db, p r = true → m ≤ f r := by
  obtain ⟨h1, _, h3⟩ := (foldMin_spec f (db.filter p) none).2 m h
  constructor
  · cases h1 with
    | inl h1 => cases h1
    | inr h1 =>
      obtain ⟨r, hr, e⟩ := h1
      rw [List.mem_filter] at hr
      exact ⟨r, hr.1, hr.2, e⟩
  · intro r hr hp
    exact h3 r (List.mem_filter.2 ⟨hr, hp⟩)

open VtModel.MBTiles in
theorem qmax_none (db : DB) (p : Row → Bool) (f : Row → Nat) :
    qmax db p f = none ↔ ∀ r ∈ db, p r = false := by
  have h' : qmax db p f = none ↔ (none : Option Nat) = none ∧ db.filter p = [] :=
    (foldMax_spec f (db.filter p) none).1
  rw [h']
  simp [List.filter_eq_nil_iff]

open VtModel.MBTiles in
theorem qmax_some (db : DB) (p : Row → Bool) (f : Row → Nat) (m : Nat) (h : qmax db p f = some m) :
    (∃ r ∈ db, p r = true ∧ f r = m) ∧ ∀ r ∈ db, p r = true → f r ≤ m := by
  obtain ⟨h1, _, h3⟩ := (foldMax_spec f (db.filter p) none).2 m h
  constructor
  · cases h1 with
    | inl h1 => cases h1
    | inr h1 =>
      obtain ⟨r, hr, e⟩ := h1
      rw [List.mem_filter] at hr
      exact ⟨r, hr.1, hr.2, e⟩
  · intro r hr hp
    exact h3 r (List.mem_filter.2 ⟨hr, hp⟩)

open VtModel.MBTiles in
/-- a non-NULL answer exists as soon as one row is selected -/
theorem qmin_exists (db : DB) (p : Row → Bool) (f : Row → Nat) (h : ∃ r ∈ db, p r = true) :
    ∃ m, qmin db p f = some m := by
  cases hq : qmin db p f with
  | some m => exact ⟨m, rfl⟩
  | none =>
    obtain ⟨r, hr, hp⟩ := h
    have := (qmin_none db p f).1 hq r hr
    rw [hp] at this; cases this

open VtModel.MBTiles in
theorem qmax_exists (db : DB) (p : Row → Bool) (f : Row → Nat) (h : ∃ r ∈ db, p r = true) :
    ∃ m, qmax db p f = some m := by
  cases hq : qmax db p f with
  | some m => exact ⟨m, rfl⟩
  | none =>
    obtain ⟨r, hr, hp⟩ := h
    have := (qmax_none db p f).1 hq r hr
    rw [hp] at this; cases this

/-! ### PMTiles runs: the walk over entries with run lengths is the fold over all addressed ids -/

theorem foldl_ext_mem {α β : Type} (f h : β → α → β) : ∀ (l : List α) (acc : β),
    (∀ a ∈ l, ∀ acc, f acc a = h acc a) → l.foldl f acc = l.foldl h acc
  | [], _, _ => rfl
  | a :: l, acc, hm => by
    simp only [List.foldl_cons]
    rw [hm a (by simp) acc]
    exact foldl_ext_mem f h l _ (fun x hx => hm x (by simp [hx]))

theorem runStep_eq (g : Nat → Coord) (id : Nat) (hlt : id < U64)
    (hid : Hilbert.tileIdToCoordLoop id = .ok (g id)) (acc : Outcome Pyramid) :
    runStep acc id = includeStep acc (g id) := by
  unfold runStep
  cases acc with
  | ok p =>
    simp only [Outcome.bind]
    rw [if_neg (by omega), hid]
  | err => rfl
  | panic => rfl

theorem coverOfRuns_eq_fold (runs : List (Nat × Nat)) (g : Nat → Coord)
    (hg : ∀ id ∈ expandRuns runs, id < U64 ∧ Hilbert.tileIdToCoordLoop id = .ok (g id)) :
    coverOfRuns runs = coverOfCoords ((expandRuns runs).map g) := by
  unfold coverOfRuns coverOfCoords coverRunLoop expandRuns
  rw [List.foldl_map, List.foldl_flatMap]
  exact (foldl_ext_mem _ _ _ _ (fun r hr acc =>
    foldl_ext_mem _ _ _ _ (fun id hid acc' => by
      have := hg id (by
        unfold expandRuns
        exact List.mem_flatMap.2 ⟨r, hr, hid⟩)
      exact runStep_eq g id this.1 this.2 acc')))

end VtProofs.Coverage
