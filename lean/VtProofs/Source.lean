import VtModel.Source
import VtProofs.BBoxIter
import VtProofs.BBoxSet
/-!
Helper lemmas about tile sources: coordinates of a box, the membership form of `StreamOK`
(`StreamSpec`), the default stream.
-/
namespace VtModel
open BBox

/-! ### lists -/

/-- two duplicate-free lists with the same elements are permutations of each other -/
theorem perm_of_nodup_mem_iff {α : Type} {l₁ l₂ : List α} (h1 : l₁.Nodup) (h2 : l₂.Nodup)
    (h : ∀ a, a ∈ l₁ ↔ a ∈ l₂) : l₁.Perm l₂ :=
  (List.perm_ext_iff_of_nodup h1 h2).mpr h

theorem nodup_of_keys_nodup {α γ : Type} {l : List (α × γ)} (h : (l.map Prod.fst).Nodup) : l.Nodup :=
  List.Pairwise.of_map Prod.fst (fun a b hne heq => hne (by rw [heq])) h

/-- with duplicate-free keys a key determines its value -/
theorem value_unique {α γ : Type} {l : List (α × γ)} (h : (l.map Prod.fst).Nodup) {a : α} {p q : γ}
    (hp : (a, p) ∈ l) (hq : (a, q) ∈ l) : p = q := by
  induction l with
  | nil => cases hp
  | cons x xs ih =>
    simp only [List.map_cons, List.nodup_cons, List.mem_map, not_exists, not_and] at h
    rcases List.mem_cons.mp hp with rfl | hp'
    · rcases List.mem_cons.mp hq with hq' | hq'
      · exact (Prod.mk.inj hq').2.symm ▸ rfl
      · exact absurd rfl (h.1 (a, q) hq')
    · rcases List.mem_cons.mp hq with rfl | hq'
      · exact absurd rfl (h.1 (a, p) hp')
      · exact ih h.2 hp' hq'

theorem filterMapO_ok {α γ : Type} (f : α → Outcome (Option γ)) (g : α → Option γ) (l : List α)
    (h : ∀ a ∈ l, f a = .ok (g a)) : filterMapO f l = .ok (l.filterMap g) := by
  induction l with
  | nil => rfl
  | cons a as ih =>
    have ha := h a (by simp)
    have ih' := ih (fun x hx => h x (by simp [hx]))
    simp only [filterMapO, ha, ih', List.filterMap_cons]
    cases g a <;> rfl

/-! ### coordinates of a box -/

theorem mem_coords3 (b : BBox) (c : Coord) : c ∈ b.coords3 ↔ c.2.2 = b.level ∧ mem b c.1 c.2.1 := by
  unfold coords3
  split
  · rename_i he
    simp only [List.not_mem_nil, false_iff, not_and]
    intro _ hm
    exact (isEmpty_iff b).mp he _ _ hm
  · simp only [List.mem_map]
    constructor
    · rintro ⟨xy, hxy, rfl⟩
      exact ⟨rfl, (mem_iterCoords b xy.1 xy.2).mp hxy⟩
    · rintro ⟨hz, hm⟩
      refine ⟨(c.1, c.2.1), (mem_iterCoords b c.1 c.2.1).mpr hm, ?_⟩
      obtain ⟨x, y, z⟩ := c
      simp only at hz
      simp [hz]

theorem coords3_nodup (b : BBox) : b.coords3.Nodup := by
  unfold coords3
  split
  · exact List.nodup_nil
  · refine List.Pairwise.map _ ?_ (iterCoords_nodup b)
    intro p q hne h
    have h1 := (Prod.mk.inj h).1
    have h2 := (Prod.mk.inj (Prod.mk.inj h).2).1
    exact hne (Prod.ext h1 h2)

theorem coords3_valid {b : BBox} (hb : b.WF) {c : Coord} (hc : c ∈ b.coords3) : Coord.Valid c := by
  obtain ⟨hz, hm⟩ := (mem_coords3 b c).mp hc
  obtain ⟨hl, hx, hy⟩ := hb
  unfold mem at hm
  unfold Coord.Valid
  rw [hz]
  exact ⟨hl, by omega, by omega⟩

theorem has_iff (b : BBox) (c : Coord) : b.has c = true ↔ c ∈ b.coords3 := by
  rw [mem_coords3]
  unfold BBox.has
  rw [contains3_iff]

theorem wf_inRange {b : BBox} (h : b.WF) : InRange b := by
  obtain ⟨_, hx, hy⟩ := h
  unfold InRange maxv
  have : 0 < 2 ^ b.level := Nat.two_pow_pos _
  omega

/-! ### membership form of `StreamOK` -/

/-- the lookup result as an option (errors count as "no tile", as in the default stream) -/
def hit {β : Type} (s : Src β) (c : Coord) : Option (Coord × β) :=
  match s.lookup c with
  | .ok (some p) => some (c, p)
  | _ => none

theorem expected_eq {β : Type} (s : Src β) (b : BBox) : expected s b = b.coords3.filterMap (hit s) := rfl

theorem hit_eq_some {β : Type} (s : Src β) (c : Coord) (cp : Coord × β) :
    hit s c = some cp ↔ cp.1 = c ∧ s.lookup c = .ok (some cp.2) := by
  unfold hit
  split
  · rename_i p hp
    rw [hp]
    constructor
    · intro h; cases h; exact ⟨rfl, rfl⟩
    · rintro ⟨h1, h2⟩
      obtain ⟨c', p'⟩ := cp
      simp only at h1 h2
      cases h1
      cases h2
      rfl
  · rename_i hn
    constructor
    · intro h; cases h
    · rintro ⟨_, h2⟩
      exact absurd h2 (hn cp.2)

theorem mem_expected {β : Type} (s : Src β) (b : BBox) (cp : Coord × β) :
    cp ∈ expected s b ↔ cp.1 ∈ b.coords3 ∧ s.lookup cp.1 = .ok (some cp.2) := by
  rw [expected_eq, List.mem_filterMap]
  constructor
  · rintro ⟨c, hc, hh⟩
    obtain ⟨h1, h2⟩ := (hit_eq_some s c cp).mp hh
    rw [h1]; exact ⟨hc, h2⟩
  · rintro ⟨hc, hl⟩
    exact ⟨cp.1, hc, (hit_eq_some s cp.1 cp).mpr ⟨rfl, hl⟩⟩

theorem expected_keys_nodup {β : Type} (s : Src β) (b : BBox) : ((expected s b).map Prod.fst).Nodup := by
  rw [expected_eq]
  have hsub : ((b.coords3.filterMap (hit s)).map Prod.fst).Sublist b.coords3 := by
    generalize b.coords3 = l
    induction l with
    | nil => exact List.Sublist.slnil
    | cons c cs ih =>
      rw [List.filterMap_cons]
      cases hh : hit s c with
      | none => exact ih.cons c
      | some cp =>
        have := ((hit_eq_some s c cp).mp hh).1
        simp only [List.map_cons, this]
        exact ih.cons_cons c
  exact hsub.nodup (coords3_nodup b)

/-- what a correct stream result looks like, element-wise -/
def StreamSpec {β : Type} (s : Src β) (b : BBox) (l : List (Coord × β)) : Prop :=
  (l.map Prod.fst).Nodup ∧ ∀ cp : Coord × β, cp ∈ l ↔ cp.1 ∈ b.coords3 ∧ s.lookup cp.1 = .ok (some cp.2)

theorem spec_of_perm {β : Type} {s : Src β} {b : BBox} {l : List (Coord × β)}
    (hn : (l.map Prod.fst).Nodup) (hp : l.Perm (expected s b)) : StreamSpec s b l :=
  ⟨hn, fun cp => by rw [hp.mem_iff, mem_expected]⟩

theorem perm_of_spec {β : Type} {s : Src β} {b : BBox} {l : List (Coord × β)} (h : StreamSpec s b l) :
    l.Perm (expected s b) :=
  perm_of_nodup_mem_iff (nodup_of_keys_nodup h.1) (nodup_of_keys_nodup (expected_keys_nodup s b))
    (fun cp => by rw [h.2 cp, mem_expected])

theorem streamOK_iff_spec {β : Type} (s : Src β) :
    StreamOK s ↔ ∀ b : BBox, b.WF → ∃ l, s.stream b = .ok l ∧ StreamSpec s b l := by
  constructor
  · intro h b hb
    obtain ⟨l, h1, h2, h3⟩ := h b hb
    exact ⟨l, h1, spec_of_perm h2 h3⟩
  · intro h b hb
    obtain ⟨l, h1, h2⟩ := h b hb
    exact ⟨l, h1, h2.1, perm_of_spec h2⟩

/-! ### the default stream -/

theorem defaultStream_eq {β : Type} (lookup : Coord → Outcome (Option β)) (cover : Pyramid) (b : BBox) (hb : b.WF)
    (h : ∀ c, Coord.Valid c → lookup c ≠ .panic) :
    defaultStream lookup b = .ok (expected (Src.ofLookup lookup cover) b) := by
  unfold defaultStream
  have hl : ¬ (b.level > 31 ∧ b.coords3 ≠ []) := by
    intro hh; have := hb.1; omega
  rw [if_neg hl, expected_eq]
  apply filterMapO_ok
  intro c hc
  have hv := h c (coords3_valid hb hc)
  unfold pick hit Src.ofLookup
  simp only
  cases hlc : lookup c with
  | ok r => cases r <;> rfl
  | err => rfl
  | panic => exact absurd hlc hv

end VtModel
