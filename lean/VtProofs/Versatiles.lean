import VtModel.Versatiles
import VtProofs.FmtBytes
/-!
Codec round trips of the versatiles container model: file header (66 bytes), block definition
(33 bytes), tile index (12-byte entries), block index.
-/
namespace VtProofs.Versatiles
open VtModel VtModel.Fmt VtModel.Versatiles VtProofs.Fmt

/-! ### header -/

theorem fmtOfCode_fmtCode (f : TileFormat) : fmtOfCode (fmtCode f) = some f := by
  cases f <;> rfl

theorem fmtCode_lt (f : TileFormat) : fmtCode f < 256 ^ 1 := by
  cases f <;> decide

theorem compOfCode_compCode (c : TComp) : compOfCode (compCode c) = some c := by
  cases c <;> rfl

theorem compCode_lt (c : TComp) : compCode c < 256 ^ 1 := by
  cases c <;> decide

/-- the value ranges of the Rust field types (`u8`, `i32`, `u64`) -/
structure HeaderOk (h : Header) : Prop where
  zmin : h.zmin < 256 ^ 1
  zmax : h.zmax < 256 ^ 1
  b0 : -2147483648 ≤ h.b0 ∧ h.b0 < 2147483648
  b1 : -2147483648 ≤ h.b1 ∧ h.b1 < 2147483648
  b2 : -2147483648 ≤ h.b2 ∧ h.b2 < 2147483648
  b3 : -2147483648 ≤ h.b3 ∧ h.b3 < 2147483648
  mo : h.metaR.off < 256 ^ 8
  ml : h.metaR.len < 256 ^ 8
  bo : h.blocks.off < 256 ^ 8
  bl : h.blocks.len < 256 ^ 8

theorem length_encHeader (h : Header) : (encHeader h).length = 66 := by
  simp [encHeader, magic]

theorem decHeader_encHeader (h : Header) (ok : HeaderOk h) : decHeader (encHeader h) = .ok h := by
  unfold decHeader
  rw [length_encHeader]
  unfold encHeader
  simp only [beq_self_eq_true, ensure_true, ok_bind]
  rw [takeN_append' 14 magic _ rfl]
  simp only [ok_bind, beq_self_eq_true, ensure_true]
  rw [readBE_append 1 _ _ (fmtCode_lt h.fmt)]
  simp only [ok_bind, fmtOfCode_fmtCode]
  rw [readBE_append 1 _ _ (compCode_lt h.comp)]
  simp only [ok_bind, compOfCode_compCode]
  rw [readBE_append 1 _ _ ok.zmin]
  simp only [ok_bind]
  rw [readBE_append 1 _ _ ok.zmax]
  simp only [ok_bind]
  rw [readI32BE_append _ _ ok.b0.1 ok.b0.2]
  simp only [ok_bind]
  rw [readI32BE_append _ _ ok.b1.1 ok.b1.2]
  simp only [ok_bind]
  rw [readI32BE_append _ _ ok.b2.1 ok.b2.2]
  simp only [ok_bind]
  rw [readI32BE_append _ _ ok.b3.1 ok.b3.2]
  simp only [ok_bind]
  rw [readBE_append 8 _ _ ok.mo]
  simp only [ok_bind]
  rw [readBE_append 8 _ _ ok.ml]
  simp only [ok_bind]
  rw [readBE_append 8 _ _ ok.bo]
  simp only [ok_bind]
  have : beEnc 8 h.blocks.len = beEnc 8 h.blocks.len ++ [] := by simp
  rw [this, readBE_append 8 _ _ ok.bl]
  simp only [ok_bind, pure_eq]

/-- reading the header back from any file that starts with it -/
theorem readHeader_file (h : Header) (ok : HeaderOk h) (rest : Bytes) :
    readHeader (encHeader h ++ rest) = .ok h := by
  have hl := length_encHeader h
  unfold readHeader readRange
  have h1 : ¬ (0 + 66 ≥ U64) := by simp [U64]
  have h2 : ¬ (0 + 66 > (encHeader h ++ rest).length) := by simp [hl]
  simp only [h1, h2, if_false, List.drop_zero, ok_bind]
  rw [List.take_left' hl]
  exact decHeader_encHeader h ok

/-! ### block definition -/

/-- what `BlockDefinition::new` + the writer (or any spec-conforming encoder) guarantee -/
structure BlockOk (b : BlockDef) : Prop where
  z : b.z ≤ 31
  cov : bboxOk (min b.z 8) b.cxmin b.cymin b.cxmax b.cymax = true
  glob : bboxOk b.z (b.cxmin + b.x * 256) (b.cymin + b.y * 256) (b.cxmax + b.x * 256) (b.cymax + b.y * 256) = true
  idx : b.index.off = b.tiles.off + b.tiles.len
  tl : b.tiles.off + b.tiles.len < U64
  il : b.index.len < 256 ^ 4

theorem pow_le_31 {z : Nat} (h : z ≤ 31) : 2 ^ z ≤ 2147483648 := by
  have : 2 ^ z ≤ 2 ^ 31 := Nat.pow_le_pow_right (by omega) h
  simpa using this

theorem length_encBlockDef {b : BlockDef} {e : Bytes} (h : encBlockDef b = .ok e) : e.length = 33 := by
  unfold encBlockDef at h
  split at h
  · cases h
  · split at h
    · cases h
    · injection h with h; subst h; simp

theorem encBlockDef_ok (b : BlockDef) (ok : BlockOk b) :
    encBlockDef b = .ok (beEnc 1 b.z ++ (beEnc 4 b.x ++ (beEnc 4 b.y ++ (beEnc 1 b.cxmin ++ (beEnc 1 b.cymin ++ (beEnc 1 b.cxmax ++
    (beEnc 1 b.cymax ++ (beEnc 8 b.tiles.off ++ (beEnc 8 b.tiles.len ++ beEnc 4 b.index.len))))))))) := by
  unfold encBlockDef
  have h1 : ¬ (b.tiles.off + b.tiles.len ≥ U64) := by have := ok.tl; omega
  have h2 : ¬ (b.tiles.off + b.tiles.len ≠ b.index.off) := by have := ok.idx; omega
  simp only [h1, h2, if_false]

/-- numeric consequences of `BlockOk` -/
theorem BlockOk.bounds {b : BlockDef} (ok : BlockOk b) :
    b.x * 256 + b.cxmax < 2147483648 ∧ b.y * 256 + b.cymax < 2147483648 ∧
    b.cxmin ≤ b.cxmax ∧ b.cymin ≤ b.cymax ∧ b.cxmax < 256 ∧ b.cymax < 256 := by
  have hp := pow_le_31 ok.z
  have hcov := ok.cov
  have hglob := ok.glob
  simp only [bboxOk, Bool.and_eq_true, decide_eq_true_eq] at hcov hglob
  have hp8 : 2 ^ (min b.z 8) ≤ 256 := by
    have : 2 ^ (min b.z 8) ≤ 2 ^ 8 := Nat.pow_le_pow_right (by omega) (Nat.min_le_right _ _)
    simpa using this
  have hpz : 0 < 2 ^ b.z := Nat.two_pow_pos _
  have hp8' : 0 < 2 ^ (min b.z 8) := Nat.two_pow_pos _
  generalize 2 ^ b.z = P at *
  generalize 2 ^ (min b.z 8) = Q at *
  omega

theorem decBlockDef_enc (b : BlockDef) (ok : BlockOk b) (e rest : Bytes) (he : encBlockDef b = .ok e) :
    decBlockDef (e ++ rest) = .ok b := by
  rw [encBlockDef_ok b ok] at he
  injection he with he
  subst he
  have hz := ok.z
  have ⟨bx, by_, cx, cy, mx, my⟩ := ok.bounds
  have g2 : b.cxmin + b.x * 256 < U32 := by unfold U32; omega
  have g4 : b.cymin + b.y * 256 < U32 := by unfold U32; omega
  have g5 : b.cxmax + b.x * 256 < U32 := by unfold U32; omega
  have g6 : b.cymax + b.y * 256 < U32 := by unfold U32; omega
  have hx : b.x < 256 ^ 4 := by omega
  have hy : b.y < 256 ^ 4 := by omega
  have h1 : b.z < 256 ^ 1 := by omega
  have h2 : b.cxmin < 256 ^ 1 := by omega
  have h3 : b.cymin < 256 ^ 1 := by omega
  have h4 : b.cxmax < 256 ^ 1 := by omega
  have h5 : b.cymax < 256 ^ 1 := by omega
  have h6 : b.tiles.off < 256 ^ 8 := by have := ok.tl; simp [U64] at this; omega
  have h7 : b.tiles.len < 256 ^ 8 := by have := ok.tl; simp [U64] at this; omega
  unfold decBlockDef
  simp only [List.append_assoc]
  rw [readBE_append 1 _ _ h1]; simp only [ok_bind]
  rw [readBE_append 4 _ _ hx]; simp only [ok_bind]
  rw [readBE_append 4 _ _ hy]; simp only [ok_bind]
  rw [readBE_append 1 _ _ h2]; simp only [ok_bind]
  rw [readBE_append 1 _ _ h3]; simp only [ok_bind]
  rw [readBE_append 1 _ _ h4]; simp only [ok_bind]
  rw [readBE_append 1 _ _ h5]; simp only [ok_bind]
  rw [ok.cov]; simp only [ensure_true, ok_bind]
  rw [readBE_append 8 _ _ h6]; simp only [ok_bind]
  rw [readBE_append 8 _ _ h7]; simp only [ok_bind]
  rw [readBE_append 4 _ _ ok.il]; simp only [ok_bind]
  have hu : b.tiles.off + b.tiles.len < U64 := ok.tl
  simp only [hu, g2, g4, g5, g6, decide_true, ok_bind, ok.glob, ensure_true, pure_eq]
  have : b.index = ⟨b.tiles.off + b.tiles.len, b.index.len⟩ := by
    cases hb : b.index with
    | mk o l => have := ok.idx; rw [hb] at this; simp at this; simp [this]
  rw [← this]

/-! ### block index -/

theorem decBlockDefs_enc (l : List BlockDef) (hok : ∀ b ∈ l, BlockOk b) (e : Bytes) (he : encBlockIndex l = .ok e) :
    decBlockDefs l.length e = .ok l ∧ e.length = 33 * l.length := by
  induction l generalizing e with
  | nil => simp [encBlockIndex] at he; subst he; simp [decBlockDefs]
  | cons b l ih =>
    unfold encBlockIndex at he
    cases hb : encBlockDef b with
    | ok eb =>
      rw [hb] at he
      cases hl : encBlockIndex l with
      | ok el =>
        rw [hl] at he
        simp at he
        subst he
        have hlen := length_encBlockDef hb
        have ⟨ih1, ih2⟩ := ih (fun x hx => hok x (by simp [hx])) el hl
        have hbk := hok b (by simp)
        constructor
        · simp only [List.length_cons, decBlockDefs, List.take_left' hlen, List.drop_left' hlen, ih1]
          have := decBlockDef_enc b hbk eb [] hb
          simp at this
          rw [this]
        · simp [hlen, ih2]; omega
      | err => rw [hl] at he; simp at he
      | panic => rw [hl] at he; simp at he
    | err => rw [hb] at he; simp at he
    | panic => rw [hb] at he; simp at he

/-- `BlockIndex::from_blob (BlockIndex::as_blob l) = l` (as a list in file order) -/
theorem decBlockIndex_enc (l : List BlockDef) (hok : ∀ b ∈ l, BlockOk b) (e : Bytes) (he : encBlockIndex l = .ok e) :
    decBlockIndex e = .ok l := by
  have ⟨h1, h2⟩ := decBlockDefs_enc l hok e he
  unfold decBlockIndex
  have : e.length % 33 = 0 := by omega
  have h3 : e.length / 33 = l.length := by omega
  simp [this, h3, h1]

/-! ### tile index -/

theorem length_encTileIndex (l : List Range) : (encTileIndex l).length = 12 * l.length := by
  induction l with
  | nil => simp [encTileIndex]
  | cons r l ih =>
    simp only [encTileIndex, List.map_cons, List.flatten_cons, List.length_append, length_beEnc, List.length_cons] at ih ⊢
    omega

theorem decRanges_enc (l : List Range) (h : ∀ r ∈ l, r.off < 256 ^ 8 ∧ r.len < 256 ^ 4) (rest : Bytes) :
    decRanges l.length (encTileIndex l ++ rest) = l := by
  induction l with
  | nil => simp [decRanges]
  | cons r l ih =>
    have hr := h r (by simp)
    have e : encTileIndex (r :: l) ++ rest = beEnc 8 r.off ++ (beEnc 4 r.len ++ (encTileIndex l ++ rest)) := by
      simp [encTileIndex]
    rw [e]
    simp only [List.length_cons, decRanges]
    have l8 : (beEnc 8 r.off).length = 8 := length_beEnc _ _
    have l4 : (beEnc 4 r.len).length = 4 := length_beEnc _ _
    rw [List.take_left' l8, List.drop_left' l8, List.take_left' l4]
    have d12 : List.drop 12 (beEnc 8 r.off ++ (beEnc 4 r.len ++ (encTileIndex l ++ rest))) = encTileIndex l ++ rest := by
      rw [← List.append_assoc]
      apply List.drop_left'
      simp
    rw [d12, ih (fun x hx => h x (by simp [hx])), beDec_beEnc 8 _ hr.1, beDec_beEnc 4 _ hr.2]

/-- `TileIndex::from_blob (TileIndex::as_blob l) = l` for `u64` offsets and lengths below 4 GiB -/
theorem decTileIndex_enc (l : List Range) (h : ∀ r ∈ l, r.off < 256 ^ 8 ∧ r.len < 256 ^ 4) :
    decTileIndex (encTileIndex l) = .ok l := by
  unfold decTileIndex
  have hl := length_encTileIndex l
  have h1 : (encTileIndex l).length % 12 = 0 := by omega
  have h2 : (encTileIndex l).length / 12 = l.length := by omega
  have := decRanges_enc l h []
  simp at this
  simp [h1, h2, this]

end VtProofs.Versatiles
