import VtModel.FmtBytes
/-!
Round-trip lemmas for the byte primitives of `VtModel.FmtBytes`: fixed-width integers (both byte
orders), two's-complement `i32`, LEB128 varints, cursor reads in front of arbitrary trailing bytes.
-/
namespace VtProofs.Fmt
open VtModel VtModel.Fmt

theorem toNat_ofNat_lt {n : Nat} (h : n < 256) : (UInt8.ofNat n).toNat = n := by
  simp; omega

/-! ### big endian -/

@[simp] theorem length_beEnc (n v : Nat) : (beEnc n v).length = n := by
  induction n generalizing v with
  | zero => simp [beEnc]
  | succ n ih => simp [beEnc, ih]

theorem beDec_append_one (l : Bytes) (b : UInt8) : beDec (l ++ [b]) = beDec l * 256 + b.toNat := by
  simp [beDec, List.foldl_append]

theorem beDec_beEnc (n v : Nat) (h : v < 256 ^ n) : beDec (beEnc n v) = v := by
  induction n generalizing v with
  | zero => simp at h; subst h; simp [beEnc, beDec]
  | succ n ih =>
    have h1 : v / 256 < 256 ^ n := by
      apply Nat.div_lt_of_lt_mul; rw [Nat.pow_succ] at h; omega
    have h2 : v % 256 < 256 := Nat.mod_lt _ (by omega)
    rw [beEnc, beDec_append_one, ih _ h1, toNat_ofNat_lt h2]
    omega

theorem readBE_append (n v : Nat) (r : Bytes) (h : v < 256 ^ n) :
    readBE n (beEnc n v ++ r) = .ok (v, r) := by
  have hl : (beEnc n v).length = n := length_beEnc n v
  simp [readBE, List.take_left' hl, List.drop_left' hl, beDec_beEnc n v h]

theorem takeN_append (a r : Bytes) : takeN a.length (a ++ r) = .ok (a, r) := by
  simp [takeN]

theorem takeN_append' (n : Nat) (a r : Bytes) (h : a.length = n) : takeN n (a ++ r) = .ok (a, r) := by
  subst h; exact takeN_append a r

/-! ### little endian -/

@[simp] theorem length_leEnc (n v : Nat) : (leEnc n v).length = n := by
  induction n generalizing v with
  | zero => simp [leEnc]
  | succ n ih => simp [leEnc, ih]

theorem leDec_leEnc (n v : Nat) (h : v < 256 ^ n) : leDec (leEnc n v) = v := by
  induction n generalizing v with
  | zero => simp at h; subst h; simp [leEnc, leDec]
  | succ n ih =>
    have h1 : v / 256 < 256 ^ n := by
      apply Nat.div_lt_of_lt_mul; rw [Nat.pow_succ] at h; omega
    have h2 : v % 256 < 256 := Nat.mod_lt _ (by omega)
    rw [leEnc, leDec, ih _ h1, toNat_ofNat_lt h2]
    omega

theorem readLE_append (n v : Nat) (r : Bytes) (h : v < 256 ^ n) :
    readLE n (leEnc n v ++ r) = .ok (v, r) := by
  have hl : (leEnc n v).length = n := length_leEnc n v
  simp [readLE, List.take_left' hl, List.drop_left' hl, leDec_leEnc n v h]

/-! ### i32 -/

theorem i32ToNat_lt (v : Int) : i32ToNat v < 4294967296 := by
  unfold i32ToNat; omega

theorem natToI32_i32ToNat (v : Int) (h1 : -2147483648 ≤ v) (h2 : v < 2147483648) :
    natToI32 (i32ToNat v) = v := by
  unfold natToI32 i32ToNat; split <;> omega

theorem readI32BE_append (v : Int) (r : Bytes) (h1 : -2147483648 ≤ v) (h2 : v < 2147483648) :
    readI32BE (beEnc 4 (i32ToNat v) ++ r) = .ok (v, r) := by
  have hl : (beEnc 4 (i32ToNat v)).length = 4 := length_beEnc 4 _
  have hb : i32ToNat v < 256 ^ 4 := by have := i32ToNat_lt v; omega
  simp [readI32BE, List.take_left' hl, List.drop_left' hl, beDec_beEnc 4 _ hb, natToI32_i32ToNat v h1 h2]

theorem readI32LE_append (v : Int) (r : Bytes) (h1 : -2147483648 ≤ v) (h2 : v < 2147483648) :
    readI32LE (leEnc 4 (i32ToNat v) ++ r) = .ok (v, r) := by
  have hl : (leEnc 4 (i32ToNat v)).length = 4 := length_leEnc 4 _
  have hb : i32ToNat v < 256 ^ 4 := by have := i32ToNat_lt v; omega
  simp [readI32LE, List.take_left' hl, List.drop_left' hl, leDec_leEnc 4 _ hb, natToI32_i32ToNat v h1 h2]

/-! ### varint -/

theorem pow7_succ (k : Nat) : 2 ^ (7 * (k + 1)) = 128 * 2 ^ (7 * k) := by
  rw [Nat.mul_succ, Nat.pow_add]; omega

/-- key step: reading the encoding of `v` from byte position `k` adds `v · 2^(7k)` -/
theorem readVarintAux_enc (v : Nat) : ∀ (fuel k acc : Nat) (r : Bytes),
    0 < fuel → v < 128 ^ fuel → v * 2 ^ (7 * k) < U64 →
    readVarintAux fuel k acc (varintEnc v ++ r) = .ok (acc + v * 2 ^ (7 * k), r) := by
  induction v using Nat.strongRecOn with
  | _ v ih =>
    intro fuel k acc r hpos hf hv
    cases fuel with
    | zero => omega
    | succ fuel =>
      rw [varintEnc]
      by_cases h : v < 128
      · simp only [h, dite_true, List.cons_append, List.nil_append, readVarintAux]
        have : (UInt8.ofNat v).toNat = v := toNat_ofNat_lt (by omega)
        rw [this]
        have hm : v % 128 = v := Nat.mod_eq_of_lt h
        rw [hm, Nat.mod_eq_of_lt hv]
        simp [h]
      · simp only [h, dite_false, List.cons_append, readVarintAux]
        have hb : (UInt8.ofNat (v % 128 + 128)).toNat = v % 128 + 128 := toNat_ofNat_lt (by omega)
        rw [hb]
        have hnot : ¬ (v % 128 + 128 < 128) := by omega
        have hmod : (v % 128 + 128) % 128 = v % 128 := by omega
        simp only [hnot, if_false, hmod]
        have hP : 0 < 2 ^ (7 * k) := Nat.two_pow_pos _
        have hsmall : v % 128 * 2 ^ (7 * k) ≤ v * 2 ^ (7 * k) :=
          Nat.mul_le_mul_right _ (Nat.mod_le v 128)
        rw [Nat.mod_eq_of_lt (by omega)]
        have hdiv : v / 128 < v := by omega
        have hf' : v / 128 < 128 ^ fuel := by
          apply Nat.div_lt_of_lt_mul; rw [Nat.pow_succ] at hf; omega
        have hsplit : v / 128 * 2 ^ (7 * (k + 1)) + v % 128 * 2 ^ (7 * k) = v * 2 ^ (7 * k) := by
          rw [pow7_succ]
          have := Nat.div_add_mod v 128
          calc v / 128 * (128 * 2 ^ (7 * k)) + v % 128 * 2 ^ (7 * k)
              = (128 * (v / 128) + v % 128) * 2 ^ (7 * k) := by
                rw [Nat.add_mul]; congr 1; ac_rfl
            _ = v * 2 ^ (7 * k) := by rw [this]
        have hv' : v / 128 * 2 ^ (7 * (k + 1)) < U64 := by omega
        have hfuel : 0 < fuel := by
          cases fuel with
          | zero => simp at hf'; omega
          | succ f => omega
        rw [ih (v / 128) hdiv fuel (k + 1) _ r hfuel hf' hv']
        congr 2
        omega

theorem readVarint_enc (v : Nat) (r : Bytes) (h : v < U64) :
    readVarint (varintEnc v ++ r) = .ok (v, r) := by
  have := readVarintAux_enc v 10 0 0 r (by omega) (by simp [U64] at h; omega) (by simpa using h)
  simpa [readVarint] using this

theorem readVarints_enc (vs : List Nat) (r : Bytes) (h : ∀ v ∈ vs, v < U64) :
    readVarints vs.length (varintsEnc vs ++ r) = .ok (vs, r) := by
  induction vs with
  | nil => simp [readVarints, varintsEnc]
  | cons v vs ih =>
    have hv : v < U64 := h v (by simp)
    have hvs : ∀ w ∈ vs, w < U64 := fun w hw => h w (by simp [hw])
    have : varintsEnc (v :: vs) ++ r = varintEnc v ++ (varintsEnc vs ++ r) := by
      simp [varintsEnc]
    rw [this]
    simp only [List.length_cons, readVarints, readVarint_enc v _ hv, ih hvs]

end VtProofs.Fmt
