import VtProofs.Cache
/-! Recency lemmas for `VtProps.C20`. -/
namespace VtModel.Cache

def HasKey (c : Cache) (k : Nat) : Prop := ∃ e ∈ c.items, e.key = k

/-- `k` holds the unique maximal stamp. -/
def Fresh (c : Cache) (k : Nat) : Prop :=
  ∃ e ∈ c.items, e.key = k ∧ e.stamp = c.last ∧ ∀ e' ∈ c.items, e'.key ≠ k → e'.stamp < c.last

/-- `k` cannot be evicted by the next insertion. -/
def Safe (c : Cache) (k : Nat) : Prop := HasKey c k ∧ (c.items.length < c.cap ∨ Fresh c k)

theorem median_lt_of_fresh {c : Cache} (hi : Inv c) {k : Nat} (hf : Fresh c k) (h2 : 2 ≤ c.items.length) :
    ∃ m, median? c.items = some m ∧ m < c.last := by
  obtain ⟨e, he, hek, hes, hothers⟩ := hf
  obtain ⟨l1, l2, hsplit⟩ := List.append_of_mem he
  have hnd := hi.nodup
  rw [hsplit] at hnd
  simp only [List.map_append, List.map_cons] at hnd
  have hnd' := List.nodup_append.mp hnd
  have h1 : ∀ a ∈ l1.map (·.stamp), a < c.last := by
    intro a ha
    rw [List.mem_map] at ha
    obtain ⟨x, hx, rfl⟩ := ha
    apply hothers x (by rw [hsplit]; simp [hx])
    intro hxk
    have := hnd'.2.2 x.key (List.mem_map.mpr ⟨x, hx, rfl⟩) e.key (by simp)
    exact this (by rw [hxk, hek])
  have h2' : ∀ a ∈ l2.map (·.stamp), a < c.last := by
    intro a ha
    rw [List.mem_map] at ha
    obtain ⟨x, hx, rfl⟩ := ha
    apply hothers x (by rw [hsplit]; simp [hx])
    intro hxk
    have hn := (List.nodup_cons.mp hnd'.2.1).1
    apply hn
    rw [List.mem_map]
    exact ⟨x, hx, by rw [hxk, hek]⟩
  unfold median?
  have hst : c.items.map (·.stamp) = l1.map (·.stamp) ++ c.last :: l2.map (·.stamp) := by
    rw [hsplit]; simp [hes]
  rw [hst, sortNat_unique_max _ _ _ h1 h2']
  have hlen : c.items.length = l1.length + l2.length + 1 := by rw [hsplit]; simp; omega
  have hidx : (c.items.length - 1) / 2 < (sortNat (l1.map (·.stamp) ++ l2.map (·.stamp))).length := by
    rw [length_sortNat]; simp; omega
  rw [List.getElem?_append_left hidx]
  refine ⟨_, List.getElem?_eq_getElem hidx, ?_⟩
  have hm := List.getElem_mem hidx
  rw [mem_sortNat, List.mem_append] at hm
  rcases hm with hm | hm
  · exact h1 _ hm
  · exact h2' _ hm

/-- Lemma B: a safe key survives the next insertion of another key. -/
theorem add_keeps_safe {c : Cache} (hi : Inv c) (hcap : 2 ≤ c.cap) {k : Nat} (hs : Safe c k)
    {k' v : Nat} {c' : Cache} {r : Nat} (h : add? c k' v = some (c', r)) : HasKey c' k := by
  obtain ⟨⟨e, he, hek⟩, hor⟩ := hs
  have hins : ∀ c1 : Cache, HasKey c1 k → HasKey (put c1 k' v).1 k := by
    intro c1 ⟨e1, he1, hk1⟩
    unfold put; split
    · exact ⟨e1, he1, hk1⟩
    · exact ⟨e1, List.mem_cons_of_mem _ he1, hk1⟩
  unfold add? at h
  cases hp : prepare? c with
  | none => rw [hp] at h; cases h
  | some c1 =>
    rw [hp] at h
    have hc' : c' = (put c1 k' v).1 := by rw [Option.some.inj h]
    rw [hc']
    apply hins
    unfold prepare? at hp
    by_cases hfull : c.items.length ≥ c.cap
    · have hfresh : Fresh c k := by
        rcases hor with h | h
        · omega
        · exact h
      obtain ⟨m, hm, hlt⟩ := median_lt_of_fresh hi hfresh (by omega)
      simp only [hfull, if_true, cleanup?, hm] at hp
      cases hp
      obtain ⟨e0, he0, hk0, hs0, _⟩ := hfresh
      refine ⟨{ e0 with stamp := 0 }, ?_, hk0⟩
      rw [List.mem_map]
      exact ⟨e0, by simp [List.mem_filter, he0, hs0, hlt], rfl⟩
    · simp only [hfull, if_false] at hp
      cases hp; exact ⟨e, he, hek⟩

theorem lookup_hit_safe {c : Cache} (hi : Inv c) {k : Nat} {v : Nat} (h : (lookup c k).2 = some v) :
    Safe (lookup c k).1 k := by
  unfold lookup at h ⊢
  cases hf : find? c.items k with
  | none => simp [hf] at h
  | some e =>
    obtain ⟨hmem, hk⟩ := find?_key hf
    simp only
    have hin : ({ e with stamp := c.last + 1 } : Entry) ∈
        c.items.map (fun x => if x.key == k then { x with stamp := c.last + 1 } else x) := by
      rw [List.mem_map]; exact ⟨e, hmem, by simp [hk]⟩
    refine ⟨⟨_, hin, hk⟩, Or.inr ⟨_, hin, hk, rfl, ?_⟩⟩
    intro e' he' hne
    simp only [List.mem_map] at he'
    obtain ⟨x, hx, rfl⟩ := he'
    by_cases hxk : x.key = k
    · simp [hxk] at hne
    · have : (x.key == k) = false := by simp [hxk]
      simp only [this]
      have := hi.stamp_le x hx
      simp; omega

/-- after `put` into a cache with room, the key is safe -/
theorem put_safe {c1 : Cache} (hi : Inv c1) (hroom : c1.items.length < c1.cap) (k v : Nat) :
    Safe (put c1 k v).1 k := by
  unfold put
  cases hf : find? c1.items k with
  | some e =>
    obtain ⟨hmem, hk⟩ := find?_key hf
    exact ⟨⟨e, hmem, hk⟩, Or.inl hroom⟩
  | none =>
    refine ⟨⟨_, List.mem_cons_self, rfl⟩, Or.inr ⟨_, List.mem_cons_self, rfl, rfl, ?_⟩⟩
    intro e' he' hne'
    simp only [List.mem_cons] at he'
    rcases he' with rfl | he'
    · simp at hne'
    · have := hi.stamp_le e' he'; simp; omega

theorem add_safe {c : Cache} (hi : Inv c) {k v : Nat} {c' : Cache} {r : Nat}
    (h : add? c k v = some (c', r)) : Safe c' k := by
  obtain ⟨c1, h1, hi1, hcap, hlt, _⟩ := prepare_spec hi
  simp only [add?, h1] at h
  have hc' : c' = (put c1 k v).1 := by rw [Option.some.inj h]
  rw [hc']
  exact put_safe hi1 (by rw [hcap]; exact hlt) k v

end VtModel.Cache
