import VtProofs.VplTree
/-!
# The nesting guard of `parse_vpl` (`bracket_depth`, fix be686a0f) on written pipelines

`bracketDepth` scans the whole text once, tracking quotes and escapes on its own.  Here: that tracking
agrees with the lexer of the parser on every written piece (a well-formed quoted string — whatever raw
and escaped characters it contains, `\\` before the closing quote included — returns the scanner to the
state it was in), so the depth it computes for the text of a written pipeline is exactly the bracket
height of the tree, in front of which any lexically neutral prefix changes nothing.
-/
namespace VtModel.Vpl

def scan (st : Scan) (s : Str) : Scan := s.foldl scanStep st

theorem bracketDepth_eq (s : Str) : bracketDepth s = (scan ⟨0, 0, false, false⟩ s).maxDepth := rfl

theorem scan_append (st : Scan) (a b : Str) : scan st (a ++ b) = scan (scan st a) b := by
  simp [scan, List.foldl_append]

theorem scan_cons (st : Scan) (c : Char) (s : Str) : scan st (c :: s) = scan (scanStep st c) s := rfl
theorem scan_nil (st : Scan) : scan st [] = st := rfl

/-- scanner outside quotes -/
def outSt (dep mx : Nat) : Scan := ⟨dep, mx, false, false⟩
/-- scanner inside quotes, not behind a backslash -/
def inSt (dep mx : Nat) : Scan := ⟨dep, mx, true, false⟩

/-- the maximum never decreases -/
theorem scanStep_max (st : Scan) (c : Char) : st.maxDepth ≤ (scanStep st c).maxDepth := by
  unfold scanStep
  split
  · split
    · exact Nat.le_refl _
    · split
      · exact Nat.le_refl _
      · split <;> exact Nat.le_refl _
  · split
    · exact Nat.le_refl _
    · split
      · exact Nat.le_max_left ..
      · split <;> exact Nat.le_refl _

theorem scan_max (st : Scan) (s : Str) : st.maxDepth ≤ (scan st s).maxDepth := by
  induction s generalizing st with
  | nil => exact Nat.le_refl _
  | cons c s ih => exact Nat.le_trans (scanStep_max st c) (ih _)

theorem bracketDepth_le_append (a b : Str) : bracketDepth a ≤ bracketDepth (a ++ b) := by
  rw [bracketDepth_eq, bracketDepth_eq, scan_append]; exact scan_max _ _

/-- neither quote nor bracket -/
def plainChar (c : Char) : Prop := c ≠ '"' ∧ c ≠ '[' ∧ c ≠ ']'

theorem scanStep_plain (dep mx : Nat) {c : Char} (h : plainChar c) : scanStep (outSt dep mx) c = outSt dep mx := by
  simp [scanStep, outSt, h.1, h.2.1, h.2.2]

/-- `s` is lexically balanced with bracket height `h`: from outside quotes the scanner comes back to the
    same depth outside quotes, having seen `h` more open brackets at most (and exactly) -/
def Bal (s : Str) (h : Nat) : Prop :=
  ∀ dep mx, dep ≤ mx → scan (outSt dep mx) s = outSt dep (max mx (dep + h))

theorem Bal.nil : Bal [] 0 := by
  intro dep mx h; simp only [scan_nil, outSt, Nat.add_zero]; congr; omega

theorem Bal.plain {s : Str} (hs : ∀ c ∈ s, plainChar c) : Bal s 0 := by
  intro dep mx h
  have hm : max mx (dep + 0) = mx := by omega
  rw [hm]
  induction s with
  | nil => rfl
  | cons c s ih =>
    rw [scan_cons, scanStep_plain dep mx (hs c (List.mem_cons_self ..))]
    exact ih (fun d hd => hs d (List.mem_cons_of_mem _ hd))

theorem Bal.append {a b : Str} {h1 h2 : Nat} (ha : Bal a h1) (hb : Bal b h2) : Bal (a ++ b) (max h1 h2) := by
  intro dep mx h
  rw [scan_append, ha dep mx h, hb dep _ (by omega)]
  simp only [outSt]; congr 1; omega

theorem Bal.cast {s : Str} {h h' : Nat} (hs : Bal s h) (e : h = h') : Bal s h' := e ▸ hs

/-- `[` … `]` around a balanced text adds one level -/
theorem Bal.bracket {s : Str} {h : Nat} (hs : Bal s h) : Bal ('[' :: (s ++ [']'])) (h + 1) := by
  intro dep mx hle
  have h1 : scanStep (outSt dep mx) '[' = outSt (dep + 1) (max mx (dep + 1)) := by simp [scanStep, outSt]
  rw [scan_cons, h1, scan_append, hs (dep + 1) _ (by omega)]
  simp only [scan_cons, scan_nil, scanStep, outSt]
  simp
  omega

/-- inside quotes every well-formed written character — raw or escaped — leaves the scanner inside quotes -/
theorem scan_qstr (dep mx : Nat) (qs : List QChar) (hq : ∀ q ∈ qs, q.WF) (r : Str) :
    scan (inSt dep mx) (qstr qs ++ r) = scan (inSt dep mx) r := by
  induction qs with
  | nil => rfl
  | cons q qs ih =>
    have ih' := ih (fun q' h' => hq q' (List.mem_cons_of_mem _ h'))
    have hw := hq q (List.mem_cons_self ..)
    cases q with
    | raw c =>
      rw [qstr_cons_raw, scan_cons]
      have : scanStep (inSt dep mx) c = inSt dep mx := by simp [scanStep, inSt, hw.1, hw.2]
      rw [this, ih']
    | esc e =>
      rw [qstr_cons_esc, scan_cons, scan_cons]
      have h1 : scanStep (inSt dep mx) '\\' = ⟨dep, mx, true, true⟩ := by simp [scanStep, inSt]
      have h2 : scanStep ⟨dep, mx, true, true⟩ e.letter = inSt dep mx := by simp [scanStep, inSt]
      rw [h1, h2, ih']

/-- **the guard agrees with the lexer on quoted strings**: `"` body `"` is neutral for every well-formed
    body (`"C:\\"`, `"\""`, `"[[["`, `""` …) -/
theorem Bal.quoted (qs : List QChar) (hq : ∀ q ∈ qs, q.WF) : Bal ('"' :: (qstr qs ++ ['"'])) 0 := by
  intro dep mx h
  have h1 : scanStep (outSt dep mx) '"' = inSt dep mx := by simp [scanStep, outSt, inSt]
  have h2 : scanStep (inSt dep mx) '"' = outSt dep mx := by simp [scanStep, outSt, inSt]
  rw [scan_cons, h1, scan_qstr dep mx qs hq, scan_cons, h2, scan_nil]
  simp only [outSt]; congr 1; omega

theorem Bal.flatten {X : Type} (chunk : X → Str) (f : X → Nat) (xs : List X) (h : ∀ x ∈ xs, Bal (chunk x) (f x)) :
    Bal ((xs.map chunk).flatten) (listMax f xs) := by
  induction xs with
  | nil => exact Bal.nil
  | cons x xs ih =>
    simp only [List.map_cons, List.flatten_cons, listMax]
    exact Bal.append (h x (List.mem_cons_self ..)) (ih (fun y hy => h y (List.mem_cons_of_mem _ hy)))

/-! ## the pieces of the syntax -/

theorem plainChar_of_isBare {c : Char} (h : isBare c = true) : plainChar c := by
  refine ⟨?_, ?_, ?_⟩ <;> (intro e; rw [e] at h; revert h; decide)

theorem plainChar_ws (c : WsChar) : plainChar c.toChar := by cases c <;> exact ⟨by decide, by decide, by decide⟩

theorem Bal.ws (w : Ws) : Bal w.str 0 := Bal.plain (by
  intro c hc; obtain ⟨x, _, rfl⟩ := List.mem_map.1 hc; exact plainChar_ws x)

theorem Bal.ws1 (w : Ws1) : Bal w.str 0 := Bal.plain (by
  intro c hc
  rcases List.mem_cons.1 hc with rfl | h
  · exact plainChar_ws _
  · obtain ⟨x, _, rfl⟩ := List.mem_map.1 h; exact plainChar_ws x)

theorem Bal.ident {s : Str} (hs : IsIdent s) : Bal s 0 := by
  obtain ⟨c, t, rfl, hc, ht⟩ := hs
  refine Bal.plain ?_
  intro d hd
  rcases List.mem_cons.1 hd with rfl | h
  · exact plainChar_of_isBare (isBare_of_isIdentRest (isIdentRest_of_isAlpha hc))
  · exact plainChar_of_isBare (isBare_of_isIdentRest (ht d h))

theorem Bal.char {c : Char} (h : plainChar c) (s : Str) {k : Nat} (hs : Bal s k) : Bal (c :: s) k := by
  have := Bal.append (Bal.plain (s := [c]) (by intro d hd; simp at hd; rw [hd]; exact h)) hs
  simpa using this

theorem Bal.item (it : CItem) (h : it.WF) : Bal it.str 0 := by
  cases it with
  | bare s => exact Bal.plain (fun c hc => plainChar_of_isBare (h.2 c hc))
  | quoted qs => exact Bal.quoted qs h

def CVal.height : CVal → Nat
  | .scalar _ => 0
  | .list _ _ _ => 1

theorem Bal.chunkItem (x : Ws × Ws × CItem) (h : x.2.2.WF) : Bal (chunkItem x) 0 := by
  have := Bal.append (Bal.ws x.1) (Bal.char (c := ',') ⟨by decide, by decide, by decide⟩ _
    (Bal.append (Bal.ws x.2.1) (Bal.item x.2.2 h)))
  simpa [VtModel.Vpl.chunkItem] using this

theorem listMax_zero {X : Type} (xs : List X) : listMax (fun _ => 0) xs = 0 := by
  induction xs with
  | nil => rfl
  | cons x xs ih => simp [listMax, ih]

theorem Bal.val (v : CVal) (h : v.WF) : Bal v.str v.height := by
  cases v with
  | scalar it => exact Bal.item it h
  | list w0 items w1 =>
    cases items with
    | none =>
      have hb := Bal.bracket (Bal.append (Bal.ws w0) (Bal.ws w1))
      simpa [CVal.str, CVal.height] using hb
    | some x =>
      obtain ⟨it, more⟩ := x
      have hf := Bal.flatten VtModel.Vpl.chunkItem (fun _ => 0) more (fun y hy => Bal.chunkItem y (h.2 y hy))
      rw [listMax_zero] at hf
      have hb := Bal.bracket (Bal.append (Bal.ws w0) (Bal.append (Bal.item it h.1) (Bal.append hf (Bal.ws w1))))
      simpa [CVal.str, CVal.height] using hb

def CProp.height (p : CProp) : Nat := p.val.height

theorem Bal.prop (p : CProp) (h : p.WF) : Bal p.str p.height := by
  have := Bal.append (Bal.ident h.1) (Bal.append (Bal.ws p.wa)
    (Bal.char (c := '=') ⟨by decide, by decide, by decide⟩ _ (Bal.append (Bal.ws p.wb) (Bal.val p.val h.2))))
  simpa [CProp.str, CProp.height] using this

theorem Bal.chunkProp (x : Ws1 × CProp) (h : x.2.WF) : Bal (chunkProp x) x.2.height := by
  have := Bal.append (Bal.ws1 x.1) (Bal.prop x.2 h)
  simpa [VtModel.Vpl.chunkProp] using this

section generic
variable {Pc : Type}

/-- bracket height of a source list -/
def srcsHeight (ph : Pc → Nat) : Option (CSrcs Pc) → Nat
  | none => 0
  | some (.empty _) => 1
  | some (.some p more) => max (ph p) (listMax ph more) + 1

/-- bracket height of an operation as written: value lists count 1, a source list 1 + its content -/
def CNodeF.height (ph : Pc → Nat) (n : CNodeF Pc) : Nat :=
  max (listMax (fun x => x.2.height) n.props) (srcsHeight ph n.srcs)

theorem Bal.chunkPipe (ps : Pc → Str) (ph : Pc → Nat) (p : Pc) (h : Bal (ps p) (ph p)) : Bal (chunkPipe ps p) (ph p) :=
  Bal.char (c := ',') ⟨by decide, by decide, by decide⟩ _ h

theorem Bal.srcs (ps : Pc → Str) (ph : Pc → Nat) (wf : Pc → Prop) (hp : ∀ p, wf p → Bal (ps p) (ph p))
    (s : Option (CSrcs Pc)) (hs : srcsWF wf s) : Bal (srcsStr ps s) (srcsHeight ph s) := by
  cases s with
  | none => exact Bal.nil
  | some s =>
    cases s with
    | empty w =>
      have := Bal.bracket (Bal.ws w)
      simpa [srcsStr, srcsHeight] using this
    | some p more =>
      have hf := Bal.flatten (VtModel.Vpl.chunkPipe ps) ph more (fun q hq => Bal.chunkPipe ps ph q (hp q (hs.2 q hq)))
      have := Bal.bracket (Bal.append (hp p hs.1) hf)
      simpa [srcsStr, srcsHeight] using this

theorem Bal.node (ps : Pc → Str) (ph : Pc → Nat) (wf : Pc → Prop) (hp : ∀ p, wf p → Bal (ps p) (ph p))
    (n : CNodeF Pc) (hn : n.WF wf) : Bal (n.str ps) (n.height ph) := by
  have hprops := Bal.flatten VtModel.Vpl.chunkProp (fun x => x.2.height) n.props (fun x hx => Bal.chunkProp x (hn.2.1 x hx))
  have := Bal.append (Bal.ws n.pre) (Bal.append (Bal.ident hn.1) (Bal.append hprops
    (Bal.append (Bal.ws n.wS) (Bal.append (Bal.srcs ps ph wf hp n.srcs hn.2.2) (Bal.ws n.post)))))
  have h2 : Bal (n.str ps)
      (max 0 (max 0 (max (listMax (fun x => x.2.height) n.props) (max 0 (max (srcsHeight ph n.srcs) 0))))) := this
  exact Bal.cast h2 (by simp only [CNodeF.height]; omega)

end generic

def CPipeF.height {N : Type} (nh : N → Nat) (p : CPipeF N) : Nat := max (nh p.first) (listMax nh p.more)

theorem Bal.pipe {N : Type} (ns : N → Str) (nh : N → Nat) (wf : N → Prop) (hn : ∀ n, wf n → Bal (ns n) (nh n))
    (p : CPipeF N) (hp : p.WF wf) : Bal (p.str ns) (p.height nh) := by
  have hf := Bal.flatten (chunkNode ns) nh p.more (fun q hq =>
    Bal.char (c := '|') ⟨by decide, by decide, by decide⟩ _ (hn q (hp.2 q hq)))
  exact Bal.append (hn p.first hp.1) hf

def noHeight : Empty → Nat := fun e => nomatch e

/-- bracket height of a written operation / pipeline -/
def nodeHeight : (d : Nat) → CNode d → Nat
  | 0 => CNodeF.height noHeight
  | d + 1 => CNodeF.height (CPipeF.height (nodeHeight d))
def heightOf (d : Nat) (p : CPipe d) : Nat := CPipeF.height (nodeHeight d) p

theorem bal_node (d : Nat) : ∀ n : CNode d, nodeWF d n → Bal (nodeStr d n) (nodeHeight d n) := by
  induction d with
  | zero => intro n hn; exact Bal.node noStr noHeight noWF (fun p => nomatch p) n hn
  | succ d ih =>
    intro n hn
    exact Bal.node (CPipeF.str (nodeStr d)) (CPipeF.height (nodeHeight d)) (CPipeF.WF (nodeWF d))
      (fun p hp => Bal.pipe (nodeStr d) (nodeHeight d) (nodeWF d) ih p hp) n hn

/-- the text of a written pipeline is lexically balanced, with the bracket height of the tree -/
theorem bal_render (d : Nat) (p : CPipe d) (hp : WF d p) : Bal (render d p) (heightOf d p) :=
  Bal.pipe (nodeStr d) (nodeHeight d) (nodeWF d) (bal_node d) p hp

/-- **what the guard computes on a written pipeline is the bracket height of its tree** -/
theorem bracketDepth_render (d : Nat) (p : CPipe d) (hp : WF d p) : bracketDepth (render d p) = heightOf d p := by
  rw [bracketDepth_eq]
  have := bal_render d p hp 0 0 (Nat.le_refl _)
  simp only [outSt] at this
  rw [this]; simp

/-- a lexically neutral prefix (plain text and complete quoted strings, in any order) is invisible to the guard -/
theorem bracketDepth_prefix {pre : Str} (hpre : Bal pre 0) (s : Str) : bracketDepth (pre ++ s) = bracketDepth s := by
  rw [bracketDepth_eq, bracketDepth_eq, scan_append]
  have := hpre 0 0 (Nat.le_refl _)
  simp only [outSt] at this
  rw [this]; rfl

/-- `name[name[name[…` : `k` brackets opened one inside the other -/
def opens (names : List Str) : Str := (names.map fun n => n ++ ['[']).flatten

theorem scan_opens (names : List Str) (hn : ∀ n ∈ names, ∀ c ∈ n, plainChar c) (dep mx : Nat) (h : dep ≤ mx) :
    (scan (outSt dep mx) (opens names)).maxDepth = max mx (dep + names.length) ∧
    scan (outSt dep mx) (opens names) = outSt (dep + names.length) (max mx (dep + names.length)) := by
  induction names generalizing dep mx with
  | nil => simp [opens, scan_nil, outSt]; omega
  | cons n ns ih =>
    have hpl := Bal.plain (hn n (List.mem_cons_self ..)) dep mx h
    have hm : max mx (dep + 0) = mx := by omega
    rw [hm] at hpl
    have h1 : scanStep (outSt dep mx) '[' = outSt (dep + 1) (max mx (dep + 1)) := by simp [scanStep, outSt]
    have ih' := ih (fun m hm' => hn m (List.mem_cons_of_mem _ hm')) (dep + 1) (max mx (dep + 1)) (by omega)
    have e : opens (n :: ns) = n ++ ('[' :: opens ns) := by simp [opens]
    rw [e, scan_append, hpl, scan_cons, h1]
    constructor
    · rw [ih'.1]; simp only [List.length_cons]; omega
    · rw [ih'.2]; simp only [outSt, List.length_cons]; congr 1 <;> omega

theorem bracketDepth_opens (names : List Str) (hn : ∀ n ∈ names, ∀ c ∈ n, plainChar c) :
    bracketDepth (opens names) = names.length := by
  rw [bracketDepth_eq]
  have := (scan_opens names hn 0 0 (Nat.le_refl _)).1
  simp only [outSt] at this
  rw [this]; omega

end VtModel.Vpl

namespace VtModel.Vpl

theorem listMax_le {X : Type} (f : X → Nat) (xs : List X) (k : Nat) (h : ∀ x ∈ xs, f x ≤ k) : listMax f xs ≤ k := by
  induction xs with
  | nil => exact Nat.zero_le _
  | cons x xs ih =>
    have h1 := h x (List.mem_cons_self ..)
    have h2 := ih (fun y hy => h y (List.mem_cons_of_mem _ hy))
    simp only [listMax]; omega

/-- **sequential is not nested**: for any number of balanced pieces written one after the other the guard sees
    the largest height among them, not their sum (2000 times `[]` is depth 1) -/
theorem bracketDepth_sequence {X : Type} (chunk : X → Str) (f : X → Nat) (xs : List X)
    (h : ∀ x ∈ xs, Bal (chunk x) (f x)) : bracketDepth ((xs.map chunk).flatten) = listMax f xs := by
  rw [bracketDepth_eq]
  have := Bal.flatten chunk f xs h 0 0 (Nat.le_refl _)
  simp only [outSt] at this
  rw [this]; simp

theorem bracketDepth_sequence_le {X : Type} (chunk : X → Str) (f : X → Nat) (xs : List X) (k : Nat)
    (h : ∀ x ∈ xs, Bal (chunk x) (f x)) (hk : ∀ x ∈ xs, f x ≤ k) : bracketDepth ((xs.map chunk).flatten) ≤ k := by
  rw [bracketDepth_sequence chunk f xs h]; exact listMax_le f xs k hk

/-- `[` `]` is balanced with height 1 -/
theorem Bal.emptyBrackets : Bal ['[', ']'] 1 := by
  have := Bal.bracket Bal.nil
  simpa using this

end VtModel.Vpl
