import VtProofs.VplTree
/-!
# VPL: rejection of whole texts, typed parameters, operation lookup
-/
namespace VtModel.Vpl

/-! ## rejection at the level of the whole text -/

/-- **missing `=`** (whole text): `name <ws> word …` where the word is not followed by `=` is rejected,
    whatever comes afterwards. -/
theorem parseVpl_missing_eq {name k : Str} (hn : IsIdent name) (hk : IsIdent k) (w : Ws1) {r : Str}
    (hr : NoHead isIdentRest r) (hne : ∀ t, dropWs r ≠ '=' :: t) :
    parseVpl (name ++ (w.str ++ (k ++ r))) = .err := by
  obtain ⟨c, t, hc, hcw⟩ := IsIdent.head hn
  obtain ⟨c', t', hc', hcw'⟩ := IsIdent.head hk
  have h1 : parseIdent (name ++ (w.str ++ (k ++ r))) = .ok (w.str ++ (k ++ r)) name :=
    parseIdent_ok hn (NW.identRest (NW.ws1 w _))
  have h2 := parseProperty_missing_eq hk hr hne
  simp only [parseVpl, parseVplCore, parsePipeline, parsePipelineWith, ws0_eq, R.bind_ok, sepList1, parseNode, dropWs_idem,
    dropWs_of_headNotWs hc hcw, h1, dropWs_ws1, dropWs_of_headNotWs hc' hcw', sepList0, h2, R.bind_failure]
  split <;> rfl

/-- **missing `]`**: a source list that is still open at the end of the text is a hard failure of
    `parse_sources` (for every correct inner pipeline parser). -/
theorem parseSources_unclosed {Pc : Type} (pp : P Pipeline) (ps : Pc → Str) (pt : Pc → Pipeline) (wf : Pc → Prop)
    (hpp : PipeOK pp ps pt wf) (p : Pc) (more : List Pc) (hp : wf p) (hm : ∀ q ∈ more, wf q) :
    parseSources pp ('[' :: (ps p ++ (more.map (chunkPipe ps)).flatten)) = .failure := by
  have hst : StopP ((more.map (chunkPipe ps)).flatten ++ []) := by
    cases more with
    | nil => exact StopP.nil
    | cons x xs => exact stopP_cons_comma _
  have h1 := hpp p hp (dropWs (ps p ++ ((more.map (chunkPipe ps)).flatten ++ []))) _ hst (dropWs_idem _)
  have hloop := sepLoop_chunks (pchar ',') pp (chunkPipe ps) pt StopP more []
    (by
      intro x hx tail ht
      refine ⟨ps x ++ tail, ?_, hpp x (hm x hx) _ _ ht rfl⟩
      simp [chunkPipe, pchar])
    (by intro x _ h; simp [chunkPipe] at h)
    (by intro x _ tail; exact stopP_cons_comma _)
    StopP.nil (Or.inl rfl)
  have hfuel : more.length < ((more.map (chunkPipe ps)).flatten ++ []).length + 1 := by
    have := length_le_flatten (chunkPipe ps) more (by intro x _ h; simp [chunkPipe] at h)
    simp only [List.length_append]; omega
  simp only [List.append_nil] at h1 hloop hfuel
  simp only [parseSources, opt, pchar, if_true, R.bind_ok, ws0_eq, sepList0, h1, hloop _ [pt p] hfuel]
  rfl

/-- **missing `]`** (whole text): an operation whose source list — any written pipelines separated by
    commas — is still open at the end of the text is rejected. -/
theorem parseVpl_unclosed {name : Str} (hn : IsIdent name) (d : Nat) (p : CPipe d) (more : List (CPipe d))
    (hp : WF d p) (hm : ∀ q ∈ more, WF d q) :
    parseVpl (name ++ '[' :: (render d p ++ (more.map (chunkPipe (render d))).flatten)) = .err := by
  obtain ⟨c, t, hc, hcw⟩ := IsIdent.head hn
  -- fuel: the text is longer than every nesting depth inside it
  let body := render d p ++ (more.map (chunkPipe (render d))).flatten
  have hlen_p := depthOf_len d p hp
  have hlen_q : ∀ q ∈ more, depthOf d q + 1 ≤ body.length := by
    intro q hq
    have h1 := depthOf_len d q (hm q hq)
    have h2 : (chunkPipe (render d) q).length ≤ ((more.map (chunkPipe (render d))).flatten).length := by
      have := listMax_le_flatten (fun x => (chunkPipe (render d) x).length) (chunkPipe (render d)) more (fun _ _ => Nat.le_refl _)
      exact Nat.le_trans (le_listMax (fun x => (chunkPipe (render d) x).length) more q hq) this
    simp only [chunkPipe, List.length_cons] at h2
    simp only [body, List.length_append]; omega
  have hname : 1 ≤ name.length := by rw [hc]; simp
  obtain ⟨k, hk⟩ : ∃ k, (name ++ '[' :: body).length = k + 2 := ⟨(name ++ '[' :: body).length - 2, by
    simp only [List.length_append, List.length_cons]; omega⟩
  have hkp : depthOf d p ≤ k := by
    simp only [List.length_append, List.length_cons, body] at hk; omega
  have hkq : ∀ q ∈ more, depthOf d q ≤ k := by
    intro q hq; have := hlen_q q hq
    simp only [List.length_append, List.length_cons] at hk; omega
  have hpp : PipeOK (parsePipeline (k + 2)) (render d) (treeOf d)
      (CPipeF.WF (fun n => nodeWF d n ∧ nodeDepth d n ≤ k)) := pipe_ok _ _ _ _ (node_fam d k)
  have hs : parseSources (parsePipeline (k + 2)) ('[' :: body) = .failure :=
    parseSources_unclosed (parsePipeline (k + 2)) (render d) (treeOf d) _ hpp p more
    (pipeWF_depth _ _ p k hp hkp) (fun q hq => pipeWF_depth _ _ q k (hm q hq) (hkq q hq))
  have h1 : parseIdent (name ++ '[' :: body) = .ok ('[' :: body) name :=
    parseIdent_ok hn (NoHead.cons (by rfl) _)
  have h2 : parseProperty ('[' :: body) = .error := parseProperty_error (NoHead.cons (by rfl) _)
  have hcore : parseVplCore (name ++ '[' :: body) = .err := by
    simp only [parseVplCore, hk]
    show (match parsePipelineWith (parseNode (parsePipeline (k + 2))) (name ++ '[' :: body) with
      | .ok [] p => Verdict.ok p | .ok (_ :: _) _ => .err | .error => .err | .failure => .err | .oof => .oof) = .err
    simp only [parsePipelineWith, ws0_eq, R.bind_ok, sepList1, parseNode, dropWs_idem, dropWs_of_headNotWs hc hcw, h1,
      dropWs_cons_of_not (by rfl : isWs '[' = false), sepList0, h2, hs, R.bind_failure]
  show parseVpl (name ++ '[' :: body) = .err
  simp only [parseVpl, hcore]
  split <;> rfl

/-! ## typed parameters -/

theorem fieldOk_missing_required (props : List (Str × List Str)) (f : Str) (h : lookupProp props f = none) :
    fieldOk props f .strReq = false ∧ fieldOk props f .u8Req = false ∧ fieldOk props f .f64x4Req = false := by
  simp [fieldOk, getProperty, getUnsigned, getArray4, required, h]

/-- a scalar parameter given several values (`k=[1,2]`, `k=1 k=2`) or none (`k=[]`) is an error -/
theorem fieldOk_not_single (props : List (Str × List Str)) (f : Str) (vs : List Str)
    (h : lookupProp props f = some vs) (hl : vs.length ≠ 1) :
    fieldOk props f .strReq = false ∧ fieldOk props f .strOpt = false ∧ fieldOk props f .bool = false ∧
    fieldOk props f .u8Req = false ∧ fieldOk props f .u8Opt = false ∧ fieldOk props f .u32Opt = false ∧
    fieldOk props f .f32Opt = false := by
  have hg : getProperty props f = .err := by
    cases vs with
    | nil => simp [getProperty, h]
    | cons v vs =>
      cases vs with
      | nil => simp at hl
      | cons v' vs' => simp [getProperty, h]
  simp [fieldOk, getBool, getUnsigned, getFloat, required, hg]

theorem fieldOk_bad_number (props : List (Str × List Str)) (f v : Str) (max : Nat)
    (h : lookupProp props f = some [v]) (hv : parseUnsigned max v = none) :
    getUnsigned max props f = .err := by
  simp [getUnsigned, getProperty, h, hv]

theorem fieldOk_bad_u8 (props : List (Str × List Str)) (f v : Str)
    (h : lookupProp props f = some [v]) (hv : parseUnsigned 255 v = none) :
    fieldOk props f .u8Opt = false ∧ fieldOk props f .u8Req = false := by
  simp [fieldOk, required, fieldOk_bad_number props f v 255 h hv]

/-- a boolean parameter that is none of `1 true yes ok 0 false no` (case-insensitive, trimmed) is an error -/
theorem fieldOk_bad_bool (props : List (Str × List Str)) (f v : Str) (h : lookupProp props f = some [v])
    (hw : ∀ w ∈ ["1", "true", "yes", "ok", "0", "false", "no"], lower (trimWs v) ≠ w.toList) :
    fieldOk props f .bool = false := by
  have h1 : lower (trimWs v) ≠ ['1'] := hw "1" (by simp)
  have h2 : lower (trimWs v) ≠ ['t', 'r', 'u', 'e'] := hw "true" (by simp)
  have h3 : lower (trimWs v) ≠ ['y', 'e', 's'] := hw "yes" (by simp)
  have h4 : lower (trimWs v) ≠ ['o', 'k'] := hw "ok" (by simp)
  have h5 : lower (trimWs v) ≠ ['0'] := hw "0" (by simp)
  have h6 : lower (trimWs v) ≠ ['f', 'a', 'l', 's', 'e'] := hw "false" (by simp)
  have h7 : lower (trimWs v) ≠ ['n', 'o'] := hw "no" (by simp)
  simp [fieldOk, getBool, getProperty, h, h1, h2, h3, h4, h5, h6, h7]

theorem fieldOk_bad_array (props : List (Str × List Str)) (f : Str) (vs : List Str)
    (h : lookupProp props f = some vs) (hb : vs.length ≠ 4 ∨ vs.all floatOk = false) :
    fieldOk props f .f64x4Req = false ∧ fieldOk props f .f64x4Opt = false := by
  have : getArray4 props f = .err := by
    simp only [getArray4, h]
    rcases hb with hb | hb
    · simp [hb]
    · simp [hb]
  simp [fieldOk, required, this]

/-- one field that does not decode makes the whole operation fail (`?` in the generated `from_vpl_node`) -/
theorem decodeOk_field (props : List (Str × List Str)) (fields : List (Str × PTy)) (f : Str) (ty : PTy)
    (hm : (f, ty) ∈ fields) (h : fieldOk props f ty = false) : decodeOk props fields = false := by
  simp only [decodeOk, Bool.and_eq_false_iff]
  right
  rw [List.all_eq_false]
  exact ⟨(f, ty), hm, by simp [h]⟩

/-- a parameter the operation does not declare is an error -/
theorem decodeOk_unknown_key (props : List (Str × List Str)) (fields : List (Str × PTy)) (k : Str) (vs : List Str)
    (hk : (k, vs) ∈ props) (hn : ∀ f ∈ fields, f.1 ≠ k) : decodeOk props fields = false := by
  simp only [decodeOk, Bool.and_eq_false_iff]
  left
  simp only [keysKnown]
  rw [List.all_eq_false]
  refine ⟨(k, vs), hk, ?_⟩
  simp only [Bool.not_eq_true, List.any_eq_false]
  intro f hf
  simpa using hn f hf

/-- unknown read operation (head of a pipeline) -/
theorem build_unknown_read (name : Str) (props : List (Str × List Str)) (sources : List (List Node)) (rest : List Node)
    (h : findOp true name = none) : buildPipeline (.mk name props sources :: rest) = none := by
  simp [buildPipeline, buildRead, h]

/-- unknown transform operation (anywhere behind the head) -/
theorem build_unknown_transform (fmt name : Str) (props : List (Str × List Str)) (sources : List (List Node))
    (rest : List Node) (h : findOp false name = none) : buildTail fmt (.mk name props sources :: rest) = none := by
  simp [buildTail, buildTran, h]

/-- parameters that do not decode make the read operation — hence the pipeline — fail -/
theorem build_read_decode (name : Str) (props : List (Str × List Str)) (sources : List (List Node)) (rest : List Node)
    (o : OpSig) (h : findOp true name = some o) (hd : decodeOk props o.fields = false) :
    buildPipeline (.mk name props sources :: rest) = none := by
  simp [buildPipeline, buildRead, h, hd]

theorem build_tran_decode (fmt name : Str) (props : List (Str × List Str)) (sources : List (List Node)) (rest : List Node)
    (o : OpSig) (h : findOp false name = some o) (hd : decodeOk props o.fields = false) :
    buildTail fmt (.mk name props sources :: rest) = none := by
  simp [buildTail, buildTran, h, hd]

/-- the empty pipeline does not build -/
theorem build_empty : buildPipeline [] = none := by simp [buildPipeline]

/-! ## operation table, geographic boxes, paths -/

/-- every declared operation is found under its own name in its own position, and only there -/
theorem findOp_table : ∀ o ∈ opTable, findOp o.read o.name = some o ∧ findOp (!o.read) o.name = none := by decide

/-- a box needs exactly four numbers -/
theorem bboxOk_length (vs : List Str) (h : bboxOk vs = true) : vs.length = 4 := by
  unfold bboxOk at h
  split at h
  · rename_i w s e n heq
    have := congrArg List.length heq
    simpa using this
  · cases h

/-- `filter_bbox` whose numbers fail `GeoBBox::check` (reversed, out of range, inf, nan) is not built -/
theorem build_bad_bbox (fmt : Str) (props : List (Str × List Str)) (sources : List (List Node)) (rest : List Node)
    (h : bboxOk ((lookupProp props "bbox".toList).getD []) = false) :
    buildTail fmt (.mk "filter_bbox".toList props sources :: rest) = none := by
  have hf : findOp false "filter_bbox".toList = some ⟨"filter_bbox".toList, false, false, [("bbox".toList, .f64x4Req)]⟩ := by decide
  have h1 : ¬ ("filter_bbox".toList = "vectortiles_update_properties".toList) := by decide
  have hbt : buildTran fmt (.mk "filter_bbox".toList props sources) = none := by
    simp only [buildTran, hf]
    split
    · rfl
    · simp; exact h
  simp only [buildTail, hbt]

/-- an absolute file name stands for itself -/
theorem pathJoin_absolute (dir t : Str) : pathJoin dir ('/' :: t) = '/' :: t := rfl

/-- a relative file name is put behind the directory of the VPL file, with one separator -/
theorem pathJoin_relative (dir name : Str) (hn : ∀ t, name ≠ '/' :: t) (hd : dir ≠ []) (hs : dir.getLast? ≠ some '/') :
    pathJoin dir name = dir ++ '/' :: name := by
  unfold pathJoin
  cases name with
  | nil => cases dir with
    | nil => exact absurd rfl hd
    | cons c t => simp [hs]
  | cons c t =>
    have hc : c ≠ '/' := fun e => hn t (by rw [e])
    cases dir with
    | nil => exact absurd rfl hd
    | cons d u => simp [hs]
    all_goals skip

/-- what `from_container` hands to the reader is the name resolved **once** (fix 2ce988ce) … -/
theorem readerPath_once (dir name : Str) : readerPath dir name = resolvePath dir name := rfl

/-- … resolving twice, as the code did, is different for a relative directory -/
theorem double_join_differs :
    pathJoin "rel".toList (pathJoin "rel".toList "x".toList) ≠ pathJoin "rel".toList "x".toList := by decide

end VtModel.Vpl
