import VtProofs.BBoxSet
/-! `iter_coords`, `count_tiles` and the index ↔ coordinate conversion. -/
namespace VtModel.BBox

/-- the row-major grid `ys × xs` -/
def rows (ys xs : List Nat) : List (Nat × Nat) := ys.flatMap fun y => xs.map fun x => (x, y)

theorem mem_rows {ys xs : List Nat} {x y : Nat} : (x, y) ∈ rows ys xs ↔ y ∈ ys ∧ x ∈ xs := by
  simp only [rows, List.mem_flatMap, List.mem_map, Prod.mk.injEq]
  constructor
  · rintro ⟨y', hy, x', hx, rfl, rfl⟩; exact ⟨hy, hx⟩
  · rintro ⟨hy, hx⟩; exact ⟨y, hy, x, hx, rfl, rfl⟩

theorem length_rows (ys xs : List Nat) : (rows ys xs).length = ys.length * xs.length := by
  induction ys with
  | nil => simp [rows]
  | cons y ys ih =>
    simp only [rows, List.flatMap_cons, List.length_append, List.length_map, List.length_cons] at ih ⊢
    rw [ih, Nat.add_mul]; omega

/-- row-major order: `(y, x)` lexicographically -/
def rowMajorLt (p q : Nat × Nat) : Prop := p.2 < q.2 ∨ (p.2 = q.2 ∧ p.1 < q.1)

theorem pairwise_rows {ys xs : List Nat} (hy : ys.Pairwise (· < ·)) (hx : xs.Pairwise (· < ·)) :
    (rows ys xs).Pairwise rowMajorLt := by
  unfold rows
  rw [List.pairwise_flatMap]
  constructor
  · intro y _
    rw [List.pairwise_map]
    exact hx.imp (fun h => Or.inr ⟨rfl, h⟩)
  · apply hy.imp
    intro a b hab p hp q hq
    simp only [List.mem_map] at hp hq
    obtain ⟨_, _, rfl⟩ := hp
    obtain ⟨_, _, rfl⟩ := hq
    exact Or.inl hab

theorem getElem?_rows (ys xs : List Nat) (i j : Nat) (hj : j < xs.length) :
    (rows ys xs)[i * xs.length + j]? = (ys[i]?).bind (fun y => (xs[j]?).map (fun x => (x, y))) := by
  induction ys generalizing i with
  | nil => simp [rows]
  | cons y ys ih =>
    simp only [rows, List.flatMap_cons] at ih ⊢
    cases i with
    | zero =>
      simp only [Nat.zero_mul, Nat.zero_add, List.getElem?_cons_zero, Option.bind_some]
      rw [List.getElem?_append_left (by simpa using hj)]
      simp
    | succ i =>
      rw [List.getElem?_append_right (by simp [Nat.add_mul]; omega)]
      simp only [List.length_map, List.getElem?_cons_succ]
      have : (i + 1) * xs.length + j - xs.length = i * xs.length + j := by
        rw [Nat.add_mul]; omega
      rw [this]
      exact ih i

theorem iterCoords_eq_rows (b : BBox) :
    b.iterCoords = rows (List.range' b.ymin (b.ymax + 1 - b.ymin)) (List.range' b.xmin (b.xmax + 1 - b.xmin)) := by
  unfold iterCoords rows
  split
  · rename_i h
    have : b.xmax + 1 - b.xmin = 0 := by omega
    simp [this]
  · rfl

/-- **enumeration, membership**: `iter_coords` yields exactly the coordinates the box contains -/
theorem mem_iterCoords (b : BBox) (x y : Nat) : (x, y) ∈ b.iterCoords ↔ mem b x y := by
  rw [iterCoords_eq_rows, mem_rows, List.mem_range'_1, List.mem_range'_1]
  unfold mem; omega

/-- **enumeration, order**: strictly increasing in row-major order, hence duplicate-free -/
theorem iterCoords_sorted (b : BBox) : b.iterCoords.Pairwise rowMajorLt := by
  rw [iterCoords_eq_rows]
  exact pairwise_rows (List.pairwise_lt_range' 1) (List.pairwise_lt_range' 1)

theorem iterCoords_nodup (b : BBox) : b.iterCoords.Nodup := by
  apply (iterCoords_sorted b).imp
  intro p q h heq
  subst heq
  unfold rowMajorLt at h; omega

/-- **tile count** = number of enumerated coordinates (all empty encodings give 0) -/
theorem countTiles_eq_length (b : BBox) : b.countTiles = b.iterCoords.length := by
  rw [iterCoords_eq_rows, length_rows, List.length_range', List.length_range']
  unfold countTiles width height
  split <;> split <;> rename_i h1 h2
  · have : b.xmax + 1 - b.xmin = 0 := by omega
    simp [this]
  · have : b.xmax + 1 - b.xmin = 0 := by omega
    simp [this]
  · have : b.ymax + 1 - b.ymin = 0 := by omega
    simp [this]
  · have e1 : b.xmax + 1 - b.xmin = b.xmax - b.xmin + 1 := by omega
    have e2 : b.ymax + 1 - b.ymin = b.ymax - b.ymin + 1 := by omega
    rw [e1, e2, Nat.mul_comm]

theorem countTiles_zero_iff (b : BBox) : b.countTiles = 0 ↔ b.isEmpty = true := by
  unfold countTiles width height isEmpty
  split <;> split <;> simp <;> omega

/-- **index of a coordinate**: never panics; errors exactly outside the box; inside it returns the
    position of the coordinate in the row-major enumeration -/
theorem tileIndex_spec (b : BBox) (x y : Nat) :
    (mem b x y → ∃ i, b.tileIndex x y = .ok i ∧ b.iterCoords[i]? = some (x, y) ∧ i < b.countTiles) ∧
    (¬ mem b x y → b.tileIndex x y = .err) := by
  constructor
  · intro hm
    have hc := (contains2_iff b x y).mpr hm
    unfold mem at hm
    refine ⟨(y - b.ymin) * (b.xmax + 1 - b.xmin) + (x - b.xmin), by simp [tileIndex, hc], ?_, ?_⟩
    · rw [iterCoords_eq_rows]
      have hw : (List.range' b.xmin (b.xmax + 1 - b.xmin)).length = b.xmax + 1 - b.xmin := List.length_range'
      have := getElem?_rows (List.range' b.ymin (b.ymax + 1 - b.ymin)) (List.range' b.xmin (b.xmax + 1 - b.xmin))
        (y - b.ymin) (x - b.xmin) (by rw [hw]; omega)
      rw [hw] at this
      rw [this, List.getElem?_range' (by omega), List.getElem?_range' (by omega)]
      simp only [Nat.one_mul, Option.bind_some, Option.map_some, Option.some.injEq, Prod.mk.injEq]
      omega
    · unfold countTiles width height
      have h1 : ¬ b.xmax < b.xmin := by omega
      have h2 : ¬ b.ymax < b.ymin := by omega
      simp only [h1, h2, if_false]
      have e1 : b.xmax + 1 - b.xmin = b.xmax - b.xmin + 1 := by omega
      rw [e1, Nat.mul_comm (b.xmax - b.xmin + 1)]
      have hy : y - b.ymin ≤ b.ymax - b.ymin := by omega
      have hx : x - b.xmin < b.xmax - b.xmin + 1 := by omega
      calc (y - b.ymin) * (b.xmax - b.xmin + 1) + (x - b.xmin)
          < (y - b.ymin) * (b.xmax - b.xmin + 1) + (b.xmax - b.xmin + 1) := by omega
        _ = (y - b.ymin + 1) * (b.xmax - b.xmin + 1) := by rw [Nat.add_mul]; omega
        _ ≤ (b.ymax - b.ymin + 1) * (b.xmax - b.xmin + 1) := Nat.mul_le_mul_right _ (by omega)
  · intro hm
    have hc : b.contains2 x y = false := by
      cases h : b.contains2 x y
      · rfl
      · exact absurd ((contains2_iff b x y).mp h) hm
    simp [tileIndex, hc]

/-- **coordinate of an index**: for every box whose fields fit `u32`, `get_coord_by_index` never
    panics, errors exactly for `i ≥ count_tiles`, and otherwise returns the `i`-th coordinate of the
    enumeration -/
theorem coordByIndex_spec (b : BBox) (hx : b.xmax < U32) (hy : b.ymax < U32) (i : Nat) :
    (i < b.countTiles → ∃ c, b.coordByIndex i = .ok c ∧ b.iterCoords[i]? = some c) ∧
    (¬ i < b.countTiles → b.coordByIndex i = .err) := by
  constructor
  · intro hi
    have hne : b.countTiles ≠ 0 := by omega
    have hnotempty : b.isEmpty = false := by
      cases h : b.isEmpty
      · rfl
      · exact absurd ((countTiles_zero_iff b).mpr h) hne
    obtain ⟨h1, h2⟩ := (not_isEmpty_iff b).mp hnotempty
    have hw : b.width = b.xmax - b.xmin + 1 := by unfold width; split <;> omega
    have hh : b.height = b.ymax - b.ymin + 1 := by unfold height; split <;> omega
    have hcnt : b.countTiles = (b.xmax - b.xmin + 1) * (b.ymax - b.ymin + 1) := by
      unfold countTiles; rw [hw, hh]
    have hmod : i % (b.xmax - b.xmin + 1) < b.xmax - b.xmin + 1 := Nat.mod_lt _ (by omega)
    have hdiv : i / (b.xmax - b.xmin + 1) < b.ymax - b.ymin + 1 := by
      apply Nat.div_lt_of_lt_mul; rw [← hcnt]; exact hi
    refine ⟨(i % b.width + b.xmin, i / b.width + b.ymin), ?_, ?_⟩
    · unfold coordByIndex
      have : ¬ b.width = 0 := by omega
      simp only [hi, not_true_eq_false, if_false, this]
      have g1 : ¬ (i % b.width + b.xmin ≥ U32) := by rw [hw]; omega
      have g2 : ¬ (i / b.width + b.ymin ≥ U32) := by rw [hw]; omega
      simp [g1, g2]
    · rw [iterCoords_eq_rows]
      have hlen : (List.range' b.xmin (b.xmax + 1 - b.xmin)).length = b.xmax - b.xmin + 1 := by
        rw [List.length_range']; omega
      have := getElem?_rows (List.range' b.ymin (b.ymax + 1 - b.ymin)) (List.range' b.xmin (b.xmax + 1 - b.xmin))
        (i / (b.xmax - b.xmin + 1)) (i % (b.xmax - b.xmin + 1)) (by rw [hlen]; exact hmod)
      rw [hlen] at this
      have hi' : i / (b.xmax - b.xmin + 1) * (b.xmax - b.xmin + 1) + i % (b.xmax - b.xmin + 1) = i := by
        rw [Nat.mul_comm]; exact Nat.div_add_mod i _
      rw [hi'] at this
      rw [this, List.getElem?_range' (by omega), List.getElem?_range' (by omega), hw]
      simp only [Nat.one_mul, Option.bind_some, Option.map_some, Option.some.injEq, Prod.mk.injEq]
      omega
  · intro hi
    simp [coordByIndex, hi]

end VtModel.BBox
