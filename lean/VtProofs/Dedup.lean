import VtModel.Codec
/-!
The de-duplicating block writer of the versatiles container is lossless: every index entry reads back the blob
that was handed to the writer — for every list of blobs, with arbitrary repetitions around the 1000-byte limit.
-/
namespace VtModel.Codec

theorem readRange_append (d x : Bytes) (r : Nat × Nat) (h : r.1 + r.2 ≤ d.length) :
    readRange (d ++ x) r = readRange d r := by
  unfold readRange
  have h1 : r.1 ≤ d.length := by omega
  rw [List.drop_append_of_le_length h1]
  have h2 : r.2 ≤ (d.drop r.1).length := by simp; omega
  rw [List.take_append_of_le_length h2]

theorem readRange_self (d x : Bytes) : readRange (d ++ x) (d.length, x.length) = x := by
  simp [readRange]

/-- invariant of the fold: table entries and index entries point at their blobs inside `data` -/
structure Inv (st : BlockOut) (done : List Bytes) : Prop where
  table_ok : ∀ e ∈ st.table, e.2.1 + e.2.2 ≤ st.data.length ∧ readRange st.data e.2 = e.1
  ranges_in : ∀ r ∈ st.ranges, r.1 + r.2 ≤ st.data.length
  ranges_ok : st.ranges.map (readRange st.data) = done

theorem step_inv {st : BlockOut} {done : List Bytes} (hi : Inv st done) (blob : Bytes) :
    Inv (writeBlobStep st blob) (done ++ [blob]) := by
  unfold writeBlobStep
  split
  · cases hf : st.table.find? (fun e => e.1 == blob) with
    | some e =>
      have hmem := List.mem_of_find?_eq_some hf
      have hkey : e.1 = blob := by
        have := List.find?_some hf
        simpa using this
      obtain ⟨hle, hrd⟩ := hi.table_ok e hmem
      refine ⟨hi.table_ok, ?_, ?_⟩
      · intro r hr
        simp only [List.mem_append, List.mem_singleton] at hr
        rcases hr with hr | rfl
        · exact hi.ranges_in r hr
        · exact hle
      · simp only [List.map_append, hi.ranges_ok, List.map_cons, List.map_nil, hrd, hkey]
    | none =>
      refine ⟨?_, ?_, ?_⟩
      · intro e he
        simp only [List.mem_cons] at he
        rcases he with rfl | he
        · exact ⟨by simp, readRange_self _ _⟩
        · obtain ⟨hle, hrd⟩ := hi.table_ok e he
          exact ⟨by simp; omega, by rw [readRange_append _ _ _ hle]; exact hrd⟩
      · intro r hr
        simp only [List.mem_append, List.mem_singleton] at hr
        rcases hr with hr | rfl
        · have := hi.ranges_in r hr; simp; omega
        · simp
      · simp only [List.map_append, List.map_cons, List.map_nil, readRange_self]
        congr 1
        rw [← hi.ranges_ok]
        apply List.map_congr_left
        intro r hr
        exact readRange_append _ _ _ (hi.ranges_in r hr)
  · refine ⟨?_, ?_, ?_⟩
    · intro e he
      obtain ⟨hle, hrd⟩ := hi.table_ok e he
      exact ⟨by simp; omega, by rw [readRange_append _ _ _ hle]; exact hrd⟩
    · intro r hr
      simp only [List.mem_append, List.mem_singleton] at hr
      rcases hr with hr | rfl
      · have := hi.ranges_in r hr; simp; omega
      · simp
    · simp only [List.map_append, List.map_cons, List.map_nil, readRange_self]
      congr 1
      rw [← hi.ranges_ok]
      apply List.map_congr_left
      intro r hr
      exact readRange_append _ _ _ (hi.ranges_in r hr)

theorem foldl_inv (blobs : List Bytes) {st : BlockOut} {done : List Bytes} (hi : Inv st done) :
    Inv (blobs.foldl writeBlobStep st) (done ++ blobs) := by
  induction blobs generalizing st done with
  | nil => simpa using hi
  | cons b bs ih =>
    simp only [List.foldl_cons]
    have := ih (step_inv hi b)
    simpa using this

end VtModel.Codec
