import VtModel.Geom
import VtProofs.Prim
/-! Geometry command streams: the decoder reads back what the encoder writes. -/
namespace VtProofs.Geom
open VtModel VtModel.Prim VtModel.Geom VtProofs.Prim

theorem inI64_iff (v : Int) : inI64 v = true ↔ (-(2:Int)^63 ≤ v ∧ v < (2:Int)^63) := by
  simp [inI64]

def PtOk (p : Pt) : Prop := inI64 p.1 = true ∧ inI64 p.2 = true

/-- one point: what `write_point` writes is read back as the point, for any cursor it was written from -/
theorem points_succ (cmd n : Nat) (g : GState) (p : Pt) (b rest : Bytes) (pos : Nat)
    (hw : writePoint (g.x, g.y) p = .ok (b, p)) (hp : PtOk p) :
    points cmd (n + 1) ⟨pos, b ++ rest⟩ g =
      points cmd n ⟨pos + b.length, rest⟩
        (let g1 : GState := if cmd = 1 ∧ !g.line.isEmpty then { g with lines := g.lines ++ [g.line], line := [] } else g
         { g1 with x := p.1, y := p.2, line := g1.line ++ [p] }) := by
  unfold writePoint at hw
  simp only [chkI64] at hw
  split at hw
  · rename_i dx dy hdx hdy
    split at hdx
    · rename_i hxr
      split at hdy
      · rename_i hyr
        simp only [Outcome.ok.injEq] at hdx hdy
        subst hdx hdy
        simp only [Outcome.ok.injEq, Prod.mk.injEq] at hw
        obtain ⟨hb, _⟩ := hw
        subst hb
        have hx1 := (inI64_iff _).mp hxr
        have hy1 := (inI64_iff _).mp hyr
        simp only [points]
        -- the record update does not touch the cursor
        have hgx : (if cmd = 1 ∧ (!g.line.isEmpty) = true then ({ g with lines := g.lines ++ [g.line], line := [] } : GState) else g).x = g.x := by
          split <;> rfl
        have hgy : (if cmd = 1 ∧ (!g.line.isEmpty) = true then ({ g with lines := g.lines ++ [g.line], line := [] } : GState) else g).y = g.y := by
          split <;> rfl
        rw [List.append_assoc, readSVarint_write _ hx1.1 hx1.2]
        simp only
        rw [readSVarint_write _ hy1.1 hy1.2]
        simp only [hgx, hgy, addI64]
        have e1 : g.x + (p.1 - g.x) = p.1 := by omega
        have e2 : g.y + (p.2 - g.y) = p.2 := by omega
        simp only [e1, e2, hp.1, hp.2, if_true, List.length_append, Nat.add_assoc]
      · simp at hdy
    · simp at hdx
  · simp at hw

theorem writePoint_snd (cur p : Pt) (b : Bytes) (c : Pt) (h : writePoint cur p = .ok (b, c)) : c = p := by
  unfold writePoint at h
  split at h
  · simp only [Outcome.ok.injEq, Prod.mk.injEq] at h; exact h.2.symm
  · simp at h

theorem writePts_cons (cur p : Pt) (t : List Pt) (b : Bytes) (c : Pt) (h : writePts cur (p :: t) = .ok (b, c)) :
    ∃ b1 b2, writePoint cur p = .ok (b1, p) ∧ writePts p t = .ok (b2, c) ∧ b = b1 ++ b2 := by
  simp only [writePts] at h
  cases h1 : writePoint cur p with
  | ok r =>
    obtain ⟨b1, c1⟩ := r
    have hc := writePoint_snd cur p b1 c1 h1
    subst hc
    simp only [h1] at h
    cases h2 : writePts c1 t with
    | ok r2 =>
      obtain ⟨b2, c2⟩ := r2
      simp only [h2, Outcome.ok.injEq, Prod.mk.injEq] at h
      exact ⟨b1, b2, rfl, by rw [← h.2], h.1.symm⟩
    | err => simp [h2] at h
    | panic => simp [h2] at h
  | err => simp [h1] at h
  | panic => simp [h1] at h

/-- a LineTo(n): the n points are appended to the current line, the cursor ends on the last one -/
theorem points_lineTo : ∀ (ps : List Pt) (g : GState) (b rest : Bytes) (pos : Nat) (c : Pt),
    writePts (g.x, g.y) ps = .ok (b, c) → (∀ p ∈ ps, PtOk p) →
    points 2 ps.length ⟨pos, b ++ rest⟩ g =
      .ok ({ g with x := c.1, y := c.2, line := g.line ++ ps }, ⟨pos + b.length, rest⟩) := by
  intro ps
  induction ps with
  | nil =>
    intro g b rest pos c hw _
    simp only [writePts, Outcome.ok.injEq, Prod.mk.injEq] at hw
    obtain ⟨rfl, rfl⟩ := hw
    cases g
    simp [points]
  | cons p t ih =>
    intro g b rest pos c hw hok
    obtain ⟨b1, b2, h1, h2, rfl⟩ := writePts_cons _ _ _ _ _ hw
    simp only [List.length_cons, List.append_assoc]
    rw [points_succ 2 t.length g p b1 (b2 ++ rest) pos h1 (hok p (by simp))]
    have hne : ¬ ((2 : Nat) = 1 ∧ (!g.line.isEmpty) = true) := by omega
    simp only [hne, if_false]
    rw [ih _ b2 rest _ c h2 (fun q hq => hok q (by simp [hq]))]
    simp [Nat.add_assoc]

/-- the lines a state stands for once the current line is closed -/
def closed (g : GState) : List (List Pt) := if g.line.isEmpty then g.lines else g.lines ++ [g.line]

/-- a MoveTo(n): every point starts a line of its own -/
theorem points_moveTo : ∀ (ps : List Pt) (g : GState) (b rest : Bytes) (pos : Nat) (c : Pt),
    writePts (g.x, g.y) ps = .ok (b, c) → (∀ p ∈ ps, PtOk p) →
    ∃ g', points 1 ps.length ⟨pos, b ++ rest⟩ g = .ok (g', ⟨pos + b.length, rest⟩) ∧
      closed g' = closed g ++ ps.map (fun p => [p]) ∧ (g'.x, g'.y) = c := by
  intro ps
  induction ps with
  | nil =>
    intro g b rest pos c hw _
    simp only [writePts, Outcome.ok.injEq, Prod.mk.injEq] at hw
    obtain ⟨rfl, rfl⟩ := hw
    exact ⟨g, by simp [points], by simp, rfl⟩
  | cons p t ih =>
    intro g b rest pos c hw hok
    obtain ⟨b1, b2, h1, h2, rfl⟩ := writePts_cons _ _ _ _ _ hw
    simp only [List.length_cons, List.append_assoc]
    rw [points_succ 1 t.length g p b1 (b2 ++ rest) pos h1 (hok p (by simp))]
    obtain ⟨g', hg', hcl, hc⟩ := ih
      (let g1 : GState := if 1 = 1 ∧ !g.line.isEmpty then { g with lines := g.lines ++ [g.line], line := [] } else g
       { g1 with x := p.1, y := p.2, line := g1.line ++ [p] }) b2 rest (pos + b1.length) c h2
      (fun q hq => hok q (by simp [hq]))
    refine ⟨g', ?_, ?_, hc⟩
    · rw [hg']; simp [Nat.add_assoc]
    · rw [hcl]
      cases hl : g.line.isEmpty with
      | true =>
        have : g.line = [] := List.isEmpty_iff.mp hl
        simp [closed, hl, this]
      | false => simp [closed, hl]

def init : GState := { lines := [], line := [], x := 0, y := 0 }

theorem decodeLines_eq (data : Bytes) (g : GState)
    (h : whileRem commandStep init (Reader.ofBytes data) = .ok g) : decodeLines data = .ok (closed g) := by
  unfold decodeLines
  have : ({ lines := [], line := [], x := 0, y := 0 } : GState) = init := rfl
  rw [this, h]
  rfl

theorem flatMap_singletons (ps : List Pt) : (ps.map (fun p => [p])).flatMap id = ps := by
  induction ps with
  | nil => rfl
  | cons p t ih => simp [ih]

/-- **points**: `to_geometry (from_geometry points) = points` -/
theorem points_roundtrip (ps : List Pt) (hne : ps ≠ []) (hok : ∀ p ∈ ps, PtOk p)
    (hlen : ps.length * 8 + 1 < U64) (t : Nat) (b : Bytes) (he : fromGeometry (.points ps) = .ok (t, b)) :
    toGeometry t b = .ok (.points ps) := by
  simp only [fromGeometry, encPoints] at he
  cases hw : writePts (0, 0) ps with
  | err => simp [hw] at he
  | panic => simp [hw] at he
  | ok r =>
    obtain ⟨bp, c⟩ := r
    simp only [hw, Outcome.ok.injEq, Prod.mk.injEq] at he
    obtain ⟨rfl, rfl⟩ := he
    obtain ⟨g', hg', hcl, _⟩ := points_moveTo ps init bp [] ((writeVarint (ps.length * 8 + 1)).length) c hw hok
    have hstep : commandStep init ⟨0, (writeVarint (ps.length * 8 + 1) ++ bp) ++ []⟩ =
        .ok (g', ⟨0 + (writeVarint (ps.length * 8 + 1) ++ bp).length, []⟩) := by
      unfold commandStep
      rw [List.append_assoc, readVarint_write _ hlen]
      have h1 : (ps.length * 8 + 1) % 8 = 1 := by omega
      have h2 : (ps.length * 8 + 1) / 8 = ps.length := by omega
      simp only [h1, h2, true_or, if_true]
      rw [Nat.zero_add, hg']
      simp
    have hrun : whileRem commandStep init (Reader.ofBytes (writeVarint (ps.length * 8 + 1) ++ bp)) = .ok g' := by
      have := whileRem_consume commandStep init g' 0 _ (writeVarint (ps.length * 8 + 1) ++ bp) []
        (by simp [writeVarint_ne_nil]) hstep
      simp only [List.append_nil] at this
      unfold Reader.ofBytes
      rw [this, whileRem_nil]
    unfold toGeometry
    rw [decodeLines_eq _ g' hrun, hcl]
    have hcl0 : closed init = [] := rfl
    simp only [hcl0, List.nil_append, if_true]
    have h3 : (ps.map (fun p => [p])).isEmpty = false := by
      cases ps with
      | nil => exact absurd rfl hne
      | cons _ _ => rfl
    have h4 : (ps.map (fun p => [p])).all (fun l => l.length == 1) = true := by
      simp [List.all_eq_true]
    simp only [h3, h4, Bool.false_eq_true, if_false, if_true, flatMap_singletons]

/-- MoveTo(1): the current line is closed and a new one starts at the point -/
theorem moveTo_one (g : GState) (p : Pt) (b1 rest : Bytes) (pos : Nat)
    (hw : writePoint (g.x, g.y) p = .ok (b1, p)) (hp : PtOk p) :
    commandStep g ⟨pos, (writeVarint 9 ++ b1) ++ rest⟩ =
      .ok ({ lines := closed g, line := [p], x := p.1, y := p.2 }, ⟨pos + (writeVarint 9 ++ b1).length, rest⟩) := by
  unfold commandStep
  rw [List.append_assoc, readVarint_write 9 (by decide)]
  have h1 : (9 : Nat) % 8 = 1 := by decide
  have h2 : (9 : Nat) / 8 = 1 := by decide
  simp only [h1, h2, true_or, if_true]
  rw [points_succ 1 0 g p b1 rest _ hw hp]
  simp only [points, true_and]
  cases hl : g.line.isEmpty with
  | true =>
    have : g.line = [] := List.isEmpty_iff.mp hl
    simp [closed, hl, this, Nat.add_assoc]
  | false => simp [closed, hl, Nat.add_assoc]

/-- a line string of at least two points written by the encoder (MoveTo(1), LineTo(n−1)) is read as
    that line; whatever line was open before is closed -/
theorem line_commands (g : GState) (first second : Pt) (more : List Pt) (bytes rest : Bytes) (pos : Nat) (c : Pt)
    (he : encLine false (g.x, g.y) (first :: second :: more) = .ok (bytes, c))
    (hok : ∀ p ∈ first :: second :: more, PtOk p) (hlen : (second :: more).length * 8 + 2 < U64) :
    whileRem commandStep g ⟨pos, bytes ++ rest⟩ =
      whileRem commandStep { lines := closed g, line := first :: second :: more, x := c.1, y := c.2 }
        ⟨pos + bytes.length, rest⟩ := by
  simp only [encLine, Bool.false_eq_true, if_false, List.append_nil] at he
  cases h1 : writePoint (g.x, g.y) first with
  | err => simp [h1] at he
  | panic => simp [h1] at he
  | ok r1 =>
    obtain ⟨b1, c1⟩ := r1
    have hc1 := writePoint_snd _ _ _ _ h1
    subst hc1
    simp only [h1] at he
    cases h2 : writePts c1 (second :: more) with
    | err => simp [h2] at he
    | panic => simp [h2] at he
    | ok r2 =>
      obtain ⟨b2, c2⟩ := r2
      simp only [h2, List.isEmpty_cons, Bool.false_eq_true, if_false, Outcome.ok.injEq, Prod.mk.injEq] at he
      obtain ⟨rfl, rfl⟩ := he
      -- first command
      have hs1 := moveTo_one g c1 b1 ((writeVarint ((second :: more).length * 8 + 2) ++ b2) ++ rest) pos h1 (hok c1 (by simp))
      have e1 : (writeVarint 9 ++ b1 ++ (writeVarint ((second :: more).length * 8 + 2) ++ b2)) ++ rest =
          (writeVarint 9 ++ b1) ++ ((writeVarint ((second :: more).length * 8 + 2) ++ b2) ++ rest) := by
        simp [List.append_assoc]
      rw [e1, whileRem_consume commandStep g _ pos _ (writeVarint 9 ++ b1) _ (by simp [writeVarint_ne_nil]) hs1]
      -- second command
      let g1 : GState := { lines := closed g, line := [c1], x := c1.1, y := c1.2 }
      have hs2 : commandStep g1 ⟨pos + (writeVarint 9 ++ b1).length, (writeVarint ((second :: more).length * 8 + 2) ++ b2) ++ rest⟩ =
          .ok ({ g1 with x := c2.1, y := c2.2, line := g1.line ++ (second :: more) },
            ⟨pos + (writeVarint 9 ++ b1).length + (writeVarint ((second :: more).length * 8 + 2) ++ b2).length, rest⟩) := by
        unfold commandStep
        rw [List.append_assoc, readVarint_write _ hlen]
        have k1 : ((second :: more).length * 8 + 2) % 8 = 2 := by omega
        have k2 : ((second :: more).length * 8 + 2) / 8 = (second :: more).length := by omega
        simp only [k1, k2]
        have k3 : ((2 : Nat) = 1 ∨ (2 : Nat) = 2) := Or.inr rfl
        try simp only [k3, if_true]
        rw [points_lineTo (second :: more) g1 b2 rest _ c2 h2 (fun q hq => hok q (by simp at hq ⊢; exact Or.inr hq))]
        simp [Nat.add_assoc]
      rw [whileRem_consume commandStep g1 _ _ _ _ _ (by simp [writeVarint_ne_nil]) hs2]
      simp [g1, Nat.add_assoc]

def LineOk (l : List Pt) : Prop := 2 ≤ l.length ∧ (∀ p ∈ l, PtOk p) ∧ l.length * 8 + 2 < U64

theorem lines_loop : ∀ (ls : List (List Pt)) (g : GState) (b rest : Bytes) (pos : Nat),
    encLines false (g.x, g.y) ls = .ok b → (∀ l ∈ ls, LineOk l) →
    ∃ g', whileRem commandStep g ⟨pos, b ++ rest⟩ = whileRem commandStep g' ⟨pos + b.length, rest⟩ ∧
      closed g' = closed g ++ ls := by
  intro ls
  induction ls with
  | nil =>
    intro g b rest pos he _
    simp only [encLines, Outcome.ok.injEq] at he
    subst he
    exact ⟨g, by simp, by simp⟩
  | cons l t ih =>
    intro g b rest pos he hok
    obtain ⟨hl2, hpts, hlen⟩ := hok l (by simp)
    simp only [encLines, Bool.false_eq_true, false_and, if_false] at he
    cases h1 : encLine false (g.x, g.y) l with
    | err => simp [h1] at he
    | panic => simp [h1] at he
    | ok r1 =>
      obtain ⟨b1, c1⟩ := r1
      simp only [h1] at he
      cases h2 : encLines false c1 t with
      | err => simp [h2] at he
      | panic => simp [h2] at he
      | ok b2 =>
        simp only [h2, Outcome.ok.injEq] at he
        subst he
        match l, hl2, hpts, hlen, h1 with
        | first :: second :: more, _, hpts, hlen, h1 =>
          have hlen' : (second :: more).length * 8 + 2 < U64 := by
            simp only [List.length_cons] at hlen ⊢; omega
          have hline := line_commands g first second more b1 (b2 ++ rest) pos c1 h1 hpts hlen'
          obtain ⟨g', hg', hcl⟩ := ih { lines := closed g, line := first :: second :: more, x := c1.1, y := c1.2 }
            b2 rest (pos + b1.length) h2 (fun x hx => hok x (by simp [hx]))
          refine ⟨g', ?_, ?_⟩
          · rw [List.append_assoc, hline, hg']
            simp [Nat.add_assoc]
          · rw [hcl]
            simp [closed]

/-- **lines**: `to_geometry (from_geometry lines) = lines` for line strings of at least two points -/
theorem lines_roundtrip (ls : List (List Pt)) (hne : ls ≠ []) (hok : ∀ l ∈ ls, LineOk l)
    (t : Nat) (b : Bytes) (he : fromGeometry (.lines ls) = .ok (t, b)) :
    toGeometry t b = .ok (.lines ls) := by
  simp only [fromGeometry] at he
  cases hw : encLines false (0, 0) ls with
  | err => simp [hw] at he
  | panic => simp [hw] at he
  | ok bs =>
    simp only [hw, Outcome.ok.injEq, Prod.mk.injEq] at he
    obtain ⟨rfl, rfl⟩ := he
    obtain ⟨g', hg', hcl⟩ := lines_loop ls init bs [] 0 hw hok
    have hrun : whileRem commandStep init (Reader.ofBytes bs) = .ok g' := by
      unfold Reader.ofBytes
      have := hg'
      simp only [List.append_nil] at this
      rw [this, whileRem_nil]
    unfold toGeometry
    rw [decodeLines_eq _ g' hrun, hcl]
    have hcl0 : closed init = [] := rfl
    simp only [hcl0, List.nil_append]
    have h3 : ls.isEmpty = false := by
      cases ls with
      | nil => exact absurd rfl hne
      | cons _ _ => rfl
    have h4 : ls.all (fun l => decide (l.length ≥ 2)) = true := by
      simp only [List.all_eq_true, decide_eq_true_eq]
      intro l hl; exact (hok l hl).1
    simp [h3, h4]

/-! ### polygons -/

/-- a closed ring `first :: mid ++ [first]` written by the encoder (MoveTo(1), LineTo(|mid|), ClosePath)
    is read as that ring -/
theorem ring_commands (g : GState) (first second : Pt) (more : List Pt) (bytes rest : Bytes) (pos : Nat) (c : Pt)
    (he : encLine true (g.x, g.y) (first :: ((second :: more) ++ [first])) = .ok (bytes, c))
    (hok : ∀ p ∈ first :: second :: more, PtOk p) (hlen : (second :: more).length * 8 + 2 < U64) :
    whileRem commandStep g ⟨pos, bytes ++ rest⟩ =
      whileRem commandStep { lines := closed g, line := first :: ((second :: more) ++ [first]), x := c.1, y := c.2 }
        ⟨pos + bytes.length, rest⟩ := by
  have hdrop : ((second :: more) ++ [first]).dropLast = second :: more := List.dropLast_concat
  simp only [encLine, if_true, hdrop] at he
  cases h1 : writePoint (g.x, g.y) first with
  | err => simp [h1] at he
  | panic => simp [h1] at he
  | ok r1 =>
    obtain ⟨b1, c1⟩ := r1
    have hc1 := writePoint_snd _ _ _ _ h1
    subst hc1
    simp only [h1] at he
    cases h2 : writePts c1 (second :: more) with
    | err => simp [h2] at he
    | panic => simp [h2] at he
    | ok r2 =>
      obtain ⟨b2, c2⟩ := r2
      simp only [h2, List.isEmpty_cons, Bool.false_eq_true, if_false, Outcome.ok.injEq, Prod.mk.injEq] at he
      obtain ⟨rfl, rfl⟩ := he
      have hs1 := moveTo_one g c1 b1 (((writeVarint ((second :: more).length * 8 + 2) ++ b2) ++ (writeVarint 7 ++ rest))) pos h1 (hok c1 (by simp))
      have e1 : (writeVarint 9 ++ b1 ++ (writeVarint ((second :: more).length * 8 + 2) ++ b2) ++ writeVarint 7) ++ rest =
          (writeVarint 9 ++ b1) ++ ((writeVarint ((second :: more).length * 8 + 2) ++ b2) ++ (writeVarint 7 ++ rest)) := by
        simp [List.append_assoc]
      rw [e1, whileRem_consume commandStep g _ pos _ (writeVarint 9 ++ b1) _ (by simp [writeVarint_ne_nil]) hs1]
      let g1 : GState := { lines := closed g, line := [c1], x := c1.1, y := c1.2 }
      have hs2 : commandStep g1 ⟨pos + (writeVarint 9 ++ b1).length, (writeVarint ((second :: more).length * 8 + 2) ++ b2) ++ (writeVarint 7 ++ rest)⟩ =
          .ok ({ g1 with x := c2.1, y := c2.2, line := g1.line ++ (second :: more) },
            ⟨pos + (writeVarint 9 ++ b1).length + (writeVarint ((second :: more).length * 8 + 2) ++ b2).length, writeVarint 7 ++ rest⟩) := by
        unfold commandStep
        rw [List.append_assoc, readVarint_write _ hlen]
        have k1 : ((second :: more).length * 8 + 2) % 8 = 2 := by omega
        have k2 : ((second :: more).length * 8 + 2) / 8 = (second :: more).length := by omega
        simp only [k1, k2]
        have k3 : ((2 : Nat) = 1 ∨ (2 : Nat) = 2) := Or.inr rfl
        try simp only [k3, if_true]
        rw [points_lineTo (second :: more) g1 b2 (writeVarint 7 ++ rest) _ c2 h2 (fun q hq => hok q (by simp at hq ⊢; exact Or.inr hq))]
        simp [Nat.add_assoc]
      rw [whileRem_consume commandStep g1 _ _ _ _ _ (by simp [writeVarint_ne_nil]) hs2]
      -- ClosePath
      let g2 : GState := { g1 with x := c2.1, y := c2.2, line := g1.line ++ (second :: more) }
      have hs3 : commandStep g2 ⟨pos + (writeVarint 9 ++ b1).length + (writeVarint ((second :: more).length * 8 + 2) ++ b2).length, writeVarint 7 ++ rest⟩ =
          .ok ({ g2 with line := g2.line ++ [c1] },
            ⟨pos + (writeVarint 9 ++ b1).length + (writeVarint ((second :: more).length * 8 + 2) ++ b2).length + (writeVarint 7).length, rest⟩) := by
        unfold commandStep
        rw [readVarint_write 7 (by decide)]
        have k1 : (7 : Nat) % 8 = 7 := by decide
        simp only [k1]
        have k4 : ¬ ((7 : Nat) = 1 ∨ (7 : Nat) = 2) := by omega
        simp [k4, g2, g1]
      rw [whileRem_consume commandStep g2 _ _ _ _ _ (writeVarint_ne_nil 7) hs3]
      simp [g2, g1, Nat.add_assoc]

/-- the encoder writes ClosePath as the command integer 7 = (id 7, count 0); MVT 2.1 §4.3.3.3 asks for a
    count of 1, i.e. 15 (known finding `closepath-count-0`; the own decoder ignores the count) -/
theorem closepath_count_zero : writeVarint 7 = [7] ∧ (7 : Nat) / 8 = 0 ∧ (15 : Nat) / 8 = 1 ∧ (15 : Nat) % 8 = 7 := by
  refine ⟨?_, by decide, by decide, by decide⟩
  rw [writeVarint]; simp

def RingOk (r : List Pt) : Prop :=
  ∃ first second third more, r = first :: ((second :: third :: more) ++ [first]) ∧
    (∀ p ∈ first :: second :: third :: more, PtOk p) ∧ (second :: third :: more).length * 8 + 2 < U64

theorem rings_loop : ∀ (rs : List (List Pt)) (g : GState) (b rest : Bytes) (pos : Nat),
    encLines true (g.x, g.y) rs = .ok b → (∀ r ∈ rs, RingOk r) →
    ∃ g', whileRem commandStep g ⟨pos, b ++ rest⟩ = whileRem commandStep g' ⟨pos + b.length, rest⟩ ∧
      closed g' = closed g ++ rs := by
  intro rs
  induction rs with
  | nil =>
    intro g b rest pos he _
    simp only [encLines, Outcome.ok.injEq] at he
    subst he
    exact ⟨g, by simp, by simp⟩
  | cons r t ih =>
    intro g b rest pos he hok
    obtain ⟨first, second, third, more, rfl, hpts, hlen⟩ := hok _ (List.mem_cons_self)
    have hl4 : ¬ (true = true ∧ (first :: ((second :: third :: more) ++ [first])).length < 4) := by
      simp only [List.length_cons, List.length_append]; omega
    rw [encLines, if_neg hl4] at he
    simp only [List.cons_append] at he
    cases h1 : encLine true (g.x, g.y) (first :: second :: third :: (more ++ [first])) with
    | err => simp [h1] at he
    | panic => simp [h1] at he
    | ok r1 =>
      obtain ⟨b1, c1⟩ := r1
      simp only [h1] at he
      cases h2 : encLines true c1 t with
      | err => simp [h2] at he
      | panic => simp [h2] at he
      | ok b2 =>
        simp only [h2, Outcome.ok.injEq] at he
        subst he
        have h1' : encLine true (g.x, g.y) (first :: ((second :: third :: more) ++ [first])) = .ok (b1, c1) := by
          simpa using h1
        have hline := ring_commands g first second (third :: more) b1 (b2 ++ rest) pos c1 h1' hpts hlen
        obtain ⟨g', hg', hcl⟩ := ih { lines := closed g, line := first :: ((second :: third :: more) ++ [first]), x := c1.1, y := c1.2 }
          b2 rest (pos + b1.length) h2 (fun x hx => hok x (by simp [hx]))
        refine ⟨g', ?_, ?_⟩
        · rw [List.append_assoc, hline, hg']
          simp [Nat.add_assoc]
        · rw [hcl]
          simp [closed]

theorem ring_valid (r : List Pt) (h : RingOk r) : ¬ (r.length < 4) ∧ r.head? = r.getLast? := by
  obtain ⟨first, second, third, more, rfl, _, _⟩ := h
  constructor
  · simp only [List.length_cons, List.length_append]; omega
  · have e : first :: ((second :: third :: more) ++ [first]) = (first :: second :: third :: more) ++ [first] := by simp
    rw [e, List.getLast?_concat]
    rfl

def PolygonOk (p : List (List Pt)) : Prop :=
  ∃ outer inners, p = outer :: inners ∧ RingOk outer ∧ areaRing outer > 0 ∧
    ∀ r ∈ inners, RingOk r ∧ areaRing r < 0

theorem group_inners : ∀ (inners tail cur : List (List Pt)) (acc : List (List (List Pt))),
    cur.isEmpty = false → (∀ r ∈ inners, RingOk r ∧ areaRing r < 0) →
    groupRings (inners ++ tail) cur acc = groupRings tail (cur ++ inners) acc := by
  intro inners
  induction inners with
  | nil => intro tail cur acc _ _; simp
  | cons r t ih =>
    intro tail cur acc hc hok
    obtain ⟨hr, ha⟩ := hok r (by simp)
    obtain ⟨h1, h2⟩ := ring_valid r hr
    have ha' : ¬ (areaRing r > 0) := by omega
    simp only [List.cons_append, groupRings, h1, if_false, h2, ne_eq, not_true_eq_false, ha', ha, if_true, hc,
      Bool.false_eq_true]
    rw [ih tail (cur ++ [r]) acc (by cases cur <;> simp at hc ⊢) (fun x hx => hok x (by simp [hx]))]
    simp

theorem group_polygons : ∀ (ps : List (List (List Pt))) (cur : List (List Pt)) (acc : List (List (List Pt))),
    (∀ p ∈ ps, PolygonOk p) →
    groupRings (ps.flatMap id) cur acc = .ok ((if cur.isEmpty then acc else acc ++ [cur]) ++ ps) := by
  intro ps
  induction ps with
  | nil => intro cur acc _; simp [groupRings]
  | cons p t ih =>
    intro cur acc hok
    obtain ⟨outer, inners, rfl, hro, hao, hin⟩ := hok p (by simp)
    obtain ⟨h1, h2⟩ := ring_valid outer hro
    simp only [List.flatMap_cons, id, List.cons_append, groupRings, h1, if_false, h2, ne_eq, not_true_eq_false, hao,
      if_true]
    rw [group_inners inners (t.flatMap id) [outer] _ rfl hin]
    rw [ih ([outer] ++ inners) _ (fun q hq => hok q (by simp [hq]))]
    simp

/-- **polygons**: `to_geometry (from_geometry polygons) = polygons` for polygons that are an outer ring
    (positive `area_ring`) followed by inner rings (negative), every ring closed with ≥ 4 points -/
theorem polygons_roundtrip (ps : List (List (List Pt))) (hne : ps ≠ []) (hok : ∀ p ∈ ps, PolygonOk p)
    (t : Nat) (b : Bytes) (he : fromGeometry (.polygons ps) = .ok (t, b)) :
    toGeometry t b = .ok (.polygons ps) := by
  simp only [fromGeometry] at he
  cases hw : encLines true (0, 0) (ps.flatMap id) with
  | err => rw [hw] at he; simp at he
  | panic => rw [hw] at he; simp at he
  | ok bs =>
    simp only [hw, Outcome.ok.injEq, Prod.mk.injEq] at he
    obtain ⟨rfl, rfl⟩ := he
    have hrings : ∀ r ∈ ps.flatMap id, RingOk r := by
      intro r hr
      simp only [List.mem_flatMap, id] at hr
      obtain ⟨p, hp, hrp⟩ := hr
      obtain ⟨outer, inners, rfl, hro, _, hin⟩ := hok p hp
      rcases List.mem_cons.mp hrp with e | e
      · subst e; exact hro
      · exact (hin r e).1
    obtain ⟨g', hg', hcl⟩ := rings_loop (ps.flatMap id) init bs [] 0 hw hrings
    have hrun : whileRem commandStep init (Reader.ofBytes bs) = .ok g' := by
      unfold Reader.ofBytes
      have := hg'
      simp only [List.append_nil] at this
      rw [this, whileRem_nil]
    unfold toGeometry
    rw [decodeLines_eq _ g' hrun, hcl]
    have hcl0 : closed init = [] := rfl
    simp only [hcl0, List.nil_append]
    have h3 : (ps.flatMap id).isEmpty = false := by
      cases ps with
      | nil => exact absurd rfl hne
      | cons p t =>
        obtain ⟨outer, inners, rfl, _, _, _⟩ := hok p (by simp)
        simp
    simp only [h3, Bool.false_eq_true, if_false]
    rw [group_polygons ps [] [] hok]
    simp

/-! ### malformed command streams: an error, never a panic -/

theorem addI64_ne_panic (v : Int) : addI64 v ≠ .panic := by
  unfold addI64; split <;> simp

theorem readVarintAux_good : ∀ (bs : Bytes) (pos v s : Nat),
    readVarintAux bs pos v s ≠ .panic ∧
    ∀ x r', readVarintAux bs pos v s = .ok (x, r') → r'.rest.length < bs.length := by
  intro bs
  induction bs with
  | nil => intro pos v s; simp [readVarintAux]
  | cons b t ih =>
    intro pos v s
    simp only [readVarintAux]
    split
    · refine ⟨by simp, ?_⟩
      intro x r' h
      simp only [Outcome.ok.injEq, Prod.mk.injEq] at h
      rw [← h.2]; simp
    · split
      · exact ⟨by simp, by intro x r' h; simp at h⟩
      · obtain ⟨h1, h2⟩ := ih (pos + 1) (v ||| (b.toNat % 128) <<< s % U64) (s + 7)
        refine ⟨h1, ?_⟩
        intro x r' h
        have := h2 x r' h
        simp only [List.length_cons]; omega

theorem readVarint_good (r : Reader) : readVarint r ≠ .panic ∧
    ∀ x r', readVarint r = .ok (x, r') → r'.rest.length < r.rest.length :=
  readVarintAux_good r.rest r.pos 0 0

theorem readSVarint_good (r : Reader) : readSVarint r ≠ .panic ∧
    ∀ x r', readSVarint r = .ok (x, r') → r'.rest.length < r.rest.length := by
  obtain ⟨h1, h2⟩ := readVarint_good r
  unfold readSVarint
  cases hv : readVarint r with
  | ok p =>
    obtain ⟨v, r1⟩ := p
    refine ⟨by simp, ?_⟩
    intro x r' h
    simp only [Outcome.ok.injEq, Prod.mk.injEq] at h
    rw [← h.2]; exact h2 v r1 hv
  | err => exact ⟨by simp, by intro x r' h; simp at h⟩
  | panic => exact absurd hv h1

theorem points_good (cmd : Nat) : ∀ (n : Nat) (r : Reader) (g : GState),
    points cmd n r g ≠ .panic ∧ ∀ g' r', points cmd n r g = .ok (g', r') → r'.rest.length ≤ r.rest.length := by
  intro n
  induction n with
  | zero =>
    intro r g
    refine ⟨by simp [points], ?_⟩
    intro g' r' h
    simp only [points, Outcome.ok.injEq, Prod.mk.injEq] at h
    rw [← h.2]; exact Nat.le_refl _
  | succ n ih =>
    intro r g
    simp only [points]
    obtain ⟨ha1, ha2⟩ := readSVarint_good r
    cases h1 : readSVarint r with
    | panic => exact absurd h1 ha1
    | err => exact ⟨by simp, by intro g' r' h; simp at h⟩
    | ok p1 =>
      obtain ⟨dx, r1⟩ := p1
      simp only
      split
      · obtain ⟨hb1, hb2⟩ := readSVarint_good r1
        cases h2 : readSVarint r1 with
        | panic => exact absurd h2 hb1
        | err => exact ⟨by simp, by intro g' r' h; simp at h⟩
        | ok p2 =>
          obtain ⟨dy, r2⟩ := p2
          simp only
          split
          · obtain ⟨hc1, hc2⟩ := ih r2 _
            refine ⟨hc1, ?_⟩
            intro g' r' h
            have k1 := ha2 dx r1 h1
            have k2 := hb2 dy r2 h2
            have k3 := hc2 g' r' h
            omega
          · exact ⟨by simp, by intro g' r' h; simp at h⟩
          · rename_i hp; exact absurd hp (addI64_ne_panic _)
      · exact ⟨by simp, by intro g' r' h; simp at h⟩
      · rename_i hp; exact absurd hp (addI64_ne_panic _)

theorem commandStep_good (g : GState) (r : Reader) : commandStep g r ≠ .panic ∧
    ∀ g' r', commandStep g r = .ok (g', r') → r'.rest.length < r.rest.length := by
  unfold commandStep
  obtain ⟨h1, h2⟩ := readVarint_good r
  cases hv : readVarint r with
  | panic => exact absurd hv h1
  | err => exact ⟨by simp, by intro g' r' h; simp at h⟩
  | ok p =>
    obtain ⟨v, r1⟩ := p
    have hlt := h2 v r1 hv
    simp only
    split
    · obtain ⟨k1, k2⟩ := points_good (v % 8) (v / 8) r1 g
      refine ⟨k1, ?_⟩
      intro g' r' h
      have := k2 g' r' h
      omega
    · split
      · cases hl : g.line with
        | nil => exact ⟨by simp, by intro g' r' h; simp at h⟩
        | cons p t =>
          refine ⟨by simp, ?_⟩
          intro g' r' h
          simp only [Outcome.ok.injEq, Prod.mk.injEq] at h
          rw [← h.2]; exact hlt
      · exact ⟨by simp, by intro g' r' h; simp at h⟩

theorem whileRem_no_panic {σ} (step : σ → Reader → Outcome (σ × Reader))
    (hgood : ∀ s r, step s r ≠ .panic ∧ ∀ s' r', step s r = .ok (s', r') → r'.rest.length < r.rest.length) :
    ∀ (n : Nat) (s : σ) (r : Reader), r.rest.length ≤ n → whileRem step s r ≠ .panic := by
  intro n
  induction n with
  | zero =>
    intro s r hn
    rw [whileRem]
    have : r.rest = [] := List.length_eq_zero_iff.mp (by omega)
    simp [this]
  | succ n ih =>
    intro s r hn
    rw [whileRem]
    split
    · simp
    · obtain ⟨h1, h2⟩ := hgood s r
      cases hs : step s r with
      | panic => exact absurd hs h1
      | err => simp
      | ok p =>
        obtain ⟨s1, r1⟩ := p
        have hlt := h2 s1 r1 hs
        simp only [hlt, if_true]
        exact ih s1 r1 (by omega)

theorem groupRings_no_panic : ∀ (rs cur : List (List Pt)) (acc : List (List (List Pt))),
    groupRings rs cur acc ≠ .panic := by
  intro rs
  induction rs with
  | nil => intro cur acc; simp [groupRings]
  | cons r t ih =>
    intro cur acc
    simp only [groupRings]
    split
    · simp
    · split
      · simp
      · split
        · exact ih _ _
        · split
          · split
            · exact ih _ _
            · exact ih _ _
          · exact ih _ _

/-- `to_geometry` never panics, whatever the geometry type and the command bytes (since the cursor
    additions are checked): count 0, counts beyond the data, unknown command ids, truncation, ClosePath on an
    empty line, deltas at the `i64` limits – all end in `Err` or a geometry -/
theorem toGeometry_no_panic (t : Nat) (b : Bytes) : toGeometry t b ≠ .panic := by
  unfold toGeometry
  have hd : decodeLines b ≠ .panic := by
    unfold decodeLines
    have := whileRem_no_panic commandStep commandStep_good (Reader.ofBytes b).rest.length
      { lines := [], line := [], x := 0, y := 0 } (Reader.ofBytes b) (Nat.le_refl _)
    cases hw : whileRem commandStep { lines := [], line := [], x := 0, y := 0 } (Reader.ofBytes b) with
    | panic => exact absurd hw this
    | err => simp
    | ok g => simp
  cases hl : decodeLines b with
  | panic => exact absurd hl hd
  | err => simp
  | ok ls =>
    simp only
    split
    · split
      · simp
      · split <;> simp
    · split
      · split
        · simp
        · split <;> simp
      · split
        · split
          · simp
          · cases hg : groupRings ls [] [] with
            | panic => exact absurd hg (groupRings_no_panic _ _ _)
            | err => simp
            | ok ps => simp
        · simp

end VtProofs.Geom
