import VtModel.TileJson
import VtProofs.JsonRoundtrip
/-!
C17: lemmas about `BTreeMap` insertion/lookup (sorted association lists) and the TileJSON
narrowing operations.
-/
namespace VtProofs.TileJson
open VtModel.Json VtModel.TileJson VtProofs.Json

theorem cmpBytes_refl : ∀ a : Bytes, cmpBytes a a = .eq
  | [] => rfl
  | x :: xs => by simp [cmpBytes, UInt8.lt_irrefl, cmpBytes_refl xs]

theorem cmpBytes_eq : ∀ a b : Bytes, cmpBytes a b = .eq → a = b
  | [], [], _ => rfl
  | [], _ :: _, h => by simp [cmpBytes] at h
  | _ :: _, [], h => by simp [cmpBytes] at h
  | x :: xs, y :: ys, h => by
    simp only [cmpBytes] at h
    by_cases h1 : x < y
    · simp [h1] at h
    · by_cases h2 : y < x
      · simp [h1, h2] at h
      · simp only [h1, h2, if_false] at h
        have : x = y := by
          have a : ¬ x.toNat < y.toNat := by simpa [UInt8.lt_iff_toNat_lt] using h1
          have b : ¬ y.toNat < x.toNat := by simpa [UInt8.lt_iff_toNat_lt] using h2
          exact UInt8.toNat_inj.1 (by omega)
        rw [this, cmpBytes_eq xs ys h]

theorem utf8_inj {a b : List Char} (h : utf8 a = utf8 b) : a = b := by
  have := congrArg fromUtf8 h
  simpa [fromUtf8_utf8] using this

theorem cmpKey_refl (k : Key) : cmpKey k k = .eq := cmpBytes_refl _
theorem cmpKey_eq {a b : Key} (h : cmpKey a b = .eq) : a = b := utf8_inj (cmpBytes_eq _ _ h)

/-- `map.insert(k, v); map.get(k) == Some(v)` -/
theorem lookup_insert_same {V : Type} (k : Key) (v : V) (m : List (Key × V)) :
    lookupKV k (insertKV k v m) = some v := by
  induction m with
  | nil => simp [insertKV, lookupKV, cmpKey_refl]
  | cons p m ih =>
    obtain ⟨k', v'⟩ := p
    simp only [insertKV]
    cases h : cmpKey k k' with
    | lt => simp [lookupKV, cmpKey_refl]
    | eq => simp [lookupKV, cmpKey_refl]
    | gt => simp [lookupKV, h, ih]

/-- `map.insert(k, v)` leaves every other key alone -/
theorem lookup_insert_other {V : Type} (k k2 : Key) (hne : k2 ≠ k) (v : V) (m : List (Key × V)) :
    lookupKV k2 (insertKV k v m) = lookupKV k2 m := by
  have hk : (cmpKey k2 k == .eq) = false := by
    cases h : cmpKey k2 k <;> simp
    exact hne (cmpKey_eq h)
  induction m with
  | nil => simp [insertKV, lookupKV, hk]
  | cons p m ih =>
    obtain ⟨k', v'⟩ := p
    simp only [insertKV]
    cases h : cmpKey k k' with
    | lt => simp [lookupKV, hk]
    | eq =>
      have : k = k' := cmpKey_eq h
      subst this
      simp [lookupKV, hk]
    | gt => simp [lookupKV, ih]

section
variable {N : Type} (nu : TjNum N)

theorem getByte_updateByte_same (vals : List (Key × TJValue)) (k : Key) (f : Option Nat → Nat) :
    getByte? (updateByte vals k f) k = some (f (getByte? vals k)) := by
  simp [getByte?, updateByte, lookup_insert_same]

theorem lookup_updateByte_other (vals : List (Key × TJValue)) (k k2 : Key) (h : k2 ≠ k) (f : Option Nat → Nat) :
    lookupKV k2 (updateByte vals k f) = lookupKV k2 vals := by
  simp [updateByte, lookup_insert_other k k2 h]

theorem kMin_ne_kMax : kMinzoom ≠ kMaxzoom := by decide
end

end VtProofs.TileJson
