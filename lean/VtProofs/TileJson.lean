import VtModel.TileJson
import VtProofs.JsonRoundtrip
/-!
C17: lemmas about `BTreeMap` insertion/lookup (sorted association lists) and the TileJSON
narrowing operations.
-/
namespace VtProofs.TileJson
open VtModel.Json VtModel.TileJson VtProofs.Json

theorem cmpBytes_refl : ∀ a : Bytes, cmpBytes a a = .eq
  | [] => rfl
  | x :: xs => by simp [cmpBytes, UInt8.lt_irrefl, cmpBytes_refl xs]

theorem cmpBytes_eq : ∀ a b : Bytes, cmpBytes a b = .eq → a = b
  | [], [], _ => rfl
  | [], _ :: _, h => by simp [cmpBytes] at h
  | _ :: _, [], h => by simp [cmpBytes] at h
  | x :: xs, y :: ys, h => by
    simp only [cmpBytes] at h
    by_cases h1 : x < y
    · simp [h1] at h
    · by_cases h2 : y < x
      · simp [h1, h2] at h
      · simp only [h1, h2, if_false] at h
        have : x = y := by
          have a : ¬ x.toNat < y.toNat := by simpa [UInt8.lt_iff_toNat_lt] using h1
          have b : ¬ y.toNat < x.toNat := by simpa [UInt8.lt_iff_toNat_lt] using h2
          exact UInt8.toNat_inj.1 (by omega)
        rw [this, cmpBytes_eq xs ys h]

theorem utf8_inj {a b : List Char} (h : utf8 a = utf8 b) : a = b := by
  have := congrArg fromUtf8 h
  simpa [fromUtf8_utf8] using this

theorem cmpKey_refl (k : Key) : cmpKey k k = .eq := cmpBytes_refl _
theorem cmpKey_eq {a b : Key} (h : cmpKey a b = .eq) : a = b := utf8_inj (cmpBytes_eq _ _ h)

/-- `map.insert(k, v); map.get(k) == Some(v)` -/
theorem lookup_insert_same {V : Type} (k : Key) (v : V) (m : List (Key × V)) :
    lookupKV k (insertKV k v m) = some v := by
  induction m with
  | nil => simp [insertKV, lookupKV, cmpKey_refl]
  | cons p m ih =>
    obtain ⟨k', v'⟩ := p
    simp only [insertKV]
    cases h : cmpKey k k' with
    | lt => simp [lookupKV, cmpKey_refl]
    | eq => simp [lookupKV, cmpKey_refl]
    | gt => simp [lookupKV, h, ih]

/-- `map.insert(k, v)` leaves every other key alone -/
theorem lookup_insert_other {V : Type} (k k2 : Key) (hne : k2 ≠ k) (v : V) (m : List (Key × V)) :
    lookupKV k2 (insertKV k v m) = lookupKV k2 m := by
  have hk : (cmpKey k2 k == .eq) = false := by
    cases h : cmpKey k2 k <;> simp
    exact hne (cmpKey_eq h)
  induction m with
  | nil => simp [insertKV, lookupKV, hk]
  | cons p m ih =>
    obtain ⟨k', v'⟩ := p
    simp only [insertKV]
    cases h : cmpKey k k' with
    | lt => simp [lookupKV, hk]
    | eq =>
      have : k = k' := cmpKey_eq h
      subst this
      simp [lookupKV, hk]
    | gt => simp [lookupKV, ih]

section
variable {N : Type} (nu : TjNum N)

theorem getByte_updateByte_same (vals : List (Key × TJValue)) (k : Key) (f : Option Nat → Nat) :
    getByte? (updateByte vals k f) k = some (f (getByte? vals k)) := by
  simp [getByte?, updateByte, lookup_insert_same]

theorem lookup_updateByte_other (vals : List (Key × TJValue)) (k k2 : Key) (h : k2 ≠ k) (f : Option Nat → Nat) :
    lookupKV k2 (updateByte vals k f) = lookupKV k2 vals := by
  simp [updateByte, lookup_insert_other k k2 h]

theorem kMin_ne_kMax : kMinzoom ≠ kMaxzoom := by decide
end


theorem insertKV_mid {V : Type} (k : Key) (v : V) (P : List (Key × V)) (q : Key × V) (R : List (Key × V))
    (hP : ∀ p ∈ P, cmpKey p.1 k = .lt) (hq : cmpKey k q.1 = .lt) :
    insertKV k v (P ++ q :: R) = P ++ (k, v) :: q :: R := by
  induction P with
  | nil => obtain ⟨k', v'⟩ := q; simp only [List.nil_append, insertKV]; simp only at hq; rw [hq]
  | cons p P ih =>
    obtain ⟨k', v'⟩ := p
    have h1 : cmpKey k k' = .gt := cmpBytes_gt_of_lt _ _ (hP (k', v') (by simp))
    simp only [List.cons_append, insertKV, h1]
    rw [ih (fun x hx => hP x (by simp [hx]))]

theorem insertKV_replace {V : Type} (k : Key) (v v0 : V) (P R : List (Key × V))
    (hP : ∀ p ∈ P, cmpKey p.1 k = .lt) :
    insertKV k v (P ++ (k, v0) :: R) = P ++ (k, v) :: R := by
  induction P with
  | nil => simp only [List.nil_append, insertKV, cmpKey_refl]
  | cons p P ih =>
    obtain ⟨k', v'⟩ := p
    have h1 : cmpKey k k' = .gt := cmpBytes_gt_of_lt _ _ (hP (k', v') (by simp))
    simp only [List.cons_append, insertKV, h1]
    rw [ih (fun x hx => hP x (by simp [hx]))]

/-- inserting a sorted run of smaller keys in front of an existing entry -/
theorem foldl_insert_before {V : Type} (A P : List (Key × V)) (q : Key × V)
    (h : SortedKeys (P ++ A ++ [q])) :
    A.foldl (fun m kv => insertKV kv.1 kv.2 m) (P ++ [q]) = P ++ A ++ [q] := by
  induction A generalizing P with
  | nil => simp
  | cons a A ih =>
    simp only [List.foldl_cons]
    have hs : SortedKeys (P ++ (a :: (A ++ [q]))) := by simpa [SortedKeys] using h
    have hp := List.pairwise_append.1 hs
    have hPa : ∀ p ∈ P, cmpKey p.1 a.1 = .lt := fun p hp' => hp.2.2 p hp' a (by simp)
    have haq : cmpKey a.1 q.1 = .lt := by
      have := (List.pairwise_cons.1 hp.2.1).1 q (by simp)
      exact this
    rw [insertKV_mid a.1 a.2 P q [] hPa haq]
    have := ih (P ++ [a]) (by simpa [SortedKeys] using h)
    simpa using this

/-- `BTreeMap` built by inserting the entries of a sorted list into a map that already holds one of
    its keys is the list itself -/
theorem foldl_insert_sorted_onto {V : Type} (A B : List (Key × V)) (k0 : Key) (w v0 : V)
    (h : SortedKeys (A ++ (k0, w) :: B)) :
    (A ++ (k0, w) :: B).foldl (fun m kv => insertKV kv.1 kv.2 m) [(k0, v0)] = A ++ (k0, w) :: B := by
  rw [List.foldl_append, List.foldl_cons]
  have hp := List.pairwise_append.1 h
  have hA : ∀ p ∈ A, cmpKey p.1 k0 = .lt := fun p hp' => hp.2.2 p hp' (k0, w) (by simp)
  have h1 := foldl_insert_before A [] (k0, v0) (by
    have : SortedKeys (A ++ [(k0, v0)]) := by
      refine List.pairwise_append.2 ⟨hp.1, by simp, ?_⟩
      intro a ha b hb; simp at hb; subst hb; exact hA a ha
    simpa using this)
  simp only [List.nil_append] at h1
  rw [h1, insertKV_replace k0 w v0 A [] hA]
  have := foldl_insert_sorted B (A ++ [(k0, w)]) (by simpa [SortedKeys] using h)
  simpa using this


variable {M : Type} (nu : TjNum M)

/-- laws of the `u8 ↔ f64` conversions -/
structure TjLaws : Prop where
  byte_rt : ∀ b, b < 256 → nu.toByte? (nu.ofByte b) = some b
  u8_rt : ∀ b, b < 256 → nu.asU8 (nu.ofByte b) = b

def TJValue.WF : TJValue → Prop
  | .byte b => b < 256
  | _ => True

theorem mapM_asString (l : List (List Char)) :
    (l.map (JsonValue.str (N := M))).mapM asString? = some l := by
  induction l with
  | nil => rfl
  | cons x l ih => simp [List.mapM_cons, asString?, ih]

theorem value_roundtrip (laws : TjLaws nu) (x : TJValue) (h : TJValue.WF x) :
    TJValue.ofJson nu (TJValue.toJson nu x) = some x := by
  cases x with
  | list l => simp only [TJValue.toJson, TJValue.ofJson, mapM_asString, Option.map_some]
  | str s => rfl
  | byte b => simp [TJValue.toJson, TJValue.ofJson, laws.byte_rt b h]

theorem bounds_roundtrip (b : M × M × M × M) : boundsOfJson (boundsToJson b) = some b := by
  obtain ⟨a, b, c, d⟩ := b
  simp [boundsOfJson, boundsToJson, numberVec, List.mapM_cons, asNumber?]

theorem center_roundtrip (laws : TjLaws nu) (c : M × M × Nat) (h : c.2.2 < 256) :
    centerOfJson nu (centerToJson nu c) = some c := by
  obtain ⟨a, b, z⟩ := c
  simp [centerOfJson, centerToJson, numberVec, List.mapM_cons, asNumber?, laws.u8_rt z h]

/-- keys that `from_object` does not route into `values` -/
def Typed (k : Key) : Prop := k = kBounds ∨ k = kCenter ∨ k = kLayers

theorem foldOpt_values (laws : TjLaws nu) (L : List (Key × TJValue)) (r : TileJSON M)
    (hk : ∀ p ∈ L, ¬ Typed p.1) (hw : ∀ p ∈ L, TJValue.WF p.2) :
    foldOpt (fromObjectStep nu) r (L.map fun kv => (kv.1, TJValue.toJson nu kv.2))
      = some { r with values := L.foldl (fun m kv => insertKV kv.1 kv.2 m) r.values } := by
  induction L generalizing r with
  | nil => simp [foldOpt]
  | cons p L ih =>
    obtain ⟨k, x⟩ := p
    have hnt := hk (k, x) (by simp)
    simp only [Typed, not_or] at hnt
    simp only [List.map_cons, foldOpt, fromObjectStep, hnt.1, hnt.2.1, hnt.2.2, if_false,
      value_roundtrip nu laws x (hw (k, x) (by simp)), Option.map_some, Option.bind_some]
    rw [ih _ (fun q hq => hk q (by simp [hq])) (fun q hq => hw q (by simp [hq]))]
    simp

theorem foldl_insert_map {V W : Type} (g : V → W) (L : List (Key × V)) (h : SortedKeys L) :
    L.foldl (fun o kv => insertKV kv.1 (g kv.2) o) [] = L.map fun kv => (kv.1, g kv.2) := by
  have hs : SortedKeys (L.map fun kv => (kv.1, g kv.2)) := by
    simpa [SortedKeys, List.pairwise_map] using h
  have := foldl_insert_sorted (L.map fun kv => (kv.1, g kv.2)) [] (by simpa using hs)
  rw [List.foldl_map] at this
  simpa using this

/-- **C17d (partial)**: `from_object(as_object(t)) = t` for every document whose typed fields
    (`bounds`, `center`, `vector_layers`) are absent: any number of string / list / byte values under
    any other keys, `values` being what a `BTreeMap` created by `TileJsonValues::default()` holds
    (strictly sorted, containing the key `tilejson`). -/
theorem fromObject_asObject_values (laws : TjLaws nu) (A B : List (Key × TJValue)) (w : TJValue)
    (hs : SortedKeys (A ++ (kTilejson, w) :: B))
    (hk : ∀ p ∈ A ++ (kTilejson, w) :: B, ¬ Typed p.1)
    (hw : ∀ p ∈ A ++ (kTilejson, w) :: B, TJValue.WF p.2) :
    let t : TileJSON M := { bounds := none, center := none, values := A ++ (kTilejson, w) :: B, layers := [] }
    fromObject nu (asObject nu t) = some t := by
  intro t
  have h1 : asObject nu t = t.values.map fun kv => (kv.1, TJValue.toJson nu kv.2) := by
    simp only [asObject, setOptional, Option.map_none, layersToJson?, List.isEmpty_nil, if_true, t]
    exact foldl_insert_map (TJValue.toJson nu) _ hs
  rw [h1]
  unfold fromObject
  rw [foldOpt_values nu laws _ _ hk hw]
  simp only [TileJSON.default, t]
  rw [foldl_insert_sorted_onto A B kTilejson w _ hs]


end VtProofs.TileJson
