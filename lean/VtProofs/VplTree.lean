import VtProofs.VplValue
/-!
# VPL operations, source lists and pipelines as written, and what the parser model reads back

`CNodeF Pc` is an operation as written, with `Pc` the type of the pipelines inside its source list;
`CPipeF N` a pipeline of operations `N`.  Trees of every finite depth are the family `CNode d`
(`CNode 0` = operations without nested pipelines, `CNode (d+1)` = operations whose sources are pipelines
of `CNode d`): recursion and induction go over `d`.

Whitespace slots: one in front of every operation (`pre`), one (non-empty) in front of every parameter,
around `=`, inside value lists, one in front of the source list (`wS`), inside empty brackets, and one
behind every operation (`post`).  The slots the grammar has in addition (`[` ws pipeline, pipeline ws `]`,
around whole pipelines) are adjacent to `pre`/`post` slots, so every layout is covered.
-/
namespace VtModel.Vpl




section generic
variable {Pc : Type}




def srcsWF (wf : Pc → Prop) : Option (CSrcs Pc) → Prop
  | none => True
  | some (.empty _) => True
  | some (.some p more) => wf p ∧ ∀ q ∈ more, wf q

def CNodeF.WF (wf : Pc → Prop) (n : CNodeF Pc) : Prop :=
  IsIdent n.name ∧ (∀ x ∈ n.props, x.2.WF) ∧ srcsWF wf n.srcs

/-- a pipeline parser is right on the written pipelines `p` with `wf p` -/
def PipeOK (pp : P Pipeline) (ps : Pc → Str) (pt : Pc → Pipeline) (wf : Pc → Prop) : Prop :=
  ∀ p, wf p → ∀ i tail, StopP tail → dropWs i = dropWs (ps p ++ tail) → pp i = .ok tail (pt p)

/-- … and reports a recoverable error when the text does not start (after whitespace) with a letter -/
def PipeErr (pp : P Pipeline) : Prop := ∀ i, NoHead isAlpha (dropWs i) → pp i = .error

theorem stopP_cons_comma (r : Str) : StopP (',' :: r) := by intro c t e; cases e; rfl
theorem stopP_cons_close (r : Str) : StopP (']' :: r) := by intro c t e; cases e; rfl
theorem stop_cons_pipe (r : Str) : Stop ('|' :: r) := by intro c t e; cases e; rfl

theorem stopP_srcs_tail (ps : Pc → Str) (more : List Pc) (r : Str) :
    StopP ((more.map (chunkPipe ps)).flatten ++ ']' :: r) := by
  cases more with
  | nil => exact stopP_cons_close r
  | cons x xs => exact stopP_cons_comma _

/-- **source list** (present): `[ … ]` with pipelines separated by `,` -/
theorem parseSources_some (pp : P Pipeline) (ps : Pc → Str) (pt : Pc → Pipeline) (wf : Pc → Prop)
    (hpp : PipeOK pp ps pt wf) (herr : PipeErr pp) (s : CSrcs Pc) (hs : srcsWF wf (some s)) (r : Str) :
    parseSources pp (srcsStr ps (some s) ++ r) = .ok r (srcsTrees pt (some s)) := by
  cases s with
  | empty w =>
    have h1 : pp (']' :: r) = .error := herr _ (by
      rw [dropWs_cons_of_not (by rfl : isWs ']' = false)]; exact NoHead.cons (by rfl) _)
    simp only [srcsStr, srcsTrees, parseSources, opt, List.cons_append, List.append_assoc, List.nil_append, pchar, if_true,
      R.bind_ok, ws0_eq, dropWs_ws]
    rw [dropWs_cons_of_not (by rfl : isWs ']' = false)]
    simp [sepList0, h1, dropWs_cons_of_not, isWs, cut, pchar]
  | some p more =>
    obtain ⟨hp, hmore⟩ := hs
    have h1 := hpp p hp (dropWs (ps p ++ ((more.map (chunkPipe ps)).flatten ++ ']' :: r))) _ (stopP_srcs_tail ps more r)
      (dropWs_idem _)
    have hloop := sepLoop_chunks (pchar ',') pp (chunkPipe ps) pt StopP more (']' :: r)
      (by
        intro x hx tail ht
        refine ⟨ps x ++ tail, ?_, hpp x (hmore x hx) _ _ ht rfl⟩
        simp [chunkPipe, pchar])
      (by intro x _ h; simp [chunkPipe] at h)
      (by intro x _ tail; exact stopP_cons_comma _)
      (stopP_cons_close r)
      (Or.inl (by simp [pchar]))
    have hfuel : more.length < ((more.map (chunkPipe ps)).flatten ++ ']' :: r).length + 1 := by
      have := length_le_flatten (chunkPipe ps) more (by intro x _ h; simp [chunkPipe] at h)
      simp only [List.length_append]; omega
    simp only [srcsStr, srcsTrees, parseSources, opt, List.cons_append, List.append_assoc, List.nil_append, pchar, if_true,
      R.bind_ok, ws0_eq, sepList0, h1, hloop _ [pt p] hfuel]
    rw [dropWs_cons_of_not (by rfl : isWs ']' = false)]
    simp [cut, pchar]

/-- **source list** (absent): the text continues with something that is not `[` -/
theorem parseSources_none (pp : P Pipeline) (r : Str) (hr : ∀ t, r ≠ '[' :: t) :
    parseSources pp r = .ok r [] := by
  have : pchar '[' r = .error := by
    cases r with
    | nil => rfl
    | cons c t =>
      have : c ≠ '[' := by intro e; exact hr t (by rw [e])
      simp [pchar, this]
  simp [parseSources, opt, this]

/-- where the parser stands after the whitespace behind the parameters -/
def zOf (ps : Pc → Str) (n : CNodeF Pc) (tail : Str) : Str :=
  match n.srcs with
  | none => tail
  | some s => srcsStr ps (some s) ++ (n.post.str ++ tail)

theorem srcsStr_some_head (ps : Pc → Str) (s : CSrcs Pc) : ∃ t, srcsStr ps (some s) = '[' :: t := by
  cases s with
  | empty w => exact ⟨_, rfl⟩
  | some p more => exact ⟨_, rfl⟩

theorem zOf_ww (ps : Pc → Str) (n : CNodeF Pc) (tail : Str) (ht : Stop tail) : NoHead isWW (zOf ps n tail) := by
  unfold zOf
  cases h : n.srcs with
  | none => exact ht.ww
  | some s =>
    obtain ⟨t, e⟩ := srcsStr_some_head ps s
    simp only [e, List.cons_append]
    exact NoHead.cons (by rfl) _

theorem dropWs_after (ps : Pc → Str) (n : CNodeF Pc) (tail : Str) (ht : Stop tail) :
    dropWs (n.after ps ++ tail) = zOf ps n tail := by
  unfold CNodeF.after zOf
  cases h : n.srcs with
  | none =>
    simp only [srcsStr, List.nil_append, List.append_assoc, dropWs_ws]
    exact dropWs_of_noHead ht.ww.ws_of_ww
  | some s =>
    obtain ⟨t, e⟩ := srcsStr_some_head ps s
    simp only [List.append_assoc, dropWs_ws, e, List.cons_append]
    exact dropWs_cons_of_not (by rfl) _

theorem nw_after (ps : Pc → Str) (n : CNodeF Pc) (tail : Str) (ht : Stop tail) : NW (n.after ps ++ tail) := by
  unfold CNodeF.after
  simp only [List.append_assoc]
  refine NW.ws n.wS ?_
  cases h : n.srcs with
  | none => simp only [srcsStr, List.nil_append]; exact NW.ws n.post ht.ww.nw_of_ww
  | some s =>
    obtain ⟨t, e⟩ := srcsStr_some_head ps s
    simp only [e, List.cons_append]
    exact NoHead.cons (by rfl) _

/-- the sources part of an operation, from `zOf` to the tail -/
theorem sources_part (pp : P Pipeline) (ps : Pc → Str) (pt : Pc → Pipeline) (wf : Pc → Prop)
    (hpp : PipeOK pp ps pt wf) (herr : PipeErr pp) (n : CNodeF Pc) (hs : srcsWF wf n.srcs) (tail : Str) (ht : Stop tail) :
    ∃ r', parseSources pp (zOf ps n tail) = .ok r' (srcsTrees pt n.srcs) ∧ dropWs r' = tail := by
  unfold zOf
  cases h : n.srcs with
  | none =>
    refine ⟨tail, ?_, dropWs_of_noHead ht.ww.ws_of_ww⟩
    exact parseSources_none pp tail ht.not_bracket
  | some s =>
    rw [h] at hs
    refine ⟨n.post.str ++ tail, parseSources_some pp ps pt wf hpp herr s hs _, ?_⟩
    rw [dropWs_ws]; exact dropWs_of_noHead ht.ww.ws_of_ww

theorem nw_props_tail (xs : List (Ws1 × CProp)) (y : Str) (hy : NW y) : NW ((xs.map chunkProp).flatten ++ y) := by
  cases xs with
  | nil => exact hy
  | cons x xs =>
    simp only [List.map_cons, List.flatten_cons, chunkProp, List.append_assoc]
    exact NW.ws1 x.1 _

theorem ws1_error_of_noHead {i : Str} (h : NoHead isWs i) : ws1 i = .error := by
  cases i with
  | nil => rfl
  | cons c t => simp [ws1, h c t rfl]

/-- the parameter part of an operation: from behind the name to `zOf` -/
theorem props_part (ps : Pc → Str) (n : CNodeF Pc) (hp : ∀ x ∈ n.props, x.2.WF) (tail : Str) (ht : Stop tail) :
    ∃ y', sepList0 ws1 parseProperty (dropWs ((n.props.map chunkProp).flatten ++ (n.after ps ++ tail)))
        = .ok y' (n.props.map fun x => x.2.kv) ∧ dropWs y' = zOf ps n tail := by
  have hz := zOf_ww ps n tail ht
  have hperr : parseProperty (zOf ps n tail) = .error := parseProperty_error hz.nw_of_ww.alpha
  cases hprops : n.props with
  | nil =>
    refine ⟨zOf ps n tail, ?_, dropWs_of_noHead hz.ws_of_ww⟩
    simp only [List.map_nil, List.flatten_nil, List.nil_append, dropWs_after ps n tail ht, sepList0, hperr]
  | cons x xs =>
    rw [hprops] at hp
    have hx := hp x (List.mem_cons_self ..)
    obtain ⟨c, t, hc, hcw⟩ := IsIdent.head hx.1
    have hhead : ∃ c t, x.2.str = c :: t ∧ isWs c = false := by
      refine ⟨c, t ++ (x.2.wa.str ++ '=' :: (x.2.wb.str ++ x.2.val.str)), ?_, hcw⟩
      simp only [CProp.str, hc, List.cons_append]
    obtain ⟨c', t', hc', hcw'⟩ := hhead
    have hY := nw_after ps n tail ht
    have h1 := parseProperty_ok x.2 hx _ (nw_props_tail xs _ hY)
    have hend : ws1 (n.after ps ++ tail) = .error ∨
        ∃ m, ws1 (n.after ps ++ tail) = .ok m () ∧ parseProperty m = .error := by
      cases hy : n.after ps ++ tail with
      | nil => exact Or.inl rfl
      | cons d u =>
        by_cases hd : isWs d = true
        · refine Or.inr ⟨dropWs (d :: u), ?_, ?_⟩
          · simp only [ws1, hd, if_true, dropWs, List.dropWhile_cons]
          · rw [← hy, dropWs_after ps n tail ht]; exact hperr
        · exact Or.inl (by simp [ws1, hd])
    have hloop := sepLoop_chunks ws1 parseProperty chunkProp (fun x => x.2.kv) NW xs (n.after ps ++ tail)
      (by
        intro y hy tl htl
        have hyw := hp y (List.mem_cons_of_mem _ hy)
        obtain ⟨cy, ty, hcy, hcwy⟩ := IsIdent.head hyw.1
        refine ⟨y.2.str ++ tl, ?_, parseProperty_ok y.2 hyw tl htl⟩
        simp only [chunkProp, List.append_assoc]
        rw [ws1_ws1]
        have : y.2.str ++ tl = cy :: (ty ++ (y.2.wa.str ++ '=' :: (y.2.wb.str ++ y.2.val.str)) ++ tl) := by
          simp only [CProp.str, hcy, List.cons_append, List.append_assoc]
        rw [this, dropWs_cons_of_not hcwy])
      (by intro y _ h; simp [chunkProp, Ws1.str] at h)
      (by intro y _ tl; simp only [chunkProp, List.append_assoc]; exact NW.ws1 y.1 _)
      hY hend
    have hfuel : xs.length < ((xs.map chunkProp).flatten ++ (n.after ps ++ tail)).length + 1 := by
      have := length_le_flatten chunkProp xs (by intro y _ h; simp [chunkProp, Ws1.str] at h)
      simp only [List.length_append]; omega
    refine ⟨n.after ps ++ tail, ?_, dropWs_after ps n tail ht⟩
    simp only [List.map_cons, List.flatten_cons, chunkProp, List.append_assoc, dropWs_ws1]
    rw [dropWs_of_headNotWs hc' hcw']
    simp only [sepList0, h1, hloop _ [x.2.kv] hfuel, List.singleton_append]

/-- **operation**: name, parameters, optional source list, under every layout -/
theorem node_ok (pp : P Pipeline) (ps : Pc → Str) (pt : Pc → Pipeline) (wf : Pc → Prop)
    (hpp : PipeOK pp ps pt wf) (herr : PipeErr pp) (n : CNodeF Pc) (hn : n.WF wf)
    (i tail : Str) (ht : Stop tail) (hi : dropWs i = dropWs (n.str ps ++ tail)) :
    parseNode pp i = .ok tail (n.tree pt) := by
  obtain ⟨hname, hprops, hsrcs⟩ := hn
  obtain ⟨c, t, hc, hcw⟩ := IsIdent.head hname
  have hX : NW ((n.props.map chunkProp).flatten ++ (n.after ps ++ tail)) :=
    nw_props_tail n.props _ (nw_after ps n tail ht)
  have hi' : dropWs i = n.name ++ ((n.props.map chunkProp).flatten ++ (n.after ps ++ tail)) := by
    rw [hi]
    simp only [CNodeF.str, CNodeF.body, List.append_assoc, dropWs_ws]
    exact dropWs_of_headNotWs hc hcw _
  obtain ⟨y', hy1, hy2⟩ := props_part ps n hprops tail ht
  obtain ⟨r', hr1, hr2⟩ := sources_part pp ps pt wf hpp herr n hsrcs tail ht
  simp only [parseNode, ws0_eq, R.bind_ok, hi', parseIdent_ok hname hX.identRest, hy1, hy2, hr1, hr2]
  rfl

/-- an operation parser is right on the written operations `n` with `wf n` -/
def NodeOK {N : Type} (pn : P Node) (ns : N → Str) (nt : N → Node) (wf : N → Prop) : Prop :=
  ∀ n, wf n → ∀ i tail, Stop tail → dropWs i = dropWs (ns n ++ tail) → pn i = .ok tail (nt n)

end generic

section pipes
variable {N : Type}

def CPipeF.WF (wf : N → Prop) (p : CPipeF N) : Prop := wf p.first ∧ ∀ n ∈ p.more, wf n

theorem stop_pipe_tail (ns : N → Str) (more : List N) (tail : Str) (ht : StopP tail) :
    Stop ((more.map (chunkNode ns)).flatten ++ tail) := by
  cases more with
  | nil => exact ht.stop
  | cons x xs => exact stop_cons_pipe _

/-- **pipeline**: operations separated by `|` -/
theorem pipe_ok (pn : P Node) (ns : N → Str) (nt : N → Node) (wf : N → Prop) (hn : NodeOK pn ns nt wf) :
    PipeOK (parsePipelineWith pn) (CPipeF.str ns) (CPipeF.tree nt) (CPipeF.WF wf) := by
  intro p hp i tail ht hi
  obtain ⟨hfirst, hmore⟩ := hp
  have h1 := hn p.first hfirst (dropWs i) _ (stop_pipe_tail ns p.more tail ht) (by
    rw [dropWs_idem, hi]; simp only [CPipeF.str, List.append_assoc])
  have hloop := sepLoop_chunks (pchar '|') pn (chunkNode ns) nt Stop p.more tail
    (by
      intro x hx tl htl
      refine ⟨ns x ++ tl, ?_, hn x (hmore x hx) _ _ htl rfl⟩
      simp [chunkNode, pchar])
    (by intro x _ h; simp [chunkNode] at h)
    (by intro x _ tl; exact stop_cons_pipe _)
    ht.stop
    (Or.inl (by
      cases tail with
      | nil => rfl
      | cons c t =>
        have : c ≠ '|' := by intro e; exact ht.not_pipe t (by rw [e])
        simp [pchar, this]))
  have hfuel : p.more.length < ((p.more.map (chunkNode ns)).flatten ++ tail).length + 1 := by
    have := length_le_flatten (chunkNode ns) p.more (by intro x _ h; simp [chunkNode] at h)
    simp only [List.length_append]; omega
  simp only [parsePipelineWith, ws0_eq, R.bind_ok, sepList1, h1, hloop _ [nt p.first] hfuel,
    dropWs_of_noHead ht.stop.ww.ws_of_ww, CPipeF.tree, List.singleton_append]

end pipes

/-! ## trees of every depth -/

theorem parsePipeline_err (f : Nat) : PipeErr (parsePipeline (f + 1)) := by
  intro i hi
  simp only [parsePipeline, parsePipelineWith, ws0_eq, R.bind_ok, sepList1, parseNode, dropWs_idem, parseIdent_error hi,
    R.bind_error]



def noWF : Empty → Prop := fun e => nomatch e
def noDepth : Empty → Nat := fun e => nomatch e

def nodeWF : (d : Nat) → CNode d → Prop
  | 0 => CNodeF.WF noWF
  | d + 1 => CNodeF.WF (CPipeF.WF (nodeWF d))

def WF (d : Nat) (p : CPipe d) : Prop := CPipeF.WF (nodeWF d) p

/-! ### nesting depth actually used (for the fuel of the model) -/

def listMax {X : Type} (f : X → Nat) : List X → Nat
  | [] => 0
  | x :: xs => max (f x) (listMax f xs)

theorem le_listMax {X : Type} (f : X → Nat) (xs : List X) (x : X) (h : x ∈ xs) : f x ≤ listMax f xs := by
  induction xs with
  | nil => cases h
  | cons y ys ih =>
    rcases List.mem_cons.1 h with rfl | h'
    · exact Nat.le_max_left ..
    · exact Nat.le_trans (ih h') (Nat.le_max_right ..)

def srcsDepth {Pc : Type} (pd : Pc → Nat) : Option (CSrcs Pc) → Nat
  | none => 0
  | some (.empty _) => 1
  | some (.some p more) => 1 + max (pd p) (listMax pd more)
def CPipeF.depth {N : Type} (nd : N → Nat) (p : CPipeF N) : Nat := max (nd p.first) (listMax nd p.more)

def nodeDepth : (d : Nat) → CNode d → Nat
  | 0 => fun n => srcsDepth noDepth n.srcs
  | d + 1 => fun n => srcsDepth (CPipeF.depth (nodeDepth d)) n.srcs
def depthOf (d : Nat) (p : CPipe d) : Nat := CPipeF.depth (nodeDepth d) p

theorem srcsWF_mono {Pc : Type} (wf wf' : Pc → Prop) (pd : Pc → Nat) (s : Option (CSrcs Pc)) (k : Nat)
    (h : srcsWF wf s) (hd : srcsDepth pd s ≤ k + 1) (himp : ∀ p, wf p → pd p ≤ k → wf' p) : srcsWF wf' s := by
  cases s with
  | none => trivial
  | some s =>
    cases s with
    | empty w => trivial
    | some p more =>
      obtain ⟨hp, hm⟩ := h
      simp only [srcsDepth] at hd
      have h1 : pd p ≤ k := by have := Nat.le_max_left (pd p) (listMax pd more); omega
      refine ⟨himp p hp h1, fun q hq => himp q (hm q hq) ?_⟩
      have := le_listMax pd more q hq
      have := Nat.le_max_right (pd p) (listMax pd more)
      omega

theorem pipeWF_depth {N : Type} (wf : N → Prop) (nd : N → Nat) (p : CPipeF N) (k : Nat)
    (h : CPipeF.WF wf p) (hd : CPipeF.depth nd p ≤ k) : CPipeF.WF (fun n => wf n ∧ nd n ≤ k) p := by
  obtain ⟨h1, h2⟩ := h
  simp only [CPipeF.depth] at hd
  refine ⟨⟨h1, by have := Nat.le_max_left (nd p.first) (listMax nd p.more); omega⟩, fun n hn => ⟨h2 n hn, ?_⟩⟩
  have := le_listMax nd p.more n hn
  have := Nat.le_max_right (nd p.first) (listMax nd p.more)
  omega

/-- operations of depth ≤ `d` nested at most `k` deep are read correctly with `k + 1` levels of fuel below -/
theorem node_fam (d : Nat) : ∀ (k : Nat),
    NodeOK (parseNode (parsePipeline (k + 1))) (nodeStr d) (nodeTree d) (fun n => nodeWF d n ∧ nodeDepth d n ≤ k) := by
  induction d with
  | zero =>
    intro k n hn i tail ht hi
    exact node_ok (parsePipeline (k + 1)) noStr noTree noWF
      (fun p => nomatch p) (parsePipeline_err k) n hn.1 i tail ht hi
  | succ d ihd =>
    intro k n hn i tail ht hi
    obtain ⟨hwf, hdep⟩ := hn
    cases k with
    | zero =>
      -- depth 0: no source list at all, the inner parser is never asked for a pipeline
      have hs : srcsWF (fun (_ : CPipe d) => False) n.srcs := by
        have hd0 : srcsDepth (CPipeF.depth (nodeDepth d)) n.srcs = 0 := Nat.le_zero.1 hdep
        cases hsr : n.srcs with
        | none => trivial
        | some s =>
          rw [hsr] at hd0
          cases s with
          | empty w => simp [srcsDepth] at hd0
          | some p more => simp only [srcsDepth] at hd0; omega
      exact node_ok (parsePipeline 1) (CPipeF.str (nodeStr d)) (CPipeF.tree (nodeTree d)) (fun _ => False)
        (fun p hp => nomatch hp) (parsePipeline_err 0) n ⟨hwf.1, hwf.2.1, hs⟩ i tail ht hi
    | succ k =>
      have ih := ihd k
      have hpp : PipeOK (parsePipeline (k + 1 + 1)) (CPipeF.str (nodeStr d)) (CPipeF.tree (nodeTree d))
          (CPipeF.WF (fun m => nodeWF d m ∧ nodeDepth d m ≤ k)) := pipe_ok _ _ _ _ ih
      have hs : srcsWF (CPipeF.WF (fun m => nodeWF d m ∧ nodeDepth d m ≤ k)) n.srcs :=
        srcsWF_mono (CPipeF.WF (nodeWF d)) _ (CPipeF.depth (nodeDepth d)) n.srcs k hwf.2.2 hdep
          (fun p hp hd => pipeWF_depth _ _ p k hp hd)
      exact node_ok (parsePipeline (k + 1 + 1)) (CPipeF.str (nodeStr d)) (CPipeF.tree (nodeTree d)) _
        hpp (parsePipeline_err (k + 1)) n ⟨hwf.1, hwf.2.1, hs⟩ i tail ht hi

/-- pipelines nested at most `k` deep are read correctly with `k + 2` levels of fuel -/
theorem pipe_fam (d k : Nat) (p : CPipe d) (hp : WF d p) (hk : depthOf d p ≤ k) (tail : Str) (ht : StopP tail) :
    parsePipeline (k + 2) (render d p ++ tail) = .ok tail (treeOf d p) :=
  pipe_ok _ _ _ _ (node_fam d k) p (pipeWF_depth _ _ p k hp hk) _ tail ht rfl

end VtModel.Vpl

namespace VtModel.Vpl

/-! ### the fuel `parseVpl` uses (text length + 1) is enough: every nesting level costs two brackets -/

theorem listMax_le_flatten {X : Type} (f : X → Nat) (chunk : X → Str) (xs : List X)
    (h : ∀ x ∈ xs, f x ≤ (chunk x).length) : listMax f xs ≤ ((xs.map chunk).flatten).length := by
  induction xs with
  | nil => simp [listMax]
  | cons x xs ih =>
    have h1 := h x (List.mem_cons_self ..)
    have h2 := ih (fun y hy => h y (List.mem_cons_of_mem _ hy))
    simp only [listMax, List.map_cons, List.flatten_cons, List.length_append]
    omega

theorem srcs_len {Pc : Type} (ps : Pc → Str) (pd : Pc → Nat) (wf : Pc → Prop)
    (hlen : ∀ p, wf p → pd p + 1 ≤ (ps p).length) (s : Option (CSrcs Pc)) (hs : srcsWF wf s) :
    srcsDepth pd s ≤ (srcsStr ps s).length := by
  cases s with
  | none => simp [srcsDepth]
  | some s =>
    cases s with
    | empty w => simp [srcsDepth, srcsStr]
    | some p more =>
      obtain ⟨hp, hm⟩ := hs
      have h1 := hlen p hp
      have h2 := listMax_le_flatten pd (chunkPipe ps) more (by
        intro q hq; have := hlen q (hm q hq); simp only [chunkPipe, List.length_cons]; omega)
      simp only [srcsDepth, srcsStr, List.length_cons, List.length_append, List.length_nil]
      omega

theorem node_len {Pc : Type} (ps : Pc → Str) (pd : Pc → Nat) (wf : Pc → Prop)
    (hlen : ∀ p, wf p → pd p + 1 ≤ (ps p).length) (n : CNodeF Pc) (hn : n.WF wf) :
    srcsDepth pd n.srcs + 1 ≤ (n.str ps).length := by
  obtain ⟨c, t, hc, _⟩ := hn.1
  have := srcs_len ps pd wf hlen n.srcs hn.2.2
  simp only [CNodeF.str, CNodeF.body, CNodeF.after, List.length_append, hc, List.length_cons]
  omega

theorem pipe_len {N : Type} (ns : N → Str) (nd : N → Nat) (wf : N → Prop)
    (hlen : ∀ n, wf n → nd n + 1 ≤ (ns n).length) (p : CPipeF N) (hp : p.WF wf) :
    p.depth nd + 1 ≤ (p.str ns).length := by
  have h1 := hlen p.first hp.1
  have h2 := listMax_le_flatten nd (chunkNode ns) p.more (by
    intro q hq; have := hlen q (hp.2 q hq); simp only [chunkNode, List.length_cons]; omega)
  simp only [CPipeF.depth, CPipeF.str, List.length_append]
  omega

theorem nodeDepth_len (d : Nat) : ∀ (n : CNode d), nodeWF d n → nodeDepth d n + 1 ≤ (nodeStr d n).length := by
  induction d with
  | zero => intro n hn; exact node_len noStr noDepth noWF (fun p => nomatch p) n hn
  | succ d ih =>
    intro n hn
    exact node_len (CPipeF.str (nodeStr d)) (CPipeF.depth (nodeDepth d)) (CPipeF.WF (nodeWF d))
      (fun p hp => pipe_len (nodeStr d) (nodeDepth d) (nodeWF d) ih p hp) n hn

theorem depthOf_len (d : Nat) (p : CPipe d) (hp : WF d p) : depthOf d p + 1 ≤ (render d p).length :=
  pipe_len (nodeStr d) (nodeDepth d) (nodeWF d) (nodeDepth_len d) p hp

/-- fuel beyond what the nesting needs changes nothing -/
theorem pipe_fam_ge (d f : Nat) (p : CPipe d) (hp : WF d p) (hf : depthOf d p + 2 ≤ f) (tail : Str) (ht : StopP tail) :
    parsePipeline f (render d p ++ tail) = .ok tail (treeOf d p) := by
  obtain ⟨k, rfl⟩ : ∃ k, f = k + 2 := ⟨f - 2, by omega⟩
  exact pipe_fam d k p hp (by omega) tail ht

/-- the parser proper on the text of a written pipeline -/
theorem parseVplCore_render (d : Nat) (p : CPipe d) (hp : WF d p) : parseVplCore (render d p) = .ok (treeOf d p) := by
  have hl := depthOf_len d p hp
  have := pipe_fam_ge d ((render d p).length + 1) p hp (by omega) [] StopP.nil
  simp only [List.append_nil] at this
  simp only [parseVplCore, this]

/-- **main theorem**: the text of every written pipeline that passes the nesting guard of `parse_vpl`
    (at most 64 brackets open at any point) parses to the pipeline it describes -/
theorem parseVpl_render (d : Nat) (p : CPipe d) (hp : WF d p) (hd : bracketDepth (render d p) ≤ maxNesting) :
    parseVpl (render d p) = .ok (treeOf d p) := by
  simp only [parseVpl, hd, if_true, parseVplCore_render d p hp]

/-- … and beyond the guard it is an error, whatever the text is -/
theorem parseVpl_too_deep (s : Str) (h : maxNesting < bracketDepth s) : parseVpl s = .err := by
  have : ¬ bracketDepth s ≤ maxNesting := by omega
  simp only [parseVpl, this, if_false]

/-- **trailing text**: a complete pipeline followed by `,` or `]` (an unbalanced closing bracket, a stray
    comma) is rejected -/
theorem parseVpl_trailing (d : Nat) (p : CPipe d) (hp : WF d p) (c : Char) (t : Str) (hc : stopPChar c = true) :
    parseVpl (render d p ++ c :: t) = .err := by
  have hl := depthOf_len d p hp
  have ht : StopP (c :: t) := by intro c' t' e; cases e; exact hc
  have := pipe_fam_ge d ((render d p ++ c :: t).length + 1) p hp (by simp only [List.length_append]; omega) (c :: t) ht
  simp only [parseVpl, parseVplCore, this]
  split <;> rfl

end VtModel.Vpl
