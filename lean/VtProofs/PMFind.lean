import VtModel.PMTiles
/-!
Specification of `EntriesV3::find_tile` (binary search + run length + leaf fall-through) on any
directory sorted by tile id.
-/
namespace VtProofs.PMFind
open VtModel VtModel.Fmt VtModel.PMTiles

/-- strictly increasing tile ids, in index form -/
def SortedIdx (l : List Entry) : Prop :=
  ∀ (i j : Nat) (hi : i < j) (hj : j < l.length), (l[i]'(by omega)).id < (l[j]'hj).id

theorem sortedIdx_of_pairwise {l : List Entry} (h : l.Pairwise (fun a b => a.id < b.id)) : SortedIdx l := by
  intro i j hi hj
  exact (List.pairwise_iff_getElem.mp h) i j (by omega) hj hi

theorem SortedIdx.le {l : List Entry} (hs : SortedIdx l) (i j : Nat) (hi : i ≤ j) (hj : j < l.length) :
    (l[i]'(by omega)).id ≤ (l[j]'hj).id := by
  by_cases h : i = j
  · subst h; exact Nat.le_refl _
  · exact Nat.le_of_lt (hs i j (by omega) hj)

/-- outcome of the search loop -/
inductive LoopRes (l : List Entry) (id : Nat) : Outcome Search → Prop where
  | hit (k : Nat) (hk : k < l.length) (he : (l[k]'hk).id = id) : LoopRes l id (.ok (.hit (l[k]'hk)))
  | stop (n : Int) (h1 : -1 ≤ n) (h2 : n < l.length)
      (lo : ∀ (i : Nat) (hi : i < l.length), (i : Int) ≤ n → (l[i]'hi).id < id)
      (hi : ∀ (i : Nat) (hi : i < l.length), n < (i : Int) → id < (l[i]'hi).id) : LoopRes l id (.ok (.stop n))

theorem searchLoop_spec (l : List Entry) (hs : SortedIdx l) (id : Nat) :
    ∀ (fuel : Nat) (m n : Int), 0 ≤ m → n < l.length → m ≤ n + 1 → n - m + 2 ≤ fuel →
      (∀ (i : Nat) (hi : i < l.length), (i : Int) < m → (l[i]'hi).id < id) →
      (∀ (i : Nat) (hi : i < l.length), n < (i : Int) → id < (l[i]'hi).id) →
      LoopRes l id (searchLoop l.toArray id fuel m n) := by
  intro fuel
  induction fuel with
  | zero => intro m n h0 h1 h2 h3; omega
  | succ fuel ih =>
    intro m n h0 h1 h2 h3 lo hi
    unfold searchLoop
    by_cases hmn : m ≤ n
    · simp only [hmn, if_true]
      have hk0 : 0 ≤ (n + m) / 2 := by omega
      have hkm : m ≤ (n + m) / 2 := by omega
      have hkn : (n + m) / 2 ≤ n := by omega
      generalize hk : (n + m) / 2 = k at *
      have hkl : k.toNat < l.length := by omega
      have hget : l.toArray[k.toNat]? = some (l[k.toNat]'hkl) := by
        simp [hkl]
      rw [hget]
      simp only
      have hneg : ¬ (k < 0) := by omega
      simp only [hneg, if_false]
      by_cases hgt : id > (l[k.toNat]'hkl).id
      · simp only [hgt, if_true]
        apply ih (k + 1) n (by omega) h1 (by omega) (by omega)
        · intro i hi' hik
          have : i ≤ k.toNat := by omega
          have := hs.le i k.toNat this hkl
          omega
        · exact hi
      · simp only [hgt, if_false]
        by_cases hlt : id < (l[k.toNat]'hkl).id
        · simp only [hlt, if_true]
          apply ih m (k - 1) h0 (by omega) (by omega) (by omega)
          · exact lo
          · intro i hi' hik
            have : k.toNat ≤ i := by omega
            have := hs.le k.toNat i this hi'
            omega
        · simp only [hlt, if_false]
          exact LoopRes.hit k.toNat hkl (by omega)
    · simp only [hmn, if_false]
      apply LoopRes.stop n (by omega) h1
      · intro i hi' hin
        exact lo i hi' (by omega)
      · exact hi

/-- `find_tile` on a directory with strictly increasing ids, when some entry starts at or before
    `id`: let `e` be the LAST such entry; the result is `e` if it is hit exactly, is a leaf pointer
    (`run_length = 0`) or its run covers `id`, and `None` otherwise.  In particular no panic. -/
theorem findTile_spec (l : List Entry) (hs : l.Pairwise (fun a b => a.id < b.id)) (id : Nat)
    (k : Nat) (hk : k < l.length) (hle : (l[k]'hk).id ≤ id)
    (hnext : ∀ (j : Nat) (hj : j < l.length), k < j → id < (l[j]'hj).id) :
    findTile l id = .ok (if (l[k]'hk).id = id ∨ (l[k]'hk).run = 0 ∨ id - (l[k]'hk).id < (l[k]'hk).run
                         then some (l[k]'hk) else none) := by
  have hsi := sortedIdx_of_pairwise hs
  unfold findTile
  have hspec := searchLoop_spec l hsi id (l.length + 1) 0 ((l.length : Int) - 1) (by omega) (by omega) (by omega)
    (by simp; omega) (by intro i hi h; omega) (by intro i hi h; omega)
  simp only [List.size_toArray]
  generalize hres : searchLoop l.toArray id (l.length + 1) 0 ((l.length : Int) - 1) = res at hspec
  cases hspec with
  | hit k' hk' he =>
    simp only
    -- the hit entry has id = `id`, so it is the last entry ≤ id, i.e. k' = k
    have hkk : k' = k := by
      by_cases h1 : k' < k
      · have := hsi k' k h1 hk; omega
      · by_cases h2 : k < k'
        · have := hnext k' hk' h2; omega
        · omega
    subst hkk
    simp [he]
  | stop n h1 h2 lo hi =>
    simp only
    -- all entries up to n are < id, all after are > id: n = k and l[k].id < id
    have hkn : (k : Int) = n := by
      by_cases h : (k : Int) ≤ n
      · by_cases h' : (k : Int) < n
        · have hn : n.toNat < l.length := by omega
          have := lo n.toNat hn (by omega)
          have := hnext n.toNat hn (by omega)
          omega
        · omega
      · have := hi k hk (by omega); omega
    have hn0 : n ≥ 0 := by omega
    simp only [hn0, if_true]
    have hnk : n.toNat = k := by omega
    have hget : l.toArray[n.toNat]? = some (l[k]'hk) := by
      simp [hnk, hk]
    rw [hget]
    simp only
    have hlt := lo k hk (by omega)
    by_cases hr : (l[k]'hk).run = 0
    · simp [hr]
    · have hne : ¬ ((l[k]'hk).id = id) := by omega
      have hws : wrappingSub id (l[k]'hk).id = id - (l[k]'hk).id := by
        unfold wrappingSub
        have : (l[k]'hk).id ≤ id := by omega
        simp [this]
      simp only [hr, if_false, hws, hne, false_or]
      split <;> rfl

/-- no entry starts at or before `id`: `None` -/
theorem findTile_none (l : List Entry) (hs : l.Pairwise (fun a b => a.id < b.id)) (id : Nat)
    (hall : ∀ (j : Nat) (hj : j < l.length), id < (l[j]'hj).id) :
    findTile l id = .ok none := by
  have hsi := sortedIdx_of_pairwise hs
  unfold findTile
  have hspec := searchLoop_spec l hsi id (l.length + 1) 0 ((l.length : Int) - 1) (by omega) (by omega) (by omega)
    (by simp; omega) (by intro i hi h; omega) (by intro i hi h; omega)
  simp only [List.size_toArray]
  generalize hres : searchLoop l.toArray id (l.length + 1) 0 ((l.length : Int) - 1) = res at hspec
  cases hspec with
  | hit k' hk' he => have := hall k' hk'; omega
  | stop n h1 h2 lo hi =>
    simp only
    have : ¬ (n ≥ 0) := by
      intro hn
      have hn' : n.toNat < l.length := by omega
      have := lo n.toNat hn' (by omega)
      have := hall n.toNat hn'
      omega
    simp [this]

end VtProofs.PMFind
