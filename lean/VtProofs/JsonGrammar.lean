import VtProofs.JsonRoundtrip
/-!
C17: the JSON grammar of RFC 8259 (§2–§7) as inductive predicates on UTF-8 byte strings, and
membership of every `stringify` output.
-/
namespace VtProofs.Json
open VtModel.Json

/-- RFC 8259 §2: `ws = *( %x20 / %x09 / %x0A / %x0D )` -/
def RfcWs (bs : Bytes) : Prop := ∀ b ∈ bs, b = 0x20 ∨ b = 0x09 ∨ b = 0x0a ∨ b = 0x0d

/-- `HEXDIG` (`0-9`, `A-F`; ABNF literals are case-insensitive, so `a-f` too) -/
def isHexDigit (b : UInt8) : Bool :=
  (0x30 ≤ b && b ≤ 0x39) || (0x61 ≤ b && b ≤ 0x66) || (0x41 ≤ b && b ≤ 0x46)
def IsHexDigit (b : UInt8) : Prop := isHexDigit b = true

/-- RFC 8259 §7: `*char` between the quotation marks.
    `unescaped = %x20-21 / %x23-5B / %x5D-10FFFF` (a code point, written in UTF-8);
    `escape ( " \ / b f n r t / uXXXX )`. -/
inductive RfcChars : Bytes → Prop where
  | nil : RfcChars []
  | unescaped (c : Char) (r : Bytes) :
      0x20 ≤ c.toNat → c.toNat ≠ 0x22 → c.toNat ≠ 0x5c → RfcChars r → RfcChars (String.utf8EncodeChar c ++ r)
  | esc (x : UInt8) (r : Bytes) :
      x ∈ [0x22, 0x5c, 0x2f, 0x62, 0x66, 0x6e, 0x72, 0x74] → RfcChars r → RfcChars (0x5c :: x :: r)
  | uesc (h1 h2 h3 h4 : UInt8) (r : Bytes) :
      IsHexDigit h1 → IsHexDigit h2 → IsHexDigit h3 → IsHexDigit h4 → RfcChars r →
      RfcChars (0x5c :: 0x75 :: h1 :: h2 :: h3 :: h4 :: r)

/-- `string = quotation-mark *char quotation-mark` -/
inductive RfcString : Bytes → Prop where
  | mk (cs : Bytes) : RfcChars cs → RfcString (0x22 :: (cs ++ [0x22]))

/-- RFC 8259 §6: `int = zero / ( digit1-9 *DIGIT )` -/
def RfcInt (ip : Bytes) : Prop :=
  ip = [0x30] ∨ ∃ d r, ip = d :: r ∧ isDigit d = true ∧ d ≠ 0x30 ∧ AllDigits r

/-- `frac = decimal-point 1*DIGIT` (optional) -/
def RfcFrac (fp : Bytes) : Prop := fp = [] ∨ ∃ ds, fp = 0x2e :: ds ∧ ds ≠ [] ∧ AllDigits ds

/-- `exp = e [ minus / plus ] 1*DIGIT` (optional) -/
def RfcExp (ep : Bytes) : Prop :=
  ep = [] ∨ ∃ e sg ds, (e = 0x65 ∨ e = 0x45) ∧ (sg = [] ∨ sg = [0x2b] ∨ sg = [0x2d]) ∧ ds ≠ [] ∧ AllDigits ds ∧
    ep = e :: (sg ++ ds)

/-- `number = [ minus ] int [ frac ] [ exp ]` -/
inductive RfcNumber : Bytes → Prop where
  | mk (neg : Bool) (ip fp ep : Bytes) : RfcInt ip → RfcFrac fp → RfcExp ep →
      RfcNumber ((if neg then [0x2d] else []) ++ ip ++ fp ++ ep)

mutual
/-- RFC 8259 §3: `value = false / null / true / object / array / number / string` -/
inductive RfcValue : Bytes → Prop where
  | null : RfcValue [0x6e, 0x75, 0x6c, 0x6c]
  | true_ : RfcValue [0x74, 0x72, 0x75, 0x65]
  | false_ : RfcValue [0x66, 0x61, 0x6c, 0x73, 0x65]
  | number (bs : Bytes) : RfcNumber bs → RfcValue bs
  | string (bs : Bytes) : RfcString bs → RfcValue bs
  /-- §5: `begin-array [ value *( value-separator value ) ] end-array`, structural characters
      may be surrounded by `ws` -/
  | arrayEmpty (w : Bytes) : RfcWs w → RfcValue (0x5b :: (w ++ [0x5d]))
  | array (es : Bytes) : RfcElements es → RfcValue (0x5b :: (es ++ [0x5d]))
  /-- §4: `begin-object [ member *( value-separator member ) ] end-object` -/
  | objectEmpty (w : Bytes) : RfcWs w → RfcValue (0x7b :: (w ++ [0x7d]))
  | object (ms : Bytes) : RfcMembers ms → RfcValue (0x7b :: (ms ++ [0x7d]))
/-- `ws value ws *( "," ws value ws )` -/
inductive RfcElements : Bytes → Prop where
  | one (w1 v w2 : Bytes) : RfcWs w1 → RfcValue v → RfcWs w2 → RfcElements (w1 ++ v ++ w2)
  | more (w1 v w2 es : Bytes) : RfcWs w1 → RfcValue v → RfcWs w2 → RfcElements es →
      RfcElements (w1 ++ v ++ w2 ++ 0x2c :: es)
/-- `member = string name-separator value` with `ws` around the structural characters -/
inductive RfcMembers : Bytes → Prop where
  | one (w1 k w2 w3 v w4 : Bytes) : RfcWs w1 → RfcString k → RfcWs w2 → RfcWs w3 → RfcValue v → RfcWs w4 →
      RfcMembers (w1 ++ k ++ w2 ++ 0x3a :: (w3 ++ v ++ w4))
  | more (w1 k w2 w3 v w4 ms : Bytes) : RfcWs w1 → RfcString k → RfcWs w2 → RfcWs w3 → RfcValue v → RfcWs w4 →
      RfcMembers ms → RfcMembers (w1 ++ k ++ w2 ++ 0x3a :: (w3 ++ v ++ w4 ++ 0x2c :: ms))
end

/-- `JSON-text = ws value ws` -/
inductive RfcText : Bytes → Prop where
  | mk (w1 v w2 : Bytes) : RfcWs w1 → RfcValue v → RfcWs w2 → RfcText (w1 ++ v ++ w2)

theorem rfcWs_nil : RfcWs [] := by intro b hb; simp at hb

theorem hexDigit_isHex : ∀ n : Fin 16, IsHexDigit (hexDigit n.val) := by unfold IsHexDigit; decide

theorem escapeChar_rfc (c : Char) (r : Bytes) (hr : RfcChars r) : RfcChars (escapeChar c ++ r) := by
  unfold escapeChar
  split
  · exact RfcChars.esc _ _ (by simp) hr
  split
  · exact RfcChars.esc _ _ (by simp) hr
  split
  · exact RfcChars.esc _ _ (by simp) hr
  split
  · exact RfcChars.esc _ _ (by simp) hr
  split
  · exact RfcChars.esc _ _ (by simp) hr
  split
  · exact RfcChars.esc _ _ (by simp) hr
  split
  · exact RfcChars.esc _ _ (by simp) hr
  split
  · have h := char_toNat_lt c
    simp only [hex4, List.cons_append, List.nil_append]
    exact RfcChars.uesc _ _ _ _ _
      (hexDigit_isHex ⟨c.toNat / 4096 % 16, by omega⟩) (hexDigit_isHex ⟨c.toNat / 256 % 16, by omega⟩)
      (hexDigit_isHex ⟨c.toNat / 16 % 16, by omega⟩) (hexDigit_isHex ⟨c.toNat % 16, by omega⟩) hr
  · rename_i h1 h2 _ _ _ _ _ hc
    have : 0x20 ≤ c.toNat := by
      simp only [isControl, Bool.or_eq_true, decide_eq_true_eq, Bool.and_eq_true, not_or, not_and] at hc
      omega
    exact RfcChars.unescaped c r this h1 h2 hr

theorem escape_rfc (cs : List Char) : RfcChars (escape cs) := by
  induction cs with
  | nil => exact RfcChars.nil
  | cons c cs ih =>
    simp only [escape, List.flatMap_cons] at ih ⊢
    exact escapeChar_rfc c _ ih

theorem quote_rfc (cs : List Char) : RfcString (quote cs) := RfcString.mk _ (escape_rfc cs)

theorem numLex_rfc {lx : Bytes} (h : NumLex lx) : RfcNumber lx := by
  cases h with
  | mk neg ds fs frac hne hds hz hfs =>
    have hint : RfcInt ds := by
      rcases hz with rfl | hz
      · exact Or.inl rfl
      · cases ds with
        | nil => exact absurd rfl hne
        | cons d r =>
          exact Or.inr ⟨d, r, rfl, hds d (by simp), hz d r rfl, fun x hx => hds x (by simp [hx])⟩
    have hfr : RfcFrac (if frac then 0x2e :: fs else []) := by
      cases frac with
      | false => exact Or.inl rfl
      | true => obtain ⟨a, b⟩ := hfs rfl; exact Or.inr ⟨fs, rfl, a, b⟩
    have := RfcNumber.mk neg ds (if frac then 0x2e :: fs else []) [] hint hfr (Or.inl rfl)
    simpa using this

variable {N : Type}

mutual
theorem stringify_rfc (ops : NumOps N) (laws : NumLaws ops) : (v : JsonValue N) → RfcValue (stringify ops v)
  | .null => RfcValue.null
  | .bool true => RfcValue.true_
  | .bool false => RfcValue.false_
  | .num n => RfcValue.number _ (numLex_rfc (laws.lex n))
  | .str s => RfcValue.string _ (quote_rfc s)
  | .arr [] => by simpa [stringify, stringifyItems] using RfcValue.arrayEmpty [] rfcWs_nil
  | .arr (x :: r) => by
    simp only [stringify]
    exact RfcValue.array _ (stringifyItems_rfc ops laws (x :: r) (by simp))
  | .obj [] => by simpa [stringify, stringifyMembers] using RfcValue.objectEmpty [] rfcWs_nil
  | .obj (p :: r) => by
    simp only [stringify]
    exact RfcValue.object _ (stringifyMembers_rfc ops laws (p :: r) (by simp))
theorem stringifyItems_rfc (ops : NumOps N) (laws : NumLaws ops) :
    (xs : List (JsonValue N)) → xs ≠ [] → RfcElements (stringifyItems ops xs)
  | [], h => absurd rfl h
  | [x], _ => by
    have := RfcElements.one [] _ [] rfcWs_nil (stringify_rfc ops laws x) rfcWs_nil
    simpa [stringifyItems] using this
  | x :: y :: r, _ => by
    have := RfcElements.more [] _ [] _ rfcWs_nil (stringify_rfc ops laws x) rfcWs_nil
      (stringifyItems_rfc ops laws (y :: r) (by simp))
    simpa [stringifyItems] using this
theorem stringifyMembers_rfc (ops : NumOps N) (laws : NumLaws ops) :
    (kvs : List (List Char × JsonValue N)) → kvs ≠ [] → RfcMembers (stringifyMembers ops kvs)
  | [], h => absurd rfl h
  | [(k, v)], _ => by
    have := RfcMembers.one [] _ [] [] _ [] rfcWs_nil (quote_rfc k) rfcWs_nil rfcWs_nil (stringify_rfc ops laws v) rfcWs_nil
    simpa [stringifyMembers] using this
  | (k, v) :: y :: r, _ => by
    have := RfcMembers.more [] _ [] [] _ [] _ rfcWs_nil (quote_rfc k) rfcWs_nil rfcWs_nil (stringify_rfc ops laws v) rfcWs_nil
      (stringifyMembers_rfc ops laws (y :: r) (by simp))
    simpa [stringifyMembers] using this
end

end VtProofs.Json
