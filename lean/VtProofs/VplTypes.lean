import VtModel.Vpl
/-!
# The typed getters behind the `VPLDecode` derive: which texts are accepted, which value results

One statement per field type of `decode_struct.rs`: the value written the usual way comes back
(`decode (show v) = v`), values outside the type are an error (no narrowing, no wrap-around), an absent
optional parameter is `None` / the documented default.
-/
namespace VtModel.Vpl

/-! ## decimal texts -/

theorem digit_char (d : Nat) (h : d < 10) :
    (Char.ofNat (48 + d)).isDigit = true ∧ (Char.ofNat (48 + d)).toNat - 48 = d ∧ Char.ofNat (48 + d) ≠ '+' ∧
    Char.ofNat (48 + d) ≠ '-' := by
  have : d = 0 ∨ d = 1 ∨ d = 2 ∨ d = 3 ∨ d = 4 ∨ d = 5 ∨ d = 6 ∨ d = 7 ∨ d = 8 ∨ d = 9 := by omega
  rcases this with rfl | rfl | rfl | rfl | rfl | rfl | rfl | rfl | rfl | rfl <;> decide

def digitsNat (cs : List Char) : Nat := cs.foldl (fun n c => 10 * n + (c.toNat - 48)) 0

theorem digitsNat_snoc (cs : List Char) (c : Char) : digitsNat (cs ++ [c]) = 10 * digitsNat cs + (c.toNat - 48) := by
  simp [digitsNat, List.foldl_append]

/-- the decimal text of `n`: non-empty, digits only, starts with a digit, and its value is `n` -/
theorem decimal_spec (n : Nat) :
    decimal n ≠ [] ∧ (∀ c ∈ decimal n, c.isDigit = true) ∧ digitsNat (decimal n) = n ∧
    (∃ c t, decimal n = c :: t ∧ c.isDigit = true ∧ c ≠ '+' ∧ c ≠ '-') := by
  induction n using Nat.strongRecOn with
  | _ n ih =>
    rw [decimal]
    by_cases h : n < 10
    · obtain ⟨h1, h2, h3, h4⟩ := digit_char n h
      simp only [h, dite_true]
      refine ⟨by simp, ?_, ?_, ⟨_, [], rfl, h1, h3, h4⟩⟩
      · intro c hc; simp at hc; rw [hc]; exact h1
      · simp [digitsNat, h2]
    · simp only [h, dite_false]
      obtain ⟨i1, i2, i3, c, t, i4, i5, i6, i7⟩ := ih (n / 10) (by omega)
      obtain ⟨h1, h2, _, _⟩ := digit_char (n % 10) (by omega)
      refine ⟨by simp, ?_, ?_, ⟨c, t ++ [Char.ofNat (48 + n % 10)], by rw [i4]; rfl, i5, i6, i7⟩⟩
      · intro d hd
        rcases List.mem_append.1 hd with hd | hd
        · exact i2 d hd
        · simp at hd; rw [hd]; exact h1
      · rw [digitsNat_snoc, i3, h2]; omega

theorem digitsVal_decimal (n : Nat) : digitsVal (decimal n) = some n := by
  obtain ⟨h1, h2, h3, _⟩ := decimal_spec n
  have hall : (decimal n).all Char.isDigit = true := List.all_eq_true.2 h2
  cases hd : decimal n with
  | nil => exact absurd hd h1
  | cons c t =>
    rw [hd] at hall h3
    simp only [digitsVal, hall, if_true]
    exact congrArg some h3

/-! ## u8 / u32 -/

/-- **unsigned integers**: the decimal text of `n` decodes to `n` exactly when `n` fits the type; there is no
    narrowing or wrap-around (`256` is not `0` for `u8`, `4294967296` is not `0` for `u32`) -/
theorem parseUnsigned_decimal (max n : Nat) :
    parseUnsigned max (decimal n) = if n ≤ max then some n else none := by
  obtain ⟨_, _, _, c, t, hc, _, hplus, _⟩ := decimal_spec n
  have hs : stripPlus (decimal n) = decimal n := by
    rw [hc]; unfold stripPlus
    split
    · rename_i heq; exact absurd (List.cons.inj heq).1 hplus
    · rfl
  simp only [parseUnsigned, hs, digitsVal_decimal]

theorem u8_roundtrip (f : Str) (n : Nat) (h : n ≤ 255) : getUnsigned 255 [(f, [decimal n])] f = .val n := by
  simp [getUnsigned, getProperty, lookupProp, parseUnsigned_decimal, h]

theorem u8_out_of_range (f : Str) (n : Nat) (h : 255 < n) : getUnsigned 255 [(f, [decimal n])] f = .err := by
  have : ¬ n ≤ 255 := by omega
  simp [getUnsigned, getProperty, lookupProp, parseUnsigned_decimal, this]

theorem u32_roundtrip (f : Str) (n : Nat) (h : n ≤ 4294967295) :
    getUnsigned 4294967295 [(f, [decimal n])] f = .val n := by
  simp [getUnsigned, getProperty, lookupProp, parseUnsigned_decimal, h]

theorem u32_out_of_range (f : Str) (n : Nat) (h : 4294967295 < n) :
    getUnsigned 4294967295 [(f, [decimal n])] f = .err := by
  have : ¬ n ≤ 4294967295 := by omega
  simp [getUnsigned, getProperty, lookupProp, parseUnsigned_decimal, this]

/-- a sign other than one leading `+` is never accepted for an unsigned type -/
theorem unsigned_minus_rejected (max : Nat) (t : Str) : parseUnsigned max ('-' :: t) = none := by
  have : stripPlus ('-' :: t) = '-' :: t := rfl
  simp [parseUnsigned, this, digitsVal]

/-! ## bool, String, Option -/

def showBool (b : Bool) : Str := if b then "true".toList else "false".toList

theorem bool_roundtrip (f : Str) (b : Bool) : getBool [(f, [showBool b])] f = .val b := by
  cases b <;> simp [getBool, getProperty, lookupProp, showBool] <;> decide

/-- the documented default of an absent boolean parameter -/
theorem bool_default (props : List (Str × List Str)) (f : Str) (h : lookupProp props f = none) :
    getBool props f = .val false := by simp [getBool, getProperty, h]

theorem string_roundtrip (f v : Str) : getProperty [(f, [v])] f = .val v := by
  simp [getProperty, lookupProp]

/-- an absent optional parameter is `None` for every optional type; it is an error once it is required -/
theorem optional_absent (props : List (Str × List Str)) (f : Str) (h : lookupProp props f = none) :
    getProperty props f = .absent ∧ getUnsigned 255 props f = .absent ∧ getUnsigned 4294967295 props f = .absent ∧
    getFloat props f = .absent ∧ getArray4 props f = .absent ∧ required (getProperty props f) = .err := by
  simp [getProperty, getUnsigned, getFloat, getArray4, required, h]

/-! ## f32 / f64 / [f64;4] -/

theorem takeWhile_all {p : Char → Bool} (l : Str) (h : ∀ c ∈ l, p c = true) : l.takeWhile p = l ∧ l.dropWhile p = [] := by
  induction l with
  | nil => exact ⟨rfl, rfl⟩
  | cons c t ih =>
    have hc := h c (List.mem_cons_self ..)
    have := ih (fun d hd => h d (List.mem_cons_of_mem _ hd))
    simp [List.takeWhile_cons, List.dropWhile_cons, hc, this.1, this.2]

theorem decimalOk_decimal (n : Nat) : decimalOk (decimal n) = true := by
  obtain ⟨h1, h2, _, _⟩ := decimal_spec n
  have := takeWhile_all (decimal n) h2
  simp only [decimalOk, this.1, this.2]
  cases hd : decimal n with
  | nil => exact absurd hd h1
  | cons c t => simp

/-- **floating point**: a whole number written in decimal is accepted, with exactly that value -/
theorem float_accepts_integers (n : Nat) :
    floatOk (decimal n) = true ∧ decimalParts (decimal n) = some (false, n, 0) := by
  obtain ⟨h1, h2, h3, c, t, hc, _, hplus, hminus⟩ := decimal_spec n
  have hs : splitSign (decimal n) = (false, decimal n) := by
    rw [hc]; unfold splitSign
    split
    · rename_i heq; exact absurd (List.cons.inj heq).1 hplus
    · rename_i heq; exact absurd (List.cons.inj heq).1 hminus
    · rfl
  have hok := decimalOk_decimal n
  have htw := takeWhile_all (decimal n) h2
  have h3' : List.foldl (fun n c => 10 * n + (c.toNat - 48)) 0 (decimal n) = n := h3
  constructor
  · simp only [floatOk, hs, hok, Bool.or_true]
  · simp only [decimalParts, hs, hok, Bool.not_true, Bool.false_eq_true, if_false, htw.1, htw.2, List.append_nil,
      List.length_nil, h3']
    simp

theorem float_roundtrip (f : Str) (n : Nat) : getFloat [(f, [decimal n])] f = .val (decimal n) := by
  simp [getFloat, getProperty, lookupProp, (float_accepts_integers n).1]

/-- `[f64;4]`: exactly four numbers — given in one list or spread over repeated keys, the map has appended them -/
theorem array4_roundtrip (f : Str) (a b c d : Nat) :
    getArray4 [(f, [decimal a, decimal b, decimal c, decimal d])] f = .val [decimal a, decimal b, decimal c, decimal d] := by
  simp [getArray4, lookupProp, (float_accepts_integers a).1, (float_accepts_integers b).1,
    (float_accepts_integers c).1, (float_accepts_integers d).1]

theorem array4_wrong_length (f : Str) (vs : List Str) (h : vs.length ≠ 4) : getArray4 [(f, vs)] f = .err := by
  simp [getArray4, lookupProp, h]

end VtModel.Vpl
