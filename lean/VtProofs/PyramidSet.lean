import VtModel.Pyramid
import VtProofs.BBoxGrid
/-! Per-level set semantics of `Pyramid`. -/
namespace VtModel.Pyramid
open VtModel VtModel.BBox

/-- well-formed pyramid: 32 levels, level `z` holds a box of level `z` -/
def WF (p : Pyramid) : Prop := p.length = 32 ∧ ∀ z (h : z < p.length), (p[z]'h).level = z

/-- `(x, y, z) ∈ ⟦p⟧` -/
def memP (p : Pyramid) (x y z : Nat) : Prop := ∃ b, p[z]? = some b ∧ BBox.mem b x y

theorem wf_level {p : Pyramid} (hp : WF p) {z : Nat} {b : BBox} (h : p[z]? = some b) : b.level = z := by
  obtain ⟨hz, rfl⟩ := List.getElem?_eq_some_iff.mp h
  exact hp.2 z hz

theorem wf_newEmpty : WF newEmpty := by
  refine ⟨by simp [newEmpty, levels], ?_⟩
  intro z hz
  simp [newEmpty, levels]

theorem newEmpty_mem (x y z : Nat) : ¬ memP newEmpty x y z := by
  rintro ⟨b, hb, hm⟩
  simp only [newEmpty, levels, List.getElem?_map] at hb
  cases hr : (List.range 32)[z]? with
  | none => simp [hr] at hb
  | some w =>
    simp only [hr, Option.map_some, Option.some.injEq] at hb
    subst hb
    simp only [BBox.mem] at hm
    omega

theorem containsCoord_iff {p : Pyramid} (hp : WF p) (x y z : Nat) :
    containsCoord p x y z = true ↔ memP p x y z := by
  unfold containsCoord memP
  cases h : p[z]? with
  | none => simp
  | some b =>
    have := wf_level hp h
    simp [contains3_iff, this]

/-- mapping a total per-level function over the levels -/
theorem mapM_pure (f : BBox → Outcome BBox) (g : BBox → BBox) (p : Pyramid)
    (h : ∀ b ∈ p, f b = .ok (g b)) : BBox.mapM f p = .ok (p.map g) := mapM_ok f g p h

/-- the pure intersection of two boxes of one level -/
def isectPure (a b : BBox) : BBox :=
  if !a.isEmpty && !b.isEmpty then
    { a with xmin := max a.xmin b.xmin, ymin := max a.ymin b.ymin,
             xmax := min a.xmax b.xmax, ymax := min a.ymax b.ymax }
  else a.setEmpty

theorem intersectBBox_pure {a b : BBox} (h : a.level = b.level) : a.intersectBBox b = .ok (isectPure a b) := by
  unfold intersectBBox isectPure
  simp only [h, ne_eq, not_true_eq_false, if_false]
  split <;> rfl

theorem isectPure_level (a b : BBox) : (isectPure a b).level = a.level := by
  unfold isectPure; split <;> rfl

/-- **pyramid intersection** is the per-level set intersection; it never panics on well-formed
    pyramids (whatever mixture of empty encodings they hold). -/
theorem intersect_spec {p q : Pyramid} (hp : WF p) (hq : WF q) :
    ∃ r, intersect p q = .ok r ∧ WF r ∧ ∀ x y z, memP r x y z ↔ (memP p x y z ∧ memP q x y z) := by
  -- the level-`z` box of `q`, as a total function of the box of `p`
  let g : BBox → BBox := fun b => match q[b.level]? with
    | some o => isectPure b o
    | none => b
  have hf : ∀ b ∈ p, (match q[b.level]? with
      | some o => (b.intersectBBox o).unwrap
      | none => Outcome.panic) = .ok (g b) := by
    intro b hb
    obtain ⟨z, hz, rfl⟩ := List.getElem_of_mem hb
    have hl : (p[z]'hz).level = z := hp.2 z hz
    have hzq : z < q.length := by rw [hq.1, ← hp.1]; exact hz
    have hqz : q[(p[z]'hz).level]? = some (q[z]'hzq) := by rw [hl]; exact List.getElem?_eq_getElem hzq
    have hlq : (q[z]'hzq).level = z := hq.2 z hzq
    simp only [g, hqz]
    rw [intersectBBox_pure (by rw [hl, hlq])]
    rfl
  refine ⟨p.map g, ?_, ?_, ?_⟩
  · unfold intersect; exact mapM_ok _ g p hf
  · refine ⟨by simp [hp.1], ?_⟩
    intro z hz
    simp only [List.length_map] at hz
    simp only [List.getElem_map, g]
    split
    · rw [isectPure_level]; exact hp.2 z hz
    · exact hp.2 z hz
  · intro x y z
    unfold memP
    simp only [List.getElem?_map]
    cases hpz : p[z]? with
    | none => simp
    | some a =>
      have hla := wf_level hp hpz
      have hzp : z < p.length := (List.getElem?_eq_some_iff.mp hpz).1
      have hzq : z < q.length := by rw [hq.1, ← hp.1]; exact hzp
      have hqz : q[z]? = some (q[z]'hzq) := List.getElem?_eq_getElem hzq
      have hlq : (q[z]'hzq).level = z := hq.2 z hzq
      simp only [Option.map_some, Option.some.injEq, exists_eq_left', g, hla, hqz]
      have hm := mem_intersect (intersectBBox_pure (a := a) (b := q[z]'hzq) (by rw [hla, hlq])) x y
      rw [hm]

/-- **zoom limits** empty exactly the cut-off levels -/
theorem setZoomMin_mem (p : Pyramid) (zmin x y z : Nat) :
    memP (setZoomMin p zmin) x y z ↔ (zmin ≤ z ∧ memP p x y z) := by
  unfold memP setZoomMin
  simp only [List.getElem?_mapIdx]
  cases h : p[z]? with
  | none => simp
  | some b =>
    simp only [Option.map_some, Option.some.injEq, exists_eq_left']
    split
    · rename_i hlt
      constructor
      · intro hm; exact absurd hm (setEmpty_mem b x y)
      · intro ⟨hle, _⟩; omega
    · rename_i hlt
      constructor
      · intro hm; exact ⟨by omega, hm⟩
      · intro ⟨_, hm⟩; exact hm

theorem setZoomMax_mem (p : Pyramid) (zmax x y z : Nat) :
    memP (setZoomMax p zmax) x y z ↔ (z ≤ zmax ∧ memP p x y z) := by
  unfold memP setZoomMax
  simp only [List.getElem?_mapIdx]
  cases h : p[z]? with
  | none => simp
  | some b =>
    simp only [Option.map_some, Option.some.injEq, exists_eq_left']
    split
    · rename_i hlt
      constructor
      · intro hm; exact absurd hm (setEmpty_mem b x y)
      · intro ⟨hle, _⟩; omega
    · rename_i hlt
      constructor
      · intro hm; exact ⟨by omega, hm⟩
      · intro ⟨_, hm⟩; exact hm

/-- **pyramid emptiness** ↔ no coordinate at any level -/
theorem isEmpty_iff (p : Pyramid) : isEmpty p = true ↔ ∀ x y z, ¬ memP p x y z := by
  unfold isEmpty memP
  rw [List.all_eq_true]
  constructor
  · intro h x y z ⟨b, hb, hm⟩
    have := h b (List.mem_of_getElem? hb)
    exact (BBox.isEmpty_iff b).mp this x y hm
  · intro h b hb
    obtain ⟨z, hz, rfl⟩ := List.getElem_of_mem hb
    rw [BBox.isEmpty_iff]
    intro x y hm
    exact h x y z ⟨_, List.getElem?_eq_getElem hz, hm⟩

/-- **tile count** is the sum of the per-level counts (= sizes of the per-level enumerations) -/
theorem countTiles_eq (p : Pyramid) : countTiles p = (p.map (fun b => b.iterCoords.length)).sum := by
  unfold countTiles
  congr 1
  apply List.map_congr_left
  intro b _
  exact countTiles_eq_length b

/-- **`include_coord`** changes only the level of the coordinate and makes it contain the coordinate -/
theorem includeCoord_spec {p : Pyramid} (hp : WF p) (x y z : Nat) (hz : z < 32) :
    ∃ r, includeCoord p x y z = .ok r ∧ r.length = p.length ∧
      (∀ z', z' ≠ z → r[z']? = p[z']?) ∧
      (∃ b, p[z]? = some b ∧ r[z]? = some (b.includeCoord x y)) := by
  have hzp : z < p.length := by rw [hp.1]; exact hz
  unfold includeCoord updateLevel
  simp only [List.getElem?_eq_getElem hzp, Outcome.unwrap]
  refine ⟨_, rfl, by simp, ?_, ⟨p[z], rfl, by simp [hzp]⟩⟩
  intro z' hne
  rw [List.getElem?_set_ne (Ne.symm hne)]

/-- **pyramid equality** (`PartialEq`) identifies all encodings of the empty box: two pyramids of
    equal length are equal iff, level by level, both boxes are empty or they are identical -/
theorem beq_iff (p q : Pyramid) (hlen : p.length = q.length) :
    beq p q = true ↔ ∀ z (h1 : z < p.length) (h2 : z < q.length),
      ((p[z]'h1).isEmpty = true ∧ (q[z]'h2).isEmpty = true) ∨
      ((p[z]'h1).isEmpty = false ∧ p[z]'h1 = q[z]'h2) := by
  unfold beq
  rw [List.all_eq_true]
  constructor
  · intro h z h1 h2
    have hm : (p[z]'h1, q[z]'h2) ∈ p.zip q := by
      rw [List.mem_iff_getElem]
      exact ⟨z, by simp [List.length_zip]; omega, by simp⟩
    have := h _ hm
    simp only at this
    cases ha : (p[z]'h1).isEmpty <;> cases hb : (q[z]'h2).isEmpty <;> simp_all
  · intro h ab hab
    rw [List.mem_iff_getElem] at hab
    obtain ⟨z, hz, rfl⟩ := hab
    simp only [List.length_zip] at hz
    have h1 : z < p.length := by omega
    have h2 : z < q.length := by omega
    simp only [List.getElem_zip]
    rcases h z h1 h2 with ⟨ha, hb⟩ | ⟨ha, hb⟩
    · simp [ha, hb]
    · simp [ha, ← hb]

end VtModel.Pyramid
