import VtModel.Http
import VtProofs.Codec
/-!
Helper lemmas for C05: substring test = list infix; an infix without separator characters lies inside
one maximal separator-free run (so a substring match on an Accept-Encoding list is a token match);
the target built from the request always allows `Uncompressed`.
-/
namespace VtModel.Http
open VtModel.Codec

theorem containsSub_iff (n h : List Char) : containsSub n h = true ↔ n <:+: h := by
  induction h with
  | nil => simp [containsSub]
  | cons c cs ih =>
    simp only [containsSub, Bool.or_eq_true, ih, List.isPrefixOf_iff_prefix]
    exact List.infix_cons_iff.symm

/-- maximal runs of characters that are not separators (`p` = is a separator) -/
def runs (p : Char → Bool) : List Char → List (List Char)
  | [] => [[]]
  | c :: cs =>
    if p c then [] :: runs p cs
    else match runs p cs with
      | [] => [[c]]
      | r :: rs => (c :: r) :: rs

theorem runs_ne_nil (p : Char → Bool) (h : List Char) : runs p h ≠ [] := by
  cases h with
  | nil => simp [runs]
  | cons c cs =>
    simp only [runs]
    split
    · simp
    · split <;> simp

theorem prefix_head_run (p : Char → Bool) (h n : List Char) (hn : ∀ c ∈ n, p c = false)
    (hp : n <+: h) : ∃ r rs, runs p h = r :: rs ∧ n <+: r := by
  induction h generalizing n with
  | nil =>
    have : n = [] := List.prefix_nil.mp hp
    subst this
    exact ⟨[], [], rfl, List.prefix_refl _⟩
  | cons c cs ih =>
    cases n with
    | nil =>
      cases hr : runs p (c :: cs) with
      | nil => exact absurd hr (runs_ne_nil p _)
      | cons r rs => exact ⟨r, rs, rfl, List.nil_prefix⟩
    | cons a n' =>
      obtain ⟨hac, hp'⟩ := List.cons_prefix_cons.mp hp
      subst hac
      have hpa : p a = false := hn a (by simp)
      obtain ⟨r, rs, hr, hpr⟩ := ih n' (fun c hc => hn c (by simp [hc])) hp'
      refine ⟨a :: r, rs, ?_, List.cons_prefix_cons.mpr ⟨rfl, hpr⟩⟩
      simp [runs, hpa, hr]

/-- a substring that contains no separator lies inside one run -/
theorem infix_in_run (p : Char → Bool) (h n : List Char) (hn : ∀ c ∈ n, p c = false)
    (hi : n <:+: h) : ∃ r ∈ runs p h, n <:+: r := by
  induction h with
  | nil =>
    have : n = [] := List.infix_nil.mp hi
    subst this
    exact ⟨[], by simp [runs], List.nil_infix⟩
  | cons c cs ih =>
    rcases List.infix_cons_iff.mp hi with hp | hi'
    · obtain ⟨r, rs, hr, hpr⟩ := prefix_head_run p (c :: cs) n hn hp
      exact ⟨r, by simp [hr], hpr.isInfix⟩
    · obtain ⟨r, hr, hnr⟩ := ih hi'
      simp only [runs]
      split
      · exact ⟨r, by simp [hr], hnr⟩
      · cases hrs : runs p cs with
        | nil => exact absurd hrs (runs_ne_nil p _)
        | cons r0 rs =>
          rw [hrs] at hr
          simp only
          rcases List.mem_cons.mp hr with rfl | hmem
          · exact ⟨c :: r, by simp, List.infix_cons hnr⟩
          · exact ⟨r, by simp [hmem], hnr⟩

/-! ### the negotiated target -/

theorem insert_raw (t : Target) (c : Comp) : (t.insert c).raw = true ↔ t.raw = true ∨ c = .raw := by
  cases c <;> simp [Target.insert]

theorem getEncoding_raw (a : Option String) : (getEncoding a).raw = true := by
  unfold getEncoding
  cases a with
  | none => rfl
  | some s =>
    simp only
    split <;> split <;> simp [Target.insert, Target.fromNone]

theorem targetFor_raw (a : Option String) (fast : Bool) (m : String) : (targetFor a fast m).raw = true := by
  unfold targetFor
  have := getEncoding_raw a
  split <;> split <;> simp_all

theorem getEncoding_gzip {a : Option String} (h : (getEncoding a).gzip = true) :
    ∃ s, a = some s ∧ tokGzip <:+: s.toList := by
  unfold getEncoding at h
  cases a with
  | none => simp [Target.fromNone] at h
  | some s =>
    refine ⟨s, rfl, ?_⟩
    by_cases hg : containsSub tokGzip s.toList = true
    · exact (containsSub_iff _ _).mp hg
    · simp only [hg] at h
      split at h <;> simp [Target.insert, Target.fromNone] at h

theorem getEncoding_brotli {a : Option String} (h : (getEncoding a).brotli = true) :
    ∃ s, a = some s ∧ tokBr <:+: s.toList := by
  unfold getEncoding at h
  cases a with
  | none => simp [Target.fromNone] at h
  | some s =>
    refine ⟨s, rfl, ?_⟩
    by_cases hb : containsSub tokBr s.toList = true
    · exact (containsSub_iff _ _).mp hb
    · exfalso
      simp only [hb] at h
      by_cases hg : containsSub tokGzip s.toList = true <;>
        simp [hg, Target.insert, Target.fromNone] at h

theorem targetFor_gzip {a : Option String} {fast : Bool} {m : String} :
    (targetFor a fast m).gzip = (getEncoding a).gzip := by
  unfold targetFor; split <;> split <;> rfl

theorem targetFor_brotli {a : Option String} {fast : Bool} {m : String} :
    (targetFor a fast m).brotli = (getEncoding a).brotli := by
  unfold targetFor; split <;> split <;> rfl

end VtModel.Http
