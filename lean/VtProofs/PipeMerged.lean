import VtProofs.PipeOverlay
/-!
`from_vectortiles_merged` (structure): a tile exists iff some source has one; its payload is the
opaque `merge` of the sources' decompressed payloads in source order; the stream (32×32 cells,
one slot list per coordinate) delivers exactly the lookups.
-/
namespace VtModel
open BBox

/-- decompressed payloads of all sources that have the tile, in source order -/
def blobsOf {β : Type} (ops : Ops β) (srcs : List (Op β)) (c : Coord) : List β :=
  srcs.filterMap fun o =>
    match o.src.lookup c with
    | .ok (some p) => some (ops.decomp o.comp p)
    | _ => none

theorem mergedBlobs_eq {β : Type} (ops : Ops β) (srcs : List (Op β)) (hs : ∀ o ∈ srcs, LookupOK o.src)
    {c : Coord} (hc : Coord.Valid c) : mergedBlobs ops srcs c = .ok (blobsOf ops srcs c) := by
  induction srcs with
  | nil => rfl
  | cons o os ih =>
    obtain ⟨r, hr⟩ := hs o (by simp) c hc
    have ih' := ih (fun o' h => hs o' (by simp [h]))
    unfold mergedBlobs blobsOf
    simp only [hr, ih', List.filterMap_cons]
    cases r <;> rfl

/-- the merged lookup, spelled out -/
def mergedHit {β : Type} (ops : Ops β) (srcs : List (Op β)) (c : Coord) : Option (Coord × β) :=
  match blobsOf ops srcs c with
  | [] => none
  | l => some (c, ops.merge l)

theorem mergedLookup_eq {β : Type} (ops : Ops β) (srcs : List (Op β)) (hs : ∀ o ∈ srcs, LookupOK o.src)
    {c : Coord} (hc : Coord.Valid c) :
    mergedLookup ops srcs c = .ok ((mergedHit ops srcs c).map Prod.snd) := by
  unfold mergedLookup mergedHit
  rw [mergedBlobs_eq ops srcs hs hc]
  cases blobsOf ops srcs c <;> rfl

theorem mergedHit_key {β : Type} (ops : Ops β) (srcs : List (Op β)) (c : Coord) (cp : Coord × β)
    (h : mergedHit ops srcs c = some cp) : cp.1 = c := by
  unfold mergedHit at h
  split at h
  · cases h
  · cases h; rfl

theorem filterMap_congr' {α γ : Type} {f g : α → Option γ} {l : List α} (h : ∀ a ∈ l, f a = g a) :
    l.filterMap f = l.filterMap g := by
  induction l with
  | nil => rfl
  | cons a as ih =>
    rw [List.filterMap_cons, List.filterMap_cons, h a (by simp), ih (fun x hx => h x (by simp [hx]))]

/-! ### pushing into the slots -/

theorem pushSlots_spec {β : Type} (cell : BBox) (f : β → β) :
    ∀ (l : List (Coord × β)) (slots : List (List β)),
      slots.length = cell.countTiles → (∀ cp ∈ l, cp.1 ∈ cell.coords3) →
      ∃ slots', pushSlots cell f slots l = .ok slots' ∧ slots'.length = slots.length ∧
        ∀ i, slots'[i]? = (slots[i]?).map fun v =>
          v ++ (l.filter fun cp => decide (cell.tileIndex3 cp.1.1 cp.1.2.1 cp.1.2.2 = .ok i)).map fun cp => f cp.2 := by
  intro l
  induction l with
  | nil =>
    intro slots _ _
    refine ⟨slots, rfl, rfl, ?_⟩
    intro i
    cases slots[i]? with
    | none => rfl
    | some v => simp
  | cons cp rest ih =>
    intro slots hlen hin
    obtain ⟨c, p⟩ := cp
    obtain ⟨j, hj, _, hjlt⟩ := tileIndex3_slot (hin (c, p) (by simp))
    have hjl : j < slots.length := by rw [hlen]; exact hjlt
    have hsj : slots[j]? = some slots[j] := List.getElem?_eq_getElem hjl
    have hrest : ∀ cp ∈ rest, cp.1 ∈ cell.coords3 := fun cp h => hin cp (by simp [h])
    unfold pushSlots
    simp only [hj, hsj]
    obtain ⟨slots', h1, h2, h3⟩ := ih (slots.set j (slots[j] ++ [f p])) (by rw [List.length_set]; exact hlen) hrest
    refine ⟨slots', h1, by rw [h2, List.length_set], ?_⟩
    intro i
    rw [h3 i]
    by_cases hij : j = i
    · subst hij
      rw [List.getElem?_set_self hjl, hsj]
      have : decide (cell.tileIndex3 c.1 c.2.1 c.2.2 = Outcome.ok j) = true := by rw [hj]; simp
      simp only [Option.map_some, List.filter_cons, this, if_true, List.map_cons, List.append_assoc,
        List.singleton_append]
    · rw [List.getElem?_set_ne hij]
      have : decide (cell.tileIndex3 c.1 c.2.1 c.2.2 = Outcome.ok i) = false := by
        rw [hj]; simp only [decide_eq_false_iff_not]
        intro e; exact hij (Outcome.ok.inj e)
      simp only [List.filter_cons, this, Bool.false_eq_true, if_false]

/-- slot `i` holds the payloads of the sources processed so far -/
def MSlotInv {β : Type} (ops : Ops β) (cell : BBox) (done : List (Op β)) (slots : List (List β)) : Prop :=
  slots.length = cell.countTiles ∧ ∀ i c, slotCoord cell i = some c → slots[i]? = some (blobsOf ops done c)

theorem blobsOf_append {β : Type} (ops : Ops β) (l1 l2 : List (Op β)) (c : Coord) :
    blobsOf ops (l1 ++ l2) c = blobsOf ops l1 c ++ blobsOf ops l2 c := by
  unfold blobsOf
  rw [List.filterMap_append]

theorem mergedCell_spec {β : Type} (ops : Ops β) {cell : BBox} (hw : cell.WF) :
    ∀ (rest done : List (Op β)) (slots : List (List β)),
      (∀ o ∈ rest, Good o.src) → MSlotInv ops cell done slots →
      ∃ slots', mergedCell ops cell rest slots = .ok slots' ∧ MSlotInv ops cell (done ++ rest) slots' := by
  intro rest
  induction rest with
  | nil =>
    intro done slots _ hinv
    exact ⟨slots, rfl, by rw [List.append_nil]; exact hinv⟩
  | cons o os ih =>
    intro done slots hgood hinv
    obtain ⟨hlen, hslots⟩ := hinv
    have hgo := hgood o (by simp)
    have hassoc : done ++ o :: os = (done ++ [o]) ++ os := by simp
    rw [hassoc]
    obtain ⟨l, hl, hkeys, hmem⟩ := (streamOK_iff_spec o.src).mp hgo.stream_ok cell hw
    have hlin : ∀ cp ∈ l, cp.1 ∈ cell.coords3 := fun cp h => ((hmem cp).mp h).1
    obtain ⟨slots', hp1, hp2, hp3⟩ := pushSlots_spec cell (ops.decomp o.comp) l slots hlen hlin
    unfold mergedCell
    simp only [hl, hp1]
    apply ih (done ++ [o]) slots' (fun o' h => hgood o' (by simp [h]))
    refine ⟨by rw [hp2]; exact hlen, ?_⟩
    intro i c hc
    rw [hp3 i, hslots i c hc, blobsOf_append]
    simp only [Option.map_some, Option.some.injEq]
    congr 1
    have hci : c ∈ cell.coords3 := (slotCoord_mem hc).1
    obtain ⟨r, hr⟩ := hgo.lookup_ok c (coords3_valid hw hci)
    have hfind : ∀ cp, cp ∈ l → (decide (cell.tileIndex3 cp.1.1 cp.1.2.1 cp.1.2.2 = Outcome.ok i) = true ↔ cp.1 = c) := by
      intro cp hcp
      obtain ⟨j, hj1, hj2, _⟩ := tileIndex3_slot (hlin cp hcp)
      rw [hj1]
      simp only [decide_eq_true_eq]
      constructor
      · intro e
        have e' : j = i := Outcome.ok.inj e
        subst e'
        rw [hj2] at hc
        exact Option.some.inj hc
      · intro e
        subst e
        rw [slotCoord_inj hj2 hc]
    show _ = blobsOf ops [o] c
    unfold blobsOf
    simp only [List.filterMap_cons, List.filterMap_nil, hr]
    -- the entries of `l` in slot `i` are exactly the entries with coordinate `c`: at most one
    have hnd := nodup_of_keys_nodup hkeys
    cases r with
    | none =>
      have : (l.filter fun cp => decide (cell.tileIndex3 cp.1.1 cp.1.2.1 cp.1.2.2 = Outcome.ok i)) = [] := by
        rw [List.filter_eq_nil_iff]
        intro cp hcp hd
        have e := (hfind cp hcp).mp hd
        have := ((hmem cp).mp hcp).2
        rw [e, hr] at this
        cases this
      rw [this]
      rfl
    | some p =>
      have hcpl : (c, p) ∈ l := (hmem (c, p)).mpr ⟨hci, hr⟩
      have : (l.filter fun cp => decide (cell.tileIndex3 cp.1.1 cp.1.2.1 cp.1.2.2 = Outcome.ok i)) = [(c, p)] := by
        have hsub : ∀ x, x ∈ (l.filter fun cp => decide (cell.tileIndex3 cp.1.1 cp.1.2.1 cp.1.2.2 = Outcome.ok i)) ↔ x ∈ [(c, p)] := by
          intro x
          rw [List.mem_filter, List.mem_singleton]
          constructor
          · rintro ⟨hx, hd⟩
            have e := (hfind x hx).mp hd
            obtain ⟨c', q⟩ := x
            simp only at e
            subst e
            rw [value_unique hkeys hx hcpl]
          · rintro rfl
            exact ⟨hcpl, (hfind _ hcpl).mpr rfl⟩
        have hperm := perm_of_nodup_mem_iff (hnd.sublist List.filter_sublist) (List.nodup_cons.mpr ⟨List.not_mem_nil, List.nodup_nil⟩) hsub
        exact List.perm_singleton.mp hperm
      rw [this]
      rfl

/-! ### emitting a cell -/

theorem mergedEmit_eq {β : Type} (ops : Ops β) {cell : BBox} (hw : cell.WF) (hne : cell.isEmpty = false)
    (srcs : List (Op β)) {slots : List (List β)} (h : MSlotInv ops cell srcs slots) :
    mergedEmit ops cell slots = .ok (cell.coords3.filterMap (mergedHit ops srcs)) := by
  obtain ⟨hlen, hs⟩ := h
  have hc3 : cell.coords3 = cell.iterCoords.map fun c => (c.1, c.2, cell.level) := by
    unfold coords3; rw [if_neg (by rw [hne]; exact Bool.false_ne_true)]
  -- the slots are the payload lists of the coordinates
  have hslots : slots = cell.coords3.map (blobsOf ops srcs) := by
    apply List.ext_getElem?
    intro i
    rw [List.getElem?_map, hc3, List.getElem?_map]
    cases hxy : cell.iterCoords[i]? with
    | none =>
      have : slots.length ≤ i := by
        rw [hlen, countTiles_eq_length]; exact List.getElem?_eq_none_iff.mp hxy
      rw [List.getElem?_eq_none_iff.mpr this]
      rfl
    | some xy =>
      have : slotCoord cell i = some (xy.1, xy.2, cell.level) := by unfold slotCoord; rw [hxy]; rfl
      rw [hs i _ this]
      rfl
  unfold mergedEmit
  let g : List β × Nat → Option (Coord × β) := fun vi =>
    if vi.1.isEmpty then none else (slotCoord cell vi.2).map fun c => (c, ops.merge vi.1)
  refine (filterMapO_ok _ g _ ?_).trans ?_
  · intro vi hvi
    have hget := List.mem_zipIdx_iff_getElem?.mp hvi
    have hlt : vi.2 < cell.countTiles := by
      rw [← hlen]; exact (List.getElem?_eq_some_iff.mp hget).1
    obtain ⟨xy, h1, h2⟩ := coordByIndex_slot hw hlt
    show _ = Outcome.ok (if vi.1.isEmpty then none else (slotCoord cell vi.2).map fun c => (c, ops.merge vi.1))
    split
    · rfl
    · simp only [h1, h2]; rfl
  congr 1
  -- re-index over the coordinates
  rw [hslots, List.zipIdx_map, List.filterMap_map]
  have hcongr : ∀ ci ∈ cell.coords3.zipIdx,
      (g ∘ Prod.map (blobsOf ops srcs) id) ci = (mergedHit ops srcs ∘ Prod.fst) ci := by
    intro ci hci
    have hget := List.mem_zipIdx_iff_getElem?.mp hci
    have hsc : slotCoord cell ci.2 = some ci.1 := by
      unfold slotCoord
      rw [hc3, List.getElem?_map] at hget
      cases hxy : cell.iterCoords[ci.2]? with
      | none => rw [hxy] at hget; cases hget
      | some xy =>
        rw [hxy] at hget
        simp only [Option.map_some, Option.some.injEq] at hget
        rw [← hget]
        rfl
    show (if (blobsOf ops srcs ci.1).isEmpty then none
          else (slotCoord cell ci.2).map fun c => (c, ops.merge (blobsOf ops srcs ci.1))) = mergedHit ops srcs ci.1
    unfold mergedHit
    rw [hsc]
    cases blobsOf ops srcs ci.1 <;> rfl
  rw [filterMap_congr' hcongr, ← List.filterMap_map, List.zipIdx_map_fst]

/-! ### the whole stream -/

/-- a stream assembled cell by cell from per-coordinate hits satisfies the element-wise spec -/
theorem grid_flatMap_spec {β : Type} {s : Src β} {b : BBox} (hb : b.WF) {cells : List BBox}
    (hcells : ∀ c ∈ cells, c.level = b.level ∧ c.WF ∧ c.isEmpty = false ∧ ∀ x y, mem c x y → mem b x y)
    (hcover : ∀ x y, mem b x y → ∃ c ∈ cells, mem c x y)
    (hdisj : cells.Pairwise (fun c d => ∀ x y, ¬ (mem c x y ∧ mem d x y)))
    (G : Coord → Option (Coord × β)) (hG : ∀ c cp, G c = some cp → cp.1 = c)
    (hlk : ∀ c, Coord.Valid c → s.lookup c = .ok ((G c).map Prod.snd)) :
    StreamSpec s b (cells.flatMap fun cell => cell.coords3.filterMap G) := by
  constructor
  · rw [List.map_flatMap]
    rw [List.nodup_iff_pairwise_ne, List.pairwise_flatMap]
    refine ⟨fun cell _ => keys_filterMap_nodup G hG (coords3_nodup cell), ?_⟩
    refine hdisj.imp ?_
    intro c d hcd x hx y hy hxy
    obtain ⟨cp, hcp, rfl⟩ := List.mem_map.mp hx
    obtain ⟨cq, hcq, hq⟩ := List.mem_map.mp hy
    have h1 := ((mem_filterMap_key G hG _ cp).mp hcp).1
    have h2 := ((mem_filterMap_key G hG _ cq).mp hcq).1
    rw [hq, ← hxy] at h2
    exact hcd _ _ ⟨((mem_coords3 c _).mp h1).2, ((mem_coords3 d _).mp h2).2⟩
  · intro cp
    obtain ⟨c0, q0⟩ := cp
    rw [List.mem_flatMap]
    constructor
    · rintro ⟨cell, hcm, hcp⟩
      obtain ⟨hl, _, _, hsubset⟩ := hcells cell hcm
      obtain ⟨h1, h2⟩ := (mem_filterMap_key G hG _ (c0, q0)).mp hcp
      obtain ⟨hz, hm⟩ := (mem_coords3 cell _).mp h1
      have hcb : c0 ∈ b.coords3 := (mem_coords3 b _).mpr ⟨by rw [hz, hl], hsubset _ _ hm⟩
      refine ⟨hcb, ?_⟩
      show s.lookup c0 = _
      rw [hlk _ (coords3_valid hb hcb)]
      have : G c0 = some (c0, q0) := h2
      rw [this]
      rfl
    · rintro ⟨hcb, hl⟩
      obtain ⟨hz, hm⟩ := (mem_coords3 b _).mp hcb
      obtain ⟨cell, hcm, hmc⟩ := hcover _ _ hm
      obtain ⟨hlv, _, _, _⟩ := hcells cell hcm
      refine ⟨cell, hcm, (mem_filterMap_key G hG _ (c0, q0)).mpr
        ⟨(mem_coords3 cell _).mpr ⟨by rw [hz, hlv], hmc⟩, ?_⟩⟩
      have hl' : s.lookup c0 = .ok (some q0) := hl
      rw [hlk _ (coords3_valid hb hcb)] at hl'
      have := Outcome.ok.inj hl'
      show G c0 = some (c0, q0)
      cases hg : G c0 with
      | none => rw [hg] at this; cases this
      | some cq =>
        rw [hg] at this
        have hk := hG c0 cq hg
        obtain ⟨c', q'⟩ := cq
        simp only at hk
        simp only [Option.map_some, Option.some.injEq] at this
        rw [hk, this]

/-- **merge_stream_ok**: the merge of any list of good sources is a good source -/
theorem merged_good {β : Type} (ops : Ops β) {cover : Pyramid} (hc : cover.WF) (srcs : List (Op β))
    (hs : ∀ o ∈ srcs, Good o.src) : Good (mergedSrc ops cover srcs) := by
  have hlk : ∀ c, Coord.Valid c → (mergedSrc ops cover srcs).lookup c = .ok ((mergedHit ops srcs c).map Prod.snd) :=
    fun c hv => mergedLookup_eq ops srcs (fun o ho => (hs o ho).lookup_ok) hv
  refine ⟨hc, fun c hv => ⟨_, hlk c hv⟩, ?_⟩
  rw [streamOK_iff_spec]
  intro b hb
  obtain ⟨cells, hgrid, hcells, hcover, hdisj⟩ := grid32_spec hb
  have hcell : ∀ cell ∈ cells,
      (match mergedCell ops cell srcs (List.replicate cell.countTiles []) with
        | .ok slots => mergedEmit ops cell slots
        | .err => .err
        | .panic => .panic) = .ok (cell.coords3.filterMap (mergedHit ops srcs)) := by
    intro cell hcm
    obtain ⟨_, hw, hne, _⟩ := hcells cell hcm
    have hinit : MSlotInv ops cell [] (List.replicate cell.countTiles []) := by
      refine ⟨List.length_replicate, ?_⟩
      intro i c hci
      rw [List.getElem?_replicate, if_pos (slotCoord_mem hci).2]
      rfl
    obtain ⟨slots, h1, h2⟩ := mergedCell_spec ops hw srcs [] _ hs hinit
    rw [List.nil_append] at h2
    rw [h1]
    exact mergedEmit_eq ops hw hne srcs h2
  refine ⟨cells.flatMap fun cell => cell.coords3.filterMap (mergedHit ops srcs), ?_, ?_⟩
  · show mergedStream ops srcs b = _
    unfold mergedStream
    rw [hgrid]
    exact concatMapO_ok _ _ cells hcell
  · exact grid_flatMap_spec hb hcells hcover hdisj _ (mergedHit_key ops srcs) hlk

end VtModel
