import VtProofs.PipeGrid
/-!
`from_overlayed`: lookup = first source that has the tile; the stream (32×32 cells, bounding box
of the still empty slots, fill-only-empty) delivers exactly the lookups.
-/
namespace VtModel
open BBox

/-- the specification of the overlay lookup: first source in list order that has the tile,
    re-encoded to the declared compression -/
def firstHit {β : Type} (ops : Ops β) (out : Nat) : List (Op β) → Coord → Option β
  | [], _ => none
  | o :: os, c =>
    match o.src.lookup c with
    | .ok (some p) => some (ops.recode o.comp out p)
    | _ => firstHit ops out os c

theorem overlayLookup_eq {β : Type} (ops : Ops β) (out : Nat) (srcs : List (Op β))
    (hs : ∀ o ∈ srcs, LookupOK o.src) {c : Coord} (hc : Coord.Valid c) :
    overlayLookup ops out srcs c = .ok (firstHit ops out srcs c) := by
  induction srcs with
  | nil => rfl
  | cons o os ih =>
    obtain ⟨r, hr⟩ := hs o (by simp) c hc
    unfold overlayLookup firstHit
    rw [hr]
    cases r with
    | some p => rfl
    | none => exact ih (fun o' ho' => hs o' (by simp [ho']))

theorem firstHit_append {β : Type} (ops : Ops β) (out : Nat) (l1 l2 : List (Op β)) (c : Coord) :
    firstHit ops out (l1 ++ l2) c = match firstHit ops out l1 c with
      | some p => some p
      | none => firstHit ops out l2 c := by
  induction l1 with
  | nil => rfl
  | cons o os ih =>
    simp only [List.cons_append, firstHit]
    cases hl : o.src.lookup c with
    | ok r => cases r with
      | some p => rfl
      | none => exact ih
    | err => exact ih
    | panic => exact ih

/-! ### filling the slots -/

theorem fillSlots_spec {β : Type} (cell : BBox) (f : β → β) :
    ∀ (l : List (Coord × β)) (slots : List (Option (Coord × β))),
      slots.length = cell.countTiles → (∀ cp ∈ l, cp.1 ∈ cell.coords3) →
      ∃ slots', fillSlots cell f slots l = .ok slots' ∧ slots'.length = slots.length ∧
        ∀ i, slots'[i]? = match slots[i]? with
          | some (some v) => some (some v)
          | some none => some ((l.find? fun cp => decide (cell.tileIndex3 cp.1.1 cp.1.2.1 cp.1.2.2 = .ok i)).map
                                fun cp => (cp.1, f cp.2))
          | none => none := by
  intro l
  induction l with
  | nil =>
    intro slots _ _
    refine ⟨slots, rfl, rfl, ?_⟩
    intro i
    cases slots[i]? with
    | none => rfl
    | some v => cases v <;> rfl
  | cons cp rest ih =>
    intro slots hlen hin
    obtain ⟨c, p⟩ := cp
    obtain ⟨j, hj, _, hjlt⟩ := tileIndex3_slot (hin (c, p) (by simp))
    have hjl : j < slots.length := by rw [hlen]; exact hjlt
    have hrest : ∀ cp ∈ rest, cp.1 ∈ cell.coords3 := fun cp h => hin cp (by simp [h])
    have hsj : slots[j]? = some slots[j] := List.getElem?_eq_getElem hjl
    unfold fillSlots
    simp only [hj]
    cases hv : slots[j] with
    | some v =>
      rw [hv] at hsj
      simp only [hsj]
      obtain ⟨slots', h1, h2, h3⟩ := ih slots hlen hrest
      refine ⟨slots', h1, h2, ?_⟩
      intro i
      rw [h3 i]
      cases hsi : slots[i]? with
      | none => rfl
      | some w =>
        cases w with
        | some _ => rfl
        | none =>
          simp only
          have hne : j ≠ i := by
            intro e; subst e
            rw [hsj] at hsi
            cases hsi
          have : decide (cell.tileIndex3 c.1 c.2.1 c.2.2 = Outcome.ok i) = false := by
            rw [hj]; simp only [decide_eq_false_iff_not]
            intro e; exact hne (Outcome.ok.inj e)
          rw [List.find?_cons, this]
    | none =>
      rw [hv] at hsj
      simp only [hsj]
      obtain ⟨slots', h1, h2, h3⟩ := ih (slots.set j (some (c, f p))) (by rw [List.length_set]; exact hlen) hrest
      refine ⟨slots', h1, by rw [h2, List.length_set], ?_⟩
      intro i
      rw [h3 i]
      by_cases hij : j = i
      · subst hij
        rw [List.getElem?_set_self hjl, hsj]
        simp only
        have : decide (cell.tileIndex3 c.1 c.2.1 c.2.2 = Outcome.ok j) = true := by
          rw [hj]; simp
        rw [List.find?_cons, this]
        rfl
      · rw [List.getElem?_set_ne hij]
        cases hsi : slots[i]? with
        | none => rfl
        | some w =>
          cases w with
          | some _ => rfl
          | none =>
            simp only
            have : decide (cell.tileIndex3 c.1 c.2.1 c.2.2 = Outcome.ok i) = false := by
              rw [hj]; simp only [decide_eq_false_iff_not]
              intro e; exact hij (Outcome.ok.inj e)
            rw [List.find?_cons, this]

/-! ### the bounding box of the empty slots -/

/-- invariant of the box of missing tiles: same level, well-formed, empty or inside the cell -/
def LeftInv (cell bl : BBox) : Prop :=
  bl.level = cell.level ∧ bl.WF ∧
    (bl.isEmpty = true ∨ (cell.xmin ≤ bl.xmin ∧ bl.xmax ≤ cell.xmax ∧ cell.ymin ≤ bl.ymin ∧ bl.ymax ≤ cell.ymax))

theorem includeCoord_left {cell bl : BBox} (hw : cell.WF) (hi : LeftInv cell bl) {px py : Nat} (hp : mem cell px py) :
    LeftInv cell (bl.includeCoord px py) ∧ (∀ x y, mem bl x y → mem (bl.includeCoord px py) x y) ∧
      mem (bl.includeCoord px py) px py := by
  obtain ⟨h1, ⟨h2a, h2b, h2c⟩, h3⟩ := hi
  obtain ⟨_, hwx, hwy⟩ := hw
  unfold mem at hp
  have hpos := Nat.two_pow_pos bl.level
  have hmv : bl.maxv = 2 ^ bl.level - 1 := rfl
  rw [← h1] at hwx hwy
  unfold includeCoord
  split
  · rename_i he
    refine ⟨⟨h1, ⟨h2a, ?_, ?_⟩, Or.inr ?_⟩, ?_, ?_⟩
    · show px < 2 ^ bl.level; omega
    · show py < 2 ^ bl.level; omega
    · show cell.xmin ≤ px ∧ px ≤ cell.xmax ∧ cell.ymin ≤ py ∧ py ≤ cell.ymax; omega
    · intro x y hm; exact absurd hm ((isEmpty_iff bl).mp he x y)
    · show px ≤ px ∧ px ≤ px ∧ py ≤ py ∧ py ≤ py; omega
  · rename_i he
    have hne : bl.isEmpty = false := by cases h : bl.isEmpty <;> simp_all
    obtain ⟨e1, e2⟩ := (not_isEmpty_iff bl).mp hne
    have h3' : cell.xmin ≤ bl.xmin ∧ bl.xmax ≤ cell.xmax ∧ cell.ymin ≤ bl.ymin ∧ bl.ymax ≤ cell.ymax := by
      rcases h3 with h | h
      · rw [hne] at h; cases h
      · exact h
    refine ⟨⟨h1, ⟨h2a, ?_, ?_⟩, Or.inr ?_⟩, ?_, ?_⟩
    · show min (max bl.xmax px) bl.maxv < 2 ^ bl.level; omega
    · show min (max bl.ymax py) bl.maxv < 2 ^ bl.level; omega
    · show cell.xmin ≤ min bl.xmin px ∧ min (max bl.xmax px) bl.maxv ≤ cell.xmax ∧
        cell.ymin ≤ min bl.ymin py ∧ min (max bl.ymax py) bl.maxv ≤ cell.ymax
      omega
    · intro x y hm
      unfold mem at hm
      show min bl.xmin px ≤ x ∧ x ≤ min (max bl.xmax px) bl.maxv ∧ min bl.ymin py ≤ y ∧ y ≤ min (max bl.ymax py) bl.maxv
      omega
    · show min bl.xmin px ≤ px ∧ px ≤ min (max bl.xmax px) bl.maxv ∧ min bl.ymin py ≤ py ∧ py ≤ min (max bl.ymax py) bl.maxv
      omega

theorem leftFold_spec {γ : Type} {cell : BBox} (hw : cell.WF) (slots : List (Option γ)) :
    ∀ (is : List Nat) (bl : BBox), (∀ i ∈ is, i < cell.countTiles) → LeftInv cell bl →
      ∃ bl', is.foldl (leftStep cell slots) (.ok bl) = .ok bl' ∧ LeftInv cell bl' ∧
        (∀ x y, mem bl x y → mem bl' x y) ∧
        (∀ i ∈ is, slots[i]? = some none → ∀ c, slotCoord cell i = some c → mem bl' c.1 c.2.1) := by
  intro is
  induction is with
  | nil =>
    intro bl _ hi
    exact ⟨bl, rfl, hi, fun _ _ h => h, fun i h => absurd h List.not_mem_nil⟩
  | cons i is ih =>
    intro bl hlt hi
    have hil := hlt i (by simp)
    obtain ⟨xy, hxy, hsc⟩ := coordByIndex_slot hw hil
    have hmem : mem cell xy.1 xy.2 := ((mem_coords3 cell _).mp (slotCoord_mem hsc).1).2
    simp only [List.foldl_cons]
    by_cases hs : slots[i]? = some none
    · have hstep : leftStep cell slots (.ok bl) i = .ok (bl.includeCoord xy.1 xy.2) := by
        unfold leftStep; simp only [hs, hxy]
      obtain ⟨hi1, hmono, hcont⟩ := includeCoord_left hw hi hmem
      obtain ⟨bl', h1, h2, h3, h4⟩ := ih (bl.includeCoord xy.1 xy.2) (fun k hk => hlt k (by simp [hk])) hi1
      refine ⟨bl', by rw [hstep]; exact h1, h2, fun x y h => h3 x y (hmono x y h), ?_⟩
      intro k hk hsk c hc
      rcases List.mem_cons.mp hk with rfl | hk'
      · rw [hsc] at hc
        cases hc
        exact h3 _ _ hcont
      · exact h4 k hk' hsk c hc
    · have hstep : leftStep cell slots (.ok bl) i = .ok bl := by
        unfold leftStep
        cases hsi : slots[i]? with
        | none => rfl
        | some v =>
          cases v with
          | none => exact absurd hsi hs
          | some _ => rfl
      obtain ⟨bl', h1, h2, h3, h4⟩ := ih bl (fun k hk => hlt k (by simp [hk])) hi
      refine ⟨bl', by rw [hstep]; exact h1, h2, h3, ?_⟩
      intro k hk hsk c hc
      rcases List.mem_cons.mp hk with rfl | hk'
      · exact absurd hsk hs
      · exact h4 k hk' hsk c hc

theorem bboxLeft_spec {γ : Type} {cell : BBox} (hw : cell.WF) (slots : List (Option γ))
    (hlen : slots.length = cell.countTiles) :
    ∃ bl, bboxLeft cell slots = .ok bl ∧ LeftInv cell bl ∧
      ∀ i c, slots[i]? = some none → slotCoord cell i = some c → mem bl c.1 c.2.1 := by
  have hne : BBox.newEmpty cell.level = .ok ⟨cell.level, 2 ^ cell.level - 1 + 1, 2 ^ cell.level - 1 + 1, 0, 0⟩ := by
    unfold BBox.newEmpty
    rw [if_neg (by have := hw.1; omega)]
  have hinv : LeftInv cell ⟨cell.level, 2 ^ cell.level - 1 + 1, 2 ^ cell.level - 1 + 1, 0, 0⟩ := by
    refine ⟨rfl, ⟨hw.1, Nat.two_pow_pos _, Nat.two_pow_pos _⟩, Or.inl ?_⟩
    unfold isEmpty
    simp
  obtain ⟨bl, h1, h2, _, h4⟩ := leftFold_spec hw slots (List.range slots.length) _
    (fun i hi => by rw [← hlen]; exact List.mem_range.mp hi) hinv
  refine ⟨bl, by unfold bboxLeft; rw [hne]; exact h1, h2, ?_⟩
  intro i c hs hc
  have hi : i < slots.length := by rw [hlen]; exact (slotCoord_mem hc).2
  exact h4 i (List.mem_range.mpr hi) hs c hc

/-! ### one cell -/

/-- slot `i` holds the first hit among the sources processed so far -/
def SlotInv {β : Type} (ops : Ops β) (out : Nat) (cell : BBox) (done : List (Op β))
    (slots : List (Option (Coord × β))) : Prop :=
  slots.length = cell.countTiles ∧
    ∀ i c, slotCoord cell i = some c → slots[i]? = some ((firstHit ops out done c).map fun p => (c, p))

theorem overlayCell_spec {β : Type} (ops : Ops β) (out : Nat) {cell : BBox} (hw : cell.WF) :
    ∀ (rest done : List (Op β)) (slots : List (Option (Coord × β))),
      (∀ o ∈ rest, Good o.src) → SlotInv ops out cell done slots →
      ∃ slots', overlayCell ops out cell rest slots = .ok slots' ∧ SlotInv ops out cell (done ++ rest) slots' := by
  intro rest
  induction rest with
  | nil =>
    intro done slots _ hinv
    exact ⟨slots, rfl, by rw [List.append_nil]; exact hinv⟩
  | cons o os ih =>
    intro done slots hgood hinv
    obtain ⟨hlen, hslots⟩ := hinv
    have hgo := hgood o (by simp)
    obtain ⟨bl, hbl, ⟨hlvl, hblwf, hin⟩, hleft⟩ := bboxLeft_spec hw slots hlen
    have hassoc : done ++ o :: os = (done ++ [o]) ++ os := by simp
    rw [hassoc]
    unfold overlayCell
    simp only [hbl]
    by_cases he : bl.isEmpty = true
    · rw [if_pos he]
      apply ih (done ++ [o]) slots (fun o' h => hgood o' (by simp [h]))
      refine ⟨hlen, ?_⟩
      intro i c hc
      rw [hslots i c hc, firstHit_append]
      cases hf : firstHit ops out done c with
      | some p => rfl
      | none =>
        exfalso
        have : slots[i]? = some none := by rw [hslots i c hc, hf]; rfl
        exact (isEmpty_iff bl).mp he _ _ (hleft i c this hc)
    · rw [if_neg he]
      have hne : bl.isEmpty = false := by cases h : bl.isEmpty <;> simp_all
      have hin' : cell.xmin ≤ bl.xmin ∧ bl.xmax ≤ cell.xmax ∧ cell.ymin ≤ bl.ymin ∧ bl.ymax ≤ cell.ymax := by
        rcases hin with h | h
        · rw [hne] at h; cases h
        · exact h
      obtain ⟨l, hl, hkeys, hmem⟩ := (streamOK_iff_spec o.src).mp hgo.stream_ok bl hblwf
      have hsub : ∀ c, c ∈ bl.coords3 → c ∈ cell.coords3 := by
        intro c hc
        obtain ⟨hz, hm⟩ := (mem_coords3 bl c).mp hc
        refine (mem_coords3 cell c).mpr ⟨by rw [hz, hlvl], ?_⟩
        unfold mem at hm ⊢
        omega
      have hlin : ∀ cp ∈ l, cp.1 ∈ cell.coords3 := fun cp h => hsub _ ((hmem cp).mp h).1
      obtain ⟨slots', hf1, hf2, hf3⟩ := fillSlots_spec cell (ops.recode o.comp out) l slots hlen hlin
      simp only [hl, hf1]
      apply ih (done ++ [o]) slots' (fun o' h => hgood o' (by simp [h]))
      refine ⟨by rw [hf2]; exact hlen, ?_⟩
      intro i c hc
      rw [hf3 i, hslots i c hc, firstHit_append]
      cases hf : firstHit ops out done c with
      | some p => rfl
      | none =>
        simp only [Option.map_none]
        have hci : c ∈ cell.coords3 := (slotCoord_mem hc).1
        have hcbl : c ∈ bl.coords3 := by
          have hsn : slots[i]? = some none := by rw [hslots i c hc, hf]; rfl
          exact (mem_coords3 bl c).mpr ⟨by rw [hlvl]; exact ((mem_coords3 cell c).mp hci).1, hleft i c hsn hc⟩
        obtain ⟨r, hr⟩ := hgo.lookup_ok c (coords3_valid hw hci)
        -- what `find?` sees
        have hfind : ∀ cp, cp ∈ l → (decide (cell.tileIndex3 cp.1.1 cp.1.2.1 cp.1.2.2 = Outcome.ok i) = true ↔ cp.1 = c) := by
          intro cp hcp
          obtain ⟨j, hj1, hj2, _⟩ := tileIndex3_slot (hlin cp hcp)
          rw [hj1]
          simp only [decide_eq_true_eq]
          constructor
          · intro e
            have e' : j = i := Outcome.ok.inj e
            subst e'
            rw [hj2] at hc
            exact Option.some.inj hc
          · intro e
            subst e
            rw [slotCoord_inj hj2 hc]
        unfold firstHit
        simp only [hr]
        cases r with
        | none =>
          have : l.find? (fun cp => decide (cell.tileIndex3 cp.1.1 cp.1.2.1 cp.1.2.2 = Outcome.ok i)) = none := by
            rw [List.find?_eq_none]
            intro cp hcp hd
            have e := (hfind cp hcp).mp hd
            have := ((hmem cp).mp hcp).2
            rw [e, hr] at this
            cases this
          rw [this]
          rfl
        | some p =>
          have hcpl : (c, p) ∈ l := (hmem (c, p)).mpr ⟨hcbl, hr⟩
          cases hfd : l.find? (fun cp => decide (cell.tileIndex3 cp.1.1 cp.1.2.1 cp.1.2.2 = Outcome.ok i)) with
          | none =>
            exfalso
            have := List.find?_eq_none.mp hfd (c, p) hcpl
            exact this ((hfind (c, p) hcpl).mpr rfl)
          | some cq =>
            have hq1 := List.mem_of_find?_eq_some hfd
            have hq0 : decide (cell.tileIndex3 cq.1.1 cq.1.2.1 cq.1.2.2 = Outcome.ok i) = true :=
              @List.find?_some _ (fun cp : Coord × β => decide (cell.tileIndex3 cp.1.1 cp.1.2.1 cp.1.2.2 = Outcome.ok i)) cq l hfd
            have hq2 : cq.1 = c := (hfind cq hq1).mp hq0
            obtain ⟨c', q⟩ := cq
            simp only at hq2
            subst hq2
            have : q = p := value_unique hkeys hq1 hcpl
            subst this
            rfl

/-! ### the whole stream -/

/-- what the overlay delivers at one coordinate, as a stream element -/
def overlayHit {β : Type} (ops : Ops β) (out : Nat) (srcs : List (Op β)) (c : Coord) : Option (Coord × β) :=
  (firstHit ops out srcs c).map fun p => (c, p)

theorem slots_eq_map {β : Type} (ops : Ops β) (out : Nat) {cell : BBox} (hne : cell.isEmpty = false) (srcs : List (Op β))
    {slots : List (Option (Coord × β))} (h : SlotInv ops out cell srcs slots) :
    slots = cell.coords3.map (overlayHit ops out srcs) := by
  obtain ⟨hlen, hs⟩ := h
  have hc3 : cell.coords3 = cell.iterCoords.map fun c => (c.1, c.2, cell.level) := by
    unfold coords3; rw [if_neg (by rw [hne]; exact Bool.false_ne_true)]
  apply List.ext_getElem?
  intro i
  rw [List.getElem?_map, hc3, List.getElem?_map]
  cases hxy : cell.iterCoords[i]? with
  | none =>
    have : slots.length ≤ i := by
      rw [hlen, countTiles_eq_length]; exact List.getElem?_eq_none_iff.mp hxy
    rw [List.getElem?_eq_none_iff.mpr this]
    rfl
  | some xy =>
    have : slotCoord cell i = some (xy.1, xy.2, cell.level) := by unfold slotCoord; rw [hxy]; rfl
    rw [hs i _ this]
    rfl

theorem overlayHit_key {β : Type} (ops : Ops β) (out : Nat) (srcs : List (Op β)) (c : Coord) (cp : Coord × β)
    (h : overlayHit ops out srcs c = some cp) : cp.1 = c := by
  unfold overlayHit at h
  cases hf : firstHit ops out srcs c with
  | none => rw [hf] at h; cases h
  | some p => rw [hf] at h; cases h; rfl

theorem keys_filterMap_nodup {β : Type} (G : Coord → Option (Coord × β)) (hG : ∀ c cp, G c = some cp → cp.1 = c)
    {l : List Coord} (hl : l.Nodup) : ((l.filterMap G).map Prod.fst).Nodup := by
  have hsub : ((l.filterMap G).map Prod.fst).Sublist l := by
    clear hl
    induction l with
    | nil => exact List.Sublist.slnil
    | cons c cs ih =>
      rw [List.filterMap_cons]
      cases hh : G c with
      | none => exact ih.cons c
      | some cp =>
        simp only [List.map_cons, hG c cp hh]
        exact ih.cons_cons c
  exact hsub.nodup hl

theorem mem_filterMap_key {β : Type} (G : Coord → Option (Coord × β)) (hG : ∀ c cp, G c = some cp → cp.1 = c)
    (l : List Coord) (cp : Coord × β) : cp ∈ l.filterMap G ↔ cp.1 ∈ l ∧ G cp.1 = some cp := by
  rw [List.mem_filterMap]
  constructor
  · rintro ⟨c, hc, h⟩
    have := hG c cp h
    rw [this]; exact ⟨hc, h⟩
  · rintro ⟨hc, h⟩
    exact ⟨cp.1, hc, h⟩

/-- **overlay_stream_ok**: for any list of good sources and any declared compression the
    overlay's stream satisfies C02 against the overlay's own lookup, and neither
    `get_tile_index3(..).unwrap()`, `get_coord3_by_index(..).unwrap()`, `tiles[index]` nor the
    grid arithmetic can panic. -/
theorem overlay_good {β : Type} (ops : Ops β) (out : Nat) {cover : Pyramid} (hc : cover.WF) (srcs : List (Op β))
    (hs : ∀ o ∈ srcs, Good o.src) : Good (overlaySrc ops out cover srcs) := by
  have hlk : ∀ c, Coord.Valid c → (overlaySrc ops out cover srcs).lookup c = .ok (firstHit ops out srcs c) :=
    fun c hv => overlayLookup_eq ops out srcs (fun o ho => (hs o ho).lookup_ok) hv
  refine ⟨hc, fun c hv => ⟨_, hlk c hv⟩, ?_⟩
  rw [streamOK_iff_spec]
  intro b hb
  obtain ⟨cells, hgrid, hcells, hcover, hdisj⟩ := grid32_spec hb
  let G := overlayHit ops out srcs
  have hcell : ∀ cell ∈ cells,
      (match overlayCell ops out cell srcs (List.replicate cell.countTiles none) with
        | .ok slots => Outcome.ok (slots.filterMap id)
        | .err => .err
        | .panic => .panic) = .ok (cell.coords3.filterMap G) := by
    intro cell hcm
    obtain ⟨_, hw, hne, _⟩ := hcells cell hcm
    have hinit : SlotInv ops out cell [] (List.replicate cell.countTiles none) := by
      refine ⟨List.length_replicate, ?_⟩
      intro i c hci
      rw [List.getElem?_replicate, if_pos (slotCoord_mem hci).2]
      rfl
    obtain ⟨slots, h1, h2⟩ := overlayCell_spec ops out hw srcs [] _ hs hinit
    rw [List.nil_append] at h2
    rw [h1, slots_eq_map ops out hne srcs h2]
    show Outcome.ok (List.filterMap id (List.map (overlayHit ops out srcs) cell.coords3)) = _
    rw [List.filterMap_map]
    rfl
  refine ⟨cells.flatMap fun cell => cell.coords3.filterMap G, ?_, ?_, ?_⟩
  · show overlayStream ops out srcs b = _
    unfold overlayStream
    rw [hgrid]
    exact concatMapO_ok _ _ cells hcell
  · rw [List.map_flatMap]
    rw [List.nodup_iff_pairwise_ne, List.pairwise_flatMap]
    refine ⟨fun cell _ => keys_filterMap_nodup G (overlayHit_key ops out srcs) (coords3_nodup cell), ?_⟩
    refine hdisj.imp ?_
    intro c d hcd x hx y hy hxy
    obtain ⟨cp, hcp, rfl⟩ := List.mem_map.mp hx
    obtain ⟨cq, hcq, hq⟩ := List.mem_map.mp hy
    have h1 := ((mem_filterMap_key G (overlayHit_key ops out srcs) _ cp).mp hcp).1
    have h2 := ((mem_filterMap_key G (overlayHit_key ops out srcs) _ cq).mp hcq).1
    rw [hq, ← hxy] at h2
    exact hcd _ _ ⟨((mem_coords3 c _).mp h1).2, ((mem_coords3 d _).mp h2).2⟩
  · intro cp
    obtain ⟨c0, q0⟩ := cp
    rw [List.mem_flatMap]
    constructor
    · rintro ⟨cell, hcm, hcp⟩
      obtain ⟨hl, _, _, hsubset⟩ := hcells cell hcm
      obtain ⟨h1, h2⟩ := (mem_filterMap_key G (overlayHit_key ops out srcs) _ (c0, q0)).mp hcp
      obtain ⟨hz, hm⟩ := (mem_coords3 cell _).mp h1
      have hcb : c0 ∈ b.coords3 := (mem_coords3 b _).mpr ⟨by rw [hz, hl], hsubset _ _ hm⟩
      refine ⟨hcb, ?_⟩
      rw [hlk _ (coords3_valid hb hcb)]
      show Outcome.ok (firstHit ops out srcs c0) = _
      have : overlayHit ops out srcs c0 = some (c0, q0) := h2
      unfold overlayHit at this
      cases hf : firstHit ops out srcs c0 with
      | none => rw [hf] at this; cases this
      | some p =>
        rw [hf] at this
        have e := (Prod.mk.inj (Option.some.inj this)).2
        rw [e]
    · rintro ⟨hcb, hl⟩
      obtain ⟨hz, hm⟩ := (mem_coords3 b _).mp hcb
      obtain ⟨cell, hcm, hmc⟩ := hcover _ _ hm
      obtain ⟨hlv, _, _, _⟩ := hcells cell hcm
      refine ⟨cell, hcm, (mem_filterMap_key G (overlayHit_key ops out srcs) _ (c0, q0)).mpr
        ⟨(mem_coords3 cell _).mpr ⟨by rw [hz, hlv], hmc⟩, ?_⟩⟩
      rw [hlk _ (coords3_valid hb hcb)] at hl
      have := Outcome.ok.inj hl
      show overlayHit ops out srcs c0 = some (c0, q0)
      unfold overlayHit
      rw [this]
      rfl

end VtModel
