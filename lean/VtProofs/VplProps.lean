import VtModel.Vpl
/-!
# `mkProps` is the `BTreeMap<String, Vec<String>>` of `parse_node`

keys strictly ascending (the iteration order of the map), one entry per key, the values of a repeated key
appended in text order; the result depends only on the per-key value sequences, not on how the
parameters of different keys are interleaved.
-/
namespace VtModel.Vpl

theorem char_eq_of_toNat {a b : Char} (h : a.toNat = b.toNat) : a = b := by
  apply Char.ext
  exact UInt32.toNat_inj.1 h

theorem strLt_irrefl (a : Str) : strLt a a = false := by
  induction a with
  | nil => rfl
  | cons c t ih => simp [strLt, ih]

theorem strLt_trans : ∀ (a b c : Str), strLt a b = true → strLt b c = true → strLt a c = true := by
  intro a
  induction a with
  | nil =>
    intro b c h1 h2
    cases b with
    | nil => simp [strLt] at h1
    | cons y b =>
      cases c with
      | nil => simp [strLt] at h2
      | cons z c => rfl
  | cons x a ih =>
    intro b c h1 h2
    cases b with
    | nil => simp [strLt] at h1
    | cons y b =>
      cases c with
      | nil => simp [strLt] at h2
      | cons z c =>
        simp only [strLt, Bool.or_eq_true, Bool.and_eq_true, decide_eq_true_eq, beq_iff_eq] at h1 h2 ⊢
        rcases h1 with h1 | ⟨e1, h1⟩
        · rcases h2 with h2 | ⟨e2, h2⟩
          · left; omega
          · left; rw [← e2]; exact h1
        · rcases h2 with h2 | ⟨e2, h2⟩
          · left; rw [e1]; exact h2
          · right; exact ⟨e1.trans e2, ih b c h1 h2⟩

theorem strLt_total : ∀ (a b : Str), a ≠ b → strLt a b = true ∨ strLt b a = true := by
  intro a
  induction a with
  | nil =>
    intro b h
    cases b with
    | nil => exact absurd rfl h
    | cons y b => left; rfl
  | cons x a ih =>
    intro b h
    cases b with
    | nil => right; rfl
    | cons y b =>
      simp only [strLt, Bool.or_eq_true, Bool.and_eq_true, decide_eq_true_eq, beq_iff_eq]
      by_cases hxy : x.toNat < y.toNat
      · left; left; exact hxy
      · by_cases hyx : y.toNat < x.toNat
        · right; left; exact hyx
        · have e : x = y := char_eq_of_toNat (by omega)
          subst e
          have hab : a ≠ b := by intro e; exact h (by rw [e])
          rcases ih b hab with h' | h'
          · left; right; exact ⟨rfl, h'⟩
          · right; right; exact ⟨rfl, h'⟩

theorem strLt_ne {a b : Str} (h : strLt a b = true) : a ≠ b := by
  intro e; rw [e, strLt_irrefl] at h; cases h

theorem strLt_asymm {a b : Str} (h : strLt a b = true) : strLt b a = false := by
  cases hb : strLt b a with
  | false => rfl
  | true => have := strLt_trans a b a h hb; rw [strLt_irrefl] at this; cases this

/-- keys strictly ascending -/
def Sorted (m : List (Str × List Str)) : Prop := m.Pairwise (fun x y => strLt x.1 y.1 = true)

/-- all keys of `m` are above `k` -/
def Above (k : Str) (m : List (Str × List Str)) : Prop := ∀ x ∈ m, strLt k x.1 = true

theorem lookup_none_of_above {k : Str} {m : List (Str × List Str)} (h : Above k m) : lookupProp m k = none := by
  induction m with
  | nil => rfl
  | cons x m ih =>
    obtain ⟨a, va⟩ := x
    have h1 : a ≠ k := fun e => strLt_ne (h (a, va) (List.mem_cons_self ..)) e.symm
    simp only [lookupProp, h1, if_false]
    exact ih (fun y hy => h y (List.mem_cons_of_mem _ hy))

theorem above_of_sorted_cons {x : Str × List Str} {m : List (Str × List Str)} (h : Sorted (x :: m)) : Above x.1 m :=
  fun y hy => (List.pairwise_cons.1 h).1 y hy

theorem insertProp_mem {m : List (Str × List Str)} {k : Str} {vs : List Str} {y : Str × List Str}
    (hy : y ∈ insertProp m (k, vs)) : y.1 = k ∨ ∃ z ∈ m, z.1 = y.1 := by
  induction m with
  | nil => simp [insertProp] at hy; left; rw [hy]
  | cons x m ih =>
    obtain ⟨a, va⟩ := x
    simp only [insertProp] at hy
    split at hy
    · rename_i e
      rcases List.mem_cons.1 hy with rfl | h
      · left; exact e.symm
      · right; exact ⟨y, List.mem_cons_of_mem _ h, rfl⟩
    · split at hy
      · rcases List.mem_cons.1 hy with rfl | h
        · left; rfl
        · right; exact ⟨y, h, rfl⟩
      · rcases List.mem_cons.1 hy with rfl | h
        · right; exact ⟨(a, va), List.mem_cons_self .., rfl⟩
        · rcases ih h with h' | ⟨z, hz, e⟩
          · left; exact h'
          · right; exact ⟨z, List.mem_cons_of_mem _ hz, e⟩

/-- inserting keeps the keys strictly ascending -/
theorem insertProp_sorted {m : List (Str × List Str)} (hm : Sorted m) (k : Str) (vs : List Str) :
    Sorted (insertProp m (k, vs)) := by
  induction m with
  | nil => simp [insertProp, Sorted]
  | cons x m ih =>
    obtain ⟨a, va⟩ := x
    have hcons := List.pairwise_cons.1 hm
    simp only [insertProp]
    split
    · exact List.pairwise_cons.2 ⟨hcons.1, hcons.2⟩
    · rename_i hne
      split
      · rename_i hlt
        refine List.pairwise_cons.2 ⟨?_, hm⟩
        intro y hy
        rcases List.mem_cons.1 hy with rfl | h
        · exact hlt
        · exact strLt_trans _ _ _ hlt (hcons.1 y h)
      · rename_i hnlt
        have hak : strLt a k = true := by
          rcases strLt_total k a hne with h | h
          · exact absurd h hnlt
          · exact h
        refine List.pairwise_cons.2 ⟨?_, ih hcons.2⟩
        intro y hy
        rcases insertProp_mem hy with e | ⟨z, hz, e⟩
        · show strLt a y.1 = true; rw [e]; exact hak
        · show strLt a y.1 = true; rw [← e]; exact hcons.1 z hz

/-- `entry(key).and_modify(append).or_insert(values)`: the values of `k` grow by `vs`, other keys are untouched -/
theorem lookup_insertProp {m : List (Str × List Str)} (hm : Sorted m) (k : Str) (vs : List Str) (k' : Str) :
    lookupProp (insertProp m (k, vs)) k' =
      if k' = k then some ((lookupProp m k).getD [] ++ vs) else lookupProp m k' := by
  induction m with
  | nil =>
    simp only [insertProp, lookupProp]
    by_cases e : k' = k
    · simp [e]
    · have : ¬ k = k' := fun h => e h.symm
      simp [e, this]
  | cons x m ih =>
    obtain ⟨a, va⟩ := x
    have hcons := List.pairwise_cons.1 hm
    simp only [insertProp]
    split
    · rename_i e
      subst e
      simp only [lookupProp]
      by_cases e' : k' = k
      · subst e'; simp
      · have : ¬ k = k' := fun h => e' h.symm
        simp [e', this]
    · rename_i hne
      split
      · rename_i hlt
        have hab : Above k ((a, va) :: m) := by
          intro y hy
          rcases List.mem_cons.1 hy with rfl | h
          · exact hlt
          · exact strLt_trans _ _ _ hlt (hcons.1 y h)
        have hnone := lookup_none_of_above hab
        by_cases e' : k' = k
        · subst e'; rw [hnone]; simp [lookupProp]
        · have : ¬ k = k' := fun h => e' h.symm
          simp only [lookupProp, this, if_false, e']
      · have hka : ¬ a = k := fun h => hne h.symm
        simp only [lookupProp, ih hcons.2]
        by_cases e' : k' = k
        · subst e'; simp [hka]
        · simp only [e', if_false]

/-- all values given for `k`, in text order -/
def valsOf (k : Str) (l : List (Str × List Str)) : List Str := (l.filter fun x => x.1 = k).flatMap (·.2)
def hasKey (k : Str) (l : List (Str × List Str)) : Bool := l.any fun x => x.1 = k

theorem foldl_insert_sorted (l : List (Str × List Str)) {m : List (Str × List Str)} (hm : Sorted m) :
    Sorted (l.foldl insertProp m) := by
  induction l generalizing m with
  | nil => exact hm
  | cons x l ih => obtain ⟨k, vs⟩ := x; exact ih (insertProp_sorted hm k vs)

theorem hasKey_cons (k a : Str) (vs : List Str) (l : List (Str × List Str)) :
    hasKey k ((a, vs) :: l) = (decide (a = k) || hasKey k l) := by simp [hasKey]

theorem valsOf_cons (k a : Str) (vs : List Str) (l : List (Str × List Str)) :
    valsOf k ((a, vs) :: l) = if a = k then vs ++ valsOf k l else valsOf k l := by
  by_cases e : a = k <;> simp [valsOf, List.filter_cons, e]

theorem valsOf_of_not_hasKey {k : Str} {l : List (Str × List Str)} (h : hasKey k l = false) : valsOf k l = [] := by
  induction l with
  | nil => rfl
  | cons x l ih =>
    obtain ⟨a, vs⟩ := x
    rw [hasKey_cons, Bool.or_eq_false_iff] at h
    have e : ¬ a = k := by simpa using h.1
    rw [valsOf_cons, if_neg e]; exact ih h.2

theorem lookup_foldl_insert (l : List (Str × List Str)) {m : List (Str × List Str)} (hm : Sorted m) (k : Str) :
    lookupProp (l.foldl insertProp m) k =
      if hasKey k l then some ((lookupProp m k).getD [] ++ valsOf k l) else lookupProp m k := by
  induction l generalizing m with
  | nil => simp [hasKey]
  | cons x l ih =>
    obtain ⟨a, vs⟩ := x
    rw [List.foldl_cons, ih (insertProp_sorted hm a vs), lookup_insertProp hm a vs k, hasKey_cons, valsOf_cons]
    by_cases e : k = a
    · subst e
      cases hk : hasKey k l with
      | true => simp
      | false => simp [valsOf_of_not_hasKey hk]
    · have e' : ¬ a = k := fun h => e h.symm
      simp only [e, e', if_false, decide_false, Bool.false_or]

theorem sorted_nil : Sorted [] := List.Pairwise.nil

/-- the map lists its keys in strictly ascending order (BTreeMap iteration order; no key twice) -/
theorem mkProps_sorted (l : List (Str × List Str)) : Sorted (mkProps l) := foldl_insert_sorted l sorted_nil

/-- **repeated keys append in text order**: the entry of `k` holds all values given for `k`, in the order of
    the text; keys that do not occur have no entry -/
theorem lookup_mkProps (l : List (Str × List Str)) (k : Str) :
    lookupProp (mkProps l) k = if hasKey k l then some (valsOf k l) else none := by
  have := lookup_foldl_insert l sorted_nil k
  simpa [mkProps, lookupProp] using this

/-- two maps with ascending keys and the same entries are the same list -/
theorem sorted_ext : ∀ (m1 m2 : List (Str × List Str)), Sorted m1 → Sorted m2 →
    (∀ k, lookupProp m1 k = lookupProp m2 k) → m1 = m2 := by
  intro m1
  induction m1 with
  | nil =>
    intro m2 _ _ h
    cases m2 with
    | nil => rfl
    | cons y m2 => have := h y.1; simp [lookupProp] at this
  | cons x m1 ih =>
    intro m2 h1 h2 h
    obtain ⟨a, va⟩ := x
    cases m2 with
    | nil => have := h a; simp [lookupProp] at this
    | cons y m2 =>
      obtain ⟨b, vb⟩ := y
      have ha1 := above_of_sorted_cons h1
      have ha2 := above_of_sorted_cons h2
      have hab : a = b := by
        apply Classical.byContradiction
        intro hne
        rcases strLt_total a b hne with hlt | hlt
        · -- a is below every key of the second map, yet it has an entry in the first
          have : Above a ((b, vb) :: m2) := by
            intro z hz
            rcases List.mem_cons.1 hz with rfl | hz'
            · exact hlt
            · exact strLt_trans _ _ _ hlt (ha2 z hz')
          have h' := h a
          rw [lookup_none_of_above this] at h'
          simp [lookupProp] at h'
        · have : Above b ((a, va) :: m1) := by
            intro z hz
            rcases List.mem_cons.1 hz with rfl | hz'
            · exact hlt
            · exact strLt_trans _ _ _ hlt (ha1 z hz')
          have h' := h b
          rw [lookup_none_of_above this] at h'
          simp [lookupProp] at h'
      subst hab
      have hv : va = vb := by have := h a; simpa [lookupProp] using this
      subst hv
      have hrest : ∀ k, lookupProp m1 k = lookupProp m2 k := by
        intro k
        by_cases e : a = k
        · subst e
          rw [lookup_none_of_above ha1, lookup_none_of_above ha2]
        · have := h k; simpa [lookupProp, e] using this
      rw [ih m2 (List.pairwise_cons.1 h1).2 (List.pairwise_cons.1 h2).2 hrest]

/-- **insertion order independence**: the map depends only on which keys occur and on the sequence of values
    of each key — not on how the parameters of different keys are interleaved in the text -/
theorem mkProps_order_independent (l1 l2 : List (Str × List Str))
    (h : ∀ k, hasKey k l1 = hasKey k l2 ∧ valsOf k l1 = valsOf k l2) : mkProps l1 = mkProps l2 := by
  apply sorted_ext _ _ (mkProps_sorted l1) (mkProps_sorted l2)
  intro k
  rw [lookup_mkProps, lookup_mkProps, (h k).1, (h k).2]

end VtModel.Vpl
