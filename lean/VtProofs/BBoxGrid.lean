import VtProofs.BBoxIter
/-! `iter_bbox_grid` is a partition into aligned squares; `flip_y` / `swap_xy` are involutions. -/
namespace VtModel.BBox

theorem mapM_ok {α β} (f : α → Outcome β) (g : α → β) (l : List α) (h : ∀ a ∈ l, f a = .ok (g a)) :
    mapM f l = .ok (l.map g) := by
  induction l with
  | nil => rfl
  | cons a as ih =>
    simp only [mapM, h a (by simp), ih (fun x hx => h x (by simp [hx])), List.map_cons]

/-- the cell of the grid with meta coordinate `(mx, my)` (pure version of `gridCell`) -/
def cellOf (b : BBox) (size : Nat) (c : Nat × Nat) : BBox :=
  let cell : BBox := ⟨b.level, c.1 * size, c.2 * size, min (c.1 * size + size - 1) b.maxv, min (c.2 * size + size - 1) b.maxv⟩
  if !cell.isEmpty && !b.isEmpty then
    { cell with xmin := max cell.xmin b.xmin, ymin := max cell.ymin b.ymin,
                xmax := min cell.xmax b.xmax, ymax := min cell.ymax b.ymax }
  else cell.setEmpty

theorem div_eq_iff_range {x s m : Nat} (hs : 1 ≤ s) : x / s = m ↔ m * s ≤ x ∧ x ≤ m * s + s - 1 := by
  rw [Nat.div_eq_iff (by omega)]

theorem mem_cellOf (b : BBox) (hr : InRange b) (size : Nat) (hs : 1 ≤ size) (c : Nat × Nat) (x y : Nat) :
    mem (cellOf b size c) x y ↔ (x / size = c.1 ∧ y / size = c.2 ∧ mem b x y) := by
  unfold cellOf
  simp only
  rw [div_eq_iff_range hs, div_eq_iff_range hs]
  unfold InRange at hr
  split
  · rename_i h
    simp only [Bool.and_eq_true, Bool.not_eq_true', not_isEmpty_iff] at h
    simp only [mem]; omega
  · rename_i h
    constructor
    · intro hm; exact absurd hm (setEmpty_mem _ x y)
    · intro ⟨h1, h2, hm⟩
      exfalso
      apply h
      simp only [Bool.and_eq_true, Bool.not_eq_true', not_isEmpty_iff]
      unfold mem at hm
      omega

theorem gridCell_ok (b : BBox) (hl : b.level ≤ 31) (hr : InRange b) (size : Nat) (hs : 1 ≤ size) (hs2 : size < U32)
    (hx : b.xmax < U32) (hy : b.ymax < U32)
    (c : Nat × Nat) (hc1 : c.1 * size ≤ b.xmax) (hc2 : c.2 * size ≤ b.ymax) :
    gridCell b size c = .ok (cellOf b size c) := by
  unfold InRange at hr
  have hmv : b.maxv = 2 ^ b.level - 1 := rfl
  have hpow : 2 ^ b.level ≤ 2 ^ 31 := Nat.pow_le_pow_right (by omega) hl
  have hU : U32 = 2 ^ 32 := by decide
  -- `x + size` cannot overflow: either the meta coordinate is 0 or size ≤ x ≤ maxv < 2^31
  have ov1 : c.1 * size + size < U32 + 1 := by
    rcases Nat.eq_zero_or_pos c.1 with h | h
    · rw [h]; omega
    · have : size ≤ c.1 * size := Nat.le_mul_of_pos_left _ h
      omega
  have ov2 : c.2 * size + size < U32 + 1 := by
    rcases Nat.eq_zero_or_pos c.2 with h | h
    · rw [h]; omega
    · have : size ≤ c.2 * size := Nat.le_mul_of_pos_left _ h
      omega
  unfold gridCell
  simp only
  have g1 : ¬ (c.1 * size ≥ U32 ∨ c.2 * size ≥ U32) := by omega
  have g2 : ¬ (c.1 * size + size ≥ U32 + 1 ∨ c.2 * size + size ≥ U32 + 1) := by omega
  simp only [Bool.or_eq_true, decide_eq_true_eq, g1, g2, if_false]
  have hnew : BBox.new b.level (c.1 * size) (c.2 * size) (min (c.1 * size + size - 1) b.maxv) (min (c.2 * size + size - 1) b.maxv)
      = .ok ⟨b.level, c.1 * size, c.2 * size, min (c.1 * size + size - 1) b.maxv, min (c.2 * size + size - 1) b.maxv⟩ := by
    unfold BBox.new
    have n1 : ¬ b.level > 31 := by omega
    have n2 : ¬ min (c.1 * size + size - 1) b.maxv > 2 ^ b.level - 1 := by rw [← hmv]; omega
    have n3 : ¬ min (c.2 * size + size - 1) b.maxv > 2 ^ b.level - 1 := by rw [← hmv]; omega
    have n4 : ¬ c.1 * size > min (c.1 * size + size - 1) b.maxv := by omega
    have n5 : ¬ c.2 * size > min (c.2 * size + size - 1) b.maxv := by omega
    simp only [n1, n2, n3, n4, n5, if_false]
  rw [hnew]
  simp only [intersectBBox, ne_eq, not_true_eq_false, if_false, cellOf]
  split <;> rfl

/-- **grid partition**: for every box (any encoding of empty included) whose fields are in range,
    and every cell size `1 ≤ size < 2^32`, `iter_bbox_grid` does not panic and returns non-empty
    cells, each of which is exactly the part of the box inside one aligned `size × size` square;
    every coordinate of the box lies in one cell, and distinct cells are disjoint. -/
theorem grid_partition (b : BBox) (hl : b.level ≤ 31) (hr : InRange b) (size : Nat) (hs : 1 ≤ size) (hs2 : size < U32) :
    ∃ cells, b.iterBBoxGrid size = .ok cells ∧
      (∀ c ∈ cells, c.isEmpty = false) ∧
      (∀ c ∈ cells, ∃ mx my, ∀ x y, mem c x y ↔ (x / size = mx ∧ y / size = my ∧ mem b x y)) ∧
      (∀ x y, mem b x y → ∃ c ∈ cells, mem c x y) ∧
      cells.Pairwise (fun c d => ∀ x y, ¬ (mem c x y ∧ mem d x y)) := by
  have hpow : 2 ^ b.level ≤ 2 ^ 31 := Nat.pow_le_pow_right (by omega) hl
  have hU : U32 = 2 ^ 32 := by decide
  have hx : b.xmax < U32 := by unfold InRange maxv at hr; omega
  have hy : b.ymax < U32 := by unfold InRange maxv at hr; omega
  let mb : BBox := { b with xmin := b.xmin / size, ymin := b.ymin / size, xmax := b.xmax / size, ymax := b.ymax / size }
  have hscale : b.scaleDown size = .ok mb := by
    unfold scaleDown; simp [show size ≠ 0 by omega, mb]
  have hcells : ∀ c ∈ mb.iterCoords, gridCell b size c = .ok (cellOf b size c) := by
    intro c hc
    have hm := (mem_iterCoords mb c.1 c.2).mp hc
    simp only [mem, mb] at hm
    apply gridCell_ok b hl hr size hs hs2 hx hy
    · calc c.1 * size ≤ b.xmax / size * size := Nat.mul_le_mul_right _ hm.2.1
        _ ≤ b.xmax := Nat.div_mul_le_self _ _
    · calc c.2 * size ≤ b.ymax / size * size := Nat.mul_le_mul_right _ hm.2.2.2
        _ ≤ b.ymax := Nat.div_mul_le_self _ _
  refine ⟨(mb.iterCoords.map (cellOf b size)).filter (fun c => !c.isEmpty), ?_, ?_, ?_, ?_, ?_⟩
  · unfold iterBBoxGrid
    simp only [show size ≠ 0 by omega, if_false, hscale, mapM_ok _ _ _ hcells]
  · intro c hc
    simp only [List.mem_filter, Bool.not_eq_true'] at hc
    exact hc.2
  · intro c hc
    simp only [List.mem_filter, List.mem_map] at hc
    obtain ⟨⟨m, _, rfl⟩, _⟩ := hc
    exact ⟨m.1, m.2, fun x y => mem_cellOf b hr size hs m x y⟩
  · intro x y hm
    refine ⟨cellOf b size (x / size, y / size), ?_, (mem_cellOf b hr size hs _ x y).mpr ⟨rfl, rfl, hm⟩⟩
    simp only [List.mem_filter, List.mem_map, Bool.not_eq_true']
    refine ⟨⟨(x / size, y / size), ?_, rfl⟩, ?_⟩
    · rw [mem_iterCoords]
      unfold mem at hm
      simp only [mem, mb]
      exact ⟨Nat.div_le_div_right hm.1, Nat.div_le_div_right hm.2.1, Nat.div_le_div_right hm.2.2.1, Nat.div_le_div_right hm.2.2.2⟩
    · cases he : (cellOf b size (x / size, y / size)).isEmpty
      · rfl
      · exact absurd ((mem_cellOf b hr size hs _ x y).mpr ⟨rfl, rfl, hm⟩) ((isEmpty_iff _).mp he x y)
  · apply List.Pairwise.filter
    rw [List.pairwise_map]
    apply (iterCoords_sorted mb).imp
    intro p q hpq x y ⟨h1, h2⟩
    rw [mem_cellOf b hr size hs] at h1 h2
    unfold rowMajorLt at hpq
    omega

/-- `iter_bbox_grid(0)` yields nothing; no panic. -/
theorem grid_zero (b : BBox) : b.iterBBoxGrid 0 = .ok [] := by simp [iterBBoxGrid]

/-- every empty encoding has an empty grid -/
theorem grid_of_empty (b : BBox) (hl : b.level ≤ 31) (hr : InRange b) (he : b.isEmpty = true) (size : Nat)
    (hs : 1 ≤ size) (hs2 : size < U32) : b.iterBBoxGrid size = .ok [] := by
  obtain ⟨cells, h, hne, hsub, _, _⟩ := grid_partition b hl hr size hs hs2
  rw [h]
  cases cells with
  | nil => rfl
  | cons c cs =>
    exfalso
    have hc := hne c (by simp)
    obtain ⟨mx, my, hm⟩ := hsub c (by simp)
    obtain ⟨h1, h2⟩ := (not_isEmpty_iff c).mp hc
    have := (hm c.xmin c.ymin).mp ⟨Nat.le_refl _, h1, Nat.le_refl _, h2⟩
    exact (isEmpty_iff b).mp he _ _ this.2.2

/-! ### flips and swaps -/

/-- `swap_xy` exchanges the roles of x and y in the denotation, for every encoding -/
theorem mem_swapXY (b : BBox) (x y : Nat) : mem b.swapXY x y ↔ mem b y x := by
  unfold swapXY
  split
  · rename_i he
    constructor <;> intro h <;> exact absurd h ((isEmpty_iff b).mp he _ _)
  · simp only [mem]; omega

theorem swapXY_involutive (b : BBox) : b.swapXY.swapXY = b := by
  unfold swapXY
  split
  · simp
  · rename_i he
    have : (⟨b.level, b.ymin, b.xmin, b.ymax, b.xmax⟩ : BBox).isEmpty = false := by
      simp only [Bool.not_eq_true] at he
      rw [not_isEmpty_iff] at he ⊢; simp; omega
    simp [this]

/-- `flip_y` on an in-range box: no panic; the denotation is mirrored at `2^z − 1` -/
theorem flipY_spec (b : BBox) (hr : InRange b) :
    ∃ c, b.flipY = .ok c ∧ c.level = b.level ∧ InRange c ∧
      ∀ x y, mem c x y ↔ (y ≤ b.maxv ∧ mem b x (b.maxv - y)) := by
  unfold flipY
  split
  · rename_i he
    refine ⟨b, rfl, rfl, hr, ?_⟩
    intro x y
    constructor
    · intro h; exact absurd h ((isEmpty_iff b).mp he _ _)
    · intro h; exact absurd h.2 ((isEmpty_iff b).mp he _ _)
  · rename_i he
    simp only [Bool.not_eq_true] at he
    obtain ⟨h1, h2⟩ := (not_isEmpty_iff b).mp he
    unfold InRange at hr
    have n1 : ¬ b.maxv < b.ymax := by omega
    have n2 : ¬ b.maxv < b.ymin := by omega
    simp only [n1, n2, if_false]
    refine ⟨_, rfl, rfl, ?_, ?_⟩
    · unfold InRange maxv at *; simp only; omega
    · intro x y; simp only [mem]; omega

theorem flipY_involutive (b : BBox) (hr : InRange b) :
    ∃ c, b.flipY = .ok c ∧ c.flipY = .ok b := by
  unfold flipY
  split
  · rename_i he; exact ⟨b, rfl, by simp [he]⟩
  · rename_i he
    simp only [Bool.not_eq_true] at he
    obtain ⟨h1, h2⟩ := (not_isEmpty_iff b).mp he
    unfold InRange at hr
    have n1 : ¬ b.maxv < b.ymax := by omega
    have n2 : ¬ b.maxv < b.ymin := by omega
    simp only [n1, n2, if_false]
    refine ⟨_, rfl, ?_⟩
    have hmv : (⟨b.level, b.xmin, b.maxv - b.ymax, b.xmax, b.maxv - b.ymin⟩ : BBox).maxv = b.maxv := rfl
    have e : (⟨b.level, b.xmin, b.maxv - b.ymax, b.xmax, b.maxv - b.ymin⟩ : BBox).isEmpty = false := by
      rw [not_isEmpty_iff]; simp only; omega
    simp only [e, hmv]
    have n3 : ¬ b.maxv < b.maxv - b.ymin := by omega
    have n4 : ¬ b.maxv < b.maxv - b.ymax := by omega
    simp only [n3, n4, if_false, Bool.false_eq_true]
    congr 1
    cases b; simp only [BBox.mk.injEq, true_and] at *
    omega

/-- coordinate flip: involution on in-range rows, panic (assert) outside -/
theorem coordFlipY_involutive (x y z : Nat) (hy : y ≤ 2 ^ z - 1) :
    ∃ c, coordFlipY x y z = .ok c ∧ coordFlipY c.1 c.2.1 c.2.2 = .ok (x, y, z) := by
  refine ⟨(x, 2 ^ z - 1 - y, z), ?_, ?_⟩
  · unfold coordFlipY
    generalize 2 ^ z = n at hy ⊢
    have : ¬ n - 1 < y := by omega
    simp only [this, if_false]
  · show coordFlipY x (2 ^ z - 1 - y) z = .ok (x, y, z)
    unfold coordFlipY
    generalize 2 ^ z = n at hy ⊢
    have : ¬ n - 1 < n - 1 - y := by omega
    simp only [this, if_false]
    have e : n - 1 - (n - 1 - y) = y := by omega
    rw [e]

end VtModel.BBox
