import VtProofs.VplDepth
/-!
# Plain syntax trees + layouts: every syntax tree can be written, under every layout policy

`Node` (the tree type of the model) read as *abstract syntax*: name, the parameters in text order (keys may
repeat), the nested pipelines.  `canonPipe L d t` writes the tree `t` under the layout policy `L`
(whitespace for every kind of slot, quoting, bracketing, escaping choices) as a `CPipe d`; it succeeds
whenever `d` bounds the nesting, the result is well formed and describes `normPipe t` (= `t` with the
parameter lists turned into maps).  Hence `parse_ast`: the text of every well-formed syntax tree under
every layout policy parses to the tree.  (Layouts that vary from slot to slot are the `CPipe` family itself.)
-/
namespace VtModel.Vpl

/-! ## abstract syntax: normal form, well-formedness, nesting depth (structural recursion over `Node`) -/

mutual
/-- the pipeline a syntax tree describes: parameter lists become maps (`mkProps`) -/
def normNode : Node → Node
  | .mk name props srcs => .mk name (mkProps props) (normSrcs srcs)
def normSrcs : List (List Node) → List (List Node)
  | [] => []
  | p :: ps => normNodes p :: normSrcs ps
def normNodes : List Node → List Node
  | [] => []
  | n :: ns => normNode n :: normNodes ns
end

mutual
/-- names and keys are identifiers, every pipeline (nested ones too) has at least one operation -/
def wfNode : Node → Prop
  | .mk name props srcs => IsIdent name ∧ (∀ kv ∈ props, IsIdent kv.1) ∧ wfSrcs srcs
def wfSrcs : List (List Node) → Prop
  | [] => True
  | p :: ps => (p ≠ [] ∧ wfNodes p) ∧ wfSrcs ps
def wfNodes : List Node → Prop
  | [] => True
  | n :: ns => wfNode n ∧ wfNodes ns
end

mutual
def depthNode : Node → Nat
  | .mk _ _ srcs => depthSrcs srcs
def depthSrcs : List (List Node) → Nat
  | [] => 0
  | p :: ps => max (depthNodes p + 1) (depthSrcs ps)
def depthNodes : List Node → Nat
  | [] => 0
  | n :: ns => max (depthNode n) (depthNodes ns)
end

theorem normNodes_eq_map (p : List Node) : normNodes p = p.map normNode := by
  induction p with
  | nil => simp [normNodes]
  | cons n ns ih => simp [normNodes, ih]

theorem normSrcs_eq_map (ss : List (List Node)) : normSrcs ss = ss.map normNodes := by
  induction ss with
  | nil => simp [normSrcs]
  | cons p ps ih => simp [normSrcs, ih]

theorem wfNodes_mem {p : List Node} (h : wfNodes p) : ∀ n ∈ p, wfNode n := by
  induction p with
  | nil => intro n hn; cases hn
  | cons m ms ih =>
    simp only [wfNodes] at h
    intro n hn
    rcases List.mem_cons.1 hn with rfl | h'
    · exact h.1
    · exact ih h.2 n h'

theorem wfSrcs_mem {ss : List (List Node)} (h : wfSrcs ss) : ∀ p ∈ ss, p ≠ [] ∧ wfNodes p := by
  induction ss with
  | nil => intro p hp; cases hp
  | cons q qs ih =>
    simp only [wfSrcs] at h
    intro p hp
    rcases List.mem_cons.1 hp with rfl | h'
    · exact h.1
    · exact ih h.2 p h'

theorem depthNodes_mem {p : List Node} {d : Nat} (h : depthNodes p ≤ d) : ∀ n ∈ p, depthNode n ≤ d := by
  induction p with
  | nil => intro n hn; cases hn
  | cons m ms ih =>
    simp only [depthNodes] at h
    intro n hn
    rcases List.mem_cons.1 hn with rfl | h'
    · omega
    · exact ih (by omega) n h'

theorem depthSrcs_mem {ss : List (List Node)} {d : Nat} (h : depthSrcs ss ≤ d + 1) : ∀ p ∈ ss, depthNodes p ≤ d := by
  induction ss with
  | nil => intro p hp; cases hp
  | cons q qs ih =>
    simp only [depthSrcs] at h
    intro p hp
    rcases List.mem_cons.1 hp with rfl | h'
    · omega
    · exact ih (by omega) p h'

theorem depthSrcs_zero {ss : List (List Node)} (h : depthSrcs ss ≤ 0) : ss = [] := by
  cases ss with
  | nil => rfl
  | cons q qs => simp only [depthSrcs] at h; omega

/-! ## layout policies -/

structure Layout where
  pre : Ws
  post : Ws
  /-- in front of every parameter -/
  sep : Ws1
  /-- around `=` -/
  wa : Ws
  wb : Ws
  /-- inside value lists: behind `[`, in front of `,`, behind `,`, in front of `]` -/
  l0 : Ws
  la : Ws
  lb : Ws
  l1 : Ws
  /-- in front of the source list, inside empty brackets -/
  wS : Ws
  wEmpty : Ws
  /-- quote values that could be written bare -/
  quoteAll : Bool
  /-- write a single value as a one-element list -/
  bracketSingle : Bool
  /-- write `[ ]` behind operations without sources -/
  emptyBrackets : Bool
  /-- write line feed / tab inside quotes as `\n` / `\t` instead of raw -/
  escNl : Bool
  escTab : Bool

def isBareStr (v : Str) : Bool := !v.isEmpty && v.all isBare

theorem isBareStr_iff {v : Str} (h : isBareStr v = true) : IsBare v := by
  simp only [isBareStr, Bool.and_eq_true, Bool.not_eq_true', List.all_eq_true] at h
  exact ⟨by intro e; rw [e] at h; simp at h, h.2⟩

def layChar (L : Layout) (c : Char) : QChar :=
  if c = '\\' then .esc .bs
  else if c = '"' then .esc .quote
  else if c = '\n' ∧ L.escNl = true then .esc .n
  else if c = '\t' ∧ L.escTab = true then .esc .t
  else .raw c

theorem layChar_wf (L : Layout) (c : Char) : (layChar L c).WF := by
  unfold layChar
  split
  · trivial
  · split
    · trivial
    · split
      · trivial
      · split
        · trivial
        · rename_i h1 h2 _ _; exact ⟨h1, h2⟩

theorem layChar_val (L : Layout) (c : Char) : (layChar L c).val = c := by
  unfold layChar
  split
  · rename_i h; simp [QChar.val, Esc.val, h]
  · split
    · rename_i h; simp [QChar.val, Esc.val, h]
    · split
      · rename_i h; simp [QChar.val, Esc.val, h.1]
      · split
        · rename_i h; simp [QChar.val, Esc.val, h.1]
        · rfl

def layItem (L : Layout) (v : Str) : CItem :=
  if !L.quoteAll && isBareStr v then .bare v else .quoted (v.map (layChar L))

theorem layItem_wf (L : Layout) (v : Str) : (layItem L v).WF := by
  unfold layItem
  split
  · rename_i h
    simp only [Bool.and_eq_true] at h
    exact isBareStr_iff h.2
  · intro q hq
    obtain ⟨c, _, rfl⟩ := List.mem_map.1 hq
    exact layChar_wf L c

theorem layItem_val (L : Layout) (v : Str) : (layItem L v).val = v := by
  unfold layItem
  split
  · rfl
  · simp [CItem.val, qval, List.map_map, Function.comp_def, layChar_val]

def layVal (L : Layout) : List Str → CVal
  | [] => .list L.l0 none L.l1
  | [v] => if L.bracketSingle then .list L.l0 (some (layItem L v, [])) L.l1 else .scalar (layItem L v)
  | v :: more => .list L.l0 (some (layItem L v, more.map fun w => (L.la, L.lb, layItem L w))) L.l1

theorem layVal_wf (L : Layout) (vs : List Str) : (layVal L vs).WF := by
  unfold layVal
  split
  · trivial
  · split
    · exact ⟨layItem_wf L _, by intro x hx; cases hx⟩
    · exact layItem_wf L _
  · refine ⟨layItem_wf L _, ?_⟩
    intro x hx
    obtain ⟨w, _, rfl⟩ := List.mem_map.1 hx
    exact layItem_wf L w

theorem layVal_vals (L : Layout) (vs : List Str) : (layVal L vs).vals = vs := by
  unfold layVal
  split
  · rfl
  · split <;> simp [CVal.vals, layItem_val]
  · simp [CVal.vals, layItem_val, List.map_map, Function.comp_def]

def layProp (L : Layout) (kv : Str × List Str) : Ws1 × CProp := (L.sep, ⟨kv.1, L.wa, L.wb, layVal L kv.2⟩)

theorem layProp_kv (L : Layout) (props : List (Str × List Str)) :
    (props.map (layProp L)).map (fun x => x.2.kv) = props := by
  induction props with
  | nil => rfl
  | cons kv ps ih =>
    simp only [List.map_cons, ih]
    congr 1
    simp [layProp, CProp.kv, layVal_vals]

/-! ## writing a syntax tree -/

def mapOpt {α β : Type} (f : α → Option β) : List α → Option (List β)
  | [] => some []
  | x :: xs =>
    match f x, mapOpt f xs with
    | some y, some ys => some (y :: ys)
    | _, _ => none

theorem mapOpt_some {α β γ : Type} (f : α → Option β) (wf : β → Prop) (g : β → γ) (h : α → γ) (xs : List α)
    (hx : ∀ x ∈ xs, ∃ y, f x = some y ∧ wf y ∧ g y = h x) :
    ∃ ys, mapOpt f xs = some ys ∧ (∀ y ∈ ys, wf y) ∧ ys.map g = xs.map h := by
  induction xs with
  | nil => exact ⟨[], rfl, (by intro y hy; cases hy), rfl⟩
  | cons x xs ih =>
    obtain ⟨y, hy1, hy2, hy3⟩ := hx x (List.mem_cons_self ..)
    obtain ⟨ys, h1, h2, h3⟩ := ih (fun z hz => hx z (List.mem_cons_of_mem _ hz))
    refine ⟨y :: ys, by simp [mapOpt, hy1, h1], ⟨?_, by simp [hy3, h3]⟩⟩
    intro z hz
    rcases List.mem_cons.1 hz with rfl | h'
    · exact hy2
    · exact h2 z h'

def canonNodeF {Pc : Type} (L : Layout) (cp : List Node → Option Pc) : Node → Option (CNodeF Pc)
  | .mk name props srcs =>
    match srcs with
    | [] => some ⟨L.pre, name, props.map (layProp L), L.wS,
        if L.emptyBrackets then some (.empty L.wEmpty) else none, L.post⟩
    | p :: ps =>
      match cp p, mapOpt cp ps with
      | some c, some cs => some ⟨L.pre, name, props.map (layProp L), L.wS, some (.some c cs), L.post⟩
      | _, _ => none

def canonPipeF {N : Type} (cn : Node → Option N) : List Node → Option (CPipeF N)
  | [] => none
  | n :: ns =>
    match cn n, mapOpt cn ns with
    | some a, some as => some ⟨a, as⟩
    | _, _ => none

def canonNode (L : Layout) : (d : Nat) → Node → Option (CNode d)
  | 0 => canonNodeF L (fun _ => none)
  | d + 1 => canonNodeF L (canonPipeF (canonNode L d))

/-- the syntax tree `t` written under the layout policy `L` -/
def canonPipe (L : Layout) (d : Nat) (t : List Node) : Option (CPipe d) := canonPipeF (canonNode L d) t

theorem canonNodeF_ok {Pc : Type} (L : Layout) (cp : List Node → Option Pc) (wf : Pc → Prop) (pt : Pc → Pipeline)
    (name : Str) (props : List (Str × List Str)) (srcs : List (List Node))
    (hname : IsIdent name) (hkeys : ∀ kv ∈ props, IsIdent kv.1)
    (hs : ∀ p ∈ srcs, ∃ c, cp p = some c ∧ wf c ∧ pt c = normNodes p) :
    ∃ c, canonNodeF L cp (.mk name props srcs) = some c ∧ c.WF wf ∧ c.tree pt = normNode (.mk name props srcs) := by
  have hpw : ∀ x ∈ props.map (layProp L), x.2.WF := by
    intro x hx
    obtain ⟨kv, hkv, rfl⟩ := List.mem_map.1 hx
    exact ⟨hkeys kv hkv, layVal_wf L kv.2⟩
  cases srcs with
  | nil =>
    refine ⟨_, rfl, ⟨hname, hpw, ?_⟩, ?_⟩
    · show srcsWF wf (if L.emptyBrackets then some (.empty L.wEmpty) else none)
      split <;> trivial
    · simp only [CNodeF.tree, layProp_kv, normNode, normSrcs]
      congr 1
      show srcsTrees pt (if L.emptyBrackets then some (.empty L.wEmpty) else none) = []
      split <;> rfl
  | cons p ps =>
    obtain ⟨c, hc1, hc2, hc3⟩ := hs p (List.mem_cons_self ..)
    obtain ⟨cs, h1, h2, h3⟩ := mapOpt_some cp wf pt normNodes ps (fun q hq => hs q (List.mem_cons_of_mem _ hq))
    refine ⟨⟨L.pre, name, props.map (layProp L), L.wS, some (.some c cs), L.post⟩, by simp [canonNodeF, hc1, h1],
      ⟨hname, hpw, hc2, h2⟩, ?_⟩
    simp only [CNodeF.tree, layProp_kv, normNode, normSrcs, srcsTrees, hc3, h3, normSrcs_eq_map]

theorem canonPipeF_ok {N : Type} (cn : Node → Option N) (wf : N → Prop) (nt : N → Node) (p : List Node) (hne : p ≠ [])
    (hn : ∀ n ∈ p, ∃ c, cn n = some c ∧ wf c ∧ nt c = normNode n) :
    ∃ c, canonPipeF cn p = some c ∧ c.WF wf ∧ c.tree nt = normNodes p := by
  cases p with
  | nil => exact absurd rfl hne
  | cons n ns =>
    obtain ⟨a, ha1, ha2, ha3⟩ := hn n (List.mem_cons_self ..)
    obtain ⟨as, h1, h2, h3⟩ := mapOpt_some cn wf nt normNode ns (fun q hq => hn q (List.mem_cons_of_mem _ hq))
    refine ⟨⟨a, as⟩, by simp [canonPipeF, ha1, h1], ⟨ha2, h2⟩, ?_⟩
    simp only [CPipeF.tree, ha3, h3, normNodes, normNodes_eq_map]

/-- every well-formed operation of nesting depth ≤ `d` can be written at level `d` -/
theorem canonNode_ok (L : Layout) (d : Nat) : ∀ n, wfNode n → depthNode n ≤ d →
    ∃ c, canonNode L d n = some c ∧ nodeWF d c ∧ nodeTree d c = normNode n := by
  induction d with
  | zero =>
    intro n hw hd
    obtain ⟨name, props, srcs⟩ := n
    simp only [wfNode] at hw
    simp only [depthNode] at hd
    have := depthSrcs_zero hd
    subst this
    exact canonNodeF_ok L (fun _ => none) noWF noTree name props [] hw.1 hw.2.1 (by intro p hp; cases hp)
  | succ d ih =>
    intro n hw hd
    obtain ⟨name, props, srcs⟩ := n
    simp only [wfNode] at hw
    simp only [depthNode] at hd
    refine canonNodeF_ok L (canonPipeF (canonNode L d)) (CPipeF.WF (nodeWF d)) (CPipeF.tree (nodeTree d))
      name props srcs hw.1 hw.2.1 ?_
    intro p hp
    have hpw := wfSrcs_mem hw.2.2 p hp
    have hpd := depthSrcs_mem hd p hp
    exact canonPipeF_ok (canonNode L d) (nodeWF d) (nodeTree d) p hpw.1
      (fun m hm => ih m (wfNodes_mem hpw.2 m hm) (depthNodes_mem hpd m hm))

/-- a well-formed syntax tree: at least one operation, and so on in every nested pipeline -/
def AstWF (t : List Node) : Prop := t ≠ [] ∧ wfNodes t

/-- **surjection**: every well-formed syntax tree `t`, under every layout policy, is the tree of a written
    pipeline (at every level `d` that bounds its nesting) -/
theorem canonPipe_ok (L : Layout) (d : Nat) (t : List Node) (ht : AstWF t) (hd : depthNodes t ≤ d) :
    ∃ c, canonPipe L d t = some c ∧ WF d c ∧ treeOf d c = normNodes t :=
  canonPipeF_ok (canonNode L d) (nodeWF d) (nodeTree d) t ht.1
    (fun m hm => canonNode_ok L d m (wfNodes_mem ht.2 m hm) (depthNodes_mem hd m hm))

/-- the text of the syntax tree `t` under the layout policy `L` -/
def renderAst (L : Layout) (t : List Node) : Str :=
  match canonPipe L (depthNodes t) t with
  | some c => render (depthNodes t) c
  | none => []

/-- **C18 over plain syntax trees**: for every well-formed syntax tree and every layout policy, the text
    (if it passes the nesting guard of `parse_vpl`) parses to the pipeline the tree describes -/
theorem parse_ast (L : Layout) (t : List Node) (ht : AstWF t) (hg : bracketDepth (renderAst L t) ≤ maxNesting) :
    parseVpl (renderAst L t) = .ok (normNodes t) := by
  obtain ⟨c, h1, h2, h3⟩ := canonPipe_ok L (depthNodes t) t ht (Nat.le_refl _)
  simp only [renderAst, h1] at hg ⊢
  rw [parseVpl_render _ c h2 hg, h3]

end VtModel.Vpl
