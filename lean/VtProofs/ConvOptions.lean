import VtProofs.Converter
/-!
C06: the requested pyramid of `versatiles convert` (`get_bbox_pyramid`, convert.rs:96-135) for the
`--bbox` / `--bbox-border` branch, as a set of coordinates.
-/
namespace VtProofs.ConvOptions
open VtModel VtModel.Converter VtProofs.Converter

/-- level `z` of `new_full(32)` after `set_zoom_min` / `set_zoom_max` -/
def zoomBox (mn mx : Option Nat) (z : Nat) : BBox :=
  let full : BBox := ⟨z, 0, 0, 2 ^ z - 1, 2 ^ z - 1⟩
  let b1 := match mn with | some a => if z < a then full.setEmpty else full | none => full
  match mx with | some a => if z > a then b1.setEmpty else b1 | none => b1

/-- zoom limits as a predicate -/
def zoomOK (mn mx : Option Nat) (z : Nat) : Prop := (∀ a, mn = some a → a ≤ z) ∧ (∀ a, mx = some a → z ≤ a)

def zoomPyrOf (mn mx : Option Nat) : Pyramid :=
  let p0 := Pyramid.newFull 32
  let p1 := match mn with | some z => Pyramid.setZoomMin p0 z | none => p0
  match mx with | some z => Pyramid.setZoomMax p1 z | none => p1

theorem zoomPyrOf_eq (mn mx : Option Nat) : zoomPyrOf mn mx = (List.range 32).map (zoomBox mn mx) := by
  apply List.ext_getElem?
  intro z
  by_cases hz : z < 32
  · have hfull : (Pyramid.newFull 32)[z]? = some ⟨z, 0, 0, 2 ^ z - 1, 2 ^ z - 1⟩ := by
      simp [Pyramid.newFull, Pyramid.levels, List.getElem?_map, List.getElem?_range hz]
      omega
    cases mn <;> cases mx <;>
      simp [zoomPyrOf, zoomBox, Pyramid.setZoomMin, Pyramid.setZoomMax, List.getElem?_mapIdx, hfull,
        List.getElem?_range hz]
  · have h1 : (zoomPyrOf mn mx).length = 32 := by
      cases mn <;> cases mx <;> simp [zoomPyrOf, Pyramid.setZoomMin, Pyramid.setZoomMax, Pyramid.newFull, Pyramid.levels]
    rw [List.getElem?_eq_none (by omega), List.getElem?_eq_none (by simp; omega)]

theorem zoomBox_level (mn mx : Option Nat) (z : Nat) : (zoomBox mn mx z).level = z := by
  cases mn <;> cases mx <;> simp only [zoomBox] <;> (repeat' split) <;> rfl

theorem zoomBox_wf (mn mx : Option Nat) (z : Nat) (hz : z < 32) : (zoomBox mn mx z).WF := by
  have hp : 0 < 2 ^ z := Nat.two_pow_pos z
  cases mn <;> cases mx <;> simp only [zoomBox] <;> (repeat' split) <;>
    exact ⟨by simp [BBox.setEmpty]; omega, by simp [BBox.setEmpty]; omega, by simp [BBox.setEmpty]; omega⟩

theorem zoomBox_contains (mn mx : Option Nat) (z x y : Nat) (hx : x < 2 ^ z) (hy : y < 2 ^ z) :
    (zoomBox mn mx z).contains2 x y = true ↔ zoomOK mn mx z := by
  rw [contains2_iff]
  cases mn with
  | none =>
    cases mx with
    | none => simp only [zoomBox, zoomOK]; simp; omega
    | some b =>
      by_cases hb : z > b
      · simp only [zoomBox, zoomOK, hb, if_true, BBox.setEmpty]; simp; omega
      · simp only [zoomBox, zoomOK, hb, if_false]; simp; omega
  | some a =>
    cases mx with
    | none =>
      by_cases ha : z < a
      · simp only [zoomBox, zoomOK, ha, if_true, BBox.setEmpty]; simp; omega
      · simp only [zoomBox, zoomOK, ha, if_false]; simp; omega
    | some b =>
      by_cases ha : z < a <;> by_cases hb : z > b <;>
        simp only [zoomBox, zoomOK, ha, hb, if_true, if_false, BBox.setEmpty] <;> simp <;> omega

/-- the pure result of `add_border(b, b, b, b)` -/
def borderBox (b : BBox) (bd : Nat) : BBox :=
  if b.isEmpty then b
  else { b with xmin := b.xmin - bd, ymin := b.ymin - bd,
                xmax := min (b.xmax + bd) b.maxv, ymax := min (b.ymax + bd) b.maxv }

theorem addBorder_ok (b : BBox) (hb : b.WF) (bd : Nat) (hbd : bd + 2 ^ 31 ≤ U32) :
    b.addBorder bd bd bd bd = .ok (borderBox b bd) := by
  unfold BBox.addBorder borderBox
  split
  · rfl
  · have h1 := hb.2.1
    have h2 := hb.2.2
    have hl : 2 ^ b.level ≤ 2 ^ 31 := Nat.pow_le_pow_right (by omega) hb.1
    rw [if_neg (by simp; omega)]

theorem borderBox_level (b : BBox) (bd : Nat) : (borderBox b bd).level = b.level := by
  unfold borderBox; split <;> rfl

theorem borderBox_contains (b : BBox) (hb : b.WF) (bd x y : Nat) (hx : x < 2 ^ b.level) (hy : y < 2 ^ b.level) :
    (borderBox b bd).contains2 x y = true ↔
      (b.isEmpty = false ∧ b.xmin ≤ x + bd ∧ x ≤ b.xmax + bd ∧ b.ymin ≤ y + bd ∧ y ≤ b.ymax + bd) := by
  unfold borderBox
  have hm : b.maxv = 2 ^ b.level - 1 := rfl
  split
  · rename_i he
    have he' := (isEmpty_iff b).1 he
    rw [contains2_iff]
    simp [he]
    omega
  · rename_i he
    have he' : b.isEmpty = false := by simpa using he
    rw [contains2_iff]
    simp only [he', true_and]
    omega

theorem zoomBox_cases (mn mx : Option Nat) (z : Nat) :
    (zoomOK mn mx z ∧ zoomBox mn mx z = ⟨z, 0, 0, 2 ^ z - 1, 2 ^ z - 1⟩) ∨
    (¬ zoomOK mn mx z ∧ (zoomBox mn mx z).isEmpty = true) := by
  cases mn with
  | none =>
    cases mx with
    | none => left; simp [zoomBox, zoomOK]
    | some b =>
      by_cases hb : z > b
      · right; simp [zoomBox, zoomOK, hb, BBox.setEmpty, BBox.isEmpty] <;> omega
      · left; simp [zoomBox, zoomOK, hb] <;> omega
  | some a =>
    cases mx with
    | none =>
      by_cases ha : z < a
      · right; simp [zoomBox, zoomOK, ha, BBox.setEmpty, BBox.isEmpty] <;> omega
      · left; simp [zoomBox, zoomOK, ha] <;> omega
    | some b =>
      by_cases ha : z < a <;> by_cases hb : z > b
      · right; simp [zoomBox, zoomOK, ha, hb, BBox.setEmpty, BBox.isEmpty] <;> omega
      · right; simp [zoomBox, zoomOK, ha, hb, BBox.setEmpty, BBox.isEmpty] <;> omega
      · right; simp [zoomBox, zoomOK, ha, hb, BBox.setEmpty, BBox.isEmpty] <;> omega
      · left; simp [zoomBox, zoomOK, ha, hb] <;> omega

theorem isect_full (z : Nat) (g : BBox) (hne : g.isEmpty = false) (gx : g.xmax < 2 ^ z) (gy : g.ymax < 2 ^ z) :
    isectBox ⟨z, 0, 0, 2 ^ z - 1, 2 ^ z - 1⟩ g = ⟨z, g.xmin, g.ymin, g.xmax, g.ymax⟩ := by
  have hfe : (⟨z, 0, 0, 2 ^ z - 1, 2 ^ z - 1⟩ : BBox).isEmpty = false := by simp [BBox.isEmpty]
  unfold isectBox
  rw [hfe, hne]
  simp only [Bool.not_false, Bool.and_self, if_true, BBox.mk.injEq, true_and]
  omega

theorem isect_empty_right (a g : BBox) (h : g.isEmpty = true) : (isectBox a g).isEmpty = true := by
  unfold isectBox
  rw [h]
  simp [BBox.setEmpty, BBox.isEmpty]

theorem isect_empty_left (a g : BBox) (h : a.isEmpty = true) : (isectBox a g).isEmpty = true := by
  unfold isectBox
  rw [h]
  simp [BBox.setEmpty, BBox.isEmpty]

/-- a requested level box: zoom-limited full box ∩ geo box, grown by the border -/
def reqBox (mn mx : Option Nat) (g : Nat → BBox) (border : Option Nat) (z : Nat) : BBox :=
  let i := isectBox (zoomBox mn mx z) (g z)
  match border with
  | some bd => borderBox i bd
  | none => i

theorem reqBox_level (mn mx : Option Nat) (g : Nat → BBox) (border : Option Nat) (z : Nat) :
    (reqBox mn mx g border z).level = z := by
  cases border <;> simp [reqBox, borderBox_level, isect_level, zoomBox_level]

/-- **membership in a requested level box** -/
theorem reqBox_contains (mn mx : Option Nat) (g : Nat → BBox) (border : Option Nat) (z : Nat) (hz : z < 32)
    (hg : (g z).level = z ∧ (g z).WF) (x y : Nat) (hx : x < 2 ^ z) (hy : y < 2 ^ z) :
    (reqBox mn mx g border z).contains2 x y = true ↔
      (zoomOK mn mx z ∧ (g z).isEmpty = false ∧
        (g z).xmin ≤ x + border.getD 0 ∧ x ≤ (g z).xmax + border.getD 0 ∧
        (g z).ymin ≤ y + border.getD 0 ∧ y ≤ (g z).ymax + border.getD 0) := by
  have hw := isect_wf (zoomBox mn mx z) (g z) (zoomBox_wf mn mx z hz)
  have hl : (isectBox (zoomBox mn mx z) (g z)).level = z := by rw [isect_level, zoomBox_level]
  -- the intersection, explicitly
  have hi : ((isectBox (zoomBox mn mx z) (g z)).isEmpty = false ∧
        (isectBox (zoomBox mn mx z) (g z)).xmin ≤ x + border.getD 0 ∧ x ≤ (isectBox (zoomBox mn mx z) (g z)).xmax + border.getD 0 ∧
        (isectBox (zoomBox mn mx z) (g z)).ymin ≤ y + border.getD 0 ∧ y ≤ (isectBox (zoomBox mn mx z) (g z)).ymax + border.getD 0) ↔
      (zoomOK mn mx z ∧ (g z).isEmpty = false ∧
        (g z).xmin ≤ x + border.getD 0 ∧ x ≤ (g z).xmax + border.getD 0 ∧
        (g z).ymin ≤ y + border.getD 0 ∧ y ≤ (g z).ymax + border.getD 0) := by
    have gx := hg.2.2.1
    have gy := hg.2.2.2
    rw [hg.1] at gx gy
    rcases zoomBox_cases mn mx z with ⟨hok, hfull⟩ | ⟨hno, hemp⟩
    · rw [hfull]
      by_cases hge : (g z).isEmpty = true
      · rw [isect_empty_right _ _ hge, hge]
        simp
      · have hge' : (g z).isEmpty = false := by simpa using hge
        rw [isect_full z (g z) hge' gx gy]
        have hne := hge'
        simp only [BBox.isEmpty, Bool.or_eq_false_iff, decide_eq_false_iff_not] at hne
        have hie : (⟨z, (g z).xmin, (g z).ymin, (g z).xmax, (g z).ymax⟩ : BBox).isEmpty = false := by
          simp only [BBox.isEmpty, Bool.or_eq_false_iff, decide_eq_false_iff_not]; exact hne
        rw [hie, hge']
        simp only [true_and]
        exact ⟨fun h => ⟨hok, h⟩, fun h => h.2⟩
    · rw [isect_empty_left _ _ hemp]
      simp [hno]
  rw [← hi]
  cases border with
  | none =>
    simp only [reqBox, Option.getD_none, Nat.add_zero]
    rw [contains2_iff]
    constructor
    · intro h
      refine ⟨?_, h⟩
      cases he : (isectBox (zoomBox mn mx z) (g z)).isEmpty with
      | false => rfl
      | true => rw [isEmpty_iff] at he; omega
    · intro h; exact h.2
  | some bd =>
    simp only [reqBox, Option.getD_some]
    exact borderBox_contains _ (hw) bd x y (by rw [hl]; exact hx) (by rw [hl]; exact hy)

end VtProofs.ConvOptions
