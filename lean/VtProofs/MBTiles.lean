import VtModel.MBTiles
/-!
MBTiles: the TMS row flip is an involution on valid rows, and the reader finds exactly the rows the
writer stored.
-/
namespace VtProofs.MBTiles
open VtModel VtModel.Fmt VtModel.MBTiles

/-- `flip ∘ flip = id` for `y < 2^z` -/
theorem flip_flip (z y : Nat) (h : y < 2 ^ z) : 2 ^ z - 1 - (2 ^ z - 1 - y) = y := by omega

/-- the flip is injective on valid rows -/
theorem flip_inj (z y y' : Nat) (h : y < 2 ^ z) (h' : y' < 2 ^ z) (e : 2 ^ z - 1 - y = 2 ^ z - 1 - y') : y = y' := by
  omega

abbrev Tile := (Nat × Nat × Nat) × Bytes

/-- lookup in the source list (first match) -/
def lookup (tiles : List Tile) (p : Nat × Nat × Nat) : Option Bytes :=
  (tiles.find? (fun t => t.1 == p)).map (·.2)

/-- **C01 (mbtiles)**: reading a coordinate from the rows the writer inserted gives the source tile,
    for every tile list with in-range rows (`y < 2^z`), every coordinate with `y < 2^z`, `z ≤ 31`. -/
theorem roundtrip (tiles : List Tile) (hv : ∀ t ∈ tiles, t.1.2.1 < 2 ^ t.1.2.2)
    (fmt : TileFormat) (comp : TComp) (cov : List BBox) (x y z : Nat) (hy : y < 2 ^ z) (hz : z ≤ 31) :
    getTile ⟨writeRows tiles, fmt, comp, cov⟩ x y z = .ok (lookup tiles (x, y, z)) := by
  unfold getTile
  have h1 : ¬ (z > 31) := by omega
  have h2 : ¬ (y > 2 ^ z - 1) := by omega
  simp only [h1, h2, if_false]
  congr 1
  unfold lookup writeRows
  induction tiles with
  | nil => simp
  | cons t ts ih =>
    have hv' : ∀ t ∈ ts, t.1.2.1 < 2 ^ t.1.2.2 := fun u hu => hv u (by simp [hu])
    have ht := hv t (by simp)
    obtain ⟨⟨tx, ty, tz⟩, tb⟩ := t
    simp only at ht
    simp only [List.map_cons, List.find?_cons]
    by_cases hm : (tx, ty, tz) = (x, y, z)
    · injection hm with e1 e2
      injection e2 with e2 e3
      subst e1 e2 e3
      simp
    · have hne : ¬ (tz = z ∧ tx = x ∧ 2 ^ tz - 1 - ty = 2 ^ z - 1 - y) := by
        intro ⟨a, b, c⟩
        subst a b
        have := flip_inj tz ty y ht hy c
        subst this
        exact hm rfl
      have hb1 : ((tz == z && tx == x && 2 ^ tz - 1 - ty == 2 ^ z - 1 - y) = false) := by
        rw [Bool.eq_false_iff]
        intro hh
        simp only [Bool.and_eq_true, beq_iff_eq] at hh
        exact hne ⟨hh.1.1, hh.1.2, hh.2⟩
      have hb2 : (((tx, ty, tz) == (x, y, z)) = false) := by
        rw [Bool.eq_false_iff]
        intro hh
        exact hm (by simpa using hh)
      simp only [hb1, hb2]
      exact ih hv'

end VtProofs.MBTiles
