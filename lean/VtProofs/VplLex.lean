import VtModel.VplSyntax
/-!
# Lexical layer of the VPL parser model: whitespace, identifiers, bare and quoted values, arrays, properties

Concrete syntax (`C…` types) = syntax tree + layout: every whitespace slot the grammar has, the choice
bare / quoted per value, raw / escaped per character, scalar / bracketed per parameter.
-/
namespace VtModel.Vpl

/-! ## result plumbing -/

@[simp] theorem R.bind_ok {α β : Type} (i : Str) (v : α) (f : Str → α → R β) : (R.ok i v).bind f = f i v := rfl
@[simp] theorem R.bind_error {α β : Type} (f : Str → α → R β) : (R.error : R α).bind f = .error := rfl
@[simp] theorem R.bind_failure {α β : Type} (f : Str → α → R β) : (R.failure : R α).bind f = .failure := rfl
@[simp] theorem R.bind_oof {α β : Type} (f : Str → α → R β) : (R.oof : R α).bind f = .oof := rfl
@[simp] theorem R.map_ok {α β : Type} (i : Str) (v : α) (f : α → β) : (R.ok i v).map f = .ok i (f v) := rfl
@[simp] theorem R.map_error {α β : Type} (f : α → β) : (R.error : R α).map f = .error := rfl
@[simp] theorem R.map_failure {α β : Type} (f : α → β) : (R.failure : R α).map f = .failure := rfl

/-! ## whitespace -/






theorem isWs_toChar (c : WsChar) : isWs c.toChar = true := by cases c <;> rfl

def dropWs (i : Str) : Str := i.dropWhile isWs

@[simp] theorem ws0_eq (i : Str) : ws0 i = .ok (dropWs i) () := rfl

@[simp] theorem dropWs_nil : dropWs [] = [] := rfl

@[simp] theorem dropWs_ws (w : Ws) (i : Str) : dropWs (w.str ++ i) = dropWs i := by
  induction w with
  | nil => rfl
  | cons c w ih =>
    show dropWs (c.toChar :: (Ws.str w ++ i)) = dropWs i
    simp only [dropWs, List.dropWhile_cons, isWs_toChar, if_true] at ih ⊢
    exact ih

@[simp] theorem dropWs_ws1 (w : Ws1) (i : Str) : dropWs (w.str ++ i) = dropWs i := by
  show dropWs (w.head.toChar :: (Ws.str w.tail ++ i)) = dropWs i
  have := dropWs_ws w.tail i
  simp only [dropWs, List.dropWhile_cons, isWs_toChar, if_true] at this ⊢
  exact this

theorem dropWs_cons_of_not {c : Char} (h : isWs c = false) (t : Str) : dropWs (c :: t) = c :: t := by
  simp [dropWs, List.dropWhile_cons, h]

@[simp] theorem dropWs_idem (i : Str) : dropWs (dropWs i) = dropWs i := by
  induction i with
  | nil => rfl
  | cons c t ih =>
    by_cases h : isWs c = true
    · simp only [dropWs, List.dropWhile_cons, h, if_true] at ih ⊢; exact ih
    · have h' : isWs c = false := by simpa using h
      rw [dropWs_cons_of_not h', dropWs_cons_of_not h']

theorem ws1_ws1 (w : Ws1) (i : Str) : ws1 (w.str ++ i) = .ok (dropWs i) () := by
  show ws1 (w.head.toChar :: (Ws.str w.tail ++ i)) = _
  simp only [ws1, isWs_toChar, if_true]
  have := dropWs_ws w.tail i
  simp only [dropWs] at this
  rw [this]; rfl

/-! ## "the rest does not continue the token" -/

/-- the text does not start with a character satisfying `p` -/
def NoHead (p : Char → Bool) (i : Str) : Prop := ∀ c t, i = c :: t → p c = false

theorem NoHead.nil (p : Char → Bool) : NoHead p [] := by intro c t h; cases h
theorem NoHead.cons {p : Char → Bool} {c : Char} (h : p c = false) (t : Str) : NoHead p (c :: t) := by
  intro c' t' e; cases e; exact h

theorem takeWhile_append_noHead {p : Char → Bool} (s rest : Str) (hs : ∀ c ∈ s, p c = true) (hr : NoHead p rest) :
    (s ++ rest).takeWhile p = s ∧ (s ++ rest).dropWhile p = rest := by
  induction s with
  | nil =>
    cases rest with
    | nil => exact ⟨rfl, rfl⟩
    | cons c t =>
      have := hr c t rfl
      simp [List.takeWhile_cons, List.dropWhile_cons, this]
  | cons c s ih =>
    have hc := hs c (List.mem_cons_self ..)
    have := ih (fun d hd => hs d (List.mem_cons_of_mem _ hd))
    simp [List.takeWhile_cons, List.dropWhile_cons, hc, this.1, this.2]

theorem dropWs_of_noHead {i : Str} (h : NoHead isWs i) : dropWs i = i := by
  cases i with
  | nil => rfl
  | cons c t => exact dropWs_cons_of_not (h c t rfl) t

/-- the text starts with none of the characters a bare value / identifier is made of (`NW` = "no word") -/
abbrev NW (i : Str) : Prop := NoHead isBare i

theorem isBare_of_isIdentRest {c : Char} (h : isIdentRest c = true) : isBare c = true := by
  simp only [isIdentRest, isBare, Bool.or_eq_true] at h ⊢
  rcases h with (h | h) | h
  · exact Or.inl (Or.inl (Or.inl h))
  · exact Or.inr h
  · exact Or.inl (Or.inr h)

theorem isIdentRest_of_isAlpha {c : Char} (h : isAlpha c = true) : isIdentRest c = true := by
  simp only [isIdentRest, isAlpha, Char.isAlphanum, Bool.or_eq_true] at h ⊢
  exact Or.inl (Or.inl (Or.inl h))

theorem NW.identRest {i : Str} (h : NW i) : NoHead isIdentRest i := by
  intro c t e
  have := h c t e
  cases hc : isIdentRest c with
  | false => rfl
  | true => rw [isBare_of_isIdentRest hc] at this; cases this

theorem NW.alpha {i : Str} (h : NW i) : NoHead isAlpha i := by
  intro c t e
  have := h.identRest c t e
  cases hc : isAlpha c with
  | false => rfl
  | true => rw [isIdentRest_of_isAlpha hc] at this; cases this

theorem isBare_ws (c : WsChar) : isBare c.toChar = false := by cases c <;> rfl

theorem NW.ws {i : Str} (w : Ws) (h : NW i) : NW (w.str ++ i) := by
  cases w with
  | nil => exact h
  | cons c w => exact NoHead.cons (isBare_ws c) _

theorem NW.ws1 (w : Ws1) (i : Str) : NW (w.str ++ i) := NoHead.cons (isBare_ws w.head) _

/-! ## identifiers and bare values -/

/-- `[A-Za-z][A-Za-z0-9_-]*` -/
def IsIdent (s : Str) : Prop := ∃ c t, s = c :: t ∧ isAlpha c = true ∧ ∀ d ∈ t, isIdentRest d = true

/-- `[A-Za-z0-9._-]+` -/
def IsBare (s : Str) : Prop := s ≠ [] ∧ ∀ d ∈ s, isBare d = true

theorem takeWhile_sub {p q : Char → Bool} (hpq : ∀ c, p c = true → q c = true) (l : Str) :
    l.takeWhile p ++ (l.dropWhile p).takeWhile q = l.takeWhile q ∧
    (l.dropWhile p).dropWhile q = l.dropWhile q := by
  induction l with
  | nil => exact ⟨rfl, rfl⟩
  | cons c l ih =>
    by_cases hp : p c = true
    · have hq := hpq c hp
      simp [List.takeWhile_cons, List.dropWhile_cons, hp, hq, ih.1, ih.2]
    · have hp' : p c = false := by simpa using hp
      simp [List.takeWhile_cons, List.dropWhile_cons, hp']

/-- **identifier**: an identifier followed by something that does not continue it is read back exactly. -/
theorem parseIdent_ok {s : Str} (hs : IsIdent s) {rest : Str} (hr : NoHead isIdentRest rest) :
    parseIdent (s ++ rest) = .ok rest s := by
  obtain ⟨c, t, rfl, hc, ht⟩ := hs
  have h1 := takeWhile_sub (p := isAlpha) (q := isIdentRest) (fun _ => isIdentRest_of_isAlpha) (t ++ rest)
  have h2 := takeWhile_append_noHead t rest ht hr
  simp only [parseIdent, List.cons_append, List.takeWhile_cons, List.dropWhile_cons, hc, if_true]
  rw [h1.2, h2.2]
  have : List.takeWhile isAlpha (t ++ rest) ++ List.takeWhile isIdentRest (List.dropWhile isAlpha (t ++ rest)) = t := by
    rw [h1.1, h2.1]
  simp only [List.cons_append, this]

/-- an input that does not start with a letter is not an identifier (`Error`, recoverable) -/
theorem parseIdent_error {i : Str} (h : NoHead isAlpha i) : parseIdent i = .error := by
  cases i with
  | nil => rfl
  | cons c t => simp [parseIdent, List.takeWhile_cons, h c t rfl]

/-- **bare value** -/
theorem parseUnquoted_ok {s : Str} (hs : IsBare s) {rest : Str} (hr : NW rest) :
    parseUnquoted (s ++ rest) = .ok rest s := by
  have h := takeWhile_append_noHead s rest hs.2 hr
  simp only [parseUnquoted, h.1, h.2]
  cases s with
  | nil => exact absurd rfl hs.1
  | cons c t => rfl

theorem parseUnquoted_error {i : Str} (h : NW i) : parseUnquoted i = .error := by
  cases i with
  | nil => rfl
  | cons c t => simp [parseUnquoted, List.takeWhile_cons, h c t rfl]

/-! ## quoted strings -/



theorem unesc_letter (e : Esc) : unesc e.letter = some e.val := by cases e <;> rfl


/-- raw characters are anything but backslash and double quote (`none_of("\\\"")`) -/
def QChar.WF : QChar → Prop
  | .raw c => c ≠ '\\' ∧ c ≠ '"'
  | .esc _ => True


theorem strLoop_nil (acc : Str) (first : Bool) : strLoop [] acc first = .ok [] acc := by rw [strLoop]
theorem strLoop_quote (rest acc : Str) (first : Bool) :
    strLoop ('"' :: rest) acc first = if first then .error else .ok ('"' :: rest) acc := by
  rw [strLoop.eq_def]; simp
theorem strLoop_raw (c : Char) (t acc : Str) (first : Bool) (h1 : c ≠ '\\') (h2 : c ≠ '"') :
    strLoop (c :: t) acc first = strLoop t (acc ++ [c]) false := by
  rw [strLoop.eq_def]; simp [h1, h2]
theorem strLoop_esc (e x : Char) (t acc : Str) (first : Bool) (h : unesc e = some x) :
    strLoop ('\\' :: e :: t) acc first = strLoop t (acc ++ [x]) false := by
  rw [strLoop.eq_def]; simp [h]
theorem strLoop_bad (e : Char) (t acc : Str) (first : Bool) (h : unesc e = none) :
    strLoop ('\\' :: e :: t) acc first = .error := by
  rw [strLoop.eq_def]; simp [h]
theorem strLoop_bs_eof (acc : Str) (first : Bool) : strLoop ['\\'] acc first = .error := by
  rw [strLoop.eq_def]; simp

theorem qstr_cons_raw (c : Char) (qs : List QChar) (r : Str) : qstr (.raw c :: qs) ++ r = c :: (qstr qs ++ r) := rfl
theorem qstr_cons_esc (e : Esc) (qs : List QChar) (r : Str) :
    qstr (.esc e :: qs) ++ r = '\\' :: e.letter :: (qstr qs ++ r) := rfl
theorem qval_cons (q : QChar) (qs : List QChar) : qval (q :: qs) = q.val :: qval qs := rfl

/-- one step of the loop over a well-formed written character -/
theorem strLoop_step (q : QChar) (hw : q.WF) (qs : List QChar) (r acc : Str) (first : Bool) :
    strLoop (qstr (q :: qs) ++ r) acc first = strLoop (qstr qs ++ r) (acc ++ [q.val]) false := by
  cases q with
  | raw c => rw [qstr_cons_raw, strLoop_raw c _ _ _ hw.1 hw.2]; rfl
  | esc e => rw [qstr_cons_esc, strLoop_esc _ _ _ _ _ (unesc_letter e)]; rfl

theorem strLoop_body (qs : List QChar) (hq : ∀ q ∈ qs, q.WF) (rest acc : Str) (first : Bool) :
    strLoop (qstr qs ++ '"' :: rest) acc first =
      if qs = [] ∧ first = true then .error else .ok ('"' :: rest) (acc ++ qval qs) := by
  induction qs generalizing acc first with
  | nil =>
    show strLoop ('"' :: rest) acc first = _
    rw [strLoop_quote]; cases first <;> simp [qval]
  | cons q qs ih =>
    rw [strLoop_step q (hq q (List.mem_cons_self ..)), ih (fun q' h' => hq q' (List.mem_cons_of_mem _ h'))]
    simp [qval_cons]

/-- **quoted string**: `"` body `"` is read back as the characters the body stands for, whatever follows;
    includes the empty string `""`. -/
theorem parseQuoted_ok (qs : List QChar) (hq : ∀ q ∈ qs, q.WF) (rest : Str) :
    parseQuoted ('"' :: (qstr qs ++ '"' :: rest)) = .ok rest (qval qs) := by
  simp only [parseQuoted, pchar, if_true, R.bind_ok, opt, parseString, strLoop_body qs hq]
  by_cases h : qs = []
  · subst h; simp [qstr, qval, cut, pchar]
  · simp [h, cut, pchar]

/-- the canonical escaping of a value -/
def escapeChar (c : Char) : QChar :=
  if c = '\\' then .esc .bs else if c = '"' then .esc .quote else .raw c
def escape (s : Str) : Str := qstr (s.map escapeChar)

theorem escapeChar_wf (c : Char) : (escapeChar c).WF := by
  unfold escapeChar
  split
  · trivial
  · split
    · trivial
    · rename_i h1 h2; exact ⟨h1, h2⟩

theorem escapeChar_val (c : Char) : (escapeChar c).val = c := by
  unfold escapeChar
  split
  · rename_i h; simp [QChar.val, Esc.val, h]
  · split
    · rename_i h; simp [QChar.val, Esc.val, h]
    · rfl

/-- `parse_string (escape s) = s` in its usable form: inside quotes, for every `s` (also the empty one). -/
theorem parseQuoted_escape (s rest : Str) : parseQuoted ('"' :: (escape s ++ '"' :: rest)) = .ok rest s := by
  have := parseQuoted_ok (s.map escapeChar) (by
    intro q hq
    obtain ⟨c, _, rfl⟩ := List.mem_map.1 hq
    exact escapeChar_wf c) rest
  unfold escape
  rw [this]
  congr 1
  simp [qval, List.map_map, Function.comp_def, escapeChar_val]

/-- `parse_string (escape s) = s` for the bare combinator when `s` is non-empty (nom's
    `escaped_transform` reports an error on an empty body; that case is `parseString_empty_body`). -/
theorem parseString_escape (s rest : Str) (hs : s ≠ []) :
    parseString (escape s ++ '"' :: rest) = .ok ('"' :: rest) s := by
  have := strLoop_body (s.map escapeChar) (by
    intro q hq
    obtain ⟨c, _, rfl⟩ := List.mem_map.1 hq
    exact escapeChar_wf c) rest [] true
  unfold parseString escape
  rw [this]
  simp [hs, qval, List.map_map, Function.comp_def, escapeChar_val]

theorem parseString_empty_body (rest : Str) : parseString ('"' :: rest) = .error := by
  simp [parseString, strLoop_quote]

/-! ### rejection: broken quoting -/

/-- first character of a well-formed body is not a double quote -/
theorem cut_quote_qstr (qs : List QChar) (hq : ∀ q ∈ qs, q.WF) (r : Str) (hne : qs ≠ [] ∨ ∀ t, r ≠ '"' :: t) :
    cut (pchar '"') (qstr qs ++ r) = .failure := by
  cases qs with
  | nil =>
    rcases hne with h | h
    · exact absurd rfl h
    · cases r with
      | nil => rfl
      | cons c t =>
        have : c ≠ '"' := by intro e; exact h t (by rw [e])
        simp [qstr, cut, pchar, this]
  | cons q qs =>
    cases q with
    | raw c =>
      have := (hq _ (List.mem_cons_self ..)).2
      simp [qstr, QChar.str, cut, pchar, this]
    | esc e => simp [qstr, QChar.str, cut, pchar]

theorem strLoop_bad_escape (qs : List QChar) (hq : ∀ q ∈ qs, q.WF) (e : Char) (he : unesc e = none) (r acc : Str) (first : Bool) :
    strLoop (qstr qs ++ '\\' :: e :: r) acc first = .error := by
  induction qs generalizing acc first with
  | nil => exact strLoop_bad e r acc first he
  | cons q qs ih =>
    rw [strLoop_step q (hq q (List.mem_cons_self ..)), ih (fun q' h' => hq q' (List.mem_cons_of_mem _ h'))]

/-- **bad escape**: a backslash followed by anything but `\ " n t` inside quotes is a hard failure. -/
theorem parseQuoted_bad_escape (qs : List QChar) (hq : ∀ q ∈ qs, q.WF) (e : Char) (he : unesc e = none) (r : Str) :
    parseQuoted ('"' :: (qstr qs ++ '\\' :: e :: r)) = .failure := by
  simp only [parseQuoted, pchar, if_true, R.bind_ok, opt, parseString, strLoop_bad_escape qs hq e he]
  rw [cut_quote_qstr qs hq _ (Or.inr (by intro t h; cases h))]
  rfl

/-- a backslash as the last character of the text -/
theorem strLoop_dangling (qs : List QChar) (hq : ∀ q ∈ qs, q.WF) (acc : Str) (first : Bool) :
    strLoop (qstr qs ++ ['\\']) acc first = .error := by
  induction qs generalizing acc first with
  | nil => exact strLoop_bs_eof acc first
  | cons q qs ih =>
    rw [strLoop_step q (hq q (List.mem_cons_self ..)), ih (fun q' h' => hq q' (List.mem_cons_of_mem _ h'))]

theorem strLoop_eof (qs : List QChar) (hq : ∀ q ∈ qs, q.WF) (acc : Str) (first : Bool) :
    strLoop (qstr qs) acc first = .ok [] (acc ++ qval qs) := by
  induction qs generalizing acc first with
  | nil => rw [show qstr [] = [] from rfl, strLoop_nil]; simp [qval]
  | cons q qs ih =>
    have := strLoop_step q (hq q (List.mem_cons_self ..)) qs [] acc first
    simp only [List.append_nil] at this
    rw [this, ih (fun q' h' => hq q' (List.mem_cons_of_mem _ h'))]
    simp [qval_cons]

/-- **missing closing quote**: a quoted string that runs to the end of the text is a hard failure. -/
theorem parseQuoted_unterminated (qs : List QChar) (hq : ∀ q ∈ qs, q.WF) :
    parseQuoted ('"' :: qstr qs) = .failure := by
  simp [parseQuoted, pchar, opt, parseString, strLoop_eof qs hq, cut]

end VtModel.Vpl
