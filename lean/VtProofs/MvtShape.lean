import VtModel.Mvt
import VtProofs.Prim
import VtProofs.MvtCodec
/-! Whatever the decoders return has the shape the encoders can reproduce (`…Shape`); together with
one size bound on the re-encoded tile this gives `TileOk`, i.e. decode → encode → decode is stable
for every decodable byte string. -/
namespace VtProofs.MvtShape
open VtModel VtModel.Prim VtModel.Mvt VtProofs.Prim VtProofs.MvtCodec

theorem bind_eq_ok {α β} (x : Outcome α) (f : α → Outcome β) (b : β) :
    (x >>= f) = .ok b ↔ ∃ a, x = .ok a ∧ f a = .ok b := by
  cases x <;> simp

theorem U64_eq : U64 = 2 ^ 64 := by decide

/-! ### primitives -/

theorem readVarintAux_lt : ∀ (bs : Bytes) (pos value shift v : Nat) (r' : Reader), value < U64 →
    readVarintAux bs pos value shift = .ok (v, r') → v < U64 := by
  intro bs
  induction bs with
  | nil => intro pos value shift v r' _ h; simp [readVarintAux] at h
  | cons b t ih =>
    intro pos value shift v r' hv h
    simp only [readVarintAux] at h
    have hv' : value ||| ((b.toNat % 128) <<< shift) % U64 < U64 := by
      rw [U64_eq] at hv ⊢
      exact Nat.or_lt_two_pow hv (Nat.mod_lt _ (by decide))
    split at h
    · simp only [Outcome.ok.injEq, Prod.mk.injEq] at h
      rw [← h.1]; exact hv'
    · split at h
      · simp at h
      · exact ih _ _ _ _ _ hv' h

theorem readVarint_lt (r r' : Reader) (v : Nat) (h : readVarint r = .ok (v, r')) : v < U64 :=
  readVarintAux_lt _ _ _ _ _ _ (by decide) h

theorem readString_utf8 (r r' : Reader) (n : Nat) (s : Bytes) (h : readString r n = .ok (s, r')) :
    utf8Ok s = true := by
  unfold readString at h
  cases hb : readBytes r n with
  | ok p =>
    obtain ⟨s0, r0⟩ := p
    simp only [hb] at h
    split at h
    · rename_i hu
      simp only [Outcome.ok.injEq, Prod.mk.injEq] at h
      rw [← h.1]; exact hu
    · simp at h
  | err => simp [hb] at h
  | panic => simp [hb] at h

theorem readPbfString_utf8 (r r' : Reader) (s : Bytes) (h : readPbfString r = .ok (s, r')) : utf8Ok s = true := by
  unfold readPbfString at h
  cases hv : readVarint r with
  | ok p => obtain ⟨n, r1⟩ := p; simp only [hv] at h; exact readString_utf8 _ _ _ _ h
  | err => simp [hv] at h
  | panic => simp [hv] at h

theorem readFixed_len (k : Nat) (r r' : Reader) (b : Bytes) (h : readFixed k r = .ok (b, r')) : b.length = k := by
  unfold readFixed at h
  split at h
  · simp at h
  · simp only [Outcome.ok.injEq, Prod.mk.injEq] at h
    rw [← h.1]; simp; omega

theorem zigzagDecode_range (v : Nat) (h : v < U64) : -(2:Int)^63 ≤ zigzagDecode v ∧ zigzagDecode v < (2:Int)^63 := by
  unfold zigzagDecode U64 at *
  split <;> omega

theorem asI64_range (v : Nat) (h : v < U64) : -(2:Int)^63 ≤ asI64 v ∧ asI64 v < (2:Int)^63 := by
  unfold asI64 U64 at *
  split <;> omega

theorem readSVarint_range (r r' : Reader) (i : Int) (h : readSVarint r = .ok (i, r')) :
    -(2:Int)^63 ≤ i ∧ i < (2:Int)^63 := by
  unfold readSVarint at h
  cases hv : readVarint r with
  | ok p =>
    obtain ⟨v, r1⟩ := p
    simp only [hv, Outcome.ok.injEq, Prod.mk.injEq] at h
    rw [← h.1]; exact zigzagDecode_range v (readVarint_lt _ _ _ hv)
  | err => simp [hv] at h
  | panic => simp [hv] at h

/-! ### loop invariant -/

theorem whileRem_inv {σ} (step : σ → Reader → Outcome (σ × Reader)) (P : σ → Prop)
    (hstep : ∀ s r s' r', P s → step s r = .ok (s', r') → P s') :
    ∀ (n : Nat) (s : σ) (r : Reader) (s' : σ), r.rest.length ≤ n → P s → whileRem step s r = .ok s' → P s' := by
  intro n
  induction n with
  | zero =>
    intro s r s' hn hp h
    rw [whileRem] at h
    have : r.rest = [] := List.length_eq_zero_iff.mp (by omega)
    simp [this] at h
    rw [← h]; exact hp
  | succ n ih =>
    intro s r s' hn hp h
    rw [whileRem] at h
    split at h
    · simp at h; rw [← h]; exact hp
    · cases hs : step s r with
      | ok p =>
        obtain ⟨s1, r1⟩ := p
        simp only [hs] at h
        split at h
        · rename_i hlt
          exact ih s1 r1 s' (by omega) (hstep _ _ _ _ hp hs) h
        · simp at h
      | err => simp [hs] at h
      | panic => simp [hs] at h

theorem whileRem_inv' {σ} (step : σ → Reader → Outcome (σ × Reader)) (P : σ → Prop)
    (hstep : ∀ s r s' r', P s → step s r = .ok (s', r') → P s') (s : σ) (r : Reader) (s' : σ)
    (hp : P s) (h : whileRem step s r = .ok s') : P s' :=
  whileRem_inv step P hstep r.rest.length s r s' (Nat.le_refl _) hp h

/-! ### shapes -/

def ValueShape : Value → Prop
  | .str s => utf8Ok s = true
  | .float b => b.length = 4
  | .double b => b.length = 8
  | .int i => -(2:Int)^63 ≤ i ∧ i < (2:Int)^63
  | .uint n => n < U64
  | .bool _ => True

def FeatureShape (f : Feature) : Prop :=
  (∀ id, f.id = some id → id < U64) ∧ (∀ t ∈ f.tags, t < U32) ∧ f.gtype ≤ 3

def LayerShape (l : Layer) : Prop :=
  utf8Ok l.name = true ∧ (∀ f ∈ l.features, FeatureShape f) ∧ (∀ k ∈ l.keys, utf8Ok k = true) ∧
  (∀ v ∈ l.vals, ValueShape v) ∧ l.extent < U32 ∧ l.version < U32

def TileShape (t : Tile) : Prop := ∀ l ∈ t.layers, LayerShape l

theorem valueStep_shape (s : Option Value) (r : Reader) (s' : Option Value) (r' : Reader)
    (hp : ∀ v, s = some v → ValueShape v) (h : valueStep s r = .ok (s', r')) : ∀ v, s' = some v → ValueShape v := by
  unfold valueStep at h
  rw [bind_eq_ok] at h
  obtain ⟨⟨k, r1⟩, hk, h⟩ := h
  simp only at h
  split at h
  · -- string
    rw [bind_eq_ok] at h; obtain ⟨⟨n, r2⟩, hn, h⟩ := h
    simp only at h
    rw [bind_eq_ok] at h; obtain ⟨⟨sb, r3⟩, hs, h⟩ := h
    simp only [pure_eq, Outcome.ok.injEq, Prod.mk.injEq] at h
    intro v hv; rw [← h.1] at hv; cases hv
    exact readString_utf8 _ _ _ _ hs
  · rw [bind_eq_ok] at h; obtain ⟨⟨b, r2⟩, hb, h⟩ := h
    simp only [pure_eq, Outcome.ok.injEq, Prod.mk.injEq] at h
    intro v hv; rw [← h.1] at hv; cases hv
    exact readFixed_len 4 _ _ _ hb
  · rw [bind_eq_ok] at h; obtain ⟨⟨b, r2⟩, hb, h⟩ := h
    simp only [pure_eq, Outcome.ok.injEq, Prod.mk.injEq] at h
    intro v hv; rw [← h.1] at hv; cases hv
    exact readFixed_len 8 _ _ _ hb
  · rw [bind_eq_ok] at h; obtain ⟨⟨n, r2⟩, hn, h⟩ := h
    simp only [pure_eq, Outcome.ok.injEq, Prod.mk.injEq] at h
    intro v hv; rw [← h.1] at hv; cases hv
    exact asI64_range n (readVarint_lt _ _ _ hn)
  · rw [bind_eq_ok] at h; obtain ⟨⟨n, r2⟩, hn, h⟩ := h
    simp only [pure_eq, Outcome.ok.injEq, Prod.mk.injEq] at h
    intro v hv; rw [← h.1] at hv; cases hv
    exact readVarint_lt _ _ _ hn
  · rw [bind_eq_ok] at h; obtain ⟨⟨i, r2⟩, hi, h⟩ := h
    simp only [pure_eq, Outcome.ok.injEq, Prod.mk.injEq] at h
    intro v hv; rw [← h.1] at hv; cases hv
    exact readSVarint_range _ _ _ hi
  · rw [bind_eq_ok] at h; obtain ⟨⟨n, r2⟩, hn, h⟩ := h
    simp only [pure_eq, Outcome.ok.injEq, Prod.mk.injEq] at h
    intro v hv; rw [← h.1] at hv; cases hv
    trivial
  · simp at h

theorem decodeValue_shape (b : Bytes) (v : Value) (h : decodeValue b = .ok v) : ValueShape v := by
  unfold decodeValue at h
  rw [bind_eq_ok] at h
  obtain ⟨s, hs, h⟩ := h
  have := whileRem_inv' valueStep (fun s => ∀ v, s = some v → ValueShape v)
    (fun s r s' r' hp hst => valueStep_shape s r s' r' hp hst) none _ s (by simp) hs
  cases s with
  | none => simp at h
  | some v' => simp only [pure_eq, Outcome.ok.injEq] at h; subst h; exact this v' rfl

/-! ### features -/

theorem readPackedU32_lt (r r' : Reader) (l : List Nat) (h : readPackedU32 r = .ok (l, r')) : ∀ t ∈ l, t < U32 := by
  unfold readPackedU32 at h
  cases hs : readPbfSub r with
  | ok p =>
    obtain ⟨sub, r1⟩ := p
    simp only [hs] at h
    cases hw : whileRem packedStep [] (Reader.ofBytes sub) with
    | ok l' =>
      simp only [hw, Outcome.ok.injEq, Prod.mk.injEq] at h
      rw [← h.1]
      refine whileRem_inv' packedStep (fun acc => ∀ t ∈ acc, t < U32) ?_ [] _ l' (by simp) hw
      intro acc rr acc' rr' hp hst
      unfold packedStep at hst
      cases hv : readVarint rr with
      | ok q =>
        obtain ⟨v, r2⟩ := q
        simp only [hv, Outcome.ok.injEq, Prod.mk.injEq] at hst
        rw [← hst.1]
        intro t ht
        rcases List.mem_append.mp ht with ht | ht
        · exact hp t ht
        · simp at ht; subst ht; exact Nat.mod_lt _ (by decide)
      | err => simp [hv] at hst
      | panic => simp [hv] at hst
    | err => simp [hw] at h
    | panic => simp [hw] at h
  | err => simp [hs] at h
  | panic => simp [hs] at h

theorem geomType_le (v : Nat) : geomType v ≤ 3 := by
  unfold geomType; split <;> omega

theorem featureStep_shape (f : Feature) (r : Reader) (f' : Feature) (r' : Reader)
    (hp : FeatureShape f) (h : featureStep f r = .ok (f', r')) : FeatureShape f' := by
  obtain ⟨h1, h2, h3⟩ := hp
  unfold featureStep at h
  rw [bind_eq_ok] at h
  obtain ⟨⟨k, r1⟩, hk, h⟩ := h
  simp only at h
  split at h
  · rw [bind_eq_ok] at h; obtain ⟨⟨v, r2⟩, hv, h⟩ := h
    simp only [pure_eq, Outcome.ok.injEq, Prod.mk.injEq] at h
    rw [← h.1]
    refine ⟨?_, h2, h3⟩
    intro id hid
    simp at hid; subst hid
    exact readVarint_lt _ _ _ hv
  · rw [bind_eq_ok] at h; obtain ⟨⟨l, r2⟩, hl, h⟩ := h
    simp only [pure_eq, Outcome.ok.injEq, Prod.mk.injEq] at h
    rw [← h.1]
    exact ⟨h1, readPackedU32_lt _ _ _ hl, h3⟩
  · rw [bind_eq_ok] at h; obtain ⟨⟨v, r2⟩, hv, h⟩ := h
    simp only [pure_eq, Outcome.ok.injEq, Prod.mk.injEq] at h
    rw [← h.1]
    exact ⟨h1, h2, geomType_le v⟩
  · rw [bind_eq_ok] at h; obtain ⟨⟨b, r2⟩, hb, h⟩ := h
    simp only [pure_eq, Outcome.ok.injEq, Prod.mk.injEq] at h
    rw [← h.1]
    exact ⟨h1, h2, h3⟩
  · simp at h

theorem decodeFeature_shape (b : Bytes) (f : Feature) (h : decodeFeature b = .ok f) : FeatureShape f := by
  unfold decodeFeature at h
  exact whileRem_inv' featureStep FeatureShape (fun s r s' r' hp hst => featureStep_shape s r s' r' hp hst)
    Feature.empty _ f ⟨by simp [Feature.empty], by simp [Feature.empty], by simp [Feature.empty]⟩ h

/-! ### layers and tiles -/

theorem layerStep_shape (s : LayerSt) (r : Reader) (s' : LayerSt) (r' : Reader)
    (hp : LayerShape s.l) (h : layerStep s r = .ok (s', r')) : LayerShape s'.l := by
  obtain ⟨h1, h2, h3, h4, h5, h6⟩ := hp
  unfold layerStep at h
  rw [bind_eq_ok] at h
  obtain ⟨⟨k, r1⟩, hk, h⟩ := h
  simp only at h
  split at h
  · rw [bind_eq_ok] at h; obtain ⟨⟨n, r2⟩, hn, h⟩ := h
    simp only [pure_eq, Outcome.ok.injEq, Prod.mk.injEq] at h
    rw [← h.1]
    exact ⟨readPbfString_utf8 _ _ _ hn, h2, h3, h4, h5, h6⟩
  · rw [bind_eq_ok] at h; obtain ⟨⟨sub, r2⟩, hsub, h⟩ := h
    simp only at h
    rw [bind_eq_ok] at h; obtain ⟨f, hf, h⟩ := h
    simp only [pure_eq, Outcome.ok.injEq, Prod.mk.injEq] at h
    rw [← h.1]
    refine ⟨h1, ?_, h3, h4, h5, h6⟩
    intro x hx
    rcases List.mem_append.mp hx with hx | hx
    · exact h2 x hx
    · simp at hx; subst hx; exact decodeFeature_shape _ _ hf
  · rw [bind_eq_ok] at h; obtain ⟨⟨n, r2⟩, hn, h⟩ := h
    simp only [pure_eq, Outcome.ok.injEq, Prod.mk.injEq] at h
    rw [← h.1]
    refine ⟨h1, h2, ?_, h4, h5, h6⟩
    intro x hx
    rcases List.mem_append.mp hx with hx | hx
    · exact h3 x hx
    · simp at hx; subst hx; exact readPbfString_utf8 _ _ _ hn
  · rw [bind_eq_ok] at h; obtain ⟨⟨sub, r2⟩, hsub, h⟩ := h
    simp only at h
    rw [bind_eq_ok] at h; obtain ⟨v, hv, h⟩ := h
    simp only [pure_eq, Outcome.ok.injEq, Prod.mk.injEq] at h
    rw [← h.1]
    refine ⟨h1, h2, h3, ?_, h5, h6⟩
    intro x hx
    rcases List.mem_append.mp hx with hx | hx
    · exact h4 x hx
    · simp at hx; subst hx; exact decodeValue_shape _ _ hv
  · rw [bind_eq_ok] at h; obtain ⟨⟨v, r2⟩, hv, h⟩ := h
    simp only [pure_eq, Outcome.ok.injEq, Prod.mk.injEq] at h
    rw [← h.1]
    exact ⟨h1, h2, h3, h4, Nat.mod_lt _ (by decide), h6⟩
  · rw [bind_eq_ok] at h; obtain ⟨⟨v, r2⟩, hv, h⟩ := h
    simp only [pure_eq, Outcome.ok.injEq, Prod.mk.injEq] at h
    rw [← h.1]
    exact ⟨h1, h2, h3, h4, h5, Nat.mod_lt _ (by decide)⟩
  · simp at h

theorem decodeLayer_shape (b : Bytes) (l : Layer) (h : decodeLayer b = .ok l) : LayerShape l := by
  unfold decodeLayer at h
  rw [bind_eq_ok] at h
  obtain ⟨s, hs, h⟩ := h
  have hinit : LayerShape LayerSt.init.l := by
    refine ⟨by decide, ?_, ?_, ?_, by decide, by decide⟩ <;> simp [LayerSt.init]
  have := whileRem_inv' layerStep (fun s => LayerShape s.l)
    (fun s r s' r' hp hst => layerStep_shape s r s' r' hp hst) LayerSt.init _ s hinit hs
  split at h
  · simp only [pure_eq, Outcome.ok.injEq] at h; rw [← h]; exact this
  · simp at h

theorem tileStep_shape (ls : List Layer) (r : Reader) (ls' : List Layer) (r' : Reader)
    (hp : ∀ l ∈ ls, LayerShape l) (h : tileStep ls r = .ok (ls', r')) : ∀ l ∈ ls', LayerShape l := by
  unfold tileStep at h
  rw [bind_eq_ok] at h
  obtain ⟨⟨k, r1⟩, hk, h⟩ := h
  simp only at h
  split at h
  · rw [bind_eq_ok] at h; obtain ⟨⟨sub, r2⟩, hsub, h⟩ := h
    simp only at h
    rw [bind_eq_ok] at h; obtain ⟨l, hl, h⟩ := h
    simp only [pure_eq, Outcome.ok.injEq, Prod.mk.injEq] at h
    rw [← h.1]
    intro x hx
    rcases List.mem_append.mp hx with hx | hx
    · exact hp x hx
    · simp at hx; subst hx; exact decodeLayer_shape _ _ hl
  · simp at h

/-- every tile the decoder returns has the decodable shape -/
theorem decodeTile_shape (b : Bytes) (t : Tile) (h : decodeTile b = .ok t) : TileShape t := by
  unfold decodeTile at h
  rw [bind_eq_ok] at h
  obtain ⟨ls, hls, h⟩ := h
  simp only [pure_eq, Outcome.ok.injEq] at h
  rw [← h]
  exact whileRem_inv' tileStep (fun ls => ∀ l ∈ ls, LayerShape l)
    (fun s r s' r' hp hst => tileStep_shape s r s' r' hp hst) [] _ ls (by simp) hls

/-! ### shape + one size bound ⇒ `…Ok` -/

theorem len_le_flatMap {α} (enc : α → Bytes) : ∀ (xs : List α) (x : α), x ∈ xs →
    (enc x).length ≤ (xs.flatMap enc).length := by
  intro xs
  induction xs with
  | nil => intro x hx; simp at hx
  | cons y t ih =>
    intro x hx
    simp only [List.flatMap_cons, List.length_append]
    rcases List.mem_cons.mp hx with e | e
    · subst e; omega
    · have := ih x e; omega

theorem blob_len_le (b : Bytes) : b.length ≤ (writePbfBlob b).length := by
  simp [writePbfBlob]

theorem valueOk_of_shape (v : Value) (hs : ValueShape v) (hl : (encodeValue v).length < U64) : ValueOk v := by
  cases v with
  | str s =>
    refine ⟨hs, ?_⟩
    have : s.length ≤ (encodeValue (.str s)).length := by
      simp only [encodeValue, List.length_append]
      have := blob_len_le s
      omega
    omega
  | float b => exact hs
  | double b => exact hs
  | int i => exact hs
  | uint n => exact hs
  | bool b => trivial

theorem featureOk_of_shape (f : Feature) (hs : FeatureShape f) (hl : (encodeFeature f).length < U64) : FeatureOk f :=
  ⟨hs.1, hs.2.1, hs.2.2, hl⟩

theorem layerOk_of_shape (l : Layer) (hs : LayerShape l) (hl : (encodeLayer l).length < U64) : LayerOk l := by
  obtain ⟨h1, h2, h3, h4, h5, h6⟩ := hs
  have hparts := encodeLayer_parts l
  have hlen : (encodeLayer l).length = (writePbfKey 1 2 ++ writePbfBlob l.name).length + ((l.features.flatMap encF).length +
      ((l.keys.flatMap encK).length + ((l.vals.flatMap encV).length + ((extentPart l).length + (versionPart l).length)))) := by
    rw [hparts]; simp only [List.length_append, List.length_nil]; omega
  refine ⟨h1, ?_, h3, ?_, h5, h6, hl⟩
  · intro f hf
    apply featureOk_of_shape f (h2 f hf)
    have h7 := len_le_flatMap encF l.features f hf
    have h8 : (encodeFeature f).length ≤ (encF f).length := by
      simp only [encF, List.length_append]; have := blob_len_le (encodeFeature f); omega
    omega
  · intro v hv
    apply valueOk_of_shape v (h4 v hv)
    have h7 := len_le_flatMap encV l.vals v hv
    have h8 : (encodeValue v).length ≤ (encV v).length := by
      simp only [encV, List.length_append]; have := blob_len_le (encodeValue v); omega
    omega

theorem tileOk_of_shape (t : Tile) (hs : TileShape t) (hl : (encodeTile t).length < U64) : TileOk t := by
  refine ⟨?_, hl⟩
  intro l hlm
  apply layerOk_of_shape l (hs l hlm)
  have h7 := len_le_flatMap encL t.layers l hlm
  have h8 : (encodeLayer l).length ≤ (encL l).length := by
    simp only [encL, List.length_append]; have := blob_len_le (encodeLayer l); omega
  have h9 : encodeTile t = t.layers.flatMap encL := by simp only [encodeTile]; rfl
  rw [h9] at hl
  omega

/-- the decoder only yields tiles it can re-encode and read back – given only that the re-encoded
    tile is shorter than 2^64 bytes (true of every byte string that fits a 64-bit address space) -/
theorem decodeTile_ok (b : Bytes) (t : Tile) (h : decodeTile b = .ok t) (hl : (encodeTile t).length < U64) :
    TileOk t :=
  tileOk_of_shape t (decodeTile_shape b t h) hl

end VtProofs.MvtShape
