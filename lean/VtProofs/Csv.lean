import VtModel.Csv
/-! The CSV lexer reads back what the canonical renderer writes. -/
namespace VtProofs.Csv
open VtModel VtModel.Prim VtModel.Csv

/-- an unquoted cell is taken verbatim up to the first terminator: nothing trimmed, nothing altered -/
theorem simpleCell_append (sep : UInt8) : ∀ (c t : Bytes), (∀ b ∈ c, isTerm sep b = false) →
    (t = [] ∨ ∃ b r, t = b :: r ∧ isTerm sep b = true) → simpleCell sep (c ++ t) = (c, t) := by
  intro c
  induction c with
  | nil =>
    intro t _ ht
    rcases ht with rfl | ⟨b, r, rfl, hb⟩
    · rfl
    · simp [simpleCell, hb]
  | cons x xs ih =>
    intro t hc ht
    have hx : isTerm sep x = false := hc x (by simp)
    simp only [List.cons_append, simpleCell, hx]
    rw [ih t (fun b hb => hc b (by simp [hb])) ht]
    simp

theorem quotedCell_cons_ne (x : UInt8) (l : Bytes) (hx : (x == 34) = false) (hl : l ≠ []) :
    quotedCell (x :: l) = match quotedCell l with
      | some (a, b) => some (x :: a, b)
      | none => none := by
  cases l with
  | nil => exact absurd rfl hl
  | cons y r => simp only [quotedCell, hx]; rfl

theorem quotedCell_escape : ∀ (c t : Bytes), (∀ b r, t = b :: r → (b == 34) = false) →
    quotedCell (escape c ++ 34 :: t) = some (c, t) := by
  intro c
  induction c with
  | nil =>
    intro t ht
    cases t with
    | nil => simp [escape, quotedCell]
    | cons x r =>
      have := ht x r rfl
      simp [escape, quotedCell, this]
  | cons x xs ih =>
    intro t ht
    by_cases hx : (x == 34) = true
    · simp only [escape, hx, if_true, List.cons_append]
      have h34 : ((34 : UInt8) == 34) = true := by decide
      simp only [quotedCell, h34, if_true]
      rw [ih t ht]
      have : x = 34 := by simpa using hx
      simp [this]
    · have hx' : (x == 34) = false := by simpa using hx
      have he : escape (x :: xs) = x :: escape xs := by simp [escape, hx']
      rw [he, List.cons_append, quotedCell_cons_ne x _ hx' (by simp), ih t ht]

/-- the separator is none of `"`, CR, LF -/
def SepOk (sep : UInt8) : Prop := (sep == 34) = false ∧ (sep == 13) = false ∧ (sep == 10) = false

/-- the two line ends -/
def EolOk (eol : Bytes) : Prop := eol = [10] ∨ eol = [13, 10]

theorem term_ne_quote (sep : UInt8) (hs : SepOk sep) (b : UInt8) (h : isTerm sep b = true) : (b == 34) = false := by
  obtain ⟨h1, _, _⟩ := hs
  simp only [isTerm, Bool.or_eq_true, beq_iff_eq] at h
  rcases h with (h | h) | h
  · subst h; exact h1
  · subst h; decide
  · subst h; decide

theorem not_needsQuote (sep : UInt8) (c : Bytes) (h : needsQuote sep c = false) :
    ∀ b ∈ c, isTerm sep b = false ∧ (b == 34) = false := by
  intro b hb
  simp only [needsQuote, List.any_eq_false, Bool.or_eq_true, not_or] at h
  have := h b hb
  exact ⟨by simpa using this.1, by simpa using this.2⟩

/-- a rendered cell in front of a terminator is read back exactly -/
theorem cell_render (sep : UInt8) (hs : SepOk sep) (c t : Bytes) (hu : utf8Ok c = true)
    (ht : ∃ b r, t = b :: r ∧ isTerm sep b = true) : cell sep (renderCell sep c ++ t) = .ok (c, t) := by
  obtain ⟨tb, tr, rfl, htb⟩ := ht
  unfold renderCell
  cases hq : needsQuote sep c with
  | true =>
    simp only [if_true, List.cons_append, cell]
    have h34 : ((34 : UInt8) == 34) = true := by decide
    simp only [h34, if_true]
    have : escape c ++ [34] ++ tb :: tr = escape c ++ 34 :: (tb :: tr) := by simp
    rw [this, quotedCell_escape c (tb :: tr) (by
      intro b r e
      cases e
      exact term_ne_quote sep hs _ htb)]
    simp [hu]
  | false =>
    simp only [Bool.false_eq_true, if_false]
    have hc := not_needsQuote sep c hq
    have hsimple : simpleCell sep (c ++ tb :: tr) = (c, tb :: tr) :=
      simpleCell_append sep c (tb :: tr) (fun b hb => (hc b hb).1) (Or.inr ⟨tb, tr, rfl, htb⟩)
    cases c with
    | nil =>
      simp only [List.nil_append, cell, term_ne_quote sep hs _ htb]
      simp only [List.nil_append] at hsimple
      simp [hsimple, hu]
    | cons x xs =>
      have hx := (hc x (by simp)).2
      simp only [List.cons_append, cell, hx]
      simp only [List.cons_append] at hsimple
      simp [hsimple, hu]

theorem afterCell_eol (sep : UInt8) (eol t : Bytes) (he : EolOk eol) : afterCell sep (eol ++ t) = .eol t := by
  rcases he with rfl | rfl
  · simp [afterCell]
  · simp [afterCell]

theorem afterCell_sep (sep : UInt8) (hs : SepOk sep) (t : Bytes) : afterCell sep (sep :: t) = .sep t := by
  obtain ⟨_, h2, h3⟩ := hs
  simp [afterCell, h2, h3]

theorem eol_head_term (sep : UInt8) (eol t : Bytes) (he : EolOk eol) :
    ∃ b r, eol ++ t = b :: r ∧ isTerm sep b = true := by
  rcases he with rfl | rfl
  · exact ⟨10, t, rfl, by simp [isTerm]⟩
  · exact ⟨13, 10 :: t, rfl, by simp [isTerm]⟩

/-! ### records and tables -/

def CellsOk (row : List Bytes) : Prop := ∀ c ∈ row, utf8Ok c = true

theorem renderRow_ne_nil (sep : UInt8) (eol : Bytes) (he : EolOk eol) (row : List Bytes) :
    0 < (renderRow sep eol row).length := by
  have hpos : 0 < eol.length := by rcases he with rfl | rfl <;> simp
  cases row with
  | nil => simpa [renderRow] using hpos
  | cons c t => cases t <;> simp [renderRow] <;> omega

/-- one rendered record, in front of arbitrary further input, is consumed as exactly its cells -/
theorem lexRows_row (sep : UInt8) (hs : SepOk sep) (eol : Bytes) (he : EolOk eol) :
    ∀ (cs : List Bytes) (c : Bytes) (rest : Bytes) (fields : List Bytes) (fresh : Bool) (acc : List (List Bytes)),
    CellsOk (c :: cs) →
    lexRows sep (renderRow sep eol (c :: cs) ++ rest) fields fresh acc =
      (if (fields ++ c :: cs) == [[]] then lexRows sep rest [] false acc
       else lexRows sep rest [] true ((fields ++ c :: cs) :: acc)) := by
  intro cs
  induction cs with
  | nil =>
    intro c rest fields fresh acc hok
    have hu : utf8Ok c = true := hok c (by simp)
    rw [lexRows]
    have hne : (renderRow sep eol [c] ++ rest).isEmpty = false := by
      have h1 := renderRow_ne_nil sep eol he [c]
      cases h : renderRow sep eol [c] ++ rest with
      | nil =>
        have h2 := congrArg List.length h
        simp only [List.length_append, List.length_nil] at h2
        omega
      | cons _ _ => rfl
    simp only [hne, Bool.and_false, Bool.false_eq_true, if_false]
    have hrow : renderRow sep eol [c] ++ rest = renderCell sep c ++ (eol ++ rest) := by simp [renderRow]
    rw [hrow, cell_render sep hs c (eol ++ rest) hu (eol_head_term sep eol rest he)]
    simp only [afterCell_eol sep eol rest he]
    have hlen : rest.length < (renderCell sep c ++ (eol ++ rest)).length := by
      have : 0 < eol.length := by rcases he with rfl | rfl <;> simp
      simp only [List.length_append]; omega
    simp only [hlen, if_true]
  | cons d ds ih =>
    intro c rest fields fresh acc hok
    have hu : utf8Ok c = true := hok c (by simp)
    rw [lexRows]
    have hrow : renderRow sep eol (c :: d :: ds) ++ rest = renderCell sep c ++ (sep :: (renderRow sep eol (d :: ds) ++ rest)) := by
      simp [renderRow]
    have hne : (renderRow sep eol (c :: d :: ds) ++ rest).isEmpty = false := by
      rw [hrow]; cases renderCell sep c <;> rfl
    simp only [hne, Bool.and_false, Bool.false_eq_true, if_false]
    rw [hrow, cell_render sep hs c _ hu ⟨sep, _, rfl, by simp [isTerm]⟩]
    simp only [afterCell_sep sep hs]
    have hlen : (renderRow sep eol (d :: ds) ++ rest).length < (renderCell sep c ++ (sep :: (renderRow sep eol (d :: ds) ++ rest))).length := by
      simp only [List.length_append, List.length_cons]; omega
    simp only [hlen, if_true]
    rw [ih d rest (fields ++ [c]) false acc (fun x hx => hok x (by simp [hx]))]
    simp only [List.append_assoc, List.singleton_append]

/-- a table the lexer can represent: every record has at least one cell, is not a lone empty cell
    (that is a blank line), and holds UTF-8 -/
def RowsOk (rows : List (List Bytes)) : Prop :=
  ∀ r ∈ rows, r ≠ [] ∧ r ≠ [[]] ∧ CellsOk r

theorem lexRows_render (sep : UInt8) (hs : SepOk sep) (eol : Bytes) (he : EolOk eol) :
    ∀ (rows : List (List Bytes)) (acc : List (List Bytes)), RowsOk rows →
      lexRows sep (render sep eol rows) [] true acc = .ok (acc.reverse ++ rows) := by
  intro rows
  induction rows with
  | nil => intro acc _; rw [lexRows]; simp [render]
  | cons row rest ih =>
    intro acc hok
    obtain ⟨hne, hnb, hcells⟩ := hok row (by simp)
    cases row with
    | nil => exact absurd rfl hne
    | cons c cs =>
      have hr : render sep eol ((c :: cs) :: rest) = renderRow sep eol (c :: cs) ++ render sep eol rest := by
        simp [render]
      rw [hr, lexRows_row sep hs eol he cs c _ [] true acc hcells]
      have hb : (c :: cs == [[]]) = false := by
        cases h : (c :: cs == [[]]) with
        | false => rfl
        | true => exact absurd (by simpa using h) hnb
      rw [List.nil_append, hb]
      simp only [Bool.false_eq_true, if_false]
      rw [ih _ (fun r hr => hok r (by simp [hr]))]
      simp

end VtProofs.Csv

