import VtModel.Source
import VtProofs.Source
import VtProofs.BBoxGrid
import VtProofs.VersatilesWrite
import VtProofs.PMTilesWrite
import VtProofs.TarRead
/-!
Capstone: the hypotheses of the container round-trip theorems are discharged from the other
properties' notions — a `Good` source (C02: the bbox stream is, for every box, exactly what the
lookups deliver, no duplicates), `Covers` (C03: the advertised coverage contains every returnable
tile) and the 256-grid partition (C15) — and the writers' grid is the real `iter_bbox_grid(256)`.
-/
namespace VtProofs.Capstone
open VtModel VtModel.Fmt
open VtProofs.VersatilesGrid VtProofs.VersatilesWrite

/-! ### the writers' grid is `iter_bbox_grid(256)` -/

theorem flatMap_congr' {α β} {l : List α} {f g : α → List β} (h : ∀ a ∈ l, f a = g a) : l.flatMap f = l.flatMap g := by
  induction l with
  | nil => rfl
  | cons a l ih =>
    simp only [List.flatMap_cons, h a (by simp), ih (fun x hx => h x (by simp [hx]))]

theorem cellOf_eq (b : BBox) (ok : BoxOk b) (bx by_ : Nat)
    (h1 : b.xmin / 256 ≤ bx) (h2 : bx ≤ b.xmax / 256) (h3 : b.ymin / 256 ≤ by_) (h4 : by_ ≤ b.ymax / 256) :
    BBox.cellOf b 256 (bx, by_) = cell b bx by_ := by
  have := ok.x; have := ok.y; have hxm := ok.xm; have hym := ok.ym
  have hmv : b.maxv = 2 ^ b.level - 1 := rfl
  have hp : 0 < 2 ^ b.level := Nat.two_pow_pos _
  unfold BBox.cellOf
  simp only
  have hne : (!(⟨b.level, bx * 256, by_ * 256, min (bx * 256 + 256 - 1) b.maxv, min (by_ * 256 + 256 - 1) b.maxv⟩ : BBox).isEmpty
      && !b.isEmpty) = true := by
    simp only [BBox.isEmpty, Bool.and_eq_true, Bool.not_eq_true', Bool.or_eq_false_iff, decide_eq_false_iff_not]
    refine ⟨⟨?_, ?_⟩, ⟨?_, ?_⟩⟩ <;> omega
  rw [if_pos hne]
  unfold cell
  congr 1 <;> omega

/-- **bridge**: on a valid non-empty level box the model grid of the writers is exactly what
    `TileBBox::iter_bbox_grid(256)` returns (no panic, no empty cell) -/
theorem grid256_is_iterBBoxGrid (b : BBox) (ok : BoxOk b) :
    b.iterBBoxGrid 256 = .ok (Versatiles.grid256 b) := by
  have hxm := ok.xm; have hym := ok.ym
  have hp : 0 < 2 ^ b.level := Nat.two_pow_pos _
  have hpow : 2 ^ b.level ≤ 2 ^ 31 := Nat.pow_le_pow_right (by omega) ok.lvl
  have hU : U32 = 2 ^ 32 := by decide
  have hr : BBox.InRange b := by unfold BBox.InRange BBox.maxv; omega
  have hx : b.xmax < U32 := by omega
  have hy : b.ymax < U32 := by omega
  let mb : BBox := { b with xmin := b.xmin / 256, ymin := b.ymin / 256, xmax := b.xmax / 256, ymax := b.ymax / 256 }
  have hscale : b.scaleDown 256 = .ok mb := by unfold BBox.scaleDown; simp [mb]
  have hcells : ∀ c ∈ mb.iterCoords, BBox.gridCell b 256 c = .ok (BBox.cellOf b 256 c) := by
    intro c hc
    have hm := (BBox.mem_iterCoords mb c.1 c.2).mp hc
    simp only [BBox.mem, mb] at hm
    apply BBox.gridCell_ok b ok.lvl hr 256 (by omega) (by unfold U32; omega) hx hy <;> omega
  unfold BBox.iterBBoxGrid
  simp only [show (256 : Nat) ≠ 0 by omega, if_false, hscale, BBox.mapM_ok _ _ _ hcells]
  congr 1
  -- every cell is non-empty and equals the model cell
  have hmbx : mb.xmin ≤ mb.xmax := Nat.div_le_div_right ok.x
  have hmap : mb.iterCoords.map (BBox.cellOf b 256) = Versatiles.grid256 b := by
    unfold BBox.iterCoords Versatiles.grid256
    have hnot : ¬ (mb.xmax < mb.xmin) := by omega
    simp only [hnot, if_false, List.map_flatMap, List.map_map]
    apply flatMap_congr'
    intro by_ hby
    apply List.map_congr_left
    intro bx hbx
    rw [List.mem_range'_1] at hby hbx
    simp only [mb] at hby hbx
    simp only [Function.comp]
    rw [cellOf_eq b ok bx by_ (by omega) (by omega) (by omega) (by omega)]
    rfl
  rw [hmap]
  apply List.filter_eq_self.2
  intro c hc
  have hcok := cellOk_of_grid ok hc
  have := hcok.x; have := hcok.y
  simp only [BBox.isEmpty, Bool.not_eq_true', Bool.or_eq_false_iff, decide_eq_false_iff_not]
  omega

/-! ### a `Good`, covering source satisfies the writers' assumptions -/

/-- what a lookup returns, as an option (errors count as "no tile") -/
def lookupOpt (s : Src Bytes) (c : Coord) : Option Bytes :=
  match s.lookup c with
  | .ok (some p) => some p
  | _ => none

/-- the collected bbox stream (a failing stream is empty; excluded by `Good`) -/
def streamOf (s : Src Bytes) (b : BBox) : List (Coord × Bytes) :=
  match s.stream b with
  | .ok l => l
  | _ => []

/-- `bbox_pyramid.iter_levels()` -/
def levelsOf (s : Src Bytes) : List BBox := Pyramid.iterLevels s.cover

theorem lookupOpt_some {s : Src Bytes} {c : Coord} {p : Bytes} : lookupOpt s c = some p ↔ s.lookup c = .ok (some p) := by
  unfold lookupOpt
  cases h : s.lookup c with
  | ok o => cases o <;> simp
  | err => simp
  | panic => simp

theorem levels_boxOk {s : Src Bytes} (hw : s.cover.WF) : ∀ L ∈ levelsOf s, BoxOk L := by
  intro L hL
  unfold levelsOf Pyramid.iterLevels at hL
  rw [List.mem_filter] at hL
  obtain ⟨hmem, hne⟩ := hL
  obtain ⟨z, hz, rfl⟩ := List.getElem_of_mem hmem
  obtain ⟨hlv, hwf⟩ := hw.2 z hz
  have hne' : (s.cover[z]'hz).isEmpty = false := by simpa using hne
  have := (BBox.not_isEmpty_iff _).1 hne'
  exact ⟨hwf.1, this.1, this.2, hwf.2.1, hwf.2.2⟩

theorem levels_sorted {s : Src Bytes} (hw : s.cover.WF) : (levelsOf s).Pairwise (fun a b => a.level < b.level) := by
  unfold levelsOf Pyramid.iterLevels
  apply List.Pairwise.filter
  rw [List.pairwise_iff_getElem]
  intro i j hi hj hij
  rw [(hw.2 i hi).1, (hw.2 j hj).1]
  exact hij

theorem cell_wf {L c : BBox} (ok : BoxOk L) (hc : c ∈ Versatiles.grid256 L) : c.WF := by
  have := cellOk_of_grid ok hc
  exact ⟨this.lvl, this.xm, this.ym⟩

/-- the facts about one cell's stream, from C02's `StreamOK` -/
theorem cell_stream {s : Src Bytes} (hg : Good s) {c : BBox} (hcw : c.WF) :
    (∀ t ∈ streamOf s c, c.contains2 t.1.1 t.1.2.1 = true ∧ t.1.2.2 = c.level ∧ s.lookup t.1 = .ok (some t.2)) ∧
    ((streamOf s c).map (·.1)).Nodup ∧
    (∀ x y b, c.contains2 x y = true → s.lookup (x, y, c.level) = .ok (some b) → ((x, y, c.level), b) ∈ streamOf s c) := by
  obtain ⟨l, hl, hnd, hperm⟩ := hg.stream_ok c hcw
  have hso : streamOf s c = l := by unfold streamOf; rw [hl]
  rw [hso]
  refine ⟨?_, hnd, ?_⟩
  · intro t ht
    have := (mem_expected s c t).1 (hperm.mem_iff.1 ht)
    obtain ⟨h1, h2⟩ := this
    have h3 := (mem_coords3 c t.1).1 h1
    exact ⟨(BBox.contains2_iff c _ _).2 h3.2, h3.1, h2⟩
  · intro x y b hcon hlk
    apply hperm.mem_iff.2
    apply (mem_expected s c ((x, y, c.level), b)).2
    exact ⟨(mem_coords3 c (x, y, c.level)).2 ⟨rfl, (BBox.contains2_iff c x y).1 hcon⟩, hlk⟩

theorem covered_of_covers {s : Src Bytes} (hw : s.cover.WF) (hc : Covers s) :
    ∀ x y z b, lookupOpt s (x, y, z) = some b → ∃ L ∈ levelsOf s, L.level = z ∧ L.contains2 x y = true := by
  intro x y z b h
  have hlk := lookupOpt_some.1 h
  have hh := hc (x, y, z) b hlk
  unfold Pyramid.has Pyramid.containsCoord at hh
  simp only at hh
  cases hp : s.cover[z]? with
  | none => rw [hp] at hh; simp at hh
  | some L =>
    rw [hp] at hh
    simp only at hh
    obtain ⟨hz, hL⟩ := List.getElem?_eq_some_iff.1 hp
    have h3 := (BBox.contains3_iff L x y z).1 hh
    have hne : L.isEmpty = false := by
      cases he : L.isEmpty with
      | false => rfl
      | true => exact absurd h3.2 ((BBox.isEmpty_iff L).1 he x y)
    refine ⟨L, ?_, h3.1.symm, (BBox.contains2_iff L x y).2 h3.2⟩
    unfold levelsOf Pyramid.iterLevels
    rw [List.mem_filter]
    exact ⟨by rw [← hL]; exact List.getElem_mem hz, by simp [hne]⟩

/-- payloads fit the 32-bit length field of the versatiles tile index -/
def SmallPayloads (s : Src Bytes) : Prop := ∀ c p, s.lookup c = .ok (some p) → p.length < 2 ^ 32

/-- **C02 + C03 + C15 ⇒ the PMTiles / versatiles writers' assumptions** -/
theorem goodStream_of_good {s : Src Bytes} (hg : Good s) (hc : Covers s) (hs : SmallPayloads s) :
    VtProofs.PMTilesWrite.GoodStream (levelsOf s) (streamOf s) (lookupOpt s) := by
  have hw := hg.cover_wf
  have hok := levels_boxOk hw
  refine ⟨hok, levels_sorted hw, ?_, ?_, ?_, covered_of_covers hw hc⟩
  · intro L hL c hcL
    have ⟨a1, a2, _⟩ := cell_stream hg (cell_wf (hok L hL) hcL)
    exact ⟨fun t ht => ⟨(a1 t ht).1, (a1 t ht).2.1⟩, a2, fun t ht => hs _ _ (a1 t ht).2.2⟩
  · intro L hL c hcL t ht
    have ⟨a1, _, _⟩ := cell_stream hg (cell_wf (hok L hL) hcL)
    exact lookupOpt_some.2 (a1 t ht).2.2
  · intro L hL c hcL x y b hcon hl
    have ⟨_, _, a3⟩ := cell_stream hg (cell_wf (hok L hL) hcL)
    exact a3 x y b hcon (lookupOpt_some.1 hl)

/-! ### end to end: convert a source into a container and read it back -/

/-- the versatiles writer's view of a source -/
def vsource (s : Src Bytes) (fmt : TileFormat) (comp : TComp) (b0 b1 b2 b3 : Int) (metaB : Bytes) : Versatiles.Source :=
  ⟨fmt, comp, b0, b1, b2, b3, metaB, levelsOf s, streamOf s⟩

/-- the PMTiles writer's view of a source -/
def psource (s : Src Bytes) (fmt : TileFormat) (comp : TComp) (g : Int × Int × Int × Int × Nat × Int × Int) (metaB : Bytes) :
    PMTiles.Source :=
  ⟨fmt, comp, g.1, g.2.1, g.2.2.1, g.2.2.2.1, g.2.2.2.2.1, g.2.2.2.2.2.1, g.2.2.2.2.2.2, metaB, levelsOf s, streamOf s⟩

/-- **C01 ∘ C02 ∘ C03 ∘ C15 (versatiles)**: for every `Good` source (the bbox stream of every box is
    exactly the lookups, C02) whose coverage contains every returnable tile (C03), written through the
    256-grid of `iter_bbox_grid` (C15), the reader of the written file answers every valid coordinate
    like the source: the payload if it is non-empty, `None` otherwise. -/
theorem convert_roundtrip_versatiles (K : Inflate) (enc : Bytes → Bytes) (s : Src Bytes)
    (hg : Good s) (hc : Covers s) (hs : SmallPayloads s)
    (fmt : TileFormat) (comp : TComp) (b0 b1 b2 b3 : Int) (metaB : Bytes)
    (hb : i32ok b0 ∧ i32ok b1 ∧ i32ok b2 ∧ i32ok b3)
    (hK : ∀ b, K.brotli (enc b) = some b) (hnil : K.brotli [] = none)
    (hmeta : metaB.length > 0 → ∃ raw, K.run comp metaB = .ok raw)
    (file : Bytes) (defs : List Versatiles.BlockDef)
    (hw : Versatiles.write enc (vsource s fmt comp b0 b1 b2 b3 metaB) = .ok (file, defs))
    (hsize : file.length < U64) (hidx32 : ∀ d ∈ defs, d.index.len < 2 ^ 32) :
    ∃ r, Versatiles.openReader K file = .ok r ∧ r.header.fmt = fmt ∧ r.header.comp = comp ∧
      ∀ (c : Coord) (o : Option Bytes), Coord.Valid c → s.lookup c = .ok o →
        Versatiles.getTile r c.1 c.2.1 c.2.2 = .ok (nonEmpty o) := by
  have gstr := goodStream_of_good hg hc hs
  have hne : levelsOf s ≠ [] := by
    intro e
    unfold Versatiles.write vsource at hw
    simp only [e, List.head?_nil] at hw
    cases hw
  have gs : GoodSource (vsource s fmt comp b0 b1 b2 b3 metaB) (lookupOpt s) :=
    ⟨gstr.levels_ok, gstr.sorted, hne, gstr.stream_ok, gstr.sound, gstr.complete, gstr.covered, hb.1, hb.2.1, hb.2.2.1, hb.2.2.2⟩
  obtain ⟨r, h1, h2, h3, h4⟩ := VtProofs.VersatilesRead.versatiles_complete
    (write_valid K enc _ (lookupOpt s) gs hK hnil hmeta file defs hw hsize hidx32)
  refine ⟨r, h1, h2, h3, ?_⟩
  intro c o hv hlk
  have := h4 c.1 c.2.1 c.2.2 hv.1
  rw [this]
  congr 1
  unfold lookupOpt
  rw [hlk]
  cases o <;> rfl

/-- **C01 ∘ C02 ∘ C03 ∘ C15 (PMTiles)** -/
theorem convert_roundtrip_pmtiles (K : Inflate) (enc : Bytes → Bytes) (s : Src Bytes)
    (hg : Good s) (hc : Covers s) (hs : SmallPayloads s)
    (fmt : TileFormat) (comp : TComp) (g : Int × Int × Int × Int × Nat × Int × Int) (metaB : Bytes)
    (hcz : g.2.2.2.2.1 < 256)
    (hgeo : i32ok g.1 ∧ i32ok g.2.1 ∧ i32ok g.2.2.1 ∧ i32ok g.2.2.2.1 ∧ i32ok g.2.2.2.2.2.1 ∧ i32ok g.2.2.2.2.2.2)
    (hK : ∀ b, K.gzip (enc b) = some b) (hnil : K.gzip [] = none)
    (hmeta : ∃ raw, K.run .gzip metaB = .ok raw)
    (hcount : (((levelsOf s).flatMap PMTiles.grid256).flatMap (streamOf s)).length ≤ 10000000000)
    (file : Bytes) (hw : PMTiles.write enc (psource s fmt comp g metaB) = .ok file) (hsize : file.length < U64) :
    ∃ r, PMTiles.openReader K file = .ok r ∧
      PMTiles.fmtOfType r.header.ttype = PMTiles.fmtOfType (PMTiles.typeCode fmt) ∧
      PMTiles.compOfCode r.header.tcomp = .ok comp ∧
      ∀ (c : Coord) (o : Option Bytes), Coord.Valid c → s.lookup c = .ok o →
        PMTiles.getTile r c.1 c.2.1 c.2.2 = .ok (nonEmpty o) := by
  have gstr := goodStream_of_good hg hc hs
  obtain ⟨r, h1, h2, h3, h4⟩ := VtProofs.PMTilesRead.pmtiles_complete
    (VtProofs.PMTilesWrite.write_valid_full K enc (psource s fmt comp g metaB) (lookupOpt s) gstr hK hnil hmeta hcz hgeo
      hcount file hw hsize)
  refine ⟨r, h1, h2, h3, ?_⟩
  intro c o hv hlk
  have := h4 c.1 c.2.1 c.2.2 hv.1 hv.2.1 hv.2.2
  rw [this]
  congr 1
  unfold lookupOpt
  rw [hlk]
  cases o <;> rfl

/-! ### tar / directory -/

/-- the tar / directory writers' view of a source (they stream whole level boxes) -/
def wsource (s : Src Bytes) (fmt : TileFormat) (comp : TComp) (metaB : Bytes) : TarDir.WSource :=
  ⟨fmt, comp, metaB, levelsOf s, streamOf s⟩

theorem level_wf {s : Src Bytes} (hw : s.cover.WF) {L : BBox} (hL : L ∈ levelsOf s) : L.WF := by
  have := levels_boxOk hw L hL
  exact ⟨this.lvl, this.xm, this.ym⟩

/-- **C02 + C03 ⇒ the tar / directory writers' assumptions** -/
theorem wok_of_good (K : Inflate) {s : Src Bytes} (hg : Good s) (fmt : TileFormat) (comp : TComp) (metaB : Bytes)
    (hmeta : ∃ raw, K.run comp metaB = .ok raw) (hne : (levelsOf s).flatMap (streamOf s) ≠ []) :
    VtProofs.TarRead.WOk K (wsource s fmt comp metaB) := by
  have hw := hg.cover_wf
  have hok := levels_boxOk hw
  refine ⟨?_, ?_, hne, hmeta⟩
  · intro t ht
    rw [List.mem_flatMap] at ht
    obtain ⟨L, hL, htL⟩ := ht
    have ⟨a1, _, _⟩ := cell_stream hg (level_wf hw hL)
    obtain ⟨c1, c2, _⟩ := a1 t htL
    have hb := hok L hL
    rw [VtProofs.VersatilesGrid.contains2_iff] at c1
    have hp : 2 ^ L.level ≤ 2 ^ 31 := Nat.pow_le_pow_right (by omega) hb.lvl
    have := hb.xm; have := hb.ym
    exact ⟨by rw [c2]; exact hb.lvl, by rw [c2]; omega, by rw [c2]; omega⟩
  · show (((levelsOf s).flatMap (streamOf s)).map (·.1)).Nodup
    rw [List.map_flatMap, List.nodup_iff_pairwise_ne, List.pairwise_flatMap]
    constructor
    · intro L hL
      have ⟨_, a2, _⟩ := cell_stream hg (level_wf hw hL)
      rw [List.nodup_iff_pairwise_ne] at a2
      exact a2
    · apply List.Pairwise.imp_of_mem _ (levels_sorted hw)
      intro L1 L2 h1 h2 hlt x hx y hy hxy
      rw [List.mem_map] at hx hy
      obtain ⟨t, ht, rfl⟩ := hx
      obtain ⟨u, hu, rfl⟩ := hy
      have ⟨a1, _, _⟩ := cell_stream hg (level_wf hw h1)
      have ⟨b1, _, _⟩ := cell_stream hg (level_wf hw h2)
      have e1 := (a1 t ht).2.1
      have e2 := (b1 u hu).2.1
      rw [hxy] at e1
      omega

/-- **C01 ∘ C02 ∘ C03 (tar)** -/
theorem convert_roundtrip_tar (K : Inflate) (s : Src Bytes) (hg : Good s) (fmt : TileFormat) (comp : TComp) (metaB : Bytes)
    (hmeta : ∃ raw, K.run comp metaB = .ok raw) (hne : (levelsOf s).flatMap (streamOf s) ≠ []) :
    ∃ r, TarDir.openTar K (TarDir.writeFiles (wsource s fmt comp metaB)) = .ok r ∧ r.fmt = fmt ∧ r.comp = comp ∧
      (∀ t ∈ (levelsOf s).flatMap (streamOf s), TarDir.getTile r t.1.1 t.1.2.1 t.1.2.2 = .ok (some t.2)) ∧
      (∀ x y z, (∀ t ∈ (levelsOf s).flatMap (streamOf s), t.1 ≠ (x, y, z)) → TarDir.getTile r x y z = .ok none) :=
  VtProofs.TarRead.tar_roundtrip K _ (wok_of_good K hg fmt comp metaB hmeta hne)

/-- **C01 ∘ C02 ∘ C03 (directory)** -/
theorem convert_roundtrip_dir (K : Inflate) (s : Src Bytes) (hg : Good s) (fmt : TileFormat) (comp : TComp) (metaB : Bytes)
    (hmeta : ∃ raw, K.run comp metaB = .ok raw) (hne : (levelsOf s).flatMap (streamOf s) ≠ []) :
    ∃ r, TarDir.openDir K (TarDir.writeFiles (wsource s fmt comp metaB)) = .ok r ∧ r.fmt = fmt ∧ r.comp = comp ∧
      (∀ t ∈ (levelsOf s).flatMap (streamOf s), TarDir.getTile r t.1.1 t.1.2.1 t.1.2.2 = .ok (some t.2)) ∧
      (∀ x y z, (∀ t ∈ (levelsOf s).flatMap (streamOf s), t.1 ≠ (x, y, z)) → TarDir.getTile r x y z = .ok none) :=
  VtProofs.TarRead.dir_roundtrip K _ (wok_of_good K hg fmt comp metaB hmeta hne)

end VtProofs.Capstone
