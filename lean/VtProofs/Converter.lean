import VtModel.Converter
/-!
Helper lemmas for C06: box / pyramid operations as set operations on coordinates
(`swap_xy`, `flip_y`, `intersect_bbox`, `BBox.mapM`), and the coordinate transform.
-/
namespace VtProofs.Converter
open VtModel VtModel.Converter

/-! ### `BBox.mapM` -/

theorem mapM_ok {α β : Type} (f : α → Outcome β) (g : α → β) :
    ∀ (l : List α), (∀ a ∈ l, f a = .ok (g a)) → BBox.mapM f l = .ok (l.map g)
  | [], _ => rfl
  | a :: as, h => by
    have h1 : f a = .ok (g a) := h a (by simp)
    have h2 := mapM_ok f g as (fun x hx => h x (by simp [hx]))
    simp [BBox.mapM, h1, h2]

theorem mapM_ok_inv {α β : Type} (f : α → Outcome β) :
    ∀ (l : List α) (r : List β), BBox.mapM f l = .ok r →
      r.length = l.length ∧ ∀ i (h : i < l.length) (h' : i < r.length), f l[i] = .ok r[i]
  | [], r, h => by
    simp [BBox.mapM] at h
    subst h
    simp
  | a :: as, r, h => by
    simp only [BBox.mapM] at h
    cases hfa : f a with
    | ok b =>
      rw [hfa] at h
      cases hm : BBox.mapM f as with
      | ok bs =>
        rw [hm] at h
        simp at h
        subst h
        have ih := mapM_ok_inv f as bs hm
        refine ⟨by simp [ih.1], ?_⟩
        intro i hi hi'
        cases i with
        | zero => simpa using hfa
        | succ j => simpa using ih.2 j (by simpa using hi) (by simpa using hi')
      | err => rw [hm] at h; simp at h
      | panic => rw [hm] at h; simp at h
    | err => rw [hfa] at h; simp at h
    | panic => rw [hfa] at h; simp at h

/-! ### boxes -/

theorem contains2_iff (b : BBox) (x y : Nat) :
    b.contains2 x y = true ↔ b.xmin ≤ x ∧ x ≤ b.xmax ∧ b.ymin ≤ y ∧ y ≤ b.ymax := by
  simp [BBox.contains2, and_assoc]

theorem isEmpty_iff (b : BBox) : b.isEmpty = true ↔ b.xmax < b.xmin ∨ b.ymax < b.ymin := by
  simp [BBox.isEmpty]

theorem contains2_swap (b : BBox) (x y : Nat) : b.swapXY.contains2 x y = b.contains2 y x := by
  rw [Bool.eq_iff_iff]
  unfold BBox.swapXY
  split
  · rename_i he
    rw [isEmpty_iff] at he
    simp only [contains2_iff]
    omega
  · simp only [contains2_iff]
    omega

theorem swap_level (b : BBox) : b.swapXY.level = b.level := by
  unfold BBox.swapXY; split <;> rfl

theorem swap_wf (b : BBox) (h : b.WF) : b.swapXY.WF := by
  unfold BBox.swapXY
  split
  · exact h
  · exact ⟨h.1, h.2.2, h.2.1⟩

/-- the pure result of `flip_y` -/
def flipBox (b : BBox) : BBox :=
  if b.isEmpty then b else { b with ymin := b.maxv - b.ymax, ymax := b.maxv - b.ymin }

theorem flip_ok (b : BBox) (h : b.WF) : b.flipY = .ok (flipBox b) := by
  unfold BBox.flipY flipBox
  split
  · rfl
  · rename_i he
    have he' : ¬ (b.xmax < b.xmin ∨ b.ymax < b.ymin) := by rw [← isEmpty_iff]; exact he
    have := h.2.2
    have hp : 0 < 2 ^ b.level := Nat.two_pow_pos _
    have hm : b.maxv = 2 ^ b.level - 1 := rfl
    rw [if_neg (by omega), if_neg (by omega)]

theorem flip_level (b : BBox) : (flipBox b).level = b.level := by
  unfold flipBox; split <;> rfl

theorem flip_wf (b : BBox) (h : b.WF) : (flipBox b).WF := by
  unfold flipBox
  split
  · exact h
  · have hp : 0 < 2 ^ b.level := Nat.two_pow_pos _
    refine ⟨h.1, h.2.1, ?_⟩
    simp only [BBox.maxv]
    omega

theorem contains2_flip (b : BBox) (h : b.WF) (x y : Nat) (hy : y < 2 ^ b.level) :
    (flipBox b).contains2 x y = b.contains2 x (2 ^ b.level - 1 - y) := by
  rw [Bool.eq_iff_iff]
  have := h.2.2
  unfold flipBox
  split
  · rename_i he
    rw [isEmpty_iff] at he
    simp only [contains2_iff]
    omega
  · rename_i he
    have he' : ¬ (b.xmax < b.xmin ∨ b.ymax < b.ymin) := by rw [← isEmpty_iff]; exact he
    simp only [contains2_iff, BBox.maxv]
    omega

theorem contains2_wf (b : BBox) (h : b.WF) (x y : Nat) (hc : b.contains2 x y = true) :
    x < 2 ^ b.level ∧ y < 2 ^ b.level := by
  rw [contains2_iff] at hc
  have := h.2.1; have := h.2.2
  omega

/-- the pure result of `intersect_bbox` -/
def isectBox (a b : BBox) : BBox :=
  if !a.isEmpty && !b.isEmpty then
    { a with xmin := max a.xmin b.xmin, ymin := max a.ymin b.ymin,
             xmax := min a.xmax b.xmax, ymax := min a.ymax b.ymax }
  else a.setEmpty

theorem isect_ok (a b : BBox) (h : a.level = b.level) : a.intersectBBox b = .ok (isectBox a b) := by
  unfold BBox.intersectBBox isectBox
  rw [if_neg (by simpa using h)]
  split <;> rfl

theorem isect_level (a b : BBox) : (isectBox a b).level = a.level := by
  unfold isectBox; split <;> rfl

theorem isect_wf (a b : BBox) (h : a.WF) : (isectBox a b).WF := by
  unfold isectBox
  split
  · refine ⟨h.1, ?_, ?_⟩
    · have := h.2.1; simp only; omega
    · have := h.2.2; simp only; omega
  · have hp : 0 < 2 ^ a.level := Nat.two_pow_pos _
    exact ⟨h.1, hp, hp⟩

theorem contains2_isect (a b : BBox) (x y : Nat) :
    (isectBox a b).contains2 x y = (a.contains2 x y && b.contains2 x y) := by
  rw [Bool.eq_iff_iff]
  unfold isectBox
  split
  · simp only [Bool.and_eq_true, contains2_iff]
    omega
  · rename_i he
    have he' : a.isEmpty = true ∨ b.isEmpty = true := by
      cases ha : a.isEmpty <;> cases hb : b.isEmpty <;> simp_all
    simp only [isEmpty_iff] at he'
    simp only [Bool.and_eq_true, contains2_iff, BBox.setEmpty]
    omega

/-! ### pyramids -/

theorem wf_getElem? (p : Pyramid) (h : p.WF) (z : Nat) (hz : z < 32) :
    ∃ b, p[z]? = some b ∧ b.level = z ∧ b.WF := by
  have hl : z < p.length := by rw [h.1]; exact hz
  exact ⟨p[z], by simp [hl], (h.2 z hl).1, (h.2 z hl).2⟩

theorem wf_none (p : Pyramid) (h : p.WF) (z : Nat) (hz : ¬ z < 32) : p[z]? = none := by
  simp [h.1]; omega

theorem wf_map (p : Pyramid) (h : p.WF) (g : BBox → BBox) (hl : ∀ b, (g b).level = b.level)
    (hw : ∀ b, b.WF → (g b).WF) : Pyramid.WF (p.map g) := by
  refine ⟨by simp [h.1], ?_⟩
  intro z hz
  have hz' : z < p.length := by simpa using hz
  simp only [List.getElem_map]
  exact ⟨by rw [hl]; exact (h.2 z hz').1, hw _ (h.2 z hz').2⟩

theorem wf_mem (p : Pyramid) (h : p.WF) (b : BBox) (hb : b ∈ p) : b.WF ∧ b.level < 32 ∧ p[b.level]? = some b := by
  obtain ⟨i, hi, rfl⟩ := List.getElem_of_mem hb
  have := h.2 i hi
  refine ⟨this.2, by rw [this.1, ← h.1]; exact hi, ?_⟩
  rw [this.1]
  simp [hi]

theorem flipY_ok (p : Pyramid) (h : p.WF) : Pyramid.flipY p = .ok (p.map flipBox) :=
  mapM_ok _ _ p (fun b hb => flip_ok b (wf_mem p h b hb).1)

theorem intersect_ok (p q : Pyramid) (hp : p.WF) (hq : q.WF) :
    Pyramid.intersect p q = .ok (p.map fun b => isectBox b (q[b.level]?.getD b)) := by
  unfold Pyramid.intersect
  apply mapM_ok
  intro b hb
  obtain ⟨_, hlt, _⟩ := wf_mem p hp b hb
  obtain ⟨o, ho, hol, _⟩ := wf_getElem? q hq b.level hlt
  simp only [ho, Option.getD_some]
  rw [isect_ok b o hol.symm]
  rfl

/-- `contains_coord` of a level-wise mapped pyramid -/
theorem has_map (p : Pyramid) (g : BBox → BBox) (hl : ∀ b, (g b).level = b.level) (c : Coord) :
    Pyramid.has (p.map g) c = match p[c.2.2]? with
      | some b => c.2.2 == b.level && (g b).contains2 c.1 c.2.1
      | none => false := by
  unfold Pyramid.has Pyramid.containsCoord
  simp only [List.getElem?_map]
  cases p[c.2.2]? with
  | none => rfl
  | some b => simp [BBox.contains3, hl]

theorem has_eq (p : Pyramid) (c : Coord) :
    Pyramid.has p c = match p[c.2.2]? with
      | some b => c.2.2 == b.level && b.contains2 c.1 c.2.1
      | none => false := by
  unfold Pyramid.has Pyramid.containsCoord
  cases p[c.2.2]? with
  | none => rfl
  | some b => simp [BBox.contains3]

theorem has_valid (p : Pyramid) (h : p.WF) (c : Coord) (hc : Pyramid.has p c = true) : Coord.Valid c := by
  rw [has_eq] at hc
  by_cases hz : c.2.2 < 32
  · obtain ⟨b, hb, hl, hw⟩ := wf_getElem? p h c.2.2 hz
    rw [hb] at hc
    simp only [Bool.and_eq_true] at hc
    have := contains2_wf b hw _ _ hc.2
    rw [hl] at this
    exact ⟨by omega, this.1, this.2⟩
  · rw [wf_none p h _ hz] at hc
    simp at hc

/-! ### the transform -/

theorem flipC_flipC (c : Coord) (h : c.2.1 < 2 ^ c.2.2) : flipC (flipC c) = c := by
  obtain ⟨x, y, z⟩ := c
  simp only [flipC] at *
  congr 2
  omega

theorem swapC_swapC (c : Coord) : swapC (swapC c) = c := rfl

theorem flipC_valid (c : Coord) (h : Coord.Valid c) : Coord.Valid (flipC c) := by
  obtain ⟨x, y, z⟩ := c
  simp only [Coord.Valid, flipC] at *
  omega

theorem swapC_valid (c : Coord) (h : Coord.Valid c) : Coord.Valid (swapC c) := by
  obtain ⟨x, y, z⟩ := c
  simp only [Coord.Valid, swapC] at *
  omega

theorem T_valid (f s : Bool) (c : Coord) (h : Coord.Valid c) : Coord.Valid (T f s c) := by
  cases f <;> cases s <;> simp [T, flipC_valid, swapC_valid, h]

theorem Tinv_valid (f s : Bool) (c : Coord) (h : Coord.Valid c) : Coord.Valid (Tinv f s c) := by
  cases f <;> cases s <;> simp [Tinv, flipC_valid, swapC_valid, h]

theorem T_Tinv (f s : Bool) (c : Coord) (h : Coord.Valid c) : T f s (Tinv f s c) = c := by
  cases f <;> cases s <;> simp only [T, Tinv, if_true, if_false, Bool.false_eq_true]
  · exact swapC_swapC c
  · exact flipC_flipC c h.2.2
  · rw [flipC_flipC _ (swapC_valid c h).2.2]; rfl

theorem Tinv_T (f s : Bool) (c : Coord) (h : Coord.Valid c) : Tinv f s (T f s c) = c := by
  cases f <;> cases s <;> simp only [T, Tinv, if_true, if_false, Bool.false_eq_true]
  · exact swapC_swapC c
  · exact flipC_flipC c h.2.2
  · show flipC (swapC (swapC (flipC c))) = c
    rw [swapC_swapC]; exact flipC_flipC c h.2.2

theorem flipCode_ok (c : Coord) (h : c.2.1 < 2 ^ c.2.2) : flipCode c = .ok (flipC c) := by
  unfold flipCode
  rw [if_neg (by omega)]

/-! ### pyramids as sets under the transform -/

theorem has_flip (p : Pyramid) (h : p.WF) (c : Coord) (hc : Coord.Valid c) :
    Pyramid.has (p.map flipBox) c = Pyramid.has p (flipC c) := by
  rw [has_map p flipBox flip_level, has_eq]
  obtain ⟨b, hb, hl, hw⟩ := wf_getElem? p h c.2.2 (by have := hc.1; omega)
  have hz : (flipC c).2.2 = c.2.2 := rfl
  rw [hz, hb]
  simp only
  rw [contains2_flip b hw _ _ (by rw [hl]; exact hc.2.2), hl]
  rfl

theorem has_swap (p : Pyramid) (c : Coord) :
    Pyramid.has (p.map BBox.swapXY) c = Pyramid.has p (swapC c) := by
  rw [has_map p BBox.swapXY swap_level, has_eq]
  have hz : (swapC c).2.2 = c.2.2 := rfl
  rw [hz]
  cases p[c.2.2]? with
  | none => rfl
  | some b => simp only [contains2_swap]; rfl

theorem has_isect (p q : Pyramid) (hp : p.WF) (hq : q.WF) (c : Coord) :
    Pyramid.has (p.map fun b => isectBox b (q[b.level]?.getD b)) c = (Pyramid.has p c && Pyramid.has q c) := by
  rw [has_map p _ (fun b => isect_level b _), has_eq p, has_eq q]
  by_cases hz : c.2.2 < 32
  · obtain ⟨b, hb, hl, _⟩ := wf_getElem? p hp c.2.2 hz
    obtain ⟨o, ho, hol, _⟩ := wf_getElem? q hq c.2.2 hz
    rw [hb, ho]
    simp only [hl, ho, Option.getD_some, contains2_isect, hol]
    cases b.contains2 c.1 c.2.1 <;> cases o.contains2 c.1 c.2.1 <;> simp
  · rw [wf_none p hp _ hz, wf_none q hq _ hz]
    rfl

/-! ### well-formedness of constructed pyramids -/

theorem wf_newEmpty : Pyramid.WF Pyramid.newEmpty := by
  refine ⟨by simp [Pyramid.newEmpty, Pyramid.levels], ?_⟩
  intro z hz
  have hz' : z < 32 := by simpa [Pyramid.newEmpty, Pyramid.levels] using hz
  simp only [Pyramid.newEmpty, Pyramid.levels, List.getElem_map, List.getElem_range, BBox.WF, true_and]
  exact ⟨by omega, Nat.two_pow_pos _, Nat.two_pow_pos _⟩

theorem wf_set (p : Pyramid) (h : p.WF) (b : BBox) (hb : b.WF) : Pyramid.WF (p.set b.level b) := by
  refine ⟨by simp [h.1], ?_⟩
  intro z hz
  have hz' : z < p.length := by simpa using hz
  rw [List.getElem_set]
  split
  · rename_i he
    exact ⟨he, hb⟩
  · exact h.2 z hz'

end VtProofs.Converter
