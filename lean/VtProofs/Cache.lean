import VtModel.Cache
/-! Helper lemmas for `VtProps.C20` (core Lean only). -/
namespace VtModel.Cache

theorem mem_insertSorted {x a : Nat} {l : List Nat} : a ∈ insertSorted x l ↔ a = x ∨ a ∈ l := by
  induction l with
  | nil => simp [insertSorted]
  | cons y ys ih =>
    unfold insertSorted
    split
    · simp
    · simp only [List.mem_cons, ih]; constructor <;> (intro h; rcases h with h | h | h <;> simp [h])

theorem length_insertSorted (x : Nat) (l : List Nat) : (insertSorted x l).length = l.length + 1 := by
  induction l with
  | nil => simp [insertSorted]
  | cons y ys ih => unfold insertSorted; split <;> simp [ih]

theorem mem_sortNat {a : Nat} {l : List Nat} : a ∈ sortNat l ↔ a ∈ l := by
  induction l with
  | nil => simp [sortNat]
  | cons x xs ih => simp [sortNat, mem_insertSorted, ih]

theorem length_sortNat (l : List Nat) : (sortNat l).length = l.length := by
  induction l with
  | nil => simp [sortNat]
  | cons x xs ih => simp [sortNat, length_insertSorted, ih]

/-- inserting below a trailing maximum leaves the maximum last -/
theorem insertSorted_append_max {x M : Nat} (h : x < M) (l : List Nat) :
    insertSorted x (l ++ [M]) = insertSorted x l ++ [M] := by
  induction l with
  | nil => simp [insertSorted]; omega
  | cons y ys ih =>
    simp only [List.cons_append, insertSorted]
    split
    · rfl
    · simp [ih]

/-- inserting something above everything appends it -/
theorem insertSorted_max {M : Nat} {l : List Nat} (h : ∀ a ∈ l, a < M) :
    insertSorted M l = l ++ [M] := by
  induction l with
  | nil => simp [insertSorted]
  | cons y ys ih =>
    have hy : y < M := h y (by simp)
    simp only [insertSorted]
    split
    · omega
    · simp [ih (fun a ha => h a (by simp [ha]))]

/-- a strict unique maximum ends up last after sorting -/
theorem sortNat_unique_max (l1 l2 : List Nat) (M : Nat)
    (h1 : ∀ a ∈ l1, a < M) (h2 : ∀ a ∈ l2, a < M) :
    sortNat (l1 ++ M :: l2) = sortNat (l1 ++ l2) ++ [M] := by
  induction l1 with
  | nil =>
    simp only [List.nil_append, sortNat]
    exact insertSorted_max (fun a ha => h2 a (mem_sortNat.mp ha))
  | cons x xs ih =>
    have hx : x < M := h1 x (by simp)
    simp only [List.cons_append, sortNat]
    rw [ih (fun a ha => h1 a (by simp [ha]))]
    exact insertSorted_append_max hx _

end VtModel.Cache

namespace VtModel.Cache

/-- Representation invariant of the cache. -/
structure Inv (c : Cache) : Prop where
  cap_pos : 1 ≤ c.cap
  len_le : c.items.length ≤ c.cap
  nodup : (c.items.map (·.key)).Nodup
  stamp_le : ∀ e ∈ c.items, e.stamp ≤ c.last

theorem inv_init (cap : Nat) (h : 1 ≤ cap) : Inv (init cap) :=
  ⟨h, by simp [init], by simp [init], by simp [init]⟩

theorem median_some {items : List Entry} (h : items ≠ []) :
    ∃ m, median? items = some m ∧ ∃ e ∈ items, e.stamp = m := by
  unfold median?
  have hl : 0 < items.length := List.length_pos_iff.mpr h
  have hlt : (items.length - 1) / 2 < (sortNat (items.map (·.stamp))).length := by
    rw [length_sortNat, List.length_map]; omega
  refine ⟨(sortNat (items.map (·.stamp)))[(items.length - 1) / 2], ?_, ?_⟩
  · exact List.getElem?_eq_getElem hlt
  · have : (sortNat (items.map (·.stamp)))[(items.length - 1) / 2] ∈ sortNat (items.map (·.stamp)) :=
      List.getElem_mem hlt
    rw [mem_sortNat, List.mem_map] at this
    obtain ⟨e, he, hs⟩ := this
    exact ⟨e, he, hs⟩

/-- What `cleanup` does, as a relation between the old and the new cache. -/
theorem cleanup_spec {c : Cache} (h : c.items ≠ []) :
    ∃ c' m, cleanup? c = some c' ∧ median? c.items = some m ∧ c'.cap = c.cap ∧ c'.last = c.last ∧
      c'.items = (c.items.filter (fun e => m < e.stamp)).map (fun e => { e with stamp := 0 }) ∧
      c'.items.length < c.items.length := by
  obtain ⟨m, hm, e, he, hes⟩ := median_some h
  refine ⟨{ c with items := (c.items.filter (fun e => m < e.stamp)).map (fun e => { e with stamp := 0 }) }, m,
    by simp [cleanup?, hm], hm, rfl, rfl, rfl, ?_⟩
  simp only [List.length_map]
  apply List.length_filter_lt_length_iff_exists.mpr
  exact ⟨e, he, by simp [hes]⟩

theorem cleanup_keys_sublist (items : List Entry) (m : Nat) :
    (((items.filter (fun e => m < e.stamp)).map (fun e => { e with stamp := 0 })).map (·.key)).Sublist
      (items.map (·.key)) := by
  rw [List.map_map]
  have : ((fun e : Entry => e.key) ∘ fun e : Entry => { e with stamp := 0 }) = (fun e : Entry => e.key) := by
    funext e; rfl
  rw [this]
  exact (List.filter_sublist).map _

theorem cleanup_inv {c c' : Cache} (hi : Inv c) (h : cleanup? c = some c') (hne : c.items ≠ []) :
    Inv c' ∧ c'.items.length < c.cap := by
  obtain ⟨c'', m, h1, _, hcap, hlast, hitems, hlen⟩ := cleanup_spec hne
  rw [h] at h1; cases h1
  refine ⟨⟨by rw [hcap]; exact hi.cap_pos, ?_, ?_, ?_⟩, ?_⟩
  · rw [hcap]; have := hi.len_le; omega
  · rw [hitems]; exact (cleanup_keys_sublist _ _).nodup hi.nodup
  · intro e he; rw [hitems] at he
    simp only [List.mem_map] at he
    obtain ⟨e0, _, rfl⟩ := he
    simp
  · have := hi.len_le; omega

/-- Values are never invented: cleanup keeps (key, value) pairs. -/
theorem cleanup_mem {c c' : Cache} (h : cleanup? c = some c') {e' : Entry} (he : e' ∈ c'.items) :
    ∃ e ∈ c.items, e.key = e'.key ∧ e.val = e'.val := by
  unfold cleanup? at h
  split at h
  · cases h
  · cases h
    simp only [List.mem_map, List.mem_filter] at he
    obtain ⟨e0, ⟨he0, _⟩, rfl⟩ := he
    exact ⟨e0, he0, rfl, rfl⟩

theorem find?_key {items : List Entry} {k : Nat} {e : Entry} (h : find? items k = some e) :
    e ∈ items ∧ e.key = k := by
  unfold find? at h
  exact ⟨List.mem_of_find?_eq_some h, by simpa using List.find?_some h⟩

theorem find?_none {items : List Entry} {k : Nat} (h : find? items k = none) :
    k ∉ items.map (·.key) := by
  unfold find? at h
  rw [List.find?_eq_none] at h
  intro hk
  rw [List.mem_map] at hk
  obtain ⟨e, he, rfl⟩ := hk
  exact h e he (by simp)

theorem find?_isSome_of_mem {items : List Entry} {e : Entry} (h : e ∈ items) :
    (find? items e.key).isSome := by
  unfold find?
  rw [List.find?_isSome]
  exact ⟨e, h, by simp⟩

/-- `lookup` restamps in place: keys and values are untouched. -/
theorem lookup_items_keys (c : Cache) (k : Nat) :
    ((lookup c k).1.items.map (·.key)) = c.items.map (·.key) ∧ (lookup c k).1.cap = c.cap := by
  unfold lookup
  split
  · simp
  · simp only [List.map_map, and_true]
    apply List.map_congr_left
    intro x _
    simp only [Function.comp]
    split <;> rfl

theorem lookup_miss {c : Cache} {k : Nat} {c1 : Cache} (h : lookup c k = (c1, none)) : c1 = c := by
  unfold lookup at h
  split at h
  · cases h; rfl
  · cases h

theorem lookup_inv {c : Cache} (hi : Inv c) (k : Nat) : Inv (lookup c k).1 := by
  obtain ⟨hk, hc⟩ := lookup_items_keys c k
  refine ⟨by rw [hc]; exact hi.cap_pos, ?_, by rw [hk]; exact hi.nodup, ?_⟩
  · have : (lookup c k).1.items.length = c.items.length := by
      have := congrArg List.length hk; simpa using this
    rw [this, hc]; exact hi.len_le
  · unfold lookup
    split
    · exact hi.stamp_le
    · intro e he
      simp only [List.mem_map] at he
      obtain ⟨x, hx, rfl⟩ := he
      split
      · simp
      · have := hi.stamp_le x hx; simp; omega

/-- under the invariant `prepare?` never panics and leaves room for one more entry -/
theorem prepare_spec {c : Cache} (hi : Inv c) :
    ∃ c1, prepare? c = some c1 ∧ Inv c1 ∧ c1.cap = c.cap ∧ c1.items.length < c.cap ∧
      (∀ e' ∈ c1.items, ∃ e ∈ c.items, e.key = e'.key ∧ e.val = e'.val) := by
  unfold prepare?
  by_cases hfull : c.items.length ≥ c.cap
  · have hne : c.items ≠ [] := by
      intro h; rw [h] at hfull; have := hi.cap_pos; simp at hfull; omega
    obtain ⟨c1, m, h1, _, hcap, _, _, _⟩ := cleanup_spec hne
    obtain ⟨hi1, hlt⟩ := cleanup_inv hi h1 hne
    simp only [hfull, if_true]
    exact ⟨c1, h1, hi1, hcap, hlt, fun e' he' => cleanup_mem h1 he'⟩
  · simp only [hfull, if_false]
    exact ⟨c, rfl, hi, rfl, by omega, fun e' he' => ⟨e', he', rfl, rfl⟩⟩

theorem put_cap (c1 : Cache) (k v : Nat) : (put c1 k v).1.cap = c1.cap := by
  unfold put; split <;> rfl

theorem put_inv {c1 : Cache} (hi : Inv c1) (hroom : c1.items.length < c1.cap) (k v : Nat) :
    Inv (put c1 k v).1 := by
  unfold put
  cases hf : find? c1.items k with
  | some e =>
    refine ⟨hi.cap_pos, hi.len_le, hi.nodup, ?_⟩
    intro e he; have := hi.stamp_le e he; simp; omega
  | none =>
    refine ⟨hi.cap_pos, ?_, ?_, ?_⟩
    · simp; omega
    · simp only [List.map_cons, List.nodup_cons]; exact ⟨find?_none hf, hi.nodup⟩
    · intro e he
      simp only [List.mem_cons] at he
      rcases he with rfl | he
      · simp
      · have := hi.stamp_le e he; simp; omega

/-- under the invariant `add?` never panics and re-establishes the invariant -/
theorem add_some {c : Cache} (hi : Inv c) (k v : Nat) :
    ∃ c1, prepare? c = some c1 ∧ add? c k v = some (put c1 k v) ∧ Inv (put c1 k v).1 ∧
      (put c1 k v).1.cap = c.cap := by
  obtain ⟨c1, h1, hi1, hcap, hlt, _⟩ := prepare_spec hi
  refine ⟨c1, h1, by simp [add?, h1], put_inv hi1 (by rw [hcap]; exact hlt) k v, ?_⟩
  rw [put_cap, hcap]

end VtModel.Cache
