import VtProofs.PipeBuild
import VtProofs.BBoxSet
import VtProofs.Converter
/-!
C03 (d): `Covers` ("every tile a lookup can return lies in the advertised pyramid") for **every
nesting** of the pipeline operations – by induction over the `Pipe` syntax, on w-pipe's model
`VtModel/Pipeline.lean`.  The geometric part is the containment law of `include_bbox` /
`include_bbox_pyramid` (the union pyramid of overlay / merge contains every source pyramid).
-/
namespace VtProofs.PipeCovers
open VtModel VtProofs.Converter

/-! ### `include_bbox` on pyramids only grows the denotation -/

theorem wf_inRange {b : BBox} (h : b.WF) : BBox.InRange b := by
  have := h.2.1; have := h.2.2
  have hp : 0 < 2 ^ b.level := Nat.two_pow_pos _
  unfold BBox.InRange BBox.maxv
  omega

/-- `Pyramid.includeBBox`: the result contains the old pyramid and the included box -/
theorem includeBBox_has {p r : Pyramid} (hp : p.WF) {b : BBox} (hb : b.WF)
    (h : Pyramid.includeBBox p b = .ok r) (c : Coord)
    (hc : Pyramid.has p c = true ∨ (c.2.2 = b.level ∧ b.contains2 c.1 c.2.1 = true)) :
    Pyramid.has r c = true := by
  obtain ⟨a, ha, hal, haw⟩ := wf_getElem? p hp b.level (by have := hb.1; omega)
  unfold Pyramid.includeBBox Pyramid.updateLevel at h
  rw [ha] at h
  simp only at h
  cases hinc : a.includeBBox b with
  | ok cb =>
    rw [hinc] at h
    simp only [Outcome.unwrap] at h
    cases h
    have hlt : b.level < p.length := by rw [hp.1]; have := hb.1; omega
    have hcl : cb.level = b.level := by
      unfold BBox.includeBBox at hinc
      split at hinc
      · cases hinc
      · split at hinc
        · cases hinc; exact hal
        · split at hinc
          · cases hinc; rfl
          · cases hinc; exact hal
    have hcon := BBox.include_contains (wf_inRange haw) (wf_inRange hb) hinc
    rw [has_eq]
    by_cases hz : c.2.2 = b.level
    · rw [hz, List.getElem?_set_self hlt]
      simp only [hcl, beq_self_eq_true, Bool.true_and]
      rw [BBox.contains2_iff]
      apply hcon
      cases hc with
      | inl hc =>
        left
        rw [has_eq, hz, ha] at hc
        simp only [Bool.and_eq_true] at hc
        exact (BBox.contains2_iff _ _ _).1 hc.2
      | inr hc => right; exact (BBox.contains2_iff _ _ _).1 hc.2
    · rw [List.getElem?_set_ne (fun e => hz e.symm)]
      cases hc with
      | inl hc => rw [has_eq] at hc; exact hc
      | inr hc => exact absurd hc.1 hz
  | err => rw [hinc] at h; simp [Outcome.unwrap] at h
  | panic => rw [hinc] at h; simp [Outcome.unwrap] at h

theorem includeBBox_wf' {p r : Pyramid} (hp : p.WF) {b : BBox} (hb : b.WF)
    (h : Pyramid.includeBBox p b = .ok r) : r.WF := by
  obtain ⟨r', h1, h2⟩ := pyrIncludeBBox_ok hp hb
  rw [h1] at h; cases h; exact h2

/-- folding `include_bbox` over a list of boxes: contains the start and every box -/
theorem includeFold_has (l : List BBox) (hl : ∀ b ∈ l, b.WF) : ∀ (p r : Pyramid), p.WF →
    l.foldl (fun (acc : Outcome Pyramid) b => acc.bind (fun a => Pyramid.includeBBox a b)) (.ok p) = .ok r →
    ∀ c, (Pyramid.has p c = true ∨ ∃ b ∈ l, c.2.2 = b.level ∧ b.contains2 c.1 c.2.1 = true) →
      Pyramid.has r c = true := by
  induction l with
  | nil =>
    intro p r _ h c hc
    simp only [List.foldl_nil] at h
    cases h
    cases hc with
    | inl hc => exact hc
    | inr hc => obtain ⟨b, hb, _⟩ := hc; cases hb
  | cons b bs ih =>
    intro p r hp h c hc
    obtain ⟨p1, h1, w1⟩ := pyrIncludeBBox_ok hp (hl b (by simp))
    simp only [List.foldl_cons, Outcome.bind, h1] at h
    apply ih (fun x hx => hl x (by simp [hx])) p1 r w1 h c
    cases hc with
    | inl hc => exact Or.inl (includeBBox_has hp (hl b (by simp)) h1 c (Or.inl hc))
    | inr hc =>
      obtain ⟨b', hb', hz, hin⟩ := hc
      cases hb' with
      | head => exact Or.inl (includeBBox_has hp (hl b (by simp)) h1 c (Or.inr ⟨hz, hin⟩))
      | tail _ hb' => exact Or.inr ⟨b', hb', hz, hin⟩

/-- `include_bbox_pyramid`: the result contains both pyramids -/
theorem includePyramid_has {p q r : Pyramid} (hp : p.WF) (hq : q.WF)
    (h : Pyramid.includePyramid p q = .ok r) (c : Coord)
    (hc : Pyramid.has p c = true ∨ Pyramid.has q c = true) : Pyramid.has r c = true := by
  unfold Pyramid.includePyramid at h
  have hl : ∀ b ∈ Pyramid.iterLevels q, b.WF := fun b hb => (wf_mem q hq b (List.mem_filter.1 hb).1).1
  apply includeFold_has _ hl p r hp h c
  cases hc with
  | inl hc => exact Or.inl hc
  | inr hc =>
    right
    have hv := has_valid q hq c hc
    obtain ⟨b, hb, hbl, _⟩ := wf_getElem? q hq c.2.2 (by have := hv.1; omega)
    rw [has_eq, hb] at hc
    simp only [Bool.and_eq_true] at hc
    refine ⟨b, List.mem_filter.2 ⟨List.mem_of_getElem? hb, ?_⟩, hbl.symm, hc.2⟩
    have := (contains2_iff b _ _).1 hc.2
    simp [BBox.isEmpty]
    omega

/-- the coverage of overlay / merge contains the first pyramid and every source's pyramid -/
theorem unionCover_has {β : Type} (srcs : List (Op β)) (hs : ∀ o ∈ srcs, o.src.cover.WF) :
    ∀ (first r : Pyramid), first.WF → unionCover first srcs = .ok r →
      ∀ c, (Pyramid.has first c = true ∨ ∃ o ∈ srcs, Pyramid.has o.src.cover c = true) →
        Pyramid.has r c = true := by
  unfold unionCover
  induction srcs with
  | nil =>
    intro first r _ h c hc
    simp only [List.foldl_nil] at h
    cases h
    cases hc with
    | inl hc => exact hc
    | inr hc => obtain ⟨o, ho, _⟩ := hc; cases ho
  | cons o os ih =>
    intro first r hf h c hc
    obtain ⟨p1, h1, w1⟩ := includePyramid_ok hf (hs o (by simp))
    simp only [List.foldl_cons, Outcome.bind, h1] at h
    apply ih (fun x hx => hs x (by simp [hx])) p1 r w1 h c
    cases hc with
    | inl hc => exact Or.inl (includePyramid_has hf (hs o (by simp)) h1 c (Or.inl hc))
    | inr hc =>
      obtain ⟨o', ho', hin⟩ := hc
      cases ho' with
      | head => exact Or.inl (includePyramid_has hf (hs o (by simp)) h1 c (Or.inr hin))
      | tail _ ho' => exact Or.inr ⟨o', ho', hin⟩

/-- `Covers` restricted to coordinates of the pyramid (`from_debug` answers *every* coordinate,
    also `x ≥ 2^z`, which no pyramid can contain) -/
def CoversV {β : Type} (s : Src β) : Prop :=
  ∀ c p, Coord.Valid c → s.lookup c = .ok (some p) → Pyramid.has s.cover c = true

theorem Covers.toV {β : Type} {s : Src β} (h : Covers s) : CoversV s := fun c p _ hl => h c p hl

theorem newFull31_has (c : Coord) (hv : Coord.Valid c) : Pyramid.has (Pyramid.newFull 31) c = true := by
  obtain ⟨x, y, z⟩ := c
  have hz : z < 32 := by have := hv.1; simp at this; omega
  have hx : x < 2 ^ z := hv.2.1
  have hy : y < 2 ^ z := hv.2.2
  unfold Pyramid.has Pyramid.containsCoord
  simp only [Pyramid.newFull, Pyramid.levels, List.getElem?_map, List.getElem?_range hz, Option.map_some]
  rw [if_pos (by omega)]
  simp [BBox.contains3, BBox.contains2]
  omega

/-! ### the combinators -/

theorem filter_covers {β : Type} (pyr : Pyramid) (s : Src β) : Covers (filterSrc pyr s) := by
  intro c p h
  simp only [filterSrc] at h ⊢
  split at h
  · assumption
  · cases h

theorem map_covers {β : Type} (f : β → β) (s : Src β) (hs : Covers s) : Covers (mapSrc f s) := by
  intro c p h
  simp only [mapSrc] at h ⊢
  cases hl : s.lookup c with
  | ok o =>
    cases o with
    | none => rw [hl] at h; cases h
    | some v => exact hs c v hl
  | err => rw [hl] at h; cases h
  | panic => rw [hl] at h; cases h

theorem overlay_covers {β : Type} (ops : Ops β) (out : Nat) (cover : Pyramid) (srcs : List (Op β))
    (hs : ∀ o ∈ srcs, Covers o.src)
    (hu : ∀ o ∈ srcs, ∀ c, Pyramid.has o.src.cover c = true → Pyramid.has cover c = true) :
    Covers (overlaySrc ops out cover srcs) := by
  intro c p h
  simp only [overlaySrc] at h ⊢
  induction srcs with
  | nil => simp [overlayLookup] at h
  | cons o os ih =>
    simp only [overlayLookup] at h
    cases hl : o.src.lookup c with
    | ok r =>
      cases r with
      | some v => exact hu o (by simp) c (hs o (by simp) c v hl)
      | none =>
        rw [hl] at h
        exact ih (fun x hx => hs x (by simp [hx])) (fun x hx => hu x (by simp [hx])) h
    | err => rw [hl] at h; cases h
    | panic => rw [hl] at h; cases h

theorem merged_covers {β : Type} (ops : Ops β) (cover : Pyramid) (srcs : List (Op β))
    (hs : ∀ o ∈ srcs, Covers o.src)
    (hu : ∀ o ∈ srcs, ∀ c, Pyramid.has o.src.cover c = true → Pyramid.has cover c = true) :
    Covers (mergedSrc ops cover srcs) := by
  intro c p h
  simp only [mergedSrc, mergedLookup] at h ⊢
  have key : ∀ (l : List (Op β)) (bl : List β), (∀ o ∈ l, Covers o.src) →
      (∀ o ∈ l, ∀ c, Pyramid.has o.src.cover c = true → Pyramid.has cover c = true) →
      mergedBlobs ops l c = .ok bl → bl ≠ [] → Pyramid.has cover c = true := by
    intro l
    induction l with
    | nil => intro bl _ _ hb hne; simp [mergedBlobs] at hb; subst hb; exact absurd rfl hne
    | cons o os ih =>
      intro bl hs' hu' hb hne
      simp only [mergedBlobs] at hb
      cases hl : o.src.lookup c with
      | ok r =>
        rw [hl] at hb
        cases hm : mergedBlobs ops os c with
        | ok rest =>
          rw [hm] at hb
          cases r with
          | some v => exact hu' o (by simp) c (hs' o (by simp) c v hl)
          | none =>
            simp only [Outcome.ok.injEq] at hb
            subst hb
            exact ih rest (fun x hx => hs' x (by simp [hx])) (fun x hx => hu' x (by simp [hx])) hm hne
        | err => rw [hm] at hb; cases hb
        | panic => rw [hm] at hb; cases hb
      | err => rw [hl] at hb; cases hb
      | panic => rw [hl] at hb; cases hb
  cases hm : mergedBlobs ops srcs c with
  | ok bl =>
    cases bl with
    | nil => rw [hm] at h; cases h
    | cons b bs => exact key srcs (b :: bs) hs hu hm (by simp)
  | err => rw [hm] at h; cases h
  | panic => rw [hm] at h; cases h

theorem overlay_coversV {β : Type} (ops : Ops β) (out : Nat) (cover : Pyramid) (srcs : List (Op β))
    (hs : ∀ o ∈ srcs, CoversV o.src)
    (hu : ∀ o ∈ srcs, ∀ c, Pyramid.has o.src.cover c = true → Pyramid.has cover c = true) :
    CoversV (overlaySrc ops out cover srcs) := by
  intro c p hv h
  simp only [overlaySrc] at h ⊢
  induction srcs with
  | nil => simp [overlayLookup] at h
  | cons o os ih =>
    simp only [overlayLookup] at h
    cases hl : o.src.lookup c with
    | ok r =>
      cases r with
      | some v => exact hu o (by simp) c (hs o (by simp) c v hv hl)
      | none =>
        rw [hl] at h
        exact ih (fun x hx => hs x (by simp [hx])) (fun x hx => hu x (by simp [hx])) h
    | err => rw [hl] at h; cases h
    | panic => rw [hl] at h; cases h

theorem merged_coversV {β : Type} (ops : Ops β) (cover : Pyramid) (srcs : List (Op β))
    (hs : ∀ o ∈ srcs, CoversV o.src)
    (hu : ∀ o ∈ srcs, ∀ c, Pyramid.has o.src.cover c = true → Pyramid.has cover c = true) :
    CoversV (mergedSrc ops cover srcs) := by
  intro c p hv h
  simp only [mergedSrc, mergedLookup] at h ⊢
  have key : ∀ (l : List (Op β)) (bl : List β), (∀ o ∈ l, CoversV o.src) →
      (∀ o ∈ l, ∀ c, Pyramid.has o.src.cover c = true → Pyramid.has cover c = true) →
      mergedBlobs ops l c = .ok bl → bl ≠ [] → Pyramid.has cover c = true := by
    intro l
    induction l with
    | nil => intro bl _ _ hb hne; simp [mergedBlobs] at hb; subst hb; exact absurd rfl hne
    | cons o os ih =>
      intro bl hs' hu' hb hne
      simp only [mergedBlobs] at hb
      cases hl : o.src.lookup c with
      | ok r =>
        rw [hl] at hb
        cases hm : mergedBlobs ops os c with
        | ok rest =>
          rw [hm] at hb
          cases r with
          | some v => exact hu' o (by simp) c (hs' o (by simp) c v hv hl)
          | none =>
            simp only [Outcome.ok.injEq] at hb
            subst hb
            exact ih rest (fun x hx => hs' x (by simp [hx])) (fun x hx => hu' x (by simp [hx])) hm hne
        | err => rw [hm] at hb; cases hb
        | panic => rw [hm] at hb; cases hb
      | err => rw [hl] at hb; cases hb
      | panic => rw [hl] at hb; cases hb
  cases hm : mergedBlobs ops srcs c with
  | ok bl =>
    cases bl with
    | nil => rw [hm] at h; cases h
    | cons b bs => exact key srcs (b :: bs) hs hu hm (by simp)
  | err => rw [hm] at h; cases h
  | panic => rw [hm] at h; cases h

theorem map_coversV {β : Type} (f : β → β) (s : Src β) (hs : CoversV s) : CoversV (mapSrc f s) := by
  intro c p hv h
  simp only [mapSrc] at h ⊢
  cases hl : s.lookup c with
  | ok o =>
    cases o with
    | none => rw [hl] at h; cases h
    | some v => exact hs c v hv hl
  | err => rw [hl] at h; cases h
  | panic => rw [hl] at h; cases h

theorem debug_coversV {β : Type} (ops : Ops β) (fmt : Nat) : CoversV (debugOp ops fmt).src := by
  intro c _ hv _
  exact newFull31_has c hv

/-! ### one construction step -/

/-- what the induction carries: a good source (C02; gives the well-formed coverage) that covers
    its tiles (C03) -/
def GC {β : Type} (s : Src β) : Prop := Good s ∧ CoversV s

theorem buildZoom_gc {β : Type} {zmin zmax : Option Nat} {o o' : Op β} (ho : GC o.src)
    (h : buildZoom zmin zmax o = .ok o') : GC o'.src := by
  refine ⟨buildZoom_good ho.1 h, ?_⟩
  unfold buildZoom at h
  split at h
  · cases h
  · cases h; exact Covers.toV (filter_covers _ _)

theorem buildBBox_gc {β : Type} {q : Outcome Pyramid} {o o' : Op β} (ho : GC o.src)
    (h : buildBBox q o = .ok o') : GC o'.src := by
  refine ⟨buildBBox_good ho.1 h, ?_⟩
  unfold buildBBox at h
  split at h
  · cases h
  · cases h
  · split at h
    · cases h; exact Covers.toV (filter_covers _ _)
    · cases h

theorem buildUpdate_gc {β : Type} {ops : Ops β} {o o' : Op β} (ho : GC o.src)
    (h : buildUpdate ops o = .ok o') : GC o'.src := by
  refine ⟨buildUpdate_good ho.1 h, ?_⟩
  unfold buildUpdate at h
  split at h
  · cases h
  · cases h; exact map_coversV _ _ ho.2

theorem buildOverlay_gc {β : Type} {ops : Ops β} {srcs : List (Op β)} {o' : Op β}
    (hs : ∀ o ∈ srcs, GC o.src) (h : buildOverlay ops srcs = .ok o') : GC o'.src := by
  refine ⟨buildOverlay_good (fun o ho => (hs o ho).1) h, ?_⟩
  unfold buildOverlay at h
  split at h
  · cases h
  · cases h
  · rename_i first rest _
    split at h
    · cases h
    · split at h
      · rename_i cover hc
        cases h
        apply overlay_coversV _ _ _ _ (fun o ho => (hs o ho).2)
        intro o ho c hin
        exact unionCover_has _ (fun o ho => (hs o ho).1.cover_wf) _ _ (hs first (by simp)).1.cover_wf hc c
          (Or.inr ⟨o, ho, hin⟩)
      · cases h

theorem buildMerged_gc {β : Type} {ops : Ops β} {srcs : List (Op β)} {o' : Op β}
    (hs : ∀ o ∈ srcs, GC o.src) (h : buildMerged ops srcs = .ok o') : GC o'.src := by
  refine ⟨buildMerged_good (fun o ho => (hs o ho).1) h, ?_⟩
  unfold buildMerged at h
  split at h
  · cases h
  · cases h
  · rename_i first rest _
    split at h
    · cases h
    · split at h
      · rename_i cover hc
        cases h
        apply merged_coversV _ _ _ (fun o ho => (hs o ho).2)
        intro o ho c hin
        exact unionCover_has _ (fun o ho => (hs o ho).1.cover_wf) _ _ (hs first (by simp)).1.cover_wf hc c
          (Or.inr ⟨o, ho, hin⟩)
      · cases h

/-! ### every nesting -/

mutual
theorem build_gc {β : Type} (ops : Ops β) (env : Nat → Outcome (Op β))
    (henv : ∀ i o, env i = .ok o → GC o.src) :
    ∀ (p : Pipe), p.DebugOK → ∀ (o : Op β), build ops env p = .ok o → GC o.src
  | .leaf i, _, o, h => henv i o (by simpa only [build] using h)
  | .debug fmt, hd, o, h => by
    simp only [build] at h
    cases h
    exact ⟨debug_good ops hd, debug_coversV ops fmt⟩
  | .filterZoom zmin zmax p, hd, o, h => by
    simp only [build] at h
    split at h
    · rename_i o1 h1
      exact buildZoom_gc (build_gc ops env henv p hd o1 h1) h
    · exact False.elim (‹∀ (o : Op β), build ops env p = Outcome.ok o → False› o h)
  | .filterBBox q p, hd, o, h => by
    simp only [build] at h
    split at h
    · rename_i o1 h1
      exact buildBBox_gc (build_gc ops env henv p hd o1 h1) h
    · exact False.elim (‹∀ (o : Op β), build ops env p = Outcome.ok o → False› o h)
  | .update p, hd, o, h => by
    simp only [build] at h
    split at h
    · rename_i o1 h1
      exact buildUpdate_gc (build_gc ops env henv p hd o1 h1) h
    · exact False.elim (‹∀ (o : Op β), build ops env p = Outcome.ok o → False› o h)
  | .overlay ps, hd, o, h => by
    simp only [build] at h
    split at h
    · rename_i srcs hs
      exact buildOverlay_gc (buildAll_gc ops env henv ps hd srcs hs) h
    · cases h
    · cases h
  | .merged ps, hd, o, h => by
    simp only [build] at h
    split at h
    · rename_i srcs hs
      exact buildMerged_gc (buildAll_gc ops env henv ps hd srcs hs) h
    · cases h
    · cases h
theorem buildAll_gc {β : Type} (ops : Ops β) (env : Nat → Outcome (Op β))
    (henv : ∀ i o, env i = .ok o → GC o.src) :
    ∀ (ps : Pipes), ps.DebugOK → ∀ (os : List (Op β)), buildAll ops env ps = .ok os → ∀ o ∈ os, GC o.src
  | .nil, _, os, h => by
    simp only [buildAll] at h
    cases h
    intro o ho
    exact absurd ho List.not_mem_nil
  | .cons p ps, hd, os, h => by
    simp only [buildAll] at h
    split at h
    · rename_i o1 h1
      split at h
      · rename_i os1 h2
        cases h
        intro o ho
        rcases List.mem_cons.mp ho with rfl | ho'
        · exact build_gc ops env henv p hd.1 _ h1
        · exact buildAll_gc ops env henv ps hd.2 os1 h2 o ho'
      · cases h
      · cases h
    · cases h
    · cases h
end

end VtProofs.PipeCovers
