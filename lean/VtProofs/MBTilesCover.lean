import VtModel.MBTiles
/-!
MBTiles reader: the "estimate on three columns, then refine" computation of the per-level row range
(`get_bbox_pyramid`, reader.rs:222-273) yields the exact column / row range of the level, and the
advertised coverage contains every stored tile.
-/
namespace VtProofs.MBTilesCover
open VtModel VtModel.Fmt VtModel.MBTiles

/-! ### MIN / MAX as folds -/

theorem fold_min_spec (f : Row → Nat) : ∀ (l : List Row) (a : Nat),
    ∃ m, l.foldl (fun acc r => match acc with | none => some (f r) | some a => some (min a (f r))) (some a) = some m ∧
      m ≤ a ∧ (∀ r ∈ l, m ≤ f r) ∧ (m = a ∨ ∃ r ∈ l, f r = m) := by
  intro l
  induction l with
  | nil => intro a; exact ⟨a, rfl, Nat.le_refl _, by simp, Or.inl rfl⟩
  | cons r l ih =>
    intro a
    simp only [List.foldl_cons]
    obtain ⟨m, h1, h2, h3, h4⟩ := ih (min a (f r))
    refine ⟨m, h1, by omega, ?_, ?_⟩
    · intro x hx
      cases hx with
      | head => omega
      | tail _ hx => exact h3 x hx
    · rcases h4 with h4 | ⟨x, hx, hxe⟩
      · by_cases hc : a ≤ f r
        · left; omega
        · right; exact ⟨r, by simp, by omega⟩
      · right; exact ⟨x, by simp [hx], hxe⟩

theorem fold_max_spec (f : Row → Nat) : ∀ (l : List Row) (a : Nat),
    ∃ m, l.foldl (fun acc r => match acc with | none => some (f r) | some a => some (max a (f r))) (some a) = some m ∧
      a ≤ m ∧ (∀ r ∈ l, f r ≤ m) ∧ (m = a ∨ ∃ r ∈ l, f r = m) := by
  intro l
  induction l with
  | nil => intro a; exact ⟨a, rfl, Nat.le_refl _, by simp, Or.inl rfl⟩
  | cons r l ih =>
    intro a
    simp only [List.foldl_cons]
    obtain ⟨m, h1, h2, h3, h4⟩ := ih (max a (f r))
    refine ⟨m, h1, by omega, ?_, ?_⟩
    · intro x hx
      cases hx with
      | head => omega
      | tail _ hx => exact h3 x hx
    · rcases h4 with h4 | ⟨x, hx, hxe⟩
      · by_cases hc : f r ≤ a
        · left; omega
        · right; exact ⟨r, by simp, by omega⟩
      · right; exact ⟨x, by simp [hx], hxe⟩

/-- `SELECT MIN(f) … WHERE p`: `NULL` iff no row matches, otherwise a lower bound that is attained -/
theorem qmin_spec (db : DB) (p : Row → Bool) (f : Row → Nat) :
    (qmin db p f = none ∧ ∀ r ∈ db, p r = false) ∨
    (∃ m, qmin db p f = some m ∧ (∀ r ∈ db, p r = true → m ≤ f r) ∧ ∃ r ∈ db, p r = true ∧ f r = m) := by
  unfold qmin
  cases hl : db.filter p with
  | nil =>
    left
    refine ⟨rfl, ?_⟩
    intro r hr
    cases hp : p r with
    | false => rfl
    | true =>
      have : r ∈ db.filter p := List.mem_filter.2 ⟨hr, hp⟩
      rw [hl] at this; cases this
  | cons a l =>
    right
    simp only [List.foldl_cons]
    obtain ⟨m, h1, h2, h3, h4⟩ := fold_min_spec f l (f a)
    have hmem : ∀ r, r ∈ a :: l ↔ (r ∈ db ∧ p r = true) := by
      intro r; rw [← hl, List.mem_filter]
    refine ⟨m, h1, ?_, ?_⟩
    · intro r hr hp
      have := (hmem r).2 ⟨hr, hp⟩
      cases this with
      | head => exact h2
      | tail _ h => exact h3 r h
    · rcases h4 with h4 | ⟨x, hx, hxe⟩
      · have := (hmem a).1 (by simp)
        exact ⟨a, this.1, this.2, h4.symm⟩
      · have := (hmem x).1 (by simp [hx])
        exact ⟨x, this.1, this.2, hxe⟩

theorem qmax_spec (db : DB) (p : Row → Bool) (f : Row → Nat) :
    (qmax db p f = none ∧ ∀ r ∈ db, p r = false) ∨
    (∃ m, qmax db p f = some m ∧ (∀ r ∈ db, p r = true → f r ≤ m) ∧ ∃ r ∈ db, p r = true ∧ f r = m) := by
  unfold qmax
  cases hl : db.filter p with
  | nil =>
    left
    refine ⟨rfl, ?_⟩
    intro r hr
    cases hp : p r with
    | false => rfl
    | true =>
      have : r ∈ db.filter p := List.mem_filter.2 ⟨hr, hp⟩
      rw [hl] at this; cases this
  | cons a l =>
    right
    simp only [List.foldl_cons]
    obtain ⟨m, h1, h2, h3, h4⟩ := fold_max_spec f l (f a)
    have hmem : ∀ r, r ∈ a :: l ↔ (r ∈ db ∧ p r = true) := by
      intro r; rw [← hl, List.mem_filter]
    refine ⟨m, h1, ?_, ?_⟩
    · intro r hr hp
      have := (hmem r).2 ⟨hr, hp⟩
      cases this with
      | head => exact h2
      | tail _ h => exact h3 r h
    · rcases h4 with h4 | ⟨x, hx, hxe⟩
      · have := (hmem a).1 (by simp)
        exact ⟨a, this.1, this.2, h4.symm⟩
      · have := (hmem x).1 (by simp [hx])
        exact ⟨x, this.1, this.2, hxe⟩

/-! ### the level range -/

/-- **estimate-then-refine is exact**: for a level that has rows, `levelRange` returns the exact
    minimum / maximum column and row of the level (bounds that are attained) -/
theorem levelRange_exact (db : DB) (z : Nat) (hne : ∃ r ∈ db, r.z = z) :
    ∃ x0 y0 x1 y1, levelRange db z = some (x0, y0, x1, y1) ∧
      (∀ r ∈ db, r.z = z → x0 ≤ r.col ∧ r.col ≤ x1 ∧ y0 ≤ r.row ∧ r.row ≤ y1) ∧
      (∃ r ∈ db, r.z = z ∧ r.col = x0) ∧ (∃ r ∈ db, r.z = z ∧ r.col = x1) ∧
      (∃ r ∈ db, r.z = z ∧ r.row = y0) ∧ (∃ r ∈ db, r.z = z ∧ r.row = y1) := by
  obtain ⟨r0, hr0, hz0⟩ := hne
  have pz : ∀ r : Row, (r.z == z) = true ↔ r.z = z := by intro r; simp
  unfold levelRange
  -- columns
  rcases qmin_spec db (fun r => r.z == z) (·.col) with ⟨_, hnone⟩ | ⟨x0, hx0, hx0lb, rx0, hrx0, hpx0, hex0⟩
  · have := hnone r0 hr0; simp [hz0] at this
  rcases qmax_spec db (fun r => r.z == z) (·.col) with ⟨_, hnone⟩ | ⟨x1, hx1, hx1ub, rx1, hrx1, hpx1, hex1⟩
  · have := hnone r0 hr0; simp [hz0] at this
  simp only [hx0, hx1]
  -- estimate on the three columns: the row of `rx0` lies in the selection
  generalize hcols : (fun (r : Row) => r.z == z && (r.col == x0 || r.col == (x0 + x1) / 2 || r.col == x1)) = cols
  have hcols_z : ∀ r, cols r = true → r.z = z := by
    intro r h; rw [← hcols] at h; simp only [Bool.and_eq_true, beq_iff_eq] at h; exact h.1
  have hsel : cols rx0 = true := by
    rw [← hcols]; simp only [Bool.and_eq_true, Bool.or_eq_true, beq_iff_eq]
    exact ⟨(pz rx0).1 hpx0, Or.inl (Or.inl hex0)⟩
  rcases qmin_spec db cols (·.row) with ⟨_, hnone⟩ | ⟨y0e, hy0e, _, ry0e, hry0e, hpy0e, hey0e⟩
  · have := hnone rx0 hrx0; rw [hsel] at this; cases this
  rcases qmax_spec db cols (·.row) with ⟨_, hnone⟩ | ⟨y1e, hy1e, _, ry1e, hry1e, hpy1e, hey1e⟩
  · have := hnone rx0 hrx0; rw [hsel] at this; cases this
  simp only [hy0e, hy1e]
  -- refinement
  rcases qmin_spec db (fun r => r.z == z && decide (r.row ≤ y0e)) (·.row) with ⟨_, hnone⟩ | ⟨y0, hy0, hy0lb, ry0, hry0, hpy0, hey0⟩
  · have := hnone ry0e hry0e
    simp [hcols_z ry0e hpy0e, hey0e] at this
  rcases qmax_spec db (fun r => r.z == z && decide (r.row ≥ y1e)) (·.row) with ⟨_, hnone⟩ | ⟨y1, hy1, hy1ub, ry1, hry1, hpy1, hey1⟩
  · have := hnone ry1e hry1e
    simp [hcols_z ry1e hpy1e, hey1e] at this
  simp only [hy0, hy1]
  simp only [Bool.and_eq_true, beq_iff_eq, decide_eq_true_eq] at hpy0 hpy1
  have hy0le : y0 ≤ y0e := by rw [← hey0]; exact hpy0.2
  have hy1ge : y1e ≤ y1 := by rw [← hey1]; exact hpy1.2
  refine ⟨x0, y0, x1, y1, rfl, ?_, ⟨rx0, hrx0, (pz rx0).1 hpx0, hex0⟩, ⟨rx1, hrx1, (pz rx1).1 hpx1, hex1⟩,
    ⟨ry0, hry0, hpy0.1, hey0⟩, ⟨ry1, hry1, hpy1.1, hey1⟩⟩
  intro r hr hz
  refine ⟨hx0lb r hr ((pz r).2 hz), hx1ub r hr ((pz r).2 hz), ?_, ?_⟩
  · by_cases h : r.row ≤ y0e
    · exact hy0lb r hr (by simp [hz, h])
    · omega
  · by_cases h : r.row ≥ y1e
    · exact hy1ub r hr (by simp [hz, h])
    · omega

theorem c2iff (b : BBox) (x y : Nat) :
    b.contains2 x y = true ↔ (b.xmin ≤ x ∧ x ≤ b.xmax ∧ b.ymin ≤ y ∧ y ≤ b.ymax) := by
  simp [BBox.contains2]
  omega

/-- the level box contains every stored tile of the level (columns / TMS rows inside the level) -/
theorem levelBox_contains (db : DB) (z : Nat) (r : Row) (hr : r ∈ db) (hz : r.z = z)
    (hc : r.col < 2 ^ z) (hrow : r.row < 2 ^ z) :
    ∃ rg, levelRange db z = some rg ∧ (levelBox z rg).level = z ∧
      (levelBox z rg).contains2 r.col (2 ^ z - 1 - r.row) = true := by
  obtain ⟨x0, y0, x1, y1, h1, h2, _⟩ := levelRange_exact db z ⟨r, hr, hz⟩
  obtain ⟨a, b, c, d⟩ := h2 r hr hz
  refine ⟨_, h1, rfl, ?_⟩
  rw [c2iff]
  simp only [levelBox]
  have hp : 0 < 2 ^ z := Nat.two_pow_pos _
  omega

theorem coverLevels_mem (db : DB) : ∀ (zs : List Nat) (l : List BBox), coverLevels db true zs = .ok l →
    ∀ z ∈ zs, ∀ rg, levelRange db z = some rg → levelBox z rg ∈ l := by
  intro zs
  induction zs with
  | nil => intro l _ z hz; cases hz
  | cons a zs ih =>
    intro l h z hz rg hrg
    unfold coverLevels at h
    cases ha : levelRange db a with
    | none =>
      rw [ha] at h
      simp only [if_true] at h
      cases hz with
      | head => rw [ha] at hrg; cases hrg
      | tail _ hz => exact ih l h z hz rg hrg
    | some rga =>
      rw [ha] at h
      simp only at h
      split at h
      · cases h
      · cases hrest : coverLevels db true zs with
        | ok l' =>
          rw [hrest] at h
          injection h with h
          subst h
          cases hz with
          | head => rw [ha] at hrg; injection hrg with hrg; subst hrg; simp
          | tail _ hz => exact List.mem_cons_of_mem _ (ih l' hrest z hz rg hrg)
        | err => rw [hrest] at h; cases h
        | panic => rw [hrest] at h; cases h

/-- **coverage ⊇ tiles (mbtiles)**: every stored tile with in-range column / row lies inside the advertised
    box of its level -/
theorem cover_contains (f : Option String) (db : DB) (r : Reader) (h : openReader f db = .ok r)
    (row : Row) (hrow : row ∈ db) (hc : row.col < 2 ^ row.z) (hr : row.row < 2 ^ row.z) :
    ∃ box ∈ r.cover, box.level = row.z ∧ box.contains2 row.col (2 ^ row.z - 1 - row.row) = true := by
  unfold openReader openWith at h
  rcases qmin_spec db (fun _ => true) (·.z) with ⟨_, hnone⟩ | ⟨z0, hz0, hz0lb, _⟩
  · have := hnone row hrow; cases this
  rcases qmax_spec db (fun _ => true) (·.z) with ⟨_, hnone⟩ | ⟨z1, hz1, hz1ub, _⟩
  · have := hnone row hrow; cases this
  simp only [hz0, hz1] at h
  cases hcov : coverLevels db true (List.range' z0 (z1 + 1 - z0)) with
  | err => rw [hcov] at h; cases h
  | panic => rw [hcov] at h; cases h
  | ok cov =>
    rw [hcov] at h
    simp only at h
    have hrcov : r.cover = cov := by
      cases f with
      | none => cases h
      | some fs =>
        simp only at h
        cases hf : formatOf fs with
        | ok p => rw [hf] at h; obtain ⟨a, b⟩ := p; simp only at h; injection h with h; rw [← h]
        | err => rw [hf] at h; cases h
        | panic => rw [hf] at h; cases h
    obtain ⟨rg, h1, h2, h3⟩ := levelBox_contains db row.z row hrow rfl hc hr
    have hzmem : row.z ∈ List.range' z0 (z1 + 1 - z0) := by
      rw [List.mem_range'_1]
      have := hz0lb row hrow rfl
      have := hz1ub row hrow rfl
      omega
    exact ⟨levelBox row.z rg, by rw [hrcov]; exact coverLevels_mem db _ cov hcov row.z hzmem rg h1, h2, h3⟩

end VtProofs.MBTilesCover
