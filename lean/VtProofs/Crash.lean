import VtModel.Crash
import VtProofs.FmtBytes
/-!
Helper lemmas for C12: positional writes, big-endian prefixes, header regions.
-/
namespace VtModel.Crash
open VtModel.Fmt (Bytes beDec beEnc leDec leEnc)

theorem bind_const_none {α β} (x : Option α) : x.bind (fun _ => (none : Option β)) = none := by
  cases x <;> rfl

theorem headD_drop (l : Bytes) (i : Nat) : (l.drop i).headD 0 = l[i]?.getD 0 := by
  simp [List.headD_eq_head?_getD, List.head?_drop]

@[simp] theorem zeros_length (n : Nat) : (zeros n).length = n := by simp [zeros]

theorem getElem?_zeros (n i : Nat) : (zeros n)[i]?.getD 0 = 0 := by
  simp [zeros, List.getElem?_replicate]
  split <;> rfl

/-! ### big-endian values of torn fields -/

theorem foldl_be (acc : Nat) (b : Bytes) :
    b.foldl (fun acc x => acc * 256 + x.toNat) acc
      = acc * 256 ^ b.length + b.foldl (fun acc x => acc * 256 + x.toNat) 0 := by
  induction b generalizing acc with
  | nil => simp
  | cons x xs ih =>
    simp only [List.foldl_cons, List.length_cons]
    rw [ih (acc * 256 + x.toNat), ih (0 * 256 + x.toNat), Nat.pow_succ]
    simp only [Nat.zero_mul, Nat.zero_add, Nat.add_mul]
    rw [Nat.mul_assoc, Nat.mul_comm 256 (256 ^ xs.length)]
    omega

theorem beDec_append (a b : Bytes) : beDec (a ++ b) = beDec a * 256 ^ b.length + beDec b := by
  simp only [beDec, List.foldl_append]
  exact foldl_be _ b

theorem beDec_cons (x : UInt8) (xs : Bytes) : beDec (x :: xs) = x.toNat * 256 ^ xs.length + beDec xs := by
  have := beDec_append [x] xs
  simpa [beDec] using this

theorem beDec_zeros (n : Nat) : beDec (zeros n) = 0 := by
  induction n with
  | zero => rfl
  | succ n ih =>
    have : zeros (n + 1) = 0 :: zeros n := by simp [zeros, List.replicate_succ]
    rw [this, beDec_cons, ih]; simp

theorem beDec_eq_zero {b : Bytes} (h : beDec b = 0) : b = zeros b.length := by
  induction b with
  | nil => rfl
  | cons x xs ih =>
    rw [beDec_cons] at h
    have hp : 0 < 256 ^ xs.length := Nat.pow_pos (by omega)
    have hx : x.toNat = 0 := by
      rcases Nat.eq_zero_or_pos x.toNat with h0 | h0
      · exact h0
      · have : 0 < x.toNat * 256 ^ xs.length := Nat.mul_pos h0 hp
        omega
    have hx0 : x = 0 := UInt8.toNat_inj.mp (by simpa using hx)
    subst hx0
    have hb : beDec xs = 0 := by simpa using h
    have := ih hb
    simp only [List.length_cons, zeros, List.replicate_succ]
    rw [show List.replicate xs.length (0 : UInt8) = zeros xs.length from rfl, ← this]

/-- a big-endian field of which only the first `j` bytes have been written over zeros:
    its value is at most the full value, and equal only if the unwritten bytes are zeros anyway -/
theorem torn_be (d : Bytes) (j : Nat) :
    beDec (d.take j ++ zeros (d.length - j)) ≤ beDec d ∧
    (beDec (d.take j ++ zeros (d.length - j)) = beDec d → d.take j ++ zeros (d.length - j) = d) := by
  have hd : d = d.take j ++ d.drop j := (List.take_append_drop j d).symm
  have hl : (d.drop j).length = d.length - j := by simp
  have e1 : beDec (d.take j ++ zeros (d.length - j)) = beDec (d.take j) * 256 ^ (d.length - j) := by
    rw [beDec_append, beDec_zeros]; simp
  have e2 : beDec d = beDec (d.take j) * 256 ^ (d.length - j) + beDec (d.drop j) := by
    conv => lhs; rw [hd]
    rw [beDec_append, hl]
  refine ⟨by omega, fun h => ?_⟩
  have h0 : beDec (d.drop j) = 0 := by omega
  have := beDec_eq_zero h0
  rw [hl] at this
  conv => rhs; rw [hd]
  rw [← this]

theorem beEnc_length (n v : Nat) : (beEnc n v).length = n := VtProofs.Fmt.length_beEnc n v

theorem beDec_beEnc (n v : Nat) (h : v < 256 ^ n) : beDec (beEnc n v) = v := VtProofs.Fmt.beDec_beEnc n v h

theorem beEnc_zero (n : Nat) : beEnc n 0 = zeros n := by
  induction n with
  | zero => rfl
  | succ n ih =>
    simp only [beEnc, Nat.zero_div, ih, Nat.zero_mod]
    simp [zeros, List.replicate_succ']

/-! ### positional writes -/

theorem writeAt_zero (f b : Bytes) : writeAt f 0 b = b ++ f.drop b.length := by
  simp [writeAt, zeros]

theorem writeAt_end (f b : Bytes) : writeAt f f.length b = f ++ b := by
  simp [writeAt, zeros]

/-- bytes before the write position are unchanged (absent bytes read as 0, like the zero fill) -/
theorem getElem?_writeAt_lt (f b : Bytes) (pos i : Nat) (h : i < pos) :
    (writeAt f pos b)[i]?.getD 0 = f[i]?.getD 0 := by
  unfold writeAt
  simp only []
  rw [List.append_assoc, List.getElem?_append_left (by simp; omega)]
  rw [List.getElem?_take_of_lt h]
  by_cases hi : i < f.length
  · rw [List.getElem?_append_left hi]
  · rw [List.getElem?_append_right (by omega)]
    rw [getElem?_zeros]
    simp [List.getElem?_eq_none (Nat.le_of_not_lt hi)]

end VtModel.Crash
