import VtModel.Prim
/-! Lemmas about the byte-level primitives (`VtModel.Prim`): every writer is inverted by its reader. -/
namespace VtProofs.Prim
open VtModel VtModel.Prim

@[simp] theorem bind_ok {α β} (a : α) (f : α → Outcome β) : (Outcome.ok a >>= f) = f a := rfl
@[simp] theorem bind_err {α β} (f : α → Outcome β) : ((Outcome.err : Outcome α) >>= f) = .err := rfl
@[simp] theorem bind_panic {α β} (f : α → Outcome β) : ((Outcome.panic : Outcome α) >>= f) = .panic := rfl
@[simp] theorem pure_eq {α} (a : α) : (pure a : Outcome α) = .ok a := rfl

/-! ### zig-zag -/

theorem zigzag_roundtrip (i : Int) : zigzagDecode (zigzagEncode i) = i := by
  unfold zigzagDecode zigzagEncode
  split <;> split <;> omega

theorem zigzag_decode_encode (v : Nat) : zigzagEncode (zigzagDecode v) = v := by
  unfold zigzagDecode zigzagEncode
  split <;> split <;> omega

theorem zigzagEncode_lt (i : Int) (h1 : -(2:Int)^63 ≤ i) (h2 : i < (2:Int)^63) : zigzagEncode i < U64 := by
  unfold zigzagEncode U64
  split <;> omega

/-! ### varint -/

theorem u8_toNat_ofNat (n : Nat) (h : n < 256) : (UInt8.ofNat n).toNat = n := by
  simp [UInt8.toNat_ofNat']
  omega

theorem lor_shift (v x s : Nat) (hv : v < 2 ^ s) : v ||| (x * 2 ^ s) = v + x * 2 ^ s := by
  rw [← Nat.shiftLeft_eq, Nat.or_comm, ← Nat.shiftLeft_add_eq_or_of_lt hv, Nat.add_comm]

theorem split128 (n P : Nat) : n * P = (n / 128) * (128 * P) + (n % 128) * P := by
  have h := Nat.div_add_mod n 128
  calc n * P = (128 * (n / 128) + n % 128) * P := by rw [h]
    _ = _ := by grind

theorem readVarintAux_write (n : Nat) : ∀ (v s p : Nat) (r : Bytes), v < 2 ^ s → v + n * 2 ^ s < U64 →
    readVarintAux (writeVarint n ++ r) p v s = .ok (v + n * 2 ^ s, ⟨p + (writeVarint n).length, r⟩) := by
  induction n using Nat.strongRecOn with
  | _ n ih =>
    intro v s p r hv hlt
    rw [writeVarint]
    by_cases hn : n < 128
    · simp only [hn, if_true, List.cons_append, List.nil_append, readVarintAux, List.length_singleton]
      rw [u8_toNat_ofNat n (by omega)]
      have h1 : n % 128 = n := Nat.mod_eq_of_lt hn
      have h2 : (n <<< s) % U64 = n * 2 ^ s := by
        rw [Nat.shiftLeft_eq]; exact Nat.mod_eq_of_lt (by omega)
      simp only [h1, h2, hn, if_true]
      rw [lor_shift v n s hv]
    · simp only [hn, if_false, List.cons_append, readVarintAux, List.length_cons]
      have hb : n % 128 + 128 < 256 := by omega
      rw [u8_toNat_ofNat _ hb]
      have h1 : (n % 128 + 128) % 128 = n % 128 := by omega
      have hsp := split128 n (2 ^ s)
      have hpos : 0 < 2 ^ s := Nat.two_pow_pos s
      have hq : 1 ≤ n / 128 := by omega
      have hqP : 128 * 2 ^ s ≤ (n / 128) * (128 * 2 ^ s) := Nat.le_mul_of_pos_left _ (by omega)
      have hm : (n % 128) * 2 ^ s ≤ 127 * 2 ^ s := Nat.mul_le_mul_right _ (by omega)
      have hp7 : 2 ^ (s + 7) = 128 * 2 ^ s := by rw [Nat.pow_add]; omega
      have hs : s + 7 < 64 := by
        have : 2 ^ (s + 7) < 2 ^ 64 := by unfold U64 at hlt; omega
        exact (Nat.pow_lt_pow_iff_right (by omega)).mp this
      have h2 : ((n % 128) <<< s) % U64 = (n % 128) * 2 ^ s := by
        rw [Nat.shiftLeft_eq]; exact Nat.mod_eq_of_lt (by omega)
      have h3 : ¬ (n % 128 + 128 < 128) := by omega
      have h4 : ¬ (s + 7 ≥ 70) := by omega
      simp only [h1, h2, h3, h4, if_false]
      rw [lor_shift v _ s hv]
      rw [ih (n / 128) (by omega) _ (s + 7) (p + 1) r (by omega) (by rw [hp7]; omega)]
      congr 2
      · rw [hp7]; omega
      · congr 1; omega

/-- `read_varint` inverts `write_varint` for every `u64`, whatever follows. -/
theorem readVarint_write (n : Nat) (hn : n < U64) (p : Nat) (r : Bytes) :
    readVarint ⟨p, writeVarint n ++ r⟩ = .ok (n, ⟨p + (writeVarint n).length, r⟩) := by
  unfold readVarint
  have := readVarintAux_write n 0 0 p r (by omega) (by simpa using hn)
  simpa using this

theorem writeVarint_length_pos (n : Nat) : 0 < (writeVarint n).length := by
  rw [writeVarint]; split <;> simp

theorem writeVarint_ne_nil (n : Nat) : writeVarint n ≠ [] := by
  intro h; have := writeVarint_length_pos n; rw [h] at this; simp at this

/-- `read_svarint` inverts `write_svarint` for every `i64`. -/
theorem readSVarint_write (i : Int) (h1 : -(2:Int)^63 ≤ i) (h2 : i < (2:Int)^63) (p : Nat) (r : Bytes) :
    readSVarint ⟨p, writeSVarint i ++ r⟩ = .ok (i, ⟨p + (writeSVarint i).length, r⟩) := by
  unfold readSVarint writeSVarint
  rw [readVarint_write _ (zigzagEncode_lt i h1 h2)]
  simp [zigzag_roundtrip]

theorem readPbfKey_write (f w : Nat) (hf : f < 2 ^ 29) (hw : w < 8) (p : Nat) (r : Bytes) :
    readPbfKey ⟨p, writePbfKey f w ++ r⟩ = .ok ((f, w), ⟨p + (writePbfKey f w).length, r⟩) := by
  unfold readPbfKey writePbfKey
  rw [readVarint_write _ (by unfold U64; omega)]
  have h1 : (f * 8 + w) / 8 % U32 = f := by unfold U32; omega
  have h2 : (f * 8 + w) % 8 = w := by omega
  simp [h1, h2]

/-! ### length-delimited payloads -/

theorem subReader_append (b r : Bytes) (p : Nat) (h : p + b.length < U64) :
    subReader ⟨p, b ++ r⟩ b.length = .ok (b, ⟨p + b.length, r⟩) := by
  unfold subReader
  have h1 : ¬ (p + b.length ≥ U64) := by omega
  simp [h1]

theorem readPbfSub_write (b r : Bytes) (p : Nat) (h : p + (writePbfBlob b).length < U64) :
    readPbfSub ⟨p, writePbfBlob b ++ r⟩ = .ok (b, ⟨p + (writePbfBlob b).length, r⟩) := by
  unfold readPbfSub writePbfBlob at *
  simp only [List.length_append] at h
  rw [List.append_assoc, readVarint_write _ (by omega)]
  simp only
  rw [subReader_append b r _ (by omega)]
  simp [Nat.add_assoc]

theorem readBytes_append (b r : Bytes) (p : Nat) :
    readBytes ⟨p, b ++ r⟩ b.length = .ok (b, ⟨p + b.length, r⟩) := by
  unfold readBytes
  have h : ¬ (b.length > (b ++ r).length) := by simp
  simp only [h, if_false]
  simp

theorem readPbfBlob_write (b r : Bytes) (p : Nat) (h : b.length < U64) :
    readPbfBlob ⟨p, writePbfBlob b ++ r⟩ = .ok (b, ⟨p + (writePbfBlob b).length, r⟩) := by
  unfold readPbfBlob writePbfBlob
  rw [List.append_assoc, readVarint_write _ h]
  simp only
  rw [readBytes_append]
  simp [Nat.add_assoc]

theorem readString_append (b r : Bytes) (p : Nat) (hu : utf8Ok b = true) :
    readString ⟨p, b ++ r⟩ b.length = .ok (b, ⟨p + b.length, r⟩) := by
  unfold readString
  rw [readBytes_append]
  simp [hu]

theorem readPbfString_write (b r : Bytes) (p : Nat) (h : b.length < U64) (hu : utf8Ok b = true) :
    readPbfString ⟨p, writePbfBlob b ++ r⟩ = .ok (b, ⟨p + (writePbfBlob b).length, r⟩) := by
  unfold readPbfString writePbfBlob
  rw [List.append_assoc, readVarint_write _ h]
  simp only
  rw [readString_append _ _ _ hu]
  simp [Nat.add_assoc]

theorem readFixed_append (k : Nat) (b r : Bytes) (p : Nat) (h : b.length = k) :
    readFixed k ⟨p, b ++ r⟩ = .ok (b, ⟨p + k, r⟩) := by
  unfold readFixed
  subst h
  simp

/-! ### the `while has_remaining` loop -/

theorem whileRem_nil {σ} (step : σ → Reader → Outcome (σ × Reader)) (s : σ) (p : Nat) :
    whileRem step s ⟨p, []⟩ = .ok s := by
  rw [whileRem]; simp

/-- one successful iteration that consumes something -/
theorem whileRem_step {σ} (step : σ → Reader → Outcome (σ × Reader)) (s s' : σ) (r r' : Reader)
    (hne : r.rest ≠ []) (hstep : step s r = .ok (s', r')) (hlt : r'.rest.length < r.rest.length) :
    whileRem step s r = whileRem step s' r' := by
  rw [whileRem]
  have : r.rest.isEmpty = false := by
    cases h : r.rest with
    | nil => exact absurd h hne
    | cons _ _ => rfl
  simp [this, hstep, hlt]

/-- an iteration over `enc ++ rest` that leaves exactly `rest` -/
theorem whileRem_consume {σ} (step : σ → Reader → Outcome (σ × Reader)) (s s' : σ) (p p' : Nat)
    (enc rest : Bytes) (hne : enc ≠ [])
    (hstep : step s ⟨p, enc ++ rest⟩ = .ok (s', ⟨p', rest⟩)) :
    whileRem step s ⟨p, enc ++ rest⟩ = whileRem step s' ⟨p', rest⟩ := by
  cases enc with
  | nil => exact absurd rfl hne
  | cons a t =>
    apply whileRem_step _ _ _ _ _ _ hstep
    all_goals first | (simp; done) | (simp; omega)

/-! ### packed uint32 -/

theorem packed_loop (l : List Nat) (hl : ∀ t ∈ l, t < U32) : ∀ (acc : List Nat) (p : Nat),
    whileRem packedStep acc ⟨p, l.flatMap writeVarint⟩ = .ok (acc ++ l) := by
  induction l with
  | nil => intro acc p; simp [whileRem_nil]
  | cons t ts ih =>
    intro acc p
    have ht : t < U32 := hl t (by simp)
    simp only [List.flatMap_cons]
    rw [whileRem_consume packedStep acc (acc ++ [t]) p (p + (writeVarint t).length) _ _ (writeVarint_ne_nil t)]
    · rw [ih (fun x hx => hl x (by simp [hx]))]
      simp
    · unfold packedStep
      rw [readVarint_write t (by unfold U32 at ht; unfold U64; omega)]
      simp [Nat.mod_eq_of_lt ht]

theorem readPackedU32_write (l : List Nat) (hl : ∀ t ∈ l, t < U32) (r : Bytes) (p : Nat)
    (h : p + (writePackedU32 l).length < U64) :
    readPackedU32 ⟨p, writePackedU32 l ++ r⟩ = .ok (l, ⟨p + (writePackedU32 l).length, r⟩) := by
  unfold readPackedU32 writePackedU32 at *
  rw [readPbfSub_write _ _ _ h]
  simp only [Reader.ofBytes]
  rw [packed_loop l hl]
  simp

end VtProofs.Prim
