import VtProofs.TileJsonFull
/-!
C17: `TileJSON::merge` through lookups: order lemmas for byte strings, `BTreeMap::insert` keeps the
map sorted, extensionality of sorted maps, the merge laws and `default.merge(t) = t`.
-/
namespace VtProofs.TileJson
open VtModel.Json VtModel.TileJson VtProofs.Json

theorem cmpBytes_lt_of_gt : ∀ (a b : Bytes), cmpBytes a b = .gt → cmpBytes b a = .lt
  | [], [], h => by simp [cmpBytes] at h
  | [], _ :: _, h => by simp [cmpBytes] at h
  | _ :: _, [], _ => by simp [cmpBytes]
  | x :: xs, y :: ys, h => by
    simp only [cmpBytes] at h ⊢
    by_cases h1 : x < y
    · simp [h1] at h
    · by_cases h2 : y < x
      · simp [h2]
      · simp only [h1, h2, if_false] at h ⊢
        exact cmpBytes_lt_of_gt xs ys h

theorem cmpBytes_lt_trans : ∀ (a b c : Bytes), cmpBytes a b = .lt → cmpBytes b c = .lt → cmpBytes a c = .lt
  | [], [], _, h, _ => by simp [cmpBytes] at h
  | [], _ :: _, [], _, h => by simp [cmpBytes] at h
  | [], _ :: _, _ :: _, _, _ => by simp [cmpBytes]
  | _ :: _, [], _, h, _ => by simp [cmpBytes] at h
  | _ :: _, _ :: _, [], _, h => by simp [cmpBytes] at h
  | x :: xs, y :: ys, z :: zs, h1, h2 => by
    simp only [cmpBytes] at h1 h2 ⊢
    have lx : ∀ {p q : UInt8}, p < q ↔ p.toNat < q.toNat := UInt8.lt_iff_toNat_lt
    by_cases a1 : x < y
    · by_cases b1 : y < z
      · have : x < z := by rw [lx] at *; omega
        simp [this]
      · by_cases b2 : z < y
        · simp [b1, b2] at h2
        · have : y = z := UInt8.toNat_inj.1 (by rw [lx] at b1 b2; omega)
          subst this; simp [a1]
    · by_cases a2 : y < x
      · simp [a1, a2] at h1
      · have e : x = y := UInt8.toNat_inj.1 (by rw [lx] at a1 a2; omega)
        subst e
        simp only [a1, if_false] at h1
        by_cases b1 : x < z
        · simp [b1]
        · by_cases b2 : z < x
          · simp [b1, b2] at h2
          · simp only [b1, b2, if_false] at h2 ⊢
            exact cmpBytes_lt_trans xs ys zs h1 h2

theorem cmpKey_lt_trans {a b c : Key} (h1 : cmpKey a b = .lt) (h2 : cmpKey b c = .lt) : cmpKey a c = .lt :=
  cmpBytes_lt_trans _ _ _ h1 h2
theorem cmpKey_lt_of_gt {a b : Key} (h : cmpKey a b = .gt) : cmpKey b a = .lt := cmpBytes_lt_of_gt _ _ h
theorem cmpKey_gt_of_lt {a b : Key} (h : cmpKey a b = .lt) : cmpKey b a = .gt := cmpBytes_gt_of_lt _ _ h

theorem mem_insertKV' {V : Type} (k : Key) (v : V) (L : List (Key × V)) (p : Key × V)
    (hp : p ∈ insertKV k v L) : p = (k, v) ∨ p ∈ L := mem_insertKV k v L p hp

/-- `BTreeMap::insert` keeps the map sorted -/
theorem insertKV_sorted {V : Type} (k : Key) (v : V) (L : List (Key × V)) (h : SortedKeys L) :
    SortedKeys (insertKV k v L) := by
  induction L with
  | nil => simp [insertKV, SortedKeys]
  | cons p L ih =>
    obtain ⟨k', v'⟩ := p
    have hp := List.pairwise_cons.1 h
    simp only [insertKV]
    cases hc : cmpKey k k' with
    | lt =>
      refine List.pairwise_cons.2 ⟨?_, h⟩
      intro q hq
      rcases List.mem_cons.1 hq with rfl | hq
      · exact hc
      · exact cmpKey_lt_trans hc (hp.1 q hq)
    | eq =>
      have : k = k' := cmpKey_eq hc
      subst this
      exact List.pairwise_cons.2 ⟨hp.1, hp.2⟩
    | gt =>
      refine List.pairwise_cons.2 ⟨?_, ih hp.2⟩
      intro q hq
      rcases mem_insertKV k v L q hq with rfl | hq
      · exact cmpKey_lt_of_gt hc
      · exact hp.1 q hq

theorem lookup_none_of_lt {V : Type} (k : Key) (L : List (Key × V)) (h : ∀ p ∈ L, cmpKey k p.1 = .lt) :
    lookupKV k L = none := by
  induction L with
  | nil => rfl
  | cons p L ih =>
    obtain ⟨k', v'⟩ := p
    have := h (k', v') (by simp)
    simp only at this
    simp [lookupKV, this, ih (fun q hq => h q (by simp [hq]))]

theorem lookup_none_of_gt {V : Type} (k : Key) (L : List (Key × V)) (h : ∀ p ∈ L, cmpKey p.1 k = .lt) :
    lookupKV k L = none := by
  induction L with
  | nil => rfl
  | cons p L ih =>
    obtain ⟨k', v'⟩ := p
    have := cmpKey_gt_of_lt (h (k', v') (by simp))
    simp only at this
    simp [lookupKV, this, ih (fun q hq => h q (by simp [hq]))]

theorem lookup_mem {V : Type} (k : Key) (v : V) (L : List (Key × V)) (h : lookupKV k L = some v) : (k, v) ∈ L := by
  induction L with
  | nil => simp [lookupKV] at h
  | cons p L ih =>
    obtain ⟨k', v'⟩ := p
    simp only [lookupKV] at h
    cases hc : cmpKey k k' with
    | eq =>
      have : k = k' := cmpKey_eq hc
      subst this
      simp [hc] at h; simp [h]
    | lt => simp [hc] at h; simp [ih h]
    | gt => simp [hc] at h; simp [ih h]

/-- two sorted maps with the same lookups are equal -/
theorem sorted_ext {V : Type} : (L1 L2 : List (Key × V)) → SortedKeys L1 → SortedKeys L2 →
    (∀ k, lookupKV k L1 = lookupKV k L2) → L1 = L2
  | [], [], _, _, _ => rfl
  | [], (k2, v2) :: r2, _, _, h => by
    have := h k2; simp [lookupKV, cmpKey_refl] at this
  | (k1, v1) :: r1, [], _, _, h => by
    have := h k1; simp [lookupKV, cmpKey_refl] at this
  | (k1, v1) :: r1, (k2, v2) :: r2, h1, h2, h => by
    have p1 := List.pairwise_cons.1 h1
    have p2 := List.pairwise_cons.1 h2
    have hk : k1 = k2 := by
      cases hc : cmpKey k1 k2 with
      | eq => exact cmpKey_eq hc
      | lt =>
        have a := h k1
        have : lookupKV k1 ((k2, v2) :: r2) = none :=
          lookup_none_of_lt k1 _ (by
            intro q hq
            rcases List.mem_cons.1 hq with rfl | hq
            · exact hc
            · exact cmpKey_lt_trans hc (p2.1 q hq))
        rw [this] at a; simp [lookupKV, cmpKey_refl] at a
      | gt =>
        have hc' := cmpKey_lt_of_gt hc
        have a := h k2
        have : lookupKV k2 ((k1, v1) :: r1) = none :=
          lookup_none_of_lt k2 _ (by
            intro q hq
            rcases List.mem_cons.1 hq with rfl | hq
            · exact hc'
            · exact cmpKey_lt_trans hc' (p1.1 q hq))
        rw [this] at a; simp [lookupKV, cmpKey_refl] at a
    subst hk
    have hv : v1 = v2 := by
      have := h k1; simp [lookupKV, cmpKey_refl] at this; exact this
    subst hv
    have ht : r1 = r2 := by
      apply sorted_ext r1 r2 p1.2 p2.2
      intro k
      by_cases e : k = k1
      · subst e
        rw [lookup_none_of_lt k r1 p1.1, lookup_none_of_lt k r2 p2.1]
      · have hne : (cmpKey k k1 == .eq) = false := by
          cases hc : cmpKey k k1 <;> simp
          exact e (cmpKey_eq hc)
        have := h k
        simpa [lookupKV, hne] using this
    rw [ht]


theorem lookup_of_mem_sorted {V : Type} (k : Key) (v : V) (L : List (Key × V)) (hs : SortedKeys L)
    (hm : (k, v) ∈ L) : lookupKV k L = some v := by
  induction L with
  | nil => simp at hm
  | cons p L ih =>
    obtain ⟨k', v'⟩ := p
    have hp := List.pairwise_cons.1 hs
    rcases List.mem_cons.1 hm with h | h
    · cases h; simp [lookupKV, cmpKey_refl]
    · have : cmpKey k k' = .gt := cmpKey_gt_of_lt (hp.1 (k, v) h)
      simp [lookupKV, this, ih hp.2 h]

theorem foldl_cond_sorted {V : Type} (skip : Key × V → Prop) [DecidablePred skip] (L m0 : List (Key × V))
    (h0 : SortedKeys m0) :
    SortedKeys (L.foldl (fun m kv => if skip kv then m else insertKV kv.1 kv.2 m) m0) := by
  induction L generalizing m0 with
  | nil => exact h0
  | cons p L ih =>
    simp only [List.foldl_cons]
    split
    · exact ih m0 h0
    · exact ih _ (insertKV_sorted _ _ _ h0)

/-- lookups in a map after `for (k, v) in other { if !skip { self.insert(k, v) } }` -/
theorem lookup_foldl_cond {V : Type} (skip : Key × V → Prop) [DecidablePred skip] (L : List (Key × V))
    (hs : SortedKeys L) (m0 : List (Key × V)) (k : Key) :
    lookupKV k (L.foldl (fun m kv => if skip kv then m else insertKV kv.1 kv.2 m) m0) =
      match lookupKV k L with
      | some v => if skip (k, v) then lookupKV k m0 else some v
      | none => lookupKV k m0 := by
  induction L generalizing m0 with
  | nil => simp [lookupKV]
  | cons p L ih =>
    obtain ⟨k1, v1⟩ := p
    have hp := List.pairwise_cons.1 hs
    simp only [List.foldl_cons]
    rw [ih hp.2]
    by_cases e : k = k1
    · subst e
      rw [lookup_none_of_lt k L hp.1]
      simp only [lookupKV, cmpKey_refl, beq_self_eq_true, if_true]
      split <;> simp [lookup_insert_same]
    · have hne : (cmpKey k k1 == .eq) = false := by
        cases hc : cmpKey k k1 <;> simp
        exact e (cmpKey_eq hc)
      have hm : lookupKV k (if skip (k1, v1) then m0 else insertKV k1 v1 m0) = lookupKV k m0 := by
        split
        · rfl
        · exact lookup_insert_other _ _ e _ _
      simp only [lookupKV, hne, Bool.false_eq_true, if_false, hm]

variable {M : Type} (nu : TjNum M)

theorem mergeLayers_sorted (m L : List (Key × VectorLayer)) (h : SortedKeys (m ++ L)) :
    mergeLayers m L = m ++ L := by
  induction L generalizing m with
  | nil => simp [mergeLayers]
  | cons p L ih =>
    have hp : ∀ q ∈ m, cmpKey q.1 p.1 = .lt := by
      intro q hq
      exact (List.pairwise_append.1 h).2.2 q hq p (by simp)
    simp only [mergeLayers, List.foldl_cons, lookup_none_of_gt p.1 m hp, insertKV_last _ _ _ hp]
    have := ih (m ++ [p]) (by simpa [SortedKeys] using h)
    simp only [mergeLayers] at this
    rw [this]; simp

/-- the value map of `merge`, seen through lookups -/
theorem merge_values_other (s o : TileJSON M) (ho : SortedKeys o.values) (k : Key)
    (h1 : k ≠ kMinzoom) (h2 : k ≠ kMaxzoom) :
    lookupKV k (merge nu s o).values =
      match lookupKV k o.values with
      | some v => some v
      | none => lookupKV k s.values := by
  simp only [merge]
  rw [lookup_foldl_cond _ _ ho]
  cases hl : lookupKV k o.values with
  | none =>
    cases getByte? o.values kMaxzoom <;> cases getByte? o.values kMinzoom <;>
      simp [lookup_insert_other _ _ h1, lookup_insert_other _ _ h2]
  | some v => simp [h1, h2]

theorem getByte_insert_other (vals : List (Key × TJValue)) (k k2 : Key) (h : k2 ≠ k) (v : TJValue) :
    getByte? (insertKV k v vals) k2 = getByte? vals k2 := by
  simp [getByte?, lookup_insert_other _ _ h]

/-- **minzoom of a merge**: when `other` carries a byte, the smaller one wins -/
theorem merge_minzoom (s o : TileJSON M) (ho : SortedKeys o.values) (b : Nat)
    (hb : lookupKV kMinzoom o.values = some (.byte b)) :
    lookupKV kMinzoom (merge nu s o).values =
      some (.byte (match getByte? s.values kMinzoom with | some m => Nat.min m b | none => b)) := by
  have hg : getByte? o.values kMinzoom = some b := by simp [getByte?, hb]
  simp only [merge, hg]
  rw [lookup_foldl_cond _ _ ho, hb]
  simp only [hg, Option.isSome_some, true_or, and_self, if_true]
  cases getByte? o.values kMaxzoom <;> simp [lookup_insert_same, lookup_insert_other _ _ kMin_ne_kMax] <;> rfl

/-- **maxzoom of a merge**: the larger one wins -/
theorem merge_maxzoom (s o : TileJSON M) (ho : SortedKeys o.values) (b : Nat)
    (hb : lookupKV kMaxzoom o.values = some (.byte b)) :
    lookupKV kMaxzoom (merge nu s o).values =
      some (.byte (match getByte? s.values kMaxzoom with | some m => Nat.max m b | none => b)) := by
  have hg : getByte? o.values kMaxzoom = some b := by simp [getByte?, hb]
  simp only [merge, hg]
  rw [lookup_foldl_cond _ _ ho, hb]
  simp only [hg, Option.isSome_some, or_true, and_self, if_true]
  cases getByte? o.values kMinzoom <;>
    simp [lookup_insert_same, getByte_insert_other _ _ _ kMin_ne_kMax.symm] <;> rfl

/-- the repaired case (09996a8a): any value of `other` that is not a byte — also under `minzoom`/`maxzoom` — overrides -/
theorem merge_zoom_nonbyte (s o : TileJSON M) (ho : SortedKeys o.values) (k : Key)
    (v : TJValue) (hv : lookupKV k o.values = some v) (hnb : ∀ b, v ≠ .byte b) :
    lookupKV k (merge nu s o).values = some v := by
  have hg : getByte? o.values k = none := by
    simp only [getByte?, hv]
    cases v with
    | byte b => exact absurd rfl (hnb b)
    | list _ => rfl
    | str _ => rfl
  simp only [merge]
  rw [lookup_foldl_cond _ _ ho, hv]
  simp [hg]


theorem merge_values_sorted (s o : TileJSON M) (hs : SortedKeys s.values) : SortedKeys (merge nu s o).values := by
  simp only [merge]
  apply foldl_cond_sorted
  cases getByte? o.values kMaxzoom <;> cases getByte? o.values kMinzoom <;>
    simp only [] <;> repeat (first | exact hs | apply insertKV_sorted)

theorem default_values_sorted : SortedKeys (TileJSON.default : TileJSON M).values := by
  simp [TileJSON.default, SortedKeys]

theorem lookup_default (k : Key) (h : k ≠ kTilejson) : lookupKV k (TileJSON.default : TileJSON M).values = none := by
  have : (cmpKey k kTilejson == .eq) = false := by
    cases hc : cmpKey k kTilejson <;> simp
    exact h (cmpKey_eq hc)
  simp [TileJSON.default, lookupKV, this]

/-- what the tar and directory readers do with the stored document: `default.merge(stored) = stored` -/
theorem merge_default_full (t : TileJSON M) (h : DocWF t) : merge nu TileJSON.default t = t := by
  have hv : (merge nu TileJSON.default t).values = t.values := by
    apply sorted_ext _ _ (merge_values_sorted nu _ _ default_values_sorted) h.sorted
    intro k
    obtain ⟨w, hw⟩ := h.hasTilejson
    have htj : lookupKV kTilejson t.values = some w := lookup_of_mem_sorted _ _ _ h.sorted hw
    have gd : ∀ k', getByte? (TileJSON.default : TileJSON M).values k' = none := by
      intro k'
      by_cases e : k' = kTilejson
      · subst e; simp [getByte?, TileJSON.default, lookupKV, cmpKey_refl]
      · simp [getByte?, lookup_default k' e]
    by_cases e1 : k = kMinzoom
    · subst e1
      cases hl : lookupKV kMinzoom t.values with
      | none =>
        have hg : getByte? t.values kMinzoom = none := by simp [getByte?, hl]
        simp only [merge, hg]
        rw [lookup_foldl_cond _ _ h.sorted, hl]
        cases getByte? t.values kMaxzoom <;>
          simp [lookup_insert_other _ _ kMin_ne_kMax, lookup_default kMinzoom (by decide)]
      | some v =>
        cases v with
        | byte b => rw [merge_minzoom nu _ _ h.sorted b hl, gd]
        | list l => exact merge_zoom_nonbyte nu _ _ h.sorted _ _ hl (by intro b; simp)
        | str s => exact merge_zoom_nonbyte nu _ _ h.sorted _ _ hl (by intro b; simp)
    · by_cases e2 : k = kMaxzoom
      · subst e2
        cases hl : lookupKV kMaxzoom t.values with
        | none =>
          have hg : getByte? t.values kMaxzoom = none := by simp [getByte?, hl]
          simp only [merge, hg]
          rw [lookup_foldl_cond _ _ h.sorted, hl]
          cases getByte? t.values kMinzoom <;>
            simp [lookup_insert_other _ _ kMin_ne_kMax.symm, lookup_default kMaxzoom (by decide)]
        | some v =>
          cases v with
          | byte b => rw [merge_maxzoom nu _ _ h.sorted b hl, gd]
          | list l => exact merge_zoom_nonbyte nu _ _ h.sorted _ _ hl (by intro b; simp)
          | str s => exact merge_zoom_nonbyte nu _ _ h.sorted _ _ hl (by intro b; simp)
      · rw [merge_values_other nu _ _ h.sorted k e1 e2]
        cases hl : lookupKV k t.values with
        | some v => rfl
        | none =>
          have : k ≠ kTilejson := by intro e; subst e; rw [htj] at hl; cases hl
          simp [lookup_default k this]
  have hl : (merge nu TileJSON.default t).layers = t.layers := by
    simp only [merge, TileJSON.default]
    have := mergeLayers_sorted [] t.layers (by simpa using h.layersSorted)
    simpa using this
  have hb : (merge nu TileJSON.default t).bounds = t.bounds := by
    simp only [merge, TileJSON.default]; cases t.bounds <;> rfl
  have hc : (merge nu TileJSON.default t).center = t.center := by
    simp only [merge, TileJSON.default]; cases t.center <;> rfl
  cases t with
  | mk b c v l =>
    cases hm : merge nu TileJSON.default { bounds := b, center := c, values := v, layers := l } with
    | mk b' c' v' l' =>
      rw [hm] at hv hl hb hc
      simp only at hv hl hb hc
      rw [hv, hl, hb, hc]

end VtProofs.TileJson
