import VtProofs.PyramidSet
/-! Further set-semantics lemmas: borders, scaling, pyramid-level operations. -/
namespace VtModel.BBox

/-- `add_border` on a non-empty in-range box: no overflow panic for borders that fit `u32` together
    with the box, and the result is the box grown by the borders, clamped to the level. -/
theorem addBorder_spec (b : BBox) (hr : InRange b) (hne : b.isEmpty = false) (bx0 by0 bx1 by1 : Nat)
    (h1 : b.xmax + bx1 < U32) (h2 : b.ymax + by1 < U32) :
    ∃ c, b.addBorder bx0 by0 bx1 by1 = .ok c ∧ c.level = b.level ∧ InRange c ∧
      ∀ x y, mem c x y ↔ (b.xmin - bx0 ≤ x ∧ x ≤ min (b.xmax + bx1) b.maxv ∧
                            b.ymin - by0 ≤ y ∧ y ≤ min (b.ymax + by1) b.maxv) := by
  unfold addBorder
  have g : ¬ (b.xmax + bx1 ≥ U32 ∨ b.ymax + by1 ≥ U32) := by omega
  simp only [hne, Bool.false_eq_true, if_false, Bool.or_eq_true, decide_eq_true_eq, g]
  refine ⟨_, rfl, rfl, ?_, ?_⟩
  · unfold InRange maxv at *; simp only; omega
  · intro x y; simp only [mem]

/-- an empty box (any encoding) is left untouched by `add_border` -/
theorem addBorder_empty (b : BBox) (he : b.isEmpty = true) (bx0 by0 bx1 by1 : Nat) :
    b.addBorder bx0 by0 bx1 by1 = .ok b := by simp [addBorder, he]

/-- a box grown by a border contains the original box -/
theorem addBorder_contains (b : BBox) (hr : InRange b) (hne : b.isEmpty = false) (bx0 by0 bx1 by1 : Nat)
    (h1 : b.xmax + bx1 < U32) (h2 : b.ymax + by1 < U32) {c : BBox} (hc : b.addBorder bx0 by0 bx1 by1 = .ok c)
    (x y : Nat) (hm : mem b x y) : mem c x y := by
  obtain ⟨c', hc', _, _, hmem⟩ := addBorder_spec b hr hne bx0 by0 bx1 by1 h1 h2
  rw [hc] at hc'; cases hc'
  rw [hmem]
  unfold InRange at hr; unfold mem at hm
  omega

/-- `scale_down` maps members to members (the meta box of `iter_bbox_grid`) -/
theorem scaleDown_mem (b : BBox) (s : Nat) (hs : 1 ≤ s) {c : BBox} (h : b.scaleDown s = .ok c) (x y : Nat)
    (hm : mem b x y) : mem c (x / s) (y / s) := by
  unfold scaleDown at h
  have : ¬ s = 0 := by omega
  simp only [this, if_false] at h
  cases h
  unfold mem at *
  exact ⟨Nat.div_le_div_right hm.1, Nat.div_le_div_right hm.2.1, Nat.div_le_div_right hm.2.2.1,
    Nat.div_le_div_right hm.2.2.2⟩

theorem scaleDown_zero_panics (b : BBox) : b.scaleDown 0 = .panic := by simp [scaleDown]

end VtModel.BBox

namespace VtModel.Pyramid
open VtModel VtModel.BBox

/-- **pyramid overlap** ↔ the level box and the given box share a coordinate -/
theorem overlapsBBox_iff {p : Pyramid} (hp : WF p) (b : BBox) :
    overlapsBBox p b = true ↔ ∃ x y, memP p x y b.level ∧ BBox.mem b x y := by
  unfold overlapsBBox memP
  cases h : p[b.level]? with
  | none => simp
  | some a =>
    have hl := wf_level hp h
    have hok : ∃ r, a.overlapsBBox b = .ok r := by
      unfold BBox.overlapsBBox
      simp only [hl, ne_eq, not_true_eq_false, if_false]
      split <;> exact ⟨_, rfl⟩
    obtain ⟨r, hr⟩ := hok
    simp only [hr, Option.some.injEq, exists_eq_left']
    exact overlaps_iff hr

/-- **`include_bbox` on a pyramid**: only the level of the box changes, and there it becomes the
    bounding union -/
theorem includeBBox_spec {p : Pyramid} (hp : WF p) (b : BBox) (hz : b.level < 32) :
    ∃ r a c, includeBBox p b = .ok r ∧ p[b.level]? = some a ∧ a.includeBBox b = .ok c ∧
      r[b.level]? = some c ∧ r.length = p.length ∧ ∀ z', z' ≠ b.level → r[z']? = p[z']? := by
  have hzp : b.level < p.length := by rw [hp.1]; exact hz
  have hl : (p[b.level]'hzp).level = b.level := hp.2 _ hzp
  have hok : ∃ c, (p[b.level]'hzp).includeBBox b = .ok c := by
    unfold BBox.includeBBox
    simp only [hl, ne_eq, not_true_eq_false, if_false]
    split
    · exact ⟨_, rfl⟩
    · split <;> exact ⟨_, rfl⟩
  obtain ⟨c, hc⟩ := hok
  unfold includeBBox updateLevel
  simp only [List.getElem?_eq_getElem hzp, hc, Outcome.unwrap]
  refine ⟨_, _, c, rfl, rfl, hc, by simp [hzp], by simp, ?_⟩
  intro z' hne
  rw [List.getElem?_set_ne (Ne.symm hne)]

/-- `swap_xy` on a pyramid exchanges x and y on every level -/
theorem swapXY_mem (p : Pyramid) (x y z : Nat) : memP (swapXY p) x y z ↔ memP p y x z := by
  unfold memP swapXY
  simp only [List.getElem?_map]
  cases h : p[z]? with
  | none => simp
  | some b => simp [mem_swapXY]

/-- the first / last non-empty level -/
theorem zoomMin_spec (p : Pyramid) (z : Nat) (h : zoomMin p = some z) :
    ∃ b ∈ p, b.level = z ∧ b.isEmpty = false := by
  unfold zoomMin at h
  cases hf : p.find? (fun b => !b.isEmpty) with
  | none => simp [hf] at h
  | some b =>
    simp only [hf, Option.map_some, Option.some.injEq] at h
    refine ⟨b, List.mem_of_find?_eq_some hf, h, ?_⟩
    have := List.find?_some hf
    simpa using this

theorem zoomMin_none_iff (p : Pyramid) : zoomMin p = none ↔ isEmpty p = true := by
  unfold zoomMin isEmpty
  rw [Option.map_eq_none_iff, List.find?_eq_none, List.all_eq_true]
  constructor
  · intro h b hb; have := h b hb; simpa using this
  · intro h b hb; have := h b hb; simp [this]

end VtModel.Pyramid
