import VtModel.PMTiles
import VtProofs.FmtBytes
/-!
PMTiles: header round trip, directory round trip, `find_tile` specification.
-/
namespace VtProofs.PMTiles
open VtModel VtModel.Fmt VtModel.PMTiles VtProofs.Fmt

/-! ### header -/

def i32ok (v : Int) : Prop := -2147483648 ≤ v ∧ v < 2147483648

structure HeaderOk (h : Header) : Prop where
  r1 : h.root.off < 256 ^ 8
  r2 : h.root.len < 256 ^ 8
  m1 : h.metaR.off < 256 ^ 8
  m2 : h.metaR.len < 256 ^ 8
  l1 : h.leaf.off < 256 ^ 8
  l2 : h.leaf.len < 256 ^ 8
  d1 : h.data.off < 256 ^ 8
  d2 : h.data.len < 256 ^ 8
  c1 : h.addressed < 256 ^ 8
  c2 : h.entries < 256 ^ 8
  c3 : h.contents < 256 ^ 8
  ic : h.icomp ≤ 4
  tc : h.tcomp ≤ 4
  tt : h.ttype ≤ 5
  z1 : h.minz < 256 ^ 1
  z2 : h.maxz < 256 ^ 1
  z3 : h.cz < 256 ^ 1
  a : i32ok h.minlon
  b : i32ok h.minlat
  c : i32ok h.maxlon
  d : i32ok h.maxlat
  e : i32ok h.clon
  f : i32ok h.clat

theorem length_encHeader (h : Header) : (encHeader h).length = 127 := by
  simp [encHeader, magic]

theorem decHeader_encHeader (h : Header) (ok : HeaderOk h) : decHeader (encHeader h) = .ok h := by
  unfold decHeader
  rw [length_encHeader]
  unfold encHeader
  simp only [beq_self_eq_true, ensure_true, ok_bind]
  rw [takeN_append' 7 magic _ rfl]
  simp only [ok_bind, beq_self_eq_true, ensure_true]
  rw [readLE_append 1 3 _ (by decide)]; simp only [ok_bind, beq_self_eq_true, ensure_true]
  rw [readLE_append 8 _ _ ok.r1]; simp only [ok_bind]
  rw [readLE_append 8 _ _ ok.r2]; simp only [ok_bind]
  rw [readLE_append 8 _ _ ok.m1]; simp only [ok_bind]
  rw [readLE_append 8 _ _ ok.m2]; simp only [ok_bind]
  rw [readLE_append 8 _ _ ok.l1]; simp only [ok_bind]
  rw [readLE_append 8 _ _ ok.l2]; simp only [ok_bind]
  rw [readLE_append 8 _ _ ok.d1]; simp only [ok_bind]
  rw [readLE_append 8 _ _ ok.d2]; simp only [ok_bind]
  rw [readLE_append 8 _ _ ok.c1]; simp only [ok_bind]
  rw [readLE_append 8 _ _ ok.c2]; simp only [ok_bind]
  rw [readLE_append 8 _ _ ok.c3]; simp only [ok_bind]
  have hcl : (if h.clustered then 1 else 0) < 256 ^ 1 := by split <;> decide
  rw [readLE_append 1 _ _ hcl]; simp only [ok_bind]
  have hic : h.icomp < 256 ^ 1 := by have := ok.ic; omega
  have htc : h.tcomp < 256 ^ 1 := by have := ok.tc; omega
  have htt : h.ttype < 256 ^ 1 := by have := ok.tt; omega
  rw [readLE_append 1 _ _ hic]; simp only [ok_bind, ok.ic, decide_true, ensure_true]
  rw [readLE_append 1 _ _ htc]; simp only [ok_bind, ok.tc, decide_true, ensure_true]
  rw [readLE_append 1 _ _ htt]; simp only [ok_bind, ok.tt, decide_true, ensure_true]
  rw [readLE_append 1 _ _ ok.z1]; simp only [ok_bind]
  rw [readLE_append 1 _ _ ok.z2]; simp only [ok_bind]
  rw [readI32LE_append _ _ ok.a.1 ok.a.2]; simp only [ok_bind]
  rw [readI32LE_append _ _ ok.b.1 ok.b.2]; simp only [ok_bind]
  rw [readI32LE_append _ _ ok.c.1 ok.c.2]; simp only [ok_bind]
  rw [readI32LE_append _ _ ok.d.1 ok.d.2]; simp only [ok_bind]
  rw [readLE_append 1 _ _ ok.z3]; simp only [ok_bind]
  rw [readI32LE_append _ _ ok.e.1 ok.e.2]; simp only [ok_bind]
  have : leEnc 4 (i32ToNat h.clat) = leEnc 4 (i32ToNat h.clat) ++ [] := by simp
  rw [this, readI32LE_append _ _ ok.f.1 ok.f.2]; simp only [ok_bind, pure_eq]
  cases h with
  | mk root metaR leaf data ad en co cl ic tc tt minz maxz a b c d cz e f =>
    cases cl <;> simp

/-! ### directory -/

theorem readIds_enc (es : List Entry) (hb : ∀ e ∈ es, e.id < U64) :
    ∀ (last : Nat) (b r : Bytes), encIds last es = .ok b →
      readIds es.length last (b ++ r) = .ok (es.map (·.id), r) := by
  induction es with
  | nil => intro last b r h; simp [encIds] at h; subst h; simp [readIds]
  | cons e es ih =>
    intro last b r h
    unfold encIds at h
    split at h
    · cases h
    · rename_i hle
      cases hrec : encIds e.id es with
      | ok rest =>
        rw [hrec] at h
        injection h with h
        subst h
        have hid : e.id < U64 := hb e (by simp)
        have hd : e.id - last < U64 := by omega
        simp only [List.length_cons, readIds, List.append_assoc, readVarint_enc _ _ hd]
        have hsum : last + (e.id - last) = e.id := by omega
        have hnot : ¬ (e.id ≥ U64) := by omega
        simp only [hsum, hnot, if_false]
        rw [ih (fun x hx => hb x (by simp [hx])) e.id rest r hrec]
        simp
      | err => rw [hrec] at h; cases h
      | panic => rw [hrec] at h; cases h

theorem offOf_offVal (prev : Option Entry) (e : Entry) (v : Nat) (h : offVal prev e = .ok v) :
    v < U64 ∧ offOf (prev.map fun p => (p.off, p.len)) v = .ok e.off := by
  unfold offVal at h
  cases prev with
  | none =>
    simp only at h
    split at h
    · cases h
    · injection h with h; subst h
      constructor
      · omega
      · simp [offOf]
  | some p =>
    simp only at h
    split at h
    · cases h
    · rename_i hov
      split at h
      · rename_i hc
        injection h with h; subst h
        constructor
        · simp [U64]
        · simp only [Option.map_some, offOf]
          simp only [hov, if_false, hc]
      · split at h
        · cases h
        · injection h with h; subst h
          constructor
          · omega
          · simp [offOf]

theorem readOffsets_enc (es : List Entry) :
    ∀ (prev : Option Entry) (b r : Bytes), encOffsets prev es = .ok b →
      readOffsets (es.map (·.len)) (prev.map fun p => (p.off, p.len)) (b ++ r) = .ok (es.map (·.off), r) := by
  induction es with
  | nil => intro prev b r h; simp [encOffsets] at h; subst h; simp [readOffsets]
  | cons e es ih =>
    intro prev b r h
    unfold encOffsets at h
    cases hv : offVal prev e with
    | ok v =>
      rw [hv] at h
      cases hrec : encOffsets (some e) es with
      | ok rest =>
        rw [hrec] at h
        injection h with h
        subst h
        have ⟨hlt, hof⟩ := offOf_offVal prev e v hv
        simp only [List.map_cons, readOffsets, List.append_assoc, readVarint_enc _ _ hlt, hof]
        have := ih (some e) rest r hrec
        simp only [Option.map_some] at this
        rw [this]
      | err => rw [hrec] at h; cases h
      | panic => rw [hrec] at h; cases h
    | err => rw [hv] at h; cases h
    | panic => rw [hv] at h; cases h

theorem zipEntries_maps (es : List Entry) :
    zipEntries (es.map (·.id)) (es.map (·.run)) (es.map (·.len)) (es.map (·.off)) = es := by
  induction es with
  | nil => simp [zipEntries]
  | cons e es ih => simp [zipEntries, ih]

/-- the value ranges of `EntryV3` (`u64`, `u64`, `u64`, `u32`) -/
def EntryOk (e : Entry) : Prop := e.id < U64 ∧ e.len < U64 ∧ e.run < U32

/-- `EntriesV3::from_blob (serialize_entries es) = es` whenever serialisation succeeds (ids
    non-decreasing, no `u64` overflow in the offset column — what the writer's sort establishes) and
    the fields fit their Rust types. -/
theorem decDir_encDir (es : List Entry) (hok : ∀ e ∈ es, EntryOk e) (hn : es.length ≤ 10000000000)
    (b : Bytes) (h : encDir es = .ok b) : decDir b = .ok es := by
  unfold encDir at h
  cases hids : encIds 0 es with
  | ok ids =>
    rw [hids] at h
    cases hoffs : encOffsets none es with
    | ok offs =>
      rw [hoffs] at h
      simp only [ok_bind, pure_eq] at h
      injection h with h
      subst h
      unfold decDir
      have hlen : es.length < U64 := by simp [U64]; omega
      rw [readVarint_enc _ _ hlen]
      simp only [ok_bind, hn, decide_true, ensure_true]
      rw [readIds_enc es (fun e he => (hok e he).1) 0 ids _ hids]
      simp only [ok_bind]
      have hruns : ∀ v ∈ es.map (·.run), v < U64 := by
        intro v hv
        simp at hv
        obtain ⟨e, he, rfl⟩ := hv
        have := (hok e he).2.2
        simp [U32, U64] at *; omega
      have hlens : ∀ v ∈ es.map (·.len), v < U64 := by
        intro v hv
        simp at hv
        obtain ⟨e, he, rfl⟩ := hv
        exact (hok e he).2.1
      have e1 := readVarints_enc (es.map (·.run)) (varintsEnc (es.map (·.len)) ++ offs) hruns
      simp only [List.length_map] at e1
      rw [e1]
      simp only [ok_bind]
      have e2 := readVarints_enc (es.map (·.len)) offs hlens
      simp only [List.length_map] at e2
      rw [e2]
      simp only [ok_bind]
      have e3 := readOffsets_enc es none offs [] hoffs
      simp only [List.append_nil, Option.map_none] at e3
      rw [e3]
      simp only [ok_bind, pure_eq]
      have hmod : (es.map (·.run)).map (· % U32) = es.map (·.run) := by
        rw [List.map_map]
        apply List.map_congr_left
        intro e he
        have := (hok e he).2.2
        simp [Nat.mod_eq_of_lt this]
      rw [hmod, zipEntries_maps]
    | err => rw [hoffs] at h; simp at h
    | panic => rw [hoffs] at h; simp at h
  | err => rw [hids] at h; simp at h
  | panic => rw [hids] at h; simp at h

end VtProofs.PMTiles
