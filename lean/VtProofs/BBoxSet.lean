import VtModel.BBox
/-! Set semantics of `BBox`: the denotation `mem` and the basic laws (core Lean only). -/
namespace VtModel.BBox

/-- `(x, y) ∈ ⟦b⟧` -/
def mem (b : BBox) (x y : Nat) : Prop := b.xmin ≤ x ∧ x ≤ b.xmax ∧ b.ymin ≤ y ∧ y ≤ b.ymax

instance (b : BBox) (x y : Nat) : Decidable (mem b x y) := by unfold mem; infer_instance

theorem contains2_iff (b : BBox) (x y : Nat) : b.contains2 x y = true ↔ mem b x y := by
  simp [contains2, mem]; omega

theorem contains3_iff (b : BBox) (x y z : Nat) : b.contains3 x y z = true ↔ z = b.level ∧ mem b x y := by
  simp [contains3, contains2_iff]

theorem isEmpty_iff (b : BBox) : b.isEmpty = true ↔ ∀ x y, ¬ mem b x y := by
  simp only [isEmpty, mem, Bool.or_eq_true, decide_eq_true_eq]
  constructor
  · intro h x y; omega
  · intro h
    by_cases hx : b.xmax < b.xmin
    · exact Or.inl hx
    · by_cases hy : b.ymax < b.ymin
      · exact Or.inr hy
      · exact absurd ⟨Nat.le_refl _, by omega, Nat.le_refl _, by omega⟩ (h b.xmin b.ymin)

theorem not_isEmpty_iff (b : BBox) : b.isEmpty = false ↔ b.xmin ≤ b.xmax ∧ b.ymin ≤ b.ymax := by
  simp [isEmpty]

theorem setEmpty_mem (b : BBox) (x y : Nat) : ¬ mem b.setEmpty x y := by
  simp [setEmpty, mem]; omega

/-- **intersection**: for boxes of one level — whatever their encoding, empty or not — the result
    denotes exactly the common coordinates. -/
theorem mem_intersect {a b c : BBox} (h : a.intersectBBox b = .ok c) (x y : Nat) :
    mem c x y ↔ mem a x y ∧ mem b x y := by
  unfold intersectBBox at h
  split at h
  · cases h
  · split at h
    · rename_i hne
      cases h
      simp only [Bool.and_eq_true, Bool.not_eq_true', not_isEmpty_iff] at hne
      simp only [mem]; omega
    · rename_i hne
      cases h
      have : a.isEmpty = true ∨ b.isEmpty = true := by
        cases ha : a.isEmpty <;> cases hb : b.isEmpty <;> simp_all
      constructor
      · intro hm; exact absurd hm (setEmpty_mem a x y)
      · intro ⟨ha, hb⟩
        rcases this with h | h
        · exact absurd ha ((isEmpty_iff a).mp h x y)
        · exact absurd hb ((isEmpty_iff b).mp h x y)

theorem intersect_ok_iff (a b : BBox) : (∃ c, a.intersectBBox b = .ok c) ↔ a.level = b.level := by
  unfold intersectBBox
  constructor
  · intro ⟨c, h⟩; split at h
    · cases h
    · rename_i hl; simpa using hl
  · intro hl; simp only [hl, ne_eq, not_true_eq_false, if_false]; split <;> exact ⟨_, rfl⟩

theorem intersect_level {a b c : BBox} (h : a.intersectBBox b = .ok c) : c.level = a.level := by
  unfold intersectBBox at h
  split at h
  · cases h
  · split at h <;> (cases h; rfl)

/-- **overlap** ↔ a common coordinate exists -/
theorem overlaps_iff {a b : BBox} {r : Bool} (h : a.overlapsBBox b = .ok r) :
    r = true ↔ ∃ x y, mem a x y ∧ mem b x y := by
  unfold overlapsBBox at h
  split at h
  · cases h
  · split at h
    · rename_i he
      cases h
      simp only [Bool.or_eq_true] at he
      constructor
      · intro h; cases h
      · intro ⟨x, y, ha, hb⟩
        rcases he with he | he
        · exact absurd ha ((isEmpty_iff a).mp he x y)
        · exact absurd hb ((isEmpty_iff b).mp he x y)
    · rename_i he
      cases h
      simp only [Bool.or_eq_true, not_or, Bool.not_eq_true, not_isEmpty_iff] at he
      simp only [Bool.and_eq_true, decide_eq_true_eq, mem]
      constructor
      · intro h
        exact ⟨max a.xmin b.xmin, max a.ymin b.ymin, by omega, by omega⟩
      · intro ⟨x, y, h1, h2⟩; omega

/-- fields within the level's coordinate range -/
def InRange (b : BBox) : Prop := b.xmax ≤ b.maxv ∧ b.ymax ≤ b.maxv

/-- **bounding union**: the result of `include_bbox` contains both boxes … -/
theorem include_contains {a b c : BBox} (ha : InRange a) (hb : InRange b) (h : a.includeBBox b = .ok c)
    (x y : Nat) : (mem a x y ∨ mem b x y) → mem c x y := by
  unfold includeBBox at h
  split at h
  · cases h
  · rename_i hl
    have hmax : a.maxv = b.maxv := by simp at hl; simp [maxv, hl]
    split at h
    · rename_i he; cases h
      intro hm; rcases hm with hm | hm
      · exact hm
      · exact absurd hm ((isEmpty_iff b).mp he x y)
    · split at h
      · rename_i he; cases h
        intro hm; rcases hm with hm | hm
        · exact absurd hm ((isEmpty_iff a).mp he x y)
        · exact hm
      · cases h
        unfold InRange at ha hb
        simp only [mem]; omega

/-- … and is the least such box: every box containing both contains the result. -/
theorem include_least {a b c : BBox} (ha : InRange a) (hb : InRange b) (h : a.includeBBox b = .ok c)
    (d : BBox) (hd : ∀ x y, (mem a x y ∨ mem b x y) → mem d x y) (x y : Nat) : mem c x y → mem d x y := by
  unfold includeBBox at h
  split at h
  · cases h
  · rename_i hl
    have hmax : a.maxv = b.maxv := by simp at hl; simp [maxv, hl]
    split at h
    · cases h; intro hm; exact hd x y (Or.inl hm)
    · split at h
      · cases h; intro hm; exact hd x y (Or.inr hm)
      · rename_i hbe hae
        cases h
        simp only [Bool.not_eq_true, not_isEmpty_iff] at hbe hae
        unfold InRange at ha hb
        -- the four corners of the two boxes are in d
        have a1 := hd a.xmin a.ymin (Or.inl ⟨by omega, by omega, by omega, by omega⟩)
        have a2 := hd a.xmax a.ymax (Or.inl ⟨by omega, by omega, by omega, by omega⟩)
        have b1 := hd b.xmin b.ymin (Or.inr ⟨by omega, by omega, by omega, by omega⟩)
        have b2 := hd b.xmax b.ymax (Or.inr ⟨by omega, by omega, by omega, by omega⟩)
        simp only [mem] at a1 a2 b1 b2 ⊢
        omega

/-- `include_coord` yields the bounding box of the old box and the new coordinate -/
theorem includeCoord_mem {b : BBox} (hb : InRange b) {px py : Nat} (hp : px ≤ b.maxv ∧ py ≤ b.maxv) (x y : Nat) :
    mem (b.includeCoord px py) x y ↔
      (if b.isEmpty then x = px ∧ y = py
       else min b.xmin px ≤ x ∧ x ≤ max b.xmax px ∧ min b.ymin py ≤ y ∧ y ≤ max b.ymax py) := by
  unfold includeCoord
  split
  · simp only [mem]; omega
  · unfold InRange at hb
    simp only [mem]; omega

theorem includeCoord_inRange {b : BBox} (hb : InRange b) {px py : Nat} (hp : px ≤ b.maxv ∧ py ≤ b.maxv) :
    InRange (b.includeCoord px py) := by
  unfold includeCoord InRange at *
  split <;> simp only [maxv] at * <;> omega

end VtModel.BBox
