import VtModel.Versatiles
import VtProofs.FmtBytes
/-!
Block level of the versatiles writer: after streaming any list of tiles with pairwise different
tile-index positions, every streamed tile's index entry points at bytes equal to its payload
(de-duplication of payloads < 1000 bytes included), all other entries are empty, and every entry
lies inside the block's blob area.
-/
namespace VtProofs.VersatilesBlock
open VtModel VtModel.Fmt VtModel.Versatiles

/-! ### slices are stable under appending -/

theorem slice_append_left (a b : Bytes) (r : Range) (h : r.off + r.len ≤ a.length) :
    slice (a ++ b) r = slice a r := by
  unfold slice
  rw [List.drop_append_of_le_length (by omega)]
  rw [List.take_append_of_le_length (by simp; omega)]

theorem slice_appended (a b : Bytes) : slice (a ++ b) ⟨a.length, b.length⟩ = b := by
  unfold slice
  simp

/-! ### invariant of the `for_each_sync` closure -/

/-- `done` = (position, payload) of the tiles processed so far -/
structure Inv (M n : Nat) (done : List (Nat × Bytes)) (s : BlockState) : Prop where
  len : s.index.length = n
  lenb : ∀ r ∈ s.index, r.len < M
  seenb : ∀ p ∈ s.seen, p.2.len < M
  seen : ∀ p ∈ s.seen, slice s.blobs p.2 = p.1 ∧ p.2.len = p.1.length ∧ p.2.off + p.2.len ≤ s.blobs.length
  bounds : ∀ r ∈ s.index, r.off + r.len ≤ s.blobs.length
  hit : ∀ d ∈ done, ∃ r, s.index[d.1]? = some r ∧ r.len = d.2.length ∧ slice s.blobs r = d.2
  miss : ∀ i, i < n → (∀ d ∈ done, d.1 ≠ i) → s.index[i]? = some ⟨0, 0⟩

theorem inv_init (M n : Nat) (hM : 0 < M) : Inv M n [] ⟨[], List.replicate n ⟨0, 0⟩, []⟩ := by
  refine ⟨by simp, ?_, by simp, by simp, ?_, by simp, ?_⟩
  · intro r hr
    rw [List.mem_replicate] at hr
    rw [hr.2]; exact hM
  · intro r hr
    rw [List.mem_replicate] at hr
    rw [hr.2]; simp
  · intro i hi _
    simp [hi]

/-- writing entry `i` of an index whose other entries are kept -/
theorem set_other {l : List Range} {i j : Nat} {v : Range} (h : i ≠ j) : (l.set i v)[j]? = l[j]? := by
  simp [List.getElem?_set, h]

theorem set_self {l : List Range} {i : Nat} {v : Range} (h : i < l.length) : (l.set i v)[i]? = some v := by
  simp [List.getElem?_set, h]

theorem mem_set {l : List Range} {i : Nat} {v r : Range} (h : r ∈ l.set i v) : r = v ∨ r ∈ l := by
  have := List.mem_or_eq_of_mem_set h
  cases this with
  | inl h => exact Or.inr h
  | inr h => exact Or.inl h

theorem putAt_inv {M n : Nat} {done : List (Nat × Bytes)} {s : BlockState} (inv : Inv M n done s)
    (i : Nat) (payload : Bytes) (hi : i < n) (hM : payload.length < M) (hnew : ∀ d ∈ done, d.1 ≠ i) :
    Inv M n ((i, payload) :: done) (putAt i s payload) := by
  have hlen := inv.len
  -- the two ways of storing: reuse a seen range, or append
  have append_case : ∀ (seen' : List (Bytes × Range)),
      (∀ p ∈ seen', p ∈ s.seen ∨ p = (payload, ⟨s.blobs.length, payload.length⟩)) →
      Inv M n ((i, payload) :: done) ⟨s.blobs ++ payload, s.index.set i ⟨s.blobs.length, payload.length⟩, seen'⟩ := by
    intro seen' hs
    refine ⟨by simp [hlen], ?_, ?_, ?_, ?_, ?_, ?_⟩
    · intro r hr
      cases mem_set hr with
      | inl h => subst h; exact hM
      | inr h => exact inv.lenb r h
    · intro p hp
      cases hs p hp with
      | inl h => exact inv.seenb p h
      | inr h => subst h; exact hM
    · intro p hp
      cases hs p hp with
      | inl h =>
        have ⟨a, b, c⟩ := inv.seen p h
        refine ⟨by rw [slice_append_left _ _ _ c]; exact a, b, by simp; omega⟩
      | inr h =>
        subst h
        exact ⟨slice_appended _ _, rfl, by simp⟩
    · intro r hr
      cases mem_set hr with
      | inl h => subst h; simp
      | inr h => have := inv.bounds r h; simp; omega
    · intro d hd
      cases hd with
      | head =>
        exact ⟨⟨s.blobs.length, payload.length⟩, set_self (by omega), rfl, slice_appended _ _⟩
      | tail _ hd =>
        obtain ⟨r, h1, h2, h3⟩ := inv.hit d hd
        have hne : i ≠ d.1 := fun e => hnew d hd e.symm
        refine ⟨r, by rw [set_other hne]; exact h1, h2, ?_⟩
        have hb := inv.bounds r (List.mem_of_getElem? h1)
        rw [slice_append_left _ _ _ hb]; exact h3
    · intro j hj hd
      have hne : i ≠ j := fun e => hd (i, payload) (by simp) e
      rw [set_other hne]
      exact inv.miss j hj (fun d hdd => hd d (by simp [hdd]))
  unfold putAt
  by_cases hsmall : payload.length < 1000
  · simp only [hsmall, if_true]
    cases hf : s.seen.find? (fun p => p.1 == payload) with
    | some p =>
      simp only
      have hp := List.mem_of_find?_eq_some hf
      have hpe : p.1 = payload := by
        have := List.find?_some hf
        simpa using this
      have ⟨a, b, c⟩ := inv.seen p hp
      refine ⟨by simp [hlen], ?_, inv.seenb, inv.seen, ?_, ?_, ?_⟩
      · intro r hr
        cases mem_set hr with
        | inl h => subst h; exact inv.seenb p hp
        | inr h => exact inv.lenb r h
      · intro r hr
        cases mem_set hr with
        | inl h => subst h; exact c
        | inr h => exact inv.bounds r h
      · intro d hd
        cases hd with
        | head => exact ⟨p.2, set_self (by omega), by rw [b, hpe], by rw [a, hpe]⟩
        | tail _ hd =>
          obtain ⟨r, h1, h2, h3⟩ := inv.hit d hd
          have hne : i ≠ d.1 := fun e => hnew d hd e.symm
          exact ⟨r, by rw [set_other hne]; exact h1, h2, h3⟩
      · intro j hj hd
        have hne : i ≠ j := fun e => hd (i, payload) (by simp) e
        rw [set_other hne]
        exact inv.miss j hj (fun d hdd => hd d (by simp [hdd]))
    | none =>
      simp only
      exact append_case _ (by
        intro p hp
        cases hp with
        | head => exact Or.inr rfl
        | tail _ h => exact Or.inl h)
  · simp only [hsmall, if_false]
    exact append_case _ (fun p hp => Or.inl hp)

/-- positions of a stream inside `box` -/
def positions (box : BBox) (ts : List Tile) : List (Nat × Bytes) :=
  ts.map fun t => (boxPos box t.1.1 t.1.2.1, t.2)

/-- the whole stream: if all tiles are inside the box, at pairwise different positions below `n`,
    `putTiles` succeeds and the invariant holds for all of them -/
theorem putTiles_inv (box : BBox) (M n : Nat) : ∀ (ts : List Tile) (done : List (Nat × Bytes)) (s : BlockState),
    Inv M n done s →
    (∀ t ∈ ts, box.contains2 t.1.1 t.1.2.1 = true ∧ boxPos box t.1.1 t.1.2.1 < n ∧ t.2.length < M) →
    (∀ t ∈ ts, ∀ d ∈ done, d.1 ≠ boxPos box t.1.1 t.1.2.1) →
    ((positions box ts).map (·.1)).Nodup →
    ∃ s', putTiles box s ts = .ok s' ∧ Inv M n ((positions box ts).reverse ++ done) s' := by
  intro ts
  induction ts with
  | nil => intro done s inv _ _ _; exact ⟨s, rfl, by simpa [positions] using inv⟩
  | cons t ts ih =>
    intro done s inv hin hdone hnd
    have ⟨hc, hp, hM⟩ := hin t (by simp)
    have inv' := putAt_inv inv (boxPos box t.1.1 t.1.2.1) t.2 hp hM (fun d hd => hdone t (by simp) d hd)
    simp only [positions, List.map_cons, List.nodup_cons] at hnd
    have hrest := ih ((boxPos box t.1.1 t.1.2.1, t.2) :: done) (putAt (boxPos box t.1.1 t.1.2.1) s t.2) inv'
      (fun u hu => hin u (by simp [hu]))
      (by
        intro u hu d hd
        cases hd with
        | head =>
          intro e
          apply hnd.1
          simp only [List.map_map, List.mem_map]
          exact ⟨u, hu, by simp only [Function.comp]; exact e.symm⟩
        | tail _ hd => exact hdone u (by simp [hu]) d hd)
      (by simpa [positions] using hnd.2)
    obtain ⟨s', h1, h2⟩ := hrest
    refine ⟨s', ?_, ?_⟩
    · simp only [putTiles, putTile, hc, Bool.not_true, Bool.false_eq_true, if_false]
      exact h1
    · simpa [positions, List.reverse_cons, List.append_assoc] using h2

end VtProofs.VersatilesBlock
