import VtModel.Mvt
import VtProofs.MvtTables
/-! `PropertyManager::from_iter`: the rebuilt tables hold every used key / value exactly once, and
re-encoding the property sets against them adds nothing. -/
namespace VtProofs.MvtFromIter
open VtModel VtModel.Prim VtModel.Mvt VtProofs.MvtTables

theorem mem_bump {α} [DecidableEq α] (x y : α) : ∀ (m : List (α × Nat)),
    y ∈ (bump x m).map (·.1) ↔ y = x ∨ y ∈ m.map (·.1) := by
  intro m
  induction m with
  | nil => simp [bump]
  | cons h t ih =>
    obtain ⟨z, n⟩ := h
    simp only [bump]
    split
    · rename_i e; subst e; simp
    · simp only [List.map_cons, List.mem_cons, ih]
      constructor
      · rintro (h | h | h)
        · exact Or.inr (Or.inl h)
        · exact Or.inl h
        · exact Or.inr (Or.inr h)
      · rintro (h | h | h)
        · exact Or.inr (Or.inl h)
        · exact Or.inl h
        · exact Or.inr (Or.inr h)

theorem bump_nodup {α} [DecidableEq α] (x : α) : ∀ (m : List (α × Nat)),
    (m.map (·.1)).Nodup → ((bump x m).map (·.1)).Nodup := by
  intro m
  induction m with
  | nil => simp [bump]
  | cons h t ih =>
    obtain ⟨z, n⟩ := h
    intro hnd
    simp only [List.map_cons, List.nodup_cons] at hnd
    simp only [bump]
    split
    · simpa using hnd
    · rename_i hne
      simp only [List.map_cons, List.nodup_cons]
      refine ⟨?_, ih hnd.2⟩
      intro hm
      rcases (mem_bump x z t).mp hm with e | e
      · exact hne e.symm
      · exact hnd.1 e

theorem bumpAll_spec {α} [DecidableEq α] : ∀ (xs : List α) (m : List (α × Nat)),
    (m.map (·.1)).Nodup →
    ((bumpAll xs m).map (·.1)).Nodup ∧ ∀ y, y ∈ (bumpAll xs m).map (·.1) ↔ y ∈ xs ∨ y ∈ m.map (·.1) := by
  intro xs
  induction xs with
  | nil => intro m h; simp [bumpAll, h]
  | cons x t ih =>
    intro m h
    have := ih (bump x m) (bump_nodup x m h)
    simp only [bumpAll, List.foldl_cons] at this ⊢
    refine ⟨this.1, ?_⟩
    intro y
    rw [this.2 y, mem_bump]
    simp only [List.mem_cons]
    constructor
    · rintro (h | h | h)
      · exact Or.inl (Or.inr h)
      · exact Or.inl (Or.inl h)
      · exact Or.inr h
    · rintro ((h | h) | h)
      · exact Or.inr (Or.inl h)
      · exact Or.inl h
      · exact Or.inr (Or.inr h)

theorem insertEntry_perm {α} (lt : α → α → Bool) (e : α × Nat) : ∀ (l : List (α × Nat)),
    (insertEntry lt e l).Perm (e :: l) := by
  intro l
  induction l with
  | nil => exact List.Perm.refl _
  | cons h t ih =>
    simp only [insertEntry]
    split
    · exact (List.Perm.cons h ih).trans (List.Perm.swap e h t)
    · exact List.Perm.refl _

theorem makeLookup_perm {α} (lt : α → α → Bool) : ∀ (m : List (α × Nat)),
    (makeLookup lt m).Perm (m.map (·.1)) := by
  intro m
  unfold makeLookup
  apply List.Perm.map
  induction m with
  | nil => exact List.Perm.refl _
  | cons h t ih =>
    simp only [List.foldr_cons]
    exact (insertEntry_perm lt h _).trans (List.Perm.cons h ih)

/-- the key table built by `from_iter`: every key of every property set, exactly once -/
theorem fromIter_keys (ps : List Props) :
    (fromIter ps).1.Nodup ∧ ∀ k, k ∈ (fromIter ps).1 ↔ ∃ p ∈ ps, ∃ v, (k, v) ∈ p := by
  have hb := bumpAll_spec ((ps.flatMap id).map (·.1)) ([] : List (Bytes × Nat)) (by simp)
  have hp := makeLookup_perm bytesLt (countKeys ps)
  refine ⟨hp.nodup_iff.mpr hb.1, ?_⟩
  intro k
  simp only [fromIter]
  rw [hp.mem_iff]
  unfold countKeys
  rw [hb.2 k]
  simp only [List.map_nil, List.not_mem_nil, or_false, List.mem_map, List.mem_flatMap, id]
  constructor
  · rintro ⟨⟨k', v⟩, ⟨p, hp1, hp2⟩, rfl⟩
    exact ⟨p, hp1, v, hp2⟩
  · rintro ⟨p, hp1, v, hp2⟩
    exact ⟨(k, v), ⟨p, hp1, hp2⟩, rfl⟩

/-- the value table built by `from_iter`: every value of every property set, exactly once -/
theorem fromIter_vals (ps : List Props) :
    (fromIter ps).2.Nodup ∧ ∀ v, v ∈ (fromIter ps).2 ↔ ∃ p ∈ ps, ∃ k, (k, v) ∈ p := by
  have hb := bumpAll_spec ((ps.flatMap id).map (·.2)) ([] : List (Value × Nat)) (by simp)
  have hp := makeLookup_perm valueLt (countVals ps)
  refine ⟨hp.nodup_iff.mpr hb.1, ?_⟩
  intro v
  simp only [fromIter]
  rw [hp.mem_iff]
  unfold countVals
  rw [hb.2 v]
  simp only [List.map_nil, List.not_mem_nil, or_false, List.mem_map, List.mem_flatMap, id]
  constructor
  · rintro ⟨⟨k, v'⟩, ⟨p, hp1, hp2⟩, rfl⟩
    exact ⟨p, hp1, k, hp2⟩
  · rintro ⟨p, hp1, k, hp2⟩
    exact ⟨(k, v), ⟨p, hp1, hp2⟩, rfl⟩

/-! ### encoding against complete tables adds nothing -/

theorem firstIdx_of_mem {α} [DecidableEq α] (x : α) : ∀ (l : List α), x ∈ l → ∃ i, firstIdx x l = some i := by
  intro l
  induction l with
  | nil => intro h; simp at h
  | cons y t ih =>
    intro h
    simp only [firstIdx]
    split
    · exact ⟨0, rfl⟩
    · rename_i hne
      rcases List.mem_cons.mp h with e | e
      · exact absurd e hne
      · obtain ⟨i, hi⟩ := ih e
        exact ⟨i + 1, by simp [hi]⟩

theorem tblAdd_of_mem {α} [DecidableEq α] (l : List α) (x : α) (h : x ∈ l) : (tblAdd l x).1 = l := by
  obtain ⟨i, hi⟩ := firstIdx_of_mem x l h
  simp [tblAdd, hi]

theorem encodeTags_no_growth : ∀ (p : Props) (keys : List Bytes) (vals : List Value),
    (∀ kv ∈ p, kv.1 ∈ keys ∧ kv.2 ∈ vals) →
    (encodeTags keys vals p).1 = keys ∧ (encodeTags keys vals p).2.1 = vals := by
  intro p
  induction p with
  | nil => intro keys vals _; simp [encodeTags]
  | cons hd tl ih =>
    obtain ⟨k, v⟩ := hd
    intro keys vals h
    have hk := (h (k, v) (by simp)).1
    have hv := (h (k, v) (by simp)).2
    simp only [encodeTags]
    rw [tblAdd_of_mem keys k hk, tblAdd_of_mem vals v hv]
    exact ih keys vals (fun kv hkv => h kv (by simp [hkv]))

theorem fmpEncode_no_growth : ∀ (fps : List (Feature × Props)) (keys : List Bytes) (vals : List Value),
    (∀ fp ∈ fps, ∀ kv ∈ fp.2, kv.1 ∈ keys ∧ kv.2 ∈ vals) →
    (fmpEncode keys vals fps).1 = keys ∧ (fmpEncode keys vals fps).2.1 = vals := by
  intro fps
  induction fps with
  | nil => intro keys vals _; simp [fmpEncode]
  | cons hd tl ih =>
    obtain ⟨ft, p⟩ := hd
    intro keys vals h
    simp only [fmpEncode]
    obtain ⟨h1, h2⟩ := encodeTags_no_growth p keys vals (h (ft, p) (by simp))
    rw [h1, h2]
    exact ih keys vals (fun fp hfp => h fp (by simp [hfp]))

end VtProofs.MvtFromIter
