import VtProofs.PipeMerged
/-!
Pipelines: every successfully built pipeline — any nesting of the operations — is a good source
(`build_good`), and building never panics on well-formed arguments (`build_no_panic`).
-/
namespace VtModel
open BBox

/-! ### coverages -/

theorem mapM_index {α γ : Type} (f : α → Outcome γ) : ∀ (l : List α) (r : List γ), BBox.mapM f l = .ok r →
    r.length = l.length ∧ ∀ i (h1 : i < l.length) (h2 : i < r.length), f l[i] = .ok r[i] := by
  intro l
  induction l with
  | nil =>
    intro r h
    simp only [BBox.mapM] at h
    cases h
    exact ⟨rfl, fun i h1 => absurd h1 (Nat.not_lt_zero _)⟩
  | cons a as ih =>
    intro r h
    simp only [BBox.mapM] at h
    split at h
    · rename_i b hb
      split at h
      · rename_i bs hbs
        cases h
        obtain ⟨hl, hi⟩ := ih bs hbs
        refine ⟨by simp [hl], ?_⟩
        intro i h1 h2
        cases i with
        | zero => exact hb
        | succ k => exact hi k (by simpa using h1) (by simpa using h2)
      · cases h
      · cases h
    · cases h
    · cases h

/-- `intersect` / `intersect_geo_bbox`: a successful result is well-formed (whatever `q` is) -/
theorem pyrIntersect_wf {p q r : Pyramid} (hp : p.WF) (h : Pyramid.intersect p q = .ok r) : r.WF := by
  unfold Pyramid.intersect at h
  obtain ⟨hl, hi⟩ := mapM_index _ _ _ h
  refine ⟨by rw [hl]; exact hp.1, ?_⟩
  intro z hz
  have hz' : z < p.length := by rw [← hl]; exact hz
  have := hi z hz' hz
  obtain ⟨hlev, hwf⟩ := hp.2 z hz'
  split at this
  · rename_i o _
    cases hio : p[z].intersectBBox o with
    | ok c =>
      rw [hio] at this
      simp only [Outcome.unwrap] at this
      cases this
      exact ⟨by rw [intersect_level hio]; exact hlev, intersect_wf hwf hio⟩
    | err => rw [hio] at this; simp only [Outcome.unwrap] at this; cases this
    | panic => rw [hio] at this; simp only [Outcome.unwrap] at this; cases this
  · cases this

theorem mapM_all_ok {α γ : Type} (f : α → Outcome γ) (l : List α) (h : ∀ a ∈ l, ∃ b, f a = .ok b) :
    ∃ r, BBox.mapM f l = .ok r := by
  induction l with
  | nil => exact ⟨[], rfl⟩
  | cons a as ih =>
    obtain ⟨b, hb⟩ := h a (by simp)
    obtain ⟨r, hr⟩ := ih (fun x hx => h x (by simp [hx]))
    exact ⟨b :: r, by simp only [BBox.mapM, hb, hr]⟩

/-- on well-formed pyramids the intersection neither fails nor panics -/
theorem pyrIntersect_ok {p q : Pyramid} (hp : p.WF) (hq : q.WF) : ∃ r, Pyramid.intersect p q = .ok r := by
  unfold Pyramid.intersect
  apply mapM_all_ok
  intro b hb
  obtain ⟨i, hi, rfl⟩ := List.getElem_of_mem hb
  obtain ⟨hlev, hwf⟩ := hp.2 i hi
  obtain ⟨lb, h1, h2, _⟩ := pyr_get hq hwf.1
  simp only [h1]
  obtain ⟨c, hc⟩ := (intersect_ok_iff p[i] lb).mpr h2.symm
  exact ⟨c, by rw [hc]; rfl⟩

theorem includeBBox_wf {a b c : BBox} (ha : a.WF) (hb : b.WF) (h : a.includeBBox b = .ok c) :
    c.level = a.level ∧ c.WF := by
  unfold includeBBox at h
  split at h
  · cases h
  · rename_i hl
    have hl' : a.level = b.level := by
      cases Nat.decEq a.level b.level with
      | isTrue e => exact e
      | isFalse e => exact absurd e hl
    split at h
    · cases h; exact ⟨rfl, ha⟩
    · split at h
      · cases h; exact ⟨hl'.symm, hb⟩
      · cases h
        obtain ⟨h1, h2, h3⟩ := ha
        have hpos := Nat.two_pow_pos a.level
        have hmv : a.maxv = 2 ^ a.level - 1 := rfl
        refine ⟨rfl, h1, ?_, ?_⟩
        · show min (max a.xmax b.xmax) a.maxv < 2 ^ a.level; omega
        · show min (max a.ymax b.ymax) a.maxv < 2 ^ a.level; omega

theorem pyr_set_wf {p : Pyramid} (hp : p.WF) {z : Nat} {c : BBox} (hc : c.level = z ∧ c.WF) : Pyramid.WF (p.set z c) := by
  refine ⟨by rw [List.length_set]; exact hp.1, ?_⟩
  intro i hi
  rw [List.length_set] at hi
  rw [List.getElem_set]
  split
  · rename_i e; subst e; exact hc
  · exact hp.2 i hi

/-- `include_bbox` of a well-formed box into a well-formed pyramid: fine and well-formed -/
theorem pyrIncludeBBox_ok {p : Pyramid} (hp : p.WF) {b : BBox} (hb : b.WF) :
    ∃ r, Pyramid.includeBBox p b = .ok r ∧ r.WF := by
  obtain ⟨a, h1, h2, h3⟩ := pyr_get hp hb.1
  obtain ⟨c, hc⟩ : ∃ c, a.includeBBox b = .ok c := by
    unfold includeBBox
    rw [if_neg (by rw [h2]; exact fun h => h rfl)]
    split
    · exact ⟨_, rfl⟩
    · split <;> exact ⟨_, rfl⟩
  obtain ⟨hl, hw⟩ := includeBBox_wf h3 hb hc
  refine ⟨p.set b.level c, ?_, pyr_set_wf hp ⟨by rw [hl, h2], hw⟩⟩
  unfold Pyramid.includeBBox Pyramid.updateLevel
  simp only [h1, hc, Outcome.unwrap]

theorem includeFold_ok (l : List BBox) (hl : ∀ b ∈ l, b.WF) :
    ∀ p : Pyramid, p.WF → ∃ r : Pyramid,
      l.foldl (fun (acc : Outcome Pyramid) b => acc.bind (fun a => Pyramid.includeBBox a b)) (Outcome.ok p) = Outcome.ok r ∧
        Pyramid.WF r := by
  induction l with
  | nil => intro p hp; exact ⟨p, rfl, hp⟩
  | cons b bs ih =>
    intro p hp
    obtain ⟨r, h1, h2⟩ := pyrIncludeBBox_ok hp (hl b (by simp))
    simp only [List.foldl_cons, Outcome.bind, h1]
    exact ih (fun x hx => hl x (by simp [hx])) r h2

theorem includePyramid_ok {p q : Pyramid} (hp : p.WF) (hq : q.WF) :
    ∃ r, Pyramid.includePyramid p q = .ok r ∧ r.WF := by
  unfold Pyramid.includePyramid Pyramid.iterLevels
  apply includeFold_ok _ _ p hp
  intro b hb
  have hb' := (List.mem_filter.mp hb).1
  obtain ⟨i, hi, rfl⟩ := List.getElem_of_mem hb'
  exact (hq.2 i hi).2

theorem unionCover_ok {β : Type} (srcs : List (Op β)) (hs : ∀ o ∈ srcs, o.src.cover.WF) :
    ∀ first : Pyramid, first.WF → ∃ r, unionCover first srcs = .ok r ∧ r.WF := by
  unfold unionCover
  induction srcs with
  | nil => intro p hp; exact ⟨p, rfl, hp⟩
  | cons o os ih =>
    intro p hp
    obtain ⟨r, h1, h2⟩ := includePyramid_ok hp (hs o (by simp))
    simp only [List.foldl_cons, Outcome.bind, h1]
    exact ih (fun x hx => hs x (by simp [hx])) r h2

/-! ### one construction step -/

theorem buildZoom_good {β : Type} {zmin zmax : Option Nat} {o o' : Op β} (ho : Good o.src)
    (h : buildZoom zmin zmax o = .ok o') : Good o'.src := by
  unfold buildZoom at h
  split at h
  · cases h
  · cases h
    exact filter_good (zoomPyr_wf ho.cover_wf _ _) ho

theorem buildBBox_good {β : Type} {q : Outcome Pyramid} {o o' : Op β} (ho : Good o.src)
    (h : buildBBox q o = .ok o') : Good o'.src := by
  unfold buildBBox at h
  split at h
  · cases h
  · cases h
  · rename_i qq
    split at h
    · rename_i pyr hp
      cases h
      exact filter_good (pyrIntersect_wf ho.cover_wf hp) ho
    · cases h

theorem buildUpdate_good {β : Type} {ops : Ops β} {o o' : Op β} (ho : Good o.src)
    (h : buildUpdate ops o = .ok o') : Good o'.src := by
  unfold buildUpdate at h
  split at h
  · cases h
  · cases h
    exact map_good _ ho

theorem unionCover_wf {β : Type} {srcs : List (Op β)} (hs : ∀ o ∈ srcs, o.src.cover.WF) {first r : Pyramid}
    (hf : first.WF) (h : unionCover first srcs = .ok r) : r.WF := by
  obtain ⟨r', h1, h2⟩ := unionCover_ok srcs hs first hf
  rw [h1] at h
  cases h
  exact h2

theorem buildOverlay_good {β : Type} {ops : Ops β} {srcs : List (Op β)} {o' : Op β}
    (hs : ∀ o ∈ srcs, Good o.src) (h : buildOverlay ops srcs = .ok o') : Good o'.src := by
  unfold buildOverlay at h
  split at h
  · cases h
  · cases h
  · rename_i first rest _
    split at h
    · cases h
    · split at h
      · rename_i cover hc
        cases h
        have hcov := unionCover_wf (fun o ho => (hs o ho).cover_wf) (hs first (by simp)).cover_wf hc
        exact overlay_good ops _ hcov _ hs
      · cases h

theorem buildMerged_good {β : Type} {ops : Ops β} {srcs : List (Op β)} {o' : Op β}
    (hs : ∀ o ∈ srcs, Good o.src) (h : buildMerged ops srcs = .ok o') : Good o'.src := by
  unfold buildMerged at h
  split at h
  · cases h
  · cases h
  · rename_i first rest _
    split at h
    · cases h
    · split at h
      · rename_i cover hc
        cases h
        have hcov := unionCover_wf (fun o ho => (hs o ho).cover_wf) (hs first (by simp)).cover_wf hc
        exact merged_good ops hcov _ hs
      · cases h

theorem newFull_wf (m : Nat) : Pyramid.WF (Pyramid.newFull m) := by
  have hlen : (Pyramid.newFull m).length = 32 := by unfold Pyramid.newFull Pyramid.levels; simp
  refine ⟨hlen, ?_⟩
  intro z hz
  have hz' : z < 32 := by rw [hlen] at hz; exact hz
  have hget : (Pyramid.newFull m)[z]? = some (if z ≤ m then ⟨z, 0, 0, 2 ^ z - 1, 2 ^ z - 1⟩ else ⟨z, 2 ^ z - 1 + 1, 2 ^ z - 1 + 1, 0, 0⟩) := by
    unfold Pyramid.newFull Pyramid.levels
    rw [List.getElem?_map, List.getElem?_range hz']
    rfl
  have key : ∀ b : BBox, b = (if z ≤ m then ⟨z, 0, 0, 2 ^ z - 1, 2 ^ z - 1⟩ else ⟨z, 2 ^ z - 1 + 1, 2 ^ z - 1 + 1, 0, 0⟩) →
      b.level = z ∧ b.WF := by
    intro b hb
    have hpos := Nat.two_pow_pos z
    subst hb
    split
    · exact ⟨rfl, by show z ≤ 31; omega, by show 2 ^ z - 1 < 2 ^ z; omega, by show 2 ^ z - 1 < 2 ^ z; omega⟩
    · exact ⟨rfl, by show z ≤ 31; omega, hpos, hpos⟩
  have h2 := List.getElem?_eq_getElem hz
  rw [hget] at h2
  exact key _ (Option.some.inj h2).symm

/-- `from_debug` is a good source (its stream is the default stream of a total lookup) – for an
    implemented format -/
theorem debug_good {β : Type} (ops : Ops β) {fmt : Nat} (hf : debugFmtOK fmt = true) : Good (debugOp ops fmt).src := by
  refine ⟨newFull_wf 31, ?_, ?_⟩
  · intro c _
    show ∃ o, (if debugFmtOK fmt then Outcome.ok (some (ops.debug fmt c)) else .err) = .ok o
    rw [if_pos hf]; exact ⟨_, rfl⟩
  · intro b hb
    refine ⟨_, defaultStream_eq _ _ b hb ?_, expected_keys_nodup _ b, List.Perm.refl _⟩
    intro c _ hp
    rw [if_pos hf] at hp
    cases hp

/-! ### every nesting -/

mutual
/-- every `from_debug` leaf uses a format `build_tile` implements (otherwise all its lookups fail) -/
def Pipe.DebugOK : Pipe → Prop
  | .leaf _ => True
  | .debug fmt => debugFmtOK fmt = true
  | .filterZoom _ _ p => p.DebugOK
  | .filterBBox _ p => p.DebugOK
  | .overlay ps => ps.DebugOK
  | .merged ps => ps.DebugOK
  | .update p => p.DebugOK
def Pipes.DebugOK : Pipes → Prop
  | .nil => True
  | .cons p ps => p.DebugOK ∧ ps.DebugOK
end

mutual
/-- **every pipeline that builds is a good source** -/
theorem build_good {β : Type} (ops : Ops β) (env : Nat → Outcome (Op β))
    (henv : ∀ i o, env i = .ok o → Good o.src) :
    ∀ (p : Pipe), p.DebugOK → ∀ (o : Op β), build ops env p = .ok o → Good o.src
  | .leaf i, _, o, h => henv i o (by simpa only [build] using h)
  | .debug fmt, hd, o, h => by
    simp only [build] at h
    cases h
    exact debug_good ops hd
  | .filterZoom zmin zmax p, hd, o, h => by
    simp only [build] at h
    split at h
    · rename_i o1 h1
      exact buildZoom_good (build_good ops env henv p hd o1 h1) h
    · exact False.elim (‹∀ (o : Op β), build ops env p = Outcome.ok o → False› o h)
  | .filterBBox q p, hd, o, h => by
    simp only [build] at h
    split at h
    · rename_i o1 h1
      exact buildBBox_good (build_good ops env henv p hd o1 h1) h
    · exact False.elim (‹∀ (o : Op β), build ops env p = Outcome.ok o → False› o h)
  | .update p, hd, o, h => by
    simp only [build] at h
    split at h
    · rename_i o1 h1
      exact buildUpdate_good (build_good ops env henv p hd o1 h1) h
    · exact False.elim (‹∀ (o : Op β), build ops env p = Outcome.ok o → False› o h)
  | .overlay ps, hd, o, h => by
    simp only [build] at h
    split at h
    · rename_i srcs hs
      exact buildOverlay_good (buildAll_good ops env henv ps hd srcs hs) h
    · cases h
    · cases h
  | .merged ps, hd, o, h => by
    simp only [build] at h
    split at h
    · rename_i srcs hs
      exact buildMerged_good (buildAll_good ops env henv ps hd srcs hs) h
    · cases h
    · cases h
theorem buildAll_good {β : Type} (ops : Ops β) (env : Nat → Outcome (Op β))
    (henv : ∀ i o, env i = .ok o → Good o.src) :
    ∀ (ps : Pipes), ps.DebugOK → ∀ (os : List (Op β)), buildAll ops env ps = .ok os → ∀ o ∈ os, Good o.src
  | .nil, _, os, h => by
    simp only [buildAll] at h
    cases h
    intro o ho
    exact absurd ho List.not_mem_nil
  | .cons p ps, hd, os, h => by
    simp only [buildAll] at h
    split at h
    · rename_i o1 h1
      split at h
      · rename_i os1 h2
        cases h
        intro o ho
        rcases List.mem_cons.mp ho with rfl | ho'
        · exact build_good ops env henv p hd.1 _ h1
        · exact buildAll_good ops env henv ps hd.2 os1 h2 o ho'
      · cases h
      · cases h
    · cases h
    · cases h
end

/-! ### building never panics -/

mutual
/-- arguments that cannot make the construction panic: the per-level boxes of a `filter_bbox`
    are either rejected (`.err`) or a well-formed pyramid -/
def Pipe.ArgsOK : Pipe → Prop
  | .leaf _ => True
  | .debug _ => True
  | .filterZoom _ _ p => p.ArgsOK
  | .filterBBox q p => (match q with | .ok qq => qq.WF | .err => True | .panic => False) ∧ p.ArgsOK
  | .overlay ps => ps.ArgsOK
  | .merged ps => ps.ArgsOK
  | .update p => p.ArgsOK
def Pipes.ArgsOK : Pipes → Prop
  | .nil => True
  | .cons p ps => p.ArgsOK ∧ ps.ArgsOK
end

theorem buildOverlay_no_panic {β : Type} {ops : Ops β} {srcs : List (Op β)} (hs : ∀ o ∈ srcs, Good o.src) :
    buildOverlay ops srcs ≠ .panic := by
  unfold buildOverlay
  split
  · exact fun h => by cases h
  · exact fun h => by cases h
  · rename_i first rest _
    split
    · exact fun h => by cases h
    · obtain ⟨r, h1, _⟩ := unionCover_ok _ (fun o ho => (hs o ho).cover_wf) _ (hs first (by simp)).cover_wf
      rw [h1]
      exact fun h => by cases h

theorem buildMerged_no_panic {β : Type} {ops : Ops β} {srcs : List (Op β)} (hs : ∀ o ∈ srcs, Good o.src) :
    buildMerged ops srcs ≠ .panic := by
  unfold buildMerged
  split
  · exact fun h => by cases h
  · exact fun h => by cases h
  · rename_i first rest _
    split
    · exact fun h => by cases h
    · obtain ⟨r, h1, _⟩ := unionCover_ok _ (fun o ho => (hs o ho).cover_wf) _ (hs first (by simp)).cover_wf
      rw [h1]
      exact fun h => by cases h

mutual
/-- **building returns `Ok` or `Err`, never panics**, for every nesting, every `min`/`max`
    (also `min > max`, values beyond `u8`), every rejected or well-formed bbox argument -/
theorem build_no_panic {β : Type} (ops : Ops β) (env : Nat → Outcome (Op β))
    (henv : ∀ i o, env i = .ok o → Good o.src) (hnp : ∀ i, env i ≠ .panic) :
    ∀ (p : Pipe), p.ArgsOK → p.DebugOK → build ops env p ≠ .panic
  | .leaf i, _, _ => by simp only [build]; exact hnp i
  | .debug fmt, _, _ => by simp only [build]; exact fun h => by cases h
  | .filterZoom zmin zmax p, ha, hd => by
    have ih := build_no_panic ops env henv hnp p ha hd
    simp only [build]
    cases hb : build ops env p with
    | ok o1 =>
      simp only
      unfold buildZoom
      split <;> exact fun h => by cases h
    | err => exact fun h => by cases h
    | panic => exact absurd hb ih
  | .filterBBox q p, ha, hd => by
    obtain ⟨hq, hp⟩ := ha
    have ih := build_no_panic ops env henv hnp p hp hd
    simp only [build]
    cases hb : build ops env p with
    | ok o1 =>
      simp only
      have hg := build_good ops env henv p hd o1 hb
      unfold buildBBox
      cases q with
      | err => exact fun h => by cases h
      | panic => exact absurd hq (by simp)
      | ok qq =>
        simp only
        obtain ⟨r, hr⟩ := pyrIntersect_ok hg.cover_wf hq
        unfold geoPyr
        rw [hr]
        exact fun h => by cases h
    | err => exact fun h => by cases h
    | panic => exact absurd hb ih
  | .update p, ha, hd => by
    have ih := build_no_panic ops env henv hnp p ha hd
    simp only [build]
    cases hb : build ops env p with
    | ok o1 =>
      simp only
      unfold buildUpdate
      split <;> exact fun h => by cases h
    | err => exact fun h => by cases h
    | panic => exact absurd hb ih
  | .overlay ps, ha, hd => by
    have ih := buildAll_no_panic ops env henv hnp ps ha hd
    simp only [build]
    cases hb : buildAll ops env ps with
    | ok srcs => exact buildOverlay_no_panic (buildAll_good ops env henv ps hd srcs hb)
    | err => exact fun h => by cases h
    | panic => exact absurd hb ih
  | .merged ps, ha, hd => by
    have ih := buildAll_no_panic ops env henv hnp ps ha hd
    simp only [build]
    cases hb : buildAll ops env ps with
    | ok srcs => exact buildMerged_no_panic (buildAll_good ops env henv ps hd srcs hb)
    | err => exact fun h => by cases h
    | panic => exact absurd hb ih
theorem buildAll_no_panic {β : Type} (ops : Ops β) (env : Nat → Outcome (Op β))
    (henv : ∀ i o, env i = .ok o → Good o.src) (hnp : ∀ i, env i ≠ .panic) :
    ∀ (ps : Pipes), ps.ArgsOK → ps.DebugOK → buildAll ops env ps ≠ .panic
  | .nil, _, _ => by simp only [buildAll]; exact fun h => by cases h
  | .cons p ps, ha, hd => by
    obtain ⟨h1, h2⟩ := ha
    have i1 := build_no_panic ops env henv hnp p h1 hd.1
    have i2 := buildAll_no_panic ops env henv hnp ps h2 hd.2
    simp only [buildAll]
    cases hb : build ops env p with
    | ok o1 =>
      simp only
      cases hbs : buildAll ops env ps with
      | ok os => exact fun h => by cases h
      | err => exact fun h => by cases h
      | panic => exact absurd hbs i2
    | err => exact fun h => by cases h
    | panic => exact absurd hb i1
end

end VtModel
