import VtModel.Vpl
/-!
# The VPL parser model never runs out of fuel

`oof` exists only because the recursion of the model is driven by fuel.  Here: every parser returns a
rest that is no longer than its input, every round of a `separated_list` loop consumes, every nesting
level consumes a `[` — hence `parseVpl s ≠ .oof` for every text: the verdict is `ok` or `err`, nothing else.
-/
namespace VtModel.Vpl

/-- a result is fine for an input of length `n`: not `oof`, and the rest is not longer than `n` -/
def Good {α : Type} (n : Nat) : R α → Prop
  | .ok rest _ => rest.length ≤ n
  | .oof => False
  | _ => True

theorem Good.mono {α : Type} {m n : Nat} {r : R α} (h : Good m r) (hmn : m ≤ n) : Good n r := by
  cases r with
  | ok i v => exact Nat.le_trans h hmn
  | error => trivial
  | failure => trivial
  | oof => exact h

theorem Good.bind {α β : Type} {n : Nat} {r : R α} {f : Str → α → R β} (h : Good n r)
    (hf : ∀ i v, i.length ≤ n → Good n (f i v)) : Good n (r.bind f) := by
  cases r with
  | ok i v => exact hf i v h
  | error => trivial
  | failure => trivial
  | oof => exact h

theorem Good.bindEq {α β : Type} {n : Nat} {r : R α} {f : Str → α → R β} (h : Good n r)
    (hf : ∀ i v, r = .ok i v → Good n (f i v)) : Good n (r.bind f) := by
  cases r with
  | ok i v => exact hf i v rfl
  | error => trivial
  | failure => trivial
  | oof => exact h

theorem Good.map {α β : Type} {n : Nat} {r : R α} (f : α → β) (h : Good n r) : Good n (r.map f) := by
  cases r with
  | ok i v => exact h
  | error => trivial
  | failure => trivial
  | oof => exact h

/-- fine on every input shorter than `n` -/
def GPlt {α : Type} (n : Nat) (p : P α) : Prop := ∀ i, i.length < n → Good i.length (p i)
/-- fine on every input -/
def GP {α : Type} (p : P α) : Prop := ∀ i, Good i.length (p i)

theorem GP.lt {α : Type} {p : P α} (h : GP p) (n : Nat) : GPlt n p := fun i _ => h i

theorem gp_pchar (c : Char) : GP (pchar c) := by
  intro i
  cases i with
  | nil => trivial
  | cons d t =>
    simp only [pchar]
    split
    · simp [Good]
    · trivial

/-- `char(c)` consumes -/
theorem pchar_lt (c : Char) (i r : Str) (h : pchar c i = .ok r ()) : r.length < i.length := by
  cases i with
  | nil => simp [pchar] at h
  | cons d t =>
    simp only [pchar] at h
    split at h
    · cases h; simp
    · cases h

theorem length_dropWhile_le (p : Char → Bool) (l : Str) : (l.dropWhile p).length ≤ l.length := by
  induction l with
  | nil => simp
  | cons c t ih =>
    simp only [List.dropWhile_cons]
    split
    · simp only [List.length_cons]; omega
    · simp

theorem gp_ws0 : GP ws0 := fun i => length_dropWhile_le isWs i

theorem gp_ws1 : GP ws1 := by
  intro i
  cases i with
  | nil => trivial
  | cons c t =>
    simp only [ws1]
    split
    · have := length_dropWhile_le isWs t
      simp only [Good, List.length_cons]; omega
    · trivial

theorem gp_ident : GP parseIdent := by
  intro i
  simp only [parseIdent]
  split
  · trivial
  · have h1 := length_dropWhile_le isAlpha i
    have h2 := length_dropWhile_le isIdentRest (i.dropWhile isAlpha)
    simp only [Good]; omega

theorem gp_unquoted : GP parseUnquoted := by
  intro i
  simp only [parseUnquoted]
  split
  · trivial
  · exact length_dropWhile_le isBare i

theorem strLoop_good : ∀ (n : Nat) (i acc : Str) (first : Bool), i.length ≤ n → Good i.length (strLoop i acc first) := by
  intro n
  induction n with
  | zero =>
    intro i acc first h
    have : i = [] := List.eq_nil_of_length_eq_zero (by omega)
    subst this; rw [strLoop]; simp [Good]
  | succ n ih =>
    intro i acc first h
    cases i with
    | nil => rw [strLoop]; simp [Good]
    | cons c t =>
      rw [strLoop.eq_def]
      simp only
      split
      · cases t with
        | nil => trivial
        | cons e t' =>
          simp only
          cases unesc e with
          | none => trivial
          | some x =>
            simp only
            have := ih t' (acc ++ [x]) false (by simp only [List.length_cons] at h; omega)
            exact this.mono (by simp only [List.length_cons]; omega)
      · split
        · split
          · trivial
          · simp [Good]
        · have := ih t (acc ++ [c]) false (by simp only [List.length_cons] at h; omega)
          exact this.mono (by simp only [List.length_cons]; omega)

theorem gp_string : GP parseString := fun i => strLoop_good i.length i [] true (Nat.le_refl _)

theorem Good.cut {α : Type} {n : Nat} {p : P α} {i : Str} (h : Good n (p i)) : Good n (cut p i) := by
  simp only [VtModel.Vpl.cut]
  split
  · trivial
  · exact h

theorem Good.opt {α : Type} {p : P α} {i : Str} (h : Good i.length (p i)) : Good i.length (opt p i) := by
  simp only [VtModel.Vpl.opt]
  split
  · rename_i r v e; rw [e] at h; exact h
  · exact Nat.le_refl _
  · trivial
  · rename_i e; rw [e] at h; exact h

theorem Good.alt {α : Type} {n : Nat} {p q : P α} {i : Str} (hp : Good n (p i)) (hq : Good n (q i)) : Good n (alt p q i) := by
  simp only [VtModel.Vpl.alt]
  split
  · exact hq
  · exact hp

theorem gp_quoted : GP parseQuoted := by
  intro i
  simp only [parseQuoted]
  refine Good.bind (gp_pchar _ i) (fun j _ hj => ?_)
  refine Good.bind ((Good.opt (gp_string j)).mono hj) (fun k s hk => ?_)
  refine Good.bind ((Good.cut (gp_pchar _ k)).mono hk) (fun l _ hl => ?_)
  exact hl

theorem gp_item : GP parseItem := fun i => Good.alt (gp_quoted i) (gp_unquoted i)

theorem gp_commaSep : GP commaSep := by
  intro i
  simp only [commaSep]
  refine Good.bind (gp_ws0 i) (fun j _ hj => ?_)
  refine Good.bind ((gp_pchar _ j).mono hj) (fun k _ hk => ?_)
  exact (gp_ws0 k).mono hk

theorem sepLoop_good {α : Type} (n : Nat) (sep : P Unit) (elem : P α) (hs : GPlt n sep) (he : GPlt n elem) :
    ∀ (fuel : Nat) (i : Str) (acc : List α), i.length < fuel → i.length < n → Good i.length (sepLoop sep elem fuel i acc) := by
  intro fuel
  induction fuel with
  | zero => intro i acc h; omega
  | succ f ih =>
    intro i acc hf hn
    have h1 := hs i hn
    simp only [sepLoop]
    cases hsep : sep i with
    | error => exact Nat.le_refl _
    | failure => trivial
    | oof => rw [hsep] at h1; exact h1
    | ok i1 u =>
      rw [hsep] at h1
      have h1' : i1.length ≤ i.length := h1
      have h2 := he i1 (by omega)
      simp only
      cases helem : elem i1 with
      | error => exact Nat.le_refl _
      | failure => trivial
      | oof => rw [helem] at h2; exact h2
      | ok i2 o =>
        rw [helem] at h2
        have h2' : i2.length ≤ i1.length := h2
        simp only
        split
        · trivial
        · rename_i hne
          exact (ih i2 (acc ++ [o]) (by omega) (by omega)).mono (by omega)

theorem sepList0_good {α : Type} (n : Nat) (sep : P Unit) (elem : P α) (hs : GPlt n sep) (he : GPlt n elem) :
    GPlt n (sepList0 sep elem) := by
  intro i hn
  have h1 := he i hn
  simp only [sepList0]
  cases helem : elem i with
  | error => exact Nat.le_refl _
  | failure => trivial
  | oof => rw [helem] at h1; exact h1
  | ok i1 o =>
    rw [helem] at h1
    have h1' : i1.length ≤ i.length := h1
    exact (sepLoop_good n sep elem hs he (i1.length + 1) i1 [o] (by omega) (by omega)).mono h1'

theorem sepList1_good {α : Type} (n : Nat) (sep : P Unit) (elem : P α) (hs : GPlt n sep) (he : GPlt n elem) :
    GPlt n (sepList1 sep elem) := by
  intro i hn
  have h1 := he i hn
  simp only [sepList1]
  cases helem : elem i with
  | error => trivial
  | failure => trivial
  | oof => rw [helem] at h1; exact h1
  | ok i1 o =>
    rw [helem] at h1
    have h1' : i1.length ≤ i.length := h1
    exact (sepLoop_good n sep elem hs he (i1.length + 1) i1 [o] (by omega) (by omega)).mono h1'

theorem gp_array : GP parseArray := by
  intro i
  simp only [parseArray]
  refine Good.bind (gp_pchar _ i) (fun j _ hj => ?_)
  refine Good.bind ((gp_ws0 j).mono hj) (fun k _ hk => ?_)
  refine Good.bind ((sepList0_good (k.length + 1) commaSep parseItem (gp_commaSep.lt _) (gp_item.lt _) k
    (Nat.lt_succ_self _)).mono hk) (fun l _ hl => ?_)
  refine Good.bind ((gp_ws0 l).mono hl) (fun m _ hm => ?_)
  refine Good.bind ((gp_pchar _ m).mono hm) (fun o _ ho => ?_)
  exact ho

theorem gp_value : GP parseValue := by
  intro i
  simp only [parseValue]
  exact Good.alt (Good.map _ (gp_quoted i)) (Good.alt (Good.map _ (gp_unquoted i)) (gp_array i))

theorem gp_eqSep : GP eqSep := by
  intro i
  simp only [eqSep]
  refine Good.cut (p := fun i => (ws0 i).bind fun i _ => (pchar '=' i).bind fun i _ => ws0 i) ?_
  refine Good.bind (gp_ws0 i) (fun j _ hj => ?_)
  refine Good.bind ((gp_pchar _ j).mono hj) (fun k _ hk => ?_)
  exact (gp_ws0 k).mono hk

theorem gp_property : GP parseProperty := by
  intro i
  simp only [parseProperty]
  refine Good.bind (gp_ident i) (fun j _ hj => ?_)
  refine Good.bind ((gp_eqSep j).mono hj) (fun k _ hk => ?_)
  refine Good.bind ((Good.cut (gp_value k)).mono hk) (fun l _ hl => ?_)
  exact hl

/-- the nested pipeline parser is only ever called behind a consumed `[` -/
theorem sources_good (n : Nat) (pp : P Pipeline) (hpp : GPlt n pp) : GPlt (n + 1) (parseSources pp) := by
  intro i hi
  simp only [parseSources]
  refine Good.map _ ?_
  refine Good.opt ?_
  refine Good.bindEq (gp_pchar '[' i) (fun j u hp => ?_)
  have hlt := pchar_lt '[' i j hp
  refine Good.mono (m := j.length) ?_ (by omega)
  refine Good.bind (gp_ws0 j) (fun k _ hk => ?_)
  refine Good.bind ((sepList0_good n (pchar ',') pp ((gp_pchar _).lt _) hpp k (by omega)).mono hk) (fun l _ hl => ?_)
  refine Good.bind ((gp_ws0 l).mono hl) (fun m _ hm => ?_)
  refine Good.bind ((Good.cut (gp_pchar _ m)).mono hm) (fun o _ ho => ?_)
  exact ho

theorem node_good (n : Nat) (pp : P Pipeline) (hpp : GPlt n pp) : GPlt (n + 1) (parseNode pp) := by
  intro i hi
  simp only [parseNode]
  refine Good.bind (gp_ws0 i) (fun j _ hj => ?_)
  refine Good.bind ((gp_ident j).mono hj) (fun k _ hk => ?_)
  refine Good.bind ((gp_ws0 k).mono hk) (fun l _ hl => ?_)
  refine Good.bind ((sepList0_good (l.length + 1) ws1 parseProperty (gp_ws1.lt _) (gp_property.lt _) l
    (Nat.lt_succ_self _)).mono hl) (fun m _ hm => ?_)
  refine Good.bind ((gp_ws0 m).mono hm) (fun o _ ho => ?_)
  refine Good.bind ((sources_good n pp hpp o (by omega)).mono ho) (fun q _ hq => ?_)
  refine Good.bind ((gp_ws0 q).mono hq) (fun r _ hr => ?_)
  exact hr

theorem pipelineWith_good (n : Nat) (pn : P Node) (hpn : GPlt n pn) : GPlt n (parsePipelineWith pn) := by
  intro i hi
  simp only [parsePipelineWith]
  refine Good.bind (gp_ws0 i) (fun j _ hj => ?_)
  refine Good.bind ((sepList1_good n (pchar '|') pn ((gp_pchar _).lt _) hpn j (by omega)).mono hj) (fun k _ hk => ?_)
  refine Good.bind ((gp_ws0 k).mono hk) (fun l _ hl => ?_)
  exact hl

/-- with `f` levels of fuel every text shorter than `f` is parsed without running out of fuel -/
theorem pipeline_good : ∀ f : Nat, GPlt f (parsePipeline f) := by
  intro f
  induction f with
  | zero => intro i hi; omega
  | succ f ih =>
    show GPlt (f + 1) (parsePipelineWith (parseNode (parsePipeline f)))
    exact pipelineWith_good (f + 1) _ (node_good f _ ih)

/-- **totality**: the verdict of the model is `ok` or `err`, never "out of fuel" -/
theorem parseVplCore_ne_oof (s : Str) : (match parseVplCore s with | .oof => False | _ => True) := by
  have h := pipeline_good (s.length + 1) s (Nat.lt_succ_self _)
  simp only [parseVplCore]
  cases hp : parsePipeline (s.length + 1) s with
  | ok r v => cases r <;> trivial
  | error => trivial
  | failure => trivial
  | oof => rw [hp] at h; exact h

theorem parseVpl_ne_oof (s : Str) : (match parseVpl s with | .oof => False | _ => True) := by
  by_cases hd : bracketDepth s ≤ maxNesting
  · have : parseVpl s = parseVplCore s := by simp only [parseVpl, hd, if_true]
    rw [this]; exact parseVplCore_ne_oof s
  · have : parseVpl s = .err := by simp only [parseVpl, hd, if_false]
    rw [this]; trivial

end VtModel.Vpl
