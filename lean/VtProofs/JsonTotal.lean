import VtModel.Json
/-!
C17/C19: the parser model is total. For EVERY byte string the fuel handed out by `parseBytes`
suffices (each unit of fuel is matched by a consumed structural byte), and no outcome is a panic.
-/
namespace VtProofs.Json
open VtModel.Json

/-- the outcome is neither "out of fuel" nor a panic, and a successful parse leaves at most `n` bytes -/
def Good {α : Type} (n : Nat) : Res (α × Iter) → Prop
  | .ok (_, it') => it'.rest.length ≤ n
  | .fuel => False
  | .panic _ => False
  | .err => True

theorem Good.mono {α : Type} {n m : Nat} {r : Res (α × Iter)} (h : Good n r) (hnm : n ≤ m) : Good m r := by
  cases r with
  | ok p => obtain ⟨a, it'⟩ := p; simp only [Good] at h ⊢; omega
  | err => trivial
  | panic s => exact h
  | fuel => exact h

theorem Good.bind {α β : Type} {n m : Nat} {r : Res (α × Iter)} {f : α × Iter → Res (β × Iter)}
    (h : Good n r) (hf : ∀ a it', it'.rest.length ≤ n → Good m (f (a, it'))) : Good m (r.bind f) := by
  cases r with
  | ok p => obtain ⟨a, it'⟩ := p; simp only [Res.bind_ok]; exact hf a it' h
  | err => trivial
  | panic s => exact absurd h (by simp [Good])
  | fuel => exact absurd h (by simp [Good])

theorem Good.map {α β : Type} {n : Nat} {r : Res (α × Iter)} (g : α × Iter → β × Iter)
    (h : Good n r) (hg : ∀ p, (g p).2 = p.2) : Good n (r.map g) := by
  cases r with
  | ok p =>
    simp only [Res.map_ok]
    have := hg p
    obtain ⟨a, it'⟩ := p
    cases hgp : g (a, it') with
    | mk b it'' => rw [hgp] at this; simp only at this; subst this; exact h
  | err => trivial
  | panic s => exact absurd h (by simp [Good])
  | fuel => exact absurd h (by simp [Good])

theorem good_formatError {α : Type} (n : Nat) (it : Iter) : Good n (formatError it : Res (α × Iter)) := trivial

theorem skipWsGo_len (pre rest : Bytes) : (skipWsGo pre rest).2.length ≤ rest.length := by
  induction rest generalizing pre with
  | nil => simp [skipWsGo]
  | cons b r ih =>
    simp only [skipWsGo]
    split
    · have := ih (b :: pre); simp only [List.length_cons]; omega
    · simp

theorem skipWs_len (it : Iter) : (skipWs it).rest.length ≤ it.rest.length := skipWsGo_len _ _

theorem good_expectNext (it : Iter) (n : Nat) (h : it.rest.length ≤ n + 1) : Good n (expectNext it) := by
  unfold expectNext
  cases hr : it.rest with
  | nil => trivial
  | cons b r => simp only [Good]; rw [hr] at h; simp at h; exact h

theorem good_strLoop (dbg : Bool) : ∀ (k : Nat) (rest pre acc : Bytes), rest.length ≤ k →
    Good k (strLoop dbg rest pre acc) := by
  intro k
  induction k using Nat.strongRecOn with
  | _ k ih =>
    intro rest pre acc hk
    rw [strLoop.eq_def]
    cases rest with
    | nil => trivial
    | cons b r =>
      simp only [List.length_cons] at hk
      simp only
      split
      · simp only [Good]; omega
      · split
        · cases r with
          | nil => trivial
          | cons c r1 =>
            simp only [List.length_cons] at hk
            simp only
            split
            · -- \u
              split
              · rename_i h1 h2 h3 h4 r2
                simp only [List.length_cons] at hk
                split
                · trivial
                · split
                  · trivial
                  · split
                    · trivial
                    · exact (ih (k - 6) (by omega) r2 _ _ (by omega)).mono (by omega)
              · trivial
            · exact (ih (k - 2) (by omega) r1 _ _ (by omega)).mono (by omega)
        · exact (ih (k - 1) (by omega) r _ _ (by omega)).mono (by omega)

theorem good_parseQuotedString (it : Iter) : Good it.rest.length (parseQuotedString it) := by
  unfold parseQuotedString
  have hs := skipWs_len it
  apply Good.bind (good_expectNext (skipWs it) (it.rest.length - 1) (by omega))
  intro b it1 h1
  dsimp only
  split
  · trivial
  · apply Good.bind (good_strLoop it1.debug it1.rest.length it1.rest it1.pre [] (Nat.le_refl _))
    intro raw it2 h2
    dsimp only
    split
    · trivial
    · simp only [Good]; omega


theorem spanDigits_len (l : Bytes) : (spanDigits l).2.length ≤ l.length := by
  induction l with
  | nil => simp [spanDigits]
  | cons b r ih =>
    simp only [spanDigits]
    split
    · simp only [List.length_cons]; omega
    · simp

theorem lexDigits_len (it : Iter) : (lexDigits it).2.rest.length ≤ it.rest.length := by
  simp only [lexDigits, Iter.eat]; exact spanDigits_len _

theorem lexSign_len (it : Iter) : (lexSign it).2.rest.length ≤ it.rest.length := by
  unfold lexSign
  cases hr : it.rest with
  | nil => simp [hr]
  | cons b r =>
    simp only
    split
    · simp [Iter.eat]
    · simp [hr]

theorem good_lexFrac (it : Iter) : Good it.rest.length (lexFrac it) := by
  unfold lexFrac
  cases hr : it.rest with
  | nil => simp [Good, hr]
  | cons b r =>
    simp only
    split
    · have := lexDigits_len (it.eat [b] r)
      simp only [Iter.eat] at this
      split
      · trivial
      · simp only [Good, List.length_cons]; simp only [Iter.eat]; omega
    · simp [Good, hr]

theorem good_lexExp (it : Iter) : Good it.rest.length (lexExp it) := by
  unfold lexExp
  cases hr : it.rest with
  | nil => simp [Good, hr]
  | cons b r =>
    simp only
    split
    · have h1 := lexSign_len (it.eat [b] r)
      have h2 := lexDigits_len (lexSign (it.eat [b] r)).2
      simp only [Iter.eat] at h1 h2
      split
      · trivial
      · simp only [Good, List.length_cons]; simp only [Iter.eat]; omega
    · simp [Good, hr]

theorem good_lexNumber (it : Iter) : Good it.rest.length (lexNumber it) := by
  unfold lexNumber
  have h1 := lexSign_len it
  have h2 := lexDigits_len (lexSign it).2
  simp only
  split
  · trivial
  · apply Good.bind (n := it.rest.length) ((good_lexFrac _).mono (by omega))
    intro fr it4 h4
    dsimp only
    apply Good.bind (n := it.rest.length) ((good_lexExp it4).mono h4)
    intro ex it7 h7
    simp only [Good]; exact h7

theorem good_parseNumber {N : Type} (ops : NumOps N) (it : Iter) : Good it.rest.length (parseNumber ops it) := by
  unfold parseNumber
  apply Good.bind (good_lexNumber it)
  intro lx it1 h1
  dsimp only
  split
  · trivial
  · simp only [Good]; exact h1

def GoodI (n : Nat) : Res Iter → Prop
  | .ok it' => it'.rest.length ≤ n
  | .fuel => False
  | .panic _ => False
  | .err => True

/-- `parse_tag` never runs out of fuel and only consumes -/
theorem parseTagGo_len (dbg : Bool) (tag pre rest : Bytes) : GoodI rest.length (parseTagGo dbg tag pre rest) := by
  induction tag generalizing pre rest with
  | nil => simp [parseTagGo, GoodI]
  | cons c t ih =>
    cases rest with
    | nil => simp [parseTagGo, formatError, GoodI]
    | cons b r =>
      simp only [parseTagGo]
      split
      · have := ih (b :: pre) r
        revert this
        cases parseTagGo dbg t (b :: pre) r <;> simp [GoodI]
        intro h; omega
      · simp [formatError, GoodI]

theorem good_parseTag {α : Type} (it : Iter) (tag : Bytes) (x : α) :
    Good it.rest.length ((parseTag it tag).map fun it1 => (x, it1)) := by
  have := parseTagGo_len it.debug tag it.pre it.rest
  unfold parseTag
  revert this
  cases parseTagGo it.debug tag it.pre it.rest <;> simp [Good, GoodI, Res.map]


theorem advance_len (it : Iter) : it.advance.rest.length ≤ it.rest.length := by
  unfold Iter.advance
  cases hr : it.rest with
  | nil => simp [hr]
  | cons b r => simp

variable {N : Type} (ops : NumOps N)

/-- fuel `2·|rest| + 3` (values) / `2·|rest| + 2` (the other four functions) always suffices -/
theorem total_aux : ∀ f : Nat,
    (∀ (d : Nat) (it : Iter), 2 * it.rest.length + 3 ≤ f → Good it.rest.length (parseValue ops f d it)) ∧
    (∀ (d : Nat) (it : Iter), 2 * it.rest.length + 2 ≤ f → Good it.rest.length (parseArray ops f d it)) ∧
    (∀ (d : Nat) (it : Iter) acc, 2 * it.rest.length + 2 ≤ f → Good it.rest.length (parseArrayRest ops f d it acc)) ∧
    (∀ (d : Nat) (it : Iter), 2 * it.rest.length + 2 ≤ f → Good it.rest.length (parseObject ops f d it)) ∧
    (∀ (d : Nat) (it : Iter) acc, 2 * it.rest.length + 2 ≤ f → Good it.rest.length (parseObjectLoop ops f d it acc)) := by
  intro f
  induction f with
  | zero => refine ⟨?_, ?_, ?_, ?_, ?_⟩ <;> (intros; omega)
  | succ f ih =>
    obtain ⟨ihV, ihA, ihR, ihO, ihL⟩ := ih
    refine ⟨?_, ?_, ?_, ?_, ?_⟩
    · -- parseValue
      intro d it hf
      have hs := skipWs_len it
      simp only [parseValue]
      cases hr : (skipWs it).rest with
      | nil => trivial
      | cons b r =>
        simp only
        split
        · split
          · trivial
          · exact (ihA (d + 1) (skipWs it) (by omega)).mono hs
        split
        · split
          · trivial
          · exact (ihO (d + 1) (skipWs it) (by omega)).mono hs
        split
        · apply Good.mono _ hs; apply Good.map; exact good_parseQuotedString _; intro _; rfl
        split
        · apply Good.mono _ hs; apply Good.map; exact good_parseNumber ops _; intro _; rfl
        split
        · exact (good_parseTag (skipWs it) bT _).mono hs
        split
        · exact (good_parseTag (skipWs it) bF _).mono hs
        split
        · exact (good_parseTag (skipWs it) bN _).mono hs
        · trivial
    · -- parseArray
      intro d it hf
      have hs := skipWs_len it
      simp only [parseArray]
      have hpos : (skipWs it).rest = [] ∨ 1 ≤ it.rest.length := by
        cases hr : (skipWs it).rest with
        | nil => exact Or.inl rfl
        | cons b r => rw [hr] at hs; simp at hs; exact Or.inr (by omega)
      rcases hpos with hnil | hpos
      · simp [expectNext, hnil, formatError, Good]
      apply Good.bind (n := it.rest.length - 1) (good_expectNext (skipWs it) _ (by omega))
      intro b it1 h1
      dsimp only
      split
      · trivial
      · have hs2 := skipWs_len it1
        split
        · simp only [Good]; have := advance_len (skipWs it1); omega
        · apply Good.bind (n := it.rest.length - 1) ((ihV d (skipWs it1) (by omega)).mono (by omega))
          intro v it3 h3
          dsimp only
          apply Good.mono (n := it3.rest.length) _ (by omega); apply Good.map; exact ihR d it3 [v] (by omega); intro _; rfl
    · -- parseArrayRest
      intro d it acc hf
      have hs := skipWs_len it
      simp only [parseArrayRest]
      have hpos : (skipWs it).rest = [] ∨ 1 ≤ it.rest.length := by
        cases hr : (skipWs it).rest with
        | nil => exact Or.inl rfl
        | cons b r => rw [hr] at hs; simp at hs; exact Or.inr (by omega)
      rcases hpos with hnil | hpos
      · simp [expectNext, hnil, formatError, Good]
      apply Good.bind (n := it.rest.length - 1) (good_expectNext (skipWs it) _ (by omega))
      intro b it1 h1
      dsimp only
      split
      · simp only [Good]; omega
      · split
        · have hs2 := skipWs_len it1
          apply Good.bind (n := it.rest.length - 1) ((ihV d (skipWs it1) (by omega)).mono (by omega))
          intro v it3 h3
          dsimp only
          exact (ihR d it3 _ (by omega)).mono (by omega)
        · trivial
    · -- parseObject
      intro d it hf
      have hs := skipWs_len it
      simp only [parseObject]
      have hpos : (skipWs it).rest = [] ∨ 1 ≤ it.rest.length := by
        cases hr : (skipWs it).rest with
        | nil => exact Or.inl rfl
        | cons b r => rw [hr] at hs; simp at hs; exact Or.inr (by omega)
      rcases hpos with hnil | hpos
      · simp [expectNext, hnil, formatError, Good]
      apply Good.bind (n := it.rest.length - 1) (good_expectNext (skipWs it) _ (by omega))
      intro b it1 h1
      dsimp only
      split
      · trivial
      · apply Good.mono (n := it1.rest.length) _ (by omega); apply Good.map; exact ihL d it1 [] (by omega); intro _; rfl
    · -- parseObjectLoop
      intro d it acc hf
      have hs := skipWs_len it
      simp only [parseObjectLoop]
      cases hr : (skipWs it).rest with
      | nil => trivial
      | cons b r =>
        have hlen : r.length + 1 ≤ it.rest.length := by rw [hr] at hs; simpa using hs
        simp only
        split
        · simp only [Good]; have := advance_len (skipWs it); omega
        · split
          · apply Good.bind (n := it.rest.length) ((good_parseQuotedString (skipWs it)).mono hs)
            intro k it1 h1
            dsimp only
            have hs2 := skipWs_len it1
            apply Good.bind (n := it.rest.length - 1) (good_expectNext (skipWs it1) _ (by omega))
            intro c it3 h3
            dsimp only
            split
            · trivial
            · have hs4 := skipWs_len it3
              apply Good.bind (n := it.rest.length - 1) ((ihV d (skipWs it3) (by omega)).mono (by omega))
              intro v it5 h5
              dsimp only
              have hs6 := skipWs_len it5
              apply Good.bind (n := it.rest.length - 2) (good_expectNext (skipWs it5) _ (by omega))
              intro d2 it7 h7
              dsimp only
              split
              · exact (ihL d it7 _ (by omega)).mono (by omega)
              · split
                · simp only [Good]; omega
                · trivial
          · trivial

/-- `parse_json_str` as modelled is total: the fuel `2·|input| + 4` never runs out, for any input -/
theorem parseBytes_total (input : Bytes) : parseBytes ops input ≠ .fuel := by
  unfold parseBytes
  have := (total_aux ops (fuelFor input)).1 0 (Iter.start input) (by simp [Iter.start, fuelFor])
  revert this
  cases parseValue ops (fuelFor input) 0 (Iter.start input) <;> simp [Good, Res.map]

/-- … and (since a22a8569) it never panics: every byte string is answered with `ok` or `err` -/
theorem parseBytes_no_panic (input : Bytes) (s : String) : parseBytes ops input ≠ .panic s := by
  unfold parseBytes
  have := (total_aux ops (fuelFor input)).1 0 (Iter.start input) (by simp [Iter.start, fuelFor])
  revert this
  cases parseValue ops (fuelFor input) 0 (Iter.start input) <;> simp [Good, Res.map]

end VtProofs.Json
