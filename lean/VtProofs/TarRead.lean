import VtModel.TarDir
import VtProofs.TarDir
import VtModel.MBTiles
/-!
Tar reader: an archive whose regular members are named `[./]z/x/y.<fmt>[.<comp>]` (one format, one
compression, pairwise different coordinates) is opened and every lookup returns the member's payload.
MBTiles reader: zoom gaps do not fail the open.
-/
namespace VtProofs.TarRead
open VtModel VtModel.Fmt VtModel.TarDir

/-- a tile member as an independent encoder may write it: with or without the `./` prefix -/
structure TileFile where
  dot : Bool
  x : Nat
  y : Nat
  z : Nat
  payload : Bytes

def TileFile.name (f : TileFormat) (c : TComp) (t : TileFile) : List Char :=
  if t.dot then '.' :: '/' :: formatName t.z t.x t.y f c else formatName t.z t.x t.y f c

def TileFile.file (f : TileFormat) (c : TComp) (t : TileFile) : File := (some (t.name f c), t.payload)

def TileFile.ok (t : TileFile) : Prop := t.z ≤ 31 ∧ t.x < 2 ^ t.z ∧ t.y < 2 ^ t.z

theorem pow_le_u32 {z : Nat} (h : z ≤ 31) : 2 ^ z ≤ 4294967296 :=
  Nat.le_trans (Nat.pow_le_pow_right (by omega) h) (by decide)

theorem TileFile.ok.x32 {t : TileFile} (h : t.ok) : t.x < 4294967296 := Nat.lt_of_lt_of_le h.2.1 (pow_le_u32 h.1)
theorem TileFile.ok.y32 {t : TileFile} (h : t.ok) : t.y < 4294967296 := Nat.lt_of_lt_of_le h.2.2 (pow_le_u32 h.1)

theorem addTile_ok (s : State) (t : TileFile) (h : t.ok) (f : TileFormat) (c : TComp)
    (hf : s.fmt = none ∨ s.fmt = some f) (hc : s.comp = none ∨ s.comp = some c) :
    addTile s t.z t.x t.y f c t.payload = .ok ⟨some f, some c, ((t.x, t.y, t.z), t.payload) :: s.tiles⟩ := by
  unfold addTile
  have g1 : (s.fmt.isSome && decide (s.fmt ≠ some f)) = false := by
    rcases hf with h | h <;> simp [h]
  have g2 : (s.comp.isSome && decide (s.comp ≠ some c)) = false := by
    rcases hc with h | h <;> simp [h]
  have g3 : (decide (t.x ≥ 2 ^ t.z) || decide (t.y ≥ 2 ^ t.z)) = false := by
    have := h.2.1; have := h.2.2
    simp only [Bool.or_eq_false_iff, decide_eq_false_iff_not]
    omega
  rw [g1, g2, g3]
  simp

theorem classify_tileFile (f : TileFormat) (c : TComp) (t : TileFile) (h : t.ok) :
    classifyTar (t.name f c) = .tile t.z t.x t.y f c := by
  unfold TileFile.name
  cases t.dot
  · simp only [Bool.false_eq_true, if_false]
    exact VtProofs.TarDir.classifyTar_formatName t.z t.x t.y f c h.1 h.x32 h.y32
  · simp only [if_true]
    exact VtProofs.TarDir.classifyTar_dot_formatName t.z t.x t.y f c h.1 h.x32 h.y32

/-- the fold over tile members: all are accepted, later members are in front -/
theorem fold_tiles (K : Inflate) (f : TileFormat) (c : TComp) : ∀ (ts : List TileFile) (s : State),
    (∀ t ∈ ts, t.ok) → (s.fmt = none ∨ s.fmt = some f) → (s.comp = none ∨ s.comp = some c) →
    ∃ s', foldFiles (tarStep K) s (ts.map (TileFile.file f c)) = .ok s' ∧
      s'.tiles = (ts.map fun t => ((t.x, t.y, t.z), t.payload)).reverse ++ s.tiles ∧
      (ts ≠ [] → s'.fmt = some f ∧ s'.comp = some c) ∧ (ts = [] → s' = s) := by
  intro ts
  induction ts with
  | nil => intro s _ _ _; exact ⟨s, rfl, by simp, by simp, fun _ => rfl⟩
  | cons t ts ih =>
    intro s hok hf hc
    have ht := hok t (by simp)
    have hstep : tarStep K s (t.file f c) = .ok ⟨some f, some c, ((t.x, t.y, t.z), t.payload) :: s.tiles⟩ := by
      unfold tarStep TileFile.file
      simp only [classify_tileFile f c t ht]
      exact addTile_ok s t ht f c hf hc
    obtain ⟨s', h1, h2, h3, _⟩ := ih ⟨some f, some c, ((t.x, t.y, t.z), t.payload) :: s.tiles⟩
      (fun u hu => hok u (by simp [hu])) (Or.inr rfl) (Or.inr rfl)
    refine ⟨s', ?_, ?_, ?_, by simp⟩
    · simp only [List.map_cons, foldFiles, hstep]
      exact h1
    · rw [h2]; simp
    · intro _
      by_cases hts : ts = []
      · subst hts
        simp [foldFiles] at h1
        subst h1
        exact ⟨rfl, rfl⟩
      · exact h3 hts

/-- **C16 (tar)**: archives with `./`-prefixed and plain tile members -/
theorem tar_complete (K : Inflate) (f : TileFormat) (c : TComp) (ts : List TileFile) (hne : ts ≠ [])
    (hok : ∀ t ∈ ts, t.ok)
    (hnd : (ts.map fun t => (t.x, t.y, t.z)).Nodup) :
    ∃ r, openTar K (ts.map (TileFile.file f c)) = .ok r ∧ r.fmt = f ∧ r.comp = c ∧
      (∀ t ∈ ts, getTile r t.x t.y t.z = .ok (some t.payload)) ∧
      (∀ x y z, (∀ t ∈ ts, (t.x, t.y, t.z) ≠ (x, y, z)) → getTile r x y z = .ok none) := by
  obtain ⟨s', h1, h2, h3, _⟩ := fold_tiles K f c ts ⟨none, none, []⟩ hok (Or.inl rfl) (Or.inl rfl)
  obtain ⟨hf, hc⟩ := h3 hne
  simp only [List.append_nil] at h2
  have htl : s'.tiles ≠ [] := by
    rw [h2]
    cases ts with
    | nil => exact absurd rfl hne
    | cons a as => simp
  have hfin : finish s' = .ok ⟨f, c, s'.tiles⟩ := by
    unfold finish
    cases hst : s'.tiles with
    | nil => exact absurd hst htl
    | cons a as => simp only [hf, hc]
  refine ⟨⟨f, c, s'.tiles⟩, by unfold openTar; rw [h1]; exact hfin, rfl, rfl, ?_, ?_⟩
  · intro t ht
    unfold getTile
    simp only [h2]
    congr 1
    -- the reversed list has pairwise different keys: the first match is `t`
    have hmem : ((t.x, t.y, t.z), t.payload) ∈ (ts.map fun t => ((t.x, t.y, t.z), t.payload)).reverse := by
      rw [List.mem_reverse, List.mem_map]; exact ⟨t, ht, rfl⟩
    have hnd' : ((ts.map fun t => ((t.x, t.y, t.z), t.payload)).reverse.map (·.1)).Nodup := by
      rw [List.map_reverse, (List.reverse_perm _).nodup_iff, List.map_map]
      exact hnd
    generalize (ts.map fun t => ((t.x, t.y, t.z), t.payload)).reverse = l at hmem hnd'
    induction l with
    | nil => cases hmem
    | cons a l ih =>
      simp only [List.map_cons, List.nodup_cons] at hnd'
      simp only [List.find?_cons]
      cases hmem with
      | head => simp
      | tail _ hm =>
        have hne' : a.1 ≠ (t.x, t.y, t.z) := by
          intro e
          apply hnd'.1
          rw [List.mem_map]
          exact ⟨_, hm, e.symm⟩
        have : (a.1 == (t.x, t.y, t.z)) = false := by
          rw [Bool.eq_false_iff]; intro h; exact hne' (by simpa using h)
        simp only [this]
        exact ih hm hnd'.2
  · intro x y z hno
    unfold getTile
    simp only [h2]
    congr 1
    rw [Option.map_eq_none_iff, List.find?_eq_none]
    intro p hp
    rw [List.mem_reverse, List.mem_map] at hp
    obtain ⟨t, ht, rfl⟩ := hp
    have := hno t ht
    simp only [beq_iff_eq]
    exact this

/-! ### directory trees -/

theorem find_unique (l : List ((Nat × Nat × Nat) × Bytes)) (hnd : (l.map (·.1)).Nodup) (p : (Nat × Nat × Nat) × Bytes)
    (hp : p ∈ l) : (l.find? (fun t => t.1 == p.1)).map (·.2) = some p.2 := by
  induction l with
  | nil => cases hp
  | cons a l ih =>
    simp only [List.map_cons, List.nodup_cons] at hnd
    simp only [List.find?_cons]
    cases hp with
    | head => simp
    | tail _ hm =>
      have hne' : a.1 ≠ p.1 := by
        intro e
        apply hnd.1
        rw [List.mem_map]
        exact ⟨_, hm, e.symm⟩
      have : (a.1 == p.1) = false := by
        rw [Bool.eq_false_iff]; intro h; exact hne' (by simpa using h)
      simp only [this]
      exact ih hnd.2 hm

/-- a tile file of a directory tree (no `./`) -/
def dirFile (f : TileFormat) (c : TComp) (t : TileFile) : File := (some (formatName t.z t.x t.y f c), t.payload)

theorem dirStep_tile (K : Inflate) (f : TileFormat) (c : TComp) (t : TileFile) (h : t.ok) (s : State)
    (hf : s.fmt = none ∨ s.fmt = some f) (hc : s.comp = none ∨ s.comp = some c) :
    dirStep K s (dirFile f c t) = .ok ⟨some f, some c, ((t.x, t.y, t.z), t.payload) :: s.tiles⟩ := by
  unfold dirStep dirFile
  simp only [VtProofs.TarDir.splitSlash_formatName]
  have h1 : parseU8 (natToDec t.z) = some t.z := VtProofs.TarDir.parseUnsigned_natToDec 256 t.z (by have := h.1; omega)
  have h2 : parseU32 (natToDec t.x) = some t.x := VtProofs.TarDir.parseUnsigned_natToDec _ t.x h.x32
  have h3 : parseU32 (natToDec t.y) = some t.y := VtProofs.TarDir.parseUnsigned_natToDec _ t.y h.y32
  simp only [h1, h2, VtProofs.TarDir.compFrom_ext, VtProofs.TarDir.fmtFrom_ext, h3]
  rw [addTile_ok s t h f c hf hc]
  have : ¬ (t.z > 31) := by have := h.1; omega
  simp [this]

theorem fold_dir_tiles (K : Inflate) (f : TileFormat) (c : TComp) : ∀ (ts : List TileFile) (s : State),
    (∀ t ∈ ts, t.ok) → (s.fmt = none ∨ s.fmt = some f) → (s.comp = none ∨ s.comp = some c) →
    ∃ s', foldFiles (dirStep K) s (ts.map (dirFile f c)) = .ok s' ∧
      s'.tiles = (ts.map fun t => ((t.x, t.y, t.z), t.payload)).reverse ++ s.tiles ∧
      (ts ≠ [] → s'.fmt = some f ∧ s'.comp = some c) := by
  intro ts
  induction ts with
  | nil => intro s _ _ _; exact ⟨s, rfl, by simp, by simp⟩
  | cons t ts ih =>
    intro s hok hf hc
    have hstep := dirStep_tile K f c t (hok t (by simp)) s hf hc
    obtain ⟨s', h1, h2, h3⟩ := ih ⟨some f, some c, ((t.x, t.y, t.z), t.payload) :: s.tiles⟩
      (fun u hu => hok u (by simp [hu])) (Or.inr rfl) (Or.inr rfl)
    refine ⟨s', ?_, ?_, ?_⟩
    · simp only [List.map_cons, foldFiles, hstep]
      exact h1
    · rw [h2]; simp
    · intro _
      by_cases hts : ts = []
      · subst hts
        simp [foldFiles] at h1
        subst h1
        exact ⟨rfl, rfl⟩
      · exact h3 hts

/-- **C16 (directory)**: a tree whose files are `z/x/y.<fmt>[.<comp>]` (one format, one compression,
    pairwise different coordinates; any walk order inside the sorted-path model) is opened and every
    lookup returns the file's content, `None` elsewhere -/
theorem dir_complete (K : Inflate) (f : TileFormat) (c : TComp) (ts : List TileFile) (hne : ts ≠ [])
    (hok : ∀ t ∈ ts, t.ok) (hnd : (ts.map fun t => (t.x, t.y, t.z)).Nodup) :
    ∃ r, openDir K (ts.map (dirFile f c)) = .ok r ∧ r.fmt = f ∧ r.comp = c ∧
      (∀ t ∈ ts, getTile r t.x t.y t.z = .ok (some t.payload)) ∧
      (∀ x y z, (∀ t ∈ ts, (t.x, t.y, t.z) ≠ (x, y, z)) → getTile r x y z = .ok none) := by
  -- sorting the files = mapping the sorted tile list
  let le : File → File → Bool := fun a b => decide (String.ofList (a.1.getD []) ≤ String.ofList (b.1.getD []))
  have hsort : sortFiles (ts.map (dirFile f c)) =
      (ts.mergeSort (fun a b => le (dirFile f c a) (dirFile f c b))).map (dirFile f c) := by
    unfold sortFiles
    exact (List.map_mergeSort (r := fun a b => le (dirFile f c a) (dirFile f c b)) (s := le) (f := dirFile f c) (l := ts)
      (fun _ _ _ _ => rfl)).symm
  generalize hts' : ts.mergeSort (fun a b => le (dirFile f c a) (dirFile f c b)) = ts' at hsort
  have hperm : ts'.Perm ts := by rw [← hts']; exact List.mergeSort_perm _ _
  have hne' : ts' ≠ [] := by
    intro e; rw [e] at hperm
    exact hne (List.Perm.eq_nil hperm.symm)
  have hok' : ∀ t ∈ ts', t.ok := fun t ht => hok t (hperm.mem_iff.1 ht)
  have hnd' : (ts'.map fun t => (t.x, t.y, t.z)).Nodup := ((hperm.map _).nodup_iff).2 hnd
  obtain ⟨s', h1, h2, h3⟩ := fold_dir_tiles K f c ts' ⟨none, none, []⟩ hok' (Or.inl rfl) (Or.inl rfl)
  obtain ⟨hf, hc⟩ := h3 hne'
  simp only [List.append_nil] at h2
  have htl : s'.tiles ≠ [] := by
    rw [h2]
    cases ts' with
    | nil => exact absurd rfl hne'
    | cons a as => simp
  have hfin : finish s' = .ok ⟨f, c, s'.tiles⟩ := by
    unfold finish
    cases hst : s'.tiles with
    | nil => exact absurd hst htl
    | cons a as => simp only [hf, hc]
  have hndl : ((ts'.map fun t => ((t.x, t.y, t.z), t.payload)).reverse.map (·.1)).Nodup := by
    rw [List.map_reverse, (List.reverse_perm _).nodup_iff, List.map_map]
    exact hnd'
  refine ⟨⟨f, c, s'.tiles⟩, by unfold openDir; rw [hsort, h1]; exact hfin, rfl, rfl, ?_, ?_⟩
  · intro t ht
    unfold getTile
    simp only [h2]
    congr 1
    have hmem : ((t.x, t.y, t.z), t.payload) ∈ (ts'.map fun t => ((t.x, t.y, t.z), t.payload)).reverse := by
      rw [List.mem_reverse, List.mem_map]; exact ⟨t, hperm.mem_iff.2 ht, rfl⟩
    exact find_unique _ hndl _ hmem
  · intro x y z hno
    unfold getTile
    simp only [h2]
    congr 1
    rw [Option.map_eq_none_iff, List.find?_eq_none]
    intro p hp
    rw [List.mem_reverse, List.mem_map] at hp
    obtain ⟨t, ht, rfl⟩ := hp
    have := hno t (hperm.mem_iff.1 ht)
    simp only [beq_iff_eq]
    exact this

/-! ### the tar / directory writers: container round trip -/

/-- a file the writers produce: the metadata file or a tile file -/
inductive Item where
  | metaFile (payload : Bytes)
  | tile (t : TileFile)

def Item.file (f : TileFormat) (c : TComp) : Item → File
  | .metaFile p => (some (metaName c), p)
  | .tile t => dirFile f c t

def Item.tile? : Item → Option TileFile
  | .tile t => some t
  | .metaFile _ => none

theorem classify_meta (c : TComp) : classifyTar (metaName c) = .metaJson c := by
  cases c <;> decide

theorem tarStep_meta (K : Inflate) (c : TComp) (p : Bytes) (s : State) (h : ∃ raw, K.run c p = .ok raw) :
    tarStep K s (some (metaName c), p) = .ok s := by
  obtain ⟨raw, hr⟩ := h
  unfold tarStep
  simp only [classify_meta, hr]

theorem dirStep_meta (K : Inflate) (c : TComp) (p : Bytes) (s : State) (h : ∃ raw, K.run c p = .ok raw) :
    dirStep K s (some (metaName c), p) = .ok s := by
  obtain ⟨raw, hr⟩ := h
  unfold dirStep
  cases c
  · have : splitSlash (metaName .none) = ["tiles.json".toList] := by decide
    simp only [this]
    have h1 : parseU8 "tiles.json".toList = none := by decide
    have h2 : metaNames.find? (fun m => m.1.toList = "tiles.json".toList) = some ("tiles.json", .none) := by decide
    simp only [h1, h2, hr]
  · have : splitSlash (metaName .gzip) = ["tiles.json.gz".toList] := by decide
    simp only [this]
    have h1 : parseU8 "tiles.json.gz".toList = none := by decide
    have h2 : metaNames.find? (fun m => m.1.toList = "tiles.json.gz".toList) = some ("tiles.json.gz", .gzip) := by decide
    simp only [h1, h2, hr]
  · have : splitSlash (metaName .brotli) = ["tiles.json.br".toList] := by decide
    simp only [this]
    have h1 : parseU8 "tiles.json.br".toList = none := by decide
    have h2 : metaNames.find? (fun m => m.1.toList = "tiles.json.br".toList) = some ("tiles.json.br", .brotli) := by decide
    simp only [h1, h2, hr]

theorem tarStep_eq_dirFile (K : Inflate) (f : TileFormat) (c : TComp) (t : TileFile) (h : t.ok) (s : State)
    (hf : s.fmt = none ∨ s.fmt = some f) (hc : s.comp = none ∨ s.comp = some c) :
    tarStep K s (dirFile f c t) = .ok ⟨some f, some c, ((t.x, t.y, t.z), t.payload) :: s.tiles⟩ := by
  unfold tarStep dirFile
  simp only [VtProofs.TarDir.classifyTar_formatName t.z t.x t.y f c h.1 h.x32 h.y32]
  exact addTile_ok s t h f c hf hc

/-- folding the reader's step over files the writers produce: metadata files leave the state
    unchanged, tile files are collected (later ones in front) -/
theorem fold_items (K : Inflate) (f : TileFormat) (c : TComp) (step : State → File → Outcome State)
    (hmeta : ∀ s p, (∃ raw, K.run c p = .ok raw) → step s (some (metaName c), p) = .ok s)
    (htile : ∀ (t : TileFile) (s : State), t.ok → (s.fmt = none ∨ s.fmt = some f) → (s.comp = none ∨ s.comp = some c) →
      step s (dirFile f c t) = .ok ⟨some f, some c, ((t.x, t.y, t.z), t.payload) :: s.tiles⟩) :
    ∀ (items : List Item) (s : State),
      (∀ t ∈ items.filterMap Item.tile?, t.ok) → (∀ p, Item.metaFile p ∈ items → ∃ raw, K.run c p = .ok raw) →
      (s.fmt = none ∨ s.fmt = some f) → (s.comp = none ∨ s.comp = some c) →
      ∃ s', foldFiles step s (items.map (Item.file f c)) = .ok s' ∧
        s'.tiles = ((items.filterMap Item.tile?).map fun t => ((t.x, t.y, t.z), t.payload)).reverse ++ s.tiles ∧
        ((s.fmt = some f ∧ s.comp = some c) → (s'.fmt = some f ∧ s'.comp = some c)) ∧
        (items.filterMap Item.tile? ≠ [] → s'.fmt = some f ∧ s'.comp = some c) := by
  intro items
  induction items with
  | nil => intro s _ _ hf hc; exact ⟨s, rfl, by simp, id, by simp⟩
  | cons it rest ih =>
    intro s hok hm hf hc
    cases it with
    | metaFile p =>
      have hstep := hmeta s p (hm p (by simp))
      obtain ⟨s', h1, h2, h3, h5⟩ := ih s (by simpa [Item.tile?] using hok) (fun q hq => hm q (by simp [hq])) hf hc
      have hfm : (Item.metaFile p :: rest).filterMap Item.tile? = rest.filterMap Item.tile? := by
        simp [List.filterMap_cons, Item.tile?]
      refine ⟨s', ?_, ?_, h3, ?_⟩
      · simp only [List.map_cons, Item.file, foldFiles, hstep]; exact h1
      · rw [hfm]; exact h2
      · rw [hfm]; exact h5
    | tile t =>
      have hto : t.ok := hok t (by simp [Item.tile?])
      have hstep := htile t s hto hf hc
      obtain ⟨s', h1, h2, h3, _⟩ := ih ⟨some f, some c, ((t.x, t.y, t.z), t.payload) :: s.tiles⟩
        (fun u hu => hok u (by simp only [List.filterMap_cons, Item.tile?]; exact List.mem_cons_of_mem _ hu))
        (fun q hq => hm q (by simp [hq])) (Or.inr rfl) (Or.inr rfl)
      refine ⟨s', ?_, ?_, fun _ => h3 ⟨rfl, rfl⟩, fun _ => h3 ⟨rfl, rfl⟩⟩
      · simp only [List.map_cons, Item.file, foldFiles, hstep]; exact h1
      · rw [h2]; simp [Item.tile?]

theorem map_eta (l : List ((Nat × Nat × Nat) × Bytes)) :
    l.map (fun t => (((t.1.1, t.1.2.1, t.1.2.2), t.2) : (Nat × Nat × Nat) × Bytes)) = l := by
  induction l with
  | nil => rfl
  | cons a l ih => obtain ⟨⟨x, y, z⟩, b⟩ := a; simp only [List.map_cons, ih]

/-- the list of files of the writers, as items -/
def itemsOf (s : WSource) : List Item :=
  .metaFile s.metaB :: (s.levels.flatMap s.stream).map fun t => .tile ⟨false, t.1.1, t.1.2.1, t.1.2.2, t.2⟩

theorem writeFiles_eq (s : WSource) : writeFiles s = (itemsOf s).map (Item.file s.fmt s.comp) := by
  unfold writeFiles itemsOf
  simp only [List.map_cons, List.map_map, Item.file]
  congr 1

theorem tiles_of_items (s : WSource) :
    (itemsOf s).filterMap Item.tile? = (s.levels.flatMap s.stream).map fun t => ⟨false, t.1.1, t.1.2.1, t.1.2.2, t.2⟩ := by
  unfold itemsOf
  simp only [List.filterMap_cons, Item.tile?, List.filterMap_map]
  induction (s.levels.flatMap s.stream) with
  | nil => rfl
  | cons a l ih => simp [Item.tile?, Function.comp] at ih ⊢; exact ih

/-- what the writers need from the source: valid coordinates, every coordinate streamed once, at
    least one tile, metadata that inflates -/
structure WOk (K : Inflate) (s : WSource) : Prop where
  valid : ∀ t ∈ s.levels.flatMap s.stream, t.1.2.2 ≤ 31 ∧ t.1.1 < 2 ^ t.1.2.2 ∧ t.1.2.1 < 2 ^ t.1.2.2
  nodup : ((s.levels.flatMap s.stream).map (·.1)).Nodup
  nonempty : s.levels.flatMap s.stream ≠ []
  metaOk : ∃ raw, K.run s.comp s.metaB = .ok raw

/-- shared end of both proofs: the reader state built from the writers' files answers like the source -/
theorem reader_of_state (s : WSource) (s' : State)
    (h2 : s'.tiles = (((itemsOf s).filterMap Item.tile?).map fun t => ((t.x, t.y, t.z), t.payload)).reverse)
    (hfc : s'.fmt = some s.fmt ∧ s'.comp = some s.comp) (K : Inflate) (ok : WOk K s) :
    ∃ r, finish s' = .ok r ∧ r.fmt = s.fmt ∧ r.comp = s.comp ∧
      (∀ t ∈ s.levels.flatMap s.stream, getTile r t.1.1 t.1.2.1 t.1.2.2 = .ok (some t.2)) ∧
      (∀ x y z, (∀ t ∈ s.levels.flatMap s.stream, t.1 ≠ (x, y, z)) → getTile r x y z = .ok none) := by
  rw [tiles_of_items, List.map_map] at h2
  have hl : s'.tiles = ((s.levels.flatMap s.stream).map fun t => ((t.1.1, t.1.2.1, t.1.2.2), t.2)).reverse := by
    rw [h2]; rfl
  rw [map_eta] at hl
  have htl : s'.tiles ≠ [] := by
    rw [hl]; intro e; exact ok.nonempty (by simpa using e)
  have hfin : finish s' = .ok ⟨s.fmt, s.comp, s'.tiles⟩ := by
    unfold finish
    cases hst : s'.tiles with
    | nil => exact absurd hst htl
    | cons a as => simp only [hfc.1, hfc.2]
  have hnd : (s'.tiles.map (·.1)).Nodup := by
    rw [hl, List.map_reverse, (List.reverse_perm _).nodup_iff]; exact ok.nodup
  refine ⟨_, hfin, rfl, rfl, ?_, ?_⟩
  · intro t ht
    unfold getTile
    congr 1
    have hmem : t ∈ s'.tiles := by rw [hl, List.mem_reverse]; exact ht
    exact find_unique _ hnd t hmem
  · intro x y z hno
    unfold getTile
    congr 1
    rw [Option.map_eq_none_iff, List.find?_eq_none]
    intro p hp
    rw [hl, List.mem_reverse] at hp
    simp only [beq_iff_eq]
    exact hno p hp

/-- **C01 (tar)**: reading the archive the tar writer produces returns the source's tiles (every payload,
    also empty ones), `None` elsewhere, and the declared format / compression -/
theorem tar_roundtrip (K : Inflate) (s : WSource) (ok : WOk K s) :
    ∃ r, openTar K (writeFiles s) = .ok r ∧ r.fmt = s.fmt ∧ r.comp = s.comp ∧
      (∀ t ∈ s.levels.flatMap s.stream, getTile r t.1.1 t.1.2.1 t.1.2.2 = .ok (some t.2)) ∧
      (∀ x y z, (∀ t ∈ s.levels.flatMap s.stream, t.1 ≠ (x, y, z)) → getTile r x y z = .ok none) := by
  have hok : ∀ t ∈ (itemsOf s).filterMap Item.tile?, t.ok := by
    rw [tiles_of_items]
    intro t ht
    rw [List.mem_map] at ht
    obtain ⟨u, hu, rfl⟩ := ht
    exact ok.valid u hu
  have hm : ∀ p, Item.metaFile p ∈ itemsOf s → ∃ raw, K.run s.comp p = .ok raw := by
    intro p hp
    unfold itemsOf at hp
    simp only [List.mem_cons, List.mem_map] at hp
    rcases hp with hp | ⟨_, _, hp⟩
    · injection hp with hp; rw [hp]; exact ok.metaOk
    · cases hp
  obtain ⟨s', h1, h2, _, h5⟩ := fold_items K s.fmt s.comp (tarStep K) (fun st p h => tarStep_meta K s.comp p st h)
    (fun t st h hf hc => tarStep_eq_dirFile K s.fmt s.comp t h st hf hc) (itemsOf s) ⟨none, none, []⟩ hok hm (Or.inl rfl) (Or.inl rfl)
  have hne : (itemsOf s).filterMap Item.tile? ≠ [] := by
    rw [tiles_of_items]; intro e; exact ok.nonempty (by simpa using e)
  obtain ⟨r, hr⟩ := reader_of_state s s' (by simpa using h2) (h5 hne) K ok
  refine ⟨r, ?_, hr.2⟩
  unfold openTar
  rw [writeFiles_eq, h1]
  exact hr.1

/-- **C01 (directory)**: the same for the directory writer and reader (the reader walks the tree in
    sorted order in the model; any order gives the same result) -/
theorem dir_roundtrip (K : Inflate) (s : WSource) (ok : WOk K s) :
    ∃ r, openDir K (writeFiles s) = .ok r ∧ r.fmt = s.fmt ∧ r.comp = s.comp ∧
      (∀ t ∈ s.levels.flatMap s.stream, getTile r t.1.1 t.1.2.1 t.1.2.2 = .ok (some t.2)) ∧
      (∀ x y z, (∀ t ∈ s.levels.flatMap s.stream, t.1 ≠ (x, y, z)) → getTile r x y z = .ok none) := by
  -- sorting the files = mapping the sorted item list
  let le : File → File → Bool := fun a b => decide (String.ofList (a.1.getD []) ≤ String.ofList (b.1.getD []))
  have hsort : sortFiles (writeFiles s) =
      ((itemsOf s).mergeSort (fun a b => le (Item.file s.fmt s.comp a) (Item.file s.fmt s.comp b))).map (Item.file s.fmt s.comp) := by
    rw [writeFiles_eq]
    unfold sortFiles
    exact (List.map_mergeSort (r := fun a b => le (Item.file s.fmt s.comp a) (Item.file s.fmt s.comp b)) (s := le)
      (f := Item.file s.fmt s.comp) (l := itemsOf s) (fun _ _ _ _ => rfl)).symm
  generalize hits : (itemsOf s).mergeSort (fun a b => le (Item.file s.fmt s.comp a) (Item.file s.fmt s.comp b)) = its at hsort
  have hperm : its.Perm (itemsOf s) := by rw [← hits]; exact List.mergeSort_perm _ _
  have hpt : (its.filterMap Item.tile?).Perm ((itemsOf s).filterMap Item.tile?) := hperm.filterMap _
  have hok : ∀ t ∈ its.filterMap Item.tile?, t.ok := by
    intro t ht
    have := hpt.mem_iff.1 ht
    rw [tiles_of_items, List.mem_map] at this
    obtain ⟨u, hu, rfl⟩ := this
    exact ok.valid u hu
  have hm : ∀ p, Item.metaFile p ∈ its → ∃ raw, K.run s.comp p = .ok raw := by
    intro p hp
    have hp' := hperm.mem_iff.1 hp
    unfold itemsOf at hp'
    simp only [List.mem_cons, List.mem_map] at hp'
    rcases hp' with hp' | ⟨_, _, hp'⟩
    · injection hp' with hp'; rw [hp']; exact ok.metaOk
    · cases hp'
  obtain ⟨s', h1, h2, _, h5⟩ := fold_items K s.fmt s.comp (dirStep K) (fun st p h => dirStep_meta K s.comp p st h)
    (fun t st h hf hc => dirStep_tile K s.fmt s.comp t h st hf hc) its ⟨none, none, []⟩ hok hm (Or.inl rfl) (Or.inl rfl)
  have hne : its.filterMap Item.tile? ≠ [] := by
    intro e
    rw [e] at hpt
    have := List.Perm.eq_nil hpt.symm
    rw [tiles_of_items] at this
    exact ok.nonempty (by simpa using this)
  obtain ⟨hf, hc⟩ := h5 hne
  simp only [List.append_nil] at h2
  -- the collected tiles are a permutation of the source's tiles
  have hpl : s'.tiles.Perm (s.levels.flatMap s.stream) := by
    rw [h2]
    refine (List.reverse_perm _).trans ?_
    have := (hpt.map fun t => (((t.x, t.y, t.z), t.payload) : (Nat × Nat × Nat) × Bytes))
    refine this.trans ?_
    rw [tiles_of_items, List.map_map]
    exact List.Perm.of_eq (map_eta _)
  have htl : s'.tiles ≠ [] := by
    intro e; rw [e] at hpl; exact ok.nonempty (List.Perm.eq_nil hpl.symm)
  have hfin : finish s' = .ok ⟨s.fmt, s.comp, s'.tiles⟩ := by
    unfold finish
    cases hst : s'.tiles with
    | nil => exact absurd hst htl
    | cons a as => simp only [hf, hc]
  have hnd : (s'.tiles.map (·.1)).Nodup := ((hpl.map _).nodup_iff).2 ok.nodup
  refine ⟨⟨s.fmt, s.comp, s'.tiles⟩, by unfold openDir; rw [hsort, h1]; exact hfin, rfl, rfl, ?_, ?_⟩
  · intro t ht
    unfold getTile
    congr 1
    exact find_unique _ hnd t (hpl.mem_iff.2 ht)
  · intro x y z hno
    unfold getTile
    congr 1
    rw [Option.map_eq_none_iff, List.find?_eq_none]
    intro p hp
    simp only [beq_iff_eq]
    exact hno p (hpl.mem_iff.1 hp)

/-! ### coverage ⊇ tiles (tar and directory readers share `cover`) -/

theorem fold_cover_tiles (z : Nat) : ∀ (fl : List ((Nat × Nat × Nat) × Bytes)) (acc : Option BBox),
    (∀ a, acc = some a → ∃ box, fl.foldl (fun acc t => match acc with
        | none => some ⟨z, t.1.1, t.1.2.1, t.1.1, t.1.2.1⟩
        | some (b : BBox) => some ⟨z, min b.xmin t.1.1, min b.ymin t.1.2.1, max b.xmax t.1.1, max b.ymax t.1.2.1⟩) acc = some box ∧
        box.xmin ≤ a.xmin ∧ a.xmax ≤ box.xmax ∧ box.ymin ≤ a.ymin ∧ a.ymax ≤ box.ymax ∧ (a.level = z → box.level = z)) ∧
    (∀ t ∈ fl, ∃ box, fl.foldl (fun acc t => match acc with
        | none => some ⟨z, t.1.1, t.1.2.1, t.1.1, t.1.2.1⟩
        | some (b : BBox) => some ⟨z, min b.xmin t.1.1, min b.ymin t.1.2.1, max b.xmax t.1.1, max b.ymax t.1.2.1⟩) acc = some box ∧
        box.level = z ∧ box.xmin ≤ t.1.1 ∧ t.1.1 ≤ box.xmax ∧ box.ymin ≤ t.1.2.1 ∧ t.1.2.1 ≤ box.ymax) := by
  intro fl
  induction fl with
  | nil =>
    intro acc
    exact ⟨fun a ha => ⟨a, by simpa using ha, Nat.le_refl _, Nat.le_refl _, Nat.le_refl _, Nat.le_refl _, id⟩,
      fun t ht => (by cases ht)⟩
  | cons c rest ih =>
    intro acc
    simp only [List.foldl_cons]
    cases acc with
    | none =>
      have ⟨i1, i2⟩ := ih (some ⟨z, c.1.1, c.1.2.1, c.1.1, c.1.2.1⟩)
      refine ⟨fun a ha => (by cases ha), ?_⟩
      intro t ht
      cases ht with
      | head =>
        obtain ⟨box, h1, h2, h3, h4, h5, h6⟩ := i1 _ rfl
        exact ⟨box, h1, h6 rfl, by simpa using h2, by simpa using h3, by simpa using h4, by simpa using h5⟩
      | tail _ ht => exact i2 t ht
    | some a0 =>
      have ⟨i1, i2⟩ := ih (some ⟨z, min a0.xmin c.1.1, min a0.ymin c.1.2.1, max a0.xmax c.1.1, max a0.ymax c.1.2.1⟩)
      obtain ⟨box, h1, h2, h3, h4, h5, h6⟩ := i1 _ rfl
      simp only at h2 h3 h4 h5 h6
      constructor
      · intro a ha
        injection ha with ha; subst ha
        exact ⟨box, h1, by omega, by omega, by omega, by omega, fun _ => h6 trivial⟩
      · intro t ht
        cases ht with
        | head => exact ⟨box, h1, h6 trivial, by omega, by omega, by omega, by omega⟩
        | tail _ ht => exact i2 t ht

/-- every tile the tar / directory reader holds lies inside the advertised box of its level -/
theorem cover_contains (r : Reader) (t : (Nat × Nat × Nat) × Bytes) (ht : t ∈ r.tiles) (hz : t.1.2.2 ≤ 31) :
    ∃ box ∈ cover r, box.level = t.1.2.2 ∧ box.contains2 t.1.1 t.1.2.1 = true := by
  have hmem : t ∈ r.tiles.filter (fun u => u.1.2.2 == t.1.2.2) := by simp [ht]
  obtain ⟨box, h1, h2, h3, h4, h5, h6⟩ := (fold_cover_tiles t.1.2.2 _ none).2 t hmem
  refine ⟨box, ?_, h2, ?_⟩
  · unfold cover
    rw [List.mem_filterMap]
    exact ⟨t.1.2.2, by rw [List.mem_range]; omega, h1⟩
  · simp only [BBox.contains2, Bool.and_eq_true, decide_eq_true_eq]
    omega

/-! ### MBTiles: zoom gaps -/

theorem filter_all {α} (l : List α) : l.filter (fun _ => true) = l := by
  induction l with
  | nil => rfl
  | cons a l ih => simp [List.filter, ih]

open VtModel.MBTiles in
theorem coverLevels_ok (db : DB) : ∀ (zs : List Nat), (∀ z ∈ zs, z ≤ 31) → ∃ l, coverLevels db true zs = .ok l := by
  intro zs
  induction zs with
  | nil => intro _; exact ⟨[], rfl⟩
  | cons z zs ih =>
    intro h
    obtain ⟨l, hl⟩ := ih (fun w hw => h w (by simp [hw]))
    unfold coverLevels
    cases hr : levelRange db z with
    | none => simp only [if_true]; exact ⟨l, hl⟩
    | some rg =>
      have : ¬ (z > 31) := by have := h z (by simp); omega
      simp only [this, if_false, hl]
      exact ⟨_, rfl⟩

open VtModel.MBTiles in
/-- **C16 (mbtiles)**: a table with zoom gaps (levels between the minimum and maximum zoom without rows)
    is opened (after the repair of F10) -/
theorem mbtiles_opens_with_gaps (db : DB) (hne : db ≠ []) (hz : ∀ r ∈ db, r.z ≤ 31)
    (f : String) (hf : f = "jpg" ∨ f = "pbf" ∨ f = "png" ∨ f = "webp") :
    ∃ r, openReader (some f) db = .ok r ∧ r.db = db := by
  unfold openReader openWith
  have hmin : ∃ z0, qmin db (fun _ => true) (·.z) = some z0 ∧ z0 ≤ 31 := by
    unfold qmin
    rw [filter_all]
    cases db with
    | nil => exact absurd rfl hne
    | cons a as =>
      simp only [List.foldl_cons]
      have : ∀ (l : List Row) (acc : Nat), acc ≤ 31 →
          ∃ v, l.foldl (fun acc r => match acc with | none => some r.z | some a => some (min a r.z)) (some acc) = some v ∧ v ≤ 31 := by
        intro l
        induction l with
        | nil => intro acc h; exact ⟨acc, rfl, h⟩
        | cons b bs ih => intro acc h; simp only [List.foldl_cons]; exact ih (min acc b.z) (by omega)
      exact this as a.z (hz a (by simp))
  have hmax : ∃ z1, qmax db (fun _ => true) (·.z) = some z1 ∧ z1 ≤ 31 := by
    unfold qmax
    rw [filter_all]
    cases db with
    | nil => exact absurd rfl hne
    | cons a as =>
      simp only [List.foldl_cons]
      have : ∀ (l : List Row) (acc : Nat), acc ≤ 31 → (∀ r ∈ l, r.z ≤ 31) →
          ∃ v, l.foldl (fun acc r => match acc with | none => some r.z | some a => some (max a r.z)) (some acc) = some v ∧ v ≤ 31 := by
        intro l
        induction l with
        | nil => intro acc h _; exact ⟨acc, rfl, h⟩
        | cons b bs ih =>
          intro acc h hl
          simp only [List.foldl_cons]
          have := hl b (by simp)
          exact ih (max acc b.z) (by omega) (fun r hr => hl r (by simp [hr]))
      exact this as a.z (hz a (by simp)) (fun r hr => hz r (by simp [hr]))
  obtain ⟨z0, h0, hz0⟩ := hmin
  obtain ⟨z1, h1, hz1⟩ := hmax
  simp only [h0, h1]
  obtain ⟨l, hl⟩ := coverLevels_ok db (List.range' z0 (z1 + 1 - z0)) (by
    intro z hzm
    rw [List.mem_range'_1] at hzm
    omega)
  simp only [hl]
  rcases hf with h | h | h | h <;> subst h <;> exact ⟨_, rfl, rfl⟩

open VtModel.MBTiles in
/-- before the repair the same table failed to open (kept for the record; F10) -/
example : (match openReaderF10 (some "png") [⟨0, 0, 0, [1]⟩, ⟨2, 1, 1, [2]⟩] with
    | .err => true
    | _ => false) = true := by decide

open VtModel.MBTiles in
example : (match openReader (some "png") [⟨0, 0, 0, [1]⟩, ⟨2, 1, 1, [2]⟩] with
    | .ok r => r.cover.map (·.level)
    | _ => []) = [0, 2] := by decide

end VtProofs.TarRead
