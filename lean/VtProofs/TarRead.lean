import VtModel.TarDir
import VtProofs.TarDir
import VtModel.MBTiles
/-!
Tar reader: an archive whose regular members are named `[./]z/x/y.<fmt>[.<comp>]` (one format, one
compression, pairwise different coordinates) is opened and every lookup returns the member's payload.
MBTiles reader: zoom gaps do not fail the open.
-/
namespace VtProofs.TarRead
open VtModel VtModel.Fmt VtModel.TarDir

/-- a tile member as an independent encoder may write it: with or without the `./` prefix -/
structure TileFile where
  dot : Bool
  x : Nat
  y : Nat
  z : Nat
  payload : Bytes

def TileFile.name (f : TileFormat) (c : TComp) (t : TileFile) : List Char :=
  if t.dot then '.' :: '/' :: formatName t.z t.x t.y f c else formatName t.z t.x t.y f c

def TileFile.file (f : TileFormat) (c : TComp) (t : TileFile) : File := (some (t.name f c), t.payload)

def TileFile.ok (t : TileFile) : Prop := t.z ≤ 31 ∧ t.x < 4294967296 ∧ t.y < 4294967296

theorem classify_tileFile (f : TileFormat) (c : TComp) (t : TileFile) (h : t.ok) :
    classifyTar (t.name f c) = .tile t.z t.x t.y f c := by
  unfold TileFile.name
  cases t.dot
  · simp only [Bool.false_eq_true, if_false]
    exact VtProofs.TarDir.classifyTar_formatName t.z t.x t.y f c h.1 h.2.1 h.2.2
  · simp only [if_true]
    exact VtProofs.TarDir.classifyTar_dot_formatName t.z t.x t.y f c h.1 h.2.1 h.2.2

/-- the fold over tile members: all are accepted, later members are in front -/
theorem fold_tiles (K : Inflate) (f : TileFormat) (c : TComp) : ∀ (ts : List TileFile) (s : State),
    (∀ t ∈ ts, t.ok) → (s.fmt = none ∨ s.fmt = some f) → (s.comp = none ∨ s.comp = some c) →
    ∃ s', foldFiles (tarStep K) s (ts.map (TileFile.file f c)) = .ok s' ∧
      s'.tiles = (ts.map fun t => ((t.x, t.y, t.z), t.payload)).reverse ++ s.tiles ∧
      (ts ≠ [] → s'.fmt = some f ∧ s'.comp = some c) ∧ (ts = [] → s' = s) := by
  intro ts
  induction ts with
  | nil => intro s _ _ _; exact ⟨s, rfl, by simp, by simp, fun _ => rfl⟩
  | cons t ts ih =>
    intro s hok hf hc
    have ht := hok t (by simp)
    have hstep : tarStep K s (t.file f c) = .ok ⟨some f, some c, ((t.x, t.y, t.z), t.payload) :: s.tiles⟩ := by
      unfold tarStep TileFile.file
      simp only [classify_tileFile f c t ht]
      unfold addTile
      have g1 : (s.fmt.isSome && decide (s.fmt ≠ some f)) = false := by
        rcases hf with h | h <;> simp [h]
      have g2 : (s.comp.isSome && decide (s.comp ≠ some c)) = false := by
        rcases hc with h | h <;> simp [h]
      rw [g1, g2]
      simp
    obtain ⟨s', h1, h2, h3, _⟩ := ih ⟨some f, some c, ((t.x, t.y, t.z), t.payload) :: s.tiles⟩
      (fun u hu => hok u (by simp [hu])) (Or.inr rfl) (Or.inr rfl)
    refine ⟨s', ?_, ?_, ?_, by simp⟩
    · simp only [List.map_cons, foldFiles, hstep]
      exact h1
    · rw [h2]; simp
    · intro _
      by_cases hts : ts = []
      · subst hts
        simp [foldFiles] at h1
        subst h1
        exact ⟨rfl, rfl⟩
      · exact h3 hts

/-- **C16 (tar)**: archives with `./`-prefixed and plain tile members -/
theorem tar_complete (K : Inflate) (f : TileFormat) (c : TComp) (ts : List TileFile) (hne : ts ≠ [])
    (hok : ∀ t ∈ ts, t.ok)
    (hnd : (ts.map fun t => (t.x, t.y, t.z)).Nodup) :
    ∃ r, openTar K (ts.map (TileFile.file f c)) = .ok r ∧ r.fmt = f ∧ r.comp = c ∧
      (∀ t ∈ ts, getTile r t.x t.y t.z = .ok (some t.payload)) ∧
      (∀ x y z, (∀ t ∈ ts, (t.x, t.y, t.z) ≠ (x, y, z)) → getTile r x y z = .ok none) := by
  obtain ⟨s', h1, h2, h3, _⟩ := fold_tiles K f c ts ⟨none, none, []⟩ hok (Or.inl rfl) (Or.inl rfl)
  obtain ⟨hf, hc⟩ := h3 hne
  simp only [List.append_nil] at h2
  have htl : s'.tiles ≠ [] := by
    rw [h2]
    cases ts with
    | nil => exact absurd rfl hne
    | cons a as => simp
  have hfin : finish s' = .ok ⟨f, c, s'.tiles⟩ := by
    unfold finish
    cases hst : s'.tiles with
    | nil => exact absurd hst htl
    | cons a as => simp only [hf, hc]
  refine ⟨⟨f, c, s'.tiles⟩, by unfold openTar; rw [h1]; exact hfin, rfl, rfl, ?_, ?_⟩
  · intro t ht
    unfold getTile
    simp only [h2]
    congr 1
    -- the reversed list has pairwise different keys: the first match is `t`
    have hmem : ((t.x, t.y, t.z), t.payload) ∈ (ts.map fun t => ((t.x, t.y, t.z), t.payload)).reverse := by
      rw [List.mem_reverse, List.mem_map]; exact ⟨t, ht, rfl⟩
    have hnd' : ((ts.map fun t => ((t.x, t.y, t.z), t.payload)).reverse.map (·.1)).Nodup := by
      rw [List.map_reverse, (List.reverse_perm _).nodup_iff, List.map_map]
      exact hnd
    generalize (ts.map fun t => ((t.x, t.y, t.z), t.payload)).reverse = l at hmem hnd'
    induction l with
    | nil => cases hmem
    | cons a l ih =>
      simp only [List.map_cons, List.nodup_cons] at hnd'
      simp only [List.find?_cons]
      cases hmem with
      | head => simp
      | tail _ hm =>
        have hne' : a.1 ≠ (t.x, t.y, t.z) := by
          intro e
          apply hnd'.1
          rw [List.mem_map]
          exact ⟨_, hm, e.symm⟩
        have : (a.1 == (t.x, t.y, t.z)) = false := by
          rw [Bool.eq_false_iff]; intro h; exact hne' (by simpa using h)
        simp only [this]
        exact ih hm hnd'.2
  · intro x y z hno
    unfold getTile
    simp only [h2]
    congr 1
    rw [Option.map_eq_none_iff, List.find?_eq_none]
    intro p hp
    rw [List.mem_reverse, List.mem_map] at hp
    obtain ⟨t, ht, rfl⟩ := hp
    have := hno t ht
    simp only [beq_iff_eq]
    exact this

/-! ### MBTiles: zoom gaps -/

theorem filter_all {α} (l : List α) : l.filter (fun _ => true) = l := by
  induction l with
  | nil => rfl
  | cons a l ih => simp [List.filter, ih]

open VtModel.MBTiles in
theorem coverLevels_ok (db : DB) : ∀ (zs : List Nat), (∀ z ∈ zs, z ≤ 31) → ∃ l, coverLevels db true zs = .ok l := by
  intro zs
  induction zs with
  | nil => intro _; exact ⟨[], rfl⟩
  | cons z zs ih =>
    intro h
    obtain ⟨l, hl⟩ := ih (fun w hw => h w (by simp [hw]))
    unfold coverLevels
    cases hr : levelRange db z with
    | none => simp only [if_true]; exact ⟨l, hl⟩
    | some rg =>
      have : ¬ (z > 31) := by have := h z (by simp); omega
      simp only [this, if_false, hl]
      exact ⟨_, rfl⟩

open VtModel.MBTiles in
/-- **C16 (mbtiles)**: a table with zoom gaps (levels between the minimum and maximum zoom without rows)
    is opened (after the repair of F10) -/
theorem mbtiles_opens_with_gaps (db : DB) (hne : db ≠ []) (hz : ∀ r ∈ db, r.z ≤ 31)
    (f : String) (hf : f = "jpg" ∨ f = "pbf" ∨ f = "png" ∨ f = "webp") :
    ∃ r, openReader (some f) db = .ok r ∧ r.db = db := by
  unfold openReader openWith
  have hmin : ∃ z0, qmin db (fun _ => true) (·.z) = some z0 ∧ z0 ≤ 31 := by
    unfold qmin
    rw [filter_all]
    cases db with
    | nil => exact absurd rfl hne
    | cons a as =>
      simp only [List.foldl_cons]
      have : ∀ (l : List Row) (acc : Nat), acc ≤ 31 →
          ∃ v, l.foldl (fun acc r => match acc with | none => some r.z | some a => some (min a r.z)) (some acc) = some v ∧ v ≤ 31 := by
        intro l
        induction l with
        | nil => intro acc h; exact ⟨acc, rfl, h⟩
        | cons b bs ih => intro acc h; simp only [List.foldl_cons]; exact ih (min acc b.z) (by omega)
      exact this as a.z (hz a (by simp))
  have hmax : ∃ z1, qmax db (fun _ => true) (·.z) = some z1 ∧ z1 ≤ 31 := by
    unfold qmax
    rw [filter_all]
    cases db with
    | nil => exact absurd rfl hne
    | cons a as =>
      simp only [List.foldl_cons]
      have : ∀ (l : List Row) (acc : Nat), acc ≤ 31 → (∀ r ∈ l, r.z ≤ 31) →
          ∃ v, l.foldl (fun acc r => match acc with | none => some r.z | some a => some (max a r.z)) (some acc) = some v ∧ v ≤ 31 := by
        intro l
        induction l with
        | nil => intro acc h _; exact ⟨acc, rfl, h⟩
        | cons b bs ih =>
          intro acc h hl
          simp only [List.foldl_cons]
          have := hl b (by simp)
          exact ih (max acc b.z) (by omega) (fun r hr => hl r (by simp [hr]))
      exact this as a.z (hz a (by simp)) (fun r hr => hz r (by simp [hr]))
  obtain ⟨z0, h0, hz0⟩ := hmin
  obtain ⟨z1, h1, hz1⟩ := hmax
  simp only [h0, h1]
  obtain ⟨l, hl⟩ := coverLevels_ok db (List.range' z0 (z1 + 1 - z0)) (by
    intro z hzm
    rw [List.mem_range'_1] at hzm
    omega)
  simp only [hl]
  rcases hf with h | h | h | h <;> subst h <;> exact ⟨_, rfl, rfl⟩

open VtModel.MBTiles in
/-- before the repair the same table failed to open (kept for the record; F10) -/
example : (match openReaderF10 (some "png") [⟨0, 0, 0, [1]⟩, ⟨2, 1, 1, [2]⟩] with
    | .err => true
    | _ => false) = true := by decide

open VtModel.MBTiles in
example : (match openReader (some "png") [⟨0, 0, 0, [1]⟩, ⟨2, 1, 1, [2]⟩] with
    | .ok r => r.cover.map (·.level)
    | _ => []) = [0, 2] := by decide

end VtProofs.TarRead
