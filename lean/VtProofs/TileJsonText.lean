import VtProofs.TileJsonMerge
/-!
C17: the text level — `TileJSON::try_from(t.as_string()) = t`, and what the four readers hand out for
the text the writers store.
-/
namespace VtProofs.TileJson
open VtModel.Json VtModel.TileJson VtProofs.Json

variable {M : Type}

theorem wfm_iff (L : List (Key × JsonValue M)) : WFM L ↔ ∀ p ∈ L, WF p.2 := by
  induction L with
  | nil => simp [WFM]
  | cons p L ih => obtain ⟨k, v⟩ := p; simp [WFM, ih]

theorem wfl_iff (xs : List (JsonValue M)) : WFL xs ↔ ∀ x ∈ xs, WF x := by
  induction xs with
  | nil => simp [WFL]
  | cons x xs ih => simp [WFL, ih]

theorem depthM_le (L : List (Key × JsonValue M)) (n : Nat) : depthM L ≤ n ↔ ∀ p ∈ L, depth p.2 ≤ n := by
  induction L with
  | nil => simp [depthM]
  | cons p L ih => obtain ⟨k, v⟩ := p; simp [depthM, Nat.max_le, ih]

theorem depthL_le (xs : List (JsonValue M)) (n : Nat) : depthL xs ≤ n ↔ ∀ x ∈ xs, depth x ≤ n := by
  induction xs with
  | nil => simp [depthL]
  | cons x xs ih => simp [depthL, Nat.max_le, ih]

/-- a predicate on values that holds for the inserted value and for every value already in the map
    holds for every value of the map after `insert` -/
theorem all_insertKV {V : Type} (P : V → Prop) (k : Key) (v : V) (L : List (Key × V)) (hv : P v)
    (hL : ∀ p ∈ L, P p.2) : ∀ p ∈ insertKV k v L, P p.2 := by
  intro p hp
  rcases mem_insertKV k v L p hp with rfl | h
  · exact hv
  · exact hL p h

theorem all_foldl_insert {V W : Type} (P : W → Prop) (g : V → W) (L : List (Key × V)) (m : List (Key × W))
    (hg : ∀ p ∈ L, P (g p.2)) (hm : ∀ p ∈ m, P p.2) :
    ∀ p ∈ L.foldl (fun o kv => insertKV kv.1 (g kv.2) o) m, P p.2 := by
  induction L generalizing m with
  | nil => exact hm
  | cons q L ih =>
    simp only [List.foldl_cons]
    exact ih _ (fun p hp => hg p (by simp [hp])) (all_insertKV P _ _ _ (hg q (by simp)) hm)

theorem sorted_foldl_insert {V W : Type} (g : V → W) (L : List (Key × V)) (m : List (Key × W)) (hm : SortedKeys m) :
    SortedKeys (L.foldl (fun o kv => insertKV kv.1 (g kv.2) o) m) := by
  induction L generalizing m with
  | nil => exact hm
  | cons q L ih => simp only [List.foldl_cons]; exact ih _ (insertKV_sorted _ _ _ hm)

theorem mkObj_sorted' {V : Type} (L : List (Key × V)) : SortedKeys (mkObj L) := by
  unfold mkObj
  have := sorted_foldl_insert (fun (v : V) => v) L [] (by simp [SortedKeys])
  simpa using this

theorem sorted_nil {V : Type} : SortedKeys ([] : List (Key × V)) := by simp [SortedKeys]

theorem sorted_setOptional {V : Type} (k : Key) (x : Option V) (L : List (Key × V)) (h : SortedKeys L) :
    SortedKeys (setOptional k x L) := by
  cases x with
  | none => exact h
  | some v => exact insertKV_sorted _ _ _ h

theorem all_setOptional {V : Type} (P : V → Prop) (k : Key) (x : Option V) (L : List (Key × V))
    (hx : ∀ v, x = some v → P v) (hL : ∀ p ∈ L, P p.2) : ∀ p ∈ setOptional k x L, P p.2 := by
  cases x with
  | none => exact hL
  | some v => exact all_insertKV P k v L (hx v rfl) hL

/-- "well-formed and at most `n` levels deep" -/
def Ok (n : Nat) (v : JsonValue M) : Prop := WF v ∧ depth v ≤ n

variable (nu : TjNum M)

theorem ok_value (x : TJValue) : Ok 1 (TJValue.toJson nu x) := by
  cases x with
  | byte b => simp [Ok, TJValue.toJson, WF, depth]
  | str s => simp [Ok, TJValue.toJson, WF, depth]
  | list l =>
    refine ⟨?_, ?_⟩
    · simp only [TJValue.toJson, WF]; rw [wfl_iff]; intro x hx; simp at hx; obtain ⟨a, _, rfl⟩ := hx; simp [WF]
    · simp only [TJValue.toJson, depth]
      have : depthL (l.map (JsonValue.str (N := M))) ≤ 0 := by
        rw [depthL_le]; intro x hx; simp at hx; obtain ⟨a, _, rfl⟩ := hx; simp [depth]
      omega

theorem ok_mono {n m : Nat} {v : JsonValue M} (h : Ok n v) (hnm : n ≤ m) : Ok m v := ⟨h.1, by have := h.2; omega⟩

theorem ok_obj (n : Nat) (L : List (Key × JsonValue M)) (hs : SortedKeys L) (h : ∀ p ∈ L, Ok n p.2) : Ok (n + 1) (.obj L) := by
  refine ⟨⟨hs, (wfm_iff L).2 (fun p hp => (h p hp).1)⟩, ?_⟩
  simp only [depth]
  have : depthM L ≤ n := (depthM_le L n).2 (fun p hp => (h p hp).2)
  omega

theorem ok_arr (n : Nat) (xs : List (JsonValue M)) (h : ∀ x ∈ xs, Ok n x) : Ok (n + 1) (.arr xs) := by
  refine ⟨(wfl_iff xs).2 (fun x hx => (h x hx).1), ?_⟩
  simp only [depth]
  have : depthL xs ≤ n := (depthL_le xs n).2 (fun x hx => (h x hx).2)
  omega

theorem ok_num (n : M) (k : Nat) : Ok k (.num n) := by simp [Ok, WF, depth]
theorem ok_str (s : List Char) (k : Nat) : Ok k (JsonValue.str (N := M) s) := by simp [Ok, WF, depth]

theorem ok_layer (id : Key) (l : VectorLayer) : Ok 2 (layerToJson nu id l) := by
  have hfields : Ok 1 (JsonValue.obj (N := M) (mkObj (l.fields.map fun (kv : Key × List Char) => (kv.1, JsonValue.str kv.2)))) := by
    apply ok_obj 0 _ (mkObj_sorted' _)
    unfold mkObj
    apply all_foldl_insert (fun v => Ok 0 v) (fun (v : JsonValue M) => v)
    · intro p hp; simp at hp; obtain ⟨a, b, _, rfl⟩ := hp; exact ok_str _ _
    · intro p hp; simp at hp
  unfold layerToJson
  apply ok_obj 1
  · apply insertKV_sorted
    cases l.maxzoom <;> cases l.minzoom <;> cases l.description <;> simp only [] <;>
      repeat (first | exact sorted_nil | apply insertKV_sorted)
  · apply all_insertKV (fun v => Ok 1 v) _ _ _ (ok_str _ _)
    cases l.maxzoom <;> cases l.minzoom <;> cases l.description <;> simp only [] <;>
      repeat (first
        | (intro p hp; simp at hp; done)
        | exact all_insertKV (fun v => Ok 1 v) _ _ _ hfields (by intro p hp; simp at hp)
        | apply all_insertKV (fun v => Ok 1 v) _ _ _ (ok_num _ _)
        | apply all_insertKV (fun v => Ok 1 v) _ _ _ (ok_str _ _))

/-- the object `as_object` builds is a well-formed JSON value at most 4 levels deep — for ANY document -/
theorem ok_asObject (t : TileJSON M) : Ok 4 (.obj (asObject nu t)) := by
  apply ok_obj 3
  · unfold asObject
    apply sorted_setOptional; apply sorted_setOptional; apply sorted_setOptional
    exact sorted_foldl_insert _ _ _ sorted_nil
  · unfold asObject
    apply all_setOptional (fun v => Ok 3 v)
    · intro v hv
      unfold layersToJson? at hv
      split at hv
      · cases hv
      · cases hv
        apply ok_arr 2
        intro x hx; simp at hx; obtain ⟨a, b, _, rfl⟩ := hx; exact ok_layer nu a b
    apply all_setOptional (fun v => Ok 3 v)
    · intro v hv
      cases hc : t.center with
      | none => simp [hc] at hv
      | some c =>
        simp [hc] at hv; subst hv
        exact ok_mono (ok_arr 0 _ (by intro x hx; simp at hx; rcases hx with rfl | rfl | rfl <;> exact ok_num _ _)) (by omega)
    apply all_setOptional (fun v => Ok 3 v)
    · intro v hv
      cases hb : t.bounds with
      | none => simp [hb] at hv
      | some b =>
        simp [hb] at hv; subst hv
        exact ok_mono (ok_arr 0 _ (by intro x hx; simp at hx; rcases hx with rfl | rfl | rfl | rfl <;> exact ok_num _ _)) (by omega)
    · apply all_foldl_insert (fun v => Ok 3 v)
      · intro p _; exact ok_mono (ok_value nu p.2) (by omega)
      · intro p hp; simp at hp

variable (ops : NumOps M)

/-- `TileJSON::try_from(t.as_string()) = Ok(t)` for every well-formed document -/
theorem ofText_toText_full (nlaws : NumLaws ops) (tlaws : TjLaws nu) (t : TileJSON M) (h : DocWF t) :
    ofText nu ops (toText nu ops t) = .ok t := by
  have hok := ok_asObject nu t
  have hp := parse_stringify_aux ops nlaws (.obj (asObject nu t)) hok.1 (by have := hok.2; simp only [maxNesting]; omega)
  unfold ofText toText
  rw [hp]
  simp only [fromObject_asObject_full nu tlaws t h]

end VtProofs.TileJson

namespace VtProofs.TileJson
open VtModel.Json VtModel.TileJson VtProofs.Json

/-- `VectorLayers::merge` through lookups: a layer only in `other` is taken over, a layer in both is
    `VectorLayer::merge`d, a layer only in `self` stays -/
theorem lookup_mergeLayers (a b : List (Key × VectorLayer)) (hb : SortedKeys b) (k : Key) :
    lookupKV k (mergeLayers a b) =
      match lookupKV k b, lookupKV k a with
      | some lb, some la => some (mergeLayer la lb)
      | some lb, none => some lb
      | none, x => x := by
  induction b generalizing a with
  | nil => simp only [mergeLayers, List.foldl_nil, lookupKV]
  | cons p b ih =>
    obtain ⟨id, l⟩ := p
    have hp := List.pairwise_cons.1 hb
    have hstep : mergeLayers a ((id, l) :: b) =
        mergeLayers (match lookupKV id a with | some ex => insertKV id (mergeLayer ex l) a | none => insertKV id l a) b := by
      simp only [mergeLayers, List.foldl_cons]
      rfl
    rw [hstep, ih _ hp.2]
    by_cases e : k = id
    · subst e
      rw [lookup_none_of_lt k b hp.1]
      simp only [lookupKV, cmpKey_refl, beq_self_eq_true, if_true]
      cases lookupKV k a <;> simp [lookup_insert_same]
    · have hne : (cmpKey k id == .eq) = false := by
        cases hc : cmpKey k id <;> simp
        exact e (cmpKey_eq hc)
      have hm : lookupKV k (match lookupKV id a with | some ex => insertKV id (mergeLayer ex l) a | none => insertKV id l a) = lookupKV k a := by
        cases lookupKV id a <;> simp [lookup_insert_other _ _ e]
      simp only [lookupKV, hne, Bool.false_eq_true, if_false, hm]

end VtProofs.TileJson
