import VtModel.Sched
/-!
Helper lemmas for C14: the multiset carried by a scheduler state is invariant.
-/
namespace VtModel.Sched

theorem getElem_cons_eraseIdx_perm {α : Type} : ∀ (l : List α) (i : Nat) (h : i < l.length),
    (l[i] :: l.eraseIdx i).Perm l := by
  intro l
  induction l with
  | nil => intro i h; simp at h
  | cons x xs ih =>
    intro i h
    cases i with
    | zero => simp
    | succ j =>
      have hj : j < xs.length := by simpa using h
      simp only [List.getElem_cons_succ, List.eraseIdx_cons_succ]
      exact (List.Perm.swap x xs[j] _).trans ((ih j hj).cons x)

/-- everything the state still owes downstream plus what it already delivered, in "input order" -/
def content (f : Nat → Option Nat) (s : St) : List (Nat × Nat) :=
  s.out ++ (s.inflight.flatMap emit ++ s.pending.filterMap (expect1 f))

theorem emit_eq_expect (f : Nat → Option Nat) (c a : Nat) :
    emit (c, f a) = (expect1 f (c, a)).toList := by
  unfold expect1 emit
  cases f a <;> rfl

theorem filterMap_cons_toList {α β : Type} (g : α → Option β) (x : α) (xs : List α) :
    (x :: xs).filterMap g = (g x).toList ++ xs.filterMap g := by
  simp only [List.filterMap_cons]
  cases g x <;> rfl

/-- `start` does not even change the order of `content` -/
theorem content_start (f : Nat → Option Nat) (c a : Nat) (rest : List Item) (infl : List Task)
    (out : List (Nat × Nat)) :
    content f ⟨rest, infl ++ [(c, f a)], out⟩ = content f ⟨(c, a) :: rest, infl, out⟩ := by
  simp only [content, List.flatMap_append, List.flatMap_cons, List.flatMap_nil, List.append_nil,
    filterMap_cons_toList, emit_eq_expect, List.append_assoc]

theorem content_finish (f : Nat → Option Nat) (pend : List Item) (infl : List Task)
    (out : List (Nat × Nat)) (i : Nat) (h : i < infl.length) :
    (content f ⟨pend, infl.eraseIdx i, out ++ emit infl[i]⟩).Perm (content f ⟨pend, infl, out⟩) := by
  simp only [content, List.append_assoc]
  apply List.Perm.append_left
  rw [← List.append_assoc]
  apply List.Perm.append_right
  have := (getElem_cons_eraseIdx_perm infl i h).flatMap_right emit
  simpa [List.flatMap_cons] using this

theorem step_content {f : Nat → Option Nat} {n : Nat} {s t : St} (h : Step f n s t) :
    (content f t).Perm (content f s) := by
  cases h with
  | start c a rest infl out _ => rw [content_start]
  | finish pend infl out i hi => exact content_finish f pend infl out i hi

theorem reach_content {f : Nat → Option Nat} {n : Nat} {s t : St} (h : Reach f n s t) :
    (content f t).Perm (content f s) := by
  induction h with
  | refl => exact List.Perm.refl _
  | step _ hs ih => exact (step_content hs).trans ih

theorem reach_trans {f : Nat → Option Nat} {n : Nat} {s t u : St}
    (h1 : Reach f n s t) (h2 : Reach f n t u) : Reach f n s u := by
  induction h2 with
  | refl => exact h1
  | step _ hs ih => exact Reach.step ih hs

/-! ### panicking callbacks -/

/-- number of panicking tasks still owed (pending or in flight) -/
def owedPanics (f : Nat → Option (Option Nat)) (s : PSt) : Nat :=
  (s.pending.filter (fun x => (f x.2).isNone)).length + (s.inflight.filter isPanic).length

def pcontent (f : Nat → Option (Option Nat)) (s : PSt) : List (Nat × Nat) :=
  s.out ++ (s.inflight.flatMap pemit ++ s.pending.filterMap (pexpect1 f))

theorem pemit_eq_expect (f : Nat → Option (Option Nat)) (c a : Nat) :
    pemit (c, f a) = (pexpect1 f (c, a)).toList := by
  unfold pexpect1 pemit
  cases h : f a with
  | none => simp
  | some r => cases r <;> simp

theorem pstep_content {f : Nat → Option (Option Nat)} {n : Nat} {s t : PSt} (h : PStep f n s t) :
    (pcontent f t).Perm (pcontent f s) := by
  cases h with
  | start c a rest infl out _ =>
    simp only [pcontent, List.flatMap_append, List.flatMap_cons, List.flatMap_nil, List.append_nil,
      filterMap_cons_toList, pemit_eq_expect, List.append_assoc]
    exact List.Perm.refl _
  | finish pend infl out i hi =>
    simp only [pcontent, List.append_assoc]
    apply List.Perm.append_left
    rw [← List.append_assoc]
    apply List.Perm.append_right
    have := (getElem_cons_eraseIdx_perm infl i hi).flatMap_right pemit
    simpa [List.flatMap_cons] using this

theorem preach_content {f : Nat → Option (Option Nat)} {n : Nat} {s t : PSt} (h : PReach f n s t) :
    (pcontent f t).Perm (pcontent f s) := by
  induction h with
  | refl => exact List.Perm.refl _
  | step _ hs ih => exact (pstep_content hs).trans ih

theorem filter_eraseIdx_length {α : Type} (p : α → Bool) : ∀ (l : List α) (i : Nat) (h : i < l.length),
    (l.filter p).length = ((l.eraseIdx i).filter p).length + (if p l[i] then 1 else 0) := by
  intro l i h
  have hp := (getElem_cons_eraseIdx_perm l i h).filter p
  have := hp.length_eq
  rw [← this, List.filter_cons]
  split <;> simp

/-- a step that does not fail keeps the number of owed panics -/
theorem pstep_owed {f : Nat → Option (Option Nat)} {n : Nat} {s t : PSt} (h : PStep f n s t)
    (ht : t.failed = false) : owedPanics f t = owedPanics f s := by
  cases h with
  | start c a rest infl out _ =>
    simp only [owedPanics, List.filter_cons, List.filter_append, List.length_append, isPanic]
    cases f a <;> simp <;> omega
  | finish pend infl out i hi =>
    simp only at ht
    simp only [owedPanics]
    rw [filter_eraseIdx_length isPanic infl i hi, ht]
    simp

theorem preach_failed_mono {f : Nat → Option (Option Nat)} {n : Nat} {s t : PSt} (h : PReach f n s t)
    (hs : s.failed = true) : t.failed = true ∧ t = s := by
  induction h with
  | refl => exact ⟨hs, rfl⟩
  | step _ hstep ih =>
    obtain ⟨h1, h2⟩ := ih
    subst h2
    cases hstep <;> simp at hs

theorem preach_owed {f : Nat → Option (Option Nat)} {n : Nat} {s t : PSt} (h : PReach f n s t)
    (ht : t.failed = false) : owedPanics f t = owedPanics f s := by
  induction h with
  | refl => rfl
  | @step t' u hr hstep ih =>
    have h1 := pstep_owed hstep ht
    have h2 : t'.failed = false := by cases hstep <;> rfl
    rw [h1, ih h2]

/-! ### the executable scheduler is a run of the transition system -/

theorem fill_reach (f : Nat → Option Nat) (n : Nat) : ∀ (pend : List Item) (infl : List Task)
    (ids : List Nat) (nx : Nat) (out : List (Nat × Nat)),
    Reach f n ⟨pend, infl, out⟩ (fill f n pend infl ids nx out).st := by
  intro pend
  induction pend with
  | nil => intro infl ids nx out; exact Reach.refl _
  | cons x rest ih =>
    intro infl ids nx out
    obtain ⟨c, a⟩ := x
    unfold fill
    split
    · rename_i hlt
      exact reach_trans (Reach.step (Reach.refl _) (Step.start c a rest infl out hlt)) (ih _ _ _ _)
    · exact Reach.refl _

theorem xfill_reach (f : Nat → Option Nat) (n : Nat) (x : XSt) : Reach f n x.st (x.fill f n).st :=
  fill_reach f n _ _ _ _ _

theorem finishId_reach (f : Nat → Option Nat) (n : Nat) (x x' : XSt) (id : Nat)
    (h : x.finishId id = some x') : Reach f n x.st x'.st := by
  unfold XSt.finishId at h
  simp only at h
  split at h
  · rename_i hi
    cases h
    exact Reach.step (Reach.refl _) (Step.finish _ _ _ _ hi)
  · cases h

theorem runChoices_reach (f : Nat → Option Nat) (n : Nat) : ∀ (cs : List Nat) (x x' : XSt),
    runChoices f n x cs = some x' → Reach f n x.st x'.st := by
  intro cs
  induction cs with
  | nil =>
    intro x x' h
    simp only [runChoices, Option.some.injEq] at h
    subst h
    exact xfill_reach f n x
  | cons c cs ih =>
    intro x x' h
    unfold runChoices at h
    split at h
    · cases h
    · rename_i x1 h1
      exact reach_trans (reach_trans (xfill_reach f n x) (finishId_reach f n _ _ _ h1)) (ih _ _ h)

/-! ### chunks -/

theorem chunksAux_flatten {α : Type} (k : Nat) : ∀ (xs buf : List α),
    (chunksAux k buf xs).flatten = buf ++ xs := by
  intro xs
  induction xs with
  | nil =>
    intro buf
    unfold chunksAux
    split
    · rename_i h; simp [h]
    · simp
  | cons x xs ih =>
    intro buf
    unfold chunksAux
    split
    · simp [ih]
    · rw [ih]; simp

theorem chunksAux_sizes {α : Type} (k : Nat) (hk : 1 ≤ k) : ∀ (xs buf : List α), buf.length < k →
    ∀ ch ∈ chunksAux k buf xs, 1 ≤ ch.length ∧ ch.length ≤ k := by
  intro xs
  induction xs with
  | nil =>
    intro buf hb ch hch
    unfold chunksAux at hch
    split at hch
    · simp at hch
    · rename_i hne
      simp at hch
      subst hch
      refine ⟨?_, Nat.le_of_lt hb⟩
      cases ch with
      | nil => exact absurd rfl hne
      | cons _ _ => simp
  | cons x xs ih =>
    intro buf hb ch hch
    unfold chunksAux at hch
    split at hch
    · rename_i hge
      rcases List.mem_cons.mp hch with h | h
      · subst h
        simp only [List.length_append, List.length_cons, List.length_nil] at hge ⊢
        omega
      · exact ih [] (by simp only [List.length_nil]; omega) ch h
    · rename_i hlt
      exact ih (buf ++ [x]) (by omega) ch hch

/-- every chunk but the last is full -/
theorem chunksAux_full {α : Type} (k : Nat) : ∀ (xs buf : List α), buf.length < k →
    ∀ ch ∈ (chunksAux k buf xs).dropLast, ch.length = k := by
  intro xs
  induction xs with
  | nil =>
    intro buf _ ch hch
    unfold chunksAux at hch
    split at hch <;> simp at hch
  | cons x xs ih =>
    intro buf hb ch hch
    unfold chunksAux at hch
    split at hch
    · rename_i hge
      have hlen : (buf ++ [x]).length = k := by
        simp only [List.length_append, List.length_cons, List.length_nil] at hge ⊢
        omega
      cases hrest : chunksAux k [] xs with
      | nil => rw [hrest] at hch; simp at hch
      | cons y ys =>
        rw [hrest] at hch
        simp only [List.dropLast_cons_cons] at hch
        rcases List.mem_cons.mp hch with h | h
        · rw [h]; exact hlen
        · have hk : ([] : List α).length < k := by
            simp only [List.length_nil]
            simp only [List.length_append, List.length_cons, List.length_nil] at hlen
            omega
          have := ih [] hk ch
          rw [hrest] at this
          exact this h
    · rename_i hlt
      exact ih (buf ++ [x]) (by omega) ch hch

theorem chunks0_singletons {α : Type} : ∀ (xs : List α), ∀ ch ∈ chunksAux 0 [] xs, ch.length = 1 := by
  intro xs
  induction xs with
  | nil => intro ch hch; simp [chunksAux] at hch
  | cons x xs ih =>
    intro ch hch
    unfold chunksAux at hch
    simp only [List.nil_append, ge_iff_le, Nat.zero_le, if_true] at hch
    rcases List.mem_cons.mp hch with h | h
    · subst h; rfl
    · exact ih ch h

end VtModel.Sched
