import VtModel.Mvt
import VtProofs.Prim
/-! Round trips of the message codecs built from the primitive lemmas. -/
namespace VtProofs.MvtCodec
open VtModel VtModel.Prim VtModel.Mvt VtProofs.Prim

/-- what a decoded / encodable property value looks like -/
def ValueOk : Value → Prop
  | .str s => utf8Ok s = true ∧ s.length < U64
  | .float b => b.length = 4
  | .double b => b.length = 8
  | .int i => -(2:Int)^63 ≤ i ∧ i < (2:Int)^63
  | .uint n => n < U64
  | .bool _ => True

theorem writePbfKey_ne_nil (f w : Nat) : writePbfKey f w ≠ [] := writeVarint_ne_nil _

theorem valueStep_encode (v : Value) (hv : ValueOk v) (s : Option Value) :
    valueStep s ⟨0, encodeValue v ++ []⟩ = .ok (some v, ⟨(encodeValue v).length, []⟩) := by
  cases v with
  | str b =>
    obtain ⟨hu, hl⟩ := hv
    simp only [valueStep, encodeValue, List.append_assoc]
    rw [readPbfKey_write 1 2 (by omega) (by omega)]
    simp only [bind_ok, writePbfBlob, List.append_assoc]
    rw [readVarint_write _ hl]
    simp only [bind_ok]
    rw [readString_append _ _ _ hu]
    simp [Nat.add_assoc]
  | float b =>
    simp only [valueStep, encodeValue, List.append_assoc]
    rw [readPbfKey_write 2 5 (by omega) (by omega)]
    simp only [bind_ok]
    have hv' : b.length = 4 := hv
    rw [readFixed_append 4 b [] _ hv']
    simp [hv']
  | double b =>
    simp only [valueStep, encodeValue, List.append_assoc]
    rw [readPbfKey_write 3 1 (by omega) (by omega)]
    simp only [bind_ok]
    have hv' : b.length = 8 := hv
    rw [readFixed_append 8 b [] _ hv']
    simp [hv']
  | int i =>
    obtain ⟨h1, h2⟩ := hv
    simp only [valueStep, encodeValue, List.append_assoc]
    rw [readPbfKey_write 6 0 (by omega) (by omega)]
    simp only [bind_ok]
    rw [readSVarint_write i h1 h2]
    simp
  | uint n =>
    simp only [valueStep, encodeValue, List.append_assoc]
    rw [readPbfKey_write 5 0 (by omega) (by omega)]
    simp only [bind_ok]
    rw [readVarint_write n hv]
    simp
  | bool b =>
    simp only [valueStep, encodeValue, List.append_assoc]
    rw [readPbfKey_write 7 0 (by omega) (by omega)]
    simp only [bind_ok]
    rw [readVarint_write _ (by cases b <;> simp [U64])]
    cases b <;> simp

theorem encodeValue_ne_nil (v : Value) : encodeValue v ≠ [] := by
  cases v <;> simp [encodeValue, writePbfKey_ne_nil]

/-- `GeoValue::read ∘ GeoValue::to_blob = id` -/
theorem decodeValue_encodeValue (v : Value) (hv : ValueOk v) : decodeValue (encodeValue v) = .ok v := by
  unfold decodeValue Reader.ofBytes
  have h := whileRem_consume valueStep none (some v) 0 (encodeValue v).length (encodeValue v) []
    (encodeValue_ne_nil v) (valueStep_encode v hv none)
  simp only [List.append_nil] at h
  rw [h, whileRem_nil]
  simp

/-! ### features -/

def FeatureOk (f : Feature) : Prop :=
  (∀ id, f.id = some id → id < U64) ∧ (∀ t ∈ f.tags, t < U32) ∧ f.gtype ≤ 3 ∧ (encodeFeature f).length < U64

def idPart (f : Feature) : Bytes :=
  match f.id with
  | some id => writePbfKey 1 0 ++ writeVarint id
  | none => []
def tagsPart (f : Feature) : Bytes := if f.tags.isEmpty then [] else writePbfKey 2 2 ++ writePackedU32 f.tags
def typePart (f : Feature) : Bytes := writePbfKey 3 0 ++ writeVarint f.gtype
def geomPart (f : Feature) : Bytes := if f.geom.isEmpty then [] else writePbfKey 4 2 ++ writePbfBlob f.geom

theorem encodeFeature_parts (f : Feature) :
    encodeFeature f = idPart f ++ (tagsPart f ++ (typePart f ++ (geomPart f ++ []))) := by
  unfold encodeFeature idPart tagsPart typePart geomPart
  cases f.id <;> simp

theorem loop_id (f st : Feature) (p : Nat) (r : Bytes) (h : ∀ id, f.id = some id → id < U64) :
    whileRem featureStep st ⟨p, idPart f ++ r⟩ =
      whileRem featureStep { st with id := f.id.or st.id } ⟨p + (idPart f).length, r⟩ := by
  unfold idPart
  cases hid : f.id with
  | none => simp
  | some id =>
    simp only [Option.or]
    apply whileRem_consume
    · simp [writePbfKey_ne_nil]
    · simp only [featureStep, List.append_assoc]
      rw [readPbfKey_write 1 0 (by omega) (by omega)]
      simp only [bind_ok]
      rw [readVarint_write id (h id hid)]
      simp [Nat.add_assoc]

theorem loop_tags (f st : Feature) (p : Nat) (r : Bytes) (h : ∀ t ∈ f.tags, t < U32)
    (hp : p + (tagsPart f).length < U64) :
    whileRem featureStep st ⟨p, tagsPart f ++ r⟩ =
      whileRem featureStep { st with tags := if f.tags.isEmpty then st.tags else f.tags } ⟨p + (tagsPart f).length, r⟩ := by
  unfold tagsPart at *
  cases he : f.tags.isEmpty with
  | true => simp
  | false =>
    simp [he] at hp
    simp only [Bool.false_eq_true, if_false]
    apply whileRem_consume
    · simp [writePbfKey_ne_nil]
    · simp only [featureStep, List.append_assoc]
      rw [readPbfKey_write 2 2 (by omega) (by omega)]
      simp only [bind_ok]
      rw [readPackedU32_write f.tags h r _ (by omega)]
      simp [Nat.add_assoc]

theorem loop_type (f st : Feature) (p : Nat) (r : Bytes) (h : f.gtype ≤ 3) :
    whileRem featureStep st ⟨p, typePart f ++ r⟩ =
      whileRem featureStep { st with gtype := f.gtype } ⟨p + (typePart f).length, r⟩ := by
  unfold typePart
  apply whileRem_consume
  · simp [writePbfKey_ne_nil]
  · simp only [featureStep, List.append_assoc]
    rw [readPbfKey_write 3 0 (by omega) (by omega)]
    simp only [bind_ok]
    rw [readVarint_write f.gtype (by unfold U64; omega)]
    have : geomType f.gtype = f.gtype := by unfold geomType; split <;> omega
    simp [this, Nat.add_assoc]

theorem loop_geom (f st : Feature) (p : Nat) (r : Bytes) (h : f.geom.length < U64) :
    whileRem featureStep st ⟨p, geomPart f ++ r⟩ =
      whileRem featureStep { st with geom := if f.geom.isEmpty then st.geom else f.geom } ⟨p + (geomPart f).length, r⟩ := by
  unfold geomPart
  cases he : f.geom.isEmpty with
  | true => simp
  | false =>
    simp only [Bool.false_eq_true, if_false]
    apply whileRem_consume
    · simp [writePbfKey_ne_nil]
    · simp only [featureStep, List.append_assoc]
      rw [readPbfKey_write 4 2 (by omega) (by omega)]
      simp only [bind_ok]
      rw [readPbfBlob_write f.geom r _ h]
      simp [Nat.add_assoc]

/-- `VectorTileFeature::read ∘ to_blob = id` (id, tag ids, geometry type, geometry bytes) -/
theorem decodeFeature_encodeFeature (f : Feature) (hf : FeatureOk f) :
    decodeFeature (encodeFeature f) = .ok f := by
  obtain ⟨hid, htags, hty, hlen⟩ := hf
  rw [encodeFeature_parts] at hlen
  simp only [List.length_append, List.length_nil] at hlen
  have hgl : f.geom.length < U64 := by
    have : f.geom.length ≤ (geomPart f).length := by
      unfold geomPart
      split
      · rename_i he; simp [List.isEmpty_iff.mp he]
      · simp [writePbfBlob]; omega
    omega
  unfold decodeFeature Reader.ofBytes
  rw [encodeFeature_parts, loop_id f _ 0 _ hid, loop_tags f _ _ _ htags (by omega), loop_type f _ _ _ hty,
    loop_geom f _ _ [] hgl, whileRem_nil]
  congr 1
  cases f with
  | mk id tags gtype geom =>
    cases id <;> cases tags <;> cases geom <;> simp [Feature.empty]

/-! ### repeated fields -/

theorem loop_list {σ α} (step : σ → Reader → Outcome (σ × Reader)) (enc : α → Bytes) (upd : σ → α → σ)
    (P : α → Prop)
    (hstep : ∀ x, P x → ∀ (st : σ) (p : Nat) (r : Bytes), p + (enc x).length < U64 →
      whileRem step st ⟨p, enc x ++ r⟩ = whileRem step (upd st x) ⟨p + (enc x).length, r⟩) :
    ∀ (xs : List α), (∀ x ∈ xs, P x) → ∀ (st : σ) (p : Nat) (r : Bytes), p + (xs.flatMap enc).length < U64 →
      whileRem step st ⟨p, xs.flatMap enc ++ r⟩ = whileRem step (xs.foldl upd st) ⟨p + (xs.flatMap enc).length, r⟩ := by
  intro xs
  induction xs with
  | nil => intro _ st p r _; simp
  | cons x t ih =>
    intro hP st p r hlen
    simp only [List.flatMap_cons, List.length_append, List.append_assoc, List.foldl_cons] at hlen ⊢
    rw [hstep x (hP x (by simp)) st p _ (by omega)]
    rw [ih (fun y hy => hP y (by simp [hy])) _ _ r (by omega)]
    simp [Nat.add_assoc]

/-! ### layers -/

def LayerOk (l : Layer) : Prop :=
  utf8Ok l.name = true ∧ (∀ f ∈ l.features, FeatureOk f) ∧ (∀ k ∈ l.keys, utf8Ok k = true) ∧
  (∀ v ∈ l.vals, ValueOk v) ∧ l.extent < U32 ∧ l.version < U32 ∧ (encodeLayer l).length < U64

def encF (f : Feature) : Bytes := writePbfKey 2 2 ++ writePbfBlob (encodeFeature f)
def encK (k : Bytes) : Bytes := writePbfKey 3 2 ++ writePbfBlob k
def encV (v : Value) : Bytes := writePbfKey 4 2 ++ writePbfBlob (encodeValue v)
def extentPart (l : Layer) : Bytes := if l.extent = 4096 then [] else writePbfKey 5 0 ++ writeVarint l.extent
def versionPart (l : Layer) : Bytes := if l.version = 1 then [] else writePbfKey 15 0 ++ writeVarint l.version

theorem encodeLayer_parts (l : Layer) :
    encodeLayer l = (writePbfKey 1 2 ++ writePbfBlob l.name) ++ (l.features.flatMap encF ++ (l.keys.flatMap encK ++
      (l.vals.flatMap encV ++ (extentPart l ++ (versionPart l ++ []))))) := by
  unfold encodeLayer extentPart versionPart
  simp [encF, encK, encV]
  rfl

def addF (s : LayerSt) (f : Feature) : LayerSt := { s with l := { s.l with features := s.l.features ++ [f] } }
def addK (s : LayerSt) (k : Bytes) : LayerSt := { s with l := { s.l with keys := s.l.keys ++ [k] } }
def addV (s : LayerSt) (v : Value) : LayerSt := { s with l := { s.l with vals := s.l.vals ++ [v] } }

theorem step_F (f : Feature) (hf : FeatureOk f) (st : LayerSt) (p : Nat) (r : Bytes) (hp : p + (encF f).length < U64) :
    whileRem layerStep st ⟨p, encF f ++ r⟩ = whileRem layerStep (addF st f) ⟨p + (encF f).length, r⟩ := by
  unfold encF at *
  apply whileRem_consume
  · simp [writePbfKey_ne_nil]
  · simp only [layerStep, List.append_assoc]
    rw [readPbfKey_write 2 2 (by omega) (by omega)]
    simp only [bind_ok]
    rw [readPbfSub_write _ r _ (by simp only [List.length_append] at hp; omega)]
    simp only [bind_ok]
    rw [decodeFeature_encodeFeature f hf]
    simp [addF, Nat.add_assoc]

theorem step_K (k : Bytes) (hk : utf8Ok k = true) (st : LayerSt) (p : Nat) (r : Bytes) (hp : p + (encK k).length < U64) :
    whileRem layerStep st ⟨p, encK k ++ r⟩ = whileRem layerStep (addK st k) ⟨p + (encK k).length, r⟩ := by
  unfold encK at *
  apply whileRem_consume
  · simp [writePbfKey_ne_nil]
  · simp only [layerStep, List.append_assoc]
    rw [readPbfKey_write 3 2 (by omega) (by omega)]
    simp only [bind_ok]
    rw [readPbfString_write k r _ (by simp only [List.length_append, writePbfBlob] at hp; omega) hk]
    simp [addK, Nat.add_assoc]

theorem step_V (v : Value) (hv : ValueOk v) (st : LayerSt) (p : Nat) (r : Bytes) (hp : p + (encV v).length < U64) :
    whileRem layerStep st ⟨p, encV v ++ r⟩ = whileRem layerStep (addV st v) ⟨p + (encV v).length, r⟩ := by
  unfold encV at *
  apply whileRem_consume
  · simp [writePbfKey_ne_nil]
  · simp only [layerStep, List.append_assoc]
    rw [readPbfKey_write 4 2 (by omega) (by omega)]
    simp only [bind_ok]
    rw [readPbfSub_write _ r _ (by simp only [List.length_append] at hp; omega)]
    simp only [bind_ok]
    rw [decodeValue_encodeValue v hv]
    simp [addV, Nat.add_assoc]

theorem foldl_addF (fs : List Feature) (st : LayerSt) :
    fs.foldl addF st = { st with l := { st.l with features := st.l.features ++ fs } } := by
  induction fs generalizing st with
  | nil => simp
  | cons x t ih => simp [ih, addF]

theorem foldl_addK (ks : List Bytes) (st : LayerSt) :
    ks.foldl addK st = { st with l := { st.l with keys := st.l.keys ++ ks } } := by
  induction ks generalizing st with
  | nil => simp
  | cons x t ih => simp [ih, addK]

theorem foldl_addV (vs : List Value) (st : LayerSt) :
    vs.foldl addV st = { st with l := { st.l with vals := st.l.vals ++ vs } } := by
  induction vs generalizing st with
  | nil => simp
  | cons x t ih => simp [ih, addV]

theorem loop_name (l : Layer) (st : LayerSt) (p : Nat) (r : Bytes) (hu : utf8Ok l.name = true) (hl : l.name.length < U64) :
    whileRem layerStep st ⟨p, (writePbfKey 1 2 ++ writePbfBlob l.name) ++ r⟩ =
      whileRem layerStep { l := { st.l with name := l.name }, named := true }
        ⟨p + (writePbfKey 1 2 ++ writePbfBlob l.name).length, r⟩ := by
  apply whileRem_consume
  · simp [writePbfKey_ne_nil]
  · simp only [layerStep, List.append_assoc]
    rw [readPbfKey_write 1 2 (by omega) (by omega)]
    simp only [bind_ok]
    rw [readPbfString_write l.name r _ hl hu]
    simp [Nat.add_assoc]

theorem loop_extent (l : Layer) (st : LayerSt) (p : Nat) (r : Bytes) (h : l.extent < U32) :
    whileRem layerStep st ⟨p, extentPart l ++ r⟩ =
      whileRem layerStep { st with l := { st.l with extent := if l.extent = 4096 then st.l.extent else l.extent } }
        ⟨p + (extentPart l).length, r⟩ := by
  unfold extentPart
  by_cases he : l.extent = 4096
  · simp [he]
  · simp only [he, if_false]
    apply whileRem_consume
    · simp [writePbfKey_ne_nil]
    · simp only [layerStep, List.append_assoc]
      rw [readPbfKey_write 5 0 (by omega) (by omega)]
      simp only [bind_ok]
      rw [readVarint_write l.extent (by unfold U32 at h; unfold U64; omega)]
      simp [Nat.mod_eq_of_lt h, Nat.add_assoc]

theorem loop_version (l : Layer) (st : LayerSt) (p : Nat) (r : Bytes) (h : l.version < U32) :
    whileRem layerStep st ⟨p, versionPart l ++ r⟩ =
      whileRem layerStep { st with l := { st.l with version := if l.version = 1 then st.l.version else l.version } }
        ⟨p + (versionPart l).length, r⟩ := by
  unfold versionPart
  by_cases he : l.version = 1
  · simp [he]
  · simp only [he, if_false]
    apply whileRem_consume
    · simp [writePbfKey_ne_nil]
    · simp only [layerStep, List.append_assoc]
      rw [readPbfKey_write 15 0 (by omega) (by omega)]
      simp only [bind_ok]
      rw [readVarint_write l.version (by unfold U32 at h; unfold U64; omega)]
      simp [Nat.mod_eq_of_lt h, Nat.add_assoc]

/-- `VectorTileLayer::read ∘ to_blob = id`: name, features, key table, value table (duplicates and
    unused entries stay where they are), extent, version -/
theorem decodeLayer_encodeLayer (l : Layer) (hl : LayerOk l) : decodeLayer (encodeLayer l) = .ok l := by
  obtain ⟨hname, hfs, hks, hvs, hext, hver, hlen⟩ := hl
  rw [encodeLayer_parts] at hlen
  simp only [List.length_append, List.length_nil] at hlen
  have hnl : l.name.length < U64 := by simp only [writePbfBlob, List.length_append] at hlen; omega
  have hnm : (writePbfKey 1 2 ++ writePbfBlob l.name).length = (writePbfKey 1 2).length + (writePbfBlob l.name).length :=
    List.length_append
  unfold decodeLayer Reader.ofBytes
  rw [encodeLayer_parts, loop_name l _ 0 _ hname hnl]
  rw [loop_list layerStep encF addF FeatureOk step_F l.features hfs _ _ _ (by omega)]
  rw [loop_list layerStep encK addK (fun k => utf8Ok k = true) step_K l.keys hks _ _ _ (by omega)]
  rw [loop_list layerStep encV addV ValueOk step_V l.vals hvs _ _ _ (by omega)]
  rw [loop_extent l _ _ _ hext, loop_version l _ _ [] hver, whileRem_nil]
  simp only [foldl_addF, foldl_addK, foldl_addV, bind_ok, LayerSt.init]
  cases l with
  | mk extent features name keys vals version =>
    by_cases h1 : extent = 4096 <;> by_cases h2 : version = 1 <;> simp [h1, h2]

/-! ### tiles -/

def TileOk (t : Tile) : Prop := (∀ l ∈ t.layers, LayerOk l) ∧ (encodeTile t).length < U64

def encL (l : Layer) : Bytes := writePbfKey 3 2 ++ writePbfBlob (encodeLayer l)

theorem step_L (l : Layer) (hl : LayerOk l) (st : List Layer) (p : Nat) (r : Bytes) (hp : p + (encL l).length < U64) :
    whileRem tileStep st ⟨p, encL l ++ r⟩ = whileRem tileStep (st ++ [l]) ⟨p + (encL l).length, r⟩ := by
  unfold encL at *
  apply whileRem_consume
  · simp [writePbfKey_ne_nil]
  · simp only [tileStep, List.append_assoc]
    rw [readPbfKey_write 3 2 (by omega) (by omega)]
    simp only [bind_ok]
    rw [readPbfSub_write _ r _ (by simp only [List.length_append] at hp; omega)]
    simp only [bind_ok]
    rw [decodeLayer_encodeLayer l hl]
    simp [Nat.add_assoc]

theorem foldl_snoc (ls st : List Layer) : ls.foldl (fun s l => s ++ [l]) st = st ++ ls := by
  induction ls generalizing st with
  | nil => simp
  | cons x t ih => simp [ih]

/-- `VectorTile::from_blob ∘ to_blob = id` on every tile the decoder can produce -/
theorem decodeTile_encodeTile (t : Tile) (ht : TileOk t) : decodeTile (encodeTile t) = .ok t := by
  obtain ⟨hls, hlen⟩ := ht
  have he : encodeTile t = t.layers.flatMap encL ++ [] := by
    simp only [encodeTile, List.append_nil]; rfl
  unfold decodeTile Reader.ofBytes
  rw [he] at hlen ⊢
  rw [loop_list tileStep encL (fun s l => s ++ [l]) LayerOk step_L t.layers hls [] 0 [] (by simpa using hlen)]
  rw [whileRem_nil, foldl_snoc]
  simp

end VtProofs.MvtCodec
