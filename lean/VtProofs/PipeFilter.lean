import VtModel.Pipeline
import VtProofs.Source
/-!
`filterSrc` (filter_zoom / filter_bbox) and `mapSrc` (update_properties) preserve `Good`;
pyramid well-formedness of the narrowed coverages.
-/
namespace VtModel
open BBox

/-! ### boxes and pyramids -/

theorem setEmpty_wf {b : BBox} (h : b.level ≤ 31) : b.setEmpty.WF := by
  unfold BBox.WF setEmpty
  exact ⟨h, Nat.two_pow_pos _, Nat.two_pow_pos _⟩

theorem intersect_wf {a b c : BBox} (ha : a.WF) (h : a.intersectBBox b = .ok c) : c.WF := by
  unfold intersectBBox at h
  split at h
  · cases h
  · split at h
    · cases h
      obtain ⟨h1, h2, h3⟩ := ha
      refine ⟨h1, ?_, ?_⟩
      · show min a.xmax b.xmax < 2 ^ a.level
        omega
      · show min a.ymax b.ymax < 2 ^ a.level
        omega
    · cases h
      exact setEmpty_wf ha.1

theorem pyr_get {p : Pyramid} (hp : p.WF) {z : Nat} (hz : z ≤ 31) :
    ∃ lb, p[z]? = some lb ∧ lb.level = z ∧ lb.WF := by
  have hlt : z < p.length := by rw [hp.1]; omega
  exact ⟨p[z], List.getElem?_eq_getElem hlt, (hp.2 z hlt).1, (hp.2 z hlt).2⟩

/-- `intersect_pyramid(..).unwrap()` neither fails nor panics on well-formed input and is the
    set intersection with the pyramid's level -/
theorem narrow_spec {p : Pyramid} (hp : p.WF) {b : BBox} (hb : b.WF) :
    ∃ lb b', p[b.level]? = some lb ∧ lb.level = b.level ∧ narrow p b = .ok b' ∧ b'.WF ∧ b'.level = b.level ∧
      ∀ x y, mem b' x y ↔ mem b x y ∧ mem lb x y := by
  obtain ⟨lb, h1, h2, _⟩ := pyr_get hp hb.1
  obtain ⟨b', hb'⟩ := (intersect_ok_iff b lb).mpr h2.symm
  refine ⟨lb, b', h1, h2, ?_, intersect_wf hb hb', intersect_level hb', fun x y => mem_intersect hb' x y⟩
  unfold narrow Pyramid.getLevel
  rw [h1]
  simp only [hb', Outcome.unwrap]

theorem pyr_has_iff {p : Pyramid} {c : Coord} {lb : BBox} (h : p[c.2.2]? = some lb) (hl : lb.level = c.2.2) :
    p.has c = true ↔ mem lb c.1 c.2.1 := by
  unfold Pyramid.has Pyramid.containsCoord
  rw [h]
  simp only
  rw [contains3_iff]
  constructor
  · exact fun h => h.2
  · exact fun h => ⟨hl.symm, h⟩

/-! ### the filter -/

theorem filter_lookup_ok {β : Type} (pyr : Pyramid) {s : Src β} (h : LookupOK s) : LookupOK (filterSrc pyr s) := by
  intro c hc
  unfold filterSrc
  simp only
  split
  · exact h c hc
  · exact ⟨none, rfl⟩

/-- **filter_stream_ok**: `filter_zoom` / `filter_bbox` over a good source is a good source, for
    every narrowed coverage `pyr` (so in particular for `min > max`, an empty intersection, a
    geographic box beyond the source's coverage). -/
theorem filter_good {β : Type} {pyr : Pyramid} (hp : pyr.WF) {s : Src β} (hs : Good s) : Good (filterSrc pyr s) := by
  refine ⟨hp, filter_lookup_ok pyr hs.lookup_ok, ?_⟩
  rw [streamOK_iff_spec]
  intro b hb
  obtain ⟨lb, b', h1, h2, h3, h4, h5, h6⟩ := narrow_spec hp hb
  obtain ⟨l, hl, hn, hm⟩ := (streamOK_iff_spec s).mp hs.stream_ok b' h4
  refine ⟨l, ?_, hn, ?_⟩
  · show (match narrow pyr b with | .ok b' => s.stream b' | .err => .err | .panic => .panic) = .ok l
    rw [h3]; exact hl
  · intro cp
    rw [hm cp, mem_coords3, mem_coords3, h5, h6]
    show _ ↔ _ ∧ (if pyr.has cp.1 then s.lookup cp.1 else .ok none) = .ok (some cp.2)
    constructor
    · rintro ⟨⟨hz, hb1, hb2⟩, hlk⟩
      have hh : pyr.has cp.1 = true := (pyr_has_iff (by rw [hz]; exact h1) (by rw [hz]; exact h2)).mpr hb2
      rw [if_pos hh]
      exact ⟨⟨hz, hb1⟩, hlk⟩
    · rintro ⟨⟨hz, hb1⟩, hlk⟩
      by_cases hh : pyr.has cp.1 = true
      · rw [if_pos hh] at hlk
        exact ⟨⟨hz, hb1, (pyr_has_iff (by rw [hz]; exact h1) (by rw [hz]; exact h2)).mp hh⟩, hlk⟩
      · rw [if_neg hh] at hlk
        cases hlk

/-- the filtered lookup, spelled out: the source's tile, unchanged, exactly inside the narrowed
    coverage -/
theorem filter_lookup_eq {β : Type} (pyr : Pyramid) (s : Src β) (c : Coord) :
    (filterSrc pyr s).lookup c = if pyr.has c then s.lookup c else .ok none := rfl

/-! ### per-tile map -/

theorem map_good {β : Type} (f : β → β) {s : Src β} (hs : Good s) : Good (mapSrc f s) := by
  refine ⟨hs.cover_wf, ?_, ?_⟩
  · intro c hc
    obtain ⟨o, ho⟩ := hs.lookup_ok c hc
    show ∃ o, (match s.lookup c with | .ok (some p) => Outcome.ok (some (f p)) | r => r) = .ok o
    rw [ho]
    cases o with
    | none => exact ⟨none, rfl⟩
    | some p => exact ⟨some (f p), rfl⟩
  · rw [streamOK_iff_spec]
    intro b hb
    obtain ⟨l, hl, hn, hm⟩ := (streamOK_iff_spec s).mp hs.stream_ok b hb
    refine ⟨l.map fun cp => (cp.1, f cp.2), ?_, ?_, ?_⟩
    · show (match s.stream b with | .ok l => Outcome.ok (l.map fun (cp : Coord × β) => (cp.1, f cp.2)) | r => r) = _
      rw [hl]
    · rw [List.map_map]
      exact hn
    · intro cq
      show _ ↔ _ ∧ (match s.lookup cq.1 with | .ok (some p) => Outcome.ok (some (f p)) | r => r) = .ok (some cq.2)
      rw [List.mem_map]
      constructor
      · rintro ⟨cp, hcp, rfl⟩
        obtain ⟨h1, h2⟩ := (hm cp).mp hcp
        refine ⟨h1, ?_⟩
        simp only [h2]
      · rintro ⟨h1, h2⟩
        cases hlk : s.lookup cq.1 with
        | ok o =>
          cases o with
          | none => rw [hlk] at h2; cases h2
          | some p =>
            rw [hlk] at h2
            have : f p = cq.2 := by
              have := Outcome.ok.inj h2
              exact Option.some.inj this
            exact ⟨(cq.1, p), (hm (cq.1, p)).mpr ⟨h1, hlk⟩, by simp only [this]⟩
        | err => rw [hlk] at h2; cases h2
        | panic => rw [hlk] at h2; cases h2

/-! ### narrowed coverages stay well-formed -/

theorem setZoomMin_wf {p : Pyramid} (hp : p.WF) (m : Nat) : (p.setZoomMin m).WF := by
  unfold Pyramid.setZoomMin Pyramid.WF
  refine ⟨by rw [List.length_mapIdx]; exact hp.1, ?_⟩
  intro z hz
  rw [List.length_mapIdx] at hz
  rw [List.getElem_mapIdx]
  obtain ⟨h1, h2⟩ := hp.2 z hz
  split
  · exact ⟨h1, setEmpty_wf h2.1⟩
  · exact ⟨h1, h2⟩

theorem setZoomMax_wf {p : Pyramid} (hp : p.WF) (m : Nat) : (p.setZoomMax m).WF := by
  unfold Pyramid.setZoomMax Pyramid.WF
  refine ⟨by rw [List.length_mapIdx]; exact hp.1, ?_⟩
  intro z hz
  rw [List.length_mapIdx] at hz
  rw [List.getElem_mapIdx]
  obtain ⟨h1, h2⟩ := hp.2 z hz
  split
  · exact ⟨h1, setEmpty_wf h2.1⟩
  · exact ⟨h1, h2⟩

theorem zoomPyr_wf {p : Pyramid} (hp : p.WF) (zmin zmax : Option Nat) : (zoomPyr p zmin zmax).WF := by
  unfold zoomPyr
  cases zmin <;> cases zmax <;> simp only
  · exact hp
  · exact setZoomMax_wf hp _
  · exact setZoomMin_wf hp _
  · exact setZoomMax_wf (setZoomMin_wf hp _) _

end VtModel
