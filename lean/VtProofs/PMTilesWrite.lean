import VtModel.PMTiles
import VtProofs.PMTiles
import VtProofs.PMTilesRead
import VtProofs.VersatilesGrid
import VtProofs.VersatilesWrite
/-!
The PMTiles writer: tile data section and entries (`putTiles`), sorting, the file layout produced by
the positional writes, and validity of the written file (`ValidPMTiles`) for the source's tile map.
-/
namespace VtProofs.PMTilesWrite
open VtModel VtModel.Fmt VtModel.PMTiles
open VtProofs.PMTilesRead VtProofs.VersatilesGrid

/-! ### tile data section -/

theorem slice_append_right (a b : Bytes) (o l : Nat) : slice (a ++ b) ⟨a.length + o, l⟩ = slice b ⟨o, l⟩ := by
  unfold slice
  simp only
  rw [List.drop_append]
  have h1 : List.drop (a.length + o) a = [] := by
    apply List.drop_eq_nil_of_le; omega
  have h2 : a.length + o - a.length = o := by omega
  rw [h1, h2, List.nil_append]

/-- tile id of a streamed tile (specification form) -/
def cid (t : Tile) : Nat := Hilbert.coordToTileId t.1.1 t.1.2.1 t.1.2.2

/-- valid coordinate -/
def ValidT (t : Tile) : Prop := t.1.2.2 < 32 ∧ t.1.1 < 2 ^ t.1.2.2 ∧ t.1.2.1 < 2 ^ t.1.2.2

/-- entry `e` stores tile `t` in the data section `data` that starts at relative position `pos` -/
def Stores (pos : Nat) (data : Bytes) (e : Entry) (t : Tile) : Prop :=
  e.id = cid t ∧ e.run = 1 ∧ e.len = t.2.length ∧ pos ≤ e.off ∧ e.off - pos + e.len ≤ data.length ∧
    slice data ⟨e.off - pos, e.len⟩ = t.2

theorem putTiles_spec : ∀ (ts : List Tile) (pos : Nat), (∀ t ∈ ts, ValidT t) →
    ∃ es data, putTiles pos ts = .ok (es, data) ∧ es.map (·.id) = ts.map cid ∧
      (∀ e ∈ es, ∃ t ∈ ts, Stores pos data e t) ∧ (∀ t ∈ ts, ∃ e ∈ es, Stores pos data e t) := by
  intro ts
  induction ts with
  | nil => intro pos _; exact ⟨[], [], rfl, rfl, by simp, by simp⟩
  | cons t ts ih =>
    intro pos hv
    have ⟨hz, hx, hy⟩ := hv t (by simp)
    obtain ⟨es, data, h1, h2, h3, h4⟩ := ih (pos + t.2.length) (fun u hu => hv u (by simp [hu]))
    have hid := VtProofs.Hilbert.coordToTileIdLoop_eq hz hx hy
    have hlift : ∀ e u, Stores (pos + t.2.length) data e u → Stores pos (t.2 ++ data) e u := by
      intro e u ⟨a1, a2, a3, a4, a5, a6⟩
      refine ⟨a1, a2, a3, by omega, by simp only [List.length_append]; omega, ?_⟩
      have : e.off - pos = t.2.length + (e.off - (pos + t.2.length)) := by omega
      rw [this, slice_append_right]; exact a6
    have hthis : Stores pos (t.2 ++ data) ⟨cid t, pos, t.2.length, 1⟩ t := by
      refine ⟨rfl, rfl, rfl, Nat.le_refl _, by simp, ?_⟩
      simp only [Nat.sub_self]
      have := VtProofs.VersatilesBlock.slice_append_left t.2 data ⟨0, t.2.length⟩ (by simp)
      rw [this]; unfold slice; simp
    refine ⟨⟨cid t, pos, t.2.length, 1⟩ :: es, t.2 ++ data, ?_, ?_, ?_, ?_⟩
    · unfold putTiles
      simp only [hid, h1]
      rfl
    · simp only [List.map_cons, h2]
    · intro e he
      cases he with
      | head => exact ⟨t, by simp, hthis⟩
      | tail _ he =>
        obtain ⟨u, hu, hs⟩ := h3 e he
        exact ⟨u, by simp [hu], hlift e u hs⟩
    · intro u hu
      cases hu with
      | head => exact ⟨_, by simp, hthis⟩
      | tail _ hu =>
        obtain ⟨e, he, hs⟩ := h4 u hu
        exact ⟨e, by simp [he], hlift e u hs⟩

/-! ### positional writes -/

theorem length_writeAt (f : Bytes) (pos : Nat) (b : Bytes) :
    f.length ≤ (writeAt f pos b).length ∧ pos + b.length ≤ (writeAt f pos b).length := by
  unfold writeAt
  by_cases h : f.length < pos
  · simp only [h, if_true, List.length_append, List.length_take, List.length_drop, List.length_replicate]
    omega
  · simp only [h, if_false, List.length_append, List.length_take, List.length_drop]
    omega

theorem writeAt_end (f b : Bytes) : writeAt f f.length b = f ++ b := by
  unfold writeAt
  simp

theorem writeAt_nil (pos : Nat) (b : Bytes) : writeAt [] pos b = List.replicate pos 0 ++ b := by
  unfold writeAt
  by_cases h : 0 < pos
  · simp [h]
  · have : pos = 0 := by omega
    subst this; simp

/-- overwrite inside a middle segment -/
theorem writeAt_mid (a z r b : Bytes) (h : b.length ≤ z.length) :
    writeAt (a ++ (z ++ r)) a.length b = a ++ (b ++ (z.drop b.length ++ r)) := by
  unfold writeAt
  have h1 : ¬ ((a ++ (z ++ r)).length < a.length) := by simp
  simp only [h1, if_false]
  rw [List.take_left' rfl]
  have : List.drop (a.length + b.length) (a ++ (z ++ r)) = z.drop b.length ++ r := by
    rw [← List.drop_drop, List.drop_left' rfl, List.drop_append_of_le_length h]
  rw [this]
  simp only [List.append_assoc]

theorem writeAt_head (a r b : Bytes) (h : b.length = a.length) : writeAt (a ++ r) 0 b = b ++ r := by
  unfold writeAt
  simp only [Nat.not_lt_zero, if_false, List.take_zero, List.nil_append, Nat.zero_add]
  rw [h, List.drop_left' rfl]

/-- the final layout of the file: header | root | zero padding | metadata | tile data | leaves
    (`n1` = header length 127, `n1 + n2` = 16384) -/
theorem layout_gen (hdr root mta data leaves : Bytes) (n1 n2 : Nat) (hh : hdr.length = n1) (hr : root.length ≤ n2) :
    writeAt (writeAt (writeAt (writeAt (writeAt [] (n1 + n2) mta) (n1 + n2 + mta.length) data) n1 root)
      (n1 + n2 + mta.length + data.length) leaves) 0 hdr =
    hdr ++ (root ++ (List.replicate (n2 - root.length) 0 ++ (mta ++ (data ++ leaves)))) := by
  rw [writeAt_nil]
  have e1 : (List.replicate (n1 + n2) (0 : UInt8) ++ mta).length = n1 + n2 + mta.length := by
    rw [List.length_append, List.length_replicate]
  rw [← e1, writeAt_end]
  rw [← List.replicate_append_replicate]
  have e2 : (List.replicate n1 (0 : UInt8)).length = n1 := List.length_replicate
  have e3 : List.replicate n1 (0 : UInt8) ++ List.replicate n2 0 ++ mta ++ data =
      List.replicate n1 0 ++ (List.replicate n2 0 ++ (mta ++ data)) := by simp only [List.append_assoc]
  rw [e3]
  have hmid := writeAt_mid (List.replicate n1 (0 : UInt8)) (List.replicate n2 0) (mta ++ data) root
    (by rw [List.length_replicate]; exact hr)
  rw [e2] at hmid
  rw [hmid]
  have e4 : (List.replicate n1 (0 : UInt8) ++ (root ++ (List.drop root.length (List.replicate n2 0) ++ (mta ++ data)))).length
      = (List.replicate n1 (0 : UInt8) ++ List.replicate n2 0 ++ mta).length + data.length := by
    simp only [List.length_append, List.length_replicate, List.length_drop]
    omega
  rw [← e4, writeAt_end]
  rw [List.append_assoc, writeAt_head _ _ _ (by rw [hh, e2])]
  rw [List.drop_replicate]
  simp only [List.append_assoc]

theorem layout (hdr root mta data leaves : Bytes) (hh : hdr.length = 127) (hr : root.length ≤ 16384 - 127) :
    writeAt (writeAt (writeAt (writeAt (writeAt [] 16384 mta) (16384 + mta.length) data) 127 root)
      (16384 + mta.length + data.length) leaves) 0 hdr =
    hdr ++ (root ++ (List.replicate (16384 - 127 - root.length) 0 ++ (mta ++ (data ++ leaves)))) :=
  layout_gen hdr root mta data leaves 127 16257 hh hr

/-! ### sorting -/

/-- entries as the writer collects them: tile entries with run length 1, pairwise different valid
    ids, fields within their Rust types -/
structure EntriesOk (es : List Entry) : Prop where
  run : ∀ e ∈ es, e.run = 1
  ok : ∀ e ∈ es, VtProofs.PMTiles.EntryOk e
  ids : ∀ e ∈ es, e.id < Hilbert.base 32
  nodup : (es.map (·.id)).Nodup
  n : es.length ≤ 10000000000

theorem sorted_perm (es : List Entry) : (sortEntriesFast es).Perm es := List.mergeSort_perm _ _

theorem sorted_strict (es : List Entry) (hn : (es.map (·.id)).Nodup) :
    (sortEntriesFast es).Pairwise (fun a b => a.id < b.id) := by
  have h1 : (sortEntriesFast es).Pairwise (fun a b => decide (a.id ≤ b.id) = true) := by
    apply List.pairwise_mergeSort
    · intro a b c h1 h2; simp only [decide_eq_true_eq] at *; omega
    · intro a b; simp only [Bool.or_eq_true, decide_eq_true_eq]; omega
  have h2 : ((sortEntriesFast es).map (·.id)).Nodup := ((sorted_perm es).map _).nodup_iff.2 hn
  rw [List.nodup_iff_pairwise_ne, List.pairwise_map] at h2
  apply List.Pairwise.imp _ (h1.and h2)
  intro a b ⟨h, hne⟩
  simp only [decide_eq_true_eq] at h
  omega

theorem sorted_mem (es : List Entry) (e : Entry) : e ∈ sortEntriesFast es ↔ e ∈ es := (sorted_perm es).mem_iff

/-! ### what the reader needs from the written directory -/

/-- the directory bytes `rootc` (plus `C.leaves`) address exactly the entries `es`, each at its own id -/
def DirSpec (C : Ctx) (rootc : Bytes) (es : List Entry) : Prop :=
  ∃ d rawroot, d ≤ 2 ∧ C.K.run .gzip rootc = .ok rawroot ∧ WFDir C d 0 (Hilbert.base 32) rawroot ∧
    ∀ i t, Addr C d rawroot i t ↔ (t ∈ es ∧ t.id = i)

/-- in-bounds condition of the tile data -/
def InFile (C : Ctx) (es : List Entry) : Prop :=
  ∀ e ∈ es, e.len > 0 → e.off + C.dataOff + e.len ≤ C.file.length

theorem nextId_lt_of_sorted {es : List Entry} (hs : es.Pairwise (fun a b => a.id < b.id)) {hi : Nat}
    (hhi : ∀ e ∈ es, e.id < hi) (k : Nat) (hk : k < es.length) : (es[k]'hk).id + 1 ≤ nextId es k hi := by
  have := (nextId_le hs hk (fun j hj => hhi _ (List.getElem_mem hj))).1
  omega

/-- a sorted list of run-length-1 tile entries is a well-formed directory of height 0 that addresses
    exactly its entries -/
theorem wf_flat (C : Ctx) (es : List Entry) (raw : Bytes) (lo hi : Nat) (hdec : decDir raw = .ok es)
    (hs : es.Pairwise (fun a b => a.id < b.id)) (hrun : ∀ e ∈ es, e.run = 1)
    (hlo : ∀ e ∈ es, lo ≤ e.id) (hhi : ∀ e ∈ es, e.id < hi) (hin : InFile C es) :
    WFDir C 0 lo hi raw ∧ ∀ i t, Addr C 0 raw i t ↔ (t ∈ es ∧ t.id = i) := by
  constructor
  · refine ⟨es, hdec, hs, ?_⟩
    intro k hk
    have hm := List.getElem_mem hk
    refine ⟨hlo _ hm, hhi _ hm, ?_, ?_⟩
    · intro _
      rw [hrun _ hm]
      exact ⟨nextId_lt_of_sorted hs hhi k hk, hin _ hm⟩
    · intro h0; rw [hrun _ hm] at h0; cases h0
  · intro i t
    constructor
    · rintro ⟨es', hdec', hmem, hr, h1, h2⟩
      rw [hdec] at hdec'; injection hdec' with e; subst e
      rw [hrun _ hmem] at h2
      exact ⟨hmem, by omega⟩
    · rintro ⟨hmem, rfl⟩
      exact ⟨es, hdec, hmem, by rw [hrun _ hmem]; omega, Nat.le_refl _, by rw [hrun _ hmem]; omega⟩

/-- the root-only directory (`Case1` of `as_directory`) -/
theorem dirSpec_small (C : Ctx) (hic : C.ic = .gzip) (enc : Bytes → Bytes) (hK : ∀ b, C.K.gzip (enc b) = some b)
    (es : List Entry) (ok : EntriesOk es) (hin : InFile C es) (raw : Bytes)
    (hraw : encDir (sortEntriesFast es) = .ok raw) : DirSpec C (enc raw) es := by
  have hperm := sorted_perm es
  have hdec : decDir raw = .ok (sortEntriesFast es) := by
    apply VtProofs.PMTiles.decDir_encDir _ _ _ raw hraw
    · intro e he; exact ok.ok e ((sorted_mem es e).1 he)
    · rw [hperm.length_eq]; exact ok.n
  have hw := wf_flat C (sortEntriesFast es) raw 0 (Hilbert.base 32) hdec (sorted_strict es ok.nodup)
    (fun e he => ok.run e ((sorted_mem es e).1 he)) (fun _ _ => Nat.zero_le _)
    (fun e he => ok.ids e ((sorted_mem es e).1 he))
    (fun e he => hin e ((sorted_mem es e).1 he))
  refine ⟨0, raw, by omega, by simp only [Inflate.run, hK], hw.1, ?_⟩
  intro i t
  rw [hw.2 i t, sorted_mem]

/-! ### the whole file -/

open VtProofs.VersatilesWrite (StreamOk CellOk cellOk_of_grid nonEmpty slice_mid readRange_of_le i32ok)

/-- what the writer may assume about its source (as for the versatiles writer) -/
structure GoodStream (levels : List BBox) (stream : BBox → List Tile) (tiles : Nat × Nat × Nat → Option Bytes) : Prop where
  levels_ok : ∀ L ∈ levels, BoxOk L
  sorted : levels.Pairwise (fun a b => a.level < b.level)
  stream_ok : ∀ L ∈ levels, ∀ c ∈ grid256 L, StreamOk c (stream c)
  sound : ∀ L ∈ levels, ∀ c ∈ grid256 L, ∀ t ∈ stream c, tiles t.1 = some t.2
  complete : ∀ L ∈ levels, ∀ c ∈ grid256 L, ∀ x y b, c.contains2 x y = true →
    tiles (x, y, c.level) = some b → ((x, y, c.level), b) ∈ stream c
  covered : ∀ x y z b, tiles (x, y, z) = some b → ∃ L ∈ levels, L.level = z ∧ L.contains2 x y = true

theorem cid_lt (t : Tile) (h : ValidT t) : cid t < Hilbert.base 32 := by
  have h1 := VtProofs.Hilbert.enc_lt' t.1.2.2 t.1.1 t.1.2.1
  have h2 : Hilbert.base (t.1.2.2 + 1) ≤ Hilbert.base 32 := VtProofs.Hilbert.base_mono (by have := h.1; omega)
  unfold cid Hilbert.coordToTileId
  rw [VtProofs.Hilbert.base_succ] at h2
  omega

theorem cid_inj (t u : Tile) (ht : ValidT t) (hu : ValidT u) (h : cid t = cid u) : t.1 = u.1 := by
  have := VtProofs.Hilbert.coordToTileId_injective ht.2.1 ht.2.2 hu.2.1 hu.2.2 h
  obtain ⟨⟨tx, ty, tz⟩, tb⟩ := t
  obtain ⟨⟨ux, uy, uz⟩, ub⟩ := u
  simpa using this

theorem slice_in_mid (a b c : Bytes) (o l : Nat) (h : o + l ≤ b.length) :
    slice (a ++ (b ++ c)) ⟨a.length + o, l⟩ = slice b ⟨o, l⟩ := by
  rw [slice_append_right, VtProofs.VersatilesBlock.slice_append_left _ _ _ h]

theorem slice_at (a b c : Bytes) (n : Nat) (h : a.length = n) : slice (a ++ (b ++ c)) ⟨n, b.length⟩ = b := by
  subst h; exact slice_mid a b c

theorem slice_in_at (a b c : Bytes) (n o l : Nat) (h : a.length = n) (hol : o + l ≤ b.length) :
    slice (a ++ (b ++ c)) ⟨n + o, l⟩ = slice b ⟨o, l⟩ := by
  subst h; exact slice_in_mid a b c o l hol

/-- tiles of one cell are valid coordinates -/
theorem validT_of_stream {c : BBox} (hc : CellOk c) {ts : List Tile} (hs : StreamOk c ts) : ∀ t ∈ ts, ValidT t := by
  intro t ht
  have ⟨h1, h2⟩ := hs.inside t ht
  rw [contains2_iff] at h1
  have := hc.xm; have := hc.ym; have := hc.lvl
  exact ⟨by omega, by rw [h2]; omega, by rw [h2]; omega⟩

/-- coordinates are pairwise different over all cells of the pyramid -/
theorem all_nodup {levels : List BBox} {stream : BBox → List Tile} {tiles} (gs : GoodStream levels stream tiles) :
    (((levels.flatMap grid256).flatMap stream).map (·.1)).Nodup := by
  rw [List.map_flatMap, List.nodup_iff_pairwise_ne, List.pairwise_flatMap]
  constructor
  · intro c hc
    rw [List.mem_flatMap] at hc
    obtain ⟨L, hL, hcL⟩ := hc
    have := (gs.stream_ok L hL c hcL).nodup
    rw [List.nodup_iff_pairwise_ne] at this
    exact this
  · have hp := cells_pairwise gs.levels_ok gs.sorted
    apply List.Pairwise.imp_of_mem _ hp
    intro c d hc hd hk x hx y hy hxy
    rw [List.mem_flatMap] at hc hd
    obtain ⟨L1, hL1, hc1⟩ := hc
    obtain ⟨L2, hL2, hd2⟩ := hd
    rw [List.mem_map] at hx hy
    obtain ⟨t, ht, rfl⟩ := hx
    obtain ⟨u, hu, rfl⟩ := hy
    have ⟨a1, a2⟩ := (gs.stream_ok L1 hL1 c hc1).inside t ht
    have ⟨b1, b2⟩ := (gs.stream_ok L2 hL2 d hd2).inside u hu
    have ⟨p1, p2, _⟩ := tile_in_cell (gs.levels_ok L1 hL1) hc1 a1
    have ⟨q1, q2, _⟩ := tile_in_cell (gs.levels_ok L2 hL2) hd2 b1
    apply hk
    simp only [key]
    obtain ⟨⟨tx, ty, tz⟩, tb⟩ := t
    obtain ⟨⟨ux, uy, uz⟩, ub⟩ := u
    simp only at hxy a2 b2 p1 p2 q1 q2
    injection hxy with e1 e2
    injection e2 with e2 e3
    subst e1 e2 e3
    rw [← p1, ← p2, ← q1, ← q2, ← a2, ← b2]

theorem compOfCode_compCode (c : TComp) : compOfCode (compCode c) = .ok c := by cases c <;> rfl
theorem compCode_le (c : TComp) : compCode c ≤ 4 := by cases c <;> decide
theorem typeCode_le (f : TileFormat) : typeCode f ≤ 5 := by cases f <;> decide

/-- the directory provider: what `as_directory` must deliver for the collected entries (discharged by
    `dirSpec_small` for root-only directories and by `dirSpec_leaves` for the root/leaf split) -/
def DirProvider (K : Inflate) (enc : Bytes → Bytes) : Prop :=
  ∀ (C : Ctx) (es : List Entry) (root leaves : Bytes), EntriesOk es → InFile C es → C.K = K → C.ic = .gzip →
    C.leaves = leaves → C.file.length < U64 → leaves.length ≤ C.file.length →
    asDirectory enc (16384 - 127) es = .ok (root, leaves) →
    root.length ≤ 16384 - 127 ∧ DirSpec C root es

/-- **the written file is valid** (`ValidPMTiles`) for the source's map of non-empty tiles -/
theorem write_valid (K : Inflate) (enc : Bytes → Bytes) (s : Source) (tiles : Nat × Nat × Nat → Option Bytes)
    (gs : GoodStream s.levels s.stream tiles)
    (hmeta : ∃ raw, K.run .gzip s.metaB = .ok raw)
    (hcz : s.cz < 256)
    (hgeo : i32ok s.minlon ∧ i32ok s.minlat ∧ i32ok s.maxlon ∧ i32ok s.maxlat ∧ i32ok s.clon ∧ i32ok s.clat)
    (hcount : ((s.levels.flatMap grid256).flatMap s.stream).length ≤ 10000000000)
    (file : Bytes) (hw : write enc s = .ok file) (hsize : file.length < U64)
    (hdir : DirProvider K enc) :
    ValidPMTiles K file (fmtOfType (typeCode s.fmt)) s.comp (fun p => nonEmpty (tiles p)) := by
  -- the blocks are a permutation of the grid cells
  have hperm : ((s.levels.flatMap grid256).mergeSort (fun a b => decide (blockKey a ≤ blockKey b))).Perm
      (s.levels.flatMap grid256) := List.mergeSort_perm _ _
  generalize hblocks : (s.levels.flatMap grid256).mergeSort (fun a b => decide (blockKey a ≤ blockKey b)) = blocks at hperm
  have hcellOf : ∀ c ∈ blocks, ∃ L ∈ s.levels, c ∈ grid256 L := by
    intro c hc
    have := hperm.mem_iff.1 hc
    rw [List.mem_flatMap] at this
    exact this
  have hallPerm : (blocks.flatMap s.stream).Perm ((s.levels.flatMap grid256).flatMap s.stream) :=
    hperm.flatMap_right _
  have hvalid : ∀ t ∈ blocks.flatMap s.stream, ValidT t := by
    intro t ht
    rw [List.mem_flatMap] at ht
    obtain ⟨c, hc, htc⟩ := ht
    obtain ⟨L, hL, hcL⟩ := hcellOf c hc
    exact validT_of_stream (cellOk_of_grid (gs.levels_ok L hL) hcL) (gs.stream_ok L hL c hcL) t htc
  obtain ⟨es, data, hput, hids, hst1, hst2⟩ := putTiles_spec (blocks.flatMap s.stream) 0 hvalid
  unfold write at hw
  simp only [hblocks] at hw
  split at hw
  · cases hw
  split at hw
  · cases hw
  · rw [hput] at hw
    simp only at hw
    cases hdirres : asDirectory enc (16384 - 127) es with
    | err => rw [hdirres] at hw; simp at hw
    | panic => rw [hdirres] at hw; simp at hw
    | ok p =>
      obtain ⟨root, leaves⟩ := p
      rw [hdirres] at hw
      simp only at hw
      injection hw with hfile
      generalize hhd : mkHeader s root.length leaves.length data.length es.length = hd at hfile
      have hl127 : (encHeader hd).length = 127 := VtProofs.PMTiles.length_encHeader hd
      have hlen_es : es.length = (blocks.flatMap s.stream).length := by
        have := congrArg List.length hids
        simpa using this
      have hnodup : (es.map (·.id)).Nodup := by
        rw [hids]
        have h1 : ((blocks.flatMap s.stream).map (·.1)).Nodup :=
          (hallPerm.map _).nodup_iff.2 (all_nodup gs)
        rw [List.nodup_iff_pairwise_ne, List.pairwise_map] at h1 ⊢
        apply List.Pairwise.imp_of_mem _ h1
        intro a b ha hb hne heq
        exact hne (cid_inj a b (hvalid a ha) (hvalid b hb) heq)
      have hb32 := VtProofs.Hilbert.base32_lt
      -- sizes of the pieces inside the file (valid for every outcome of the positional writes)
      have hfl : data.length ≤ file.length ∧ leaves.length ≤ file.length := by
        rw [← hfile]
        generalize hf1 : writeAt [] 16384 s.metaB = f1
        generalize hf2 : writeAt f1 (16384 + s.metaB.length) data = f2
        generalize hf3 : writeAt f2 127 root = f3
        generalize hf4 : writeAt f3 (16384 + s.metaB.length + data.length) leaves = f4
        have l2 := length_writeAt f1 (16384 + s.metaB.length) data
        have l3 := length_writeAt f2 127 root
        have l4 := length_writeAt f3 (16384 + s.metaB.length + data.length) leaves
        have l5 := length_writeAt f4 0 (encHeader hd)
        rw [hf2] at l2; rw [hf3] at l3; rw [hf4] at l4
        omega
      have hesok : EntriesOk es := by
        refine ⟨?_, ?_, ?_, hnodup, ?_⟩
        · intro e he; obtain ⟨t, _, hs⟩ := hst1 e he; exact hs.2.1
        · intro e he
          obtain ⟨t, ht, a1, a2, a3, a4, a5, a6⟩ := hst1 e he
          have := cid_lt t (hvalid t ht)
          exact ⟨by rw [a1]; unfold U64; omega, by omega, by rw [a2]; unfold U32; omega⟩
        · intro e he
          obtain ⟨t, ht, a1, _⟩ := hst1 e he
          rw [a1]; exact cid_lt t (hvalid t ht)
        · rw [hlen_es, hallPerm.length_eq]; exact hcount
      -- the directory
      have hin0 : ∀ e ∈ es, e.off + e.len ≤ data.length := by
        intro e he
        obtain ⟨t, _, a1, a2, a3, a4, a5, a6⟩ := hst1 e he
        omega
      have hrootle : root.length ≤ 16384 - 127 := by
        -- the bound does not depend on the context: use a context whose file is long enough
        have := hdir ⟨K, .gzip, leaves, file, 0⟩ es root leaves hesok
          (by intro e he _; have := hin0 e he; simp only; omega) rfl rfl rfl hsize hfl.2 hdirres
        exact this.1
      have hlayout := layout (encHeader hd) root s.metaB data leaves hl127 hrootle
      rw [hlayout] at hfile
      have hpad : (16384 - 127 - root.length) + root.length + 127 = 16384 := by omega
      -- the file as prefix ++ (piece ++ suffix) for each piece
      have hflen : file.length = 16384 + s.metaB.length + data.length + leaves.length := by
        rw [← hfile]
        simp only [List.length_append, List.length_replicate, hl127]
        omega
      let C : Ctx := ⟨K, .gzip, leaves, file, 16384 + s.metaB.length⟩
      have hinfile : InFile C es := by
        intro e he _
        have := hin0 e he
        show e.off + (16384 + s.metaB.length) + e.len ≤ file.length
        omega
      obtain ⟨_, d, rawroot, hd2, hrun, hwf, haddr⟩ := hdir C es root leaves hesok hinfile rfl rfl rfl hsize hfl.2 hdirres
      -- header fields
      have hdroot : hd.root = ⟨127, root.length⟩ := by rw [← hhd]; rfl
      have hdmeta : hd.metaR = ⟨16384, s.metaB.length⟩ := by rw [← hhd]; rfl
      have hdleaf : hd.leaf = ⟨16384 + s.metaB.length + data.length, leaves.length⟩ := by rw [← hhd]; rfl
      have hddata : hd.data = ⟨16384 + s.metaB.length, data.length⟩ := by rw [← hhd]; rfl
      have hdic : hd.icomp = 2 := by rw [← hhd]; rfl
      have hdtc : hd.tcomp = compCode s.comp := by rw [← hhd]; rfl
      have hdtt : hd.ttype = typeCode s.fmt := by rw [← hhd]; rfl
      have hdok : VtProofs.PMTiles.HeaderOk hd := by
        have hU : U64 = 256 ^ 8 := by decide
        have hz1 : (s.levels.head?.map (·.level)).getD 0 < 256 := by
          cases hh : s.levels.head? with
          | none => simp
          | some lo => simp only [Option.map_some, Option.getD_some]; have := (gs.levels_ok lo (List.mem_of_head? hh)).lvl; omega
        have hz2 : (s.levels.getLast?.map (·.level)).getD 14 < 256 := by
          cases hh : s.levels.getLast? with
          | none => simp
          | some hi => simp only [Option.map_some, Option.getD_some]; have := (gs.levels_ok hi (List.mem_of_getLast? hh)).lvl; omega
        have := compCode_le s.comp
        have := typeCode_le s.fmt
        have := hesok.n
        rw [← hhd]
        refine ⟨?_, ?_, ?_, ?_, ?_, ?_, ?_, ?_, ?_, ?_, ?_, ?_, ?_, ?_, ?_, ?_, ?_, hgeo.1, hgeo.2.1, hgeo.2.2.1, hgeo.2.2.2.1,
          hgeo.2.2.2.2.1, hgeo.2.2.2.2.2⟩ <;> simp only [mkHeader] <;> omega
      -- reading the pieces back
      have hrd_hdr : readRange file ⟨0, 127⟩ = .ok (encHeader hd) := by
        rw [readRange_of_le file _ (by simp only; omega) hsize]
        congr 1
        rw [← hfile]
        unfold slice
        simp only [List.drop_zero]
        exact List.take_left' hl127
      have hrd_root : readRange file ⟨127, root.length⟩ = .ok root := by
        rw [readRange_of_le file _ (by simp only; omega) hsize]
        congr 1
        rw [← hfile, ← hl127]
        exact slice_mid _ _ _
      have hrd_meta : readRange file ⟨16384, s.metaB.length⟩ = .ok s.metaB := by
        rw [readRange_of_le file _ (by simp only; omega) hsize]
        congr 1
        have e : file = (encHeader hd ++ root ++ List.replicate (16384 - 127 - root.length) 0) ++ (s.metaB ++ (data ++ leaves)) := by
          rw [← hfile]; simp only [List.append_assoc]
        have el : (encHeader hd ++ root ++ List.replicate (16384 - 127 - root.length) (0 : UInt8)).length = 16384 := by
          simp only [List.length_append, List.length_replicate, hl127]; omega
        rw [e]
        exact slice_at _ _ _ _ el
      have hrd_leaf : readRange file ⟨16384 + s.metaB.length + data.length, leaves.length⟩ = .ok leaves := by
        rw [readRange_of_le file _ (by simp only; omega) hsize]
        congr 1
        have e : file = (encHeader hd ++ root ++ List.replicate (16384 - 127 - root.length) 0 ++ s.metaB ++ data) ++ (leaves ++ []) := by
          rw [← hfile]; simp only [List.append_assoc, List.append_nil]
        have el : (encHeader hd ++ root ++ List.replicate (16384 - 127 - root.length) (0 : UInt8) ++ s.metaB ++ data).length
            = 16384 + s.metaB.length + data.length := by
          simp only [List.length_append, List.length_replicate, hl127]; omega
        rw [e]
        exact slice_at _ _ _ _ el
      have hslice_data : ∀ o l, o + l ≤ data.length → slice file ⟨o + (16384 + s.metaB.length), l⟩ = slice data ⟨o, l⟩ := by
        intro o l hol
        have e : file = (encHeader hd ++ root ++ List.replicate (16384 - 127 - root.length) 0 ++ s.metaB) ++ (data ++ leaves) := by
          rw [← hfile]; simp only [List.append_assoc]
        have el : (encHeader hd ++ root ++ List.replicate (16384 - 127 - root.length) (0 : UInt8) ++ s.metaB).length
            = 16384 + s.metaB.length := by
          simp only [List.length_append, List.length_replicate, hl127]; omega
        rw [e, Nat.add_comm o]
        exact slice_in_at _ _ _ _ o l el hol
      obtain ⟨mraw, hmraw⟩ := hmeta
      refine ⟨hsize, hd, .gzip, rawroot, leaves, d, ⟨encHeader hd, hrd_hdr, VtProofs.PMTiles.decHeader_encHeader hd hdok⟩,
        by rw [hdic]; rfl, ⟨s.metaB, mraw, by rw [hdmeta]; exact hrd_meta, hmraw⟩,
        ⟨root, by rw [hdroot]; exact hrd_root, hrun⟩, by rw [hdleaf]; exact hrd_leaf,
        by rw [hdtc]; exact compOfCode_compCode s.comp, by rw [hdtt], hd2, by rw [hddata]; exact hwf, ?_⟩
      -- the stored tiles are exactly the non-empty source tiles
      intro x y z blob hz hx hy
      rw [hddata]
      show nonEmpty (tiles (x, y, z)) = some blob ↔ _
      constructor
      · intro hm
        simp only [nonEmpty] at hm
        cases ht : tiles (x, y, z) with
        | none => rw [ht] at hm; simp at hm
        | some b0 =>
          rw [ht] at hm
          simp only at hm
          by_cases hb0 : b0 = []
          · simp [hb0] at hm
          · simp only [hb0, if_false] at hm
            injection hm with hm
            subst hm
            obtain ⟨L, hL, hLz, hLc⟩ := gs.covered x y z b0 ht
            have hLok := gs.levels_ok L hL
            have ⟨hcg, hcc⟩ := cell_of_tile hLok hLc
            generalize hcdef : cell L (x / 256) (y / 256) = c at hcg hcc
            have hclevel : c.level = z := by rw [key_level hcg]; exact hLz
            have htin : ((x, y, z), b0) ∈ s.stream c := by
              have := gs.complete L hL c hcg x y b0 hcc (by rw [hclevel]; exact ht)
              rw [hclevel] at this; exact this
            have hcb : c ∈ blocks := hperm.mem_iff.2 (List.mem_flatMap.2 ⟨L, hL, hcg⟩)
            have hall : ((x, y, z), b0) ∈ blocks.flatMap s.stream := List.mem_flatMap.2 ⟨c, hcb, htin⟩
            obtain ⟨e, he, a1, a2, a3, a4, a5, a6⟩ := hst2 _ hall
            refine ⟨e, (haddr _ e).2 ⟨he, a1⟩, ?_, ?_⟩
            · rw [a3]
              cases b0 with
              | nil => exact absurd rfl hb0
              | cons _ _ => simp
            · simp only [Nat.sub_zero] at a5 a6
              rw [hslice_data e.off e.len a5, a6]
      · rintro ⟨t, hat, hl, hblob⟩
        obtain ⟨hte, htid⟩ := (haddr _ t).1 hat
        obtain ⟨u, hu, a1, a2, a3, a4, a5, a6⟩ := hst1 t hte
        simp only [Nat.sub_zero] at a5 a6
        have hvu := hvalid u hu
        have hcoord : u.1 = (x, y, z) := by
          have hvx : ValidT (((x, y, z), blob) : Tile) := ⟨by show z < 32; omega, hx, hy⟩
          have := cid_inj u ((x, y, z), blob) hvu hvx (by rw [← a1, htid]; rfl)
          exact this
        rw [List.mem_flatMap] at hu
        obtain ⟨c, hcb, huc⟩ := hu
        obtain ⟨L, hL, hcL⟩ := hcellOf c hcb
        have hsrc := gs.sound L hL c hcL u huc
        rw [hcoord] at hsrc
        have hbl : blob = u.2 := by
          rw [hblob, hslice_data t.off t.len a5, a6]
        simp only [hsrc, nonEmpty]
        have hne : ¬ (u.2 = []) := by
          intro e0
          rw [e0] at a3
          simp at a3
          omega
        simp only [hne, if_false, hbl]

/-! ### `as_directory`: the two outcomes -/

theorem go_spec (enc : Bytes → Bytes) (target : Nat) (es : List Entry) : ∀ (sizes : List Nat) (root leaves : Bytes),
    asDirectory.go enc target es sizes = .ok (root, leaves) →
    root.length ≤ target ∧ ∃ ls, buildRootsLeaves enc ls es = .ok (root, leaves) := by
  intro sizes
  induction sizes with
  | nil => intro root leaves h; simp [asDirectory.go] at h
  | cons ls rest ih =>
    intro root leaves h
    unfold asDirectory.go at h
    cases hb : buildRootsLeaves enc ls es with
    | ok p =>
      obtain ⟨r, l⟩ := p
      rw [hb] at h
      simp only at h
      by_cases hr : r.length ≤ target
      · simp only [hr, if_true] at h
        injection h with h
        injection h with h1 h2
        subst h1 h2
        exact ⟨hr, ls, hb⟩
      · simp only [hr, if_false] at h
        exact ih root leaves h
    | err => rw [hb] at h; simp at h
    | panic => rw [hb] at h; simp at h

theorem asDirectory_cases (enc : Bytes → Bytes) (target : Nat) (l : List Entry) (root leaves : Bytes)
    (h : asDirectory enc target l = .ok (root, leaves)) :
    root.length ≤ target ∧
      ((∃ raw, encDir (sortEntriesFast l) = .ok raw ∧ root = enc raw ∧ leaves = []) ∨
       (∃ ls, buildRootsLeaves enc ls (sortEntriesFast l) = .ok (root, leaves))) := by
  unfold asDirectory at h
  simp only at h
  by_cases hn : (sortEntriesFast l).length < 16384
  · simp only [hn, if_true] at h
    cases he : encDir (sortEntriesFast l) with
    | ok raw =>
      rw [he] at h
      simp only at h
      by_cases hr : (enc raw).length ≤ target
      · simp only [hr, if_true] at h
        injection h with h
        injection h with h1 h2
        exact ⟨by rw [← h1]; exact hr, Or.inl ⟨raw, rfl, h1.symm, h2.symm⟩⟩
      · simp only [hr, if_false] at h
        have := go_spec enc target _ _ root leaves h
        exact ⟨this.1, Or.inr this.2⟩
    | err => rw [he] at h; simp at h
    | panic => rw [he] at h; simp at h
  · simp only [hn, if_false] at h
    have := go_spec enc target _ _ root leaves h
    exact ⟨this.1, Or.inr this.2⟩

/-! ### the root / leaf split -/

/-- flat tile entries (what a leaf directory holds) -/
structure Flat (es : List Entry) (hi : Nat) : Prop where
  sorted : es.Pairwise (fun a b => a.id < b.id)
  run : ∀ e ∈ es, e.run = 1
  ok : ∀ e ∈ es, VtProofs.PMTiles.EntryOk e
  hi : ∀ e ∈ es, e.id < hi
  n : es.length ≤ 10000000000

theorem Flat.sub {es es' : List Entry} {hi : Nat} (f : Flat es hi) (hs : es'.Sublist es) : Flat es' hi :=
  ⟨f.sorted.sublist hs, fun e he => f.run e (hs.subset he), fun e he => f.ok e (hs.subset he),
   fun e he => f.hi e (hs.subset he), by have := hs.length_le; have := f.n; omega⟩

/-- result of `build_roots_leaves`' loop for the entries `es`, seen inside the leaf section -/
structure LeavesSpec (C : Ctx) (es roots : List Entry) (hi : Nat) : Prop where
  sorted : roots.Pairwise (fun a b => a.id < b.id)
  each : ∀ r ∈ roots, r.run = 0 ∧ r.len > 0 ∧ VtProofs.PMTiles.EntryOk r ∧ r.id < hi ∧ ∃ x ∈ es, r.id = x.id
  len : roots.length ≤ es.length
  leaf : ∀ (k : Nat) (hk : k < roots.length), ∃ raw', LeafOf C (roots[k]'hk) raw' ∧
    WFDir C 0 (roots[k]'hk).id (nextId roots k hi) raw' ∧ ∀ i t, Addr C 0 raw' i t → (t ∈ es ∧ t.id = i)
  cover : ∀ t ∈ es, ∃ r ∈ roots, ∃ raw', LeafOf C r raw' ∧ Addr C 0 raw' t.id t

theorem nextId_cons (r : Entry) (roots : List Entry) (k hi : Nat) : nextId (r :: roots) (k + 1) hi = nextId roots k hi := by
  unfold nextId
  simp

theorem buildLeaves_spec (enc : Bytes → Bytes) (ls : Nat) (hls : 0 < ls) (C : Ctx) (hic : C.ic = .gzip)
    (hK : ∀ b, C.K.gzip (enc b) = some b) (henc : ∀ b, enc b ≠ []) (hsz : C.leaves.length < U64) (hi : Nat) :
    ∀ (fuel : Nat) (es : List Entry) (pos : Nat) (roots : List Entry) (bytes : Bytes),
      es.length < fuel → Flat es hi → InFile C es →
      buildLeaves enc ls fuel es pos = .ok (roots, bytes) →
      ∀ (pre suf : Bytes), C.leaves = pre ++ (bytes ++ suf) → pre.length = pos → LeavesSpec C es roots hi := by
  intro fuel
  induction fuel with
  | zero => intro es pos roots bytes h; omega
  | succ fuel ih =>
    intro es pos roots bytes hlen hflat hin hb pre suf hleaves hpre
    unfold buildLeaves at hb
    cases es with
    | nil =>
      simp only at hb
      injection hb with hb
      injection hb with h1 h2
      subst h1 h2
      exact ⟨List.Pairwise.nil, by simp, by simp, by intro k hk; simp at hk, by simp⟩
    | cons e tl =>
      simp only at hb
      cases hraw : encDir ((e :: tl).take ls) with
      | err => rw [hraw] at hb; simp at hb
      | panic => rw [hraw] at hb; simp at hb
      | ok raw =>
        rw [hraw] at hb
        simp only at hb
        cases hrec : buildLeaves enc ls fuel ((e :: tl).drop ls) (pos + (enc raw).length) with
        | err => rw [hrec] at hb; simp at hb
        | panic => rw [hrec] at hb; simp at hb
        | ok p =>
          obtain ⟨roots', bytes'⟩ := p
          rw [hrec] at hb
          simp only at hb
          injection hb with hb
          injection hb with h1 h2
          subst h1 h2
          -- chunk and rest
          generalize hchunk : (e :: tl).take ls = chunk at hraw
          generalize hrest : (e :: tl).drop ls = rest at hrec
          have hsplit : chunk ++ rest = e :: tl := by rw [← hchunk, ← hrest]; exact List.take_append_drop _ _
          have hsubc : chunk.Sublist (e :: tl) := by rw [← hchunk]; exact List.take_sublist _ _
          have hsubr : rest.Sublist (e :: tl) := by rw [← hrest]; exact List.drop_sublist _ _
          have hechunk : e ∈ chunk := by
            rw [← hchunk]
            cases ls with
            | zero => omega
            | succ n => simp
          have hrestlen : rest.length < fuel := by
            rw [← hrest, List.length_drop]
            simp only [List.length_cons] at hlen ⊢
            omega
          have hsorted := hflat.sorted
          rw [← hsplit, List.pairwise_append] at hsorted
          obtain ⟨hsc, hsr, hcross⟩ := hsorted
          -- everything in the chunk is ≥ e
          have hge : ∀ x ∈ chunk, e.id ≤ x.id := by
            intro x hx
            have hp := hflat.sorted
            rw [List.pairwise_cons] at hp
            have : x ∈ e :: tl := hsubc.subset hx
            cases this with
            | head => exact Nat.le_refl _
            | tail _ h => exact Nat.le_of_lt (hp.1 x h)
          have hleaves' : C.leaves = (pre ++ enc raw) ++ (bytes' ++ suf) := by
            rw [hleaves]; simp only [List.append_assoc]
          have ihr := ih rest (pos + (enc raw).length) roots' bytes' hrestlen (hflat.sub hsubr)
            (fun x hx => hin x (hsubr.subset hx)) hrec (pre ++ enc raw) suf hleaves' (by simp [hpre])
          -- the first leaf
          have hdec : decDir raw = .ok chunk := by
            apply VtProofs.PMTiles.decDir_encDir chunk _ _ raw hraw
            · intro x hx; exact hflat.ok x (hsubc.subset hx)
            · have := hsubc.length_le; have := hflat.n; omega
          have hser : (enc raw).length > 0 := by
            have := henc raw
            cases h : enc raw with
            | nil => exact absurd h this
            | cons _ _ => simp
          have hleaf0 : LeafOf C ⟨e.id, pos, (enc raw).length, 0⟩ raw := by
            refine ⟨enc raw, ?_, by rw [hic]; simp only [Inflate.run, hK]⟩
            have hle : pos + (enc raw).length ≤ C.leaves.length := by
              rw [hleaves]; simp only [List.length_append]; omega
            rw [readRange_of_le C.leaves _ (by simpa using hle) hsz]
            congr 1
            have : C.leaves = pre ++ (enc raw ++ (bytes' ++ suf)) := by
              rw [hleaves]; simp only [List.append_assoc]
            rw [this]
            exact slice_at _ _ _ _ hpre
          -- upper bound of the first leaf: the next root's id (or `hi`)
          have hnext : ∀ x ∈ chunk, x.id < nextId (⟨e.id, pos, (enc raw).length, 0⟩ :: roots') 0 hi := by
            intro x hx
            unfold nextId
            cases hr : roots' with
            | nil => simp; exact hflat.hi x (hsubc.subset hx)
            | cons r rs =>
              simp only [List.getElem?_cons_succ, List.getElem?_cons_zero]
              obtain ⟨_, _, _, _, y, hy, hry⟩ := ihr.each r (by rw [hr]; simp)
              rw [hry]
              exact hcross x hx y hy
          have hw0 := wf_flat C chunk raw e.id (nextId (⟨e.id, pos, (enc raw).length, 0⟩ :: roots') 0 hi) hdec hsc
            (fun x hx => hflat.run x (hsubc.subset hx)) hge hnext (fun x hx => hin x (hsubc.subset hx))
          refine ⟨?_, ?_, ?_, ?_, ?_⟩
          · rw [List.pairwise_cons]
            refine ⟨?_, ihr.sorted⟩
            intro r hr
            obtain ⟨_, _, _, _, y, hy, hry⟩ := ihr.each r hr
            show e.id < r.id
            rw [hry]
            exact hcross e hechunk y hy
          · intro r hr
            cases hr with
            | head =>
              refine ⟨rfl, hser, ⟨?_, ?_, by unfold U32; simp⟩, hflat.hi e (by simp), e, by simp, rfl⟩
              · exact (hflat.ok e (by simp)).1
              · have : pos + (enc raw).length ≤ C.leaves.length := by
                  rw [hleaves]; simp only [List.length_append]; omega
                show (enc raw).length < U64
                omega
            | tail _ hr =>
              obtain ⟨a1, a2, a3, a4, y, hy, hry⟩ := ihr.each r hr
              exact ⟨a1, a2, a3, a4, y, hsubr.subset hy, hry⟩
          · have := ihr.len
            have h1 : rest.length + 1 ≤ (e :: tl).length := by
              rw [← hrest, List.length_drop]; simp only [List.length_cons]; omega
            simp only [List.length_cons] at h1 ⊢
            omega
          · intro k hk
            cases k with
            | zero =>
              refine ⟨raw, hleaf0, hw0.1, ?_⟩
              intro i t ha
              have := (hw0.2 i t).1 ha
              exact ⟨hsubc.subset this.1, this.2⟩
            | succ k =>
              obtain ⟨raw', hl, hw, ha⟩ := ihr.leaf k (by simpa using hk)
              refine ⟨raw', by simpa using hl, ?_, ?_⟩
              · rw [nextId_cons]; simpa using hw
              · intro i t hat
                have := ha i t hat
                exact ⟨hsubr.subset this.1, this.2⟩
          · intro t ht
            rw [← hsplit, List.mem_append] at ht
            rcases ht with ht | ht
            · exact ⟨_, by simp, raw, hleaf0, (hw0.2 t.id t).2 ⟨ht, rfl⟩⟩
            · obtain ⟨r, hr, raw', hl, ha⟩ := ihr.cover t ht
              exact ⟨r, by simp [hr], raw', hl, ha⟩

/-- the root / leaf split (`Case3` of `as_directory`) -/
theorem dirSpec_leaves (C : Ctx) (hic : C.ic = .gzip) (enc : Bytes → Bytes) (hK : ∀ b, C.K.gzip (enc b) = some b)
    (henc : ∀ b, enc b ≠ []) (hsz : C.leaves.length < U64)
    (es : List Entry) (ok : EntriesOk es) (hin : InFile C es) (ls : Nat) (root : Bytes)
    (h : buildRootsLeaves enc ls (sortEntriesFast es) = .ok (root, C.leaves)) : DirSpec C root es := by
  unfold buildRootsLeaves at h
  by_cases hls : ls = 0
  · simp [hls] at h
  · simp only [hls, if_false] at h
    cases hb : buildLeaves enc ls ((sortEntriesFast es).length + 1) (sortEntriesFast es) 0 with
    | err => rw [hb] at h; simp at h
    | panic => rw [hb] at h; simp at h
    | ok p =>
      obtain ⟨roots, lv⟩ := p
      rw [hb] at h
      simp only at h
      cases hr : encDir roots with
      | err => rw [hr] at h; simp at h
      | panic => rw [hr] at h; simp at h
      | ok r =>
        rw [hr] at h
        simp only at h
        injection h with h
        injection h with h1 h2
        subst h1
        have hflat : Flat (sortEntriesFast es) (Hilbert.base 32) :=
          ⟨sorted_strict es ok.nodup, fun e he => ok.run e ((sorted_mem es e).1 he),
           fun e he => ok.ok e ((sorted_mem es e).1 he), fun e he => ok.ids e ((sorted_mem es e).1 he),
           by rw [(sorted_perm es).length_eq]; exact ok.n⟩
        have hspec := buildLeaves_spec enc ls (by omega) C hic hK henc hsz (Hilbert.base 32) _ _ 0 roots lv
          (Nat.lt_succ_self _) hflat (fun e he => hin e ((sorted_mem es e).1 he)) hb [] []
          (by rw [← h2]; simp) rfl
        have hdec : decDir r = .ok roots := by
          apply VtProofs.PMTiles.decDir_encDir roots _ _ r hr
          · intro x hx; exact (hspec.each x hx).2.2.1
          · have := hspec.len; have := hflat.n; omega
        refine ⟨1, r, by omega, by simp only [Inflate.run, hK], ?_, ?_⟩
        · refine ⟨roots, hdec, hspec.sorted, ?_⟩
          intro k hk
          have hm := List.getElem_mem hk
          obtain ⟨a1, a2, a3, a4, _⟩ := hspec.each _ hm
          refine ⟨Nat.zero_le _, a4, ?_, ?_⟩
          · intro hpos; omega
          · intro _ _
            obtain ⟨raw', hl, hw, _⟩ := hspec.leaf k hk
            exact ⟨raw', hl, hw⟩
        · intro i t
          constructor
          · rintro ⟨es', hdec', hor⟩
            rw [hdec] at hdec'; injection hdec' with e0; subst e0
            rcases hor with ⟨hmem, hrun, _, _⟩ | ⟨e, hmem, hrun, hlen, raw', hleaf, haddr⟩
            · have := (hspec.each t hmem).1; omega
            · obtain ⟨k, hk, rfl⟩ := List.getElem_of_mem hmem
              obtain ⟨raw'', hl, _, ha⟩ := hspec.leaf k hk
              have := LeafOf.unique hleaf hl
              subst this
              have := ha i t haddr
              exact ⟨(sorted_mem es t).1 this.1, this.2⟩
          · rintro ⟨hmem, rfl⟩
            obtain ⟨rr, hrr, raw', hl, ha⟩ := hspec.cover t ((sorted_mem es t).2 hmem)
            obtain ⟨a1, a2, _⟩ := hspec.each rr hrr
            exact ⟨roots, hdec, Or.inr ⟨rr, hrr, a1, a2, raw', hl, ha⟩⟩

/-- `as_directory` delivers what the reader needs, for both outcomes -/
theorem dirProvider (K : Inflate) (enc : Bytes → Bytes) (hK : ∀ b, K.gzip (enc b) = some b) (hnil : K.gzip [] = none) :
    DirProvider K enc := by
  intro C es root leaves hes hin hCK hic hlv hsize hll hres
  have henc : ∀ b, enc b ≠ [] := by
    intro b e
    have := hK b
    rw [e, hnil] at this
    cases this
  have hK' : ∀ b, C.K.gzip (enc b) = some b := by rw [hCK]; exact hK
  obtain ⟨hle, hcase⟩ := asDirectory_cases enc _ es root leaves hres
  refine ⟨hle, ?_⟩
  rcases hcase with ⟨raw, hraw, hroot, _⟩ | ⟨ls, hb⟩
  · rw [hroot]
    exact dirSpec_small C hic enc hK' es hes hin raw hraw
  · rw [← hlv] at hb
    exact dirSpec_leaves C hic enc hK' henc (by rw [hlv]; omega) es hes hin ls root hb

/-- **C01 (PMTiles)**: the written file is valid for the source's map — root-only and root/leaf
    directories alike -/
theorem write_valid_full (K : Inflate) (enc : Bytes → Bytes) (s : Source) (tiles : Nat × Nat × Nat → Option Bytes)
    (gs : GoodStream s.levels s.stream tiles)
    (hK : ∀ b, K.gzip (enc b) = some b) (hnil : K.gzip [] = none)
    (hmeta : ∃ raw, K.run .gzip s.metaB = .ok raw) (hcz : s.cz < 256)
    (hgeo : i32ok s.minlon ∧ i32ok s.minlat ∧ i32ok s.maxlon ∧ i32ok s.maxlat ∧ i32ok s.clon ∧ i32ok s.clat)
    (hcount : ((s.levels.flatMap grid256).flatMap s.stream).length ≤ 10000000000)
    (file : Bytes) (hw : write enc s = .ok file) (hsize : file.length < U64) :
    ValidPMTiles K file (fmtOfType (typeCode s.fmt)) s.comp (fun p => nonEmpty (tiles p)) :=
  write_valid K enc s tiles gs hmeta hcz hgeo hcount file hw hsize (dirProvider K enc hK hnil)

/-! ### the root-directory budget -/

/-- whatever `as_directory(16384 - 127, …)` returns fits between the header and the metadata -/
theorem root_within_budget (enc : Bytes → Bytes) (es : List Entry) (root leaves : Bytes)
    (h : asDirectory enc (16384 - 127) es = .ok (root, leaves)) : 127 + root.length ≤ 16384 := by
  have := (asDirectory_cases enc _ es root leaves h).1
  omega

/-- **the obligation behind the budget 16257 = 16384 − 127**: a root directory of at most 16257 bytes written
    at offset 127 does not reach offset 16384 — after all positional writes the metadata, the root
    directory, the tile data and the leaf directories are all intact -/
theorem root_does_not_reach_metadata (hdr root mta data leaves : Bytes) (hh : hdr.length = 127)
    (hr : root.length ≤ 16384 - 127) :
    let file := writeAt (writeAt (writeAt (writeAt (writeAt [] 16384 mta) (16384 + mta.length) data) 127 root)
      (16384 + mta.length + data.length) leaves) 0 hdr
    slice file ⟨127, root.length⟩ = root ∧ slice file ⟨16384, mta.length⟩ = mta ∧
    slice file ⟨16384 + mta.length, data.length⟩ = data ∧
    slice file ⟨16384 + mta.length + data.length, leaves.length⟩ = leaves := by
  intro file
  have hfile : file = hdr ++ (root ++ (List.replicate (16384 - 127 - root.length) 0 ++ (mta ++ (data ++ leaves)))) :=
    layout hdr root mta data leaves hh hr
  refine ⟨?_, ?_, ?_, ?_⟩
  · rw [hfile, ← hh]; exact slice_mid _ _ _
  · have e : file = (hdr ++ root ++ List.replicate (16384 - 127 - root.length) 0) ++ (mta ++ (data ++ leaves)) := by
      rw [hfile]; simp only [List.append_assoc]
    rw [e]
    exact slice_at _ _ _ _ (by simp only [List.length_append, List.length_replicate, hh]; omega)
  · have e : file = (hdr ++ root ++ List.replicate (16384 - 127 - root.length) 0 ++ mta) ++ (data ++ leaves) := by
      rw [hfile]; simp only [List.append_assoc]
    rw [e]
    exact slice_at _ _ _ _ (by simp only [List.length_append, List.length_replicate, hh]; omega)
  · have e : file = (hdr ++ root ++ List.replicate (16384 - 127 - root.length) 0 ++ mta ++ data) ++ (leaves ++ []) := by
      rw [hfile]; simp only [List.append_assoc, List.append_nil]
    rw [e]
    exact slice_at _ _ _ _ (by simp only [List.length_append, List.length_replicate, hh]; omega)

/-- the budget is tight (small-number instance of the same positional writes: header 2 bytes, metadata at
    5, i.e. a budget of 3): a 4-byte root overwrites the first metadata byte -/
example : (writeAt (writeAt (writeAt [] 5 [9, 9]) 7 [7]) 2 [1, 1, 1, 1])[5]? = some 1 := by decide

end VtProofs.PMTilesWrite
