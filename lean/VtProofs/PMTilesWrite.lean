import VtModel.PMTiles
import VtProofs.PMTiles
import VtProofs.PMTilesRead
import VtProofs.VersatilesGrid
import VtProofs.VersatilesWrite
/-!
The PMTiles writer: tile data section and entries (`putTiles`), sorting, the file layout produced by
the positional writes, and validity of the written file (`ValidPMTiles`) for the source's tile map.
-/
namespace VtProofs.PMTilesWrite
open VtModel VtModel.Fmt VtModel.PMTiles
open VtProofs.PMTilesRead VtProofs.VersatilesGrid

/-! ### tile data section -/

theorem slice_append_right (a b : Bytes) (o l : Nat) : slice (a ++ b) ⟨a.length + o, l⟩ = slice b ⟨o, l⟩ := by
  unfold slice
  simp only
  rw [List.drop_append]
  have h1 : List.drop (a.length + o) a = [] := by
    apply List.drop_eq_nil_of_le; omega
  have h2 : a.length + o - a.length = o := by omega
  rw [h1, h2, List.nil_append]

/-- tile id of a streamed tile (specification form) -/
def cid (t : Tile) : Nat := Hilbert.coordToTileId t.1.1 t.1.2.1 t.1.2.2

/-- valid coordinate -/
def ValidT (t : Tile) : Prop := t.1.2.2 < 32 ∧ t.1.1 < 2 ^ t.1.2.2 ∧ t.1.2.1 < 2 ^ t.1.2.2

/-- entry `e` stores tile `t` in the data section `data` that starts at relative position `pos` -/
def Stores (pos : Nat) (data : Bytes) (e : Entry) (t : Tile) : Prop :=
  e.id = cid t ∧ e.run = 1 ∧ e.len = t.2.length ∧ pos ≤ e.off ∧ e.off - pos + e.len ≤ data.length ∧
    slice data ⟨e.off - pos, e.len⟩ = t.2

theorem putTiles_spec : ∀ (ts : List Tile) (pos : Nat), (∀ t ∈ ts, ValidT t) →
    ∃ es data, putTiles pos ts = .ok (es, data) ∧ es.map (·.id) = ts.map cid ∧
      (∀ e ∈ es, ∃ t ∈ ts, Stores pos data e t) ∧ (∀ t ∈ ts, ∃ e ∈ es, Stores pos data e t) := by
  intro ts
  induction ts with
  | nil => intro pos _; exact ⟨[], [], rfl, rfl, by simp, by simp⟩
  | cons t ts ih =>
    intro pos hv
    have ⟨hz, hx, hy⟩ := hv t (by simp)
    obtain ⟨es, data, h1, h2, h3, h4⟩ := ih (pos + t.2.length) (fun u hu => hv u (by simp [hu]))
    have hid := VtProofs.Hilbert.coordToTileIdLoop_eq hz hx hy
    have hlift : ∀ e u, Stores (pos + t.2.length) data e u → Stores pos (t.2 ++ data) e u := by
      intro e u ⟨a1, a2, a3, a4, a5, a6⟩
      refine ⟨a1, a2, a3, by omega, by simp only [List.length_append]; omega, ?_⟩
      have : e.off - pos = t.2.length + (e.off - (pos + t.2.length)) := by omega
      rw [this, slice_append_right]; exact a6
    have hthis : Stores pos (t.2 ++ data) ⟨cid t, pos, t.2.length, 1⟩ t := by
      refine ⟨rfl, rfl, rfl, Nat.le_refl _, by simp, ?_⟩
      simp only [Nat.sub_self]
      have := VtProofs.VersatilesBlock.slice_append_left t.2 data ⟨0, t.2.length⟩ (by simp)
      rw [this]; unfold slice; simp
    refine ⟨⟨cid t, pos, t.2.length, 1⟩ :: es, t.2 ++ data, ?_, ?_, ?_, ?_⟩
    · unfold putTiles
      simp only [hid, h1]
      rfl
    · simp only [List.map_cons, h2]
    · intro e he
      cases he with
      | head => exact ⟨t, by simp, hthis⟩
      | tail _ he =>
        obtain ⟨u, hu, hs⟩ := h3 e he
        exact ⟨u, by simp [hu], hlift e u hs⟩
    · intro u hu
      cases hu with
      | head => exact ⟨_, by simp, hthis⟩
      | tail _ hu =>
        obtain ⟨e, he, hs⟩ := h4 u hu
        exact ⟨e, by simp [he], hlift e u hs⟩

/-! ### positional writes -/

theorem writeAt_end (f b : Bytes) : writeAt f f.length b = f ++ b := by
  unfold writeAt
  simp

theorem writeAt_nil (pos : Nat) (b : Bytes) : writeAt [] pos b = List.replicate pos 0 ++ b := by
  unfold writeAt
  by_cases h : 0 < pos
  · simp [h]
  · have : pos = 0 := by omega
    subst this; simp

/-- overwrite inside a middle segment -/
theorem writeAt_mid (a z r b : Bytes) (h : b.length ≤ z.length) :
    writeAt (a ++ (z ++ r)) a.length b = a ++ (b ++ (z.drop b.length ++ r)) := by
  unfold writeAt
  have h1 : ¬ ((a ++ (z ++ r)).length < a.length) := by simp
  simp only [h1, if_false]
  rw [List.take_left' rfl]
  have : List.drop (a.length + b.length) (a ++ (z ++ r)) = z.drop b.length ++ r := by
    rw [← List.drop_drop, List.drop_left' rfl, List.drop_append_of_le_length h]
  rw [this]
  simp only [List.append_assoc]

theorem writeAt_head (a r b : Bytes) (h : b.length = a.length) : writeAt (a ++ r) 0 b = b ++ r := by
  unfold writeAt
  simp only [Nat.not_lt_zero, if_false, List.take_zero, List.nil_append, Nat.zero_add]
  rw [h, List.drop_left' rfl]

/-- the final layout of the file: header | root | zero padding | metadata | tile data | leaves
    (`n1` = header length 127, `n1 + n2` = 16384) -/
theorem layout_gen (hdr root mta data leaves : Bytes) (n1 n2 : Nat) (hh : hdr.length = n1) (hr : root.length ≤ n2) :
    writeAt (writeAt (writeAt (writeAt (writeAt [] (n1 + n2) mta) (n1 + n2 + mta.length) data) n1 root)
      (n1 + n2 + mta.length + data.length) leaves) 0 hdr =
    hdr ++ (root ++ (List.replicate (n2 - root.length) 0 ++ (mta ++ (data ++ leaves)))) := by
  rw [writeAt_nil]
  have e1 : (List.replicate (n1 + n2) (0 : UInt8) ++ mta).length = n1 + n2 + mta.length := by
    rw [List.length_append, List.length_replicate]
  rw [← e1, writeAt_end]
  rw [← List.replicate_append_replicate]
  have e2 : (List.replicate n1 (0 : UInt8)).length = n1 := List.length_replicate
  have e3 : List.replicate n1 (0 : UInt8) ++ List.replicate n2 0 ++ mta ++ data =
      List.replicate n1 0 ++ (List.replicate n2 0 ++ (mta ++ data)) := by simp only [List.append_assoc]
  rw [e3]
  have hmid := writeAt_mid (List.replicate n1 (0 : UInt8)) (List.replicate n2 0) (mta ++ data) root
    (by rw [List.length_replicate]; exact hr)
  rw [e2] at hmid
  rw [hmid]
  have e4 : (List.replicate n1 (0 : UInt8) ++ (root ++ (List.drop root.length (List.replicate n2 0) ++ (mta ++ data)))).length
      = (List.replicate n1 (0 : UInt8) ++ List.replicate n2 0 ++ mta).length + data.length := by
    simp only [List.length_append, List.length_replicate, List.length_drop]
    omega
  rw [← e4, writeAt_end]
  rw [List.append_assoc, writeAt_head _ _ _ (by rw [hh, e2])]
  rw [List.drop_replicate]
  simp only [List.append_assoc]

theorem layout (hdr root mta data leaves : Bytes) (hh : hdr.length = 127) (hr : root.length ≤ 16384 - 127) :
    writeAt (writeAt (writeAt (writeAt (writeAt [] 16384 mta) (16384 + mta.length) data) 127 root)
      (16384 + mta.length + data.length) leaves) 0 hdr =
    hdr ++ (root ++ (List.replicate (16384 - 127 - root.length) 0 ++ (mta ++ (data ++ leaves)))) :=
  layout_gen hdr root mta data leaves 127 16257 hh hr

end VtProofs.PMTilesWrite
