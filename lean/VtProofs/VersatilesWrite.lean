import VtModel.Versatiles
import VtProofs.Versatiles
import VtProofs.VersatilesRead
import VtProofs.VersatilesBlock
import VtProofs.VersatilesGrid
/-!
The versatiles writer produces a file that is valid by the relational layout description
(`ValidVersatiles`) for the source's tile map; with `versatiles_complete` this gives the container
round trip.
-/
namespace VtProofs.VersatilesWrite
open VtModel VtModel.Fmt VtModel.Versatiles
open VtProofs.VersatilesBlock VtProofs.VersatilesGrid VtProofs.VersatilesRead VtProofs.Versatiles

/-! ### layout lemmas -/

theorem slice_mid (a b c : Bytes) : slice (a ++ (b ++ c)) ⟨a.length, b.length⟩ = b := by
  unfold slice
  simp

theorem slice_length_le (f : Bytes) (r : Range) (h : r.off + r.len ≤ f.length) : (slice f r).length = r.len := by
  unfold slice
  simp; omega

theorem readRange_of_le (f : Bytes) (r : Range) (h : r.off + r.len ≤ f.length) (h64 : f.length < U64) :
    readRange f r = .ok (slice f r) := by
  unfold readRange slice
  have g1 : ¬ (r.off + r.len ≥ U64) := by omega
  have g2 : ¬ (r.off + r.len > f.length) := by omega
  simp only [g1, g2, if_false]

/-- a slice of a slice -/
theorem slice_sub (f X : Bytes) (p a l : Nat) (h : slice f ⟨p, X.length⟩ = X) (hl : a + l ≤ X.length) :
    slice f ⟨p + a, l⟩ = slice X ⟨a, l⟩ := by
  unfold slice at h ⊢
  simp only at h ⊢
  conv => rhs; rw [← h]
  rw [List.drop_take, List.take_take, ← List.drop_drop]
  congr 1
  omega

/-! ### positions inside a box -/

theorem div_of (S q r : Nat) (h : r < S) : (q * S + r) / S = q := by
  have hS : 0 < S := by omega
  rw [Nat.add_comm, Nat.add_mul_div_right _ _ hS, Nat.div_eq_of_lt h]; omega

theorem mod_of (S q r : Nat) (h : r < S) : (q * S + r) % S = r := by
  rw [Nat.add_comm, Nat.add_mul_mod_self_right, Nat.mod_eq_of_lt h]

theorem boxPos_inj (c : BBox) {x y x' y' : Nat} (h : c.contains2 x y = true) (h' : c.contains2 x' y' = true)
    (e : boxPos c x y = boxPos c x' y') : x = x' ∧ y = y' := by
  rw [contains2_iff] at h h'
  unfold boxPos at e
  have w1 : x - c.xmin < c.xmax + 1 - c.xmin := by omega
  have w2 : x' - c.xmin < c.xmax + 1 - c.xmin := by omega
  have d1 := div_of _ (y - c.ymin) _ w1
  have d2 := div_of _ (y' - c.ymin) _ w2
  have m1 := mod_of _ (y - c.ymin) _ w1
  have m2 := mod_of _ (y' - c.ymin) _ w2
  rw [e] at d1 m1
  omega

theorem countTiles_eq (c : BBox) (hx : c.xmin ≤ c.xmax) (hy : c.ymin ≤ c.ymax) :
    c.countTiles = (c.xmax + 1 - c.xmin) * (c.ymax + 1 - c.ymin) := by
  unfold BBox.countTiles BBox.width BBox.height
  have g1 : ¬ (c.xmax < c.xmin) := by omega
  have g2 : ¬ (c.ymax < c.ymin) := by omega
  simp only [g1, g2, if_false]
  congr 1 <;> omega

theorem boxPos_lt (c : BBox) {x y : Nat} (h : c.contains2 x y = true) : boxPos c x y < c.countTiles := by
  rw [contains2_iff] at h
  rw [countTiles_eq c (by omega) (by omega)]
  unfold boxPos
  have w : x - c.xmin < c.xmax + 1 - c.xmin := by omega
  have hrow : y - c.ymin + 1 ≤ c.ymax + 1 - c.ymin := by omega
  calc (y - c.ymin) * (c.xmax + 1 - c.xmin) + (x - c.xmin)
      < (y - c.ymin) * (c.xmax + 1 - c.xmin) + (c.xmax + 1 - c.xmin) := by omega
    _ = (y - c.ymin + 1) * (c.xmax + 1 - c.xmin) := by rw [Nat.add_mul, Nat.one_mul]
    _ ≤ (c.ymax + 1 - c.ymin) * (c.xmax + 1 - c.xmin) := Nat.mul_le_mul_right _ hrow
    _ = (c.xmax + 1 - c.xmin) * (c.ymax + 1 - c.ymin) := Nat.mul_comm _ _

/-! ### one cell → one block -/

/-- a grid cell: valid, inside one 256-block -/
structure CellOk (c : BBox) : Prop where
  lvl : c.level ≤ 31
  x : c.xmin ≤ c.xmax
  y : c.ymin ≤ c.ymax
  xm : c.xmax < 2 ^ c.level
  ym : c.ymax < 2 ^ c.level
  bx : c.xmax / 256 = c.xmin / 256
  by_ : c.ymax / 256 = c.ymin / 256

theorem cellOk_of_grid {L c : BBox} (ok : BoxOk L) (hc : c ∈ grid256 L) : CellOk c := by
  rw [mem_grid] at hc
  obtain ⟨bx, by_, h1, h2, h3, h4, rfl⟩ := hc
  have f := cell_facts ok h1 h2 h3 h4
  obtain ⟨f0, f1, f2, f3, f4, f5, f6, f7, f8, f9, f10⟩ := f
  have := ok.xm; have := ok.ym
  exact ⟨by rw [f0]; exact ok.lvl, f5, f6, by rw [f0]; omega, by rw [f0]; omega, by omega, by omega⟩

/-- the block definition of a cell (before the ranges are set) -/
def cellDef (c : BBox) : BlockDef :=
  ⟨c.level, c.xmin / 256, c.ymin / 256, c.xmin - c.xmin / 256 * 256, c.ymin - c.ymin / 256 * 256,
   c.xmax - c.xmin / 256 * 256, c.ymax - c.ymin / 256 * 256, ⟨0, 0⟩, ⟨0, 0⟩⟩

theorem pow_min8 (z v : Nat) (h : v < 2 ^ z) (h256 : v < 256) : v ≤ 2 ^ (min z 8) - 1 := by
  by_cases hz : z ≤ 8
  · rw [Nat.min_eq_left hz]; omega
  · rw [Nat.min_eq_right (by omega)]; simp; omega

theorem bboxOk_iff (l a b c d : Nat) :
    bboxOk l a b c d = true ↔ (l ≤ 31 ∧ c ≤ 2 ^ l - 1 ∧ d ≤ 2 ^ l - 1 ∧ a ≤ c ∧ b ≤ d) := by
  simp only [bboxOk, Bool.and_eq_true, decide_eq_true_eq]
  constructor
  · rintro ⟨⟨⟨⟨h1, h2⟩, h3⟩, h4⟩, h5⟩; exact ⟨h1, h2, h3, h4, h5⟩
  · rintro ⟨h1, h2, h3, h4, h5⟩; exact ⟨⟨⟨⟨h1, h2⟩, h3⟩, h4⟩, h5⟩

theorem newBlockDef_cell (c : BBox) (ok : CellOk c) : newBlockDef c = .ok (cellDef c) := by
  have := ok.x; have := ok.y; have := ok.bx; have := ok.by_
  have hlvl := ok.lvl
  unfold newBlockDef
  have g1 : ¬ (c.xmax < c.xmin / 256 * 256 || c.ymax < c.ymin / 256 * 256) = true := by
    simp; omega
  have p1 := pow_min8 c.level (c.xmax - c.xmin / 256 * 256) (by have := ok.xm; omega) (by omega)
  have p2 := pow_min8 c.level (c.ymax - c.ymin / 256 * 256) (by have := ok.ym; omega) (by omega)
  have g2 : bboxOk (min c.level 8) (c.xmin - c.xmin / 256 * 256) (c.ymin - c.ymin / 256 * 256)
      (c.xmax - c.xmin / 256 * 256) (c.ymax - c.ymin / 256 * 256) = true := by
    rw [bboxOk_iff]
    exact ⟨by omega, p1, p2, by omega, by omega⟩
  have g3 : ¬ (c.level > 31) := by omega
  simp only [g1, if_false, g2, Bool.not_true, Bool.false_eq_true, g3]
  try rfl

/-- validity of the final block definition of a cell -/
theorem blockOk_cell (c : BBox) (ok : CellOk c) (pos bl il : Nat) (h64 : pos + bl < U64) (h32 : il < 256 ^ 4) :
    BlockOk { cellDef c with tiles := ⟨pos, bl⟩, index := ⟨pos + bl, il⟩ } := by
  have := ok.x; have := ok.y; have := ok.bx; have := ok.by_
  have hxm := ok.xm; have hym := ok.ym
  have p1 := pow_min8 c.level (c.xmax - c.xmin / 256 * 256) (by omega) (by omega)
  have p2 := pow_min8 c.level (c.ymax - c.ymin / 256 * 256) (by omega) (by omega)
  refine ⟨ok.lvl, ?_, ?_, rfl, h64, h32⟩
  · rw [bboxOk_iff]
    simp only [cellDef]
    exact ⟨by omega, p1, p2, by omega, by omega⟩
  · rw [bboxOk_iff]
    simp only [cellDef]
    have e1 : c.xmin - c.xmin / 256 * 256 + c.xmin / 256 * 256 = c.xmin := by omega
    have e2 : c.ymin - c.ymin / 256 * 256 + c.ymin / 256 * 256 = c.ymin := by omega
    have e3 : c.xmax - c.xmin / 256 * 256 + c.xmin / 256 * 256 = c.xmax := by omega
    have e4 : c.ymax - c.ymin / 256 * 256 + c.ymin / 256 * 256 = c.ymax := by omega
    rw [e1, e2, e3, e4]
    have := ok.lvl
    exact ⟨by omega, by omega, by omega, by omega, by omega⟩

/-- a well-behaved stream for one cell: tiles inside the cell, pairwise different coordinates,
    payloads below 4 GiB -/
structure StreamOk (c : BBox) (ts : List Tile) : Prop where
  inside : ∀ t ∈ ts, c.contains2 t.1.1 t.1.2.1 = true ∧ t.1.2.2 = c.level
  nodup : (ts.map (·.1)).Nodup
  small : ∀ t ∈ ts, t.2.length < 2 ^ 32

theorem positions_nodup (c : BBox) (ts : List Tile) (ok : StreamOk c ts) :
    ((positions c ts).map (·.1)).Nodup := by
  have hnd := ok.nodup
  have hin := ok.inside
  clear ok
  induction ts with
  | nil => simp [positions]
  | cons t ts ih =>
    simp only [List.map_cons, List.nodup_cons] at hnd
    simp only [positions, List.map_cons, List.nodup_cons]
    constructor
    · intro hmem
      simp only [List.map_map, List.mem_map, Function.comp] at hmem
      obtain ⟨u, hu, he⟩ := hmem
      have h1 := (hin t (by simp)).1
      have h2 := (hin u (by simp [hu])).1
      have ⟨ex, ey⟩ := boxPos_inj c h2 h1 he
      have ez : u.1.2.2 = t.1.2.2 := by rw [(hin t (by simp)).2, (hin u (by simp [hu])).2]
      apply hnd.1
      rw [List.mem_map]
      refine ⟨u, hu, ?_⟩
      obtain ⟨⟨ux, uy, uz⟩, ub⟩ := u
      obtain ⟨⟨tx, ty, tz⟩, tb⟩ := t
      simp only at ex ey ez
      simp [ex, ey, ez]
    · exact ih hnd.2 (fun u hu => hin u (by simp [hu]))

/-- `write_block` on a good cell and stream -/
theorem writeBlock_spec (enc : Bytes → Bytes) (pos : Nat) (c : BBox) (ts : List Tile)
    (hc : CellOk c) (hs : StreamOk c ts) :
    ∃ s', Inv (2 ^ 32) c.countTiles (positions c ts).reverse s' ∧
      writeBlock enc pos c ts = .ok
        ⟨{ cellDef c with tiles := ⟨pos, s'.blobs.length⟩,
                          index := ⟨pos + s'.blobs.length, (enc (encTileIndex s'.index)).length⟩ },
         s'.blobs ++ enc (encTileIndex s'.index)⟩ := by
  have h := putTiles_inv c (2 ^ 32) c.countTiles ts [] ⟨[], List.replicate c.countTiles ⟨0, 0⟩, []⟩
    (inv_init _ _ (by decide))
    (fun t ht => ⟨(hs.inside t ht).1, boxPos_lt c (hs.inside t ht).1, hs.small t ht⟩)
    (by intro t _ d hd; cases hd)
    (positions_nodup c ts hs)
  obtain ⟨s', h1, h2⟩ := h
  refine ⟨s', by simpa using h2, ?_⟩
  unfold writeBlock
  simp only [newBlockDef_cell c hc, ok_bind, h1, pure_eq]

/-! ### the block loop -/

/-- block definition `d` was produced from cell `c` with stream `ts`, and the block's bytes (tile
    blobs followed by the compressed tile index) sit in `file` at `d.tiles.off` -/
def FromCell (enc : Bytes → Bytes) (file : Bytes) (c : BBox) (ts : List Tile) (d : BlockDef) : Prop :=
  ∃ s' : BlockState, Inv (2 ^ 32) c.countTiles (positions c ts).reverse s' ∧
    d = { cellDef c with tiles := ⟨d.tiles.off, s'.blobs.length⟩,
                         index := ⟨d.tiles.off + s'.blobs.length, (enc (encTileIndex s'.index)).length⟩ } ∧
    slice file ⟨d.tiles.off, (s'.blobs ++ enc (encTileIndex s'.index)).length⟩ = s'.blobs ++ enc (encTileIndex s'.index) ∧
    d.tiles.off + (s'.blobs ++ enc (encTileIndex s'.index)).length ≤ file.length

def coords (d : BlockDef) : Nat × Nat × Nat := (d.x, d.y, d.z)

theorem writeBlocks_spec (enc : Bytes → Bytes) (henc : ∀ b, enc b ≠ []) (stream : BBox → List Tile) :
    ∀ (cells : List BBox), (∀ c ∈ cells, CellOk c ∧ StreamOk c (stream c)) →
    ∀ (pos : Nat) (defs : List BlockDef) (body : Bytes), writeBlocks enc stream pos cells = .ok (defs, body) →
      defs.map coords = cells.map key ∧
      ∀ (pre suf : Bytes), pre.length = pos →
        (∀ d ∈ defs, ∃ c ∈ cells, FromCell enc (pre ++ (body ++ suf)) c (stream c) d) ∧
        (∀ c ∈ cells, ∃ d ∈ defs, FromCell enc (pre ++ (body ++ suf)) c (stream c) d) := by
  intro cells
  induction cells with
  | nil =>
    intro _ pos defs body h
    simp only [writeBlocks] at h
    injection h with h
    injection h with h1 h2
    subst h1 h2
    exact ⟨rfl, fun _ _ _ => ⟨by simp, by simp⟩⟩
  | cons c rest ih =>
    intro hall pos defs body h
    have ⟨hc, hs⟩ := hall c (by simp)
    obtain ⟨s', hinv, hwb⟩ := writeBlock_spec enc pos c (stream c) hc hs
    unfold writeBlocks at h
    rw [hwb] at h
    simp only at h
    cases hrec : writeBlocks enc stream (pos + (s'.blobs ++ enc (encTileIndex s'.index)).length) rest with
    | ok p =>
      obtain ⟨ds, bs⟩ := p
      rw [hrec] at h
      simp only at h
      have hne : ¬ (s'.blobs.length + (enc (encTileIndex s'.index)).length = 0) := by
        have := henc (encTileIndex s'.index)
        have : (enc (encTileIndex s'.index)).length ≠ 0 := by
          intro e; exact this (List.eq_nil_of_length_eq_zero e)
        omega
      simp only [hne, if_false] at h
      injection h with h
      injection h with h1 h2
      subst h1 h2
      have ⟨ihk, ihf⟩ := ih (fun c' hc' => hall c' (by simp [hc'])) _ ds bs hrec
      constructor
      · simp only [List.map_cons, ihk]
        rfl
      · intro pre suf hpre
        -- the file, seen from the rest of the blocks
        have hfile : pre ++ ((s'.blobs ++ enc (encTileIndex s'.index)) ++ bs ++ suf) =
            (pre ++ (s'.blobs ++ enc (encTileIndex s'.index))) ++ (bs ++ suf) := by
          simp only [List.append_assoc]
        have ⟨ih1, ih2⟩ := ihf (pre ++ (s'.blobs ++ enc (encTileIndex s'.index))) suf (by simp [hpre])
        -- this block
        have hthis : FromCell enc (pre ++ ((s'.blobs ++ enc (encTileIndex s'.index)) ++ bs ++ suf)) c (stream c)
            { cellDef c with tiles := ⟨pos, s'.blobs.length⟩,
                             index := ⟨pos + s'.blobs.length, (enc (encTileIndex s'.index)).length⟩ } := by
          refine ⟨s', hinv, rfl, ?_, ?_⟩
          · simp only
            rw [← hpre]
            have : pre ++ ((s'.blobs ++ enc (encTileIndex s'.index)) ++ bs ++ suf) =
                pre ++ ((s'.blobs ++ enc (encTileIndex s'.index)) ++ (bs ++ suf)) := by
              simp only [List.append_assoc]
            rw [this]
            exact slice_mid _ _ _
          · simp only [List.length_append] at *
            omega
        constructor
        · intro d hd
          cases hd with
          | head => exact ⟨c, by simp, hthis⟩
          | tail _ hd =>
            obtain ⟨c', hc', hf⟩ := ih1 d hd
            exact ⟨c', by simp [hc'], by rw [hfile]; exact hf⟩
        · intro c' hc'
          cases hc' with
          | head => exact ⟨_, by simp, hthis⟩
          | tail _ hc' =>
            obtain ⟨d, hd, hf⟩ := ih2 c' hc'
            exact ⟨d, by simp [hd], by rw [hfile]; exact hf⟩
    | err => rw [hrec] at h; simp at h
    | panic => rw [hrec] at h; simp at h

/-! ### the whole file -/

def i32ok (v : Int) : Prop := -2147483648 ≤ v ∧ v < 2147483648

/-- what the writer may assume about its source: a pyramid of valid level boxes with increasing
    zoom, and for every grid cell a stream that enumerates exactly the source's tiles inside the
    cell, once each -/
structure GoodSource (s : Source) (tiles : Nat × Nat × Nat → Option Bytes) : Prop where
  levels_ok : ∀ L ∈ s.levels, BoxOk L
  sorted : s.levels.Pairwise (fun a b => a.level < b.level)
  nonempty : s.levels ≠ []
  stream_ok : ∀ L ∈ s.levels, ∀ c ∈ grid256 L, StreamOk c (s.stream c)
  sound : ∀ L ∈ s.levels, ∀ c ∈ grid256 L, ∀ t ∈ s.stream c, tiles t.1 = some t.2
  complete : ∀ L ∈ s.levels, ∀ c ∈ grid256 L, ∀ x y b, c.contains2 x y = true →
    tiles (x, y, c.level) = some b → ((x, y, c.level), b) ∈ s.stream c
  covered : ∀ x y z b, tiles (x, y, z) = some b → ∃ L ∈ s.levels, L.level = z ∧ L.contains2 x y = true
  bb0 : i32ok s.b0
  bb1 : i32ok s.b1
  bb2 : i32ok s.b2
  bb3 : i32ok s.b3

/-- the stored map: empty payloads are not retrievable (index length 0 = absent) -/
def nonEmpty (o : Option Bytes) : Option Bytes :=
  match o with
  | some b => if b = [] then none else some b
  | none => none

theorem head_le_last {levels : List BBox} (hs : levels.Pairwise (fun a b => a.level < b.level))
    {lo hi : BBox} (h1 : levels.head? = some lo) (h2 : levels.getLast? = some hi) : lo.level ≤ hi.level := by
  cases levels with
  | nil => simp at h1
  | cons a rest =>
    simp at h1; subst h1
    have hm : hi ∈ a :: rest := List.mem_of_getLast? h2
    rw [List.pairwise_cons] at hs
    cases hm with
    | head => exact Nat.le_refl _
    | tail _ hm => exact Nat.le_of_lt (hs.1 hi hm)

/-- position arithmetic between a cell's `boxPos` and the reader's column/row formula -/
theorem cellPos (c : BBox) (ok : CellOk c) (x y : Nat) (h : c.contains2 x y = true) :
    (y % 256 - (cellDef c).cymin) * ((cellDef c).cxmax + 1 - (cellDef c).cxmin) + (x % 256 - (cellDef c).cxmin)
      = boxPos c x y := by
  rw [contains2_iff] at h
  have := ok.bx; have := ok.by_
  simp only [cellDef, boxPos]
  have e1 : y % 256 - (c.ymin - c.ymin / 256 * 256) = y - c.ymin := by omega
  have e2 : x % 256 - (c.xmin - c.xmin / 256 * 256) = x - c.xmin := by omega
  have e3 : c.xmax - c.xmin / 256 * 256 + 1 - (c.xmin - c.xmin / 256 * 256) = c.xmax + 1 - c.xmin := by omega
  rw [e1, e2, e3]

theorem cellDef_count (c : BBox) (ok : CellOk c) (t i : Range) :
    ({ cellDef c with tiles := t, index := i } : BlockDef).count = c.countTiles := by
  have := ok.x; have := ok.y; have := ok.bx; have := ok.by_
  rw [countTiles_eq c ok.x ok.y]
  simp only [BlockDef.count, cellDef]
  congr 1 <;> omega

/-- **the written file is valid** (`ValidVersatiles`) for the source's map of non-empty tiles -/
theorem write_valid (K : Inflate) (enc : Bytes → Bytes) (s : Source) (tiles : Nat × Nat × Nat → Option Bytes)
    (gs : GoodSource s tiles)
    (hK : ∀ b, K.brotli (enc b) = some b) (hnil : K.brotli [] = none)
    (hmeta : s.metaB.length > 0 → ∃ raw, K.run s.comp s.metaB = .ok raw)
    (file : Bytes) (defs : List BlockDef) (hw : write enc s = .ok (file, defs))
    (hsize : file.length < U64) (hidx32 : ∀ d ∈ defs, d.index.len < 2 ^ 32) :
    ValidVersatiles K file s.fmt s.comp (fun p => nonEmpty (tiles p)) := by
  have henc : ∀ b, enc b ≠ [] := by
    intro b e
    have := hK b
    rw [e, hnil] at this
    cases this
  have hrun : ∀ b, K.run .brotli (enc b) = .ok b := by
    intro b; simp only [Inflate.run, hK b]
  -- unfold the writer
  unfold write at hw
  cases hh : s.levels.head? with
  | none => rw [hh] at hw; simp at hw
  | some lo =>
    cases hl : s.levels.getLast? with
    | none => rw [hh, hl] at hw; simp at hw
    | some hi =>
      rw [hh, hl] at hw
      simp only at hw
      have hlohi := head_le_last gs.sorted hh hl
      have hng : ¬ (lo.level > hi.level) := by omega
      simp only [hng, if_false] at hw
      cases hwb : writeBlocks enc s.stream (66 + s.metaB.length) (s.levels.flatMap grid256) with
      | err => rw [hwb] at hw; simp at hw
      | panic => rw [hwb] at hw; simp at hw
      | ok p =>
        obtain ⟨defs', body⟩ := p
        rw [hwb] at hw
        simp only at hw
        cases hbi : encBlockIndex defs' with
        | err => rw [hbi] at hw; simp at hw
        | panic => rw [hbi] at hw; simp at hw
        | ok bi =>
          rw [hbi] at hw
          simp only at hw
          injection hw with hw
          injection hw with hfile hdefs
          subst hdefs
          -- names
          generalize hhd : (⟨s.fmt, s.comp, lo.level, hi.level, s.b0, s.b1, s.b2, s.b3, ⟨66, s.metaB.length⟩,
            ⟨66 + s.metaB.length + body.length, (enc bi).length⟩⟩ : Header) = hd at hfile
          have hcells : ∀ c ∈ s.levels.flatMap grid256, CellOk c ∧ StreamOk c (s.stream c) := by
            intro c hc
            rw [List.mem_flatMap] at hc
            obtain ⟨L, hL, hcL⟩ := hc
            exact ⟨cellOk_of_grid (gs.levels_ok L hL) hcL, gs.stream_ok L hL c hcL⟩
          have ⟨hkeys, hfrom⟩ := writeBlocks_spec enc henc s.stream _ hcells _ defs' body hwb
          have hl66 : (encHeader hd).length = 66 := length_encHeader hd
          have hfile' : file = (encHeader hd ++ s.metaB) ++ (body ++ enc bi) := by
            rw [← hfile]; simp only [List.append_assoc]
          have ⟨hf1, hf2⟩ := hfrom (encHeader hd ++ s.metaB) (enc bi) (by simp [hl66])
          rw [← hfile'] at hf1 hf2
          have hflen : file.length = 66 + s.metaB.length + body.length + (enc bi).length := by
            rw [hfile']; simp [hl66]; omega
          -- header
          have hlo : lo ∈ s.levels := List.mem_of_head? hh
          have hhi : hi ∈ s.levels := List.mem_of_getLast? hl
          have hdok : HeaderOk hd := by
            have := (gs.levels_ok lo hlo).lvl
            have := (gs.levels_ok hi hhi).lvl
            have hU : U64 = 256 ^ 8 := by decide
            subst hhd
            refine ⟨by simp; omega, by simp; omega, gs.bb0, gs.bb1, gs.bb2, gs.bb3, ?_, ?_, ?_, ?_⟩ <;> simp only <;> omega
          have hread : readHeader file = .ok hd := by
            rw [← hfile]; exact readHeader_file hd hdok _
          have hdfmt : hd.fmt = s.fmt := by subst hhd; rfl
          have hdcomp : hd.comp = s.comp := by subst hhd; rfl
          have hdmeta : hd.metaR = ⟨66, s.metaB.length⟩ := by subst hhd; rfl
          have hdblocks : hd.blocks = ⟨66 + s.metaB.length + body.length, (enc bi).length⟩ := by subst hhd; rfl
          -- blocks are valid definitions
          have hblockOk : ∀ d ∈ defs', BlockOk d := by
            intro d hd'
            obtain ⟨c, hc, s', hinv, hdeq, hsl, hle⟩ := hf1 d hd'
            have hcok := (hcells c hc).1
            rw [hdeq]
            apply blockOk_cell c hcok
            · simp only [List.length_append] at hle; omega
            · have := hidx32 d hd'
              rw [hdeq] at this
              simp only at this
              omega
          refine ⟨hsize, hd, defs', hread, hdfmt, hdcomp, ?_, ?_, ?_, ?_, ?_⟩
          · -- metadata
            intro hpos
            rw [hdmeta] at hpos ⊢
            simp only at hpos
            obtain ⟨raw, hraw⟩ := hmeta hpos
            refine ⟨s.metaB, raw, ?_, by rw [hdcomp]; exact hraw⟩
            rw [readRange_of_le file _ (by simp only; omega) hsize]
            congr 1
            rw [← hfile, ← hl66]
            exact slice_mid _ _ _
          · -- block index
            refine ⟨enc bi, bi, ?_, hrun bi, decBlockIndex_enc defs' hblockOk bi hbi⟩
            rw [hdblocks, readRange_of_le file _ (by simp only; omega) hsize]
            congr 1
            have : file = (encHeader hd ++ s.metaB ++ body) ++ (enc bi ++ []) := by
              rw [hfile']; simp only [List.append_assoc, List.append_nil]
            rw [this]
            have hlen : (encHeader hd ++ s.metaB ++ body).length = 66 + s.metaB.length + body.length := by
              simp [hl66]; omega
            rw [← hlen]
            exact slice_mid _ _ _
          · -- one record per block coordinate
            have hp := cells_pairwise gs.levels_ok gs.sorted
            have : (defs'.map coords).Pairwise (· ≠ ·) := by
              rw [hkeys, List.pairwise_map]; exact hp
            rw [List.pairwise_map] at this
            apply List.Pairwise.imp _ this
            intro a b hne hab
            apply hne
            simp only [coords, hab.1, hab.2.1, hab.2.2]
          · -- tile indexes
            intro d hd'
            obtain ⟨c, hc, s', hinv, hdeq, hsl, hle⟩ := hf1 d hd'
            have hcok := (hcells c hc).1
            refine ⟨s'.index, ?_, ?_, ?_⟩
            · refine ⟨enc (encTileIndex s'.index), encTileIndex s'.index, ?_, hrun _, ?_⟩
              · have hidx : d.index = ⟨d.tiles.off + s'.blobs.length, (enc (encTileIndex s'.index)).length⟩ := by
                  rw [hdeq]
                rw [hidx, readRange_of_le file _ (by simp only [List.length_append] at hle ⊢; omega) hsize]
                congr 1
                rw [slice_sub file _ d.tiles.off s'.blobs.length _ hsl (by simp)]
                exact slice_appended _ _
              · apply decTileIndex_enc
                intro r hr
                have h1 := hinv.bounds r hr
                have h2 := hinv.lenb r hr
                simp only [List.length_append] at hle
                have hU : U64 = 256 ^ 8 := by decide
                constructor
                · omega
                · omega
            · rw [hinv.len, hdeq, cellDef_count c hcok]
            · intro r hr
              have h1 := hinv.bounds r hr
              simp only [List.length_append] at hle
              omega
          · -- the stored tiles are exactly the non-empty source tiles
            intro x y z blob
            constructor
            · -- source → stored
              intro hm
              simp only [nonEmpty] at hm
              cases ht : tiles (x, y, z) with
              | none => rw [ht] at hm; simp at hm
              | some b0 =>
                rw [ht] at hm
                simp only at hm
                by_cases hb0 : b0 = []
                · simp [hb0] at hm
                · simp only [hb0, if_false] at hm
                  injection hm with hm
                  subst hm
                  obtain ⟨L, hL, hLz, hLc⟩ := gs.covered x y z b0 ht
                  have hLok := gs.levels_ok L hL
                  have ⟨hcg, hcc⟩ := cell_of_tile hLok hLc
                  generalize hcdef : cell L (x / 256) (y / 256) = c at hcg hcc
                  have hclevel : c.level = z := by rw [key_level hcg]; exact hLz
                  have hcmem : c ∈ s.levels.flatMap grid256 := List.mem_flatMap.2 ⟨L, hL, hcg⟩
                  obtain ⟨d, hd', s', hinv, hdeq, hsl, hle⟩ := hf2 c hcmem
                  have hcok := (hcells c hcmem).1
                  have htin : ((x, y, z), b0) ∈ s.stream c := by
                    have := gs.complete L hL c hcg x y b0 hcc (by rw [hclevel]; exact ht)
                    rw [hclevel] at this; exact this
                  -- the invariant gives the index entry
                  have hdone : (boxPos c x y, b0) ∈ (positions c (s.stream c)).reverse := by
                    rw [List.mem_reverse]
                    simp only [positions, List.mem_map]
                    exact ⟨((x, y, z), b0), htin, rfl⟩
                  obtain ⟨r, hr1, hr2, hr3⟩ := hinv.hit _ hdone
                  simp only at hr1 hr2 hr3
                  have ⟨tx, ty, _⟩ := tile_in_cell hLok hcg hcc
                  have hcon := (contains2_iff c x y).1 hcc
                  have hbx := hcok.bx; have hby := hcok.by_
                  have hdx : d.x = x / 256 := by rw [hdeq]; simp only [cellDef]; omega
                  have hdy : d.y = y / 256 := by rw [hdeq]; simp only [cellDef]; omega
                  have hdz : d.z = z := by rw [hdeq]; simp only [cellDef]; exact hclevel
                  have hcov : d.cxmin ≤ x % 256 ∧ x % 256 ≤ d.cxmax ∧ d.cymin ≤ y % 256 ∧ y % 256 ≤ d.cymax := by
                    rw [hdeq]; simp only [cellDef]; omega
                  have hpos : (y % 256 - d.cymin) * (d.cxmax + 1 - d.cxmin) + (x % 256 - d.cxmin) = boxPos c x y := by
                    have := cellPos c hcok x y hcc
                    rw [hdeq]; exact this
                  refine ⟨d, hd', hdx, hdy, hdz, hcov.1, hcov.2.1, hcov.2.2.1, hcov.2.2.2, s'.index, r, ?_, ?_, ?_, ?_⟩
                  · -- TileIndexOf
                    refine ⟨enc (encTileIndex s'.index), encTileIndex s'.index, ?_, hrun _, ?_⟩
                    · have hidx : d.index = ⟨d.tiles.off + s'.blobs.length, (enc (encTileIndex s'.index)).length⟩ := by
                        rw [hdeq]
                      rw [hidx, readRange_of_le file _ (by simp only [List.length_append] at hle ⊢; omega) hsize]
                      congr 1
                      rw [slice_sub file _ d.tiles.off s'.blobs.length _ hsl (by simp)]
                      exact slice_appended _ _
                    · apply decTileIndex_enc
                      intro r' hr'
                      have h1 := hinv.bounds r' hr'
                      have h2 := hinv.lenb r' hr'
                      simp only [List.length_append] at hle
                      have hU : U64 = 256 ^ 8 := by decide
                      constructor <;> omega
                  · rw [hpos]; exact hr1
                  · rw [hr2]
                    intro e
                    exact hb0 (List.eq_nil_of_length_eq_zero e)
                  · have hb := hinv.bounds r (List.mem_of_getElem? hr1)
                    rw [slice_sub file _ d.tiles.off r.off r.len hsl (by simp only [List.length_append]; omega)]
                    rw [slice_append_left _ _ _ hb]
                    exact hr3.symm
            · -- stored → source
              rintro ⟨d, hd', hdx, hdy, hdz, c1, c2, c3, c4, ranges, r, hti, hget, hrlen, hblob⟩
              obtain ⟨c, hc, s', hinv, hdeq, hsl, hle⟩ := hf1 d hd'
              have ⟨hcok, hsok⟩ := hcells c hc
              rw [List.mem_flatMap] at hc
              obtain ⟨L, hL, hcL⟩ := hc
              -- the tile index of `d` is `s'.index`
              have hti' : TileIndexOf K file d s'.index := by
                refine ⟨enc (encTileIndex s'.index), encTileIndex s'.index, ?_, hrun _, ?_⟩
                · have hidx : d.index = ⟨d.tiles.off + s'.blobs.length, (enc (encTileIndex s'.index)).length⟩ := by
                    rw [hdeq]
                  rw [hidx, readRange_of_le file _ (by simp only [List.length_append] at hle ⊢; omega) hsize]
                  congr 1
                  rw [slice_sub file _ d.tiles.off s'.blobs.length _ hsl (by simp)]
                  exact slice_appended _ _
                · apply decTileIndex_enc
                  intro r' hr'
                  have h1 := hinv.bounds r' hr'
                  have h2 := hinv.lenb r' hr'
                  simp only [List.length_append] at hle
                  have hU : U64 = 256 ^ 8 := by decide
                  constructor <;> omega
              have hrr := TileIndexOf.unique hti hti'
              subst hrr
              -- (x, y) lies in the cell
              have hbx := hcok.bx; have hby := hcok.by_
              have hxy : c.contains2 x y = true := by
                rw [contains2_iff]
                rw [hdeq] at hdx hdy c1 c2 c3 c4
                simp only [cellDef] at hdx hdy c1 c2 c3 c4
                have := hcok.x; have := hcok.y
                omega
              have hzc : c.level = z := by
                rw [hdeq] at hdz; simp only [cellDef] at hdz; exact hdz
              have hpos : (y % 256 - d.cymin) * (d.cxmax + 1 - d.cxmin) + (x % 256 - d.cxmin) = boxPos c x y := by
                have := cellPos c hcok x y hxy
                rw [hdeq]; exact this
              rw [hpos] at hget
              -- some streamed tile has this position (otherwise the entry is empty)
              have hex : ∃ dn ∈ (positions c (s.stream c)).reverse, dn.1 = boxPos c x y := by
                apply Classical.byContradiction
                intro hno
                have hmiss := hinv.miss (boxPos c x y) (boxPos_lt c hxy) (by
                  intro dn hdn e
                  exact hno ⟨dn, hdn, e⟩)
                rw [hmiss] at hget
                injection hget with hget
                rw [← hget] at hrlen
                exact hrlen rfl
              obtain ⟨dn, hdn, hdnpos⟩ := hex
              rw [List.mem_reverse] at hdn
              simp only [positions, List.mem_map] at hdn
              obtain ⟨t, ht, hteq⟩ := hdn
              subst hteq
              simp only at hdnpos
              have ⟨htc, htz⟩ := hsok.inside t ht
              have ⟨ex, ey⟩ := boxPos_inj c htc hxy hdnpos
              have hsrc := gs.sound L hL c hcL t ht
              have htcoord : t.1 = (x, y, z) := by
                obtain ⟨⟨tx, ty, tz⟩, tb⟩ := t
                simp only at ex ey htz
                simp [ex, ey, htz, hzc]
              rw [htcoord] at hsrc
              -- the entry points at the tile's payload
              have hdone : (boxPos c x y, t.2) ∈ (positions c (s.stream c)).reverse := by
                rw [List.mem_reverse]
                simp only [positions, List.mem_map]
                exact ⟨t, ht, by rw [← hdnpos]⟩
              obtain ⟨r', hr1, hr2, hr3⟩ := hinv.hit _ hdone
              simp only at hr1 hr2 hr3
              rw [hr1] at hget
              injection hget with hget
              subst hget
              have hb := hinv.bounds r' (List.mem_of_getElem? hr1)
              have hblob' : blob = t.2 := by
                rw [hblob, slice_sub file _ d.tiles.off r'.off r'.len hsl (by simp only [List.length_append]; omega)]
                rw [slice_append_left _ _ _ hb]
                exact hr3
              simp only [hsrc, nonEmpty]
              have hne : ¬ (t.2 = []) := by
                intro e
                rw [e] at hr2
                exact hrlen (by simpa using hr2)
              simp only [hne, if_false, hblob']

end VtProofs.VersatilesWrite
