import VtModel.Versatiles
import VtProofs.FmtBytes
/-!
Completeness of the versatiles model reader against a relational description of the published
v02 layout (`ValidVersatiles`): any file that is valid for a tile map `m` is opened, and every lookup
returns `m`.
-/
namespace VtProofs.VersatilesRead
open VtModel VtModel.Fmt VtModel.Versatiles

/-- the (inflated, decoded) tile index stored for block `b` -/
def TileIndexOf (K : Inflate) (file : Bytes) (b : BlockDef) (ranges : List Range) : Prop :=
  ∃ c raw, readRange file b.index = .ok c ∧ K.run .brotli c = .ok raw ∧ decTileIndex raw = .ok ranges

theorem TileIndexOf.unique {K file b r1 r2} (h1 : TileIndexOf K file b r1) (h2 : TileIndexOf K file b r2) : r1 = r2 := by
  obtain ⟨c1, raw1, a1, b1, d1⟩ := h1
  obtain ⟨c2, raw2, a2, b2, d2⟩ := h2
  rw [a1] at a2; injection a2 with a2; subst a2
  rw [b1] at b2; injection b2 with b2; subst b2
  rw [d1] at d2; injection d2

/-- "tile (x,y,z) is stored with payload `blob`" in the terms of the format description: the block
    `(x div 256, y div 256, z)` is listed, column `x mod 256` / row `y mod 256` lie inside its
    declared range, and the row-major tile-index entry has a non-zero length and points (relative to
    the block offset) at `blob`. -/
def Stored (K : Inflate) (file : Bytes) (blocks : List BlockDef) (x y z : Nat) (blob : Bytes) : Prop :=
  ∃ b ∈ blocks, b.x = x / 256 ∧ b.y = y / 256 ∧ b.z = z ∧
    b.cxmin ≤ x % 256 ∧ x % 256 ≤ b.cxmax ∧ b.cymin ≤ y % 256 ∧ y % 256 ≤ b.cymax ∧
    ∃ ranges r, TileIndexOf K file b ranges ∧
      ranges[(y % 256 - b.cymin) * (b.cxmax + 1 - b.cxmin) + (x % 256 - b.cxmin)]? = some r ∧
      r.len ≠ 0 ∧ blob = slice file ⟨b.tiles.off + r.off, r.len⟩

/-- a file that follows the published layout and stores exactly the map `m` -/
structure ValidVersatiles (K : Inflate) (file : Bytes) (fmt : TileFormat) (comp : TComp)
    (m : Nat × Nat × Nat → Option Bytes) : Prop where
  size : file.length < U64
  ex : ∃ (h : Header) (blocks : List BlockDef),
    readHeader file = .ok h ∧ h.fmt = fmt ∧ h.comp = comp ∧
    -- metadata (optional) is readable and inflates
    (h.metaR.len > 0 → ∃ mb raw, readRange file h.metaR = .ok mb ∧ K.run h.comp mb = .ok raw) ∧
    -- block index: readable, inflates, decodes; one record per block coordinate
    (∃ c raw, readRange file h.blocks = .ok c ∧ K.run .brotli c = .ok raw ∧ decBlockIndex raw = .ok blocks) ∧
    blocks.Pairwise (fun a b => ¬ (a.x = b.x ∧ a.y = b.y ∧ a.z = b.z)) ∧
    -- every block has a tile index of the declared size whose non-empty entries lie inside the file
    (∀ b ∈ blocks, ∃ ranges, TileIndexOf K file b ranges ∧ ranges.length = b.count ∧
        ∀ r ∈ ranges, b.tiles.off + r.off + r.len ≤ file.length) ∧
    -- the stored tiles are exactly `m`
    (∀ x y z blob, m (x, y, z) = some blob ↔ Stored K file blocks x y z blob)

/-! ### block lookup -/

theorem getBlock_some {l : List BlockDef} {x y z : Nat} {b : BlockDef} (h : getBlock l x y z = some b) :
    b ∈ l ∧ b.x = x ∧ b.y = y ∧ b.z = z := by
  unfold getBlock at h
  have h1 := List.find?_some h
  have h2 := List.mem_of_find?_eq_some h
  simp at h1 h2
  exact ⟨h2, h1.1.1, h1.1.2, h1.2⟩

theorem getBlock_none {l : List BlockDef} {x y z : Nat} (h : getBlock l x y z = none) :
    ∀ b ∈ l, ¬ (b.x = x ∧ b.y = y ∧ b.z = z) := by
  unfold getBlock at h
  rw [List.find?_eq_none] at h
  intro b hb hc
  have := h b (by simp [hb])
  simp [hc.1, hc.2.1, hc.2.2] at this

theorem pairwise_unique {l : List BlockDef} (hp : l.Pairwise (fun a b => ¬ (a.x = b.x ∧ a.y = b.y ∧ a.z = b.z)))
    {a b : BlockDef} (ha : a ∈ l) (hb : b ∈ l) (h : a.x = b.x ∧ a.y = b.y ∧ a.z = b.z) : a = b := by
  induction l with
  | nil => cases ha
  | cons c l ih =>
    rw [List.pairwise_cons] at hp
    cases ha with
    | head =>
      cases hb with
      | head => rfl
      | tail _ hb => exact absurd h (hp.1 b hb)
    | tail _ ha =>
      cases hb with
      | head => exact absurd ⟨h.1.symm, h.2.1.symm, h.2.2.symm⟩ (hp.1 a ha)
      | tail _ hb => exact ih hp.2 ha hb

/-! ### tile index -/

theorem addOffset_ok (off : Nat) (l : List Range) (h : ∀ r ∈ l, r.off + off < U64) :
    addOffset off l = .ok (l.map fun r => ⟨r.off + off, r.len⟩) := by
  unfold addOffset
  congr 1
  apply List.map_congr_left
  intro r hr
  have := h r hr
  have : min (r.off + off) (U64 - 1) = r.off + off := by omega
  rw [this]

theorem blockTileIndex_ok (r : Reader) (b : BlockDef) (ranges : List Range)
    (hti : TileIndexOf r.K r.file b ranges) (hlen : ranges.length = b.count)
    (hb : ∀ rg ∈ ranges, rg.off + b.tiles.off < U64) :
    blockTileIndex r b = .ok (ranges.map fun rg => ⟨rg.off + b.tiles.off, rg.len⟩) := by
  obtain ⟨c, raw, h1, h2, h3⟩ := hti
  unfold blockTileIndex
  simp only [h1, ok_bind, h2, h3, addOffset_ok _ _ hb, List.length_map, hlen, beq_self_eq_true, ensure_true, pure_eq]

/-! ### the position arithmetic: global coordinates vs column / row inside the block -/

theorem contains_iff (b : BlockDef) (x y : Nat) (hx : b.x = x / 256) (hy : b.y = y / 256) :
    b.global.contains2 x y = true ↔
      (b.cxmin ≤ x % 256 ∧ x % 256 ≤ b.cxmax ∧ b.cymin ≤ y % 256 ∧ y % 256 ≤ b.cymax) := by
  simp only [BlockDef.global, BBox.contains2, BlockDef.gxmin, BlockDef.gymin, BlockDef.gxmax, BlockDef.gymax,
    Bool.and_eq_true, decide_eq_true_eq, hx, hy]
  have := Nat.div_add_mod x 256
  have := Nat.div_add_mod y 256
  omega

theorem tilePos_eq (b : BlockDef) (x y : Nat) (hx : b.x = x / 256) (hy : b.y = y / 256)
    (h1 : b.cxmin ≤ x % 256) (h3 : b.cymin ≤ y % 256) (h2 : b.cxmin ≤ b.cxmax) :
    tilePos b x y = (y % 256 - b.cymin) * (b.cxmax + 1 - b.cxmin) + (x % 256 - b.cxmin) := by
  have ex := Nat.div_add_mod x 256
  have ey := Nat.div_add_mod y 256
  unfold tilePos BlockDef.gxmin BlockDef.gymin BlockDef.gxmax
  rw [hx, hy]
  have a1 : y - (b.cymin + y / 256 * 256) = y % 256 - b.cymin := by omega
  have a2 : x - (b.cxmin + x / 256 * 256) = x % 256 - b.cxmin := by omega
  have a3 : b.cxmax + x / 256 * 256 + 1 - (b.cxmin + x / 256 * 256) = b.cxmax + 1 - b.cxmin := by omega
  rw [a1, a2, a3]

/-! ### completeness -/

theorem openReader_ok {K file fmt comp m} (v : ValidVersatiles K file fmt comp m) :
    ∃ r, openReader K file = .ok r ∧ r.file = file ∧ r.K = K ∧ r.header.fmt = fmt ∧ r.header.comp = comp ∧
      (∃ c raw, readRange file r.header.blocks = .ok c ∧ K.run .brotli c = .ok raw ∧ decBlockIndex raw = .ok r.blocks) := by
  obtain ⟨h, blocks, h1, h2, h3, hm, ⟨c, raw, hb1, hb2, hb3⟩, _, _, _⟩ := v.ex
  refine ⟨⟨file, h, blocks, K⟩, ?_, rfl, rfl, h2, h3, ⟨c, raw, hb1, hb2, hb3⟩⟩
  unfold openReader
  simp only [h1, ok_bind]
  by_cases hl : h.metaR.len > 0
  · obtain ⟨mb, mraw, hm1, hm2⟩ := hm hl
    simp only [hl, if_true, hm1, ok_bind, hm2, pure_eq, hb1, hb2, hb3]
  · simp only [hl, if_false, pure_eq, ok_bind, hb1, hb2, hb3]

/-- **C16 (versatiles)**: a file valid by the layout for the map `m` is opened without failure, declares
    the encoded format and compression, and every lookup returns exactly `m` — sparse block indexes,
    partial blocks, shared offsets, any order of blocks and blobs included. -/
theorem versatiles_complete {K file fmt comp m} (v : ValidVersatiles K file fmt comp m) :
    ∃ r, openReader K file = .ok r ∧ r.header.fmt = fmt ∧ r.header.comp = comp ∧
      ∀ x y z, z ≤ 31 → getTile r x y z = .ok (m (x, y, z)) := by
  obtain ⟨h, blocks, h1, h2, h3, hm, ⟨c, raw, hb1, hb2, hb3⟩, huniq, hidx, hmap⟩ := v.ex
  have hopen : openReader K file = .ok ⟨file, h, blocks, K⟩ := by
    unfold openReader
    simp only [h1, ok_bind]
    by_cases hl : h.metaR.len > 0
    · obtain ⟨mb, mraw, hm1, hm2⟩ := hm hl
      simp only [hl, if_true, hm1, ok_bind, hm2, pure_eq, hb1, hb2, hb3]
    · simp only [hl, if_false, pure_eq, ok_bind, hb1, hb2, hb3]
  refine ⟨⟨file, h, blocks, K⟩, hopen, h2, h3, ?_⟩
  intro x y z hz
  -- `m` is `none` unless some blob is `Stored`
  have hnone : (∀ blob, ¬ Stored K file blocks x y z blob) → m (x, y, z) = none := by
    intro hn
    cases hmx : m (x, y, z) with
    | none => rfl
    | some blob => exact absurd ((hmap x y z blob).1 hmx) (hn blob)
  unfold getTile
  have hz' : ¬ (z > 31) := by omega
  simp only [hz', if_false]
  cases hg : getBlock blocks (x / 256) (y / 256) z with
  | none =>
    simp only
    rw [hnone]
    intro blob ⟨b, hb, hx, hy, hzz, _⟩
    exact getBlock_none hg b hb ⟨hx, hy, hzz⟩
  | some b =>
    simp only
    obtain ⟨hbm, hbx, hby, hbz⟩ := getBlock_some hg
    by_cases hc : b.global.contains2 x y = true
    · simp only [hc, Bool.not_true, Bool.false_eq_true, if_false]
      obtain ⟨c1, c2, c3, c4⟩ := (contains_iff b x y hbx hby).1 hc
      obtain ⟨ranges, hti, hlen, hin⟩ := hidx b hbm
      have hoff : ∀ rg ∈ ranges, rg.off + b.tiles.off < U64 := by
        intro rg hrg
        have := hin rg hrg
        have := v.size
        omega
      have hbt := blockTileIndex_ok ⟨file, h, blocks, K⟩ b ranges hti hlen hoff
      simp only [hbt]
      have hpos := tilePos_eq b x y hbx hby c1 c3 (by omega)
      rw [hpos]
      -- the index has `count` entries, the position is inside
      have hcount : (y % 256 - b.cymin) * (b.cxmax + 1 - b.cxmin) + (x % 256 - b.cxmin) < ranges.length := by
        rw [hlen]; unfold BlockDef.count
        have w : x % 256 - b.cxmin < b.cxmax + 1 - b.cxmin := by omega
        have hrow : y % 256 - b.cymin + 1 ≤ b.cymax + 1 - b.cymin := by omega
        calc (y % 256 - b.cymin) * (b.cxmax + 1 - b.cxmin) + (x % 256 - b.cxmin)
            < (y % 256 - b.cymin) * (b.cxmax + 1 - b.cxmin) + (b.cxmax + 1 - b.cxmin) := by omega
          _ = (y % 256 - b.cymin + 1) * (b.cxmax + 1 - b.cxmin) := by rw [Nat.add_mul, Nat.one_mul]
          _ ≤ (b.cymax + 1 - b.cymin) * (b.cxmax + 1 - b.cxmin) := Nat.mul_le_mul_right _ hrow
          _ = (b.cxmax + 1 - b.cxmin) * (b.cymax + 1 - b.cymin) := Nat.mul_comm _ _
      generalize hp : (y % 256 - b.cymin) * (b.cxmax + 1 - b.cxmin) + (x % 256 - b.cxmin) = pos at *
      have hget : ranges[pos]? = some (ranges[pos]'hcount) := by simp [hcount]
      simp only [List.getElem?_map, hget, Option.map_some]
      generalize hrg : ranges[pos]'hcount = rg at *
      have hrgmem : rg ∈ ranges := by rw [← hrg]; exact List.getElem_mem hcount
      by_cases hl0 : rg.len = 0
      · simp only [hl0, if_true]
        rw [hnone]
        intro blob ⟨b', hb', hx', hy', hz'', _, _, _, _, ranges', r', hti', hget', hlen', _⟩
        have hbb : b' = b := pairwise_unique huniq hb' hbm ⟨by omega, by omega, by omega⟩
        subst hbb
        have := TileIndexOf.unique hti hti'
        subst this
        rw [hp] at hget'
        rw [hget] at hget'
        injection hget' with hget'
        rw [← hget'] at hlen'
        exact hlen' hl0
      · simp only [hl0, if_false]
        have hinb := hin rg hrgmem
        have hsz := v.size
        have hrr : readRange file ⟨rg.off + b.tiles.off, rg.len⟩ = .ok (slice file ⟨b.tiles.off + rg.off, rg.len⟩) := by
          unfold readRange slice
          simp only [Nat.add_comm rg.off b.tiles.off]
          have g1 : ¬ (b.tiles.off + rg.off + rg.len ≥ U64) := by omega
          have g2 : ¬ (b.tiles.off + rg.off + rg.len > file.length) := by omega
          simp only [g1, g2, if_false]
        simp only [hrr]
        have hst : Stored K file blocks x y z (slice file ⟨b.tiles.off + rg.off, rg.len⟩) :=
          ⟨b, hbm, hbx, hby, hbz, c1, c2, c3, c4, ranges, rg, hti, by rw [hp]; exact hget, hl0, rfl⟩
        rw [(hmap x y z _).2 hst]
    · simp only [hc, Bool.not_false, if_true]
      rw [hnone]
      intro blob ⟨b', hb', hx', hy', hz'', d1, d2, d3, d4, _⟩
      have hbb : b' = b := pairwise_unique huniq hb' hbm ⟨by omega, by omega, by omega⟩
      subst hbb
      exact hc ((contains_iff b' x y hbx hby).2 ⟨d1, d2, d3, d4⟩)

/-! ### advertised coverage contains every stored tile -/

theorem liveBlocks_eq {l : List BlockDef} (hp : l.Pairwise (fun a b => ¬ (a.x = b.x ∧ a.y = b.y ∧ a.z = b.z))) :
    liveBlocks l = l := by
  induction l with
  | nil => rfl
  | cons b rest ih =>
    rw [List.pairwise_cons] at hp
    unfold liveBlocks
    have : rest.any (fun c => c.x == b.x && c.y == b.y && c.z == b.z) = false := by
      rw [Bool.eq_false_iff]
      intro h
      rw [List.any_eq_true] at h
      obtain ⟨c, hc, hcc⟩ := h
      simp only [Bool.and_eq_true, beq_iff_eq] at hcc
      exact hp.1 c hc ⟨hcc.1.1.symm, hcc.1.2.symm, hcc.2.symm⟩
    simp only [this, Bool.false_eq_true, if_false, ih hp.2]

/-- box `a` lies inside box `b` -/
def Within (a b : BBox) : Prop := b.xmin ≤ a.xmin ∧ a.xmax ≤ b.xmax ∧ b.ymin ≤ a.ymin ∧ a.ymax ≤ b.ymax

/-- the bounding-box fold of `coverLevel` only grows and contains every folded block -/
theorem fold_cover (z : Nat) : ∀ (fl : List BlockDef) (acc : Option BBox),
    (∀ a, acc = some a → a.level = z) → (∀ b ∈ fl, b.z = z) →
    (∀ a, acc = some a → ∃ box, fl.foldl (fun acc b => match acc with
        | none => some b.global
        | some a => some ⟨z, min a.xmin b.gxmin, min a.ymin b.gymin, max a.xmax b.gxmax, max a.ymax b.gymax⟩) acc = some box ∧
        box.level = z ∧ Within a box) ∧
    (∀ b ∈ fl, ∃ box, fl.foldl (fun acc b => match acc with
        | none => some b.global
        | some a => some ⟨z, min a.xmin b.gxmin, min a.ymin b.gymin, max a.xmax b.gxmax, max a.ymax b.gymax⟩) acc = some box ∧
        box.level = z ∧ Within b.global box) := by
  intro fl
  induction fl with
  | nil =>
    intro acc hacc _
    exact ⟨fun a ha => ⟨a, by simpa using ha, hacc a ha, ⟨Nat.le_refl _, Nat.le_refl _, Nat.le_refl _, Nat.le_refl _⟩⟩,
      fun b hb => by cases hb⟩
  | cons c rest ih =>
    intro acc hacc hz
    have hcz : c.z = z := hz c (by simp)
    simp only [List.foldl_cons]
    cases acc with
    | none =>
      have ⟨i1, i2⟩ := ih (some c.global) (by intro a ha; injection ha with ha; rw [← ha]; exact hcz)
        (fun b hb => hz b (by simp [hb]))
      refine ⟨fun a ha => (by cases ha), ?_⟩
      intro b hb
      cases hb with
      | head => exact i1 c.global rfl
      | tail _ hb => exact i2 b hb
    | some a0 =>
      have ⟨i1, i2⟩ := ih (some ⟨z, min a0.xmin c.gxmin, min a0.ymin c.gymin, max a0.xmax c.gxmax, max a0.ymax c.gymax⟩)
        (by intro a ha; injection ha with ha; rw [← ha]) (fun b hb => hz b (by simp [hb]))
      obtain ⟨box, hb1, hb2, hb3⟩ := i1 _ rfl
      unfold Within at hb3
      simp only at hb3
      constructor
      · intro a ha
        injection ha with ha; subst ha
        exact ⟨box, hb1, hb2, by unfold Within; omega⟩
      · intro b hb
        cases hb with
        | head =>
          refine ⟨box, hb1, hb2, ?_⟩
          unfold Within
          simp only [BlockDef.global]
          omega
        | tail _ hb => exact i2 b hb

theorem coverLevel_contains (l : List BlockDef) (b : BlockDef) (hb : b ∈ l) :
    ∃ box, coverLevel l b.z = some box ∧ box.level = b.z ∧ Within b.global box := by
  unfold coverLevel
  have hmem : b ∈ l.filter (fun c => c.z == b.z) := by simp [hb]
  exact (fold_cover b.z _ none (fun a ha => by cases ha) (fun c hc => by simpa using (List.mem_filter.1 hc).2)).2 b hmem

/-- **coverage ⊇ tiles (versatiles)**: every stored tile lies inside the advertised box of its level -/
theorem cover_contains {K file fmt comp m} (v : ValidVersatiles K file fmt comp m) :
    ∃ r, openReader K file = .ok r ∧
      ∀ x y z blob, z ≤ 31 → m (x, y, z) = some blob →
        ∃ box ∈ cover r.blocks, box.level = z ∧ box.contains2 x y = true := by
  obtain ⟨h, blocks, h1, h2, h3, hm, ⟨c, raw, hb1, hb2, hb3⟩, huniq, hidx, hmap⟩ := v.ex
  have hopen : openReader K file = .ok ⟨file, h, blocks, K⟩ := by
    unfold openReader
    simp only [h1, ok_bind]
    by_cases hl : h.metaR.len > 0
    · obtain ⟨mb, mraw, hm1, hm2⟩ := hm hl
      simp only [hl, if_true, hm1, ok_bind, hm2, pure_eq, hb1, hb2, hb3]
    · simp only [hl, if_false, pure_eq, ok_bind, hb1, hb2, hb3]
  refine ⟨_, hopen, ?_⟩
  intro x y z blob hz hmx
  obtain ⟨b, hbm, hbx, hby, hbz, c1, c2, c3, c4, _⟩ := (hmap x y z blob).1 hmx
  obtain ⟨box, hc1, hc2, hc3⟩ := coverLevel_contains blocks b hbm
  refine ⟨box, ?_, by rw [hc2, hbz], ?_⟩
  · show box ∈ cover blocks
    unfold cover
    rw [liveBlocks_eq huniq, List.mem_filterMap]
    exact ⟨b.z, by rw [List.mem_range]; omega, hc1⟩
  · have hcon := (contains_iff b x y hbx hby).2 ⟨c1, c2, c3, c4⟩
    unfold Within at hc3
    simp only [BlockDef.global, BlockDef.gxmin, BlockDef.gymin, BlockDef.gxmax, BlockDef.gymax] at hc3
    simp only [BlockDef.global, BlockDef.gxmin, BlockDef.gymin, BlockDef.gxmax, BlockDef.gymax, BBox.contains2,
      Bool.and_eq_true, decide_eq_true_eq] at hcon
    simp only [BBox.contains2, Bool.and_eq_true, decide_eq_true_eq]
    omega

end VtProofs.VersatilesRead
