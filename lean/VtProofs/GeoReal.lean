import Mathlib.Analysis.SpecialFunctions.Trigonometric.Arctan
import Mathlib.Analysis.SpecialFunctions.Log.Basic
import Mathlib.Algebra.Order.Floor.Ring
/-!
Real-number model of the Web-Mercator conversions of `tile_coords.rs` / `tile_bbox.rs`
(`TileCoord2::from_geo`, `TileCoord3::as_geo`, `TileBBox::from_geo`, `TileBBox::as_geo_bbox`).
The `f64` code is modelled executable in `VtModel/Geo.lean`; here the same formulas are read over ℝ.
The link `f64 ↔ ℝ` is not proved (measured by the correspondence check, see known finding F15).
-/
noncomputable section
namespace VtProofs.GeoReal
open Real

/-- fractional tile column of a longitude; `Z = 2^zoom` -/
def xOf (Z lon : ℝ) : ℝ := Z * (lon / 360 + 1 / 2)
/-- fractional tile row of a latitude -/
def yOf (Z lat : ℝ) : ℝ := Z * (1 / 2 - 1 / 2 * Real.log (Real.tan (lat * π / 360 + π / 4)) / π)
/-- longitude of a (fractional) column: `TileCoord3::as_geo()[0]` -/
def lonOf (Z x : ℝ) : ℝ := (x / Z - 1 / 2) * 360
/-- latitude of a (fractional) row: `TileCoord3::as_geo()[1]` -/
def latOf (Z y : ℝ) : ℝ := (Real.arctan (Real.exp (π * (1 - 2 * y / Z))) / π - 1 / 4) * 360

/-- the documented rounding guard, in tiles -/
def guard : ℝ := 1 / 1000000

theorem xOf_lonOf {Z : ℝ} (hZ : Z ≠ 0) (x : ℝ) : xOf Z (lonOf Z x) = x := by
  unfold xOf lonOf; field_simp; ring

theorem yOf_latOf {Z : ℝ} (hZ : Z ≠ 0) (y : ℝ) : yOf Z (latOf Z y) = y := by
  unfold yOf latOf
  have hpi : π ≠ 0 := Real.pi_ne_zero
  have h1 : (Real.arctan (Real.exp (π * (1 - 2 * y / Z))) / π - 1 / 4) * 360 * π / 360 + π / 4
      = Real.arctan (Real.exp (π * (1 - 2 * y / Z))) := by field_simp; ring
  rw [h1, Real.tan_arctan, Real.log_exp]
  field_simp; ring

/-- longitudes of columns `0 … Z` are within ±180 -/
theorem lonOf_range {Z : ℝ} (hZ : 0 < Z) {x : ℝ} (h0 : 0 ≤ x) (h1 : x ≤ Z) :
    -180 ≤ lonOf Z x ∧ lonOf Z x ≤ 180 := by
  unfold lonOf
  have hx : 0 ≤ x / Z := div_nonneg h0 hZ.le
  have hx1 : x / Z ≤ 1 := (div_le_one hZ).mpr h1
  constructor <;> nlinarith

/-- every row has a latitude strictly inside ±90 -/
theorem latOf_range (Z y : ℝ) : -90 < latOf Z y ∧ latOf Z y < 90 := by
  unfold latOf
  have hpi : 0 < π := Real.pi_pos
  have h0 : 0 < Real.arctan (Real.exp (π * (1 - 2 * y / Z))) := by
    rw [← Real.arctan_zero]; exact Real.arctan_strictMono (Real.exp_pos _)
  have h1 : Real.arctan (Real.exp (π * (1 - 2 * y / Z))) < π / 2 := Real.arctan_lt_pi_div_two _
  have a0 : 0 < Real.arctan (Real.exp (π * (1 - 2 * y / Z))) / π := div_pos h0 hpi
  have a1 : Real.arctan (Real.exp (π * (1 - 2 * y / Z))) / π < 1 / 2 := by
    rw [div_lt_iff₀ hpi]; linarith
  constructor <;> linarith

/-- rows further south have smaller latitudes -/
theorem latOf_antitone {Z : ℝ} (hZ : 0 < Z) {y1 y2 : ℝ} (h : y1 ≤ y2) : latOf Z y2 ≤ latOf Z y1 := by
  unfold latOf
  have hpi : 0 < π := Real.pi_pos
  have h2 : π * (1 - 2 * y2 / Z) ≤ π * (1 - 2 * y1 / Z) := by
    apply mul_le_mul_of_nonneg_left _ hpi.le
    have : y1 / Z ≤ y2 / Z := div_le_div_of_nonneg_right h hZ.le
    have e1 : 2 * y1 / Z = 2 * (y1 / Z) := by ring
    have e2 : 2 * y2 / Z = 2 * (y2 / Z) := by ring
    rw [e1, e2]; linarith
  have h3 := Real.arctan_strictMono.monotone (Real.exp_le_exp.mpr h2)
  have h4 : Real.arctan (Real.exp (π * (1 - 2 * y2 / Z))) / π ≤ Real.arctan (Real.exp (π * (1 - 2 * y1 / Z))) / π :=
    div_le_div_of_nonneg_right h3 hpi.le
  linarith

/-- `from_geo(.., round_up = false)`: `floor(v + 1e-6)` clamped to `[0, Z-1]` -/
def roundDown (v : ℝ) (Z : ℕ) : ℤ := max 0 (min ⌊v + guard⌋ ((Z : ℤ) - 1))
/-- `from_geo(.., round_up = true)`: `floor(v − 1e-6)` clamped to `[0, Z-1]` -/
def roundUp (v : ℝ) (Z : ℕ) : ℤ := max 0 (min ⌊v - guard⌋ ((Z : ℤ) - 1))

theorem guard_pos : 0 < guard := by unfold guard; norm_num
theorem guard_lt_one : guard < 1 := by unfold guard; norm_num

/-- an integer position rounds (down, with guard) to itself -/
theorem roundDown_int (n : ℤ) (Z : ℕ) (h0 : 0 ≤ n) (h1 : n ≤ (Z : ℤ) - 1) : roundDown (n : ℝ) Z = n := by
  unfold roundDown
  have : ⌊(n : ℝ) + guard⌋ = n := by
    rw [Int.floor_eq_iff]
    exact ⟨by have := guard_pos; linarith, by have := guard_lt_one; linarith⟩
  rw [this]; omega

/-- the upper edge `n + 1` rounds (up-mode, with guard) to `n` -/
theorem roundUp_int_succ (n : ℤ) (Z : ℕ) (h0 : 0 ≤ n) (h1 : n ≤ (Z : ℤ) - 1) : roundUp ((n : ℝ) + 1) Z = n := by
  unfold roundUp
  have : ⌊(n : ℝ) + 1 - guard⌋ = n := by
    rw [Int.floor_eq_iff]
    exact ⟨by have := guard_lt_one; linarith, by have := guard_pos; linarith⟩
  rw [this]; omega

/-- lower edge of the result is not above the (clamped) position plus the guard -/
theorem roundDown_le (v : ℝ) (Z : ℕ) (hZ : 1 ≤ Z) : ((roundDown v Z : ℤ) : ℝ) ≤ max v 0 + guard := by
  unfold roundDown
  have hg := guard_pos
  by_cases h : (0 : ℤ) ≤ min ⌊v + guard⌋ ((Z : ℤ) - 1)
  · rw [max_eq_right h]
    have h1 : ((min ⌊v + guard⌋ ((Z : ℤ) - 1) : ℤ) : ℝ) ≤ (⌊v + guard⌋ : ℝ) := by
      exact_mod_cast min_le_left _ _
    have h2 : (⌊v + guard⌋ : ℝ) ≤ v + guard := Int.floor_le _
    have h3 : v ≤ max v 0 := le_max_left _ _
    linarith
  · rw [max_eq_left (by omega)]
    have h3 : (0 : ℝ) ≤ max v 0 := le_max_right _ _
    push_cast; linarith

/-- upper edge (exclusive) of the result is not below the (clamped) position minus the guard -/
theorem le_roundUp (v : ℝ) (Z : ℕ) (hZ : 1 ≤ Z) : min v (Z : ℝ) ≤ ((roundUp v Z : ℤ) : ℝ) + 1 + guard := by
  unfold roundUp
  have hg := guard_pos
  have hZ' : (1 : ℤ) ≤ (Z : ℤ) := by exact_mod_cast hZ
  by_cases h : ⌊v - guard⌋ ≤ (Z : ℤ) - 1
  · rw [min_eq_left h]
    have h1 : ((max 0 ⌊v - guard⌋ : ℤ) : ℝ) ≥ (⌊v - guard⌋ : ℝ) := by exact_mod_cast le_max_right _ _
    have h2 : v - guard < (⌊v - guard⌋ : ℝ) + 1 := Int.lt_floor_add_one _
    have h3 : min v (Z : ℝ) ≤ v := min_le_left _ _
    linarith
  · have h' : (Z : ℤ) - 1 ≤ ⌊v - guard⌋ := by omega
    have h'' : (0 : ℤ) ≤ (Z : ℤ) - 1 := by omega
    rw [min_eq_right h', max_eq_right h'']
    have h3 : min v (Z : ℝ) ≤ (Z : ℝ) := min_le_right _ _
    push_cast; linarith

end VtProofs.GeoReal
