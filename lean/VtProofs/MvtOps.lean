import VtModel.Mvt
import VtProofs.MvtTables
/-! Semantics of `filter_map_properties` (C11) and `add_from_layer` (C10) on the semantic content. -/
namespace VtProofs.MvtOps
open VtModel VtModel.Prim VtModel.Mvt VtProofs.MvtTables

def toSem (fp : Feature × Props) : SemFeature :=
  { id := fp.1.id, gtype := fp.1.gtype, geom := fp.1.geom, props := fp.2 }

theorem semFeature_extend (keys ek : List Bytes) (vals ev : List Value) (f : Feature) (sf : SemFeature)
    (h : semFeature keys vals f = some sf) : semFeature (keys ++ ek) (vals ++ ev) f = some sf := by
  unfold semFeature at h ⊢
  cases hd : decodeTags keys vals f.tags with
  | ok p =>
    rw [hd] at h
    unfold decodeTags at hd ⊢
    rw [decodePairs_extend keys ek vals ev f.tags [] p hd]
    exact h
  | err => rw [hd] at h; simp at h
  | panic => rw [hd] at h; simp at h

theorem semFeatures_extend (keys ek : List Bytes) (vals ev : List Value) :
    ∀ (fs : List Feature) (sfs : List SemFeature), semFeatures keys vals fs = some sfs →
      semFeatures (keys ++ ek) (vals ++ ev) fs = some sfs := by
  intro fs
  induction fs with
  | nil => intro sfs h; simpa [semFeatures] using h
  | cons f t ih =>
    intro sfs h
    simp only [semFeatures] at h ⊢
    cases h1 : semFeature keys vals f with
    | none => simp [h1] at h
    | some sf =>
      cases h2 : semFeatures keys vals t with
      | none => simp [h1, h2] at h
      | some st =>
        simp [h1, h2] at h
        rw [semFeature_extend _ _ _ _ _ _ h1, ih st h2]
        simp [h]

theorem semFeatures_append (keys : List Bytes) (vals : List Value) :
    ∀ (a b : List Feature) (sa sb : List SemFeature), semFeatures keys vals a = some sa →
      semFeatures keys vals b = some sb → semFeatures keys vals (a ++ b) = some (sa ++ sb) := by
  intro a
  induction a with
  | nil => intro b sa sb ha hb; simp [semFeatures] at ha; subst ha; simpa using hb
  | cons f t ih =>
    intro b sa sb ha hb
    simp only [semFeatures, List.cons_append] at ha ⊢
    cases h1 : semFeature keys vals f with
    | none => simp [h1] at ha
    | some sf =>
      cases h2 : semFeatures keys vals t with
      | none => simp [h1, h2] at ha
      | some st =>
        simp [h1, h2] at ha
        subst ha
        rw [ih b st sb h2 hb]
        simp

/-! ### third pass of `filter_map_properties` -/

theorem fmpEncode_prefix : ∀ (fps : List (Feature × Props)) (k0 : List Bytes) (v0 : List Value),
    ∃ ek ev, (fmpEncode k0 v0 fps).1 = k0 ++ ek ∧ (fmpEncode k0 v0 fps).2.1 = v0 ++ ev := by
  intro fps
  induction fps with
  | nil => intro k0 v0; exact ⟨[], [], by simp [fmpEncode], by simp [fmpEncode]⟩
  | cons hd tl ih =>
    obtain ⟨ft, p⟩ := hd
    intro k0 v0
    simp only [fmpEncode]
    obtain ⟨e1, e2, h1, h2⟩ := encodeTags_prefix p k0 v0
    obtain ⟨e3, e4, h3, h4⟩ := ih (encodeTags k0 v0 p).1 (encodeTags k0 v0 p).2.1
    exact ⟨e1 ++ e3, e2 ++ e4, by rw [h3, h1]; simp, by rw [h4, h2]; simp⟩

/-- after re-encoding, every feature reads back exactly the property set it was given, and keeps
    id, geometry type, geometry bytes and its position -/
theorem fmpEncode_sem : ∀ (fps : List (Feature × Props)) (_ : ∀ fp ∈ fps, Sorted fp.2)
    (k0 : List Bytes) (v0 : List Value),
    semFeatures (fmpEncode k0 v0 fps).1 (fmpEncode k0 v0 fps).2.1 (fmpEncode k0 v0 fps).2.2 = some (fps.map toSem) := by
  intro fps
  induction fps with
  | nil => intro _ k0 v0; simp [fmpEncode, semFeatures]
  | cons hd tl ih =>
    obtain ⟨ft, p⟩ := hd
    intro hs k0 v0
    simp only [fmpEncode, semFeatures, List.map_cons]
    obtain ⟨e3, e4, h3, h4⟩ := fmpEncode_prefix tl (encodeTags k0 v0 p).1 (encodeTags k0 v0 p).2.1
    have hp : Sorted p := hs (ft, p) (by simp)
    have hdec := decodeTags_encodeTags p hp k0 v0
    have hsf : semFeature (encodeTags k0 v0 p).1 (encodeTags k0 v0 p).2.1 { ft with tags := (encodeTags k0 v0 p).2.2 }
        = some (toSem (ft, p)) := by
      unfold semFeature
      simp [hdec, toSem]
    have := semFeature_extend _ e3 _ e4 _ _ hsf
    rw [← h3, ← h4] at this
    rw [this, ih (fun fp h => hs fp (by simp [h]))]

/-! ### first pass -/

theorem fmpDecode_spec (keys : List Bytes) (vals : List Value) (f : Props → Option Props) :
    ∀ (feats : List Feature) (fps : List (Feature × Props)), fmpDecode keys vals f feats = .ok fps →
      ∃ sfs, semFeatures keys vals feats = some sfs ∧ (∀ sf ∈ sfs, Sorted sf.props) ∧
        fps.map toSem = sfs.filterMap (fun sf => (f sf.props).map (fun p => { sf with props := p })) := by
  intro feats
  induction feats with
  | nil => intro fps h; simp [fmpDecode] at h; subst h; exact ⟨[], by simp [semFeatures]⟩
  | cons ft t ih =>
    intro fps h
    simp only [fmpDecode] at h
    cases hd : decodeTags keys vals ft.tags with
    | err => simp [hd] at h
    | panic => simp [hd] at h
    | ok p =>
      simp only [hd] at h
      cases ht : fmpDecode keys vals f t with
      | err => simp [ht] at h
      | panic => simp [ht] at h
      | ok rest =>
        simp only [ht] at h
        obtain ⟨st, h1, h2, h3⟩ := ih rest ht
        refine ⟨{ id := ft.id, gtype := ft.gtype, geom := ft.geom, props := p } :: st, ?_, ?_, ?_⟩
        · simp [semFeatures, semFeature, hd, h1]
        · intro sf hsf
          simp at hsf
          rcases hsf with e | e
          · subst e; exact decodeTags_sorted keys vals ft.tags p hd
          · exact h2 sf e
        · cases hf : f p with
          | none =>
            simp [hf] at h
            subst h
            simp [hf, h3]
          | some p' =>
            simp [hf] at h
            subst h
            simp [hf, h3, toSem]

/-- `filter_map_properties` on the semantic content: layer header untouched; retained features keep
    id / type / geometry / order and get `f (old properties)`; a feature is dropped iff `f` says `none`.
    Holds for every initial table `mk` builds. -/
theorem filterMapProps_frame (mk : List Props → List Bytes × List Value) (f : Props → Option Props)
    (hf : ∀ p p', Sorted p → f p = some p' → Sorted p') (l l' : Layer)
    (h : filterMapProps mk f l = .ok l') :
    l'.name = l.name ∧ l'.extent = l.extent ∧ l'.version = l.version ∧
    ∃ sfs, semFeatures l.keys l.vals l.features = some sfs ∧
      semFeatures l'.keys l'.vals l'.features =
        some (sfs.filterMap (fun sf => (f sf.props).map (fun p => { sf with props := p }))) := by
  unfold filterMapProps at h
  cases hd : fmpDecode l.keys l.vals f l.features with
  | err => simp [hd] at h
  | panic => simp [hd] at h
  | ok fps =>
    simp only [hd] at h
    obtain ⟨sfs, h1, h2, h3⟩ := fmpDecode_spec l.keys l.vals f l.features fps hd
    have hsorted : ∀ fp ∈ fps, Sorted fp.2 := by
      intro fp hfp
      have : toSem fp ∈ fps.map toSem := List.mem_map_of_mem hfp
      rw [h3] at this
      simp only [List.mem_filterMap] at this
      obtain ⟨sf, hsf, hm⟩ := this
      cases hfs : f sf.props with
      | none => simp [hfs] at hm
      | some p' =>
        simp [hfs] at hm
        have : fp.2 = p' := by
          have := congrArg SemFeature.props hm
          simpa [toSem] using this.symm
        rw [this]
        exact hf _ _ (h2 sf hsf) hfs
    have hsem := fmpEncode_sem fps hsorted (mk (fps.map (·.2))).1 (mk (fps.map (·.2))).2
    simp only [Outcome.ok.injEq] at h
    subst h
    refine ⟨rfl, rfl, rfl, sfs, h1, ?_⟩
    simp only
    rw [← h3]
    exact hsem

/-! ### `add_from_layer` -/

theorem addFeatures_sem (src : Layer) : ∀ (feats : List Feature) (tgt tgt' : Layer) (old : List SemFeature),
    semFeatures tgt.keys tgt.vals tgt.features = some old →
    addFeatures src feats tgt = .ok tgt' →
    tgt'.name = tgt.name ∧ tgt'.extent = tgt.extent ∧ tgt'.version = tgt.version ∧
    ∃ new, semFeatures src.keys src.vals feats = some new ∧
      semFeatures tgt'.keys tgt'.vals tgt'.features = some (old ++ new) := by
  intro feats
  induction feats with
  | nil =>
    intro tgt tgt' old hold h
    simp [addFeatures] at h
    subst h
    exact ⟨rfl, rfl, rfl, [], by simp [semFeatures], by simpa using hold⟩
  | cons ft t ih =>
    intro tgt tgt' old hold h
    simp only [addFeatures] at h
    cases hd : decodeTags src.keys src.vals ft.tags with
    | err => simp [hd] at h
    | panic => simp [hd] at h
    | ok p =>
      simp only [hd] at h
      have hp : Sorted p := decodeTags_sorted _ _ _ _ hd
      obtain ⟨e1, e2, hk, hv⟩ := encodeTags_prefix p tgt.keys tgt.vals
      have hdec := decodeTags_encodeTags p hp tgt.keys tgt.vals
      -- the target after this feature
      have hold' : semFeatures (encodeTags tgt.keys tgt.vals p).1 (encodeTags tgt.keys tgt.vals p).2.1
          (tgt.features ++ [{ ft with tags := (encodeTags tgt.keys tgt.vals p).2.2 }])
          = some (old ++ [{ id := ft.id, gtype := ft.gtype, geom := ft.geom, props := p }]) := by
        apply semFeatures_append
        · rw [hk, hv]; exact semFeatures_extend _ _ _ _ _ _ hold
        · simp [semFeatures, semFeature, hdec]
      obtain ⟨hn, he, hvv, new, hnew, hres⟩ := ih _ tgt' _ hold' h
      refine ⟨hn, he, hvv, { id := ft.id, gtype := ft.gtype, geom := ft.geom, props := p } :: new, ?_, ?_⟩
      · simp [semFeatures, semFeature, hd, hnew]
      · rw [hres]; simp

end VtProofs.MvtOps
