/-
Proofs about the PMTiles Hilbert tile ids (`VtModel.Hilbert`), all for unbounded `k`/`z`.

* specification: `enc_lt`, `dec_lt`, `dec_enc`, `enc_dec` (`enc k` is a bijection
  `[0,2^k)² ↔ [0,4^k)`), `base_succ`, `base_mono`, `tileIdToCoord_coordToTileId`,
  `coordToTileId_tileIdToCoord`, `coordToTileId_injective`, `coordToTileId_surjective`.
* bridge to the Rust loops: `coordToTileIdLoop_eq` / `coordToTileIdLoop_err` (invariant
  `encLoop_eq`: only the low `k` two's complement bits of `tx, ty` matter),
  `tileIdToCoordLoop_iff` / `tileIdToCoordLoop_eq` / `tileIdToCoordLoop_err` (invariants
  `decLoop_eq`, `searchLoop_ok`), `loop_roundtrip`, `loop_roundtrip'`.
-/
import VtModel.Hilbert

namespace VtProofs.Hilbert
open VtModel VtModel.Hilbert

/-! ### arithmetic helpers -/

theorem four_pow (k : Nat) : 4 ^ k = 2 ^ k * 2 ^ k := by
  show (2 * 2) ^ k = _
  exact Nat.mul_pow 2 2 k

theorem div_of (S q r : Nat) (h : r < S) : (q * S + r) / S = q := by
  have hS : 0 < S := by omega
  rw [Nat.mul_comm, Nat.mul_add_div hS, Nat.div_eq_of_lt h]; rfl

theorem mod_of (S q r : Nat) (h : r < S) : (q * S + r) % S = r := by
  rw [Nat.mul_comm, Nat.mul_add_mod, Nat.mod_eq_of_lt h]

/-! ### `quad`, `rot` -/

theorem quad_lt {rx ry : Nat} (hy : ry < 2) : quad rx ry < 4 := by
  unfold quad; split <;> omega

theorem quad_div {rx ry : Nat} (hx : rx < 2) (hy : ry < 2) : quad rx ry / 2 = rx := by
  unfold quad; split <;> omega

theorem quad_par {rx ry : Nat} (hx : rx < 2) (hy : ry < 2) :
    (quad rx ry + rx) % 2 = ry := by
  unfold quad; split <;> omega

theorem quad_of_digit {q : Nat} (hq : q < 4) : quad (q / 2) ((q + q / 2) % 2) = q := by
  have : q = 0 ∨ q = 1 ∨ q = 2 ∨ q = 3 := by omega
  rcases this with rfl | rfl | rfl | rfl <;> decide

theorem rot_lt {s x y : Nat} (rx ry : Nat) (hx : x < s) (hy : y < s) :
    (rot s x y rx ry).1 < s ∧ (rot s x y rx ry).2 < s := by
  unfold rot; split <;> (try split) <;> simp <;> omega

theorem rot_rot {s x y : Nat} (rx ry : Nat) (hx : x < s) (hy : y < s) :
    rot s (rot s x y rx ry).1 (rot s x y rx ry).2 rx ry = (x, y) := by
  unfold rot; split <;> (try split) <;> simp <;> omega

/-! ### `enc` / `dec` -/

theorem enc_succ (k x y : Nat) :
    enc (k + 1) x y =
      quad (x / 2 ^ k % 2) (y / 2 ^ k % 2) * 4 ^ k +
        enc k (rot (2 ^ k) (x % 2 ^ k) (y % 2 ^ k) (x / 2 ^ k % 2) (y / 2 ^ k % 2)).1
              (rot (2 ^ k) (x % 2 ^ k) (y % 2 ^ k) (x / 2 ^ k % 2) (y / 2 ^ k % 2)).2 := rfl

theorem dec_succ (k d : Nat) :
    dec (k + 1) d =
      ((rot (2 ^ k) (dec k (d % 4 ^ k)).1 (dec k (d % 4 ^ k)).2 (d / 4 ^ k % 4 / 2)
            ((d / 4 ^ k % 4 + d / 4 ^ k % 4 / 2) % 2)).1 + d / 4 ^ k % 4 / 2 * 2 ^ k,
       (rot (2 ^ k) (dec k (d % 4 ^ k)).1 (dec k (d % 4 ^ k)).2 (d / 4 ^ k % 4 / 2)
            ((d / 4 ^ k % 4 + d / 4 ^ k % 4 / 2) % 2)).2 +
          (d / 4 ^ k % 4 + d / 4 ^ k % 4 / 2) % 2 * 2 ^ k) := rfl

/-- `enc k` is bounded by `4^k` for arbitrary arguments (they are reduced mod `2^k`). -/
theorem enc_lt' (k x y : Nat) : enc k x y < 4 ^ k := by
  induction k generalizing x y with
  | zero => simp [enc]
  | succ k ih =>
    rw [enc_succ]
    have hq : quad (x / 2 ^ k % 2) (y / 2 ^ k % 2) < 4 := quad_lt (Nat.mod_lt _ (by omega))
    have h1 := ih (rot (2 ^ k) (x % 2 ^ k) (y % 2 ^ k) (x / 2 ^ k % 2) (y / 2 ^ k % 2)).1
      (rot (2 ^ k) (x % 2 ^ k) (y % 2 ^ k) (x / 2 ^ k % 2) (y / 2 ^ k % 2)).2
    have h2 : quad (x / 2 ^ k % 2) (y / 2 ^ k % 2) * 4 ^ k ≤ 3 * 4 ^ k :=
      Nat.mul_le_mul_right _ (by omega)
    rw [Nat.pow_succ]; omega

theorem enc_lt {k x y : Nat} (_hx : x < 2 ^ k) (_hy : y < 2 ^ k) : enc k x y < 4 ^ k :=
  enc_lt' k x y

/-- `enc k` only depends on its arguments modulo `2^k`. -/
theorem enc_mod (k x y : Nat) : enc k (x % 2 ^ k) (y % 2 ^ k) = enc k x y := by
  cases k with
  | zero => rfl
  | succ k =>
    have hp : (2:Nat) ^ (k + 1) = 2 ^ k * 2 := by rw [Nat.pow_succ]
    have e1 : ∀ v : Nat, v % 2 ^ (k + 1) / 2 ^ k % 2 = v / 2 ^ k % 2 := by
      intro v
      rw [hp, Nat.mod_mul_right_div_self, Nat.mod_mod]
    have e2 : ∀ v : Nat, v % 2 ^ (k + 1) % 2 ^ k = v % 2 ^ k := by
      intro v
      rw [hp]; exact Nat.mod_mul_right_mod v (2 ^ k) 2
    rw [enc_succ, enc_succ, e1, e1, e2, e2]

/-- `dec k` lands in the `2^k × 2^k` square for arbitrary `d`. -/
theorem dec_lt' (k d : Nat) : (dec k d).1 < 2 ^ k ∧ (dec k d).2 < 2 ^ k := by
  induction k generalizing d with
  | zero => simp [dec]
  | succ k ih =>
    rw [dec_succ]
    have h := ih (d % 4 ^ k)
    have hr := rot_lt (d / 4 ^ k % 4 / 2) ((d / 4 ^ k % 4 + d / 4 ^ k % 4 / 2) % 2) h.1 h.2
    have hrx : d / 4 ^ k % 4 / 2 < 2 := by omega
    have hry : (d / 4 ^ k % 4 + d / 4 ^ k % 4 / 2) % 2 < 2 := Nat.mod_lt _ (by omega)
    have m1 : d / 4 ^ k % 4 / 2 * 2 ^ k ≤ 1 * 2 ^ k := Nat.mul_le_mul_right _ (by omega)
    have m2 : (d / 4 ^ k % 4 + d / 4 ^ k % 4 / 2) % 2 * 2 ^ k ≤ 1 * 2 ^ k :=
      Nat.mul_le_mul_right _ (by omega)
    rw [Nat.pow_succ]
    simp only
    omega

theorem dec_lt {k d : Nat} (_h : d < 4 ^ k) : (dec k d).1 < 2 ^ k ∧ (dec k d).2 < 2 ^ k :=
  dec_lt' k d

/-- splitting `x < 2^(k+1)` into its top bit and the rest. -/
theorem top_bit {k x : Nat} (hx : x < 2 ^ (k + 1)) :
    x / 2 ^ k % 2 < 2 ∧ x % 2 ^ k < 2 ^ k ∧ x % 2 ^ k + x / 2 ^ k % 2 * 2 ^ k = x := by
  have hpos : 0 < 2 ^ k := Nat.two_pow_pos k
  have hlt : x / 2 ^ k < 2 := by
    rw [Nat.div_lt_iff_lt_mul hpos, Nat.mul_comm, ← Nat.pow_succ]; exact hx
  refine ⟨Nat.mod_lt _ (by omega), Nat.mod_lt _ hpos, ?_⟩
  rw [Nat.mod_eq_of_lt hlt, Nat.mul_comm]
  exact Nat.mod_add_div x (2 ^ k)

theorem dec_enc {k x y : Nat} (hx : x < 2 ^ k) (hy : y < 2 ^ k) :
    dec k (enc k x y) = (x, y) := by
  induction k generalizing x y with
  | zero =>
    simp at hx hy; subst hx; subst hy; rfl
  | succ k ih =>
    obtain ⟨hrx, hxm, hxe⟩ := top_bit hx
    obtain ⟨hry, hym, hye⟩ := top_bit hy
    rw [enc_succ]
    generalize hrxd : x / 2 ^ k % 2 = rx at *
    generalize hryd : y / 2 ^ k % 2 = ry at *
    generalize hxmd : x % 2 ^ k = xm at *
    generalize hymd : y % 2 ^ k = ym at *
    have hp := rot_lt rx ry hxm hym
    have he := enc_lt' k (rot (2 ^ k) xm ym rx ry).1 (rot (2 ^ k) xm ym rx ry).2
    rw [dec_succ, div_of _ _ _ he, mod_of _ _ _ he, Nat.mod_eq_of_lt (quad_lt hry),
      quad_div hrx hry, quad_par hrx hry, ih hp.1 hp.2, rot_rot rx ry hxm hym]
    simp only [hxe, hye]

theorem enc_dec {k d : Nat} (h : d < 4 ^ k) : enc k (dec k d).1 (dec k d).2 = d := by
  induction k generalizing d with
  | zero => simp at h; subst h; rfl
  | succ k ih =>
    have hpos : 0 < 4 ^ k := Nat.pow_pos (by omega)
    have hdm : d % 4 ^ k < 4 ^ k := Nat.mod_lt _ hpos
    have hq : d / 4 ^ k < 4 := by
      rw [Nat.div_lt_iff_lt_mul hpos, Nat.mul_comm, ← Nat.pow_succ]; exact h
    have hsplit : d / 4 ^ k * 4 ^ k + d % 4 ^ k = d := by
      rw [Nat.mul_comm]; exact Nat.div_add_mod d (4 ^ k)
    have hpl := dec_lt' k (d % 4 ^ k)
    have ihd := ih hdm
    rw [dec_succ, Nat.mod_eq_of_lt hq]
    generalize d / 4 ^ k = q at *
    generalize d % 4 ^ k = dm at *
    have hrx : q / 2 < 2 := by omega
    have hry : (q + q / 2) % 2 < 2 := Nat.mod_lt _ (by omega)
    have hr := rot_lt (q / 2) ((q + q / 2) % 2) hpl.1 hpl.2
    rw [enc_succ]
    simp only
    rw [Nat.add_comm _ (q / 2 * 2 ^ k), Nat.add_comm _ ((q + q / 2) % 2 * 2 ^ k),
      div_of _ _ _ hr.1, div_of _ _ _ hr.2, mod_of _ _ _ hr.1, mod_of _ _ _ hr.2,
      Nat.mod_eq_of_lt hrx, Nat.mod_eq_of_lt hry, rot_rot _ _ hpl.1 hpl.2,
      quad_of_digit hq, ihd]
    exact hsplit

/-! ### `base`, zoom search, round trips -/

theorem base_succ (z : Nat) : base (z + 1) = base z + 4 ^ z := rfl

theorem base_mono {a b : Nat} (h : a ≤ b) : base a ≤ base b := by
  induction b with
  | zero => have : a = 0 := by omega
            subst this; exact Nat.le_refl _
  | succ b ih =>
    rcases Nat.lt_or_eq_of_le h with h' | h'
    · exact Nat.le_trans (ih (by omega)) (Nat.le_add_right _ _)
    · subst h'; exact Nat.le_refl _

theorem base_strictMono {a b : Nat} (h : a < b) : base a < base b := by
  have h1 : base (a + 1) ≤ base b := base_mono h
  have h2 : 0 < 4 ^ a := Nat.pow_pos (by omega)
  rw [base_succ] at h1; omega

theorem le_base (z : Nat) : z ≤ base z := by
  induction z with
  | zero => exact Nat.le_refl _
  | succ z ih =>
    have h2 : 0 < 4 ^ z := Nat.pow_pos (by omega)
    rw [base_succ]; omega

theorem zoom_unique {id a b : Nat} (ha : base a ≤ id) (ha' : id < base (a + 1))
    (hb : base b ≤ id) (hb' : id < base (b + 1)) : a = b := by
  rcases Nat.lt_trichotomy a b with h | h | h
  · have := base_mono (show a + 1 ≤ b from h); omega
  · exact h
  · have := base_mono (show b + 1 ≤ a from h); omega

theorem findZ_spec (id fuel z : Nat) (h1 : base z ≤ id) (h2 : id < z + fuel) :
    base (findZ id fuel z) ≤ id ∧ id < base (findZ id fuel z + 1) := by
  induction fuel generalizing z with
  | zero => have := le_base z; omega
  | succ f ih =>
    rw [findZ]
    split
    · exact ⟨h1, by assumption⟩
    · exact ih (z + 1) (by omega) (by omega)

theorem zoomOf_spec (id : Nat) : base (zoomOf id) ≤ id ∧ id < base (zoomOf id + 1) :=
  findZ_spec id (id + 1) 0 (Nat.zero_le _) (by omega)

theorem zoomOf_eq {id z : Nat} (h1 : base z ≤ id) (h2 : id < base (z + 1)) : zoomOf id = z :=
  zoom_unique (zoomOf_spec id).1 (zoomOf_spec id).2 h1 h2

theorem tileIdToCoord_eq (id : Nat) :
    tileIdToCoord id =
      some ((dec (zoomOf id) (id - base (zoomOf id))).1,
            (dec (zoomOf id) (id - base (zoomOf id))).2, zoomOf id) := rfl

theorem tileIdToCoord_coordToTileId {x y z : Nat} (hx : x < 2 ^ z) (hy : y < 2 ^ z) :
    tileIdToCoord (coordToTileId x y z) = some (x, y, z) := by
  have he := enc_lt' z x y
  have hz : zoomOf (coordToTileId x y z) = z :=
    zoomOf_eq (by unfold coordToTileId; omega) (by unfold coordToTileId; rw [base_succ]; omega)
  have hd : coordToTileId x y z - base z = enc z x y := by unfold coordToTileId; omega
  rw [tileIdToCoord_eq, hz, hd, dec_enc hx hy]

theorem tileIdToCoord_range {id x y z : Nat} (h : tileIdToCoord id = some (x, y, z)) :
    x < 2 ^ z ∧ y < 2 ^ z ∧ base z ≤ id ∧ id < base (z + 1) := by
  rw [tileIdToCoord_eq] at h
  simp only [Option.some.injEq, Prod.mk.injEq] at h
  obtain ⟨h1, h2, h3⟩ := h
  have hs := zoomOf_spec id
  have hl := dec_lt' (zoomOf id) (id - base (zoomOf id))
  rw [h1, h2, h3] at hl
  rw [h3] at hs
  exact ⟨hl.1, hl.2, hs.1, hs.2⟩

theorem coordToTileId_tileIdToCoord {id x y z : Nat} (h : tileIdToCoord id = some (x, y, z)) :
    coordToTileId x y z = id := by
  rw [tileIdToCoord_eq] at h
  simp only [Option.some.injEq, Prod.mk.injEq] at h
  obtain ⟨h1, h2, h3⟩ := h
  have hs := zoomOf_spec id
  rw [h3] at h1 h2 hs
  have hd : id - base z < 4 ^ z := by rw [base_succ] at hs; omega
  have := enc_dec hd
  rw [h1, h2] at this
  unfold coordToTileId; omega

/-- `coordToTileId` is injective on valid coordinates, across zoom levels. -/
theorem coordToTileId_injective {x y z x' y' z' : Nat}
    (hx : x < 2 ^ z) (hy : y < 2 ^ z) (hx' : x' < 2 ^ z') (hy' : y' < 2 ^ z')
    (h : coordToTileId x y z = coordToTileId x' y' z') : (x, y, z) = (x', y', z') := by
  have h1 := tileIdToCoord_coordToTileId hx hy
  have h2 := tileIdToCoord_coordToTileId hx' hy'
  rw [h, h2] at h1
  exact (Option.some.inj h1).symm

/-- every id is the id of exactly one valid tile: `coordToTileId` is onto. -/
theorem coordToTileId_surjective (id : Nat) :
    ∃ x y z, x < 2 ^ z ∧ y < 2 ^ z ∧ coordToTileId x y z = id := by
  have h := tileIdToCoord_eq id
  have hr := tileIdToCoord_range h
  exact ⟨_, _, _, hr.1, hr.2.1, coordToTileId_tileIdToCoord h⟩

/-! ### bridge: encoder loop = specification -/

theorem accLoop_eq_base (z : Nat) : accLoop z = base z := by
  induction z with
  | zero => rfl
  | succ z ih =>
    unfold accLoop at *
    rw [List.range_succ, List.foldl_append, ih]
    simp only [List.foldl_cons, List.foldl_nil, Nat.one_shiftLeft]
    rw [base_succ, Nat.mul_comm, Nat.pow_mul]

theorem two_pow_pos_int (k : Nat) : 0 < (2 : Int) ^ k := Int.pow_pos (by decide)

theorem pow_succ_div_two (k : Nat) : (2 : Int) ^ (k + 1) / 2 = 2 ^ k := by
  rw [Int.pow_succ]; exact Int.mul_ediv_cancel _ (by decide)

/-- the low `k` bits of a two's complement integer, as a natural number. -/
def lo (k : Nat) (v : Int) : Nat := (v % (2 : Int) ^ k).toNat

/-- bit `k` of a two's complement integer (the loop's `rx`, `ry`). -/
def bitOf (v : Int) (k : Nat) : Nat := if hasBit v ((2 : Int) ^ k) then 1 else 0

theorem bitOf_lt (v : Int) (k : Nat) : bitOf v k < 2 := by
  unfold bitOf; split <;> omega

theorem cast_two_pow (k : Nat) : ((2 ^ k : Nat) : Int) = (2 : Int) ^ k := by simp

theorem lo_lt (k : Nat) (v : Int) : lo k v < 2 ^ k := by
  have h1 := Int.emod_nonneg v (Int.ne_of_gt (two_pow_pos_int k))
  have h2 := Int.emod_lt_of_pos v (two_pow_pos_int k)
  have hc := cast_two_pow k
  unfold lo; omega

theorem lo_cast (k : Nat) (v : Int) : ((lo k v : Nat) : Int) = v % (2 : Int) ^ k := by
  have h1 := Int.emod_nonneg v (Int.ne_of_gt (two_pow_pos_int k))
  unfold lo; omega

theorem emod_two_mul (v S : Int) (hS : 0 < S) :
    v % (2 * S) = S * ((v / S) % 2) + v % S := by
  have h0 := Int.mul_ediv_add_emod v S
  have hr0 := Int.emod_nonneg v (Int.ne_of_gt hS)
  have hr1 := Int.emod_lt_of_pos v hS
  generalize v / S = q at *
  generalize v % S = r at *
  have hb : q % 2 = 0 ∨ q % 2 = 1 := by omega
  have hv : v = (S * (q % 2) + r) + (2 * S) * (q / 2) := by grind
  rw [hv, Int.add_mul_emod_self_left]
  apply Int.emod_eq_of_lt <;> rcases hb with hb | hb <;> rw [hb] <;> omega

/-- the low `k+1` bits are bit `k` followed by the low `k` bits. -/
theorem lo_succ (k : Nat) (v : Int) : lo (k + 1) v = bitOf v k * 2 ^ k + lo k v := by
  have hS := two_pow_pos_int k
  have h := emod_two_mul v _ hS
  have hl := lo_cast k v
  have hl1 := lo_cast (k + 1) v
  have hc := cast_two_pow k
  have hp : (2 : Int) ^ (k + 1) = 2 * 2 ^ k := by rw [Int.pow_succ, Int.mul_comm]
  have hb : (v / (2 : Int) ^ k) % 2 = 0 ∨ (v / (2 : Int) ^ k) % 2 = 1 := by omega
  rw [hp, h, ← hl] at hl1
  unfold bitOf hasBit
  rcases hb with hb | hb <;> rw [hb] at hl1 ⊢ <;> simp <;> omega

theorem lo_succ_mod (k : Nat) (v : Int) : lo (k + 1) v % 2 ^ k = lo k v := by
  rw [lo_succ, mod_of _ _ _ (lo_lt k v)]

theorem lo_succ_bit (k : Nat) (v : Int) : lo (k + 1) v / 2 ^ k % 2 = bitOf v k := by
  rw [lo_succ, div_of _ _ _ (lo_lt k v), Nat.mod_eq_of_lt (bitOf_lt v k)]

/-- `s - 1 - v` complements the low bits (also when `v ≥ s` or `v < 0`). -/
theorem lo_compl (k : Nat) (v : Int) : lo k ((2 : Int) ^ k - 1 - v) = 2 ^ k - 1 - lo k v := by
  have hS := two_pow_pos_int k
  have h0 := Int.mul_ediv_add_emod v ((2 : Int) ^ k)
  have hr0 := Int.emod_nonneg v (Int.ne_of_gt hS)
  have hr1 := Int.emod_lt_of_pos v hS
  have hc := cast_two_pow k
  have hl := lo_cast k v
  have hv : (2 : Int) ^ k - 1 - v
      = ((2 : Int) ^ k - 1 - v % (2 : Int) ^ k) + (2 : Int) ^ k * (-(v / (2 : Int) ^ k)) := by
    rw [Int.mul_neg]; omega
  have h2 : ((2 : Int) ^ k - 1 - v) % (2 : Int) ^ k = (2 : Int) ^ k - 1 - v % (2 : Int) ^ k := by
    rw [hv, Int.add_mul_emod_self_left]
    exact Int.emod_eq_of_lt (by omega) (by omega)
  have hl' := lo_cast k ((2 : Int) ^ k - 1 - v)
  omega

theorem lo_rotate (k : Nat) (tx ty : Int) (rx ry : Nat) :
    lo k (rotate ((2 : Int) ^ k) tx ty rx ry).1 = (rot (2 ^ k) (lo k tx) (lo k ty) rx ry).1 ∧
    lo k (rotate ((2 : Int) ^ k) tx ty rx ry).2 = (rot (2 ^ k) (lo k tx) (lo k ty) rx ry).2 := by
  unfold rotate rot
  split
  · split <;> simp [lo_compl]
  · simp

theorem xor_eq_quad {rx ry : Nat} (hx : rx < 2) (hy : ry < 2) : (3 * rx) ^^^ ry = quad rx ry := by
  have h1 : rx = 0 ∨ rx = 1 := by omega
  have h2 : ry = 0 ∨ ry = 1 := by omega
  rcases h1 with rfl | rfl <;> rcases h2 with rfl | rfl <;> decide

theorem encLoop_step (f k : Nat) (tx ty d : Int) :
    encLoop (f + 1) ((2 : Int) ^ k) tx ty d =
      encLoop f ((2 : Int) ^ k / 2)
        (rotate ((2 : Int) ^ k) tx ty (bitOf tx k) (bitOf ty k)).1
        (rotate ((2 : Int) ^ k) tx ty (bitOf tx k) (bitOf ty k)).2
        (d + (2 : Int) ^ k * (2 : Int) ^ k * (((3 * bitOf tx k) ^^^ bitOf ty k : Nat) : Int)) := by
  rw [encLoop, if_pos (two_pow_pos_int k)]
  rfl

/-- loop invariant of the encoder: with `k` levels left only the low `k` bits of the
    (possibly negative or too large) `tx, ty` matter. -/
theorem encLoop_eq (k : Nat) : ∀ (fuel : Nat) (tx ty d : Int), k ≤ fuel →
    encLoop fuel ((2 : Int) ^ k / 2) tx ty d = d + ((enc k (lo k tx) (lo k ty) : Nat) : Int) := by
  induction k with
  | zero =>
    intro fuel tx ty d _
    have h0 : (2 : Int) ^ 0 / 2 = 0 := by decide
    rw [h0]
    cases fuel with
    | zero => simp [encLoop, enc]
    | succ f => simp [encLoop, enc]
  | succ k ih =>
    intro fuel tx ty d hf
    obtain ⟨f, rfl⟩ : ∃ f, fuel = f + 1 := ⟨fuel - 1, by omega⟩
    rw [pow_succ_div_two, encLoop_step, ih f _ _ _ (by omega)]
    have hr := lo_rotate k tx ty (bitOf tx k) (bitOf ty k)
    rw [hr.1, hr.2, enc_succ, lo_succ_mod, lo_succ_mod, lo_succ_bit, lo_succ_bit,
      xor_eq_quad (bitOf_lt tx k) (bitOf_lt ty k), four_pow k]
    have hc := cast_two_pow k
    simp only [Int.natCast_add, Int.natCast_mul, hc]
    grind

theorem i64AsU64_cast {n : Nat} (h : n < 2 ^ 64) : i64AsU64 (n : Int) = n := by
  unfold i64AsU64; omega

theorem base32_lt : base 32 < 2 ^ 64 := by decide

/-- BRIDGE (encoder): on valid input the Rust loop computes the specification. -/
theorem coordToTileIdLoop_eq {x y z : Nat} (hz : z < 32) (hx : x < 2 ^ z) (hy : y < 2 ^ z) :
    coordToTileIdLoop x y z = .ok (coordToTileId x y z) := by
  have hlx : lo z (x : Int) = x := by
    have := lo_cast z x; have := cast_two_pow z
    have := Int.emod_eq_of_lt (a := (x : Int)) (b := (2 : Int) ^ z) (by omega) (by omega)
    omega
  have hly : lo z (y : Int) = y := by
    have := lo_cast z y; have := cast_two_pow z
    have := Int.emod_eq_of_lt (a := (y : Int)) (b := (2 : Int) ^ z) (by omega) (by omega)
    omega
  have hb : coordToTileId x y z < 2 ^ 64 := by
    have h1 := enc_lt' z x y
    have h2 : base (z + 1) ≤ base 32 := base_mono (by omega)
    have h3 := base32_lt
    unfold coordToTileId; rw [base_succ] at h2; omega
  unfold coordToTileIdLoop
  rw [if_neg (by omega), Nat.one_shiftLeft]
  have hc : ¬ ((x ≥ 2 ^ z || y ≥ 2 ^ z) = true) := by simp; omega
  rw [if_neg hc]
  simp only [cast_two_pow]
  rw [encLoop_eq z z _ _ _ (Nat.le_refl _), hlx, hly, accLoop_eq_base, Int.zero_add,
    ← Int.natCast_add]
  exact congrArg _ (i64AsU64_cast hb)

/-- the two `bail!`s of the encoder. -/
theorem coordToTileIdLoop_err {x y z : Nat} (h : 32 ≤ z ∨ 2 ^ z ≤ x ∨ 2 ^ z ≤ y) :
    coordToTileIdLoop x y z = .err := by
  unfold coordToTileIdLoop
  by_cases hz : z ≥ 32
  · rw [if_pos hz]
  · rw [if_neg hz, Nat.one_shiftLeft]
    have hc : (x ≥ 2 ^ z || y ≥ 2 ^ z) = true := by simp; omega
    rw [if_pos hc]

/-! ### bridge: decoder loop = specification -/

/-- `dec k` only depends on `d` modulo `4^k`. -/
theorem dec_mod (k d : Nat) : dec k (d % 4 ^ k) = dec k d := by
  cases k with
  | zero => rfl
  | succ k =>
    have hp : (4 : Nat) ^ (k + 1) = 4 ^ k * 4 := by rw [Nat.pow_succ]
    rw [dec_succ, dec_succ, hp, Nat.mod_mul_right_div_self, Nat.mod_mod,
      Nat.mod_mul_right_mod]

theorem rotate_cast {s x y : Nat} (rx ry : Nat) (hx : x < s) (hy : y < s) :
    rotate (s : Int) (x : Int) (y : Int) rx ry =
      ((((rot s x y rx ry).1 : Nat) : Int), (((rot s x y rx ry).2 : Nat) : Int)) := by
  unfold rotate rot
  split
  · split <;> simp <;> omega
  · simp

theorem dec_rx (t : Nat) : (t / 2) &&& 1 = t % 4 / 2 := by
  rw [Nat.and_one_is_mod]; omega

theorem dec_ry (t : Nat) : (t ^^^ ((t / 2) &&& 1)) &&& 1 = (t % 4 + t % 4 / 2) % 2 := by
  rw [Nat.and_one_is_mod, Nat.and_one_is_mod]
  have h := @Nat.xor_mod_two_pow t (t / 2 % 2) 1
  rw [Nat.pow_one] at h
  rw [h]
  have h1 : t % 4 = 0 ∨ t % 4 = 1 ∨ t % 4 = 2 ∨ t % 4 = 3 := by omega
  have h2 : t % 2 = t % 4 % 2 := by omega
  have h3 : t / 2 % 2 = t % 4 / 2 := by omega
  rw [h2, h3]
  rcases h1 with h1 | h1 | h1 | h1 <;> rw [h1] <;> decide

theorem decLoop_step (f : Nat) (n s : Int) (t : Nat) (tx ty : Int) (h : s < n) :
    decLoop (f + 1) n s t tx ty =
      decLoop f n (s * 2) (t / 4)
        (if (t / 2) &&& 1 = 1 then
            (rotate s tx ty ((t / 2) &&& 1) ((t ^^^ ((t / 2) &&& 1)) &&& 1)).1 + s
          else (rotate s tx ty ((t / 2) &&& 1) ((t ^^^ ((t / 2) &&& 1)) &&& 1)).1)
        (if (t ^^^ ((t / 2) &&& 1)) &&& 1 = 1 then
            (rotate s tx ty ((t / 2) &&& 1) ((t ^^^ ((t / 2) &&& 1)) &&& 1)).2 + s
          else (rotate s tx ty ((t / 2) &&& 1) ((t ^^^ ((t / 2) &&& 1)) &&& 1)).2) := by
  rw [decLoop, if_pos h]

theorem ite_add_cast (b s a : Nat) (hb : b < 2) :
    (if b = 1 then ((a : Nat) : Int) + ((s : Nat) : Int) else (a : Int)) = ((a + b * s : Nat) : Int) := by
  have h : b = 0 ∨ b = 1 := by omega
  rcases h with rfl | rfl <;> simp

/-- loop invariant of the decoder: after `j` iterations the state is `dec j d` and
    `t = d / 4^j`; `m` iterations remain. -/
theorem decLoop_eq (m : Nat) : ∀ (j fuel d : Nat), m ≤ fuel →
    decLoop fuel (((2 ^ (j + m) : Nat)) : Int) ((2 ^ j : Nat) : Int) (d / 4 ^ j)
        (((dec j d).1 : Nat) : Int) (((dec j d).2 : Nat) : Int) =
      ((((dec (j + m) d).1 : Nat) : Int), (((dec (j + m) d).2 : Nat) : Int)) := by
  induction m with
  | zero =>
    intro j fuel d _
    cases fuel with
    | zero => rfl
    | succ f => rw [decLoop, if_neg (by simp)]; rfl
  | succ m ih =>
    intro j fuel d hf
    obtain ⟨f, rfl⟩ : ∃ f, fuel = f + 1 := ⟨fuel - 1, by omega⟩
    have hlt : ((2 ^ j : Nat) : Int) < ((2 ^ (j + (m + 1)) : Nat) : Int) := by
      have : 2 ^ j < 2 ^ (j + (m + 1)) := Nat.pow_lt_pow_right (by omega) (by omega)
      omega
    have hd := dec_lt' j d
    rw [decLoop_step _ _ _ _ _ _ hlt, dec_ry, dec_rx, rotate_cast _ _ hd.1 hd.2]
    simp only
    rw [ite_add_cast _ _ _ (by omega), ite_add_cast _ _ _ (Nat.mod_lt _ (by omega))]
    have hs : ((2 ^ j : Nat) : Int) * 2 = ((2 ^ (j + 1) : Nat) : Int) := by
      rw [Nat.pow_succ]; simp
    have hn : j + (m + 1) = (j + 1) + m := by omega
    have ht : d / 4 ^ j / 4 = d / 4 ^ (j + 1) := by
      rw [Nat.div_div_eq_div_mul, Nat.pow_succ]
    have hdec : dec (j + 1) d =
        ((rot (2 ^ j) (dec j d).1 (dec j d).2 (d / 4 ^ j % 4 / 2)
            ((d / 4 ^ j % 4 + d / 4 ^ j % 4 / 2) % 2)).1 + d / 4 ^ j % 4 / 2 * 2 ^ j,
         (rot (2 ^ j) (dec j d).1 (dec j d).2 (d / 4 ^ j % 4 / 2)
            ((d / 4 ^ j % 4 + d / 4 ^ j % 4 / 2) % 2)).2 +
          (d / 4 ^ j % 4 + d / 4 ^ j % 4 / 2) % 2 * 2 ^ j) := by
      rw [dec_succ, dec_mod]
    have := ih (j + 1) f d (by omega)
    rw [hdec] at this
    rw [hs, hn, ht]
    exact this

theorem i64AsU32_cast {n : Nat} (h : n < 2 ^ 32) : i64AsU32 (n : Int) = n := by
  unfold i64AsU32; omega

theorem shift_sq (tz : Nat) : (1 <<< tz) * (1 <<< tz) = 4 ^ tz := by
  rw [Nat.one_shiftLeft, four_pow]

/-- the zoom search of the decoder, started at level `tz` with `acc = base tz`. -/
theorem searchLoop_ok (id : Nat) : ∀ (fuel tz : Nat), tz + fuel = 32 → base tz ≤ id →
    id < base 32 →
    searchLoop id fuel tz (base tz) =
      .ok ((dec (zoomOf id) (id - base (zoomOf id))).1,
           (dec (zoomOf id) (id - base (zoomOf id))).2, zoomOf id) := by
  intro fuel
  induction fuel with
  | zero => intro tz h1 h2 h3; have : tz = 32 := by omega
            subst this; omega
  | succ f ih =>
    intro tz h1 h2 h3
    rw [searchLoop]
    simp only [shift_sq, ← base_succ]
    by_cases hlt : base (tz + 1) > id
    · have hz : zoomOf id = tz := zoomOf_eq h2 hlt
      rw [if_pos hlt, if_neg (by omega), hz, Nat.one_shiftLeft]
      have h := decLoop_eq tz 0 tz (id - base tz) (Nat.le_refl _)
      simp only [Nat.zero_add, Nat.pow_zero, Nat.div_one] at h
      have hd0 : dec 0 (id - base tz) = (0, 0) := rfl
      rw [hd0] at h
      simp only [Int.natCast_zero, Int.natCast_one] at h
      rw [h]
      have hl := dec_lt' tz (id - base tz)
      have hp : 2 ^ tz ≤ 2 ^ 31 := Nat.pow_le_pow_right (by omega) (by omega)
      rw [i64AsU32_cast (by omega), i64AsU32_cast (by omega)]
      unfold tileCoord3New
      rw [if_pos (by omega)]
    · rw [if_neg hlt]
      exact ih (tz + 1) (by omega) (by omega) h3

theorem searchLoop_err (id : Nat) : ∀ (fuel tz : Nat), base (tz + fuel) ≤ id →
    searchLoop id fuel tz (base tz) = .err := by
  intro fuel
  induction fuel with
  | zero => intro tz _; rfl
  | succ f ih =>
    intro tz h
    rw [searchLoop]
    simp only [shift_sq, ← base_succ]
    have h1 : base (tz + 1) ≤ base (tz + (f + 1)) := base_mono (by omega)
    rw [if_neg (by omega)]
    exact ih (tz + 1) (by rw [show tz + 1 + f = tz + (f + 1) by omega]; exact h)

/-- BRIDGE (decoder), functional form. -/
theorem tileIdToCoordLoop_eq {id : Nat} (h : id < base 32) :
    tileIdToCoordLoop id =
      .ok ((dec (zoomOf id) (id - base (zoomOf id))).1,
           (dec (zoomOf id) (id - base (zoomOf id))).2, zoomOf id) :=
  searchLoop_ok id 32 0 rfl (Nat.zero_le _) h

/-- BRIDGE (decoder): below `base 32` the Rust loops compute the specification. -/
theorem tileIdToCoordLoop_iff {id x y z : Nat} (h : id < base 32) :
    tileIdToCoordLoop id = .ok (x, y, z) ↔ tileIdToCoord id = some (x, y, z) := by
  rw [tileIdToCoordLoop_eq h, tileIdToCoord_eq]
  constructor
  · intro e; rw [Outcome.ok.inj e]
  · intro e; rw [Option.some.inj e]

/-- the final `bail!` of the decoder. -/
theorem tileIdToCoordLoop_err {id : Nat} (h : base 32 ≤ id) : tileIdToCoordLoop id = .err :=
  searchLoop_err id 32 0 h

/-- end-to-end round trips of the LOOP forms (the Rust functions). -/
theorem loop_roundtrip {x y z : Nat} (hz : z < 32) (hx : x < 2 ^ z) (hy : y < 2 ^ z) :
    (coordToTileIdLoop x y z).bind tileIdToCoordLoop = .ok (x, y, z) := by
  rw [coordToTileIdLoop_eq hz hx hy]
  show tileIdToCoordLoop (coordToTileId x y z) = _
  have hb : coordToTileId x y z < base 32 := by
    have h1 := enc_lt' z x y
    have h2 : base (z + 1) ≤ base 32 := base_mono (by omega)
    unfold coordToTileId; rw [base_succ] at h2; omega
  exact (tileIdToCoordLoop_iff hb).2 (tileIdToCoord_coordToTileId hx hy)

theorem loop_roundtrip' {id x y z : Nat} (h : tileIdToCoordLoop id = .ok (x, y, z)) :
    coordToTileIdLoop x y z = .ok id := by
  have hid : id < base 32 := by
    rcases Nat.lt_or_ge id (base 32) with h' | h'
    · exact h'
    · rw [tileIdToCoordLoop_err h'] at h; cases h
  have hs := (tileIdToCoordLoop_iff hid).1 h
  have hr := tileIdToCoord_range hs
  have hz : z < 32 := by
    rcases Nat.lt_or_ge z 32 with h' | h'
    · exact h'
    · have := base_mono h'; omega
  rw [coordToTileIdLoop_eq hz hr.1 hr.2.1, coordToTileId_tileIdToCoord hs]

/-! ### tests / non-vacuity -/

/-- the encoder really leaves `[0, s)`: for `(x, y, z) = (2, 0, 2)` the first iteration
    (`s = 2`, `rx = 1`, `ry = 0`) produces `ty = -1`; the next `ty & 1` is taken on a negative
    `i64` (and correctly yields 1). -/
example : rotate 2 2 0 (bitOf 2 1) (bitOf 0 1) = (1, -1) := by decide
example : hasBit (-1) 1 = true := by decide
example : coordToTileIdLoop 2 0 2 = .ok (coordToTileId 2 0 2) :=
  coordToTileIdLoop_eq (by decide) (by decide) (by decide)
example : tileIdToCoordLoop 73 = .ok (5, 3, 3) ↔ tileIdToCoord 73 = some (5, 3, 3) :=
  tileIdToCoordLoop_iff (by decide)
example : (coordToTileIdLoop 5 3 3).bind tileIdToCoordLoop = .ok (5, 3, 3) :=
  loop_roundtrip (by decide) (by decide) (by decide)
example : tileIdToCoordLoop (base 32) = .err := tileIdToCoordLoop_err (Nat.le_refl _)

end VtProofs.Hilbert
