import VtModel.Pipeline
import VtProofs.Source
import VtProofs.PipeFilter
import VtProofs.BBoxGrid
/-!
Facts shared by the overlay and merge proofs: the 32×32 grid as a partition of the coordinates of
a box, the slot index of a coordinate, fallible concatenation.
-/
namespace VtModel
open BBox

theorem concatMapO_ok {α γ : Type} (f : α → Outcome (List γ)) (g : α → List γ) (l : List α)
    (h : ∀ a ∈ l, f a = .ok (g a)) : concatMapO f l = .ok (l.flatMap g) := by
  induction l with
  | nil => rfl
  | cons a as ih =>
    simp only [concatMapO, h a (by simp), ih (fun x hx => h x (by simp [hx])), List.flatMap_cons]

theorem mapM_mem {α γ : Type} (f : α → Outcome γ) : ∀ (l : List α) (r : List γ), BBox.mapM f l = .ok r →
    ∀ y ∈ r, ∃ x ∈ l, f x = .ok y := by
  intro l
  induction l with
  | nil =>
    intro r h y hy
    simp only [BBox.mapM] at h
    cases h
    cases hy
  | cons a as ih =>
    intro r h y hy
    simp only [BBox.mapM] at h
    split at h
    · rename_i b hb
      split at h
      · rename_i bs hbs
        cases h
        rcases List.mem_cons.mp hy with rfl | hy'
        · exact ⟨a, by simp, hb⟩
        · obtain ⟨x, hx, hfx⟩ := ih bs hbs y hy'
          exact ⟨x, by simp [hx], hfx⟩
      · cases h
      · cases h
    · cases h
    · cases h

theorem new_ok_wf {l a b c d : Nat} {r : BBox} (h : BBox.new l a b c d = .ok r) : r.level = l ∧ r.WF := by
  unfold BBox.new at h
  split at h
  · cases h
  · split at h
    · cases h
    · split at h
      · cases h
      · split at h
        · cases h
        · split at h
          · cases h
          · cases h
            refine ⟨rfl, ?_, ?_, ?_⟩
            · show l ≤ 31; omega
            · show c < 2 ^ l
              have := Nat.two_pow_pos l; omega
            · show d < 2 ^ l
              have := Nat.two_pow_pos l; omega

theorem gridCell_wf {b : BBox} {size : Nat} {c : Nat × Nat} {cell : BBox} (h : gridCell b size c = .ok cell) :
    cell.level = b.level ∧ cell.WF := by
  unfold gridCell at h
  simp only at h
  split at h
  · cases h
  · split at h
    · cases h
    · split at h
      · rename_i cell0 h0
        obtain ⟨hl, hw⟩ := new_ok_wf h0
        cases hi : cell0.intersectBBox b with
        | ok r =>
          rw [hi] at h
          simp only [Outcome.unwrap] at h
          cases h
          exact ⟨by rw [intersect_level hi, hl], intersect_wf hw hi⟩
        | err => rw [hi] at h; simp only [Outcome.unwrap] at h; cases h
        | panic => rw [hi] at h; simp only [Outcome.unwrap] at h; cases h
      · cases h

/-- everything the stream proofs need from `iter_bbox_grid(32)` -/
theorem grid32_spec {b : BBox} (hb : b.WF) :
    ∃ cells, grid32 b = .ok cells ∧
      (∀ c ∈ cells, c.level = b.level ∧ c.WF ∧ c.isEmpty = false ∧ ∀ x y, mem c x y → mem b x y) ∧
      (∀ x y, mem b x y → ∃ c ∈ cells, mem c x y) ∧
      cells.Pairwise (fun c d => ∀ x y, ¬ (mem c x y ∧ mem d x y)) := by
  unfold grid32
  by_cases he : b.isEmpty = true
  · rw [if_pos he]
    refine ⟨[], rfl, ?_, ?_, List.Pairwise.nil⟩
    · intro c hc; exact absurd hc List.not_mem_nil
    · intro x y hm
      exact absurd hm ((isEmpty_iff b).mp he x y)
  · rw [if_neg he]
    obtain ⟨cells, h1, h2, h3, h4, h5⟩ := grid_partition b hb.1 (wf_inRange hb) 32 (by decide) (by decide)
    refine ⟨cells, h1, ?_, h4, h5⟩
    intro c hc
    obtain ⟨mx, my, hm⟩ := h3 c hc
    have hwf : c.level = b.level ∧ c.WF := by
      unfold iterBBoxGrid at h1
      simp only [show (32 : Nat) ≠ 0 by decide, if_false] at h1
      split at h1
      · rename_i mb _
        split at h1
        · rename_i cs hcs
          cases h1
          have hc' := (List.mem_filter.mp hc).1
          obtain ⟨m, _, hm⟩ := mapM_mem _ _ _ hcs c hc'
          exact gridCell_wf hm
        · cases h1
        · cases h1
      · cases h1
    exact ⟨hwf.1, hwf.2, h2 c hc, fun x y h => ((hm x y).mp h).2.2⟩

/-! ### slots of a cell -/

/-- the coordinate of slot `i` -/
def slotCoord (cell : BBox) (i : Nat) : Option Coord :=
  (cell.iterCoords[i]?).map fun xy => (xy.1, xy.2, cell.level)

theorem slotCoord_mem {cell : BBox} {i : Nat} {c : Coord} (h : slotCoord cell i = some c) :
    c ∈ cell.coords3 ∧ i < cell.countTiles := by
  unfold slotCoord at h
  cases hxy : cell.iterCoords[i]? with
  | none => rw [hxy] at h; cases h
  | some xy =>
    rw [hxy] at h
    simp only [Option.map_some, Option.some.injEq] at h
    subst h
    have hlt : i < cell.iterCoords.length := (List.getElem?_eq_some_iff.mp hxy).1
    refine ⟨(mem_coords3 cell _).mpr ⟨rfl, (mem_iterCoords cell xy.1 xy.2).mp (List.mem_of_getElem? hxy)⟩, ?_⟩
    rw [countTiles_eq_length]; exact hlt

/-- `get_tile_index3(coord).unwrap()` of a coordinate of the cell is the slot whose coordinate it is -/
theorem tileIndex3_slot {cell : BBox} {c : Coord} (hc : c ∈ cell.coords3) :
    ∃ i, cell.tileIndex3 c.1 c.2.1 c.2.2 = .ok i ∧ slotCoord cell i = some c ∧ i < cell.countTiles := by
  obtain ⟨hz, hm⟩ := (mem_coords3 cell c).mp hc
  obtain ⟨i, h1, h2, h3⟩ := (tileIndex_spec cell c.1 c.2.1).1 hm
  refine ⟨i, ?_, ?_, h3⟩
  · unfold tileIndex3
    rw [if_neg (by rw [hz]; exact fun h => h rfl)]
    exact h1
  · unfold slotCoord
    rw [h2]
    obtain ⟨x, y, z⟩ := c
    simp only at hz
    simp [hz]

theorem slotCoord_inj {cell : BBox} {i j : Nat} {c : Coord} (hi : slotCoord cell i = some c)
    (hj : slotCoord cell j = some c) : i = j := by
  unfold slotCoord at hi hj
  cases hxi : cell.iterCoords[i]? with
  | none => rw [hxi] at hi; cases hi
  | some xi =>
    cases hxj : cell.iterCoords[j]? with
    | none => rw [hxj] at hj; cases hj
    | some xj =>
      rw [hxi] at hi; rw [hxj] at hj
      simp only [Option.map_some, Option.some.injEq] at hi hj
      have e : xi = xj := by
        have h1 := (Prod.mk.inj hi).1; have h2 := (Prod.mk.inj (Prod.mk.inj hi).2).1
        have h3 := (Prod.mk.inj hj).1; have h4 := (Prod.mk.inj (Prod.mk.inj hj).2).1
        exact Prod.ext (by rw [h1, h3]) (by rw [h2, h4])
      have hlt : i < cell.iterCoords.length := (List.getElem?_eq_some_iff.mp hxi).1
      exact (List.getElem?_inj hlt (iterCoords_nodup cell)).mp (by rw [hxi, hxj, e])

/-- an index below `count_tiles` has a coordinate (`get_coord3_by_index(i).unwrap()` is fine) -/
theorem coordByIndex_slot {cell : BBox} (hw : cell.WF) {i : Nat} (hi : i < cell.countTiles) :
    ∃ xy, cell.coordByIndex i = .ok xy ∧ slotCoord cell i = some (xy.1, xy.2, cell.level) := by
  have hU : (2 : Nat) ^ cell.level ≤ U32 := by
    have : (2 : Nat) ^ cell.level ≤ 2 ^ 31 := Nat.pow_le_pow_right (by decide) hw.1
    have : (2 : Nat) ^ 31 ≤ U32 := by decide
    omega
  obtain ⟨xy, h1, h2⟩ := (coordByIndex_spec cell (by have := hw.2.1; omega) (by have := hw.2.2; omega) i).1 hi
  exact ⟨xy, h1, by unfold slotCoord; rw [h2]; rfl⟩

end VtModel
