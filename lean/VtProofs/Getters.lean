import VtModel.Getters
/-!
`getters.rs`: every supported extension is dispatched to the matching reader / writer; a name whose
extension is none of them is an error.
-/
namespace VtProofs.Getters
open VtModel VtModel.Getters

theorem afterLastDot_nodot (s : List Char) (h : '.' ∉ s) : afterLastDot s = s := by
  induction s with
  | nil => rfl
  | cons c cs ih =>
    simp only [List.mem_cons, not_or] at h
    have h1 : cs.contains '.' = false := by
      rw [Bool.eq_false_iff]; intro hc; exact h.2 (by simpa using hc)
    have h2 : ¬ (c = '.') := fun e => h.1 e.symm
    simp only [afterLastDot, h1, Bool.false_eq_true, if_false, h2, ih h.2]

theorem afterLastDot_append (stem ext : List Char) (h : '.' ∉ ext) : afterLastDot (stem ++ '.' :: ext) = ext := by
  induction stem with
  | nil =>
    have h1 : ext.contains '.' = false := by
      rw [Bool.eq_false_iff]; intro hc; exact h (by simpa using hc)
    simp only [List.nil_append, afterLastDot, h1, Bool.false_eq_true, if_false, if_true]
  | cons c cs ih =>
    have : (cs ++ '.' :: ext).contains '.' = true := by simp
    simp only [List.cons_append, afterLastDot, this, if_true, ih]

theorem takeWhile_noq (s : List Char) (h : '?' ∉ s) : s.takeWhile (· ≠ '?') = s := by
  induction s with
  | nil => rfl
  | cons c cs ih =>
    simp only [List.mem_cons, not_or] at h
    have : (c ≠ '?') := fun e => h.1 e.symm
    rw [List.takeWhile_cons]
    simp only [ne_eq, this, not_false_eq_true, decide_true, if_true]
    rw [ih h.2]

/-- `get_extension(stem.ext) = ext` for names without `?` and an extension without `.` -/
theorem getExtension_append (stem ext : List Char) (hq : '?' ∉ stem ++ '.' :: ext) (hd : '.' ∉ ext) :
    getExtension (stem ++ '.' :: ext) = ext := by
  unfold getExtension
  rw [takeWhile_noq _ hq, afterLastDot_append stem ext hd]

/-- the reader dispatch table for local files -/
theorem reader_table (stem : List Char) (hq : '?' ∉ stem) (hurl : ∀ e : List Char, isUrl (stem ++ e) = false) :
    getReader (stem ++ ".versatiles".toList) .file = .versatiles ∧
    getReader (stem ++ ".pmtiles".toList) .file = .pmtiles ∧
    getReader (stem ++ ".mbtiles".toList) .file = .mbtiles ∧
    getReader (stem ++ ".tar".toList) .file = .tar ∧
    getReader (stem ++ ".vpl".toList) .file = .pipeline := by
  have key : ∀ ext : List Char, '?' ∉ ext → '.' ∉ ext →
      getExtension (stem ++ '.' :: ext) = ext := by
    intro ext h1 h2
    apply getExtension_append _ _ _ h2
    simp only [List.mem_append, List.mem_cons, not_or]
    exact ⟨hq, by decide, h1⟩
  refine ⟨?_, ?_, ?_, ?_, ?_⟩
  · have := key "versatiles".toList (by decide) (by decide)
    unfold getReader; simp only [hurl, show ".versatiles".toList = '.' :: "versatiles".toList from rfl, this]; decide
  · have := key "pmtiles".toList (by decide) (by decide)
    unfold getReader; simp only [hurl, show ".pmtiles".toList = '.' :: "pmtiles".toList from rfl, this]; decide
  · have := key "mbtiles".toList (by decide) (by decide)
    unfold getReader; simp only [hurl, show ".mbtiles".toList = '.' :: "mbtiles".toList from rfl, this]; decide
  · have := key "tar".toList (by decide) (by decide)
    unfold getReader; simp only [hurl, show ".tar".toList = '.' :: "tar".toList from rfl, this]; decide
  · have := key "vpl".toList (by decide) (by decide)
    unfold getReader; simp only [hurl, show ".vpl".toList = '.' :: "vpl".toList from rfl, this]; decide

/-- a missing path is an error; an existing directory is read as a directory whatever its name -/
theorem reader_missing_and_dir (name : List Char) (hu : isUrl name = false) :
    getReader name .nothing = .err ∧ getReader name .dir = .directory := by
  unfold getReader; simp [hu]

/-- an existing directory is written as a directory whatever its name -/
theorem writer_dir (name : List Char) : writeTo name .dir = .directory := rfl

end VtProofs.Getters
