import VtModel.Ndjson
import VtProofs.JsonTotal
/-! C17: the NDJSON reader model — items are independent per line and are always `ok` or `err`. -/
namespace VtProofs.Ndjson
open VtModel.Json VtModel.Ndjson VtProofs.Json

theorem rawLines_cur (cur a rest : Bytes) (h : ∀ b ∈ a, b ≠ 0x0a) :
    rawLines cur (a ++ 0x0a :: rest) = (cur.reverse ++ a ++ [0x0a]) :: rawLines [] rest := by
  induction a generalizing cur with
  | nil => simp [rawLines]
  | cons x a ih =>
    have hx : (x == 0x0a) = false := by simpa using h x (by simp)
    simp only [List.cons_append, rawLines, hx, Bool.false_eq_true, if_false]
    rw [ih (x :: cur) (fun b hb => h b (by simp [hb]))]
    simp

/-- lines are cut at every `\n` … -/
theorem rawLines_split (a rest : Bytes) (h : ∀ b ∈ a, b ≠ 0x0a) :
    rawLines [] (a ++ 0x0a :: rest) = (a ++ [0x0a]) :: rawLines [] rest := by
  simpa using rawLines_cur [] a rest h

/-- … so the reader treats every line on its own: the items of `line ++ "\n" ++ rest` are the item of
    `line` (if it is not blank) followed by the items of `rest` -/
theorem readNdjson_split {N : Type} (ops : NumOps N) (a rest : Bytes) (h : ∀ b ∈ a, b ≠ 0x0a) :
    readNdjson ops (a ++ 0x0a :: rest) = (processLine ops (a ++ [0x0a])).toList ++ readNdjson ops rest := by
  simp only [readNdjson, rawLines_split a rest h, List.filterMap_cons]
  cases processLine ops (a ++ [0x0a]) <;> simp

theorem processLine_ok_or_err {N : Type} (ops : NumOps N) (raw : Bytes) (r : Res (JsonValue N))
    (h : processLine ops raw = some r) : (∃ v, r = .ok v) ∨ r = .err := by
  unfold processLine at h
  split at h
  · cases h; exact Or.inr rfl
  · simp only at h
    split at h
    · cases h; exact Or.inr rfl
    · split at h
      · cases h
      · cases h
        have h1 := parseBytes_total ops (stripEol raw)
        cases hp : parseBytes ops (stripEol raw) with
        | ok v => exact Or.inl ⟨v, rfl⟩
        | err => exact Or.inr rfl
        | panic s => exact absurd hp (parseBytes_no_panic ops _ s)
        | fuel => exact absurd hp h1

/-- every item the reader yields is a value or an error — for every byte string -/
theorem readNdjson_ok_or_err {N : Type} (ops : NumOps N) (input : Bytes) :
    ∀ r ∈ readNdjson ops input, (∃ v, r = .ok v) ∨ r = .err := by
  intro r hr
  simp only [readNdjson, List.mem_filterMap] at hr
  obtain ⟨raw, _, h⟩ := hr
  exact processLine_ok_or_err ops raw r h

end VtProofs.Ndjson
