import VtProofs.BBoxMore
/-! `include_bbox_pyramid`: the per-level bounding union. -/
namespace VtModel.Pyramid
open VtModel VtModel.BBox

theorem includeBBox_level {a b c : BBox} (h : a.includeBBox b = .ok c) : c.level = a.level := by
  unfold BBox.includeBBox at h
  split at h
  · cases h
  · rename_i hl
    split at h
    · cases h; rfl
    · split at h
      · cases h; simp at hl; exact hl.symm
      · cases h; rfl

theorem includeBBox_wf {p : Pyramid} (hp : WF p) (b : BBox) (hz : b.level < 32) {r : Pyramid}
    (h : includeBBox p b = .ok r) : WF r := by
  obtain ⟨r', a, c, hr, ha, hc, hrc, hlen, hother⟩ := includeBBox_spec hp b hz
  rw [h] at hr; cases hr
  refine ⟨by rw [hlen]; exact hp.1, ?_⟩
  intro z hzr
  by_cases hzb : z = b.level
  · subst hzb
    have : r[b.level]? = some (r[b.level]'hzr) := List.getElem?_eq_getElem hzr
    rw [hrc] at this
    have hc' : c = r[b.level]'hzr := Option.some.inj this
    rw [← hc', includeBBox_level hc]
    exact wf_level hp ha
  · have hzp : z < p.length := by rw [← hlen]; exact hzr
    have h1 := hother z hzb
    rw [List.getElem?_eq_getElem hzr, List.getElem?_eq_getElem hzp] at h1
    rw [Option.some.inj h1]
    exact hp.2 z hzp

/-- folding `include_bbox` over boxes of pairwise different levels: every touched level becomes the
    bounding union with that box, every other level is unchanged, nothing panics -/
theorem includeFold_spec (l : List BBox) :
    ∀ (p : Pyramid), WF p → (∀ b ∈ l, b.level < 32) → (l.map (·.level)).Nodup →
    ∃ r, l.foldl (fun (acc : Outcome Pyramid) b => acc.bind (fun a => includeBBox a b)) (Outcome.ok p) = Outcome.ok r ∧ WF r ∧
      (∀ z, (∀ b ∈ l, b.level ≠ z) → r[z]? = p[z]?) ∧
      (∀ b ∈ l, ∃ a c, p[b.level]? = some a ∧ a.includeBBox b = .ok c ∧ r[b.level]? = some c) := by
  induction l with
  | nil => intro p hp _ _; exact ⟨p, rfl, hp, fun _ _ => rfl, by simp⟩
  | cons b bs ih =>
    intro p hp hlv hnd
    have hb : b.level < 32 := hlv b (by simp)
    obtain ⟨p1, a, c, hp1, ha, hc, hrc, hlen, hother⟩ := includeBBox_spec hp b hb
    have hwf1 := includeBBox_wf hp b hb hp1
    simp only [List.map_cons, List.nodup_cons] at hnd
    obtain ⟨r, hr, hwr, hun, hto⟩ := ih p1 hwf1 (fun x hx => hlv x (by simp [hx])) hnd.2
    refine ⟨r, ?_, hwr, ?_, ?_⟩
    · simp only [List.foldl_cons, Outcome.bind, hp1]
      exact hr
    · intro z hz
      have hzb : z ≠ b.level := fun h => hz b (by simp) h.symm
      rw [hun z (fun x hx => hz x (by simp [hx])), hother z hzb]
    · intro x hx
      simp only [List.mem_cons] at hx
      rcases hx with rfl | hx
      · refine ⟨a, c, ha, hc, ?_⟩
        rw [hun x.level (fun y hy hyl => hnd.1 (List.mem_map.mpr ⟨y, hy, hyl⟩)), hrc]
      · obtain ⟨a', c', ha', hc', hr'⟩ := hto x hx
        have hne : x.level ≠ b.level := fun h => hnd.1 (List.mem_map.mpr ⟨x, hx, h⟩)
        exact ⟨a', c', by rw [← hother x.level hne]; exact ha', hc', hr'⟩

theorem iterLevels_levels_nodup {q : Pyramid} (hq : WF q) : ((iterLevels q).map (·.level)).Nodup := by
  have hall : (q.map (·.level)) = List.range q.length := by
    apply List.ext_getElem
    · simp
    · intro i h1 h2
      simp only [List.getElem_map, List.getElem_range]
      exact hq.2 i (by simpa using h1)
  have hsub : ((iterLevels q).map (·.level)).Sublist (q.map (·.level)) :=
    (List.filter_sublist).map _
  exact hsub.nodup (by rw [hall]; exact List.nodup_range)

/-- **`include_bbox_pyramid`** is the per-level bounding union: it never panics on well-formed
    pyramids; a level where the other pyramid is empty (any encoding) is unchanged, every other
    level becomes `include_bbox` of the two level boxes. -/
theorem includePyramid_spec {p q : Pyramid} (hp : WF p) (hq : WF q) :
    ∃ r, includePyramid p q = .ok r ∧ WF r ∧
      ∀ z (hz : z < 32), ∃ a b, p[z]? = some a ∧ q[z]? = some b ∧
        (b.isEmpty = true → r[z]? = some a) ∧
        (b.isEmpty = false → ∃ c, a.includeBBox b = .ok c ∧ r[z]? = some c) := by
  have hlv : ∀ b ∈ iterLevels q, b.level < 32 := by
    intro b hb
    have hbq : b ∈ q := (List.mem_filter.mp hb).1
    obtain ⟨i, hi, rfl⟩ := List.getElem_of_mem hbq
    rw [hq.2 i hi, ← hq.1]; exact hi
  obtain ⟨r, hr, hwr, hun, hto⟩ := includeFold_spec (iterLevels q) p hp hlv (iterLevels_levels_nodup hq)
  refine ⟨r, hr, hwr, ?_⟩
  intro z hz
  have hzp : z < p.length := by rw [hp.1]; exact hz
  have hzq : z < q.length := by rw [hq.1]; exact hz
  refine ⟨p[z], q[z], List.getElem?_eq_getElem hzp, List.getElem?_eq_getElem hzq, ?_, ?_⟩
  · intro he
    rw [hun z, List.getElem?_eq_getElem hzp]
    intro b hb hbl
    have hbq := List.mem_filter.mp hb
    obtain ⟨i, hi, rfl⟩ := List.getElem_of_mem hbq.1
    have : i = z := by rw [← hq.2 i hi]; exact hbl
    subst this
    simp [he] at hbq
  · intro he
    have hmem : q[z] ∈ iterLevels q := List.mem_filter.mpr ⟨List.getElem_mem hzq, by simp [he]⟩
    obtain ⟨a, c, ha, hc, hrc⟩ := hto q[z] hmem
    have hl : (q[z]).level = z := hq.2 z hzq
    rw [hl] at ha hrc
    rw [List.getElem?_eq_getElem hzp] at ha
    cases ha
    exact ⟨c, hc, hrc⟩

end VtModel.Pyramid
