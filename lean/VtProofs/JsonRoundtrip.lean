import VtProofs.Json
/-!
C17: `parse (stringify v) = v` — number lexer on `f64::to_string`-shaped text, objects as sorted
association lists, and the mutual induction over value trees.
-/
namespace VtProofs.Json
open VtModel.Json

theorem parseTagGo_self (dbg : Bool) (tag pre tail : Bytes) :
    parseTagGo dbg tag pre (tag ++ tail) = .ok { pre := tag.reverse ++ pre, rest := tail, debug := dbg } := by
  induction tag generalizing pre with
  | nil => simp [parseTagGo]
  | cons c t ih =>
    simp only [List.cons_append, parseTagGo, beq_self_eq_true, if_true]
    rw [ih]; simp

/-- all bytes are ASCII digits -/
def AllDigits (ds : Bytes) : Prop := ∀ b ∈ ds, isDigit b = true

theorem spanDigits_append (ds rest : Bytes) (hd : AllDigits ds)
    (hr : ∀ b r, rest = b :: r → isDigit b = false) :
    spanDigits (ds ++ rest) = (ds, rest) := by
  induction ds with
  | nil =>
    cases rest with
    | nil => rfl
    | cons b r => simp [spanDigits, hr b r rfl]
  | cons d ds ih =>
    have h1 := hd d (by simp)
    have h2 : AllDigits ds := fun x hx => hd x (by simp [hx])
    simp [spanDigits, h1, ih h2]

/-- the lexical shape of `f64::to_string` for finite values: `-?(0|[1-9]d*)(.d+)?` -/
inductive NumLex : Bytes → Prop where
  | mk (neg : Bool) (ds fs : Bytes) (frac : Bool) :
      ds ≠ [] → AllDigits ds → (ds = [0x30] ∨ ∀ d r, ds = d :: r → d ≠ 0x30) →
      (frac = true → fs ≠ [] ∧ AllDigits fs) →
      NumLex ((if neg then [0x2d] else []) ++ ds ++ (if frac then 0x2e :: fs else []))

/-- what may follow a value in `stringify` output: nothing, `,`, `]` or `}` -/
def Stop (tail : Bytes) : Prop := ∀ b r, tail = b :: r → b = 0x2c ∨ b = 0x5d ∨ b = 0x7d

theorem Stop.notDigit {tail : Bytes} (h : Stop tail) : ∀ b r, tail = b :: r → isDigit b = false := by
  intro b r e; rcases h b r e with rfl | rfl | rfl <;> decide

theorem lexNumber_numLex (lx : Bytes) (hl : NumLex lx) (pre tail : Bytes) (dbg : Bool) (ht : Stop tail) :
    lexNumber { pre := pre, rest := lx ++ tail, debug := dbg }
      = .ok (lx, { pre := lx.reverse ++ pre, rest := tail, debug := dbg }) := by
  cases hl with
  | mk neg ds fs frac hne hds hz hfs =>
    obtain ⟨d0, dr, rfl⟩ : ∃ d0 dr, ds = d0 :: dr := by
      cases ds with
      | nil => exact absurd rfl hne
      | cons a b => exact ⟨a, b, rfl⟩
    have hd0 : isDigit d0 = true := hds d0 (by simp)
    have hd0s : isSign d0 = false := by
      simp only [isDigit, Bool.and_eq_true, decide_eq_true_eq] at hd0
      simp only [isSign, Bool.or_eq_false_iff, beq_eq_false_iff_ne]
      constructor <;> (intro h; rw [h] at hd0; exact absurd hd0 (by decide))
    have htd := ht.notDigit
    have hm : isSign 0x2d = true := by decide
    have htl : ∀ b r, tail = b :: r → b ≠ 0x2e ∧ b ≠ 0x65 ∧ b ≠ 0x45 := by
      intro b r e; rcases ht b r e with rfl | rfl | rfl <;> decide
    cases frac with
    | false =>
      have hsp : spanDigits ((d0 :: dr) ++ tail) = (d0 :: dr, tail) := spanDigits_append _ _ hds htd
      rcases tail with _ | ⟨b, r⟩
      · simp only [List.append_nil] at hsp
        cases neg <;> (unfold lexNumber; simp [lexFrac, lexExp, lexSign, hd0s, hm, lexDigits, hsp, Iter.eat])
      · have := htl b r rfl
        simp only [List.cons_append] at hsp
        cases neg <;> (unfold lexNumber; simp [lexFrac, lexExp, lexSign, hd0s, hm, lexDigits, hsp, Iter.eat, this.1, this.2.1, this.2.2])
    | true =>
      obtain ⟨hfne, hfd⟩ := hfs rfl
      have hdot : ∀ b r, (0x2e :: fs) ++ tail = b :: r → isDigit b = false := by
        intro b r e; simp only [List.cons_append, List.cons.injEq] at e; rw [← e.1]; decide
      have hsp : spanDigits ((d0 :: dr) ++ ((0x2e :: fs) ++ tail)) = (d0 :: dr, (0x2e :: fs) ++ tail) :=
        spanDigits_append _ _ hds hdot
      have hsp2 : spanDigits (fs ++ tail) = (fs, tail) := spanDigits_append _ _ hfd htd
      rcases tail with _ | ⟨b, r⟩
      · simp only [List.append_nil, List.cons_append] at hsp hsp2
        cases neg <;> (unfold lexNumber; simp [lexFrac, lexExp, lexSign, hd0s, hm, lexDigits, hsp, hsp2, Iter.eat, hfne])
      · have := htl b r rfl
        simp only [List.cons_append] at hsp hsp2
        cases neg <;> (unfold lexNumber; simp [lexFrac, lexExp, lexSign, hd0s, hm, lexDigits, hsp, hsp2, Iter.eat, hfne, this.2.1, this.2.2])

theorem cmpBytes_gt_of_lt : ∀ (a b : Bytes), cmpBytes a b = .lt → cmpBytes b a = .gt
  | [], [], h => by simp [cmpBytes] at h
  | [], _ :: _, _ => by simp [cmpBytes]
  | _ :: _, [], h => by simp [cmpBytes] at h
  | x :: xs, y :: ys, h => by
    simp only [cmpBytes] at h ⊢
    by_cases h1 : x < y
    · have h2 : ¬ y < x := by
        intro h2; exact absurd (UInt8.lt_trans h1 h2) (UInt8.lt_irrefl _)
      simp [h1, h2]
    · by_cases h2 : y < x
      · simp [h1, h2] at h
      · simp only [h1, h2, if_false] at h ⊢
        exact cmpBytes_gt_of_lt xs ys h

/-- keys strictly increasing (what iterating a `BTreeMap` yields) -/
def SortedKeys {V : Type} (kvs : List (List Char × V)) : Prop :=
  kvs.Pairwise (fun a b => cmpKey a.1 b.1 = .lt)

theorem insertKV_last {V : Type} (k : List Char) (v : V) (m : List (List Char × V))
    (h : ∀ p ∈ m, cmpKey p.1 k = .lt) : insertKV k v m = m ++ [(k, v)] := by
  induction m with
  | nil => rfl
  | cons p m ih =>
    obtain ⟨k', v'⟩ := p
    have h1 : cmpKey k k' = .gt := cmpBytes_gt_of_lt _ _ (h (k', v') (by simp))
    simp only [insertKV, h1, List.cons_append]
    rw [ih (fun q hq => h q (by simp [hq]))]

theorem foldl_insert_sorted {V : Type} (l m : List (List Char × V)) (h : SortedKeys (m ++ l)) :
    l.foldl (fun m kv => insertKV kv.1 kv.2 m) m = m ++ l := by
  induction l generalizing m with
  | nil => simp
  | cons p l ih =>
    simp only [List.foldl_cons]
    have hp : ∀ q ∈ m, cmpKey q.1 p.1 = .lt := by
      intro q hq
      have := List.pairwise_append.1 h
      exact this.2.2 q hq p (by simp)
    rw [insertKV_last _ _ _ hp]
    have : SortedKeys ((m ++ [p]) ++ l) := by simpa [SortedKeys] using h
    rw [ih _ this]; simp

theorem mkObj_sorted {V : Type} (kvs : List (List Char × V)) (h : SortedKeys kvs) : mkObj kvs = kvs := by
  unfold mkObj
  rw [foldl_insert_sorted kvs [] (by simpa using h)]; simp

/-- the laws of the external number formatting/parsing the theorems rest on -/
structure NumLaws {N : Type} (ops : NumOps N) : Prop where
  read_show : ∀ n, ops.read (ops.show_ n) = some n
  lex : ∀ n, NumLex (ops.show_ n)

variable {N : Type}

mutual
def need : JsonValue N → Nat
  | .arr xs => 1 + needL xs
  | .obj kvs => 2 + needM kvs
  | .null => 1 | .bool _ => 1 | .num _ => 1 | .str _ => 1
def needL : List (JsonValue N) → Nat
  | [] => 1
  | x :: r => 1 + max (need x) (needL r)
def needM : List (List Char × JsonValue N) → Nat
  | [] => 1
  | (_, v) :: r => 1 + max (need v) (needM r)
end

mutual
/-- nesting depth: number of arrays/objects around the innermost value, counting the value itself
    if it is a container -/
def depth : JsonValue N → Nat
  | .arr xs => 1 + depthL xs
  | .obj kvs => 1 + depthM kvs
  | .null => 0 | .bool _ => 0 | .num _ => 0 | .str _ => 0
def depthL : List (JsonValue N) → Nat
  | [] => 0
  | x :: r => max (depth x) (depthL r)
def depthM : List (List Char × JsonValue N) → Nat
  | [] => 0
  | (_, v) :: r => max (depth v) (depthM r)
end

mutual
def WF : JsonValue N → Prop
  | .arr xs => WFL xs
  | .obj kvs => SortedKeys kvs ∧ WFM kvs
  | .null => True | .bool _ => True | .num _ => True | .str _ => True
def WFL : List (JsonValue N) → Prop
  | [] => True
  | x :: r => WF x ∧ WFL r
def WFM : List (List Char × JsonValue N) → Prop
  | [] => True
  | (_, v) :: r => WF v ∧ WFM r
end

def itemsTail (ops : NumOps N) : List (JsonValue N) → Bytes
  | [] => []
  | x :: r => 0x2c :: (stringify ops x ++ itemsTail ops r)

theorem stringifyItems_cons (ops : NumOps N) (x : JsonValue N) (r : List (JsonValue N)) :
    stringifyItems ops (x :: r) = stringify ops x ++ itemsTail ops r := by
  induction r generalizing x with
  | nil => simp [stringifyItems, itemsTail]
  | cons y r ih => simp [stringifyItems, itemsTail, ih]

/-- first byte of a value's text: never whitespace, never `]` -/
def GoodHead (bs : Bytes) : Prop := ∃ b r, bs = b :: r ∧ isWs b = false ∧ b ≠ 0x5d

theorem numLex_head {lx : Bytes} (h : NumLex lx) :
    ∃ b r, lx = b :: r ∧ (b = 0x2d ∨ isDigit b = true) := by
  cases h with
  | mk neg ds fs frac hne hds hz hfs =>
    cases neg with
    | true => exact ⟨0x2d, ds ++ (if frac then 0x2e :: fs else []), by simp, Or.inl rfl⟩
    | false =>
      cases ds with
      | nil => exact absurd rfl hne
      | cons d dr => exact ⟨d, dr ++ (if frac then 0x2e :: fs else []), by simp, Or.inr (hds d (by simp))⟩

theorem digit_facts {b : UInt8} (h : b = 0x2d ∨ isDigit b = true) :
    isWs b = false ∧ b ≠ 0x5d ∧ b ≠ 0x5b ∧ b ≠ 0x7b ∧ b ≠ 0x22 ∧ (isDigit b || b == 0x2e || b == 0x2d) = true := by
  rcases h with rfl | h
  · decide
  · have hb : 0x30 ≤ b.toNat ∧ b.toNat ≤ 0x39 := by
      simp only [isDigit, Bool.and_eq_true, decide_eq_true_eq, UInt8.le_iff_toNat_le] at h
      simpa using h
    refine ⟨?_, ?_, ?_, ?_, ?_, by simp [h]⟩
    · simp only [isWs, Bool.or_eq_false_iff, beq_eq_false_iff_ne]
      refine ⟨⟨⟨⟨?_, ?_⟩, ?_⟩, ?_⟩, ?_⟩ <;> (intro e; rw [e] at hb; simp at hb)
    all_goals (intro e; rw [e] at hb; simp at hb)

theorem stringify_head (ops : NumOps N) (laws : NumLaws ops) (v : JsonValue N) : GoodHead (stringify ops v) := by
  cases v with
  | null => exact ⟨0x6e, _, rfl, by decide, by decide⟩
  | bool b => cases b <;> exact ⟨_, _, rfl, by decide, by decide⟩
  | num n =>
    obtain ⟨b, r, e, hb⟩ := numLex_head (laws.lex n)
    have := digit_facts hb
    exact ⟨b, r, by simp [stringify, e], this.1, this.2.1⟩
  | str s => exact ⟨0x22, _, by simp [stringify, quote]; rfl, by decide, by decide⟩
  | arr xs => exact ⟨0x5b, _, by simp [stringify]; rfl, by decide, by decide⟩
  | obj kvs => exact ⟨0x7b, _, by simp [stringify]; rfl, by decide, by decide⟩

theorem skipWs_good (pre : Bytes) (bs rest : Bytes) (dbg : Bool) (h : GoodHead bs) :
    skipWs { pre := pre, rest := bs ++ rest, debug := dbg } = { pre := pre, rest := bs ++ rest, debug := dbg } := by
  obtain ⟨b, r, rfl, hw, _⟩ := h
  exact skipWs_nonws _ b (r ++ rest) rfl hw

theorem skipWs_cons (pre : Bytes) (b : UInt8) (rest : Bytes) (dbg : Bool) (h : isWs b = false) :
    skipWs { pre := pre, rest := b :: rest, debug := dbg } = { pre := pre, rest := b :: rest, debug := dbg } :=
  skipWs_nonws _ b rest rfl h

theorem Stop.cons_comma (t : Bytes) : Stop (0x2c :: t) := by
  intro b r e; simp only [List.cons.injEq] at e; exact Or.inl e.1.symm
theorem Stop.cons_rbracket (t : Bytes) : Stop (0x5d :: t) := by
  intro b r e; simp only [List.cons.injEq] at e; exact Or.inr (Or.inl e.1.symm)
theorem Stop.cons_rbrace (t : Bytes) : Stop (0x7d :: t) := by
  intro b r e; simp only [List.cons.injEq] at e; exact Or.inr (Or.inr e.1.symm)

theorem itemsTail_stop (ops : NumOps N) (xs : List (JsonValue N)) (t : Bytes) : Stop (itemsTail ops xs ++ 0x5d :: t) := by
  cases xs with
  | nil => exact Stop.cons_rbracket t
  | cons x r => simp only [itemsTail, List.cons_append]; exact Stop.cons_comma _

section main
variable (ops : NumOps N)

mutual
theorem parseValue_stringify (laws : NumLaws ops) : (v : JsonValue N) → (fuel d : Nat) → (pre tail : Bytes) → (dbg : Bool) →
    Stop tail → need v ≤ fuel → WF v → d + depth v ≤ maxNesting →
    parseValue ops fuel d { pre := pre, rest := stringify ops v ++ tail, debug := dbg }
      = .ok (v, { pre := (stringify ops v).reverse ++ pre, rest := tail, debug := dbg })
  | .null, fuel, d, pre, tail, dbg, _, hf, _, _ => by
    obtain ⟨f, rfl⟩ : ∃ f, fuel = f + 1 := ⟨fuel - 1, by simp [need] at hf; omega⟩
    simp only [stringify, bN, List.cons_append, List.nil_append, parseValue]
    simp (disch := decide) only [skipWs_cons]
    simp [isDigit, parseTag, parseTagGo]
  | .bool true, fuel, d, pre, tail, dbg, _, hf, _, _ => by
    obtain ⟨f, rfl⟩ : ∃ f, fuel = f + 1 := ⟨fuel - 1, by simp [need] at hf; omega⟩
    simp only [stringify, bT, List.cons_append, List.nil_append, parseValue]
    simp (disch := decide) only [skipWs_cons]
    simp [isDigit, parseTag, parseTagGo]
  | .bool false, fuel, d, pre, tail, dbg, _, hf, _, _ => by
    obtain ⟨f, rfl⟩ : ∃ f, fuel = f + 1 := ⟨fuel - 1, by simp [need] at hf; omega⟩
    simp only [stringify, bF, List.cons_append, List.nil_append, parseValue]
    simp (disch := decide) only [skipWs_cons]
    simp [isDigit, parseTag, parseTagGo]
  | .num n, fuel, d, pre, tail, dbg, ht, hf, _, _ => by
    obtain ⟨f, rfl⟩ : ∃ f, fuel = f + 1 := ⟨fuel - 1, by simp [need] at hf; omega⟩
    obtain ⟨b, r, e, hb⟩ := numLex_head (laws.lex n)
    have hfacts := digit_facts hb
    have hl := lexNumber_numLex (ops.show_ n) (laws.lex n) pre tail dbg ht
    simp only [stringify, parseValue]
    rw [e, List.cons_append, skipWs_cons _ _ _ _ hfacts.1]
    simp only [beq_iff_eq, hfacts.2.2.1, hfacts.2.2.2.1, hfacts.2.2.2.2.1, if_false, hfacts.2.2.2.2.2, if_true]
    rw [← List.cons_append, ← e]
    simp [parseNumber, hl, laws.read_show n]
  | .str s, fuel, d, pre, tail, dbg, _, hf, _, _ => by
    obtain ⟨f, rfl⟩ : ∃ f, fuel = f + 1 := ⟨fuel - 1, by simp [need] at hf; omega⟩
    have hq := parseQuotedString_quote s pre tail dbg
    have e : quote s ++ tail = 0x22 :: (escape s ++ 0x22 :: tail) := by simp [quote]
    simp only [stringify, parseValue]
    rw [e, skipWs_cons _ _ _ _ (by decide)]
    simp only [beq_iff_eq, show (0x22 : UInt8) ≠ 0x5b by decide, show (0x22 : UInt8) ≠ 0x7b by decide, if_false, if_true]
    rw [← e, hq]; rfl
  | .arr xs, fuel, d, pre, tail, dbg, ht, hf, hw, hd => by
    have hd' : ¬ d ≥ maxNesting := by simp only [depth] at hd; omega
    obtain ⟨f, rfl⟩ : ∃ f, fuel = f + 1 := ⟨fuel - 1, by simp [need] at hf; omega⟩
    simp only [need] at hf
    obtain ⟨f2, rfl⟩ : ∃ f2, f = f2 + 1 := ⟨f - 1, by cases xs <;> simp [needL] at hf <;> omega⟩
    simp only [stringify, List.cons_append, parseValue]
    simp (disch := decide) only [skipWs_cons]
    simp only [beq_self_eq_true, if_true, hd', if_false, parseArray]
    simp (disch := decide) only [skipWs_cons]
    simp only [expectNext, Res.bind_ok, bne_self_eq_false, Bool.false_eq_true, if_false]
    cases xs with
    | nil =>
      simp only [stringifyItems, List.nil_append, List.cons_append]
      simp (disch := decide) only [skipWs_cons]
      simp [Iter.peekIs, Iter.advance]
    | cons x r =>
      simp only [WF, WFL] at hw
      simp only [needL] at hf
      rw [stringifyItems_cons, List.append_assoc, List.append_assoc]
      have hg := stringify_head ops laws x
      simp only [skipWs_good _ _ _ _ hg]
      have hpk : Iter.peekIs { pre := 0x5b :: pre, rest := stringify ops x ++ (itemsTail ops r ++ ([0x5d] ++ tail)), debug := dbg } 0x5d = false := by
        obtain ⟨b, r', e, _, hne⟩ := hg
        simp [Iter.peekIs, e, hne]
      rw [hpk]
      simp only [Bool.false_eq_true, if_false]
      have hst : Stop (itemsTail ops r ++ ([0x5d] ++ tail)) := itemsTail_stop ops r tail
      simp only [depth, depthL] at hd
      rw [parseValue_stringify laws x f2 (d + 1) _ _ dbg hst (by omega) hw.1 (by omega)]
      simp only [Res.bind_ok]
      have := parseArrayRest_items laws r f2 (d + 1) ((stringify ops x).reverse ++ 0x5b :: pre) tail dbg [x] (by omega) hw.2 (by omega)
      simp only [List.singleton_append] at this ⊢
      rw [this]
      simp
  | .obj kvs, fuel, d, pre, tail, dbg, ht, hf, hw, hd => by
    have hd' : ¬ d ≥ maxNesting := by simp only [depth] at hd; omega
    obtain ⟨f, rfl⟩ : ∃ f, fuel = f + 1 := ⟨fuel - 1, by simp [need] at hf; omega⟩
    simp only [need] at hf
    obtain ⟨f2, rfl⟩ : ∃ f2, f = f2 + 1 := ⟨f - 1, by omega⟩
    simp only [WF] at hw
    simp only [stringify, List.cons_append, parseValue]
    simp (disch := decide) only [skipWs_cons]
    simp only [beq_iff_eq, show (0x7b : UInt8) ≠ 0x5b by decide, if_false, if_true, hd', parseObject]
    simp (disch := decide) only [skipWs_cons]
    simp only [expectNext, Res.bind_ok, bne_self_eq_false, Bool.false_eq_true, if_false]
    simp only [depth] at hd
    have := parseObjectLoop_members laws kvs f2 (d + 1) (0x7b :: pre) tail dbg [] (by omega) hw.2 (by omega)
    simp only [List.append_assoc, List.singleton_append, List.nil_append] at this ⊢
    rw [this]
    simp [mkObj_sorted kvs hw.1]
theorem parseArrayRest_items (laws : NumLaws ops) : (xs : List (JsonValue N)) → (fuel d : Nat) → (pre tail : Bytes) → (dbg : Bool) →
    (acc : List (JsonValue N)) → needL xs ≤ fuel → WFL xs → d + depthL xs ≤ maxNesting →
    parseArrayRest ops fuel d { pre := pre, rest := itemsTail ops xs ++ 0x5d :: tail, debug := dbg } acc
      = .ok (acc ++ xs, { pre := 0x5d :: ((itemsTail ops xs).reverse ++ pre), rest := tail, debug := dbg })
  | [], fuel, d, pre, tail, dbg, acc, hf, _, _ => by
    obtain ⟨f, rfl⟩ : ∃ f, fuel = f + 1 := ⟨fuel - 1, by simp [needL] at hf; omega⟩
    simp only [itemsTail, List.nil_append, parseArrayRest]
    simp (disch := decide) only [skipWs_cons]
    simp [expectNext]
  | x :: r, fuel, d, pre, tail, dbg, acc, hf, hw, hd => by
    simp only [depthL] at hd
    obtain ⟨f, rfl⟩ : ∃ f, fuel = f + 1 := ⟨fuel - 1, by simp [needL] at hf; omega⟩
    simp only [needL] at hf
    simp only [WFL] at hw
    simp only [itemsTail, List.cons_append, parseArrayRest]
    simp (disch := decide) only [skipWs_cons]
    simp only [expectNext, Res.bind_ok, beq_iff_eq, show (0x2c : UInt8) ≠ 0x5d by decide, if_false, if_true]
    rw [List.append_assoc]
    simp only [skipWs_good _ _ _ _ (stringify_head ops laws x)]
    have hst : Stop (itemsTail ops r ++ 0x5d :: tail) := itemsTail_stop ops r tail
    rw [parseValue_stringify laws x f d _ _ dbg hst (by omega) hw.1 (by omega)]
    simp only [Res.bind_ok]
    rw [parseArrayRest_items laws r f d _ tail dbg (acc ++ [x]) (by omega) hw.2 (by omega)]
    simp
theorem parseObjectLoop_members (laws : NumLaws ops) : (kvs : List (List Char × JsonValue N)) → (fuel d : Nat) → (pre tail : Bytes) → (dbg : Bool) →
    (acc : List (List Char × JsonValue N)) → needM kvs ≤ fuel → WFM kvs → d + depthM kvs ≤ maxNesting →
    parseObjectLoop ops fuel d { pre := pre, rest := stringifyMembers ops kvs ++ 0x7d :: tail, debug := dbg } acc
      = .ok (acc ++ kvs, { pre := 0x7d :: ((stringifyMembers ops kvs).reverse ++ pre), rest := tail, debug := dbg })
  | [], fuel, d, pre, tail, dbg, acc, hf, _, _ => by
    obtain ⟨f, rfl⟩ : ∃ f, fuel = f + 1 := ⟨fuel - 1, by simp [needM] at hf; omega⟩
    simp only [stringifyMembers, List.nil_append, parseObjectLoop]
    simp (disch := decide) only [skipWs_cons]
    simp [Iter.advance]
  | [(k, v)], fuel, d, pre, tail, dbg, acc, hf, hw, hd => by
    simp only [depthM] at hd
    obtain ⟨f, rfl⟩ : ∃ f, fuel = f + 1 := ⟨fuel - 1, by simp [needM] at hf; omega⟩
    simp only [needM] at hf
    simp only [WFM] at hw
    have e : quote k = 0x22 :: (escape k ++ [0x22]) := rfl
    simp only [stringifyMembers, List.append_assoc, parseObjectLoop]
    rw [e, List.cons_append, skipWs_cons _ _ _ _ (by decide)]
    simp only [beq_iff_eq, show (0x22 : UInt8) ≠ 0x7d by decide, if_false, if_true]
    rw [← List.cons_append, ← e, parseQuotedString_quote]
    simp only [Res.bind_ok, List.cons_append]
    simp (disch := decide) only [skipWs_cons]
    simp only [expectNext, Res.bind_ok, bne_self_eq_false, Bool.false_eq_true, if_false]
    simp only [skipWs_good _ _ _ _ (stringify_head ops laws v)]
    rw [parseValue_stringify laws v f d _ _ dbg (Stop.cons_rbrace tail) (by omega) hw.1 (by omega)]
    simp only [Res.bind_ok]
    simp (disch := decide) only [skipWs_cons]
    simp
  | (k, v) :: y :: r, fuel, d, pre, tail, dbg, acc, hf, hw, hd => by
    simp only [depthM] at hd
    obtain ⟨f, rfl⟩ : ∃ f, fuel = f + 1 := ⟨fuel - 1, by simp [needM] at hf; omega⟩
    simp only [needM] at hf
    simp only [WFM] at hw
    have e : quote k = 0x22 :: (escape k ++ [0x22]) := rfl
    simp only [stringifyMembers, List.append_assoc, List.cons_append, parseObjectLoop]
    rw [e, List.cons_append, skipWs_cons _ _ _ _ (by decide)]
    simp only [beq_iff_eq, show (0x22 : UInt8) ≠ 0x7d by decide, if_false, if_true]
    rw [← List.cons_append, ← e, parseQuotedString_quote]
    simp only [Res.bind_ok]
    simp (disch := decide) only [skipWs_cons]
    simp only [expectNext, Res.bind_ok, bne_self_eq_false, Bool.false_eq_true, if_false]
    simp only [skipWs_good _ _ _ _ (stringify_head ops laws v)]
    rw [parseValue_stringify laws v f d _ _ dbg (Stop.cons_comma _) (by omega) hw.1 (by omega)]
    simp only [Res.bind_ok]
    simp (disch := decide) only [skipWs_cons]
    simp only [Res.bind_ok]
    simp only [if_true]
    have := parseObjectLoop_members laws (y :: r) f d (0x2c :: ((stringify ops v).reverse ++ 0x3a :: ((quote k).reverse ++ pre))) tail dbg (acc ++ [(k, v)]) (by simp only [needM]; omega) hw.2 (by simp only [depthM]; omega)
    rw [this]
    simp
end
end main

mutual
theorem need_le (ops : NumOps N) : (v : JsonValue N) → need v ≤ (stringify ops v).length + 1
  | .null => by simp [need]
  | .bool _ => by simp [need]
  | .num _ => by simp [need]
  | .str _ => by simp [need]
  | .arr [] => by simp [need, needL, stringify]
  | .arr (x :: r) => by
    have h1 := need_le ops x
    have h2 := needL_le ops r
    simp only [need, needL, stringify, stringifyItems_cons, List.length_cons, List.length_append]
    omega
  | .obj kvs => by
    have := needM_le ops kvs
    simp only [need, stringify, List.length_cons, List.length_append]
    omega
theorem needL_le (ops : NumOps N) : (xs : List (JsonValue N)) → needL xs ≤ (itemsTail ops xs).length + 1
  | [] => by simp [needL]
  | x :: r => by
    have h1 := need_le ops x
    have h2 := needL_le ops r
    simp only [needL, itemsTail, List.length_cons, List.length_append]
    omega
theorem needM_le (ops : NumOps N) : (kvs : List (List Char × JsonValue N)) → needM kvs ≤ (stringifyMembers ops kvs).length + 1
  | [] => by simp [needM]
  | [(k, v)] => by
    have h1 := need_le ops v
    simp only [needM, stringifyMembers, List.length_cons, List.length_append]
    omega
  | (k, v) :: y :: r => by
    have h1 := need_le ops v
    have h2 := needM_le ops (y :: r)
    simp only [needM] at h2 ⊢
    simp only [stringifyMembers, List.length_cons, List.length_append]
    omega
end

/-- `parse_json_str(stringify(v)) = Ok(v)` (top level, depth ≤ 1024) -/
theorem parse_stringify_aux {N : Type} (ops : NumOps N) (laws : NumLaws ops) (v : JsonValue N) (hv : WF v)
    (hd : depth v ≤ maxNesting) : parseBytes ops (stringify ops v) = .ok v := by
  unfold parseBytes Iter.start
  have hf : need v ≤ fuelFor (stringify ops v) := by
    have := need_le ops v
    unfold fuelFor; omega
  have := parseValue_stringify ops laws v (fuelFor (stringify ops v)) 0 [] [] true
    (by intro b r e; cases e) hf hv (by omega)
  simp only [List.append_nil] at this
  rw [this]; rfl

end VtProofs.Json
