import VtModel.Json
/-!
Helper lemmas for C17 (JSON): UTF-8 facts taken from Lean core's verified decoder, the string
loop of `parse_quoted_json_string` run on `escape_json_string` output.
-/
namespace VtProofs.Json
open VtModel.Json

theorem mk_toArray (l : List UInt8) : (⟨l.toArray⟩ : ByteArray) = l.toByteArray := by
  apply ByteArray.ext
  simp [List.data_toByteArray]

theorem fromUtf8_utf8 (cs : List Char) : fromUtf8 (utf8 cs) = some cs := by
  unfold fromUtf8 utf8
  have h := @List.utf8Decode?_utf8Encode cs
  unfold List.utf8Encode at h
  rw [mk_toArray, h]; simp

theorem char_toNat_lt (c : Char) : c.toNat < 0x110000 := by
  have h := c.valid
  have e : c.toNat = c.val.toNat := rfl
  simp only [UInt32.isValidChar, Nat.isValidChar] at h
  omega

theorem utf8EncodeChar_bytes (c : Char) :
    ∀ b ∈ String.utf8EncodeChar c, (c.toNat ≤ 0x7f ∧ b.toNat = c.toNat) ∨ 0x80 ≤ b.toNat := by
  intro b hb
  have e : c.toNat = c.val.toNat := rfl
  have hlt := char_toNat_lt c
  unfold String.utf8EncodeChar at hb
  rw [← e] at hb
  generalize c.toNat = v at *
  simp only [] at hb
  split at hb
  · simp at hb; left; subst hb; refine ⟨by assumption, ?_⟩; simp; omega
  · right
    split at hb
    · simp at hb; rcases hb with rfl | rfl <;> simp <;> omega
    · split at hb
      · simp at hb; rcases hb with rfl | rfl | rfl <;> simp <;> omega
      · simp at hb
        rcases hb with rfl | rfl | rfl | rfl <;> simp <;> omega

theorem strLoop_pass (dbg : Bool) (bs : Bytes) (h : ∀ b ∈ bs, b ≠ 0x22 ∧ b ≠ 0x5c) (rest pre acc : Bytes) :
    strLoop dbg (bs ++ rest) pre acc = strLoop dbg rest (bs.reverse ++ pre) (acc ++ bs) := by
  induction bs generalizing pre acc with
  | nil => simp
  | cons b bs ih =>
    have hb := h b (by simp)
    have h' : ∀ x ∈ bs, x ≠ 0x22 ∧ x ≠ 0x5c := fun x hx => h x (by simp [hx])
    simp only [List.cons_append]
    rw [strLoop.eq_def]
    simp only [beq_iff_eq, hb.1, hb.2, if_false]
    rw [ih h']
    simp

theorem hexVal_hexDigit : ∀ n : Fin 16, hexVal? (hexDigit n.val) = some n.val := by decide

theorem hexDigit_ne_plus : ∀ n : Fin 16, hexDigit n.val ≠ 0x2b := by decide
theorem hexDigit_ascii : ∀ n : Fin 16, (hexDigit n.val).toNat < 0x80 := by decide

theorem fromStrRadix16_hex4 (v : Nat) (hv : v < 65536) : fromStrRadix16 (hex4 v) = some v := by
  unfold hex4 fromStrRadix16
  have h3 := hexVal_hexDigit ⟨v / 4096 % 16, by omega⟩
  have h2 := hexVal_hexDigit ⟨v / 256 % 16, by omega⟩
  have h1 := hexVal_hexDigit ⟨v / 16 % 16, by omega⟩
  have h0 := hexVal_hexDigit ⟨v % 16, by omega⟩
  have hp := hexDigit_ne_plus ⟨v / 4096 % 16, by omega⟩
  simp only at h3 h2 h1 h0 hp
  simp only [beq_iff_eq, hp, if_false, hexFold, h3, h2, h1, h0]
  congr 1; omega

theorem char_eq_of_toNat {c : Char} {n : Nat} (h : c.toNat = n) : c = Char.ofNat n := by
  rw [← h]; exact (Char.ofNat_toNat c).symm

theorem utf8EncodeChar_ascii (c : Char) (h : c.toNat ≤ 0x7f) : String.utf8EncodeChar c = [UInt8.ofNat c.toNat] := by
  have e : c.toNat = c.val.toNat := rfl
  unfold String.utf8EncodeChar
  rw [← e]
  simp only []
  rw [if_pos h]

theorem toNat_ofNat_small (n : Nat) (h : n < 0xd800) : (Char.ofNat n).toNat = n := by
  have hv : n.isValidChar := Or.inl h
  unfold Char.ofNat
  rw [dif_pos hv]
  rfl

/-- ASCII bytes are valid UTF-8 -/
theorem utf8_ascii (bs : Bytes) (h : ∀ b ∈ bs, b.toNat < 0x80) : utf8 (bs.map fun b => Char.ofNat b.toNat) = bs := by
  induction bs with
  | nil => rfl
  | cons b bs ih =>
    have hb := h b (by simp)
    have h' : ∀ x ∈ bs, x.toNat < 0x80 := fun x hx => h x (by simp [hx])
    have ih' := ih h'
    simp only [utf8] at ih'
    have hv : (Char.ofNat b.toNat).toNat = b.toNat := toNat_ofNat_small _ (by omega)
    simp only [utf8, List.map_cons, List.flatMap_cons, ih']
    rw [utf8EncodeChar_ascii _ (by omega), hv]
    simp

theorem fromUtf8_ascii (bs : Bytes) (h : ∀ b ∈ bs, b.toNat < 0x80) : (fromUtf8 bs).isSome := by
  rw [← utf8_ascii bs h, fromUtf8_utf8]; rfl

/-- a two-byte escape `\x` whose decoded byte is the UTF-8 encoding of `c` -/
theorem strLoop_simple (dbg : Bool) (x y : UInt8) (hx : x ≠ 0x75) (hy : unescByte x = y)
    (rest pre acc : Bytes) :
    strLoop dbg (0x5c :: x :: rest) pre acc = strLoop dbg rest (x :: 0x5c :: pre) (acc ++ [y]) := by
  rw [strLoop.eq_def]
  simp [hx, hy]

theorem strLoop_u (dbg : Bool) (v : Nat) (hv : v ≤ 0x9f) (rest pre acc : Bytes) :
    strLoop dbg (0x5c :: 0x75 :: (hex4 v ++ rest)) pre acc
      = strLoop dbg rest ((hex4 v).reverse ++ 0x75 :: 0x5c :: pre) (acc ++ String.utf8EncodeChar (Char.ofNat v)) := by
  rw [strLoop.eq_def]
  have hr := fromStrRadix16_hex4 v (by omega)
  have hvalid : (fromUtf8 (hex4 v)).isNone = false := by
    have := fromUtf8_ascii (hex4 v) (by
      intro b hb
      simp only [hex4, List.mem_cons, List.not_mem_nil, or_false] at hb
      rcases hb with rfl | rfl | rfl | rfl
      · exact hexDigit_ascii ⟨v / 4096 % 16, by omega⟩
      · exact hexDigit_ascii ⟨v / 256 % 16, by omega⟩
      · exact hexDigit_ascii ⟨v / 16 % 16, by omega⟩
      · exact hexDigit_ascii ⟨v % 16, by omega⟩)
    cases h : fromUtf8 (hex4 v) <;> simp_all
  simp only [hex4] at hr hvalid ⊢
  simp [hr, hvalid]
  omega

theorem enc_ofNat_small (n : Nat) (h : n ≤ 0x7f) : String.utf8EncodeChar (Char.ofNat n) = [UInt8.ofNat n] := by
  have := toNat_ofNat_small n (by omega)
  rw [utf8EncodeChar_ascii _ (by omega), this]

theorem strLoop_escapeChar (dbg : Bool) (c : Char) (rest pre acc : Bytes) :
    strLoop dbg (escapeChar c ++ rest) pre acc
      = strLoop dbg rest ((escapeChar c).reverse ++ pre) (acc ++ String.utf8EncodeChar c) := by
  unfold escapeChar
  split
  · rename_i h; rw [char_eq_of_toNat h, enc_ofNat_small _ (by omega)]
    exact strLoop_simple dbg 0x22 _ (by decide) (by decide) rest pre acc
  split
  · rename_i h; rw [char_eq_of_toNat h, enc_ofNat_small _ (by omega)]
    exact strLoop_simple dbg 0x5c _ (by decide) (by decide) rest pre acc
  split
  · rename_i h; rw [char_eq_of_toNat h, enc_ofNat_small _ (by omega)]
    exact strLoop_simple dbg 0x6e _ (by decide) (by decide) rest pre acc
  split
  · rename_i h; rw [char_eq_of_toNat h, enc_ofNat_small _ (by omega)]
    exact strLoop_simple dbg 0x72 _ (by decide) (by decide) rest pre acc
  split
  · rename_i h; rw [char_eq_of_toNat h, enc_ofNat_small _ (by omega)]
    exact strLoop_simple dbg 0x74 _ (by decide) (by decide) rest pre acc
  split
  · rename_i h; rw [char_eq_of_toNat h, enc_ofNat_small _ (by omega)]
    exact strLoop_simple dbg 0x62 _ (by decide) (by decide) rest pre acc
  split
  · rename_i h; rw [char_eq_of_toNat h, enc_ofNat_small _ (by omega)]
    exact strLoop_simple dbg 0x66 _ (by decide) (by decide) rest pre acc
  split
  · rename_i hctl
    have hv : c.toNat ≤ 0x9f := by
      simp only [isControl, Bool.or_eq_true, decide_eq_true_eq, Bool.and_eq_true] at hctl
      omega
    have := strLoop_u dbg c.toNat hv rest pre acc
    rw [Char.ofNat_toNat] at this
    simpa using this
  · rename_i h1 h2 _ _ _ _ _ _
    apply strLoop_pass
    intro b hb
    rcases utf8EncodeChar_bytes c b hb with ⟨_, hb⟩ | hb
    · constructor <;> (intro hh; rw [hh] at hb; simp at hb; omega)
    · constructor <;> (intro hh; rw [hh] at hb; simp at hb)

theorem strLoop_escape (dbg : Bool) (cs : List Char) (tail pre acc : Bytes) :
    strLoop dbg (escape cs ++ 0x22 :: tail) pre acc
      = .ok (acc ++ utf8 cs, { pre := 0x22 :: ((escape cs).reverse ++ pre), rest := tail, debug := dbg }) := by
  induction cs generalizing pre acc with
  | nil => rw [strLoop.eq_def]; simp [escape, utf8]
  | cons c cs ih =>
    simp only [escape, List.flatMap_cons, List.append_assoc] at ih ⊢
    rw [strLoop_escapeChar, ih]
    simp [utf8]

theorem skipWsGo_nonws (pre : Bytes) (b : UInt8) (r : Bytes) (h : isWs b = false) :
    skipWsGo pre (b :: r) = (pre, b :: r) := by
  simp [skipWsGo, h]

theorem skipWs_nonws (it : Iter) (b : UInt8) (r : Bytes) (hr : it.rest = b :: r) (h : isWs b = false) :
    skipWs it = it := by
  cases it with
  | mk pre rest dbg =>
    simp only at hr
    subst hr
    simp [skipWs, skipWsGo_nonws _ _ _ h]

theorem skipWs_nil (it : Iter) (hr : it.rest = []) : skipWs it = it := by
  cases it with
  | mk pre rest dbg => simp only at hr; subst hr; simp [skipWs, skipWsGo]

theorem parseQuotedString_quote (cs : List Char) (pre tail : Bytes) (dbg : Bool) :
    parseQuotedString { pre := pre, rest := quote cs ++ tail, debug := dbg }
      = .ok (cs, { pre := (quote cs).reverse ++ pre, rest := tail, debug := dbg }) := by
  unfold parseQuotedString
  have hq : quote cs ++ tail = 0x22 :: (escape cs ++ 0x22 :: tail) := by simp [quote]
  rw [hq, skipWs_nonws _ 0x22 _ rfl (by decide)]
  simp only [expectNext, Res.bind_ok]
  simp only [bne_self_eq_false, Bool.false_eq_true, if_false]
  rw [strLoop_escape]
  simp only [Res.bind_ok, List.nil_append, fromUtf8_utf8]
  simp [quote]

end VtProofs.Json
