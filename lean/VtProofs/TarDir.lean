import VtModel.TarDir
/-!
Names of the tar / directory containers: `parseName (formatName z x y f c) = (z, x, y, f, c)`,
with and without the `./` prefix.
-/
namespace VtProofs.TarDir
open VtModel VtModel.Fmt VtModel.TarDir

/-! ### decimal numbers -/

theorem digitVal_digitChar (d : Nat) (h : d < 10) : digitVal (digitChar d) = some d := by
  have : d = 0 ∨ d = 1 ∨ d = 2 ∨ d = 3 ∨ d = 4 ∨ d = 5 ∨ d = 6 ∨ d = 7 ∨ d = 8 ∨ d = 9 := by omega
  rcases this with h | h | h | h | h | h | h | h | h | h <;> subst h <;> rfl

/-- the characters of a decimal number: digits only -/
def IsDigit (c : Char) : Prop := ∃ d, d < 10 ∧ c = digitChar d

theorem natToDec_digits (n : Nat) : ∀ c ∈ natToDec n, IsDigit c := by
  induction n using Nat.strongRecOn with
  | _ n ih =>
    intro c hc
    rw [natToDec] at hc
    by_cases h : n < 10
    · simp only [h, dite_true, List.mem_singleton] at hc
      exact ⟨n, h, hc⟩
    · simp only [h, dite_false, List.mem_append, List.mem_singleton] at hc
      rcases hc with hc | hc
      · exact ih (n / 10) (by omega) c hc
      · exact ⟨n % 10, by omega, hc⟩

theorem natToDec_ne_nil (n : Nat) : natToDec n ≠ [] := by
  rw [natToDec]
  by_cases h : n < 10 <;> simp [h]

theorem decDigits_append_one (l : List Char) (c : Char) (acc : Nat) :
    decDigits acc (l ++ [c]) = match decDigits acc l with
      | some v => (digitVal c).map (fun d => v * 10 + d)
      | none => none := by
  induction l generalizing acc with
  | nil =>
    simp only [List.nil_append, decDigits]
    cases digitVal c <;> rfl
  | cons a l ih =>
    simp only [List.cons_append, decDigits]
    cases digitVal a with
    | none => rfl
    | some d => exact ih _

theorem decDigits_natToDec (n : Nat) : decDigits 0 (natToDec n) = some n := by
  induction n using Nat.strongRecOn with
  | _ n ih =>
    rw [natToDec]
    by_cases h : n < 10
    · simp only [h, dite_true, decDigits, digitVal_digitChar n h]
      simp
    · simp only [h, dite_false]
      rw [decDigits_append_one, ih (n / 10) (by omega), digitVal_digitChar _ (by omega)]
      simp only [Option.map_some]
      congr 1
      omega

theorem isDigit_ne {c : Char} (h : IsDigit c) : c ≠ '+' ∧ c ≠ '/' ∧ c ≠ '.' := by
  obtain ⟨d, hd, rfl⟩ := h
  have : d = 0 ∨ d = 1 ∨ d = 2 ∨ d = 3 ∨ d = 4 ∨ d = 5 ∨ d = 6 ∨ d = 7 ∨ d = 8 ∨ d = 9 := by omega
  rcases this with h | h | h | h | h | h | h | h | h | h <;> subst h <;> decide

theorem parseUnsigned_of (limit n : Nat) (s : List Char) (h : n < limit) (hne : s ≠ [])
    (hplus : ∀ c ∈ s, c ≠ '+') (hd : decDigits 0 s = some n) : parseUnsigned limit s = some n := by
  have hbody : stripPlus s = s := by
    cases s with
    | nil => rfl
    | cons c cs =>
      have hc : c ≠ '+' := hplus c (by simp)
      unfold stripPlus
      split
      · rename_i r heq
        injection heq with h1 _
        exact absurd h1 hc
      · rfl
  unfold parseUnsigned
  simp only [hbody, hd]
  cases s with
  | nil => exact absurd rfl hne
  | cons c cs => simp [h]

theorem parseUnsigned_natToDec (limit n : Nat) (h : n < limit) : parseUnsigned limit (natToDec n) = some n :=
  parseUnsigned_of limit n (natToDec n) h (natToDec_ne_nil n)
    (fun c hc => (isDigit_ne (natToDec_digits n c hc)).1) (decDigits_natToDec n)

/-! ### splitting -/

theorem splitLastDot_none (s : List Char) (h : '.' ∉ s) : splitLastDot s = none := by
  induction s with
  | nil => rfl
  | cons c cs ih =>
    simp only [List.mem_cons, not_or] at h
    simp only [splitLastDot, ih h.2]
    have : ¬ (c = '.') := fun e => h.1 e.symm
    simp [this]

theorem splitLastDot_append (a b : List Char) (h : '.' ∉ b) :
    splitLastDot (a ++ '.' :: b) = some (a, '.' :: b) := by
  induction a with
  | nil => simp [splitLastDot, splitLastDot_none b h]
  | cons c cs ih => simp [splitLastDot, ih]

theorem splitSlash_noslash (s : List Char) (h : '/' ∉ s) : splitSlash s = [s] := by
  induction s with
  | nil => rfl
  | cons c cs ih =>
    simp only [List.mem_cons, not_or] at h
    have : ¬ (c = '/') := fun e => h.1 e.symm
    simp [splitSlash, ih h.2, this]

theorem splitSlash_ne_nil (s : List Char) : splitSlash s ≠ [] := by
  cases s with
  | nil => simp [splitSlash]
  | cons c cs =>
    unfold splitSlash
    cases h : splitSlash cs with
    | nil => simp
    | cons p ps => by_cases hc : c = '/' <;> simp [hc]

theorem splitSlash_append (a b : List Char) (h : '/' ∉ a) : splitSlash (a ++ '/' :: b) = a :: splitSlash b := by
  induction a with
  | nil =>
    simp only [List.nil_append, splitSlash]
    cases hb : splitSlash b with
    | nil => exact absurd hb (splitSlash_ne_nil b)
    | cons p ps => rfl
  | cons c cs ih =>
    simp only [List.mem_cons, not_or] at h
    have hc : ¬ (c = '/') := fun e => h.1 e.symm
    simp only [List.cons_append, splitSlash, ih h.2, hc, if_false]

/-! ### extensions -/

theorem fmtExt_nodot (f : TileFormat) : ∃ b, fmtExt f = '.' :: b ∧ '.' ∉ b ∧ '/' ∉ b := by
  cases f <;> exact ⟨_, rfl, by decide, by decide⟩

theorem fmtFrom_ext (a : List Char) (f : TileFormat) : fmtFromFilename (a ++ fmtExt f) = some (f, a) := by
  obtain ⟨b, hb, hnd, _⟩ := fmtExt_nodot f
  unfold fmtFromFilename
  rw [hb, splitLastDot_append a b hnd, ← hb]
  cases f <;> rfl

theorem compFrom_ext (a : List Char) (f : TileFormat) (c : TComp) :
    compFromFilename (a ++ (fmtExt f ++ compExt c)) = (c, a ++ fmtExt f) := by
  obtain ⟨b, hb, hnd, _⟩ := fmtExt_nodot f
  cases c with
  | none =>
    simp only [compExt, List.append_nil]
    unfold compFromFilename
    rw [hb, splitLastDot_append a b hnd, ← hb]
    cases f <;> rfl
  | gzip =>
    unfold compFromFilename
    have : a ++ (fmtExt f ++ compExt .gzip) = (a ++ fmtExt f) ++ '.' :: ['g', 'z'] := by
      simp [compExt]
    rw [this, splitLastDot_append _ _ (by decide)]
    rfl
  | brotli =>
    unfold compFromFilename
    have : a ++ (fmtExt f ++ compExt .brotli) = (a ++ fmtExt f) ++ '.' :: ['b', 'r'] := by
      simp [compExt]
    rw [this, splitLastDot_append _ _ (by decide)]
    rfl

/-! ### the file name of a tile -/

theorem classifyTile_format (z x y : Nat) (f : TileFormat) (c : TComp)
    (hz : z ≤ 31) (hx : x < 4294967296) (hy : y < 4294967296) :
    classifyTile (natToDec z) (natToDec x) (natToDec y ++ (fmtExt f ++ compExt c)) = .tile z x y f c := by
  unfold classifyTile
  have h1 : parseU8 (natToDec z) = some z := parseUnsigned_natToDec 256 z (by omega)
  have h2 : parseU32 (natToDec x) = some x := parseUnsigned_natToDec _ x hx
  have h3 : parseU32 (natToDec y) = some y := parseUnsigned_natToDec _ y hy
  simp only [h1, h2, compFrom_ext, fmtFrom_ext, h3]
  have : ¬ (z > 31) := by omega
  simp [this]

theorem noslash_dec (n : Nat) : '/' ∉ natToDec n := by
  intro h
  exact (isDigit_ne (natToDec_digits n _ h)).2.1 rfl

theorem noslash_tail (y : Nat) (f : TileFormat) (c : TComp) : '/' ∉ natToDec y ++ (fmtExt f ++ compExt c) := by
  obtain ⟨b, hb, _, hns⟩ := fmtExt_nodot f
  simp only [List.mem_append, not_or]
  refine ⟨noslash_dec y, ?_, ?_⟩
  · rw [hb]; simp only [List.mem_cons, not_or]; exact ⟨by decide, hns⟩
  · cases c <;> decide

/-- the three components of a formatted name -/
theorem splitSlash_formatName (z x y : Nat) (f : TileFormat) (c : TComp) :
    splitSlash (formatName z x y f c) = [natToDec z, natToDec x, natToDec y ++ (fmtExt f ++ compExt c)] := by
  unfold formatName
  rw [splitSlash_append _ _ (noslash_dec z), splitSlash_append _ _ (noslash_dec x),
    splitSlash_noslash _ (noslash_tail y f c)]

/-! ### the whole path -/

theorem dec_ne_dot (n : Nat) : natToDec n ≠ ['.'] := by
  intro h
  have : '.' ∈ natToDec n := by rw [h]; simp
  exact (isDigit_ne (natToDec_digits n _ this)).2.2 rfl

theorem dec_head (n : Nat) : ∃ c cs, natToDec n = c :: cs ∧ IsDigit c := by
  cases h : natToDec n with
  | nil => exact absurd h (natToDec_ne_nil n)
  | cons c cs => exact ⟨c, cs, rfl, natToDec_digits n c (by rw [h]; simp)⟩

theorem tail_ne (y : Nat) (f : TileFormat) (c : TComp) :
    natToDec y ++ (fmtExt f ++ compExt c) ≠ [] ∧ natToDec y ++ (fmtExt f ++ compExt c) ≠ ['.'] := by
  obtain ⟨d, ds, hd, hdig⟩ := dec_head y
  rw [hd]
  constructor
  · simp
  · intro h
    simp only [List.cons_append] at h
    injection h with h1 _
    exact (isDigit_ne hdig).2.2 h1

/-- joining the components with `/` gives the name back -/
theorem join3 (a b c : List Char) :
    [b, c].foldl (fun acc r => acc ++ ('/' :: r)) a = a ++ ('/' :: (b ++ ('/' :: c))) := by
  simp [List.foldl]

theorem classifyTar_components (a b c : List Char) (ha : a ≠ []) (hb : b ≠ []) (hc : c ≠ [])
    (ha' : a ≠ ['.']) (hb' : b ≠ ['.']) (hc' : c ≠ ['.']) (hs : '/' ∉ a) (hsb : '/' ∉ b) (hsc : '/' ∉ c)
    (name : List Char) (hname : splitSlash name = [a, b, c]) (habs : name.head? ≠ some '/') :
    classifyTar name = classifyTile a b c := by
  unfold classifyTar pathComponents
  have hne : ∀ (l : List Char), l ≠ [] → l.isEmpty = false := by
    intro l hl; cases l with
    | nil => exact absurd rfl hl
    | cons _ _ => rfl
  have habs' : (name.head? = some '/') = False := by simp [habs]
  simp only [hname, List.filter, hne a ha, hne b hb, hne c hc, Bool.not_false, habs', decide_false,
    Bool.false_eq_true, if_false]
  have fb : decide (b ≠ ['.']) = true := by simp [hb']
  have fc : decide (c ≠ ['.']) = true := by simp [hc']
  simp only [fb, fc]
  have hap : (a = ['.']) = False := by simp [ha']
  simp only [hap, if_false]
  rw [join3]
  rw [splitSlash_append _ _ hs, splitSlash_append _ _ hsb, splitSlash_noslash _ hsc]

theorem classifyTar_dot_components (a b c : List Char) (ha : a ≠ []) (hb : b ≠ []) (hc : c ≠ [])
    (ha' : a ≠ ['.']) (hb' : b ≠ ['.']) (hc' : c ≠ ['.']) (hs : '/' ∉ a) (hsb : '/' ∉ b) (hsc : '/' ∉ c)
    (name : List Char) (hname : splitSlash name = [a, b, c]) :
    classifyTar ('.' :: '/' :: name) = classifyTile a b c := by
  unfold classifyTar pathComponents
  have hsp : splitSlash ('.' :: '/' :: name) = ['.'] :: [a, b, c] := by
    have := splitSlash_append ['.'] name (by decide)
    simp only [List.cons_append, List.nil_append] at this
    rw [this, hname]
  have hne : ∀ (l : List Char), l ≠ [] → l.isEmpty = false := by
    intro l hl; cases l with
    | nil => exact absurd rfl hl
    | cons _ _ => rfl
  simp only [hsp, List.filter, hne a ha, hne b hb, hne c hc, Bool.not_false, List.head?_cons]
  have h0 : (['.'] : List Char).isEmpty = false := rfl
  simp only [h0, Bool.not_false]
  have fa : decide (a ≠ ['.']) = true := by simp [ha']
  have fb : decide (b ≠ ['.']) = true := by simp [hb']
  have fc : decide (c ≠ ['.']) = true := by simp [hc']
  have hd : (some '.' = some '/') = False := by simp
  simp only [fa, fb, fc, hd, if_false, if_true]
  have hf : List.filter (fun q => decide (q ≠ ['.'])) [a, b, c] = [a, b, c] := by
    simp [List.filter, ha', hb', hc']
  try rw [hf]
  try simp only []
  rw [join3]
  rw [splitSlash_append _ _ hs, splitSlash_append _ _ hsb, splitSlash_noslash _ hsc]

/-- **names**: the reader's classification of a name the writers produce (directory form) -/
theorem classifyTar_formatName (z x y : Nat) (f : TileFormat) (c : TComp)
    (hz : z ≤ 31) (hx : x < 4294967296) (hy : y < 4294967296) :
    classifyTar (formatName z x y f c) = .tile z x y f c := by
  have ht := tail_ne y f c
  obtain ⟨d, ds, hd, hdig⟩ := dec_head z
  have habs : (formatName z x y f c).head? ≠ some '/' := by
    unfold formatName
    rw [hd]
    simp only [List.cons_append, List.head?_cons]
    intro h
    injection h with h
    exact (isDigit_ne hdig).2.1 h
  rw [classifyTar_components _ _ _ (natToDec_ne_nil z) (natToDec_ne_nil x) ht.1 (dec_ne_dot z) (dec_ne_dot x) ht.2
    (noslash_dec z) (noslash_dec x) (noslash_tail y f c) _ (splitSlash_formatName z x y f c) habs]
  exact classifyTile_format z x y f c hz hx hy

/-- … and with the `./` prefix (tar members of other tools) -/
theorem classifyTar_dot_formatName (z x y : Nat) (f : TileFormat) (c : TComp)
    (hz : z ≤ 31) (hx : x < 4294967296) (hy : y < 4294967296) :
    classifyTar ('.' :: '/' :: formatName z x y f c) = .tile z x y f c := by
  have ht := tail_ne y f c
  rw [classifyTar_dot_components _ _ _ (natToDec_ne_nil z) (natToDec_ne_nil x) ht.1 (dec_ne_dot z) (dec_ne_dot x) ht.2
    (noslash_dec z) (noslash_dec x) (noslash_tail y f c) _ (splitSlash_formatName z x y f c)]
  exact classifyTile_format z x y f c hz hx hy

/-- `parseName (formatName z x y f c) = (z, x, y, f, c)` -/
theorem parseName_formatName (z x y : Nat) (f : TileFormat) (c : TComp)
    (hz : z ≤ 31) (hx : x < 4294967296) (hy : y < 4294967296) :
    parseName (formatName z x y f c) = some (z, x, y, f, c) := by
  unfold parseName
  rw [classifyTar_formatName z x y f c hz hx hy]

theorem parseName_dot_formatName (z x y : Nat) (f : TileFormat) (c : TComp)
    (hz : z ≤ 31) (hx : x < 4294967296) (hy : y < 4294967296) :
    parseName ('.' :: '/' :: formatName z x y f c) = some (z, x, y, f, c) := by
  unfold parseName
  rw [classifyTar_dot_formatName z x y f c hz hx hy]

end VtProofs.TarDir
