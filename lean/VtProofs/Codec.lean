import VtModel.Codec
/-!
Helper lemmas about the compression model (`VtModel.Codec`): the step pipeline is a monoid action,
decompress/compress step lists compute `dec`/`enc`, `optimize` case analysis.
-/
namespace VtModel.Codec

theorem process_append (K : Codec) (s1 s2 : List Step) (b : Bytes) :
    process K (s1 ++ s2) b = (process K s1 b).bind (process K s2) := by
  induction s1 generalizing b with
  | nil => simp [process]
  | cons s ss ih =>
    simp only [List.cons_append, process]
    cases s.run K b with
    | none => simp
    | some b1 => simp [ih]

theorem process_decompressSteps (K : Codec) (c : Comp) (b : Bytes) :
    process K (decompressSteps c) b = K.dec c b := by
  cases c with
  | raw => simp [decompressSteps, process, K.dec_raw]
  | gzip =>
    simp only [decompressSteps, process, Step.run]
    cases K.dec .gzip b <;> simp
  | brotli =>
    simp only [decompressSteps, process, Step.run]
    cases K.dec .brotli b <;> simp

theorem process_compressSteps (K : Codec) (c : Comp) (b : Bytes) :
    process K (compressSteps c) b = some (K.enc c b) := by
  cases c <;> simp [compressSteps, process, Step.run, K.enc_raw]

/-- the pipeline built when the condition of `new_tile_recompressor` holds: decode, then encode -/
theorem process_full (K : Codec) (src dst : Comp) (b : Bytes) :
    process K (decompressSteps src ++ compressSteps dst) b = (K.dec src b).map (K.enc dst) := by
  rw [process_append, process_decompressSteps]
  cases K.dec src b with
  | none => simp
  | some d => simp [process_compressSteps]

theorem decompressSteps_nil {c : Comp} : decompressSteps c = [] ↔ c = .raw := by
  cases c <;> simp [decompressSteps]

theorem compressSteps_nil {c : Comp} : compressSteps c = [] ↔ c = .raw := by
  cases c <;> simp [compressSteps]

/-- decoding is functional w.r.t. encoding: two encodings of different payloads are different -/
theorem enc_injective (K : Codec) (c : Comp) {a b : Bytes} (h : K.enc c a = K.enc c b) : a = b := by
  have := K.dec_enc c a
  rw [h, K.dec_enc] at this
  exact (Option.some.inj this).symm

/-- a valid non-raw stream is never empty -/
theorem enc_ne_nil (K : Codec) {c : Comp} (hc : c ≠ .raw) (b : Bytes) : K.enc c b ≠ [] := by
  intro h
  have := K.dec_enc c b
  rw [h, K.dec_nil c hc] at this
  cases this

end VtModel.Codec
