import VtProofs.TileJson
/-!
C17: `from_object(as_object(t)) = t` for every well-formed TileJSON document: typed insertions
commute past the generic ones; the per-layer object of `vector_layers` round-trips.
-/
namespace VtProofs.TileJson
open VtModel.Json VtModel.TileJson VtProofs.Json

variable {M : Type} (nu : TjNum M)

theorem foldOpt_append {α β : Type} (f : α → β → Option α) (a : α) (l1 l2 : List β) :
    foldOpt f a (l1 ++ l2) = (foldOpt f a l1).bind fun a' => foldOpt f a' l2 := by
  induction l1 generalizing a with
  | nil => simp [foldOpt]
  | cons b l1 ih =>
    simp only [List.cons_append, foldOpt]
    cases f a b with
    | none => simp
    | some a' => simp [ih]

/-- `insertKV` of a key that is not in the map splits the map -/
theorem insertKV_split {V : Type} (k : Key) (v : V) (L : List (Key × V)) (h : ∀ p ∈ L, p.1 ≠ k) :
    ∃ P R, L = P ++ R ∧ insertKV k v L = P ++ (k, v) :: R := by
  induction L with
  | nil => exact ⟨[], [], rfl, rfl⟩
  | cons p L ih =>
    obtain ⟨k', v'⟩ := p
    simp only [insertKV]
    cases hc : cmpKey k k' with
    | lt => exact ⟨[], (k', v') :: L, rfl, rfl⟩
    | eq => exact absurd (cmpKey_eq hc).symm (h (k', v') (by simp))
    | gt =>
      obtain ⟨P, R, e1, e2⟩ := ih (fun q hq => h q (by simp [hq]))
      exact ⟨(k', v') :: P, R, by simp [e1], by simp [e2]⟩

theorem mem_insertKV {V : Type} (k : Key) (v : V) (L : List (Key × V)) (p : Key × V)
    (hp : p ∈ insertKV k v L) : p = (k, v) ∨ p ∈ L := by
  induction L with
  | nil => simp [insertKV] at hp; exact Or.inl hp
  | cons q L ih =>
    obtain ⟨k', v'⟩ := q
    simp only [insertKV] at hp
    cases hc : cmpKey k k' with
    | lt => rw [hc] at hp; simp at hp; rcases hp with h | h | h <;> simp [h]
    | eq => rw [hc] at hp; simp at hp; rcases hp with h | h <;> simp [h]
    | gt =>
      rw [hc] at hp; simp at hp
      rcases hp with h | h
      · simp [h]
      · rcases ih h with h | h <;> simp [h]

/-- a step for a typed key commutes with a step for any other key -/
theorem step_comm (r : TileJSON M) (e1 e2 : Key × JsonValue M) (ht : Typed e1.1) (hne : e1.1 ≠ e2.1) :
    (fromObjectStep nu r e1).bind (fun r1 => fromObjectStep nu r1 e2)
      = (fromObjectStep nu r e2).bind (fun r2 => fromObjectStep nu r2 e1) := by
  obtain ⟨k1, x1⟩ := e1
  obtain ⟨k2, x2⟩ := e2
  simp only at ht hne
  have hbc : kBounds ≠ kCenter := by decide
  have hbl : kBounds ≠ kLayers := by decide
  have hcl : kCenter ≠ kLayers := by decide
  rcases ht with rfl | rfl | rfl
  · -- bounds
    by_cases h2 : k2 = kCenter
    · subst h2
      simp only [fromObjectStep, hbc, hbc.symm, if_true, if_false]
      cases boundsOfJson x1 <;> cases centerOfJson nu x2 <;> simp
    · by_cases h3 : k2 = kLayers
      · subst h3
        simp only [fromObjectStep, hbl, hbl.symm, hcl.symm, if_true, if_false]
        cases boundsOfJson x1 <;> cases layersOfJson nu x2 <;> simp
      · simp only [fromObjectStep, hbc, hbl, hne.symm, h2, h3, if_true, if_false]
        cases boundsOfJson x1 <;> cases TJValue.ofJson nu x2 <;> simp
  · -- center
    by_cases h2 : k2 = kBounds
    · subst h2
      simp only [fromObjectStep, hbc, hbc.symm, if_true, if_false]
      cases centerOfJson nu x1 <;> cases boundsOfJson x2 <;> simp
    · by_cases h3 : k2 = kLayers
      · subst h3
        simp only [fromObjectStep, hbl.symm, hcl, hcl.symm, hbc.symm, if_true, if_false]
        cases centerOfJson nu x1 <;> cases layersOfJson nu x2 <;> simp
      · simp only [fromObjectStep, hbc.symm, hcl, hne.symm, h2, h3, if_true, if_false]
        cases centerOfJson nu x1 <;> cases TJValue.ofJson nu x2 <;> simp
  · -- layers
    by_cases h2 : k2 = kBounds
    · subst h2
      simp only [fromObjectStep, hbl, hbl.symm, hcl.symm, if_true, if_false]
      cases layersOfJson nu x1 <;> cases boundsOfJson x2 <;> simp
    · by_cases h3 : k2 = kCenter
      · subst h3
        simp only [fromObjectStep, hbl.symm, hcl, hcl.symm, hbc.symm, if_true, if_false]
        cases layersOfJson nu x1 <;> cases centerOfJson nu x2 <;> simp
      · simp only [fromObjectStep, hbl.symm, hcl.symm, hne.symm, h2, h3, if_true, if_false]
        cases layersOfJson nu x1 <;> cases TJValue.ofJson nu x2 <;> simp

/-- a typed entry can be processed last -/
theorem foldOpt_typed_last (r : TileJSON M) (e : Key × JsonValue M) (R : List (Key × JsonValue M))
    (ht : Typed e.1) (hR : ∀ p ∈ R, p.1 ≠ e.1) :
    foldOpt (fromObjectStep nu) r (e :: R)
      = (foldOpt (fromObjectStep nu) r R).bind fun r' => fromObjectStep nu r' e := by
  induction R generalizing r with
  | nil => simp [foldOpt]
  | cons q R ih =>
    have hq : e.1 ≠ q.1 := fun h => hR q (by simp) h.symm
    have hc := step_comm nu r e q ht hq
    simp only [foldOpt] at ih ⊢
    -- (step r e).bind (fun r1 => (step r1 q).bind (fold · R))
    have lhs : ((fromObjectStep nu r e).bind fun a' => (fromObjectStep nu a' q).bind fun a'' => foldOpt (fromObjectStep nu) a'' R)
        = ((fromObjectStep nu r e).bind fun r1 => fromObjectStep nu r1 q).bind fun a'' => foldOpt (fromObjectStep nu) a'' R := by
      cases fromObjectStep nu r e <;> simp
    rw [lhs, hc]
    cases hs : fromObjectStep nu r q with
    | none => simp
    | some r2 =>
      simp only [Option.bind_some]
      have := ih r2 (fun p hp => hR p (by simp [hp]))
      rw [← this]

theorem foldOpt_insert_typed (r : TileJSON M) (k : Key) (x : JsonValue M) (L : List (Key × JsonValue M))
    (ht : Typed k) (hL : ∀ p ∈ L, p.1 ≠ k) :
    foldOpt (fromObjectStep nu) r (insertKV k x L)
      = (foldOpt (fromObjectStep nu) r L).bind fun r' => fromObjectStep nu r' (k, x) := by
  obtain ⟨P, R, e1, e2⟩ := insertKV_split k x L hL
  rw [e2, e1, foldOpt_append, foldOpt_append]
  cases foldOpt (fromObjectStep nu) r P with
  | none => simp
  | some r1 =>
    simp only [Option.bind_some]
    exact foldOpt_typed_last nu r1 (k, x) R ht (fun p hp => hL p (by rw [e1]; simp [hp]))


def LayerWF (l : VectorLayer) : Prop :=
  SortedKeys l.fields ∧ (∀ z, l.minzoom = some z → z < 256) ∧ (∀ z, l.maxzoom = some z → z < 256)

theorem asString_str (s : List Char) : asString? (JsonValue.str (N := M) s) = some s := rfl
theorem asNumber_num (n : M) : asNumber? (JsonValue.num n) = some n := rfl

theorem mapM_fields (fs : List (Key × List Char)) :
    (fs.map fun (kv : Key × List Char) => (kv.1, JsonValue.str (N := M) kv.2)).mapM
      (fun (kv : Key × JsonValue M) => (asString? kv.2).map fun s => (kv.1, s)) = some fs := by
  induction fs with
  | nil => rfl
  | cons p fs ih => simp only [List.map_cons, List.mapM_cons, asString_str, Option.map_some, ih]; rfl

theorem sortedKeys_map {V W : Type} (g : V → W) (L : List (Key × V)) (h : SortedKeys L) :
    SortedKeys (L.map fun kv => (kv.1, g kv.2)) := by
  simpa [SortedKeys, List.pairwise_map] using h

theorem layer_roundtrip (laws : TjLaws nu) (id : Key) (l : VectorLayer) (hw : LayerWF l) :
    layerOfJson nu (layerToJson nu id l) = some (id, l) := by
  obtain ⟨fields, description, minzoom, maxzoom⟩ := l
  obtain ⟨hf, hmin, hmax⟩ := hw
  simp only at hf hmin hmax
  have hu1 : ∀ z, minzoom = some z → nu.asU8 (nu.ofByte z) = z := fun z h => laws.u8_rt z (hmin z h)
  have hu2 : ∀ z, maxzoom = some z → nu.asU8 (nu.ofByte z) = z := fun z h => laws.u8_rt z (hmax z h)
  have hF : mkObj (fields.map fun (kv : Key × List Char) => (kv.1, JsonValue.str (N := M) kv.2))
      = fields.map fun kv => (kv.1, JsonValue.str kv.2) := mkObj_sorted _ (sortedKeys_map _ _ hf)
  have n1 : kDescription ≠ kId := by decide
  have n2 : kMinzoom ≠ kId := by decide
  have n3 : kMaxzoom ≠ kId := by decide
  have n4 : kFields ≠ kId := by decide
  have n5 : kDescription ≠ kMaxzoom := by decide
  have n6 : kDescription ≠ kMinzoom := by decide
  have n7 : kMinzoom ≠ kMaxzoom := by decide
  have n8 : kFields ≠ kMaxzoom := by decide
  have n9 : kFields ≠ kMinzoom := by decide
  have n10 : kFields ≠ kDescription := by decide
  have e0 : ∀ (k : Key) (x : JsonValue M), k ≠ kFields → lookupKV k (insertKV kFields x []) = none := by
    intro k x h; rw [lookup_insert_other _ _ h]; rfl
  cases description <;> cases minzoom <;> cases maxzoom <;>
    simp only [layerToJson, layerOfJson, getString, getNumber, fieldsOfJson, hF,
      lookup_insert_same, lookup_insert_other _ _ n1, lookup_insert_other _ _ n2, lookup_insert_other _ _ n3,
      lookup_insert_other _ _ n4, lookup_insert_other _ _ n5, lookup_insert_other _ _ n6, lookup_insert_other _ _ n7,
      lookup_insert_other _ _ n7.symm, lookup_insert_other _ _ n6.symm, lookup_insert_other _ _ n5.symm,
      lookup_insert_other _ _ n8, lookup_insert_other _ _ n9, lookup_insert_other _ _ n10,
      e0 _ _ n10.symm, e0 _ _ n9.symm, e0 _ _ n8.symm,
      asString_str, asNumber_num, Option.map_some, Option.bind_some, Option.map_none, mapM_fields, mkObj_sorted _ hf] <;>
    simp [hu1, hu2]


theorem mapM_layers (laws : TjLaws nu) (ls : List (Key × VectorLayer)) (h : ∀ p ∈ ls, LayerWF p.2) :
    (ls.map fun (il : Key × VectorLayer) => layerToJson nu il.1 il.2).mapM (layerOfJson nu) = some ls := by
  induction ls with
  | nil => rfl
  | cons p ls ih =>
    have := layer_roundtrip nu laws p.1 p.2 (h p (by simp))
    simp only [List.map_cons, List.mapM_cons, this, ih (fun q hq => h q (by simp [hq]))]
    rfl

/-- well-formed documents: what the Rust type can hold -/
structure DocWF (t : TileJSON M) : Prop where
  sorted : SortedKeys t.values
  hasTilejson : ∃ w, (kTilejson, w) ∈ t.values
  untyped : ∀ p ∈ t.values, ¬ Typed p.1
  bytes : ∀ p ∈ t.values, TJValue.WF p.2
  zoom : ∀ c, t.center = some c → c.2.2 < 256
  layersSorted : SortedKeys t.layers
  layersWF : ∀ p ∈ t.layers, LayerWF p.2

theorem mem_setOptional {V : Type} (k : Key) (x : Option V) (L : List (Key × V)) (p : Key × V)
    (hp : p ∈ setOptional k x L) : p.1 = k ∨ p ∈ L := by
  cases x with
  | none => exact Or.inr hp
  | some v =>
    rcases mem_insertKV k v L p hp with h | h
    · exact Or.inl (by rw [h])
    · exact Or.inr h

theorem foldOpt_setOptional (r : TileJSON M) (k : Key) (x : Option (JsonValue M)) (L : List (Key × JsonValue M))
    (ht : Typed k) (hL : ∀ p ∈ L, p.1 ≠ k) :
    foldOpt (fromObjectStep nu) r (setOptional k x L)
      = (foldOpt (fromObjectStep nu) r L).bind fun r' =>
          match x with
          | some v => fromObjectStep nu r' (k, v)
          | none => some r' := by
  cases x with
  | none => simp [setOptional]
  | some v => exact foldOpt_insert_typed nu r k v L ht hL

theorem fromObject_asObject_full (laws : TjLaws nu) (t : TileJSON M) (h : DocWF t) :
    fromObject nu (asObject nu t) = some t := by
  obtain ⟨bounds, center, values, layers⟩ := t
  obtain ⟨hs, ⟨w, hw⟩, hu, hb, hz, hls, hlw⟩ := h
  simp only at hs hw hu hb hz hls hlw
  obtain ⟨A, B, rfl⟩ := List.append_of_mem hw
  -- the generic part of the object
  let o0 : List (Key × JsonValue M) := (A ++ (kTilejson, w) :: B).map fun kv => (kv.1, TJValue.toJson nu kv.2)
  have ho0 : (A ++ (kTilejson, w) :: B).foldl (fun o kv => insertKV kv.1 (TJValue.toJson nu kv.2) o) [] = o0 :=
    foldl_insert_map (TJValue.toJson nu) _ hs
  have hk0 : ∀ p ∈ o0, ¬ Typed p.1 := by
    intro p hp
    simp only [o0, List.mem_map] at hp
    obtain ⟨q, hq, rfl⟩ := hp
    exact hu q hq
  have hfold0 : foldOpt (fromObjectStep nu) TileJSON.default o0
      = some { (TileJSON.default : TileJSON M) with values := A ++ (kTilejson, w) :: B } := by
    rw [foldOpt_values nu laws _ _ hu hb]
    simp only [TileJSON.default]
    rw [foldl_insert_sorted_onto A B kTilejson w _ hs]
  have tb : Typed kBounds := Or.inl rfl
  have tc : Typed kCenter := Or.inr (Or.inl rfl)
  have tl : Typed kLayers := Or.inr (Or.inr rfl)
  have hbc : kBounds ≠ kCenter := by decide
  have hbl : kBounds ≠ kLayers := by decide
  have hcl : kCenter ≠ kLayers := by decide
  let o1 := setOptional kBounds (bounds.map boundsToJson) o0
  let o2 := setOptional kCenter (center.map (centerToJson nu)) o1
  have h1 : ∀ p ∈ o0, p.1 ≠ kBounds := fun p hp e => hk0 p hp (e ▸ tb)
  have h2 : ∀ p ∈ o1, p.1 ≠ kCenter := by
    intro p hp e
    rcases mem_setOptional _ _ _ _ hp with h | h
    · exact hbc (h.symm.trans e)
    · exact hk0 p h (e ▸ tc)
  have h3 : ∀ p ∈ o2, p.1 ≠ kLayers := by
    intro p hp e
    rcases mem_setOptional _ _ _ _ hp with h | h
    · exact hcl (h.symm.trans e)
    · rcases mem_setOptional _ _ _ _ h with h | h
      · exact hbl (h.symm.trans e)
      · exact hk0 p h (e ▸ tl)
  unfold fromObject asObject
  simp only [ho0]
  show foldOpt (fromObjectStep nu) TileJSON.default (setOptional kLayers (layersToJson? nu layers) o2) = _
  rw [foldOpt_setOptional nu _ _ _ _ tl h3, foldOpt_setOptional nu _ _ _ _ tc h2,
    foldOpt_setOptional nu _ _ _ _ tb h1, hfold0]
  have hlay : layers ≠ [] → layersOfJson nu (.arr (layers.map fun (il : Key × VectorLayer) => layerToJson nu il.1 il.2)) = some layers := by
    intro _
    simp only [layersOfJson, mapM_layers nu laws layers hlw, Option.map_some, mkObj_sorted layers hls]
  cases bounds with
  | none =>
    cases center with
    | none =>
      cases layers with
      | nil => simp [layersToJson?, TileJSON.default]
      | cons l ls =>
        have := hlay (by simp)
        simp only [layersToJson?, List.isEmpty_cons, Bool.false_eq_true, if_false, Option.map_none, Option.bind_some,
          fromObjectStep, hbl.symm, hcl.symm, if_true, this, Option.map_some, TileJSON.default]
    | some c =>
      have hc := center_roundtrip nu laws c (hz c rfl)
      cases layers with
      | nil => simp [layersToJson?, TileJSON.default, fromObjectStep, hbc.symm, hc]
      | cons l ls =>
        have := hlay (by simp)
        simp only [layersToJson?, List.isEmpty_cons, Bool.false_eq_true, if_false, Option.map_none, Option.map_some,
          Option.bind_some, fromObjectStep, hbc.symm, hbl.symm, hcl.symm, if_true, hc, this, TileJSON.default]
  | some b =>
    have hbd := bounds_roundtrip b
    cases center with
    | none =>
      cases layers with
      | nil => simp [layersToJson?, TileJSON.default, fromObjectStep, hbd]
      | cons l ls =>
        have := hlay (by simp)
        simp only [layersToJson?, List.isEmpty_cons, Bool.false_eq_true, if_false, Option.map_none, Option.map_some,
          Option.bind_some, fromObjectStep, hbl.symm, hcl.symm, if_true, hbd, this, TileJSON.default]
    | some c =>
      have hc := center_roundtrip nu laws c (hz c rfl)
      cases layers with
      | nil => simp [layersToJson?, TileJSON.default, fromObjectStep, hbc.symm, hc, hbd]
      | cons l ls =>
        have := hlay (by simp)
        simp only [layersToJson?, List.isEmpty_cons, Bool.false_eq_true, if_false, Option.map_some,
          Option.bind_some, fromObjectStep, hbc.symm, hbl.symm, hcl.symm, if_true, hc, hbd, this, TileJSON.default]

end VtProofs.TileJson
