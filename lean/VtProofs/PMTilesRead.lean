import VtModel.PMTiles
import VtProofs.PMFind
import VtProofs.Hilbert
/-!
Completeness of the PMTiles model reader against a relational description of the v3 directory
layout: sorted directories, run lengths, leaf pointers (`run_length = 0`), up to three levels.
-/
namespace VtProofs.PMTilesRead
open VtModel VtModel.Fmt VtModel.PMTiles VtProofs.PMFind

/-- context of a directory tree inside a file -/
structure Ctx where
  K : Inflate
  ic : TComp
  leaves : Bytes
  file : Bytes
  dataOff : Nat

/-- the inflated leaf directory an entry points to -/
def LeafOf (C : Ctx) (e : Entry) (raw : Bytes) : Prop :=
  ∃ blob, readRange C.leaves ⟨e.off, e.len⟩ = .ok blob ∧ C.K.run C.ic blob = .ok raw

/-- id of the entry after `k`, or `hi` for the last entry -/
def nextId (es : List Entry) (k hi : Nat) : Nat :=
  match es[k + 1]? with
  | some e => e.id
  | none => hi

/-- a well-formed directory tree of height `d` (0 = tile entries only) whose tile ids lie in
    `[lo, hi)`: strictly increasing ids, runs that end before the next entry, tile data inside the
    file, leaf pointers (`run_length = 0`) to well-formed sub-trees covering `[entry id, next id)` -/
def WFDir (C : Ctx) : Nat → Nat → Nat → Bytes → Prop
  | 0, lo, hi, raw => ∃ es, decDir raw = .ok es ∧ es.Pairwise (fun a b => a.id < b.id) ∧
      ∀ (k : Nat) (hk : k < es.length), lo ≤ (es[k]'hk).id ∧ (es[k]'hk).id < hi ∧
        ((es[k]'hk).run > 0 → (es[k]'hk).id + (es[k]'hk).run ≤ nextId es k hi ∧
          ((es[k]'hk).len > 0 → (es[k]'hk).off + C.dataOff + (es[k]'hk).len ≤ C.file.length)) ∧
        ((es[k]'hk).run = 0 → (es[k]'hk).len = 0)
  | d + 1, lo, hi, raw => ∃ es, decDir raw = .ok es ∧ es.Pairwise (fun a b => a.id < b.id) ∧
      ∀ (k : Nat) (hk : k < es.length), lo ≤ (es[k]'hk).id ∧ (es[k]'hk).id < hi ∧
        ((es[k]'hk).run > 0 → (es[k]'hk).id + (es[k]'hk).run ≤ nextId es k hi ∧
          ((es[k]'hk).len > 0 → (es[k]'hk).off + C.dataOff + (es[k]'hk).len ≤ C.file.length)) ∧
        ((es[k]'hk).run = 0 → (es[k]'hk).len > 0 →
          ∃ raw', LeafOf C (es[k]'hk) raw' ∧ WFDir C d (es[k]'hk).id (nextId es k hi) raw')

/-- "tile entry `t` addresses id `i`" in a tree of height `d` -/
def Addr (C : Ctx) : Nat → Bytes → Nat → Entry → Prop
  | 0, raw, i, t => ∃ es, decDir raw = .ok es ∧ t ∈ es ∧ t.run > 0 ∧ t.id ≤ i ∧ i < t.id + t.run
  | d + 1, raw, i, t => ∃ es, decDir raw = .ok es ∧
      ((t ∈ es ∧ t.run > 0 ∧ t.id ≤ i ∧ i < t.id + t.run) ∨
       (∃ e ∈ es, e.run = 0 ∧ e.len > 0 ∧ ∃ raw', LeafOf C e raw' ∧ Addr C d raw' i t))

theorem LeafOf.unique {C : Ctx} {e : Entry} {a b : Bytes} (h1 : LeafOf C e a) (h2 : LeafOf C e b) : a = b := by
  obtain ⟨x, hx1, hx2⟩ := h1
  obtain ⟨y, hy1, hy2⟩ := h2
  rw [hx1] at hy1; injection hy1 with hy1; subst hy1
  rw [hx2] at hy2; injection hy2

/-! ### the last entry at or before an id -/

theorem last_le (es : List Entry) (i : Nat) :
    (∀ (j : Nat) (hj : j < es.length), i < (es[j]'hj).id) ∨
    (∃ (k : Nat) (hk : k < es.length), (es[k]'hk).id ≤ i ∧ ∀ (j : Nat) (hj : j < es.length), k < j → i < (es[j]'hj).id) ∨
    ¬ es.Pairwise (fun a b => a.id < b.id) := by
  induction es with
  | nil => left; intro j hj; simp at hj
  | cons e rest ih =>
    by_cases hs : (e :: rest).Pairwise (fun a b => a.id < b.id)
    · rw [List.pairwise_cons] at hs
      rcases ih with h | ⟨k, hk, h1, h2⟩ | h
      · by_cases he : e.id ≤ i
        · right; left
          refine ⟨0, by simp, by simpa using he, ?_⟩
          intro j hj hlt
          cases j with
          | zero => omega
          | succ j => simp only [List.getElem_cons_succ]; exact h j (by simpa using hj)
        · left
          intro j hj
          cases j with
          | zero => simp; omega
          | succ j => simp only [List.getElem_cons_succ]; exact h j (by simpa using hj)
      · right; left
        refine ⟨k + 1, by simp; omega, by simpa using h1, ?_⟩
        intro j hj hlt
        cases j with
        | zero => omega
        | succ j => simp only [List.getElem_cons_succ]; exact h2 j (by simpa using hj) (by omega)
      · exact absurd hs.2 h
    · right; right; exact hs

theorem nextId_le {es : List Entry} (hs : es.Pairwise (fun a b => a.id < b.id)) {k hi : Nat} (hk : k < es.length)
    (hhi : ∀ (j : Nat) (hj : j < es.length), (es[j]'hj).id < hi) :
    (es[k]'hk).id < nextId es k hi ∧ nextId es k hi ≤ hi ∧
    ∀ (j : Nat) (hj : j < es.length), k < j → nextId es k hi ≤ (es[j]'hj).id := by
  have hsi := sortedIdx_of_pairwise hs
  unfold nextId
  by_cases h : k + 1 < es.length
  · simp only [List.getElem?_eq_getElem h]
    refine ⟨hsi k (k + 1) (by omega) h, Nat.le_of_lt (hhi (k + 1) h), ?_⟩
    intro j hj hkj
    exact hsi.le (k + 1) j (by omega) hj
  · have : es[k + 1]? = none := by simp; omega
    simp only [this]
    refine ⟨hhi k hk, Nat.le_refl _, ?_⟩
    intro j hj hkj; omega

/-! ### ids addressed by a well-formed tree lie in its interval -/

theorem addr_range (C : Ctx) : ∀ (d lo hi : Nat) (raw : Bytes) (i : Nat) (t : Entry),
    WFDir C d lo hi raw → Addr C d raw i t → lo ≤ i ∧ i < hi := by
  intro d
  induction d with
  | zero =>
    intro lo hi raw i t hwf ha
    obtain ⟨es, hdec, hs, hall⟩ := hwf
    obtain ⟨es', hdec', hmem, hrun, h1, h2⟩ := ha
    rw [hdec] at hdec'; injection hdec' with e; subst e
    obtain ⟨k, hk, rfl⟩ := List.getElem_of_mem hmem
    obtain ⟨a1, a2, a3, _⟩ := hall k hk
    have hn := nextId_le hs hk (fun j hj => (hall j hj).2.1)
    have := (a3 hrun).1
    omega
  | succ d ih =>
    intro lo hi raw i t hwf ha
    obtain ⟨es, hdec, hs, hall⟩ := hwf
    obtain ⟨es', hdec', hor⟩ := ha
    rw [hdec] at hdec'; injection hdec' with e; subst e
    rcases hor with ⟨hmem, hrun, h1, h2⟩ | ⟨e, hmem, hrun, hlen, raw', hleaf, haddr⟩
    · obtain ⟨k, hk, rfl⟩ := List.getElem_of_mem hmem
      obtain ⟨a1, a2, a3, _⟩ := hall k hk
      have hn := nextId_le hs hk (fun j hj => (hall j hj).2.1)
      have := (a3 hrun).1
      omega
    · obtain ⟨k, hk, rfl⟩ := List.getElem_of_mem hmem
      obtain ⟨a1, a2, _, a4⟩ := hall k hk
      obtain ⟨raw'', hleaf', hwf'⟩ := a4 hrun hlen
      have := LeafOf.unique hleaf hleaf'
      subst this
      have hn := nextId_le hs hk (fun j hj => (hall j hj).2.1)
      have := ih _ _ _ _ _ hwf' haddr
      omega

/-! ### lookups -/

/-- the reader works in context `C` -/
structure RC (r : Reader) (C : Ctx) : Prop where
  k : r.K = C.K
  ic : r.icomp = C.ic
  leaves : r.leaves = C.leaves
  file : r.file = C.file
  off : r.header.data.off = C.dataOff
  size : C.file.length < U64

theorem readTile_ok {r : Reader} {C : Ctx} (rc : RC r C) (t : Entry)
    (h : t.off + C.dataOff + t.len ≤ C.file.length) :
    (if t.off + r.header.data.off ≥ U64 then (Outcome.err : Outcome (Option Bytes))
     else match readRange r.file ⟨t.off + r.header.data.off, t.len⟩ with
       | .ok b => .ok (some b)
       | .err => .err
       | .panic => .panic) = .ok (some (slice C.file ⟨t.off + C.dataOff, t.len⟩)) := by
  have hs := rc.size
  rw [rc.off, rc.file]
  have g0 : ¬ (t.off + C.dataOff ≥ U64) := by omega
  simp only [g0, if_false]
  unfold readRange slice
  have g1 : ¬ (t.off + C.dataOff + t.len ≥ U64) := by omega
  have g2 : ¬ (t.off + C.dataOff + t.len > C.file.length) := by omega
  simp only [g1, g2, if_false]

/-- the tile part of a directory entry (shared by both heights) -/
theorem wf_entries (C : Ctx) (d lo hi : Nat) (raw : Bytes) (h : WFDir C d lo hi raw) :
    ∃ es, decDir raw = .ok es ∧ es.Pairwise (fun a b => a.id < b.id) ∧
      ∀ (k : Nat) (hk : k < es.length), lo ≤ (es[k]'hk).id ∧ (es[k]'hk).id < hi ∧
        ((es[k]'hk).run > 0 → (es[k]'hk).id + (es[k]'hk).run ≤ nextId es k hi ∧
          ((es[k]'hk).len > 0 → (es[k]'hk).off + C.dataOff + (es[k]'hk).len ≤ C.file.length)) := by
  cases d with
  | zero =>
    obtain ⟨es, h1, h2, h3⟩ := h
    exact ⟨es, h1, h2, fun k hk => ⟨(h3 k hk).1, (h3 k hk).2.1, (h3 k hk).2.2.1⟩⟩
  | succ d =>
    obtain ⟨es, h1, h2, h3⟩ := h
    exact ⟨es, h1, h2, fun k hk => ⟨(h3 k hk).1, (h3 k hk).2.1, (h3 k hk).2.2.1⟩⟩

/-- a tile entry that addresses `i` directly is found by `find_tile` -/
theorem find_direct {es : List Entry} (hs : es.Pairwise (fun a b => a.id < b.id)) {hi : Nat}
    (hhi : ∀ (j : Nat) (hj : j < es.length), (es[j]'hj).id < hi)
    (k : Nat) (hk : k < es.length) (i : Nat) (h1 : (es[k]'hk).id ≤ i) (h2 : i < nextId es k hi) :
    findTile es i = .ok (if (es[k]'hk).id = i ∨ (es[k]'hk).run = 0 ∨ i - (es[k]'hk).id < (es[k]'hk).run
                        then some (es[k]'hk) else none) := by
  have hn := nextId_le hs hk hhi
  exact findTile_spec es hs i k hk h1 (fun j hj hkj => by have := hn.2.2 j hj hkj; omega)

/-- **completeness**: every addressed non-empty tile is returned -/
theorem lookup_found (r : Reader) (C : Ctx) (rc : RC r C) : ∀ (d lo hi : Nat) (raw : Bytes) (i : Nat) (t : Entry),
    WFDir C d lo hi raw → Addr C d raw i t → t.len > 0 →
    lookupLoop r i (d + 1) raw = .ok (some (slice C.file ⟨t.off + C.dataOff, t.len⟩)) := by
  intro d
  induction d with
  | zero =>
    intro lo hi raw i t hwf ha hlen
    obtain ⟨es, hdec, hs, hall⟩ := wf_entries C 0 lo hi raw hwf
    obtain ⟨es', hdec', hmem, hrun, h1, h2⟩ := ha
    rw [hdec] at hdec'; injection hdec' with e; subst e
    obtain ⟨k, hk, rfl⟩ := List.getElem_of_mem hmem
    obtain ⟨a1, a2, a3⟩ := hall k hk
    have ⟨b1, b2⟩ := a3 hrun
    have hf := find_direct hs (fun j hj => (hall j hj).2.1) k hk i h1 (by omega)
    have hc : (es[k]'hk).id = i ∨ (es[k]'hk).run = 0 ∨ i - (es[k]'hk).id < (es[k]'hk).run := by
      right; right; omega
    rw [if_pos hc] at hf
    unfold lookupLoop
    simp only [hdec, hf, hlen, hrun, if_true]
    exact readTile_ok rc _ (b2 hlen)
  | succ d ih =>
    intro lo hi raw i t hwf ha hlen
    obtain ⟨es, hdec, hs, hall⟩ := wf_entries C (d + 1) lo hi raw hwf
    obtain ⟨es0, hdec0, _, hall0⟩ := hwf
    rw [hdec] at hdec0; injection hdec0 with e0; subst e0
    obtain ⟨es', hdec', hor⟩ := ha
    rw [hdec] at hdec'; injection hdec' with e; subst e
    rcases hor with ⟨hmem, hrun, h1, h2⟩ | ⟨e, hmem, hrun, helen, raw', hleaf, haddr⟩
    · obtain ⟨k, hk, rfl⟩ := List.getElem_of_mem hmem
      obtain ⟨a1, a2, a3⟩ := hall k hk
      have ⟨b1, b2⟩ := a3 hrun
      have hf := find_direct hs (fun j hj => (hall j hj).2.1) k hk i h1 (by omega)
      have hc : (es[k]'hk).id = i ∨ (es[k]'hk).run = 0 ∨ i - (es[k]'hk).id < (es[k]'hk).run := by
        right; right; omega
      rw [if_pos hc] at hf
      unfold lookupLoop
      simp only [hdec, hf, hlen, hrun, if_true]
      exact readTile_ok rc _ (b2 hlen)
    · obtain ⟨k, hk, rfl⟩ := List.getElem_of_mem hmem
      obtain ⟨raw'', hleaf', hwf'⟩ := (hall0 k hk).2.2.2 hrun helen
      have := LeafOf.unique hleaf hleaf'
      subst this
      have hrange := addr_range C d _ _ raw' i t hwf' haddr
      have hf := find_direct hs (fun j hj => (hall j hj).2.1) k hk i hrange.1 hrange.2
      have hc : (es[k]'hk).id = i ∨ (es[k]'hk).run = 0 ∨ i - (es[k]'hk).id < (es[k]'hk).run := by
        right; left; exact hrun
      rw [if_pos hc] at hf
      obtain ⟨blob, hb1, hb2⟩ := hleaf
      unfold lookupLoop
      have hnr : ¬ ((es[k]'hk).run > 0) := by omega
      simp only [hdec, hf, helen, hnr, if_true, if_false, rc.leaves, hb1, rc.k, rc.ic, hb2]
      exact ih _ _ raw' i t hwf' haddr hlen

/-- **soundness**: when no non-empty tile is addressed the lookup answers `None` (never an error,
    never a panic) -/
theorem lookup_absent (r : Reader) (C : Ctx) (rc : RC r C) : ∀ (d lo hi : Nat) (raw : Bytes) (i : Nat),
    WFDir C d lo hi raw → (∀ t, Addr C d raw i t → t.len = 0) →
    lookupLoop r i (d + 1) raw = .ok none := by
  intro d
  induction d with
  | zero =>
    intro lo hi raw i hwf hno
    obtain ⟨es, hdec, hs, hall⟩ := hwf
    unfold lookupLoop
    simp only [hdec]
    rcases last_le es i with h | ⟨k, hk, h1, h2⟩ | h
    · simp only [findTile_none es hs i h]
    · have hf := findTile_spec es hs i k hk h1 h2
      by_cases hc : (es[k]'hk).id = i ∨ (es[k]'hk).run = 0 ∨ i - (es[k]'hk).id < (es[k]'hk).run
      · rw [if_pos hc] at hf
        simp only [hf]
        by_cases hl : (es[k]'hk).len > 0
        · exfalso
          by_cases hr : (es[k]'hk).run > 0
          · have : Addr C 0 raw i (es[k]'hk) :=
              ⟨es, hdec, List.getElem_mem hk, hr, h1, by rcases hc with c | c | c <;> omega⟩
            have := hno _ this
            omega
          · have := (hall k hk).2.2.2 (by omega)
            omega
        · simp only [hl, if_false]
      · rw [if_neg hc] at hf
        simp only [hf]
    · exact absurd hs h
  | succ d ih =>
    intro lo hi raw i hwf hno
    obtain ⟨es, hdec, hs, hall⟩ := hwf
    unfold lookupLoop
    simp only [hdec]
    rcases last_le es i with h | ⟨k, hk, h1, h2⟩ | h
    · simp only [findTile_none es hs i h]
    · have hf := findTile_spec es hs i k hk h1 h2
      by_cases hc : (es[k]'hk).id = i ∨ (es[k]'hk).run = 0 ∨ i - (es[k]'hk).id < (es[k]'hk).run
      · rw [if_pos hc] at hf
        simp only [hf]
        by_cases hl : (es[k]'hk).len > 0
        · simp only [hl, if_true]
          by_cases hr : (es[k]'hk).run > 0
          · exfalso
            have : Addr C (d + 1) raw i (es[k]'hk) :=
              ⟨es, hdec, Or.inl ⟨List.getElem_mem hk, hr, h1, by rcases hc with c | c | c <;> omega⟩⟩
            have := hno _ this
            omega
          · simp only [hr, if_false]
            obtain ⟨raw', hleaf, hwf'⟩ := (hall k hk).2.2.2 (by omega) hl
            obtain ⟨blob, hb1, hb2⟩ := hleaf
            simp only [rc.leaves, hb1, rc.k, rc.ic, hb2]
            apply ih _ _ raw' i hwf'
            intro t ht
            exact hno t ⟨es, hdec, Or.inr ⟨es[k]'hk, List.getElem_mem hk, by omega, hl, raw', ⟨blob, hb1, hb2⟩, ht⟩⟩
        · simp only [hl, if_false]
      · rw [if_neg hc] at hf
        simp only [hf]
    · exact absurd hs h

/-! ### more fuel does not change a successful lookup -/

theorem lookupLoop_mono (r : Reader) (i : Nat) : ∀ (n : Nat) (raw : Bytes) (v : Option Bytes),
    lookupLoop r i n raw = .ok v → ∀ m, n ≤ m → lookupLoop r i m raw = .ok v := by
  intro n
  induction n with
  | zero => intro raw v h; simp [lookupLoop] at h
  | succ n ih =>
    intro raw v h m hm
    cases m with
    | zero => omega
    | succ m =>
      unfold lookupLoop at h ⊢
      cases hd : decDir raw with
      | ok es =>
        rw [hd] at h; try simp only at h ⊢
        cases hf : findTile es i with
        | ok o =>
          rw [hf] at h; try simp only at h ⊢
          cases o with
          | none => exact h
          | some e =>
            try simp only at h ⊢
            by_cases hl : e.len > 0
            · simp only [hl, if_true] at h ⊢
              by_cases hr : e.run > 0
              · simp only [hr, if_true] at h ⊢; exact h
              · simp only [hr, if_false] at h ⊢
                cases hrr : readRange r.leaves ⟨e.off, e.len⟩ with
                | ok blob =>
                  rw [hrr] at h; try simp only at h ⊢
                  cases hk : r.K.run r.icomp blob with
                  | ok raw' =>
                    rw [hk] at h; try simp only at h ⊢
                    exact ih raw' v h m (by omega)
                  | err => rw [hk] at h; simp at h
                  | panic => rw [hk] at h; simp at h
                | err => rw [hrr] at h; simp at h
                | panic => rw [hrr] at h; simp at h
            · simp only [hl, if_false] at h ⊢; exact h
        | err => rw [hf] at h; simp at h
        | panic => rw [hf] at h; simp at h
      | err => rw [hd] at h; simp at h
      | panic => rw [hd] at h; simp at h

/-! ### the coverage walk succeeds on well-formed trees -/

theorem coverRun_ok (c : Cover) (id : Nat) : ∀ n, id + n ≤ Hilbert.base 32 → ∃ c', coverRun c id n = .ok c' := by
  intro n
  induction n with
  | zero => intro _; exact ⟨c, rfl⟩
  | succ n ih =>
    intro h
    obtain ⟨c', hc⟩ := ih (by omega)
    have hb := VtProofs.Hilbert.base32_lt
    have hlt : n + id < Hilbert.base 32 := by omega
    have hu : ¬ (n + id ≥ U64) := by unfold U64; omega
    unfold coverRun
    simp only [hc, hu, if_false, VtProofs.Hilbert.tileIdToCoordLoop_eq hlt]
    exact ⟨_, rfl⟩

/-- what the walk needs from one entry -/
def EntryGood (C : Ctx) (fuel : Nat) (e : Entry) : Prop :=
  e.len > 0 → (e.run > 0 → e.id + e.run ≤ Hilbert.base 32) ∧
    (e.run = 0 → ∃ raw', LeafOf C e raw' ∧ ∀ c, ∃ c', coverDir C.K C.ic C.leaves fuel c raw' = .ok c')

theorem coverEntries_ok (C : Ctx) (fuel : Nat) : ∀ (l : List Entry) (c : Cover), (∀ e ∈ l, EntryGood C fuel e) →
    ∃ c', coverEntries C.K C.ic C.leaves fuel c l = .ok c' := by
  intro l
  induction l with
  | nil => intro c _; exact ⟨c, by simp [coverEntries]⟩
  | cons e rest ih =>
    intro c h
    have he := h e (by simp)
    unfold coverEntries
    by_cases hl : e.len > 0
    · simp only [hl, if_true]
      obtain ⟨g1, g2⟩ := he hl
      by_cases hr : e.run > 0
      · simp only [hr, if_true]
        obtain ⟨c1, hc1⟩ := coverRun_ok c e.id e.run (g1 hr)
        simp only [hc1]
        exact ih c1 (fun x hx => h x (by simp [hx]))
      · simp only [hr, if_false]
        obtain ⟨raw', ⟨blob, hb1, hb2⟩, hcov⟩ := g2 (by omega)
        obtain ⟨c1, hc1⟩ := hcov c
        simp only [hb1, hb2, hc1]
        exact ih c1 (fun x hx => h x (by simp [hx]))
    · simp only [hl, if_false]
      exact ih c (fun x hx => h x (by simp [hx]))

theorem coverDir_ok (C : Ctx) : ∀ (d fuel lo hi : Nat) (raw : Bytes), WFDir C d lo hi raw → hi ≤ Hilbert.base 32 → d < fuel →
    ∀ c, ∃ c', coverDir C.K C.ic C.leaves fuel c raw = .ok c' := by
  intro d
  induction d with
  | zero =>
    intro fuel lo hi raw hwf hhi hf c
    obtain ⟨es, hdec, hs, hall⟩ := hwf
    cases fuel with
    | zero => omega
    | succ fuel =>
      unfold coverDir
      simp only [hdec]
      apply coverEntries_ok C fuel es c
      intro e he hl
      obtain ⟨k, hk, rfl⟩ := List.getElem_of_mem he
      obtain ⟨a1, a2, a3, a4⟩ := hall k hk
      have hn := nextId_le hs hk (fun j hj => (hall j hj).2.1)
      constructor
      · intro hr; have := (a3 hr).1; omega
      · intro hr; have := a4 hr; omega
  | succ d ih =>
    intro fuel lo hi raw hwf hhi hf c
    obtain ⟨es, hdec, hs, hall⟩ := hwf
    cases fuel with
    | zero => omega
    | succ fuel =>
      unfold coverDir
      simp only [hdec]
      apply coverEntries_ok C fuel es c
      intro e he hl
      obtain ⟨k, hk, rfl⟩ := List.getElem_of_mem he
      obtain ⟨a1, a2, a3, a4⟩ := hall k hk
      have hn := nextId_le hs hk (fun j hj => (hall j hj).2.1)
      constructor
      · intro hr; have := (a3 hr).1; omega
      · intro hr
        obtain ⟨raw', hleaf, hwf'⟩ := a4 hr hl
        exact ⟨raw', hleaf, ih fuel _ _ raw' hwf' (by omega) (by omega)⟩

/-! ### the relational description of a valid PMTiles file and the completeness theorem -/

/-- a PMTiles v3 file that stores exactly the map `m`: valid header, readable and inflatable
    metadata / root directory, a well-formed directory tree of height ≤ 2 (root, leaves, leaves of
    leaves) over the whole id space, and `m` = the non-empty tiles addressed by the tree -/
structure ValidPMTiles (K : Inflate) (file : Bytes) (fmt : TileFormat) (comp : TComp)
    (m : Nat × Nat × Nat → Option Bytes) : Prop where
  size : file.length < U64
  ex : ∃ (h : Header) (ic : TComp) (root leaves : Bytes) (d : Nat),
    (∃ hb, readRange file ⟨0, 127⟩ = .ok hb ∧ decHeader hb = .ok h) ∧
    compOfCode h.icomp = .ok ic ∧
    (∃ mb raw, readRange file h.metaR = .ok mb ∧ K.run ic mb = .ok raw) ∧
    (∃ rc, readRange file h.root = .ok rc ∧ K.run ic rc = .ok root) ∧
    readRange file h.leaf = .ok leaves ∧
    compOfCode h.tcomp = .ok comp ∧ fmtOfType h.ttype = fmt ∧
    d ≤ 2 ∧ WFDir ⟨K, ic, leaves, file, h.data.off⟩ d 0 (Hilbert.base 32) root ∧
    (∀ x y z blob, z ≤ 31 → x < 2 ^ z → y < 2 ^ z →
      (m (x, y, z) = some blob ↔
        ∃ t, Addr ⟨K, ic, leaves, file, h.data.off⟩ d root (Hilbert.coordToTileId x y z) t ∧ t.len > 0 ∧
          blob = slice file ⟨t.off + h.data.off, t.len⟩))

/-- **C16 (PMTiles)**: a valid file is opened (incl. the coverage walk) and every lookup of a valid
    coordinate returns exactly `m` — run lengths, shared offsets, leaf directories of up to three
    levels included; never `Err`, never a panic. -/
theorem pmtiles_complete {K file fmt comp m} (v : ValidPMTiles K file fmt comp m) :
    ∃ r, openReader K file = .ok r ∧ fmtOfType r.header.ttype = fmt ∧ compOfCode r.header.tcomp = .ok comp ∧
      ∀ x y z, z ≤ 31 → x < 2 ^ z → y < 2 ^ z → getTile r x y z = .ok (m (x, y, z)) := by
  obtain ⟨h, ic, root, leaves, d, ⟨hb, hh1, hh2⟩, hic, ⟨mb, mraw, hm1, hm2⟩, ⟨rc, hr1, hr2⟩, hlv, htc, hfmt, hd, hwf, hmap⟩ := v.ex
  let C : Ctx := ⟨K, ic, leaves, file, h.data.off⟩
  obtain ⟨cov, hcov⟩ := coverDir_ok C d 3 0 (Hilbert.base 32) root hwf (Nat.le_refl _) (by omega) Cover.empty
  have hopen : openReader K file = .ok ⟨file, h, ic, root, leaves, K, cov.filterMap id⟩ := by
    unfold openReader
    simp only [hh1, ok_bind, hh2, hic, hm1, hm2, hr1, hr2, hlv, htc, pure_eq]
    have : coverDir K ic leaves 3 Cover.empty root = .ok cov := hcov
    simp only [this, ok_bind]
  refine ⟨_, hopen, hfmt, htc, ?_⟩
  intro x y z hz hx hy
  have rcx : RC ⟨file, h, ic, root, leaves, K, cov.filterMap id⟩ C := ⟨rfl, rfl, rfl, rfl, rfl, v.size⟩
  unfold getTile
  rw [VtProofs.Hilbert.coordToTileIdLoop_eq (by omega) hx hy]
  simp only
  cases hmx : m (x, y, z) with
  | some blob =>
    obtain ⟨t, ht, hl, hbl⟩ := (hmap x y z blob hz hx hy).1 hmx
    have := lookup_found _ C rcx d 0 _ root _ t hwf ht hl
    rw [hbl]
    exact lookupLoop_mono _ _ _ _ _ this 3 (by omega)
  | none =>
    have hno : ∀ t, Addr C d root (Hilbert.coordToTileId x y z) t → t.len = 0 := by
      intro t ht
      apply Classical.byContradiction
      intro hne
      have : m (x, y, z) = some (slice file ⟨t.off + h.data.off, t.len⟩) :=
        (hmap x y z _ hz hx hy).2 ⟨t, ht, by omega, rfl⟩
      rw [hmx] at this
      cases this
    have := lookup_absent _ C rcx d 0 _ root _ hwf hno
    exact lookupLoop_mono _ _ _ _ _ this 3 (by omega)

end VtProofs.PMTilesRead
