import VtProofs.VplLex
/-!
# VPL values, arrays and properties as written (concrete syntax) and what the parser model reads back
-/
namespace VtModel.Vpl

/-! ## character facts -/

theorem isBare_of_isWs {c : Char} (h : isWs c = true) : isBare c = false := by
  simp only [isWs, Bool.or_eq_true, beq_iff_eq] at h
  rcases h with ((rfl | rfl) | rfl) | rfl <;> rfl

theorem isWs_of_isBare {c : Char} (h : isBare c = true) : isWs c = false := by
  cases hw : isWs c with
  | false => rfl
  | true => rw [isBare_of_isWs hw] at h; cases h

theorem isWs_of_isAlpha {c : Char} (h : isAlpha c = true) : isWs c = false :=
  isWs_of_isBare (isBare_of_isIdentRest (isIdentRest_of_isAlpha h))

/-- "white or word": whitespace or a character of bare values / identifiers -/
def isWW (c : Char) : Bool := isWs c || isBare c

theorem NoHead.ws_of_ww {i : Str} (h : NoHead isWW i) : NoHead isWs i := by
  intro c t e; have := h c t e; simp only [isWW, Bool.or_eq_false_iff] at this; exact this.1
theorem NoHead.nw_of_ww {i : Str} (h : NoHead isWW i) : NW i := by
  intro c t e; have := h c t e; simp only [isWW, Bool.or_eq_false_iff] at this; exact this.2

/-- what may follow an operation: end of text, `|`, `,`, `]` -/
def stopChar (c : Char) : Bool := c == '|' || c == ',' || c == ']'
def Stop (i : Str) : Prop := ∀ c t, i = c :: t → stopChar c = true
/-- what may follow a pipeline: end of text, `,`, `]` -/
def stopPChar (c : Char) : Bool := c == ',' || c == ']'
def StopP (i : Str) : Prop := ∀ c t, i = c :: t → stopPChar c = true

theorem Stop.nil : Stop [] := by intro c t h; cases h
theorem StopP.nil : StopP [] := by intro c t h; cases h
theorem StopP.stop {i : Str} (h : StopP i) : Stop i := by
  intro c t e; have := h c t e
  simp only [stopPChar, stopChar, Bool.or_eq_true] at this ⊢
  rcases this with h | h
  · exact Or.inl (Or.inr h)
  · exact Or.inr h

theorem isWW_of_stopChar {c : Char} (h : stopChar c = true) : isWW c = false := by
  simp only [stopChar, Bool.or_eq_true, beq_iff_eq] at h
  rcases h with (rfl | rfl) | rfl <;> rfl

theorem Stop.ww {i : Str} (h : Stop i) : NoHead isWW i := fun c t e => isWW_of_stopChar (h c t e)

theorem Stop.not_bracket {i : Str} (h : Stop i) (t : Str) : i ≠ '[' :: t := by
  intro e; have := h _ _ e; revert this; decide

theorem StopP.not_pipe {i : Str} (h : StopP i) (t : Str) : i ≠ '|' :: t := by
  intro e; have := h _ _ e; revert this; decide

theorem dropWs_of_headNotWs {x : Str} {c : Char} {t : Str} (hx : x = c :: t) (hc : isWs c = false) (r : Str) :
    dropWs (x ++ r) = x ++ r := by
  subst hx; exact dropWs_cons_of_not hc _

theorem IsIdent.head {s : Str} (h : IsIdent s) : ∃ c t, s = c :: t ∧ isWs c = false := by
  obtain ⟨c, t, e, hc, _⟩ := h
  exact ⟨c, t, e, isWs_of_isAlpha hc⟩

/-! ## the loop of `separated_list` over written chunks -/

theorem length_le_flatten {X : Type} (chunk : X → Str) (xs : List X) (hne : ∀ x ∈ xs, chunk x ≠ []) :
    xs.length ≤ ((xs.map chunk).flatten).length := by
  induction xs with
  | nil => simp
  | cons x xs ih =>
    have h1 : 0 < (chunk x).length := List.length_pos_iff.2 (hne x (List.mem_cons_self ..))
    have h2 := ih (fun y hy => hne y (List.mem_cons_of_mem _ hy))
    simp only [List.map_cons, List.flatten_cons, List.length_append, List.length_cons]
    omega

/-- `xs` written as `chunk x₁ ++ chunk x₂ ++ … ++ rest`, where every chunk is "separator then element":
    the loop reads all of them and stops in front of `rest`. -/
theorem sepLoop_chunks {α X : Type} (sep : P Unit) (elem : P α) (chunk : X → Str) (val : X → α)
    (Good : Str → Prop) (xs : List X) (rest : Str)
    (hstep : ∀ x ∈ xs, ∀ tail, Good tail →
      ∃ mid, sep (chunk x ++ tail) = .ok mid () ∧ elem mid = .ok tail (val x))
    (hne : ∀ x ∈ xs, chunk x ≠ [])
    (hgc : ∀ x ∈ xs, ∀ tail, Good (chunk x ++ tail))
    (hgr : Good rest)
    (hend : sep rest = .error ∨ ∃ m, sep rest = .ok m () ∧ elem m = .error) :
    ∀ (fuel : Nat) (acc : List α), xs.length < fuel →
      sepLoop sep elem fuel ((xs.map chunk).flatten ++ rest) acc = .ok rest (acc ++ xs.map val) := by
  induction xs with
  | nil =>
    intro fuel acc hf
    cases fuel with
    | zero => omega
    | succ n =>
      simp only [List.map_nil, List.flatten_nil, List.nil_append, List.append_nil]
      rcases hend with h | ⟨m, h1, h2⟩
      · simp only [sepLoop, h]
      · simp only [sepLoop, h1, h2]
  | cons x xs ih =>
    intro fuel acc hf
    cases fuel with
    | zero => omega
    | succ n =>
      have hx := List.mem_cons_self (a := x) (l := xs)
      have hgt : Good ((xs.map chunk).flatten ++ rest) := by
        cases xs with
        | nil => simpa using hgr
        | cons y ys =>
          simp only [List.map_cons, List.flatten_cons, List.append_assoc]
          exact hgc y (List.mem_cons_of_mem _ (List.mem_cons_self ..)) _
      obtain ⟨mid, h1, h2⟩ := hstep x hx _ hgt
      have hlen : ((xs.map chunk).flatten ++ rest).length ≠ (chunk x ++ ((xs.map chunk).flatten ++ rest)).length := by
        have : 0 < (chunk x).length := List.length_pos_iff.2 (hne x hx)
        simp only [List.length_append]; omega
      have ih' := ih (fun y hy => hstep y (List.mem_cons_of_mem _ hy)) (fun y hy => hne y (List.mem_cons_of_mem _ hy))
        (fun y hy => hgc y (List.mem_cons_of_mem _ hy)) n (acc ++ [val x]) (by simp only [List.length_cons] at hf; omega)
      simp only [List.map_cons, List.flatten_cons, List.append_assoc, sepLoop, h1, h2, hlen, if_false, ih']
      simp

/-! ## items (elements of arrays, scalar values) -/


def CItem.WF : CItem → Prop
  | .bare s => IsBare s
  | .quoted qs => ∀ q ∈ qs, q.WF

theorem CItem.head (it : CItem) (h : it.WF) : ∃ c t, it.str = c :: t ∧ isWs c = false := by
  cases it with
  | bare s =>
    obtain ⟨hne, hb⟩ := h
    cases s with
    | nil => exact absurd rfl hne
    | cons c t => exact ⟨c, t, rfl, isWs_of_isBare (hb c (List.mem_cons_self ..))⟩
  | quoted qs => exact ⟨'"', _, rfl, rfl⟩

theorem pchar_quote_bare {s : Str} (hs : IsBare s) (r : Str) : pchar '"' (s ++ r) = .error := by
  obtain ⟨hne, hb⟩ := hs
  cases s with
  | nil => exact absurd rfl hne
  | cons c t =>
    have hc := hb c (List.mem_cons_self ..)
    have : c ≠ '"' := by intro e; rw [e] at hc; revert hc; decide
    simp [pchar, this]

theorem parseQuoted_error_of_pchar {i : Str} (h : pchar '"' i = .error) : parseQuoted i = .error := by
  simp [parseQuoted, h]

/-- **item**: a bare or quoted value followed by something that does not continue a bare value -/
theorem parseItem_ok (it : CItem) (h : it.WF) (rest : Str) (hr : NW rest) :
    parseItem (it.str ++ rest) = .ok rest it.val := by
  cases it with
  | bare s =>
    simp only [parseItem, alt, CItem.str, CItem.val, parseQuoted_error_of_pchar (pchar_quote_bare h rest)]
    exact parseUnquoted_ok h hr
  | quoted qs =>
    have := parseQuoted_ok qs h rest
    simp only [parseItem, alt, CItem.str, CItem.val, List.cons_append, List.append_assoc, List.nil_append, this]

theorem parseItem_error {i : Str} (h : NoHead isWW i) (hq : ∀ t, i ≠ '"' :: t) : parseItem i = .error := by
  have h1 : pchar '"' i = .error := by
    cases i with
    | nil => rfl
    | cons c t =>
      have : c ≠ '"' := by intro e; exact hq t (by rw [e])
      simp [pchar, this]
  simp only [parseItem, alt, parseQuoted_error_of_pchar h1]
  exact parseUnquoted_error h.nw_of_ww

/-! ## values -/



def CVal.WF : CVal → Prop
  | .scalar it => it.WF
  | .list _ none _ => True
  | .list _ (some (it, more)) _ => it.WF ∧ ∀ x ∈ more, x.2.2.WF

theorem CVal.head (v : CVal) (h : v.WF) : ∃ c t, v.str = c :: t ∧ isWs c = false := by
  cases v with
  | scalar it => exact it.head h
  | list w0 items w1 =>
    cases items with
    | none => exact ⟨'[', _, rfl, rfl⟩
    | some x => exact ⟨'[', _, rfl, rfl⟩

theorem commaSep_chunk (wa wb : Ws) (x r : Str) (c : Char) (t : Str) (hx : x = c :: t) (hc : isWs c = false) :
    commaSep (wa.str ++ ',' :: (wb.str ++ (x ++ r))) = .ok (x ++ r) () := by
  simp only [commaSep, ws0_eq, R.bind_ok, dropWs_ws]
  rw [dropWs_cons_of_not (by rfl : isWs ',' = false)]
  simp only [pchar, if_true, R.bind_ok, dropWs_ws]
  rw [dropWs_of_headNotWs hx hc]

theorem commaSep_close (w : Ws) (r : Str) : commaSep (w.str ++ ']' :: r) = .error := by
  simp only [commaSep, ws0_eq, R.bind_ok, dropWs_ws]
  rw [dropWs_cons_of_not (by rfl : isWs ']' = false)]
  simp [pchar]

theorem nw_items_tail (more : List (Ws × Ws × CItem)) (w1 : Ws) (r : Str) :
    NW ((more.map chunkItem).flatten ++ (w1.str ++ ']' :: r)) := by
  cases more with
  | nil => exact NW.ws w1 (NoHead.cons (by rfl) _)
  | cons x xs =>
    simp only [List.map_cons, List.flatten_cons, chunkItem, List.append_assoc]
    exact NW.ws x.1 (NoHead.cons (by rfl) _)

/-- **array** -/
theorem parseArray_ok (w0 : Ws) (items : Option (CItem × List (Ws × Ws × CItem))) (w1 : Ws)
    (h : (CVal.list w0 items w1).WF) (rest : Str) :
    parseArray ((CVal.list w0 items w1).str ++ rest) = .ok rest (CVal.list w0 items w1).vals := by
  cases items with
  | none =>
    simp only [CVal.str, CVal.vals, parseArray, List.cons_append, List.append_assoc, List.nil_append, pchar, if_true, R.bind_ok, ws0_eq, dropWs_ws]
    rw [dropWs_cons_of_not (by rfl : isWs ']' = false)]
    have : parseItem (']' :: rest) = .error :=
      parseItem_error (NoHead.cons (by rfl) _) (by intro t e; cases e)
    simp [sepList0, this, dropWs_cons_of_not, isWs]
  | some x =>
    obtain ⟨it, more⟩ := x
    obtain ⟨hit, hmore⟩ := h
    obtain ⟨c, t, hc, hcw⟩ := it.head hit
    simp only [CVal.str, CVal.vals, parseArray, List.cons_append, List.append_assoc, List.nil_append, pchar, if_true, R.bind_ok, ws0_eq, dropWs_ws]
    rw [dropWs_of_headNotWs hc hcw]
    have h1 := parseItem_ok it hit _ (nw_items_tail more w1 rest)
    have hloop := sepLoop_chunks commaSep parseItem chunkItem (fun x => x.2.2.val) NW more (w1.str ++ ']' :: rest)
      (by
        intro x hx tail ht
        obtain ⟨c', t', hc', hcw'⟩ := x.2.2.head (hmore x hx)
        refine ⟨x.2.2.str ++ tail, ?_, parseItem_ok _ (hmore x hx) _ ht⟩
        simp only [chunkItem, List.append_assoc, List.cons_append]
        exact commaSep_chunk x.1 x.2.1 x.2.2.str tail c' t' hc' hcw')
      (by intro x _ h; simp [chunkItem] at h)
      (by intro x _ tail; simp only [chunkItem, List.append_assoc, List.cons_append]; exact NW.ws x.1 (NoHead.cons (by rfl) _))
      (NW.ws w1 (NoHead.cons (by rfl) _))
      (Or.inl (commaSep_close w1 rest))
    have hfuel : more.length < ((more.map chunkItem).flatten ++ (w1.str ++ ']' :: rest)).length + 1 := by
      have := length_le_flatten chunkItem more (by intro x _ h; simp [chunkItem] at h)
      simp only [List.length_append]; omega
    simp only [sepList0, h1, hloop _ [it.val] hfuel, R.bind_ok, ws0_eq, dropWs_ws]
    rw [dropWs_cons_of_not (by rfl : isWs ']' = false)]
    simp [pchar]

theorem parseQuoted_error_bracket (r : Str) : parseQuoted ('[' :: r) = .error := by
  simp [parseQuoted, pchar]
theorem parseUnquoted_error_bracket (r : Str) : parseUnquoted ('[' :: r) = .error :=
  parseUnquoted_error (NoHead.cons (by rfl) _)

/-- **value**: quoted, bare or bracketed list → the list of strings it stands for -/
theorem parseValue_ok (v : CVal) (h : v.WF) (rest : Str) (hr : NW rest) :
    parseValue (v.str ++ rest) = .ok rest v.vals := by
  cases v with
  | scalar it =>
    cases it with
    | bare s =>
      simp only [parseValue, alt, CVal.str, CVal.vals, CItem.str, CItem.val,
        parseQuoted_error_of_pchar (pchar_quote_bare h rest), R.map_error, parseUnquoted_ok h hr, R.map_ok]
    | quoted qs =>
      have := parseQuoted_ok qs h rest
      simp only [parseValue, alt, CVal.str, CVal.vals, CItem.str, CItem.val, List.cons_append, List.append_assoc,
        List.nil_append, this, R.map_ok]
  | list w0 items w1 =>
    have ha := parseArray_ok w0 items w1 h rest
    have hs : ∃ r, (CVal.list w0 items w1).str ++ rest = '[' :: r := by
      cases items with
      | none => exact ⟨_, rfl⟩
      | some x => exact ⟨_, rfl⟩
    obtain ⟨r, hr'⟩ := hs
    rw [hr'] at ha ⊢
    simp only [parseValue, alt, parseQuoted_error_bracket, parseUnquoted_error_bracket, R.map_error, ha]

/-! ## properties -/


def CProp.WF (p : CProp) : Prop := IsIdent p.key ∧ p.val.WF

/-- **property** `key = value` with any whitespace around `=` -/
theorem parseProperty_ok (p : CProp) (h : p.WF) (rest : Str) (hr : NW rest) :
    parseProperty (p.str ++ rest) = .ok rest p.kv := by
  obtain ⟨hk, hv⟩ := h
  obtain ⟨c, t, hc, hcw⟩ := p.val.head hv
  have h1 : parseIdent (p.key ++ (p.wa.str ++ '=' :: (p.wb.str ++ (p.val.str ++ rest)))) = .ok _ p.key :=
    parseIdent_ok hk (NW.identRest (NW.ws p.wa (NoHead.cons (by rfl) _)))
  simp only [parseProperty, CProp.str, List.append_assoc, List.cons_append, h1, R.bind_ok, eqSep, cut, ws0_eq, dropWs_ws]
  rw [dropWs_cons_of_not (by rfl : isWs '=' = false)]
  simp only [pchar, if_true, R.bind_ok, dropWs_ws]
  rw [dropWs_of_headNotWs hc hcw, parseValue_ok p.val hv rest hr]
  rfl

/-- an input that does not start with a letter is not a property (`Error`: the property list ends) -/
theorem parseProperty_error {i : Str} (h : NoHead isAlpha i) : parseProperty i = .error := by
  simp [parseProperty, parseIdent_error h]

/-- **missing `=`**: an identifier in parameter position that is not followed by `=` is a hard failure -/
theorem parseProperty_missing_eq {k : Str} (hk : IsIdent k) {r : Str} (hr : NoHead isIdentRest r)
    (hne : ∀ t, dropWs r ≠ '=' :: t) : parseProperty (k ++ r) = .failure := by
  have : pchar '=' (dropWs r) = .error := by
    cases hd : dropWs r with
    | nil => rfl
    | cons c t =>
      have : c ≠ '=' := by intro e; exact hne t (by rw [hd, e])
      simp [pchar, this]
  simp [parseProperty, parseIdent_ok hk hr, eqSep, cut, this]

end VtModel.Vpl
