import VtProofs.PMTilesRead
/-!
PMTiles reader: the coverage walk (`calc_bbox_pyramid` / `parse_directories`) produces level boxes
that contain every tile addressed by a well-formed directory tree.
-/
namespace VtProofs.PMTilesCover
open VtModel VtModel.Fmt VtModel.PMTiles VtProofs.PMTilesRead

/-- `(x, y, z)` lies in the level box of `c` -/
def Has (c : Cover) (x y z : Nat) : Prop :=
  ∃ b : BBox, c[z]? = some (some b) ∧ b.level = z ∧ b.xmin ≤ x ∧ x ≤ b.xmax ∧ b.ymin ≤ y ∧ y ≤ b.ymax

theorem length_add (c : Cover) (x y z : Nat) : (c.add x y z).length = c.length := by
  unfold Cover.add
  cases h : c[z]? with
  | none => rfl
  | some o => cases o <;> simp

theorem add_has (c : Cover) (x y z : Nat) (hz : z < c.length) : Has (c.add x y z) x y z := by
  unfold Cover.add Has
  have hget : c[z]? = some (c[z]'hz) := by simp [hz]
  rw [hget]
  cases hb : c[z]'hz with
  | none =>
    simp only
    exact ⟨⟨z, x, y, x, y⟩, by simp [hz], rfl, Nat.le_refl _, Nat.le_refl _, Nat.le_refl _, Nat.le_refl _⟩
  | some b =>
    simp only
    exact ⟨⟨z, min b.xmin x, min b.ymin y, max b.xmax x, max b.ymax y⟩, by simp [hz], rfl, by simp only; omega,
      by simp only; omega, by simp only; omega, by simp only; omega⟩

theorem add_mono (c : Cover) (x y z : Nat) {x' y' z' : Nat} (h : Has c x' y' z') : Has (c.add x y z) x' y' z' := by
  obtain ⟨b, hb, hl, h1, h2, h3, h4⟩ := h
  unfold Cover.add
  cases hz : c[z]? with
  | none => exact ⟨b, hb, hl, h1, h2, h3, h4⟩
  | some o =>
    by_cases he : z = z'
    · subst he
      rw [hb] at hz
      injection hz with hz
      subst hz
      simp only
      have hlt : z < c.length := by
        rcases Nat.lt_or_ge z c.length with h | h
        · exact h
        · have : c[z]? = none := by simp [h]
          rw [this] at hb; cases hb
      exact ⟨⟨z, min b.xmin x, min b.ymin y, max b.xmax x, max b.ymax y⟩, by simp [hlt], rfl, by simp only; omega,
        by simp only; omega, by simp only; omega, by simp only; omega⟩
    · cases o with
      | none =>
        simp only
        exact ⟨b, by rw [List.getElem?_set_ne he]; exact hb, hl, h1, h2, h3, h4⟩
      | some b0 =>
        simp only
        exact ⟨b, by rw [List.getElem?_set_ne he]; exact hb, hl, h1, h2, h3, h4⟩

/-- zoom of a decodable id is below 32 -/
theorem zoom_lt {id x y z : Nat} (h : Hilbert.tileIdToCoordLoop id = .ok (x, y, z)) : z < 32 := by
  have hid : id < Hilbert.base 32 := by
    rcases Nat.lt_or_ge id (Hilbert.base 32) with h' | h'
    · exact h'
    · rw [VtProofs.Hilbert.tileIdToCoordLoop_err h'] at h; cases h
  rw [VtProofs.Hilbert.tileIdToCoordLoop_eq hid] at h
  injection h with h
  have hz : z = Hilbert.zoomOf id := by
    have := congrArg (fun p => p.2.2) h
    simpa using this.symm
  have hs := VtProofs.Hilbert.zoomOf_spec id
  rcases Nat.lt_or_ge z 32 with h32 | h32
  · exact h32
  · have := VtProofs.Hilbert.base_mono (a := 32) (b := Hilbert.zoomOf id) (by omega)
    omega

/-- the run loop only grows the boxes and includes every tile of the run -/
theorem coverRun_spec (c : Cover) (hc : c.length = 32) (id : Nat) : ∀ (n : Nat) (c' : Cover), coverRun c id n = .ok c' →
    c'.length = 32 ∧ (∀ x y z, Has c x y z → Has c' x y z) ∧
    (∀ k, k < n → ∀ x y z, Hilbert.tileIdToCoordLoop (k + id) = .ok (x, y, z) → Has c' x y z) := by
  intro n
  induction n with
  | zero =>
    intro c' h
    simp only [coverRun] at h
    injection h with h; subst h
    exact ⟨hc, fun _ _ _ h => h, fun k hk => by omega⟩
  | succ n ih =>
    intro c' h
    unfold coverRun at h
    cases hr : coverRun c id n with
    | ok c1 =>
      rw [hr] at h
      simp only at h
      obtain ⟨l1, m1, i1⟩ := ih c1 hr
      split at h
      · cases h
      · cases ht : Hilbert.tileIdToCoordLoop (n + id) with
        | ok p =>
          obtain ⟨x, y, z⟩ := p
          rw [ht] at h
          simp only at h
          injection h with h; subst h
          refine ⟨by rw [length_add]; exact l1, fun a b d hh => add_mono c1 x y z (m1 a b d hh), ?_⟩
          intro k hk a b d hkd
          by_cases hkn : k = n
          · subst hkn
            rw [ht] at hkd
            injection hkd with hkd
            injection hkd with e1 e2
            injection e2 with e2 e3
            subst e1 e2 e3
            exact add_has c1 x y z (by rw [l1]; exact zoom_lt ht)
          · exact add_mono c1 x y z (i1 k (by omega) a b d hkd)
        | err => rw [ht] at h; cases h
        | panic => rw [ht] at h; cases h
    | err => rw [hr] at h; cases h
    | panic => rw [hr] at h; cases h

def Mono (c1 c2 : Cover) : Prop := ∀ x y z, Has c1 x y z → Has c2 x y z

/-- every tile of the run of `e` is in the cover -/
def RunIncl (e : Entry) (c : Cover) : Prop :=
  ∀ k, k < e.run → ∀ x y z, Hilbert.tileIdToCoordLoop (k + e.id) = .ok (x, y, z) → Has c x y z

theorem coverEntries_cons (K : Inflate) (ic : TComp) (leaves : Bytes) (fuel : Nat) (c : Cover) (e : Entry) (es : List Entry) :
    coverEntries K ic leaves fuel c (e :: es) =
      match (if e.len > 0 then
          if e.run > 0 then coverRun c e.id e.run
          else
            match readRange leaves ⟨e.off, e.len⟩ with
            | .ok blob =>
              match K.run ic blob with
              | .ok raw => coverDir K ic leaves fuel c raw
              | .err => .err
              | .panic => .panic
            | .err => .err
            | .panic => .panic
        else .ok c) with
      | .ok c' => coverEntries K ic leaves fuel c' es
      | .err => .err
      | .panic => .panic := by
  rw [coverEntries]
  rfl

/-- the entry loop, given what a leaf step achieves -/
theorem entries_spec (C : Ctx) (f : Nat) (LeafIncl : Entry → Cover → Prop)
    (hmonoL : ∀ e c1 c2, Mono c1 c2 → LeafIncl e c1 → LeafIncl e c2) :
    ∀ (l : List Entry),
      (∀ e ∈ l, ∀ c1 c2 blob raw, c1.length = 32 → e.len > 0 → ¬ e.run > 0 →
        readRange C.leaves ⟨e.off, e.len⟩ = .ok blob → C.K.run C.ic blob = .ok raw →
        coverDir C.K C.ic C.leaves f c1 raw = .ok c2 → c2.length = 32 ∧ Mono c1 c2 ∧ LeafIncl e c2) →
      ∀ (c1 c2 : Cover), c1.length = 32 → coverEntries C.K C.ic C.leaves f c1 l = .ok c2 →
        c2.length = 32 ∧ Mono c1 c2 ∧
        ∀ e ∈ l, (e.len > 0 → e.run > 0 → RunIncl e c2) ∧ (e.len > 0 → ¬ e.run > 0 → LeafIncl e c2) := by
  intro l
  induction l with
  | nil =>
    intro _ c1 c2 hl h
    simp only [coverEntries] at h
    injection h with h; subst h
    exact ⟨hl, fun _ _ _ h => h, by simp⟩
  | cons e es ih =>
    intro hleaf c1 c2 hl h
    rw [coverEntries_cons] at h
    have ihr := ih (fun x hx => hleaf x (by simp [hx]))
    -- the step for `e`
    by_cases hlen : e.len > 0
    · simp only [hlen, if_true] at h
      by_cases hrun : e.run > 0
      · simp only [hrun, if_true] at h
        cases hr : coverRun c1 e.id e.run with
        | ok cm =>
          rw [hr] at h
          simp only at h
          obtain ⟨lm, mm, im⟩ := coverRun_spec c1 hl e.id e.run cm hr
          obtain ⟨l2, m2, i2⟩ := ihr cm c2 lm h
          refine ⟨l2, fun x y z hh => m2 x y z (mm x y z hh), ?_⟩
          intro x hx
          cases hx with
          | head =>
            exact ⟨fun _ _ k hk a b d hkd => m2 a b d (im k hk a b d hkd), fun _ hn => absurd hrun hn⟩
          | tail _ hx => exact i2 x hx
        | err => rw [hr] at h; cases h
        | panic => rw [hr] at h; cases h
      · simp only [hrun, if_false] at h
        cases hb : readRange C.leaves ⟨e.off, e.len⟩ with
        | ok blob =>
          rw [hb] at h
          simp only at h
          cases hk : C.K.run C.ic blob with
          | ok raw =>
            rw [hk] at h
            simp only at h
            cases hd : coverDir C.K C.ic C.leaves f c1 raw with
            | ok cm =>
              rw [hd] at h
              simp only at h
              obtain ⟨lm, mm, im⟩ := hleaf e (by simp) c1 cm blob raw hl hlen hrun hb hk hd
              obtain ⟨l2, m2, i2⟩ := ihr cm c2 lm h
              refine ⟨l2, fun x y z hh => m2 x y z (mm x y z hh), ?_⟩
              intro x hx
              cases hx with
              | head => exact ⟨fun _ hp => absurd hp hrun, fun _ _ => hmonoL e cm c2 m2 im⟩
              | tail _ hx => exact i2 x hx
            | err => rw [hd] at h; cases h
            | panic => rw [hd] at h; cases h
          | err => rw [hk] at h; cases h
          | panic => rw [hk] at h; cases h
        | err => rw [hb] at h; cases h
        | panic => rw [hb] at h; cases h
    · simp only [hlen, if_false] at h
      obtain ⟨l2, m2, i2⟩ := ihr c1 c2 hl h
      refine ⟨l2, m2, ?_⟩
      intro x hx
      cases hx with
      | head => exact ⟨fun hp => absurd hp hlen, fun hp => absurd hp hlen⟩
      | tail _ hx => exact i2 x hx

/-- every non-empty tile addressed by the tree is in the cover -/
def TreeIncl (C : Ctx) (d : Nat) (raw : Bytes) (c : Cover) : Prop :=
  ∀ i t, Addr C d raw i t → t.len > 0 → ∀ x y z, Hilbert.tileIdToCoordLoop i = .ok (x, y, z) → Has c x y z

theorem direct_incl {es : List Entry} {c : Cover}
    (h : ∀ e ∈ es, (e.len > 0 → e.run > 0 → RunIncl e c)) {t : Entry} (ht : t ∈ es) (hr : t.run > 0) (hl : t.len > 0)
    {i : Nat} (h1 : t.id ≤ i) (h2 : i < t.id + t.run) {x y z : Nat} (hc : Hilbert.tileIdToCoordLoop i = .ok (x, y, z)) :
    Has c x y z := by
  have := h t ht hl hr (i - t.id) (by omega) x y z
  have e : i - t.id + t.id = i := by omega
  rw [e] at this
  exact this hc

/-- **the coverage walk**: on a well-formed tree it only grows the boxes and includes every addressed tile -/
theorem coverDir_spec (C : Ctx) : ∀ (d fuel lo hi : Nat) (raw : Bytes) (c c' : Cover),
    WFDir C d lo hi raw → c.length = 32 → coverDir C.K C.ic C.leaves fuel c raw = .ok c' →
    c'.length = 32 ∧ Mono c c' ∧ TreeIncl C d raw c' := by
  intro d
  induction d with
  | zero =>
    intro fuel lo hi raw c c' hwf hl h
    obtain ⟨es, hdec, hs, hall⟩ := hwf
    cases fuel with
    | zero => simp [coverDir] at h
    | succ f =>
      unfold coverDir at h
      simp only [hdec] at h
      obtain ⟨l2, m2, i2⟩ := entries_spec C f (fun _ _ => True) (fun _ _ _ _ _ => trivial) es
        (by
          intro e he c1 c2 blob raw' _ hlen hrun _ _ _
          obtain ⟨k, hk, rfl⟩ := List.getElem_of_mem he
          have := (hall k hk).2.2.2 (by omega)
          omega) c c' hl h
      refine ⟨l2, m2, ?_⟩
      intro i t ha hlen x y z hc
      obtain ⟨es', hdec', hmem, hr, h1, h2⟩ := ha
      rw [hdec] at hdec'; injection hdec' with e; subst e
      exact direct_incl (fun e he => (i2 e he).1) hmem hr hlen h1 h2 hc
  | succ d ih =>
    intro fuel lo hi raw c c' hwf hl h
    obtain ⟨es, hdec, hs, hall⟩ := hwf
    cases fuel with
    | zero => simp [coverDir] at h
    | succ f =>
      unfold coverDir at h
      simp only [hdec] at h
      obtain ⟨l2, m2, i2⟩ := entries_spec C f
        (fun e c2 => ∀ raw', LeafOf C e raw' → TreeIncl C d raw' c2)
        (by
          intro e c1 c2 hm hle raw' hlf i t ha hlen x y z hc
          exact hm x y z (hle raw' hlf i t ha hlen x y z hc)) es
        (by
          intro e he c1 c2 blob raw' hl1 hlen hrun hb hk hd
          obtain ⟨k, hk', rfl⟩ := List.getElem_of_mem he
          obtain ⟨raw'', hleaf, hwf'⟩ := (hall k hk').2.2.2 (by omega) hlen
          have hlf : LeafOf C (es[k]'hk') raw' := ⟨blob, hb, hk⟩
          have := LeafOf.unique hlf hleaf
          subst this
          obtain ⟨a1, a2, a3⟩ := ih f _ _ raw' c1 c2 hwf' hl1 hd
          refine ⟨a1, a2, ?_⟩
          intro raw3 hl3
          have := LeafOf.unique hl3 hlf
          subst this
          exact a3) c c' hl h
      refine ⟨l2, m2, ?_⟩
      intro i t ha hlen x y z hc
      obtain ⟨es', hdec', hor⟩ := ha
      rw [hdec] at hdec'; injection hdec' with e; subst e
      rcases hor with ⟨hmem, hr, h1, h2⟩ | ⟨e, hmem, hrun, helen, raw', hleaf, haddr⟩
      · exact direct_incl (fun e he => (i2 e he).1) hmem hr hlen h1 h2 hc
      · exact (i2 e hmem).2 helen (by omega) raw' hleaf i t haddr hlen x y z hc

theorem empty_length : Cover.empty.length = 32 := by simp [Cover.empty]

/-- **coverage ⊇ tiles (PMTiles)**: every tile of a valid file lies inside the advertised box of its level -/
theorem cover_contains {K file fmt comp m} (v : ValidPMTiles K file fmt comp m) :
    ∃ r, openReader K file = .ok r ∧
      ∀ x y z blob, z ≤ 31 → x < 2 ^ z → y < 2 ^ z → m (x, y, z) = some blob →
        ∃ box ∈ r.cover, box.level = z ∧ box.contains2 x y = true := by
  obtain ⟨h, ic, root, leaves, d, ⟨hb, hh1, hh2⟩, hic, ⟨mb, mraw, hm1, hm2⟩, ⟨rc, hr1, hr2⟩, hlv, htc, hfmt, hd, hwf, hmap⟩ := v.ex
  let C : Ctx := ⟨K, ic, leaves, file, h.data.off⟩
  obtain ⟨cov, hcov⟩ := coverDir_ok C d 3 0 (Hilbert.base 32) root hwf (Nat.le_refl _) (by omega) Cover.empty
  have hopen : openReader K file = .ok ⟨file, h, ic, root, leaves, K, cov.filterMap id⟩ := by
    unfold openReader
    simp only [hh1, ok_bind, hh2, hic, hm1, hm2, hr1, hr2, hlv, htc, pure_eq]
    have : coverDir K ic leaves 3 Cover.empty root = .ok cov := hcov
    simp only [this, ok_bind]
  obtain ⟨_, _, hincl⟩ := coverDir_spec C d 3 0 (Hilbert.base 32) root Cover.empty cov hwf empty_length hcov
  refine ⟨_, hopen, ?_⟩
  intro x y z blob hz hx hy hmx
  obtain ⟨t, ht, hl, _⟩ := (hmap x y z blob hz hx hy).1 hmx
  have hrt := VtProofs.Hilbert.loop_roundtrip (x := x) (y := y) (z := z) (by omega) hx hy
  rw [VtProofs.Hilbert.coordToTileIdLoop_eq (by omega) hx hy] at hrt
  have hdec : Hilbert.tileIdToCoordLoop (Hilbert.coordToTileId x y z) = .ok (x, y, z) := hrt
  obtain ⟨b, hb1, hb2, b1, b2, b3, b4⟩ := hincl _ t ht hl x y z hdec
  refine ⟨b, ?_, hb2, ?_⟩
  · show b ∈ cov.filterMap id
    rw [List.mem_filterMap]
    exact ⟨some b, List.mem_of_getElem? hb1, rfl⟩
  · simp only [BBox.contains2, Bool.and_eq_true, decide_eq_true_eq]
    omega

end VtProofs.PMTilesCover
