import VtModel.Mvt
/-! Property tables (`VTLPMap`, `decode_tag_ids`, `encode_tag_ids`) and property maps (`BTreeMap`):
re-indexing a property set into another table and reading it back is the identity. -/
namespace VtProofs.MvtTables
open VtModel VtModel.Prim VtModel.Mvt

/-! ### order on byte strings -/

theorem bytesLt_irrefl (a : Bytes) : bytesLt a a = false := by
  induction a with
  | nil => rfl
  | cons x xs ih => simp [bytesLt, ih]

theorem bytesLt_trans : ∀ (a b c : Bytes), bytesLt a b = true → bytesLt b c = true → bytesLt a c = true := by
  intro a
  induction a with
  | nil =>
    intro b c h1 h2
    cases b with
    | nil => simp [bytesLt] at h1
    | cons y ys => cases c with
      | nil => simp [bytesLt] at h2
      | cons z zs => simp [bytesLt]
  | cons x xs ih =>
    intro b c h1 h2
    cases b with
    | nil => simp [bytesLt] at h1
    | cons y ys => cases c with
      | nil => simp [bytesLt] at h2
      | cons z zs =>
        simp only [bytesLt, Bool.or_eq_true, decide_eq_true_eq, Bool.and_eq_true, beq_iff_eq] at h1 h2 ⊢
        rcases h1 with h1 | ⟨e1, h1⟩ <;> rcases h2 with h2 | ⟨e2, h2⟩
        · left; omega
        · left; omega
        · left; omega
        · right; exact ⟨by omega, ih ys zs h1 h2⟩

theorem bytesLt_total : ∀ (a b : Bytes), a ≠ b → bytesLt a b = false → bytesLt b a = true := by
  intro a
  induction a with
  | nil =>
    intro b hne h
    cases b with
    | nil => exact absurd rfl hne
    | cons y ys => simp [bytesLt] at h
  | cons x xs ih =>
    intro b hne h
    cases b with
    | nil => simp [bytesLt]
    | cons y ys =>
      simp only [bytesLt, Bool.or_eq_false_iff, decide_eq_false_iff_not, Bool.and_eq_false_iff,
        beq_eq_false_iff_ne, ne_eq] at h
      simp only [bytesLt, Bool.or_eq_true, decide_eq_true_eq, Bool.and_eq_true, beq_iff_eq]
      obtain ⟨h1, h2⟩ := h
      by_cases hxy : x.toNat = y.toNat
      · right
        refine ⟨hxy.symm, ?_⟩
        have hx : x = y := UInt8.toNat_inj.mp hxy
        subst hx
        apply ih ys
        · intro e; exact hne (by rw [e])
        · rcases h2 with h2 | h2
          · exact absurd rfl h2
          · exact h2
      · left; omega

theorem bytesLt_asymm (a b : Bytes) (h : bytesLt a b = true) : bytesLt b a = false := by
  cases hb : bytesLt b a with
  | false => rfl
  | true =>
    have := bytesLt_trans a b a h hb
    rw [bytesLt_irrefl] at this
    exact absurd this (by simp)

theorem bytesLt_ne (a b : Bytes) (h : bytesLt a b = true) : a ≠ b := by
  intro e; subst e; rw [bytesLt_irrefl] at h; exact absurd h (by simp)

/-! ### sorted property maps -/

/-- the representation invariant of a `BTreeMap`: keys strictly increasing -/
def Sorted (p : Props) : Prop := p.Pairwise (fun a b => bytesLt a.1 b.1 = true)

theorem mem_pinsert (k : Bytes) (v : Value) (kv : Bytes × Value) :
    ∀ (t : Props), kv ∈ pinsert k v t → kv = (k, v) ∨ kv ∈ t := by
  intro t
  induction t with
  | nil => intro h; simp [pinsert] at h; exact Or.inl h
  | cons hd tl ih =>
    obtain ⟨k', v'⟩ := hd
    intro h
    simp only [pinsert] at h
    split at h
    · simp at h; rcases h with h | h
      · exact Or.inl h
      · exact Or.inr (by simp [h])
    · split at h
      · simp at h; rcases h with h | h | h
        · exact Or.inl h
        · exact Or.inr (by simp [h])
        · exact Or.inr (by simp [h])
      · simp at h; rcases h with h | h
        · exact Or.inr (by simp [h])
        · rcases ih h with h | h
          · exact Or.inl h
          · exact Or.inr (by simp [h])

theorem pinsert_sorted (k : Bytes) (v : Value) : ∀ (t : Props), Sorted t → Sorted (pinsert k v t) := by
  intro t
  induction t with
  | nil => intro _; simp [pinsert, Sorted]
  | cons hd tl ih =>
    obtain ⟨k', v'⟩ := hd
    intro hs
    unfold Sorted at hs
    rw [List.pairwise_cons] at hs
    obtain ⟨hhd, htl⟩ := hs
    simp only [pinsert]
    split
    · rename_i e
      subst e
      unfold Sorted
      rw [List.pairwise_cons]
      exact ⟨hhd, htl⟩
    · split
      · rename_i hlt
        unfold Sorted
        rw [List.pairwise_cons, List.pairwise_cons]
        refine ⟨?_, hhd, htl⟩
        intro a ha
        simp at ha
        rcases ha with ha | ha
        · subst ha; exact hlt
        · exact bytesLt_trans _ _ _ hlt (hhd a ha)
      · rename_i hne hnlt
        unfold Sorted
        rw [List.pairwise_cons]
        refine ⟨?_, ih htl⟩
        intro a ha
        rcases mem_pinsert k v a tl ha with h | h
        · subst h
          exact bytesLt_total k k' hne (by simpa using hnlt)
        · exact hhd a h

/-- inserting a key above all present keys appends -/
theorem pinsert_max (k : Bytes) (v : Value) : ∀ (acc : Props),
    (∀ kv ∈ acc, bytesLt kv.1 k = true) → pinsert k v acc = acc ++ [(k, v)] := by
  intro acc
  induction acc with
  | nil => intro _; rfl
  | cons hd tl ih =>
    obtain ⟨k', v'⟩ := hd
    intro h
    have h1 : bytesLt k' k = true := h (k', v') (by simp)
    have hne : k ≠ k' := fun e => bytesLt_ne _ _ h1 e.symm
    have hnlt : bytesLt k k' = false := bytesLt_asymm _ _ h1
    simp only [pinsert, hne, if_false, hnlt, List.cons_append]
    rw [ih (fun kv hkv => h kv (by simp [hkv]))]
    simp

theorem pupdate_sorted_append : ∀ (p acc : Props), Sorted (acc ++ p) → pupdate acc p = acc ++ p := by
  intro p
  induction p with
  | nil => intro acc _; simp [pupdate]
  | cons hd tl ih =>
    obtain ⟨k, v⟩ := hd
    intro acc hs
    unfold pupdate
    simp only [List.foldl_cons]
    have hmax : ∀ kv ∈ acc, bytesLt kv.1 k = true := by
      intro kv hkv
      unfold Sorted at hs
      rw [List.pairwise_append] at hs
      exact hs.2.2 kv hkv (k, v) (by simp)
    rw [pinsert_max k v acc hmax]
    have := ih (acc ++ [(k, v)]) (by simpa using hs)
    unfold pupdate at this
    rw [this]
    simp

/-- re-inserting the pairs of a sorted map into an empty map gives the same map -/
theorem pfromList_sorted (p : Props) (h : Sorted p) : pupdate [] p = p := by
  have := pupdate_sorted_append p [] (by simpa using h)
  simpa using this

theorem pupdate_sorted : ∀ (np p : Props), Sorted p → Sorted (pupdate p np) := by
  intro np
  induction np with
  | nil => intro p h; simpa [pupdate] using h
  | cons hd tl ih =>
    intro p h
    unfold pupdate
    simp only [List.foldl_cons]
    have := ih (pinsert hd.1 hd.2 p) (pinsert_sorted _ _ _ h)
    unfold pupdate at this
    exact this

/-! ### tables -/

theorem firstIdx_get {α} [DecidableEq α] (x : α) : ∀ (l : List α) (i : Nat), firstIdx x l = some i → l[i]? = some x := by
  intro l
  induction l with
  | nil => intro i h; simp [firstIdx] at h
  | cons y ys ih =>
    intro i h
    simp only [firstIdx] at h
    split at h
    · rename_i e; subst e; simp at h; subst h; simp
    · cases hf : firstIdx x ys with
      | none => simp [hf] at h
      | some j =>
        simp [hf] at h
        subst h
        simpa using ih j hf

/-- `VTLPMap::add` keeps the old entries in place and returns an index of the entry -/
theorem tblAdd_spec {α} [DecidableEq α] (l : List α) (x : α) :
    (∃ ext, (tblAdd l x).1 = l ++ ext) ∧ (tblAdd l x).1[(tblAdd l x).2]? = some x := by
  unfold tblAdd
  cases h : firstIdx x l with
  | some i => exact ⟨⟨[], by simp⟩, firstIdx_get x l i h⟩
  | none => exact ⟨⟨[x], rfl⟩, by simp⟩

theorem encodeTags_prefix : ∀ (p : Props) (keys : List Bytes) (vals : List Value),
    ∃ ek ev, (encodeTags keys vals p).1 = keys ++ ek ∧ (encodeTags keys vals p).2.1 = vals ++ ev := by
  intro p
  induction p with
  | nil => intro keys vals; exact ⟨[], [], by simp [encodeTags], by simp [encodeTags]⟩
  | cons hd tl ih =>
    obtain ⟨k, v⟩ := hd
    intro keys vals
    simp only [encodeTags]
    obtain ⟨⟨e1, h1⟩, _⟩ := tblAdd_spec keys k
    obtain ⟨⟨e2, h2⟩, _⟩ := tblAdd_spec vals v
    obtain ⟨ek, ev, h3, h4⟩ := ih (tblAdd keys k).1 (tblAdd vals v).1
    refine ⟨e1 ++ ek, e2 ++ ev, ?_, ?_⟩
    · rw [h3, h1]; simp
    · rw [h4, h2]; simp

theorem getElem?_append_some {α} (l ext : List α) (i : Nat) (x : α) (h : l[i]? = some x) :
    (l ++ ext)[i]? = some x := by
  have hi : i < l.length := by
    cases Nat.lt_or_ge i l.length with
    | inl h' => exact h'
    | inr h' => rw [List.getElem?_eq_none h'] at h; simp at h
  rw [List.getElem?_append_left hi]; exact h

/-- a tag list stays decodable, with the same result, when the tables grow at the end -/
theorem decodePairs_extend (keys ek : List Bytes) (vals ev : List Value) :
    ∀ (tags : List Nat) (acc : Props) (p : Props), decodePairs keys vals tags acc = .ok p →
      decodePairs (keys ++ ek) (vals ++ ev) tags acc = .ok p := by
  intro tags acc
  induction tags, acc using decodePairs.induct keys vals with
  | case1 acc => intro p h; simpa [decodePairs] using h
  | case2 _ acc => intro p h; simp [decodePairs] at h
  | case3 k v t acc kk vv hv hk ih =>
    intro p h
    simp only [decodePairs, hk, hv] at h
    simp only [decodePairs, getElem?_append_some keys ek k kk hk, getElem?_append_some vals ev v vv hv]
    exact ih p h
  | case4 k v t acc hno =>
    intro p h
    simp only [decodePairs] at h
    first
      | exact absurd h (by simp)
      | (split at h
         · rename_i kk vv hk hv
           exact absurd ⟨hk, hv⟩ (by intro ⟨a, b⟩; exact hno kk vv a b)
         · simp at h)

/-- `decode_tag_ids ∘ encode_tag_ids`: reading the freshly written tags in the grown tables inserts
    exactly the pairs of the property set -/
theorem decode_encodeTags : ∀ (p : Props) (keys : List Bytes) (vals : List Value) (acc : Props),
    decodePairs (encodeTags keys vals p).1 (encodeTags keys vals p).2.1 (encodeTags keys vals p).2.2 acc
      = .ok (pupdate acc p) := by
  intro p
  induction p with
  | nil => intro keys vals acc; simp [encodeTags, decodePairs, pupdate]
  | cons hd tl ih =>
    obtain ⟨k, v⟩ := hd
    intro keys vals acc
    simp only [encodeTags]
    obtain ⟨_, hgk⟩ := tblAdd_spec keys k
    obtain ⟨_, hgv⟩ := tblAdd_spec vals v
    obtain ⟨ek, ev, h3, h4⟩ := encodeTags_prefix tl (tblAdd keys k).1 (tblAdd vals v).1
    have hk := getElem?_append_some _ ek _ _ hgk
    have hv := getElem?_append_some _ ev _ _ hgv
    rw [← h3] at hk
    rw [← h4] at hv
    simp only [decodePairs, hk, hv]
    have := ih (tblAdd keys k).1 (tblAdd vals v).1 (pinsert k v acc)
    rw [this]
    simp [pupdate]

theorem decodePairs_sorted (keys : List Bytes) (vals : List Value) :
    ∀ (tags : List Nat) (acc : Props) (p : Props), Sorted acc → decodePairs keys vals tags acc = .ok p → Sorted p := by
  intro tags acc
  induction tags, acc using decodePairs.induct keys vals with
  | case1 acc => intro p hs h; simp [decodePairs] at h; subst h; exact hs
  | case2 _ acc => intro p _ h; simp [decodePairs] at h
  | case3 k v t acc kk vv hv hk ih =>
    intro p hs h
    simp only [decodePairs, hk, hv] at h
    exact ih p (pinsert_sorted _ _ _ hs) h
  | case4 k v t acc hno =>
    intro p _ h
    simp only [decodePairs] at h
    first
      | exact absurd h (by simp)
      | (split at h
         · rename_i kk vv hk hv
           exact absurd ⟨hk, hv⟩ (by intro ⟨a, b⟩; exact hno kk vv a b)
         · simp at h)

theorem decodeTags_sorted (keys : List Bytes) (vals : List Value) (tags : List Nat) (p : Props)
    (h : decodeTags keys vals tags = .ok p) : Sorted p :=
  decodePairs_sorted keys vals tags [] p (by simp [Sorted]) h

/-- the key fact behind C10 and C11: encoding a (sorted) property set into any tables and decoding
    it from the grown tables returns the property set -/
theorem decodeTags_encodeTags (p : Props) (hs : Sorted p) (keys : List Bytes) (vals : List Value) :
    decodeTags (encodeTags keys vals p).1 (encodeTags keys vals p).2.1 (encodeTags keys vals p).2.2 = .ok p := by
  unfold decodeTags
  rw [decode_encodeTags, pfromList_sorted p hs]

end VtProofs.MvtTables
