import VtModel.StreamReaders
import VtProofs.Source
import VtProofs.BBoxIter
import VtProofs.BBoxSet
import VtProofs.BBoxGrid
/-!
The hand-written bounding-box streams of the versatiles and the mbtiles reader deliver exactly
what the single-tile lookups deliver (`StreamOK`), for every well-formed file / table and every
well-formed box.
-/
namespace VtModel
open BBox

/-! ### generic helpers -/

/-- the value of an outcome, or a default -/
def okOr {α : Type} (d : α) : Outcome α → α
  | .ok a => a
  | _ => d

theorem mapM_ok_of_forall {α β : Type} (f : α → Outcome β) (d : β) (l : List α)
    (h : ∀ a ∈ l, ∃ r, f a = .ok r) : BBox.mapM f l = .ok (l.map fun a => okOr d (f a)) := by
  apply mapM_ok
  intro a ha
  obtain ⟨r, hr⟩ := h a ha
  rw [hr]; rfl

theorem mem_enumFrom {α : Type} (l : List α) (n i : Nat) (a : α) :
    (i, a) ∈ enumFrom n l ↔ n ≤ i ∧ l[i - n]? = some a := by
  induction l generalizing n with
  | nil => simp [enumFrom]
  | cons x xs ih =>
    simp only [enumFrom, List.mem_cons, Prod.mk.injEq, ih]
    constructor
    · rintro (⟨rfl, rfl⟩ | ⟨h1, h2⟩)
      · simp
      · refine ⟨by omega, ?_⟩
        have : i - n = (i - (n + 1)) + 1 := by omega
        rw [this, List.getElem?_cons_succ]; exact h2
    · rintro ⟨h1, h2⟩
      by_cases hi : i = n
      · subst hi
        simp only [Nat.sub_self, List.getElem?_cons_zero, Option.some.injEq] at h2
        exact Or.inl ⟨rfl, h2.symm⟩
      · right
        refine ⟨by omega, ?_⟩
        have : i - n = (i - (n + 1)) + 1 := by omega
        rw [this, List.getElem?_cons_succ] at h2; exact h2

theorem enumFrom_pairwise {α : Type} (l : List α) (n : Nat) :
    (enumFrom n l).Pairwise (fun p q => p.1 < q.1) := by
  induction l generalizing n with
  | nil => exact List.Pairwise.nil
  | cons x xs ih =>
    simp only [enumFrom, List.pairwise_cons]
    refine ⟨?_, ih (n + 1)⟩
    intro q hq
    have := (mem_enumFrom xs (n + 1) q.1 q.2).mp hq
    show n < q.1
    omega

/-- in a list with pairwise distinct keys a key determines the element -/
theorem eq_of_key_eq {α κ : Type} (key : α → κ) {l : List α} (h : l.Pairwise (fun a b => key a ≠ key b))
    {a b : α} (ha : a ∈ l) (hb : b ∈ l) (hk : key a = key b) : a = b := by
  induction l with
  | nil => cases ha
  | cons x xs ih =>
    rw [List.pairwise_cons] at h
    rcases List.mem_cons.mp ha with rfl | ha'
    · rcases List.mem_cons.mp hb with rfl | hb'
      · rfl
      · exact absurd hk (h.1 b hb')
    · rcases List.mem_cons.mp hb with rfl | hb'
      · exact absurd hk.symm (h.1 a ha')
      · exact ih h.2 ha' hb'

/-! ### one read per chunk + slicing = one read per tile -/

theorem readRange_length (f : VFile) (off len : Nat) : (f.readRange off len).length = len := by
  simp [VFile.readRange]

/-- **slicing the chunk blob** at `[e.off - chunk.off, e.off - chunk.off + e.len)` is the same as
    reading the tile's own byte range, whenever the tile lies inside the chunk -/
theorem slice_eq_read (f : VFile) (coff clen eoff elen : Nat) (h1 : coff ≤ eoff)
    (h2 : eoff + elen ≤ coff + clen) :
    ((f.readRange coff clen).drop (eoff - coff)).take elen = f.readRange eoff elen := by
  apply List.ext_getElem?
  intro i
  unfold VFile.readRange
  by_cases hi : i < elen
  · rw [List.getElem?_take_of_lt hi, List.getElem?_drop, List.getElem?_map, List.getElem?_map,
      List.getElem?_range (by omega), List.getElem?_range hi]
    simp only [Option.map_some, Option.some.injEq]
    congr 1; omega
  · rw [List.getElem?_eq_none (by simp [List.length_take]; omega),
      List.getElem?_eq_none (by simp; omega)]

/-! ### the chunk merge loop -/

/-- every tile of the chunk lies inside the chunk's byte range -/
def Chunk.Inv (c : Chunk) : Prop :=
  ∀ t ∈ c.tiles, c.off ≤ t.2.off ∧ t.2.off + t.2.len ≤ c.off + c.len

theorem MAX_CHUNK_SIZE_eq : MAX_CHUNK_SIZE = 67108864 := by decide
theorem MAX_CHUNK_GAP_eq : MAX_CHUNK_GAP = 32768 := by decide
theorem U64_eq : U64 = 18446744073709551616 := by decide
theorem U32_eq : U32 = 4294967296 := by decide

/-- `push` does not reach its `panic!()` when the entry starts at or after the chunk -/
theorem push_ok {c : Chunk} {e : Coord × VEntry} (h1 : c.off ≤ e.2.off) (h2 : e.2.off + e.2.len < U64) :
    c.push e = .ok ⟨c.tiles ++ [e], c.off, max c.len (e.2.off + e.2.len - c.off)⟩ := by
  unfold Chunk.push
  rw [if_neg (by omega), if_neg (by omega)]

theorem push_inv {c : Chunk} {e : Coord × VEntry} (hc : c.Inv) (h1 : c.off ≤ e.2.off) :
    Chunk.Inv ⟨c.tiles ++ [e], c.off, max c.len (e.2.off + e.2.len - c.off)⟩ := by
  intro t ht
  simp only [List.mem_append, List.mem_singleton] at ht
  rcases ht with ht | rfl
  · have := hc t ht
    simp only; omega
  · simp only; omega

theorem mergeLoop_spec (es : List (Coord × VEntry)) : ∀ (chunk : Chunk),
    es.Pairwise (fun a b => a.2.off ≤ b.2.off) →
    (∀ e ∈ es, chunk.off ≤ e.2.off) →
    (∀ e ∈ es, e.2.off + e.2.len + MAX_CHUNK_SIZE < U64) →
    chunk.off + chunk.len + MAX_CHUNK_SIZE < U64 →
    chunk.Inv →
    ∃ cs, mergeLoop chunk es = .ok cs ∧ cs.flatMap Chunk.tiles = chunk.tiles ++ es ∧ ∀ c ∈ cs, c.Inv := by
  have hM := MAX_CHUNK_SIZE_eq
  have hG := MAX_CHUNK_GAP_eq
  induction es with
  | nil =>
    intro chunk _ _ _ _ hinv
    unfold mergeLoop
    refine ⟨_, rfl, ?_, ?_⟩
    · split
      · simp
      · rename_i h
        have : chunk.tiles = [] := List.eq_nil_of_length_eq_zero (by omega)
        simp [this]
    · intro c hc
      split at hc
      · simp only [List.mem_singleton] at hc; subst hc; exact hinv
      · cases hc
  | cons e es ih =>
    intro chunk hsorted hlow hbound hcb hinv
    rw [List.pairwise_cons] at hsorted
    have hle : chunk.off ≤ e.2.off := hlow e (by simp)
    have hbe := hbound e (by simp)
    unfold mergeLoop
    rw [if_neg (by omega), if_neg (by omega), if_neg (by omega), if_neg (by omega)]
    split
    · -- the entry is appended to the current chunk
      rw [push_ok hle (by omega)]
      simp only
      obtain ⟨cs, h1, h2, h3⟩ := ih ⟨chunk.tiles ++ [e], chunk.off, max chunk.len (e.2.off + e.2.len - chunk.off)⟩
        hsorted.2 (fun x hx => hlow x (by simp [hx])) (fun x hx => hbound x (by simp [hx]))
        (by simp only; omega) (push_inv hinv hle)
      refine ⟨cs, h1, ?_, h3⟩
      rw [h2]; simp
    · -- the current chunk is finished, a new one starts at the entry
      have hp : (Chunk.new e.2.off).push e = .ok ⟨[e], e.2.off, max 0 (e.2.off + e.2.len - e.2.off)⟩ := by
        have := push_ok (c := Chunk.new e.2.off) (e := e) (Nat.le_refl _) (by omega)
        simpa [Chunk.new] using this
      rw [hp]
      simp only
      have hinv0 : Chunk.Inv (Chunk.new e.2.off) := by intro t ht; cases ht
      obtain ⟨cs, h1, h2, h3⟩ := ih ⟨[e], e.2.off, max 0 (e.2.off + e.2.len - e.2.off)⟩
        hsorted.2 (fun x hx => hsorted.1 x hx) (fun x hx => hbound x (by simp [hx]))
        (by simp only; omega)
        (by have := push_inv (e := e) hinv0 (Nat.le_refl _); simpa [Chunk.new] using this)
      rw [h1]
      refine ⟨chunk :: cs, rfl, ?_, ?_⟩
      · rw [List.flatMap_cons, h2]; simp
      · intro c hc
        rcases List.mem_cons.mp hc with rfl | hc'
        · exact hinv
        · exact h3 c hc'

/-- **the `panic!()` of `Chunk::push` is dead code**: over offset-sorted entries (whose ends fit
    `u64` with `MAX_CHUNK_SIZE` to spare) the merge loop finishes without a panic – in particular
    every pushed entry satisfies `chunk.off ≤ e.off` –, the chunks hold exactly the entries, in
    order, and every tile of a finished chunk lies inside the chunk's byte range. -/
theorem chunk_push_invariant (sorted : List (Coord × VEntry))
    (hs : sorted.Pairwise (fun a b => a.2.off ≤ b.2.off))
    (hb : ∀ e ∈ sorted, e.2.off + e.2.len + MAX_CHUNK_SIZE < U64) :
    ∃ cs, mergeChunks sorted = .ok cs ∧ cs.flatMap Chunk.tiles = sorted ∧
      ∀ c ∈ cs, ∀ t ∈ c.tiles, c.off ≤ t.2.off ∧ t.2.off + t.2.len ≤ c.off + c.len := by
  unfold mergeChunks
  cases sorted with
  | nil => exact ⟨[], rfl, rfl, fun c hc => by cases hc⟩
  | cons e0 es =>
    simp only
    have hM := MAX_CHUNK_SIZE_eq
    have h0 := hb e0 (by simp)
    obtain ⟨cs, h1, h2, h3⟩ := mergeLoop_spec (e0 :: es) (Chunk.new e0.2.off) hs
      (by
        intro e he
        rcases List.mem_cons.mp he with rfl | he'
        · exact Nat.le_refl _
        · exact (List.pairwise_cons.mp hs).1 e he')
      hb (by simp only [Chunk.new]; omega) (by intro t ht; cases ht)
    exact ⟨cs, h1, by simpa [Chunk.new] using h2, h3⟩

/-! ### well-formed versatiles files -/

/-- a block as the writer produces it: level of the box = level of the block (`≤ 31`), the box is
    non-empty, lies inside the block's 256×256 square and inside the level, the tile index has one
    entry per tile of the box, and every non-empty byte range ends below `2^64 - MAX_CHUNK_SIZE`
    (byte ranges lie inside the file; this is what keeps the checked `u64` additions of the merge
    loop from overflowing) -/
def VBlock.WF (k : VBlock) : Prop :=
  k.box.level = k.z ∧ k.z ≤ 31 ∧
  k.box.xmin ≤ k.box.xmax ∧ k.box.ymin ≤ k.box.ymax ∧
  k.bx * 256 ≤ k.box.xmin ∧ k.box.xmax ≤ k.bx * 256 + 255 ∧
  k.by_ * 256 ≤ k.box.ymin ∧ k.box.ymax ≤ k.by_ * 256 + 255 ∧
  k.box.xmax < 2 ^ k.z ∧ k.box.ymax < 2 ^ k.z ∧
  k.index.length = k.box.countTiles ∧
  ∀ e ∈ k.index, e.len > 0 → e.off + e.len + MAX_CHUNK_SIZE < U64

instance (k : VBlock) : Decidable k.WF := by unfold VBlock.WF; infer_instance

/-- block coordinate as a key -/
def VBlock.key (k : VBlock) : Nat × Nat × Nat := (k.bx, k.by_, k.z)

/-- block keys pairwise distinct, every block well-formed -/
def VFile.WF (f : VFile) : Prop :=
  f.blocks.Pairwise (fun a b => a.key ≠ b.key) ∧ ∀ k ∈ f.blocks, k.WF

instance (f : VFile) : Decidable f.WF := by unfold VFile.WF; infer_instance

theorem vGetBlock_some {f : VFile} {bx by_ z : Nat} {k : VBlock} (h : f.getBlock bx by_ z = some k) :
    k ∈ f.blocks ∧ k.bx = bx ∧ k.by_ = by_ ∧ k.z = z := by
  unfold VFile.getBlock at h
  have h1 := List.mem_of_find?_eq_some h
  have h2 := List.find?_some h
  simp only [Bool.and_eq_true, beq_iff_eq] at h2
  exact ⟨h1, h2.1.1, h2.1.2, h2.2⟩

theorem VBlock.WF.count_lt {k : VBlock} (hk : k.WF) : k.box.countTiles ≤ 65536 := by
  obtain ⟨_, _, h3, h4, h5, h6, h7, h8, _⟩ := hk
  unfold countTiles width height
  rw [if_neg (by omega), if_neg (by omega)]
  calc (k.box.xmax - k.box.xmin + 1) * (k.box.ymax - k.box.ymin + 1)
      ≤ 256 * 256 := Nat.mul_le_mul (by omega) (by omega)
    _ = 65536 := rfl

theorem VBlock.WF.u32 {k : VBlock} (hk : k.WF) : k.box.xmax < U32 ∧ k.box.ymax < U32 := by
  obtain ⟨_, h2, _, _, _, _, _, _, h9, h10, _⟩ := hk
  have : 2 ^ k.z ≤ 2 ^ 31 := Nat.pow_le_pow_right (by omega) h2
  have := U32_eq
  omega

/-- a coordinate inside the box of a well-formed block has that block's coordinate -/
theorem VBlock.WF.block_of_mem {k : VBlock} (hk : k.WF) {x y : Nat} (hm : mem k.box x y) :
    x / 256 = k.bx ∧ y / 256 = k.by_ := by
  obtain ⟨_, _, _, _, h5, h6, h7, h8, _⟩ := hk
  unfold mem at hm
  omega

/-- position `i` of the enumeration of a box holds `c`, expressed with both index conversions -/
theorem coord_at_index (b : BBox) (hx : b.xmax < U32) (hy : b.ymax < U32) {i : Nat} {x y : Nat}
    (h : b.iterCoords[i]? = some (x, y)) :
    mem b x y ∧ b.tileIndex x y = .ok i ∧ b.coordByIndex i = .ok (x, y) ∧ i < b.countTiles := by
  have hm : mem b x y := (mem_iterCoords b x y).mp (List.mem_of_getElem? h)
  have hi : i < b.countTiles := by
    rw [countTiles_eq_length]
    obtain ⟨hh, _⟩ := List.getElem?_eq_some_iff.mp h
    exact hh
  refine ⟨hm, ?_, ?_, hi⟩
  · obtain ⟨j, hj1, hj2, hj3⟩ := (tileIndex_spec b x y).1 hm
    have : j = i := by
      apply (List.getElem?_inj (by rw [← countTiles_eq_length]; exact hj3) (iterCoords_nodup b)).mp
      rw [hj2, h]
    rw [hj1, this]
  · obtain ⟨c, hc1, hc2⟩ := (coordByIndex_spec b hx hy i).1 hi
    rw [h] at hc2
    rw [hc1, Option.some.inj hc2]

/-! ### the single-tile lookup -/

theorem tileIndexO_ok {k : VBlock} (hk : k.WF) : k.tileIndexO = .ok k.index := by
  unfold VBlock.tileIndexO
  rw [if_neg (by simp [hk.2.2.2.2.2.2.2.2.2.2.1])]

/-- what a successful lookup means -/
theorem vLookup_some_iff {f : VFile} (hf : f.WF) (c : Coord) (hz : c.2.2 ≤ 31) (p : List Nat) :
    vLookup f c = .ok (some p) ↔
      ∃ (k : VBlock) (i : Nat) (e : VEntry), f.getBlock (c.1 / 256) (c.2.1 / 256) c.2.2 = some k ∧
        k.box.iterCoords[i]? = some (c.1, c.2.1) ∧ k.index[i]? = some e ∧ e.len > 0 ∧
        p = f.readRange e.off e.len := by
  unfold vLookup
  rw [if_neg (by omega)]
  cases hg : f.getBlock (c.1 / 256) (c.2.1 / 256) c.2.2 with
  | none => simp
  | some k =>
    have hk := hf.2 k (vGetBlock_some hg).1
    obtain ⟨hx, hy⟩ := hk.u32
    simp only
    by_cases hm : mem k.box c.1 c.2.1
    · have hc := (contains2_iff k.box c.1 c.2.1).mpr hm
      obtain ⟨i, hi1, hi2, hi3⟩ := (tileIndex_spec k.box c.1 c.2.1).1 hm
      have hlen : i < k.index.length := by rw [hk.2.2.2.2.2.2.2.2.2.2.1]; exact hi3
      have hget : k.index[i]? = some k.index[i] := List.getElem?_eq_getElem hlen
      simp only [hc, Bool.not_true, Bool.false_eq_true, if_false, hi1, Outcome.unwrap, tileIndexO_ok hk, hget]
      constructor
      · intro h
        split at h
        · cases h
        · rename_i hne
          refine ⟨k, i, k.index[i], rfl, hi2, hget, by omega, ?_⟩
          cases h; rfl
      · rintro ⟨k', j, e, hk', hj, he, hl, rfl⟩
        cases hk'
        have hji : j = i := by
          have := (coord_at_index k.box hx hy hj).2.1
          rw [hi1] at this
          cases this; rfl
        subst hji
        rw [hget] at he
        cases he
        rw [if_neg (by omega)]
    · have hc : k.box.contains2 c.1 c.2.1 = false := by
        cases h : k.box.contains2 c.1 c.2.1
        · rfl
        · exact absurd ((contains2_iff _ _ _).mp h) hm
      simp only [hc, Bool.not_false, if_true]
      constructor
      · intro h; cases h
      · rintro ⟨k', j, e, hk', hj, _⟩
        cases hk'
        exact absurd (coord_at_index k.box hx hy hj).1 hm

theorem versatiles_lookup_ok {f : VFile} (cover : Pyramid) (hf : f.WF) : LookupOK (versatilesSrc f cover) := by
  intro c hv
  show ∃ o, vLookup f c = .ok o
  unfold vLookup
  rw [if_neg (by have := hv.1; omega)]
  cases hg : f.getBlock (c.1 / 256) (c.2.1 / 256) c.2.2 with
  | none => exact ⟨none, rfl⟩
  | some k =>
    have hk := hf.2 k (vGetBlock_some hg).1
    simp only
    by_cases hm : mem k.box c.1 c.2.1
    · have hc := (contains2_iff k.box c.1 c.2.1).mpr hm
      obtain ⟨i, hi1, hi2, hi3⟩ := (tileIndex_spec k.box c.1 c.2.1).1 hm
      have hlen : i < k.index.length := by rw [hk.2.2.2.2.2.2.2.2.2.2.1]; exact hi3
      have hget : k.index[i]? = some k.index[i] := List.getElem?_eq_getElem hlen
      simp only [hc, Bool.not_true, Bool.false_eq_true, if_false, hi1, Outcome.unwrap, tileIndexO_ok hk, hget]
      split <;> exact ⟨_, rfl⟩
    · have hc : k.box.contains2 c.1 c.2.1 = false := by
        cases h : k.box.contains2 c.1 c.2.1
        · rfl
        · exact absurd ((contains2_iff _ _ _).mp h) hm
      simp only [hc, Bool.not_false, if_true]
      exact ⟨none, rfl⟩

/-! ### the index scan of one block -/

/-- `scanEntry` without the panic branches -/
def scanPure (box used : BBox) (ie : Nat × VEntry) : Option (Coord × VEntry) :=
  match box.coordByIndex (ie.1 % U32) with
  | .ok xy =>
    if used.contains3 xy.1 xy.2 box.level && decide (ie.2.len > 0)
      then some ((xy.1, xy.2, box.level), ie.2) else none
  | _ => none

theorem enum_lt {k : VBlock} (hk : k.WF) {i : Nat} {e : VEntry} (h : (i, e) ∈ enumFrom 0 k.index) :
    k.index[i]? = some e ∧ i < k.box.countTiles ∧ i % U32 = i := by
  have h1 := (mem_enumFrom k.index 0 i e).mp h
  simp only [Nat.sub_zero] at h1
  obtain ⟨hh, _⟩ := List.getElem?_eq_some_iff.mp h1.2
  have hc := hk.count_lt
  have hl := hk.2.2.2.2.2.2.2.2.2.2.1
  have := U32_eq
  exact ⟨h1.2, by omega, Nat.mod_eq_of_lt (by omega)⟩

theorem scanEntry_eq {k : VBlock} (hk : k.WF) (used : BBox) {ie : Nat × VEntry}
    (h : ie ∈ enumFrom 0 k.index) : scanEntry k.box used ie = .ok (scanPure k.box used ie) := by
  obtain ⟨i, e⟩ := ie
  obtain ⟨_, hi, hmod⟩ := enum_lt hk h
  obtain ⟨hx, hy⟩ := hk.u32
  obtain ⟨c, hc1, _⟩ := (coordByIndex_spec k.box hx hy i).1 hi
  have hl : ¬ k.box.level > 31 := by have := hk.1; have := hk.2.1; omega
  unfold scanEntry scanPure
  simp only [hmod, hc1, hl, if_false]
  split <;> rfl

theorem scanIndex_eq {k : VBlock} (hk : k.WF) (used : BBox) :
    scanIndex k.box used k.index = .ok ((enumFrom 0 k.index).filterMap (scanPure k.box used)) :=
  filterMapO_ok _ _ _ (fun _ h => scanEntry_eq hk used h)

theorem scanPure_some {k : VBlock} (hk : k.WF) (used : BBox) {i : Nat} {e : VEntry}
    (h : (i, e) ∈ enumFrom 0 k.index) (t : Coord × VEntry) :
    scanPure k.box used (i, e) = some t ↔
      k.box.iterCoords[i]? = some (t.1.1, t.1.2.1) ∧ t.1.2.2 = k.box.level ∧ t.2 = e ∧
        used.contains3 t.1.1 t.1.2.1 k.box.level = true ∧ e.len > 0 := by
  obtain ⟨_, hi, hmod⟩ := enum_lt hk h
  obtain ⟨hx, hy⟩ := hk.u32
  obtain ⟨c, hc1, hc2⟩ := (coordByIndex_spec k.box hx hy i).1 hi
  unfold scanPure
  simp only [hmod, hc1, hc2]
  obtain ⟨⟨tx, ty, tz⟩, te⟩ := t
  constructor
  · intro hs
    split at hs
    · rename_i hcond
      simp only [Bool.and_eq_true, decide_eq_true_eq] at hcond
      simp only [Option.some.injEq, Prod.mk.injEq] at hs
      obtain ⟨⟨rfl, rfl, rfl⟩, rfl⟩ := hs
      exact ⟨rfl, rfl, rfl, hcond.1, hcond.2⟩
    · cases hs
  · rintro ⟨h1, h2, h3, h4, h5⟩
    simp only at h1 h2 h3 h4
    simp only [Option.some.injEq] at h1
    subst h1
    subst h2 h3
    rw [if_pos (by simp [h4, h5])]

/-- the tiles the stream takes from the block at coordinate `bc` -/
def TileOf (f : VFile) (b : BBox) (bc : Coord) (t : Coord × VEntry) : Prop :=
  ∃ (k : VBlock) (i : Nat), f.getBlock bc.1 bc.2.1 bc.2.2 = some k ∧
    k.index[i]? = some t.2 ∧ k.box.iterCoords[i]? = some (t.1.1, t.1.2.1) ∧
    t.1.2.2 = b.level ∧ mem b t.1.1 t.1.2.1 ∧ t.2.len > 0

theorem mem_scan {k : VBlock} (hk : k.WF) {b used : BBox} (hu : b.intersectBBox k.box = .ok used)
    (hl : k.box.level = b.level) (t : Coord × VEntry) :
    t ∈ (enumFrom 0 k.index).filterMap (scanPure k.box used) ↔
      ∃ i : Nat, k.index[i]? = some t.2 ∧ k.box.iterCoords[i]? = some (t.1.1, t.1.2.1) ∧
        t.1.2.2 = b.level ∧ mem b t.1.1 t.1.2.1 ∧ t.2.len > 0 := by
  obtain ⟨hx, hy⟩ := hk.u32
  have hul : used.level = b.level := intersect_level hu
  rw [List.mem_filterMap]
  constructor
  · rintro ⟨⟨i, e⟩, hie, hs⟩
    obtain ⟨h1, h2, h3, h4, h5⟩ := (scanPure_some hk used hie t).mp hs
    obtain ⟨hidx, _, _⟩ := enum_lt hk hie
    have hm := ((contains3_iff used _ _ _).mp h4).2
    rw [mem_intersect hu] at hm
    exact ⟨i, by rw [h3]; exact hidx, h1, by rw [h2, hl], hm.1, by rw [h3]; exact h5⟩
  · rintro ⟨i, h1, h2, h3, h4, h5⟩
    have hie : (i, t.2) ∈ enumFrom 0 k.index := (mem_enumFrom _ _ _ _).mpr ⟨Nat.zero_le _, by simpa using h1⟩
    refine ⟨(i, t.2), hie, (scanPure_some hk used hie t).mpr ⟨h2, by rw [h3, hl], rfl, ?_, h5⟩⟩
    rw [contains3_iff]
    exact ⟨by rw [hul, hl], (mem_intersect hu _ _).mpr ⟨h4, (coord_at_index k.box hx hy h2).1⟩⟩

theorem scan_keys_nodup {k : VBlock} (hk : k.WF) (used : BBox) :
    (((enumFrom 0 k.index).filterMap (scanPure k.box used)).map Prod.fst).Nodup := by
  unfold List.Nodup
  rw [List.pairwise_map, List.pairwise_filterMap]
  apply List.Pairwise.imp_of_mem _ (enumFrom_pairwise k.index 0)
  intro p q hp hq hlt t ht t' ht' heq
  obtain ⟨i, e⟩ := p
  obtain ⟨j, e'⟩ := q
  have h1 := ((scanPure_some hk used hp t).mp ht).1
  have h2 := ((scanPure_some hk used hq t').mp ht').1
  rw [heq] at h1
  have hi : i < k.box.iterCoords.length := (List.getElem?_eq_some_iff.mp h1).1
  have := (List.getElem?_inj hi (iterCoords_nodup k.box)).mp (h1.trans h2.symm)
  simp only at hlt
  omega

/-! ### the chunks of one block -/

theorem sortByOffset_perm (l : List (Coord × VEntry)) : (sortByOffset l).Perm l :=
  List.mergeSort_perm _ _

theorem sortByOffset_sorted (l : List (Coord × VEntry)) :
    (sortByOffset l).Pairwise (fun a b => a.2.off ≤ b.2.off) := by
  have := List.pairwise_mergeSort (le := fun (a b : Coord × VEntry) => decide (a.2.off ≤ b.2.off))
    (by intro a b c; simp only [decide_eq_true_eq]; omega)
    (by intro a b; simp only [Bool.or_eq_true, decide_eq_true_eq]; omega) l
  exact this.imp (by intro a b h; simpa using h)

theorem blockChunks_spec {f : VFile} (hf : f.WF) {b : BBox} (bc : Coord) (hz : bc.2.2 = b.level) :
    ∃ cs, blockChunks f b bc = .ok cs ∧ (∀ c ∈ cs, c.Inv) ∧
      (∀ t, t ∈ cs.flatMap Chunk.tiles ↔ TileOf f b bc t) ∧
      ((cs.flatMap Chunk.tiles).map Prod.fst).Nodup := by
  unfold blockChunks
  cases hg : f.getBlock bc.1 bc.2.1 bc.2.2 with
  | none =>
    refine ⟨[], rfl, (fun c hc => by cases hc), ?_, List.nodup_nil⟩
    intro t
    constructor
    · intro h; cases h
    · rintro ⟨k, i, hk, _⟩; rw [hg] at hk; cases hk
  | some k =>
    obtain ⟨hmem, _, _, hkz⟩ := vGetBlock_some hg
    have hk := hf.2 k hmem
    have hl : k.box.level = b.level := by rw [hk.1, hkz, hz]
    obtain ⟨used, hu⟩ := (intersect_ok_iff b k.box).mpr hl.symm
    have hul : used.level = b.level := intersect_level hu
    simp only [hu, Outcome.unwrap, tileIndexO_ok hk, scanIndex_eq hk used]
    rw [if_neg (by simp [hl]), if_neg (by simp [hul])]
    have hperm := sortByOffset_perm ((enumFrom 0 k.index).filterMap (scanPure k.box used))
    obtain ⟨cs, h1, h2, h3⟩ := chunk_push_invariant _ (sortByOffset_sorted _) (by
      intro e he
      obtain ⟨i, hi, _, _, _, hlen⟩ := (mem_scan hk hu hl e).mp (hperm.mem_iff.mp he)
      exact hk.2.2.2.2.2.2.2.2.2.2.2 e.2 (List.mem_of_getElem? hi) hlen)
    refine ⟨cs, h1, h3, ?_, ?_⟩
    · intro t
      rw [h2, hperm.mem_iff, mem_scan hk hu hl]
      constructor
      · rintro ⟨i, hi⟩; exact ⟨k, i, hg, hi⟩
      · rintro ⟨k', i, hk', hi⟩
        rw [hg] at hk'
        cases hk'; exact ⟨i, hi⟩
    · rw [h2]
      exact ((hperm.map Prod.fst).nodup_iff).mpr (scan_keys_nodup hk used)

/-! ### reading the chunks -/

/-- what the stream delivers for an index entry: its coordinate and its own byte range -/
def cutTile (f : VFile) (t : Coord × VEntry) : Coord × List Nat := (t.1, f.readRange t.2.off t.2.len)

theorem readChunk_ok (f : VFile) (b : BBox) (ch : Chunk) (hinv : ch.Inv)
    (hhas : ∀ t ∈ ch.tiles, b.has t.1 = true) (hbound : ∀ t ∈ ch.tiles, t.2.off + t.2.len < U64) :
    readChunk f b ch = .ok (ch.tiles.map (cutTile f)) := by
  unfold readChunk
  apply mapM_ok
  intro t ht
  obtain ⟨h1, h2⟩ := hinv t ht
  have h3 := hbound t ht
  unfold sliceTile
  rw [readRange_length, if_neg (by omega), if_neg (by omega), if_neg (by omega), hhas t ht]
  simp only [Bool.not_true, Bool.false_eq_true, if_false]
  rw [slice_eq_read f _ _ _ _ h1 h2]; rfl

theorem flatten_map_tiles {α β γ δ : Type} (C : α → List β) (tiles : β → List γ) (g : γ → δ) (l : List α) :
    (((l.map C).flatten).map (fun ch => (tiles ch).map g)).flatten
      = (l.flatMap (fun a => (C a).flatMap tiles)).map g := by
  have inner : ∀ cs : List β, (cs.map (fun ch => (tiles ch).map g)).flatten = (cs.flatMap tiles).map g := by
    intro cs
    induction cs with
    | nil => rfl
    | cons c cs ih => simp only [List.map_cons, List.flatten_cons, List.flatMap_cons, List.map_append, ih]
  induction l with
  | nil => rfl
  | cons a as ih =>
    simp only [List.map_cons, List.flatten_cons, List.map_append, List.flatten_append, List.flatMap_cons, ih, inner]

/-! ### the stream of the versatiles reader -/

theorem tileOf_block {f : VFile} (hf : f.WF) {b : BBox} {bc : Coord} {t : Coord × VEntry}
    (h : TileOf f b bc t) : bc = (t.1.1 / 256, t.1.2.1 / 256, t.1.2.2) ∨ bc.2.2 ≠ b.level := by
  obtain ⟨k, i, hg, _, hit, hz, _, _⟩ := h
  obtain ⟨hmem, h1, h2, h3⟩ := vGetBlock_some hg
  have hk := hf.2 k hmem
  obtain ⟨hx, hy⟩ := hk.u32
  obtain ⟨hbx, hby⟩ := hk.block_of_mem (coord_at_index k.box hx hy hit).1
  by_cases hl : bc.2.2 = b.level
  · left
    obtain ⟨b1, b2, b3⟩ := bc
    simp only at h1 h2 h3 hl
    rw [hbx, hby, hz, h1, h2, hl]
  · exact Or.inr hl

theorem versatiles_stream_spec {f : VFile} (cover : Pyramid) (hf : f.WF) (b : BBox) (hb : b.WF) :
    ∃ l, vStream f b = .ok l ∧ StreamSpec (versatilesSrc f cover) b l := by
  let sb : BBox := { b with xmin := b.xmin / 256, ymin := b.ymin / 256, xmax := b.xmax / 256, ymax := b.ymax / 256 }
  have hs : b.scaleDown 256 = .ok sb := by unfold scaleDown; simp [sb]
  have hsl : sb.level = b.level := rfl
  let C : Coord → List Chunk := fun bc => okOr [] (blockChunks f b bc)
  have hC : ∀ bc ∈ sb.coords3, blockChunks f b bc = .ok (C bc) ∧ (∀ c ∈ C bc, c.Inv) ∧
      (∀ t, t ∈ (C bc).flatMap Chunk.tiles ↔ TileOf f b bc t) ∧
      (((C bc).flatMap Chunk.tiles).map Prod.fst).Nodup := by
    intro bc hbc
    have hz := ((mem_coords3 sb bc).mp hbc).1
    obtain ⟨cs, h1, h2, h3, h4⟩ := blockChunks_spec hf (b := b) bc hz
    have : C bc = cs := by simp only [C, h1, okOr]
    rw [this]
    exact ⟨h1, h2, h3, h4⟩
  have hmap1 : BBox.mapM (blockChunks f b) sb.coords3 = .ok (sb.coords3.map C) :=
    mapM_ok _ _ _ (fun bc h => (hC bc h).1)
  have hall : ∀ ch ∈ (sb.coords3.map C).flatten, ∃ bc ∈ sb.coords3, ch ∈ C bc := by
    intro ch hch
    obtain ⟨cs, hcs, hin⟩ := List.mem_flatten.mp hch
    obtain ⟨bc, hbc, rfl⟩ := List.mem_map.mp hcs
    exact ⟨bc, hbc, hin⟩
  have hmap2 : BBox.mapM (readChunk f b) (sb.coords3.map C).flatten
      = .ok ((sb.coords3.map C).flatten.map (fun ch => ch.tiles.map (cutTile f))) := by
    apply mapM_ok
    intro ch hch
    obtain ⟨bc, hbc, hin⟩ := hall ch hch
    obtain ⟨_, hI, hT, _⟩ := hC bc hbc
    apply readChunk_ok _ _ _ (hI ch hin)
    · intro t ht
      obtain ⟨k, i, _, _, _, hz, hm, _⟩ := (hT t).mp (List.mem_flatMap.mpr ⟨ch, hin, ht⟩)
      unfold BBox.has
      rw [contains3_iff]
      exact ⟨hz, hm⟩
    · intro t ht
      obtain ⟨k, i, hg, hidx, _, _, _, hlen⟩ := (hT t).mp (List.mem_flatMap.mpr ⟨ch, hin, ht⟩)
      have hk := hf.2 k (vGetBlock_some hg).1
      have := hk.2.2.2.2.2.2.2.2.2.2.2 t.2 (List.mem_of_getElem? hidx) hlen
      have := MAX_CHUNK_SIZE_eq
      omega
  -- the delivered list: the index entries of all visited blocks, cut out of the file
  have hT : ∀ t, t ∈ sb.coords3.flatMap (fun bc => (C bc).flatMap Chunk.tiles) ↔
      ∃ bc ∈ sb.coords3, TileOf f b bc t := by
    intro t
    rw [List.mem_flatMap]
    constructor
    · rintro ⟨bc, hbc, ht⟩; exact ⟨bc, hbc, ((hC bc hbc).2.2.1 t).mp ht⟩
    · rintro ⟨bc, hbc, ht⟩; exact ⟨bc, hbc, ((hC bc hbc).2.2.1 t).mpr ht⟩
  refine ⟨(sb.coords3.flatMap (fun bc => (C bc).flatMap Chunk.tiles)).map (cutTile f), ?_, ?_, ?_⟩
  · unfold vStream
    simp only [hs]
    rw [if_neg (by intro h; have := hb.1; omega)]
    simp only [hmap1, hmap2, flatten_map_tiles]
  · -- no coordinate twice
    rw [List.map_map]
    have hfst : (Prod.fst ∘ cutTile f) = Prod.fst := rfl
    rw [hfst, List.map_flatMap]
    unfold List.Nodup
    rw [List.pairwise_flatMap]
    refine ⟨fun bc hbc => (hC bc hbc).2.2.2, ?_⟩
    apply List.Pairwise.imp_of_mem _ (coords3_nodup sb)
    intro bc bc' hbc hbc' hne x hx y hy heq
    obtain ⟨t, ht, rfl⟩ := List.mem_map.mp hx
    obtain ⟨t', ht', rfl⟩ := List.mem_map.mp hy
    have h1 := tileOf_block hf (((hC bc hbc).2.2.1 t).mp ht)
    have h2 := tileOf_block hf (((hC bc' hbc').2.2.1 t').mp ht')
    have hz := ((mem_coords3 sb bc).mp hbc).1
    have hz' := ((mem_coords3 sb bc').mp hbc').1
    rcases h1 with h1 | h1
    · rcases h2 with h2 | h2
      · exact hne (by rw [h1, h2, heq])
      · exact h2 hz'
    · exact h1 hz
  · -- exactly the tiles the lookups deliver
    intro cp
    show cp ∈ _ ↔ cp.1 ∈ b.coords3 ∧ vLookup f cp.1 = .ok (some cp.2)
    rw [List.mem_map]
    constructor
    · rintro ⟨t, ht, rfl⟩
      obtain ⟨bc, hbc, htile⟩ := (hT t).mp ht
      have hblk := tileOf_block hf htile
      obtain ⟨k, i, hg, hidx, hit, hz, hm, hlen⟩ := htile
      have hbz := ((mem_coords3 sb bc).mp hbc).1
      rcases hblk with hblk | hblk
      · refine ⟨(mem_coords3 b t.1).mpr ⟨hz, hm⟩, ?_⟩
        show vLookup f t.1 = .ok (some (f.readRange t.2.off t.2.len))
        rw [vLookup_some_iff hf t.1 (by rw [hz]; exact hb.1)]
        refine ⟨k, i, t.2, ?_, hit, hidx, hlen, rfl⟩
        rw [hblk] at hg
        exact hg
      · exact absurd hbz hblk
    · rintro ⟨hc, hlk⟩
      obtain ⟨hz, hm⟩ := (mem_coords3 b cp.1).mp hc
      obtain ⟨k, i, e, hg, hit, hidx, hlen, hp⟩ :=
        (vLookup_some_iff hf cp.1 (by rw [hz]; exact hb.1) cp.2).mp hlk
      refine ⟨(cp.1, e), (hT _).mpr ⟨(cp.1.1 / 256, cp.1.2.1 / 256, cp.1.2.2), ?_, k, i, hg, hidx, hit, hz, hm, hlen⟩, ?_⟩
      · rw [mem_coords3]
        refine ⟨hz, ?_⟩
        unfold mem at hm ⊢
        simp only [sb]
        exact ⟨Nat.div_le_div_right hm.1, Nat.div_le_div_right hm.2.1, Nat.div_le_div_right hm.2.2.1,
          Nat.div_le_div_right hm.2.2.2⟩
      · exact Prod.ext rfl hp.symm

/-- **C02 for the versatiles reader**: for every well-formed file and EVERY well-formed box (all
    empty encodings, boxes reaching beyond the stored blocks, sparse block index) the chunked
    stream finishes without a panic, delivers no coordinate twice and is a permutation of what the
    single-tile lookups deliver inside the box. -/
theorem versatiles_stream_ok {f : VFile} (cover : Pyramid) (hf : f.WF) : StreamOK (versatilesSrc f cover) :=
  (streamOK_iff_spec _).mpr (fun b hb => versatiles_stream_spec cover hf b hb)

/-! ### mbtiles -/

/-- primary key of the `tiles` table -/
def MRow.key (r : MRow) : Nat × Nat × Nat := (r.z, r.col, r.row)

/-- keys `(zoom_level, tile_column, tile_row)` pairwise distinct, every row inside its level -/
def MTable.WF (t : List MRow) : Prop :=
  t.Pairwise (fun a b => a.key ≠ b.key) ∧ ∀ r ∈ t, r.z ≤ 31 ∧ r.col < 2 ^ r.z ∧ r.row < 2 ^ r.z

instance (t : List MRow) : Decidable (MTable.WF t) := by unfold MTable.WF; infer_instance

theorem mLookup_some_iff {t : List MRow} (ht : MTable.WF t) (c : Coord) (hz : c.2.2 ≤ 31)
    (hy : c.2.1 ≤ 2 ^ c.2.2 - 1) (p : List Nat) :
    mLookup t c = .ok (some p) ↔
      ∃ r ∈ t, r.col = c.1 ∧ r.row = 2 ^ c.2.2 - 1 - c.2.1 ∧ r.z = c.2.2 ∧ r.blob = p := by
  unfold mLookup
  rw [if_neg (by omega), if_neg (by omega)]
  cases hfind : t.find? (fun r => r.col == c.1 && r.row == 2 ^ c.2.2 - 1 - c.2.1 && r.z == c.2.2) with
  | none =>
    simp only
    constructor
    · intro h; cases h
    · rintro ⟨r, hr, h1, h2, h3, _⟩
      exact absurd (by simp [h1, h2, h3]) (List.find?_eq_none.mp hfind r hr)
  | some r =>
    have hr := List.mem_of_find?_eq_some hfind
    have hpr := List.find?_some hfind
    simp only [Bool.and_eq_true, beq_iff_eq] at hpr
    simp only
    constructor
    · intro h
      cases h
      exact ⟨r, hr, hpr.1.1, hpr.1.2, hpr.2, rfl⟩
    · rintro ⟨r', hr', h1, h2, h3, rfl⟩
      have : r' = r := eq_of_key_eq MRow.key ht.1 hr' hr (by
        unfold MRow.key; rw [h1, h2, h3, hpr.1.1, hpr.1.2, hpr.2])
      rw [this]

theorem mbtiles_lookup_ok {t : List MRow} (cover : Pyramid) (_ht : MTable.WF t) :
    LookupOK (mbtilesSrc t cover) := by
  intro c hv
  show ∃ o, mLookup t c = .ok o
  unfold mLookup
  rw [if_neg (by have := hv.1; omega)]
  split
  · exact ⟨none, rfl⟩
  · split <;> exact ⟨_, rfl⟩

theorem mbtiles_stream_spec {t : List MRow} (cover : Pyramid) (ht : MTable.WF t) (b : BBox) (hb : b.WF) :
    ∃ l, mStream t b = .ok l ∧ StreamSpec (mbtilesSrc t cover) b l := by
  unfold mStream
  by_cases he : b.isEmpty = true
  · rw [if_pos he]
    refine ⟨[], rfl, List.nodup_nil, ?_⟩
    intro cp
    have : b.coords3 = [] := by unfold coords3; rw [if_pos he]
    rw [this]
    simp
  · rw [if_neg he]
    simp only [Bool.not_eq_true] at he
    obtain ⟨hxx, hyy⟩ := (not_isEmpty_iff b).mp he
    obtain ⟨hl, hbx, hby⟩ := hb
    have hmv : b.maxv = 2 ^ b.level - 1 := rfl
    rw [if_neg (by omega), if_neg (by omega)]
    have hsel : ∀ r, mSelect b r = true ↔
        b.xmin ≤ r.col ∧ r.col ≤ b.xmax ∧ b.maxv - b.ymax ≤ r.row ∧ r.row ≤ b.maxv - b.ymin ∧ r.z = b.level := by
      intro r
      unfold mSelect
      simp only [Bool.and_eq_true, decide_eq_true_eq, beq_iff_eq]
      constructor
      · rintro ⟨⟨⟨⟨h1, h2⟩, h3⟩, h4⟩, h5⟩; exact ⟨h1, h2, h3, h4, h5⟩
      · rintro ⟨h1, h2, h3, h4, h5⟩; exact ⟨⟨⟨⟨h1, h2⟩, h3⟩, h4⟩, h5⟩
    let g : MRow → Coord × List Nat := fun r => ((r.col, b.maxv - r.row, r.z), r.blob)
    have hmap : BBox.mapM (mRow b) (t.filter (mSelect b)) = .ok ((t.filter (mSelect b)).map g) := by
      apply mapM_ok
      intro r hr
      obtain ⟨_, hs⟩ := List.mem_filter.mp hr
      obtain ⟨_, _, _, h4, h5⟩ := (hsel r).mp hs
      unfold mRow
      rw [if_neg (by omega), if_neg (by omega)]
    refine ⟨(t.filter (mSelect b)).map g, hmap, ?_, ?_⟩
    · rw [List.map_map]
      unfold List.Nodup
      rw [List.pairwise_map]
      apply List.Pairwise.imp_of_mem _ (ht.1.filter (mSelect b))
      intro r r' hr hr' hne heq
      obtain ⟨_, _, _, h4, _⟩ := (hsel r).mp (List.mem_filter.mp hr).2
      obtain ⟨_, _, _, h4', _⟩ := (hsel r').mp (List.mem_filter.mp hr').2
      simp only [Function.comp, g, Prod.mk.injEq] at heq
      apply hne
      unfold MRow.key
      rw [heq.1, heq.2.2]
      have : r.row = r'.row := by omega
      rw [this]
    · intro cp
      show cp ∈ _ ↔ cp.1 ∈ b.coords3 ∧ mLookup t cp.1 = .ok (some cp.2)
      rw [List.mem_map]
      constructor
      · rintro ⟨r, hr, rfl⟩
        obtain ⟨hrt, hs⟩ := List.mem_filter.mp hr
        obtain ⟨h1, h2, h3, h4, h5⟩ := (hsel r).mp hs
        refine ⟨(mem_coords3 b _).mpr ⟨h5, ?_⟩, ?_⟩
        · show mem b r.col (b.maxv - r.row)
          unfold mem; omega
        · show mLookup t (r.col, b.maxv - r.row, r.z) = .ok (some r.blob)
          rw [mLookup_some_iff ht _ (by show r.z ≤ 31; omega)
            (by show b.maxv - r.row ≤ 2 ^ r.z - 1; rw [h5, ← hmv]; omega)]
          refine ⟨r, hrt, rfl, ?_, rfl, rfl⟩
          show r.row = 2 ^ r.z - 1 - (b.maxv - r.row)
          rw [h5, ← hmv]; omega
      · rintro ⟨hc, hlk⟩
        obtain ⟨hz, hm⟩ := (mem_coords3 b cp.1).mp hc
        unfold mem at hm
        have hy : cp.1.2.1 ≤ 2 ^ cp.1.2.2 - 1 := by rw [hz, ← hmv]; omega
        obtain ⟨r, hrt, h1, h2, h3, h4⟩ := (mLookup_some_iff ht cp.1 (by rw [hz]; exact hl) hy cp.2).mp hlk
        rw [hz, ← hmv] at h2
        refine ⟨r, List.mem_filter.mpr ⟨hrt, (hsel r).mpr ⟨by omega, by omega, by omega, by omega, by rw [h3, hz]⟩⟩, ?_⟩
        obtain ⟨⟨x, y, z⟩, p⟩ := cp
        simp only at h1 h2 h3 h4 hm
        simp only [g, Prod.mk.injEq]
        exact ⟨⟨h1, by omega, h3⟩, h4⟩

/-- **C02 for the mbtiles reader** -/
theorem mbtiles_stream_ok {t : List MRow} (cover : Pyramid) (ht : MTable.WF t) : StreamOK (mbtilesSrc t cover) :=
  (streamOK_iff_spec _).mpr (fun b hb => mbtiles_stream_spec cover ht b hb)

/-! ### non-vacuity: a tiny file and a tiny table -/

/-- level 9 (2×2 blocks); two blocks side by side, each with a 2×2 box at the common border;
    offsets deliberately not in index order, one empty entry per block -/
def exFile : VFile where
  blocks := [
    ⟨0, 0, 9, ⟨9, 254, 0, 255, 1⟩, [⟨100, 3⟩, ⟨110, 2⟩, ⟨103, 0⟩, ⟨106, 4⟩]⟩,
    ⟨1, 0, 9, ⟨9, 256, 0, 257, 1⟩, [⟨205, 1⟩, ⟨0, 0⟩, ⟨200, 5⟩, ⟨300, 2⟩]⟩]
  bytes := fun i => i % 251

/-- evaluates the stream of a concrete file (`List.mergeSort` is defined by well-founded recursion,
    so `decide` cannot run it; `simp` can) -/
local macro "vstream_eval" : tactic => `(tactic|
  simp [vStream, BBox.scaleDown, BBox.coords3, BBox.iterCoords, BBox.mapM, blockChunks, VFile.getBlock,
    exFile, BBox.intersectBBox, BBox.isEmpty, BBox.setEmpty, Outcome.unwrap, VBlock.tileIndexO, BBox.countTiles,
    BBox.width, BBox.height, scanIndex, enumFrom, filterMapO, scanEntry, BBox.coordByIndex, U32,
    BBox.contains3, BBox.contains2, sortByOffset, List.mergeSort, mergeChunks, mergeLoop, Chunk.new,
    Chunk.push, U64, MAX_CHUNK_SIZE, MAX_CHUNK_GAP, readChunk, sliceTile, VFile.readRange, BBox.has,
    List.range, List.range.loop, List.range'])

example : exFile.WF := by decide
example : (⟨9, 255, 0, 256, 1⟩ : BBox).WF := by unfold BBox.WF; decide
example : vLookup exFile (255, 0, 9) = .ok (some [110, 111]) := by decide
example : vLookup exFile (254, 1, 9) = .ok none := by decide        -- zero-length entry
example : vLookup exFile (253, 0, 9) = .ok none := by decide        -- outside the block's box
example : vLookup exFile (300, 300, 9) = .ok none := by decide      -- no such block
/-- a box crossing the block border: tiles of both blocks, per block in offset order -/
example : vStream exFile ⟨9, 255, 0, 256, 1⟩ = .ok [((255, 1, 9), [106, 107, 108, 109]), ((255, 0, 9), [110, 111]),
    ((256, 1, 9), [200, 201, 202, 203, 204]), ((256, 0, 9), [205])] := by vstream_eval
/-- … which is a permutation of the row-major list of the lookups -/
example : expected (versatilesSrc exFile []) ⟨9, 255, 0, 256, 1⟩ = [((255, 0, 9), [110, 111]), ((256, 0, 9), [205]),
    ((255, 1, 9), [106, 107, 108, 109]), ((256, 1, 9), [200, 201, 202, 203, 204])] := by decide
/-- a box beyond the coverage (block coordinates (1,1) only): no panic, nothing delivered -/
example : vStream exFile ⟨9, 300, 300, 400, 400⟩ = .ok [] := by vstream_eval
/-- the empty encodings `new_empty` and `set_empty` (the latter scales down to the box `(0,0,0,0)`) -/
example : vStream exFile ⟨9, 512, 512, 0, 0⟩ = .ok [] := by vstream_eval
example : vStream exFile ⟨9, 1, 1, 0, 0⟩ = .ok [] := by vstream_eval
/-- the theorem applied to the concrete file -/
example : ∃ l, vStream exFile ⟨9, 254, 0, 257, 1⟩ = .ok l ∧ (l.map Prod.fst).Nodup ∧
    l.Perm (expected (versatilesSrc exFile []) ⟨9, 254, 0, 257, 1⟩) :=
  versatiles_stream_ok (f := exFile) [] (by decide) ⟨9, 254, 0, 257, 1⟩ (by unfold BBox.WF; decide)
/-- the merge loop on offset-sorted entries (one chunk: the gap is below `MAX_CHUNK_GAP`) … -/
example : mergeChunks [((255, 1, 9), ⟨106, 4⟩), ((255, 0, 9), ⟨110, 2⟩)]
    = .ok [⟨[((255, 1, 9), ⟨106, 4⟩), ((255, 0, 9), ⟨110, 2⟩)], 106, 6⟩] := by decide
/-- … a gap of `MAX_CHUNK_GAP` or more starts a new chunk … -/
example : mergeChunks [((0, 0, 9), ⟨100, 4⟩), ((1, 0, 9), ⟨104 + 32768, 2⟩)]
    = .ok [⟨[((0, 0, 9), ⟨100, 4⟩)], 100, 4⟩, ⟨[((1, 0, 9), ⟨32872, 2⟩)], 32872, 2⟩] := by decide
/-- … and the `panic!()` of `push` is modelled: it would fire on unsorted entries -/
example : mergeChunks [((255, 0, 9), ⟨110, 2⟩), ((255, 1, 9), ⟨106, 4⟩)] = .panic := by decide
/-- the `ensure!` of `get_block_tile_index` is modelled: an index of the wrong length is an error
    of the lookup (and, through `unwrap`, a panic of the stream) -/
example : vLookup ⟨[⟨0, 0, 9, ⟨9, 254, 0, 255, 1⟩, [⟨100, 3⟩]⟩], fun _ => 0⟩ (255, 0, 9) = .err := by decide

/-- three tiles on level 2 (TMS rows: `row = 3 - y`) and one on level 0 -/
def exTable : List MRow := [⟨2, 1, 3, [7]⟩, ⟨2, 2, 2, [8, 9]⟩, ⟨0, 0, 0, [1]⟩, ⟨2, 3, 0, [5]⟩]

example : MTable.WF exTable := by decide
example : mLookup exTable (1, 0, 2) = .ok (some [7]) := by decide
example : mLookup exTable (1, 1, 2) = .ok none := by decide
example : mLookup exTable (1, 7, 2) = .ok none := by decide         -- row outside the level
example : mStream exTable ⟨2, 0, 0, 2, 1⟩ = .ok [((1, 0, 2), [7]), ((2, 1, 2), [8, 9])] := by decide
example : mStream exTable ⟨2, 0, 2, 3, 3⟩ = .ok [((3, 3, 2), [5])] := by decide
example : mStream exTable ⟨2, 4, 4, 0, 0⟩ = .ok [] := by decide     -- `new_empty`
example : mStream exTable ⟨1, 0, 0, 1, 1⟩ = .ok [] := by decide     -- level without tiles
example : expected (mbtilesSrc exTable []) ⟨2, 0, 0, 2, 1⟩ = [((1, 0, 2), [7]), ((2, 1, 2), [8, 9])] := by decide
example : StreamOK (mbtilesSrc exTable []) := mbtiles_stream_ok [] (by decide)

end VtModel
