import VtModel.Path
/-!
Helper lemmas for C07 (static file serving): lexical path components versus the OS path walk.
-/
namespace VtModel.Path

/-- the `Normal` components of a raw segment list -/
def names (p : Segs) : Loc :=
  p.filterMap (fun s => match classify s with | .name n => some n | _ => none)

theorem classify_name {s n : Str} (h : classify s = .name n) : n = s := by
  unfold classify at h
  split at h
  · cases h
  · split at h
    · cases h
    · split at h
      · cases h
      · cases h; rfl

theorem classify_parent {s : Str} : classify s = .parent ↔ s = sDotDot := by
  constructor
  · intro h
    unfold classify at h
    split at h
    · cases h
    · split at h
      · cases h
      · split at h
        · assumption
        · cases h
  · intro h; subst h; decide

theorem names_nil : names [] = [] := rfl

theorem names_cons_cur {s : Str} {ss : Segs} (h : classify s = .cur) : names (s :: ss) = names ss := by
  simp [names, h]

theorem names_cons_name {s n : Str} {ss : Segs} (h : classify s = .name n) :
    names (s :: ss) = n :: names ss := by
  simp [names, h]

theorem names_append (a b : Segs) : names (a ++ b) = names a ++ names b := by
  simp [names, List.filterMap_append]

theorem hasParent_cons (s : Str) (ss : Segs) :
    hasParent (s :: ss) = (decide (classify s = .parent) || hasParent ss) := by
  simp [hasParent, List.any_cons]

theorem hasParent_append (a b : Segs) : hasParent (a ++ b) = (hasParent a || hasParent b) := by
  simp [hasParent, List.any_append]

/-- **OS walk without `..`**: the location reached is the start followed by the names. -/
theorem resolve_noParent (fs : FS) : ∀ (segs : Segs) (cur l : Loc),
    hasParent segs = false → resolve fs cur segs = some l → l = cur ++ names segs := by
  intro segs
  induction segs with
  | nil => intro cur l _ h; simp [resolve] at h; simp [names_nil, h]
  | cons s ss ih =>
    intro cur l hp h
    rw [hasParent_cons] at hp
    simp only [Bool.or_eq_false_iff, decide_eq_false_iff_not] at hp
    unfold resolve at h
    split at h
    · cases hc : classify s with
      | cur =>
        rw [hc] at h
        rw [names_cons_cur hc]
        exact ih cur l hp.2 h
      | parent => exact absurd hc hp.1
      | name n =>
        rw [hc] at h
        simp only at h
        split at h
        · have := ih (cur ++ [n]) l hp.2 h
          rw [names_cons_name hc, this]; simp
        · cases h
    · cases h

/-- if every prefix of the named location is a directory, the walk succeeds -/
theorem resolve_chain (fs : FS) : ∀ (segs : Segs) (cur : Loc),
    hasParent segs = false →
    (∀ q, q <+: cur ++ names segs → fs.node q = some .dir) →
    resolve fs cur segs = some (cur ++ names segs) := by
  intro segs
  induction segs with
  | nil => intro cur _ _; simp [resolve, names_nil]
  | cons s ss ih =>
    intro cur hp hd
    rw [hasParent_cons] at hp
    simp only [Bool.or_eq_false_iff, decide_eq_false_iff_not] at hp
    have hcur : fs.isDirAt cur = true := by
      have := hd cur (List.prefix_append _ _)
      simp [FS.isDirAt, this]
    unfold resolve
    rw [if_pos hcur]
    cases hc : classify s with
    | cur =>
      simp only
      rw [names_cons_cur hc] at hd ⊢
      exact ih cur hp.2 hd
    | parent => exact absurd hc hp.1
    | name n =>
      simp only
      rw [names_cons_name hc] at hd ⊢
      have h1 : fs.node (cur ++ [n]) = some .dir := by
        apply hd
        have : cur ++ n :: names ss = (cur ++ [n]) ++ names ss := by simp
        rw [this]; exact List.prefix_append _ _
      rw [h1]
      simp only [Option.isSome_some, if_true]
      have h2 := ih (cur ++ [n]) hp.2 (by
        intro q hq
        apply hd
        have : cur ++ n :: names ss = (cur ++ [n]) ++ names ss := by simp
        rw [this]; exact hq)
      rw [h2]; simp

/-! ### lexical `starts_with` -/

theorem comps_noParent : ∀ (p : Segs), hasParent p = false → comps p = (names p).map Comp.name := by
  intro p
  induction p with
  | nil => intro _; rfl
  | cons s ss ih =>
    intro hp
    rw [hasParent_cons] at hp
    simp only [Bool.or_eq_false_iff, decide_eq_false_iff_not] at hp
    have ih' := ih hp.2
    unfold comps at ih' ⊢
    cases hc : classify s with
    | cur => rw [names_cons_cur hc]; simp [List.map_cons, hc]; simpa using ih'
    | parent => exact absurd hc hp.1
    | name n => rw [names_cons_name hc]; simp [List.map_cons, hc]; simpa using ih'

/-- every name of the configured root is an ordinary name (the root is canonical) -/
def RootNames (root : Loc) : Prop := ∀ s ∈ root, classify s = .name s

theorem rootNames_noParent {root : Loc} (h : RootNames root) : hasParent root = false := by
  induction root with
  | nil => rfl
  | cons s ss ih =>
    rw [hasParent_cons]
    have h1 := h s (by simp)
    have h2 := ih (fun t ht => h t (by simp [ht]))
    simp [h1, h2]

theorem rootNames_names {root : Loc} (h : RootNames root) : names root = root := by
  induction root with
  | nil => rfl
  | cons s ss ih =>
    have h1 := h s (by simp)
    rw [names_cons_name h1, ih (fun t ht => h t (by simp [ht]))]

theorem prefix_of_map_name : ∀ (a b : List Str), a.map Comp.name <+: b.map Comp.name → a <+: b := by
  intro a
  induction a with
  | nil => intro b _; exact List.nil_prefix
  | cons x xs ih =>
    intro b h
    cases b with
    | nil => simp at h
    | cons y ys =>
      simp only [List.map_cons, List.cons_prefix_cons] at h
      obtain ⟨h1, h2⟩ := h
      cases h1
      exact List.cons_prefix_cons.mpr ⟨rfl, ih ys h2⟩

theorem lex_prefix {p : Segs} {root : Loc} (hr : RootNames root) (hp : hasParent p = false)
    (h : lexStartsWith p root = true) : root <+: names p := by
  unfold lexStartsWith at h
  rw [List.isPrefixOf_iff_prefix] at h
  rw [comps_noParent p hp, comps_noParent root (rootNames_noParent hr), rootNames_names hr] at h
  exact prefix_of_map_name _ _ h

/-! ### `push("index.html")`, `format!("{}.br", …)` -/

theorem getLast?_eq_some_split {α} : ∀ {l : List α} {a : α}, l.getLast? = some a → l = l.dropLast ++ [a] := by
  intro l a h
  obtain ⟨ys, rfl⟩ := List.getLast?_eq_some_iff.mp h
  simp

theorem classify_index : classify sIndex = .name sIndex := by decide

theorem names_index : names [sIndex] = [sIndex] := by decide
theorem names_empty : names [([] : Str)] = [] := by decide

theorem pushName_names (p : Segs) : names (pushName p sIndex) = names p ++ [sIndex] := by
  unfold pushName
  split
  · rename_i h
    have hs := getLast?_eq_some_split h
    conv => rhs; rw [hs]
    rw [names_append, names_append, names_index, names_empty, List.append_nil]
  · rw [names_append, names_index]

theorem pushName_hasParent (p : Segs) : hasParent (pushName p sIndex) = hasParent p := by
  have hi : hasParent [sIndex] = false := by decide
  unfold pushName
  split
  · rename_i h
    have hs := getLast?_eq_some_split h
    conv => rhs; rw [hs]
    have he : hasParent [([] : Str)] = false := by decide
    simp [hasParent_append, hi, he]
  · simp [hasParent_append, hi]

theorem classify_long {s : Str} (h : 3 ≤ s.length) : classify s = .name s := by
  unfold classify
  have h1 : s ≠ [] := by intro e; subst e; simp at h
  have h2 : s ≠ sDot := by intro e; subst e; simp [sDot] at h
  have h3 : s ≠ sDotDot := by intro e; subst e; simp [sDotDot] at h
  simp [h1, h2, h3]

/-- appending an extension of ≥ 3 characters to the path string -/
theorem appendExt_cases (p : Segs) (ext : Str) (he : 3 ≤ ext.length) :
    (p = [] ∧ appendExt p ext = [ext]) ∨
    (∃ init last, p = init ++ [last] ∧ appendExt p ext = init ++ [last ++ ext]) := by
  unfold appendExt
  cases h : p.getLast? with
  | none => left; simp [List.getLast?_eq_none_iff] at h; simp [h]
  | some l => right; exact ⟨p.dropLast, l, getLast?_eq_some_split h, rfl⟩

theorem appendExt_hasParent (p : Segs) (ext : Str) (he : 3 ≤ ext.length) (hp : hasParent p = false) :
    hasParent (appendExt p ext) = false := by
  rcases appendExt_cases p ext he with ⟨_, h2⟩ | ⟨init, last, h1, h2⟩
  · rw [h2]; simp [hasParent, classify_long he]
  · rw [h2]
    rw [h1, hasParent_append] at hp
    simp only [Bool.or_eq_false_iff] at hp
    have : 3 ≤ (last ++ ext).length := by simp; omega
    rw [hasParent_append, hp.1]
    simp [hasParent, classify_long this]

/-- the extension changes a component *below* the root unless the path names the root itself -/
theorem appendExt_prefix (p : Segs) (ext : Str) (root : Loc) (he : 3 ≤ ext.length)
    (hp : hasParent p = false) (hpre : root <+: names p) (hne : names p ≠ root) :
    root <+: names (appendExt p ext) := by
  rcases appendExt_cases p ext he with ⟨h1, h2⟩ | ⟨init, last, h1, h2⟩
  · subst h1
    simp [names_nil] at hpre
    subst hpre; exact List.nil_prefix
  · rw [h2, names_append]
    rw [h1, names_append] at hpre hne
    rw [h1, hasParent_append] at hp
    simp only [Bool.or_eq_false_iff] at hp
    cases hc : classify last with
    | cur =>
      have : names [last] = [] := by rw [names_cons_cur hc]; rfl
      rw [this, List.append_nil] at hpre
      exact List.IsPrefix.trans hpre (List.prefix_append _ _)
    | parent =>
      have : hasParent [last] = true := by simp [hasParent, hc]
      rw [this] at hp; exact absurd hp.2 (by simp)
    | name n =>
      have hn : names [last] = [n] := by rw [names_cons_name hc]; rfl
      rw [hn] at hpre hne
      rcases List.prefix_concat_iff.mp hpre with h | h
      · exact absurd h.symm hne
      · exact List.IsPrefix.trans h (List.prefix_append _ _)

/-! ### opening files -/

theorem openRead_ok {fs : FS} {q : Segs} {c : Nat} (h : openRead fs q = some (.ok c)) :
    ∃ l, resolve fs [] q = some l ∧ fs.node l = some (.file c) := by
  unfold openRead at h
  split at h
  · cases h
  · rename_i l hl
    split at h
    · rename_i c' hn
      cases h
      exact ⟨l, hl, hn⟩
    · cases h
    · cases h

/-- every prefix of the root is an existing directory (established at start-up by
    `Folder::from`: `canonicalize` + `is_dir`) -/
def RootOk (fs : FS) (root : Loc) : Prop := ∀ q, q <+: root → fs.node q = some .dir

/-- a parent-free path that names the root itself opens the root *directory* (the read panics) -/
theorem openRead_root {fs : FS} {root : Loc} {p : Segs} (hr : RootOk fs root)
    (hp : hasParent p = false) (hn : names p = root) : openRead fs p = some .panic := by
  have h1 : resolve fs [] p = some ([] ++ names p) :=
    resolve_chain fs p [] hp (by intro q hq; rw [List.nil_append, hn] at hq; exact hr q hq)
  rw [List.nil_append, hn] at h1
  have h2 := hr root (List.prefix_refl _)
  simp [openRead, h1, h2]

theorem openChain_ok {fs : FS} {p : Segs} {c : Nat} (h : openChain fs p = .ok c) :
    openRead fs p = some (.ok c) ∨
    (openRead fs p = none ∧ (openRead fs (appendExt p sBr) = some (.ok c) ∨
                             openRead fs (appendExt p sGz) = some (.ok c))) := by
  unfold openChain at h
  split at h
  · rename_i r hr; subst h; left; exact hr
  · rename_i h0
    right; refine ⟨h0, ?_⟩
    split at h
    · rename_i r hr; subst h; left; exact hr
    · split at h
      · rename_i r hr; subst h; right; exact hr
      · cases h

/-- the three `File::open` attempts of a parent-free path that lexically starts with the root only
    reach files inside the root -/
theorem openChain_confined {fs : FS} {root : Loc} {p : Segs} {c : Nat}
    (hn : RootNames root) (hr : RootOk fs root) (hp : hasParent p = false)
    (hlex : lexStartsWith p root = true) (h : openChain fs p = .ok c) :
    ∃ l, root <+: l ∧ fs.node l = some (.file c) := by
  have hpre := lex_prefix hn hp hlex
  have key : ∀ q, hasParent q = false → root <+: names q → openRead fs q = some (.ok c) →
      ∃ l, root <+: l ∧ fs.node l = some (.file c) := by
    intro q hq hqp ho
    obtain ⟨l, hl, hnode⟩ := openRead_ok ho
    have := resolve_noParent fs q [] l hq hl
    rw [List.nil_append] at this
    exact ⟨l, this ▸ hqp, hnode⟩
  rcases openChain_ok h with h1 | ⟨h0, h1 | h1⟩
  · exact key p hp hpre h1
  · have hne : names p ≠ root := by
      intro e
      rw [openRead_root hr hp e] at h0; cases h0
    exact key _ (appendExt_hasParent p sBr (by decide) hp)
      (appendExt_prefix p sBr root (by decide) hp hpre hne) h1
  · have hne : names p ≠ root := by
      intro e
      rw [openRead_root hr hp e] at h0; cases h0
    exact key _ (appendExt_hasParent p sGz (by decide) hp)
      (appendExt_prefix p sGz root (by decide) hp hpre hne) h1

theorem withIndex_hasParent (fs : FS) (p : Segs) (h : hasParent p = false) :
    hasParent (withIndex fs p) = false := by
  unfold withIndex
  split
  · rw [pushName_hasParent]; exact h
  · exact h

theorem openChain_of_openRead {fs : FS} {p : Segs} {r : Resp} (h : openRead fs p = some r) :
    openChain fs p = r := by
  unfold openChain; rw [h]

/-! ### tar map -/

/-- `v` is stored in some slot of the map -/
def TarVal (m : TarMap) (v : Nat) : Prop :=
  ∃ k e, (k, e) ∈ m ∧ (e.un = some v ∨ e.gz = some v ∨ e.br = some v)

theorem set_val {e : TarEntry} {c : Compr} {v w : Nat}
    (h : (e.set c v).un = some w ∨ (e.set c v).gz = some w ∨ (e.set c v).br = some w) :
    w = v ∨ (e.un = some w ∨ e.gz = some w ∨ e.br = some w) := by
  cases c <;> simp [TarEntry.set] at h <;> rcases h with h | h | h <;> simp_all

theorem tarInsert_val : ∀ (m : TarMap) (key : Str) (c : Compr) (v w : Nat),
    TarVal (tarInsert m key c v) w → w = v ∨ TarVal m w := by
  intro m
  induction m with
  | nil =>
    intro key c v w ⟨k, e, hm, hv⟩
    simp [tarInsert] at hm
    obtain ⟨_, he⟩ := hm
    subst he
    rcases set_val hv with h | h
    · left; exact h
    · simp [TarEntry.empty] at h
  | cons x rest ih =>
    intro key c v w ⟨k, e, hm, hv⟩
    obtain ⟨k0, e0⟩ := x
    unfold tarInsert at hm
    split at hm
    · simp at hm
      rcases hm with ⟨hk, he⟩ | hm
      · subst he
        rcases set_val hv with h | h
        · left; exact h
        · right; exact ⟨k0, e0, by simp, h⟩
      · right; exact ⟨k, e, by simp [hm], hv⟩
    · simp at hm
      rcases hm with ⟨hk, he⟩ | hm
      · right; exact ⟨k0, e0, by simp, he ▸ hv⟩
      · rcases ih key c v w ⟨k, e, hm, hv⟩ with h | ⟨k', e', hm', hv'⟩
        · left; exact h
        · right; exact ⟨k', e', by simp [hm'], hv'⟩

theorem tarAddAt_val (m : TarMap) (cs : List Str) (compr : Compr) (content w : Nat)
    (h : TarVal (tarAddAt m cs compr content) w) : w = content ∨ TarVal m w := by
  unfold tarAddAt at h
  simp only at h
  rcases tarInsert_val _ _ _ _ _ h with h | h
  · left; exact h
  · split at h
    · exact tarInsert_val _ _ _ _ _ h
    · right; exact h

theorem tarAddMember_val (m : TarMap) (name : Str) (content w : Nat)
    (h : TarVal (tarAddMember m name content) w) : w = content ∨ TarVal m w := by
  unfold tarAddMember at h
  split at h
  · right; exact h
  · exact tarAddAt_val _ _ _ _ _ h

theorem tarBuild_val_aux : ∀ (ms : List (Str × Nat)) (m : TarMap) (w : Nat),
    TarVal (ms.foldl (fun m x => tarAddMember m x.1 x.2) m) w →
    (∃ x ∈ ms, x.2 = w) ∨ TarVal m w := by
  intro ms
  induction ms with
  | nil => intro m w h; right; exact h
  | cons x xs ih =>
    intro m w h
    simp only [List.foldl_cons] at h
    rcases ih _ w h with ⟨y, hy, hw⟩ | h
    · left; exact ⟨y, by simp [hy], hw⟩
    · rcases tarAddMember_val m x.1 x.2 w h with h | h
      · left; exact ⟨x, by simp, h.symm⟩
      · right; exact h

theorem lookup_mem {α β} [BEq α] [LawfulBEq α] : ∀ (l : List (α × β)) (k : α) (v : β),
    l.lookup k = some v → (k, v) ∈ l := by
  intro l
  induction l with
  | nil => intro k v h; simp [List.lookup] at h
  | cons x xs ih =>
    intro k v h
    obtain ⟨a, b⟩ := x
    simp only [List.lookup_cons] at h
    split at h
    · rename_i he
      have := eq_of_beq he
      cases h; subst this; simp
    · simp [ih k v h]

theorem firstSome_mem : ∀ (l : List (Option Nat)) (c : Nat), firstSome l = .ok c → some c ∈ l := by
  intro l
  induction l with
  | nil => intro c h; cases h
  | cons x xs ih =>
    intro c h
    cases x with
    | none => simp only [firstSome] at h; exact List.mem_cons_of_mem _ (ih c h)
    | some v => simp only [firstSome, Resp.ok.injEq] at h; subst h; simp

theorem tarGet_val {m : TarMap} {url : Url} {acc : Accept} {c : Nat} (h : tarGet m url acc = .ok c) :
    TarVal m c := by
  unfold tarGet at h
  split at h
  · cases h
  · rename_i e he
    have hm := lookup_mem _ _ _ he
    have hmem := firstSome_mem _ _ h
    simp only [List.mem_cons, List.not_mem_nil, or_false] at hmem
    refine ⟨_, e, hm, ?_⟩
    rcases hmem with h1 | h1 | h1 | h1 | h1
    · split at h1
      · exact Or.inr (Or.inr h1.symm)
      · cases h1
    · split at h1
      · exact Or.inr (Or.inl h1.symm)
      · cases h1
    · exact Or.inl h1.symm
    · exact Or.inr (Or.inr h1.symm)
    · exact Or.inr (Or.inl h1.symm)

end VtModel.Path
