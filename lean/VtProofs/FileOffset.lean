import VtModel.FileOffset
/-!
Helper lemmas for C13: typing invariant of the descriptor table, and the two simulation lemmas
(a step of another call does not change what call `c` can observe; a step of `c` itself depends
only on what `c` can observe).
-/
namespace VtModel.FileOffset

/-- descriptor classes are respected by the table -/
structure KInv (k : Kernel) : Prop where
  sh : k.fdt .shared = some .shared
  al : ∀ c i d, k.fdt (.alias c i) = some d → d = .shared
  ow : ∀ c i d, k.fdt (.own c i) = some d → ∃ j, d = .priv c j

theorem kinv_kernel0 (file : Bytes) : KInv (kernel0 file) := by
  constructor <;> simp [kernel0]

/-- the description behind a reference of call `c` is the shared one or one of `c`'s own -/
theorem KInv.resolve {k : Kernel} (h : KInv k) (c : Nat) (r : Ref) {d : Desc}
    (hd : k.fdt (resolve c r) = some d) :
    (∀ i, r = .own i → ∃ j, d = .priv c j) ∧ ((∀ i, r ≠ .own i) → d = .shared) := by
  cases r with
  | shared =>
    simp only [VtModel.FileOffset.resolve, h.sh] at hd
    cases hd
    exact ⟨fun i hi => (by cases hi), fun _ => rfl⟩
  | alias i =>
    exact ⟨fun j hj => (by cases hj), fun _ => h.al c i d hd⟩
  | own i =>
    exact ⟨fun _ _ => h.ow c i d hd, fun hn => absurd rfl (hn i)⟩

theorem sys_kinv {k : Kernel} (h : KInv k) (c : Nat) (l : Local) (s : Sys) (hs : sysIsolated s = true) :
    KInv (sys c k l s).1 := by
  cases s with
  | dup r =>
    cases r with
    | shared =>
      simp only [sys, VtModel.FileOffset.resolve, h.sh]
      constructor
      · simp [Kernel.setFd, h.sh]
      · intro c' i d; simp only [Kernel.setFd]; split
        · intro hd; cases hd; rfl
        · exact h.al c' i d
      · intro c' i d; simp only [Kernel.setFd]; simp; exact h.ow c' i d
    | alias a =>
      simp only [sys, VtModel.FileOffset.resolve]
      constructor
      · simp [Kernel.setFd, h.sh]
      · intro c' i d; simp only [Kernel.setFd]; split
        · intro hd; exact h.al c a d hd
        · exact h.al c' i d
      · intro c' i d; simp only [Kernel.setFd]; simp; exact h.ow c' i d
    | own a =>
      simp only [sys, VtModel.FileOffset.resolve]
      constructor
      · simp [Kernel.setFd, h.sh]
      · intro c' i d; simp only [Kernel.setFd]; simp; exact h.al c' i d
      · intro c' i d; simp only [Kernel.setFd]; split
        · rename_i heq; cases heq
          intro hd; exact h.ow c a d hd
        · exact h.ow c' i d
  | openNew =>
    simp only [sys]
    constructor
    · simp [Kernel.setFd, Kernel.setOff, h.sh]
    · intro c' i d; simp [Kernel.setFd, Kernel.setOff]; exact h.al c' i d
    · intro c' i d; simp only [Kernel.setFd, Kernel.setOff]; split
      · rename_i heq; cases heq
        intro hd; cases hd; exact ⟨_, rfl⟩
      · exact h.ow c' i d
  | lseek r o =>
    simp only [sys]
    split
    · exact h
    · exact ⟨h.sh, h.al, h.ow⟩
  | read r n =>
    simp only [sys]
    split
    · exact h
    · exact ⟨h.sh, h.al, h.ow⟩
  | pread r o n =>
    simp only [sys]
    split <;> exact h
  | close r =>
    cases r with
    | shared => simp [sysIsolated] at hs
    | alias a =>
      simp only [sys, VtModel.FileOffset.resolve]
      constructor
      · simp [Kernel.setFd, h.sh]
      · intro c' i d; simp only [Kernel.setFd]; split
        · intro hd; cases hd
        · exact h.al c' i d
      · intro c' i d; simp only [Kernel.setFd]; simp; exact h.ow c' i d
    | own a =>
      simp only [sys, VtModel.FileOffset.resolve]
      constructor
      · simp [Kernel.setFd, h.sh]
      · intro c' i d; simp only [Kernel.setFd]; simp; exact h.al c' i d
      · intro c' i d; simp only [Kernel.setFd]; split
        · intro hd; cases hd
        · exact h.ow c' i d

/-- what call `c` can observe of the kernel -/
structure Agree (c : Nat) (k k' : Kernel) : Prop where
  file : k.file = k'.file
  fd : ∀ r, k.fdt (resolve c r) = k'.fdt (resolve c r)
  off : ∀ j, k.off (.priv c j) = k'.off (.priv c j)

theorem Agree.rfl' (c : Nat) (k : Kernel) : Agree c k k := ⟨rfl, fun _ => rfl, fun _ => rfl⟩

theorem Agree.trans {c : Nat} {k1 k2 k3 : Kernel} (a : Agree c k1 k2) (b : Agree c k2 k3) : Agree c k1 k3 :=
  ⟨a.file.trans b.file, fun r => (a.fd r).trans (b.fd r), fun j => (a.off j).trans (b.off j)⟩

theorem resolve_ne {c c' : Nat} (hne : c' ≠ c) (r : Ref) (i : Nat) :
    resolve c r ≠ .alias c' i ∧ resolve c r ≠ .own c' i := by
  cases r <;> simp [resolve] <;> intro h <;> exact absurd h.symm hne

/-- an isolated syscall of another call leaves `c`'s view unchanged -/
theorem sys_other {k : Kernel} (h : KInv k) {c c' : Nat} (hne : c' ≠ c) (l : Local) (s : Sys)
    (hs : sysIsolated s = true) : Agree c (sys c' k l s).1 k := by
  have hpriv : ∀ j j', Desc.priv c j ≠ Desc.priv c' j' := by
    intro j j' he; cases he; exact hne rfl
  cases s with
  | dup r =>
    cases r <;>
    · simp only [sys]
      refine ⟨rfl, fun r' => ?_, fun _ => rfl⟩
      simp only [Kernel.setFd]
      split
      · rename_i heq
        first
          | exact absurd heq (resolve_ne hne r' _).1
          | exact absurd heq (resolve_ne hne r' _).2
      · rfl
  | openNew =>
    simp only [sys]
    refine ⟨rfl, fun r' => ?_, fun j => ?_⟩
    · simp only [Kernel.setFd, Kernel.setOff]
      split
      · rename_i heq; exact absurd heq (resolve_ne hne r' _).2
      · rfl
    · simp only [Kernel.setFd, Kernel.setOff]
      split
      · rename_i heq; exact absurd heq (hpriv _ _)
      · rfl
  | lseek r o =>
    cases r with
    | shared => simp [sysIsolated] at hs
    | alias a => simp [sysIsolated] at hs
    | own a =>
      simp only [sys]
      split
      · exact Agree.rfl' c k
      · rename_i d hd
        obtain ⟨j', rfl⟩ := h.ow c' a d hd
        refine ⟨rfl, fun _ => rfl, fun j => ?_⟩
        simp only [Kernel.setOff]
        split
        · rename_i heq; exact absurd heq (hpriv _ _)
        · rfl
  | read r n =>
    cases r with
    | shared => simp [sysIsolated] at hs
    | alias a => simp [sysIsolated] at hs
    | own a =>
      simp only [sys]
      split
      · exact Agree.rfl' c k
      · rename_i d hd
        obtain ⟨j', rfl⟩ := h.ow c' a d hd
        refine ⟨rfl, fun _ => rfl, fun j => ?_⟩
        simp only [Kernel.setOff]
        split
        · rename_i heq; exact absurd heq (hpriv _ _)
        · rfl
  | pread r o n =>
    simp only [sys]
    split <;> exact Agree.rfl' c k
  | close r =>
    cases r with
    | shared => simp [sysIsolated] at hs
    | alias a =>
      simp only [sys, VtModel.FileOffset.resolve]
      refine ⟨rfl, fun r' => ?_, fun _ => rfl⟩
      simp only [Kernel.setFd]
      split
      · rename_i heq; exact absurd heq (resolve_ne hne r' _).1
      · rfl
    | own a =>
      simp only [sys, VtModel.FileOffset.resolve]
      refine ⟨rfl, fun r' => ?_, fun _ => rfl⟩
      simp only [Kernel.setFd]
      split
      · rename_i heq; exact absurd heq (resolve_ne hne r' _).2
      · rfl

/-- an isolated syscall of `c` itself depends only on `c`'s view, and keeps the views equal -/
theorem sys_same {k k' : Kernel} (h : KInv k) {c : Nat} (a : Agree c k k') (l : Local) (s : Sys)
    (hs : sysIsolated s = true) :
    (sys c k l s).2 = (sys c k' l s).2 ∧ Agree c (sys c k l s).1 (sys c k' l s).1 := by
  cases s with
  | dup r =>
    have hfd := a.fd r
    cases r <;>
    · simp only [sys]
      refine ⟨by trivial, a.file, fun r' => ?_, a.off⟩
      simp only [Kernel.setFd]
      split
      · exact hfd
      · exact a.fd r'
  | openNew =>
    simp only [sys]
    refine ⟨by trivial, a.file, fun r' => ?_, fun j => ?_⟩
    · simp only [Kernel.setFd, Kernel.setOff]
      split
      · rfl
      · exact a.fd r'
    · simp only [Kernel.setFd, Kernel.setOff]
      split
      · rfl
      · exact a.off j
  | lseek r o =>
    cases r with
    | shared => simp [sysIsolated] at hs
    | alias i => simp [sysIsolated] at hs
    | own i =>
      have hfd := a.fd (.own i)
      simp only [sys]
      cases hd : k.fdt (resolve c (.own i)) with
      | none =>
        rw [hd] at hfd; rw [← hfd]
        exact ⟨by trivial, a⟩
      | some d =>
        rw [hd] at hfd; rw [← hfd]
        refine ⟨by trivial, a.file, a.fd, fun j => ?_⟩
        simp only [Kernel.setOff]
        split
        · rfl
        · exact a.off j
  | read r n =>
    cases r with
    | shared => simp [sysIsolated] at hs
    | alias i => simp [sysIsolated] at hs
    | own i =>
      have hfd := a.fd (.own i)
      simp only [sys]
      cases hd : k.fdt (resolve c (.own i)) with
      | none =>
        rw [hd] at hfd; rw [← hfd]
        exact ⟨by trivial, a⟩
      | some d =>
        rw [hd] at hfd; rw [← hfd]
        obtain ⟨j', rfl⟩ := h.ow c i d hd
        have ho := a.off j'
        simp only [ho, a.file]
        refine ⟨by trivial, a.file, a.fd, fun j => ?_⟩
        simp only [Kernel.setOff]
        split
        · rfl
        · exact a.off j
  | pread r o n =>
    have hfd := a.fd r
    simp only [sys]
    cases hd : k.fdt (resolve c r) with
    | none => rw [hd] at hfd; rw [← hfd]; exact ⟨by trivial, a⟩
    | some d => rw [hd] at hfd; rw [← hfd]; simp only [a.file]; exact ⟨by trivial, a⟩
  | close r =>
    simp only [sys]
    refine ⟨by trivial, a.file, fun r' => ?_, a.off⟩
    simp only [Kernel.setFd]
    split
    · rfl
    · exact a.fd r'

end VtModel.FileOffset
