/-! Shared basics of the model library. -/
namespace VtModel

/-- Result of a Rust operation that can return `Err` or panic (dev profile: overflow, index,
    `unwrap`, `assert!` are panics). -/
inductive Outcome (α : Type) where
  | ok (a : α)
  | err
  | panic
deriving Repr, DecidableEq

namespace Outcome
def bind {α β} (o : Outcome α) (f : α → Outcome β) : Outcome β :=
  match o with
  | .ok a => f a
  | .err => .err
  | .panic => .panic
def map {α β} (f : α → β) (o : Outcome α) : Outcome β := o.bind (fun a => .ok (f a))
/-- `.unwrap()`: an error becomes a panic -/
def unwrap {α} : Outcome α → Outcome α
  | .err => .panic
  | o => o
instance : Monad Outcome where
  pure := .ok
  bind := bind
end Outcome

def U32 : Nat := 4294967296
def U64 : Nat := 18446744073709551616

/-- parse a list of decimal tokens -/
def parseNats (l : List String) : Option (List Nat) := l.mapM (·.toNat?)

end VtModel
