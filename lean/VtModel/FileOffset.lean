/-
Model of the part of the operating system that `DataReaderFile::read_range`
(`versatiles_core/src/io/data_reader_file.rs`) relies on: one regular file, descriptors,
open-file-descriptions and their offsets.

* A *description* carries the file offset.  `dup` (what `File::try_clone` does:
  `fcntl(fd, F_DUPFD_CLOEXEC)`) creates a new descriptor for the SAME description, so the
  offset is shared; `open` creates a new description.
* `lseek` sets, `read n` uses and advances the offset of the description; `pread off n` does
  not touch it.
* Each `read_range` call is a *program* (list of atomic syscalls).  An execution of several
  concurrent calls is an interleaving of their programs, given by a *schedule* (the list of
  caller ids in the order in which they perform their next syscall).

Descriptor names are structured instead of being small integers: `Fd.shared` is the descriptor
owned by the `DataReaderFile`; `Fd.alias c k` is the k-th descriptor that call `c` obtained by
duplicating the shared one (or an alias of it); `Fd.own c k` is the k-th descriptor of call `c`
on a description the call created itself.  This encodes two facts about the real system that
the model does not try to derive: the kernel hands out descriptors that are not in use, and a
Rust `File` value is owned by the call that created it (no other call can name it).
Programs use call-relative references (`Ref`); `normalise` turns an observed `strace` program
with concrete descriptor numbers into this form.

Code after the repair (commit c8a06a9f): `read_range` = `[pread shared off n]`
(`FileExt::read_exact_at`).  Before: `[dup shared, lseek (alias 0) off, read (alias 0) n,
close (alias 0)]` (`try_clone`, `seek`, `read_exact`, drop).
`ValueReaderFile` (`io/value_reader_file.rs`) owns its `File` inside a `BufReader` and every
read method takes `&mut self`, i.e. it is an `own` description of a single caller.
-/
namespace VtModel.FileOffset

abbrev Bytes := List Nat

/-- call-relative descriptor reference -/
inductive Ref where
  | shared
  | alias (k : Nat)
  | own (k : Nat)
deriving DecidableEq, Repr

inductive Sys where
  | dup (r : Ref)
  | openNew
  | lseek (r : Ref) (off : Nat)
  | read (r : Ref) (n : Nat)
  | pread (r : Ref) (off n : Nat)
  | close (r : Ref)
deriving DecidableEq, Repr

inductive Fd where
  | shared
  | alias (c k : Nat)
  | own (c k : Nat)
deriving DecidableEq, Repr

inductive Desc where
  | shared
  | priv (c k : Nat)
deriving DecidableEq, Repr

structure Kernel where
  file : Bytes
  fdt : Fd → Option Desc      -- descriptor table (`none` = not open)
  off : Desc → Nat            -- offset of each open-file-description

def Kernel.setFd (k : Kernel) (fd : Fd) (d : Option Desc) : Kernel :=
  { k with fdt := fun x => if x = fd then d else k.fdt x }

def Kernel.setOff (k : Kernel) (d : Desc) (o : Nat) : Kernel :=
  { k with off := fun x => if x = d then o else k.off x }

/-- per-call bookkeeping: how many descriptors / descriptions it created, what its reads returned
    (`none` = the syscall failed with EBADF) -/
structure Local where
  nAlias : Nat
  nOwn : Nat
  nDesc : Nat
  out : List (Option Bytes)
deriving DecidableEq, Repr

def resolve (c : Nat) : Ref → Fd
  | .shared => .shared
  | .alias k => .alias c k
  | .own k => .own c k

/-- one atomic syscall of call `c` -/
def sys (c : Nat) (k : Kernel) (l : Local) : Sys → Kernel × Local
  | .dup r =>
    let d := k.fdt (resolve c r)      -- `none`: EBADF, the new reference stays unmapped
    match r with
    | .own _ => (k.setFd (.own c l.nOwn) d, { l with nOwn := l.nOwn + 1 })
    | _ => (k.setFd (.alias c l.nAlias) d, { l with nAlias := l.nAlias + 1 })
  | .openNew =>
    let d := Desc.priv c l.nDesc
    ((k.setOff d 0).setFd (.own c l.nOwn) (some d), { l with nOwn := l.nOwn + 1, nDesc := l.nDesc + 1 })
  | .lseek r o =>
    match k.fdt (resolve c r) with
    | none => (k, l)
    | some d => (k.setOff d o, l)
  | .read r n =>
    match k.fdt (resolve c r) with
    | none => (k, { l with out := l.out ++ [none] })
    | some d =>
      let b := (k.file.drop (k.off d)).take n
      (k.setOff d (k.off d + b.length), { l with out := l.out ++ [some b] })
  | .pread r o n =>
    match k.fdt (resolve c r) with
    | none => (k, { l with out := l.out ++ [none] })
    | some _ => (k, { l with out := l.out ++ [some ((k.file.drop o).take n)] })
  | .close r => (k.setFd (resolve c r) none, l)

structure State where
  k : Kernel
  prog : Nat → List Sys     -- remaining program of every call
  loc : Nat → Local

/-- call `c` performs its next syscall (nothing happens if its program is finished) -/
def step (c : Nat) (σ : State) : State :=
  match σ.prog c with
  | [] => σ
  | s :: rest =>
    let r := sys c σ.k (σ.loc c) s
    { k := r.1
      prog := fun x => if x = c then rest else σ.prog x
      loc := fun x => if x = c then r.2 else σ.loc x }

def exec (σ : State) (sched : List Nat) : State := sched.foldl (fun σ c => step c σ) σ

def local0 : Local := { nAlias := 0, nOwn := 0, nDesc := 0, out := [] }

def kernel0 (file : Bytes) : Kernel :=
  { file := file, fdt := fun fd => if fd = .shared then some .shared else none, off := fun _ => 0 }

/-- the reader is open, nobody has started; call `c` will run `progs[c]` (calls beyond the list
    have the empty program) -/
def init (file : Bytes) (progs : List (List Sys)) : State :=
  { k := kernel0 file, prog := fun c => progs.getD c [], loc := fun _ => local0 }

/-- **isolation**: the program never moves or uses an offset that another call can reach
    (`lseek`/`read` only on descriptions it created itself) and never closes the reader's
    descriptor. -/
def sysIsolated : Sys → Bool
  | .lseek (.own _) _ => true
  | .lseek _ _ => false
  | .read (.own _) _ => true
  | .read _ _ => false
  | .close .shared => false
  | _ => true

def isolated (p : List Sys) : Bool := p.all sysIsolated

/-- what call `c` returns when it runs alone, before anybody else has done anything -/
def sequentialOut (file : Bytes) (progs : List (List Sys)) (c : Nat) : List (Option Bytes) :=
  ((exec (init file progs) (List.replicate (progs.getD c []).length c)).loc c).out

/-- the programs of the two versions of `read_range` -/
def progPread (off n : Nat) : List Sys := [.pread .shared off n]
def progDupSeekRead (off n : Nat) : List Sys :=
  [.dup .shared, .lseek (.alias 0) off, .read (.alias 0) n, .close (.alias 0)]

/-- `read_range(off, n)` as a syscall program on a file of `len` bytes (code after commits
    c8a06a9f and 7ce9b171): the range is validated first against the size recorded at open (and,
    if it does not fit, against a fresh `fstat`, which touches no offset and is not modelled as a
    step) – a range that is not inside the file is an error before any read; then
    `read_exact_at`, a loop `while !buf.is_empty() { pread(rest, pos) }`: no syscall for `n = 0`,
    one `pread` for a range inside a regular file. -/
def progReadRange (len off n : Nat) : List Sys :=
  if n = 0 ∨ len < off + n then [] else [.pread .shared off n]

/-- what `read_exact(_at)` makes of the chunks the syscalls returned: their concatenation;
    `none` (an `Err`) if a syscall failed or returned no bytes (end of file). -/
def readExactResult : List (Option Bytes) → Option Bytes
  | [] => some []
  | none :: _ => none
  | some [] :: _ => none
  | some b :: rest => (readExactResult rest).map (b ++ ·)

/-- result of `read_range(off, n)`: the range check, then `read_exact_at` on the syscall outputs -/
def readRangeResult (len off n : Nat) (o : List (Option Bytes)) : Option Bytes :=
  if off + n ≤ len then readExactResult o else none

/-- the schedule in which call 0 returns call 1's bytes when both run `progDupSeekRead` -/
def raceSchedule : List Nat := [0, 0, 1, 1, 0, 0, 1, 1]

/-! ### observed programs (strace) → call-relative form

A raw syscall names concrete descriptor numbers.  `sfd` is the reader's descriptor.  Classes are
propagated: a `dup` of the reader's descriptor or of an alias is an alias, `open` gives an own
descriptor, a `dup` of an own descriptor is own.  Unknown descriptors make the program
un-normalisable (`none`). -/

inductive Raw where
  | dup (fd new : Nat)
  | openNew (new : Nat)
  | lseek (fd off : Nat)
  | read (fd n : Nat)
  | pread (fd n off : Nat)
  | close (fd : Nat)
deriving Repr

structure NEnv where
  sfd : Nat
  map : List (Nat × Ref)     -- open descriptors of this call
  nAlias : Nat
  nOwn : Nat

def NEnv.find (e : NEnv) (fd : Nat) : Option Ref :=
  if fd = e.sfd then some .shared else (e.map.find? (fun p => p.1 == fd)).map (·.2)

def normStep (e : NEnv) : Raw → Option (NEnv × Sys)
  | .dup fd new => do
    let r ← e.find fd
    match r with
    | .own _ => pure ({ e with map := (new, .own e.nOwn) :: e.map, nOwn := e.nOwn + 1 }, .dup r)
    | _ => pure ({ e with map := (new, .alias e.nAlias) :: e.map, nAlias := e.nAlias + 1 }, .dup r)
  | .openNew new => pure ({ e with map := (new, .own e.nOwn) :: e.map, nOwn := e.nOwn + 1 }, .openNew)
  | .lseek fd o => do let r ← e.find fd; pure (e, .lseek r o)
  | .read fd n => do let r ← e.find fd; pure (e, .read r n)
  | .pread fd n o => do let r ← e.find fd; pure (e, .pread r o n)
  | .close fd => do
    let r ← e.find fd
    pure ({ e with map := e.map.filter (fun p => p.1 != fd) }, .close r)

def normalise (sfd : Nat) (raw : List Raw) : Option (List Sys) :=
  let rec go (e : NEnv) : List Raw → Option (List Sys)
    | [] => some []
    | r :: rs => do
      let (e', s) ← normStep e r
      let rest ← go e' rs
      pure (s :: rest)
  go { sfd := sfd, map := [], nAlias := 0, nOwn := 0 } raw

/-! ### line protocol

File contents are position dependent: byte `p` is `patByte p` (the harness writes the same
pattern), so a wrong byte identifies the position it came from.

* `C13 iso <sfd> <len> <raw,…> <off> <n>` – the program observed (strace) for one
  `read_range(off, n)` call (`d:fd:new`, `o:new`, `l:fd:off`, `r:fd:n`, `p:fd:n:off`, `c:fd`).
  Answer: `<normalised> iso=<b> modelled=<is it progReadRange len off n?> out=<result of running
  it alone, as read_exact sees it>`.
* `C13 sched <len> <prog;prog;…> <c,c,…>` – programs in reference form (`d.s`, `d.a0`, `d.o0`,
  `o`, `l.<ref>.<off>`, `r.<ref>.<n>`, `p.<ref>.<off>.<n>`, `c.<ref>`), a schedule.
  Answer: per call `iso=<b>:<out>` joined by `;`, then `|seq=<b>` (does every call return what it
  returns alone?). -/

def patByte (p : Nat) : Nat := (p * 31 + p / 256 * 7 + p / 65536 * 13 + 5) % 256

def patFile (len : Nat) : Bytes := (List.range len).map patByte

def hexDigit (n : Nat) : Char := if n < 10 then Char.ofNat (48 + n) else Char.ofNat (87 + n)

def hexBytes (b : Bytes) : String :=
  if b.isEmpty then "-" else String.ofList (b.flatMap (fun x => [hexDigit (x / 16 % 16), hexDigit (x % 16)]))

def showOut (o : List (Option Bytes)) : String :=
  if o.isEmpty then "none" else
  "+".intercalate (o.map (fun | none => "ebadf" | some b => hexBytes b))

def showRef : Ref → String
  | .shared => "s"
  | .alias k => s!"a{k}"
  | .own k => s!"o{k}"

def showSys : Sys → String
  | .dup r => s!"d.{showRef r}"
  | .openNew => "o"
  | .lseek r o => s!"l.{showRef r}.{o}"
  | .read r n => s!"r.{showRef r}.{n}"
  | .pread r o n => s!"p.{showRef r}.{o}.{n}"
  | .close r => s!"c.{showRef r}"

def showProg (p : List Sys) : String :=
  if p.isEmpty then "-" else ",".intercalate (p.map showSys)

def parseRef (s : String) : Option Ref :=
  match s.toList with
  | ['s'] => some .shared
  | 'a' :: ds => (String.ofList ds).toNat?.map .alias
  | 'o' :: ds => (String.ofList ds).toNat?.map .own
  | _ => none

def parseSys (s : String) : Option Sys :=
  match s.splitOn "." with
  | ["d", r] => do let r ← parseRef r; pure (.dup r)
  | ["o"] => some .openNew
  | ["l", r, o] => do let r ← parseRef r; let o ← o.toNat?; pure (.lseek r o)
  | ["r", r, n] => do let r ← parseRef r; let n ← n.toNat?; pure (.read r n)
  | ["p", r, o, n] => do let r ← parseRef r; let o ← o.toNat?; let n ← n.toNat?; pure (.pread r o n)
  | ["c", r] => do let r ← parseRef r; pure (.close r)
  | _ => none

def parseProg (s : String) : Option (List Sys) :=
  if s == "-" then some [] else (s.splitOn ",").mapM parseSys

def parseRaw (s : String) : Option Raw :=
  match s.splitOn ":" with
  | ["d", a, b] => do let a ← a.toNat?; let b ← b.toNat?; pure (.dup a b)
  | ["o", a] => do let a ← a.toNat?; pure (.openNew a)
  | ["l", a, b] => do let a ← a.toNat?; let b ← b.toNat?; pure (.lseek a b)
  | ["r", a, b] => do let a ← a.toNat?; let b ← b.toNat?; pure (.read a b)
  | ["p", a, b, c] => do let a ← a.toNat?; let b ← b.toNat?; let c ← c.toNat?; pure (.pread a b c)
  | ["c", a] => do let a ← a.toNat?; pure (.close a)
  | _ => none

def handle (args : List String) : String :=
  match args with
  | ["iso", sfd, len, raw, off, n] =>
    match sfd.toNat?, len.toNat?, (if raw == "-" then some [] else (raw.splitOn ",").mapM parseRaw),
          off.toNat?, n.toNat? with
    | some sfd, some len, some raw, some off, some n =>
      match normalise sfd raw with
      | none => "unnormalisable"
      | some p =>
        let res := match readRangeResult len off n (sequentialOut (patFile len) [p] 0) with
          | none => "err"
          | some b => hexBytes b
        s!"{showProg p} iso={isolated p} modelled={p == progReadRange len off n} out={res}"
    | _, _, _, _, _ => "bad-op"
  | ["sched", len, progs, sched] =>
    match len.toNat?, (progs.splitOn ";").mapM parseProg,
          (if sched == "-" then some [] else (sched.splitOn ",").mapM (·.toNat?)) with
    | some len, some progs, some sched =>
      let file := patFile len
      let σ := exec (init file progs) sched
      let idx := List.range progs.length
      let outs := idx.map (fun c => s!"iso={isolated (progs.getD c [])}:{showOut (σ.loc c).out}")
      let seq := idx.all (fun c => (σ.loc c).out == sequentialOut file progs c)
      ";".intercalate outs ++ s!"|seq={seq}"
    | _, _, _ => "bad-op"
  | _ => "bad-op"

end VtModel.FileOffset
