import VtModel.Versatiles
import VtModel.PMTiles
import VtModel.TarDir
import VtModel.MBTiles
import VtModel.Hilbert
import VtModel.Getters
/-!
Dispatcher of the container-format streams (C16 / C01), see `harness/src/formats_protocol.txt`.
-/
namespace VtModel.Formats

def streams : List String :=
  ["VTH", "VBD", "VTI", "VBI", "C16v", "C01v", "PMH", "PMD", "PMF", "PMS", "C16p", "C01p", "HIL",
   "NAM", "C16t", "C16d", "C01t", "C01d", "C16m", "C01m", "GTR", "GTW"]

def handle (stream : String) (args : List String) : String :=
  match stream with
  | "VTH" | "VBD" | "VTI" | "VBI" | "C16v" | "C01v" => VtModel.Versatiles.handle stream args
  | "PMH" | "PMD" | "PMF" | "PMS" | "C16p" | "C01p" => VtModel.PMTiles.handle stream args
  | "HIL" => VtModel.Hilbert.handle args
  | "NAM" | "C16t" | "C16d" | "C01t" | "C01d" => VtModel.TarDir.handle stream args
  | "C16m" | "C01m" => VtModel.MBTiles.handle stream args
  | "GTR" | "GTW" => VtModel.Getters.handle stream args
  | _ => "bad-stream"

end VtModel.Formats
