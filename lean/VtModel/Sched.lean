/-
Model of the parallel stream operators of `versatiles_core/src/types/tile_stream.rs` (property C14):

* `map_blob_parallel`        (368-382)   `tokio::spawn(async move { (coord, cb(blob)) })`
* `filter_map_blob_parallel` (410-427)      … `.buffer_unordered(num_cpus::get())`
* `from_coord_iter_parallel` (108-127)   `tokio::spawn(async move { (coord, c(coord)) })`
* `for_each_buffered`        (323-339)

An item is `(coord, arg)` (`arg` = the blob, or the coordinate itself for `from_coord_iter_parallel`);
the spawned task computes `(coord, f arg)` – the coordinate travels with the task.  The unordered
buffer is a small-step transition system: `start` moves the next pending item into the window
(at most `n` tasks in flight), `finish i` takes *any* in-flight task out and emits its result
(dropped when `f` returned `none`).  The scheduler (tokio, thread timing) is the nondeterminism of
`finish`.
-/
namespace VtModel.Sched

abbrev Item := Nat × Nat
abbrev Task := Nat × Option Nat

structure St where
  pending : List Item
  inflight : List Task
  out : List (Nat × Nat)
deriving Repr, DecidableEq

def St.init (xs : List Item) : St := ⟨xs, [], []⟩

def St.terminal (s : St) : Prop := s.pending = [] ∧ s.inflight = []

/-- what a finished task hands downstream (`filter_map`: nothing for `none`) -/
def emit : Task → List (Nat × Nat)
  | (c, some r) => [(c, r)]
  | (_, none) => []

/-- the result the property demands for one input item -/
def expect1 (f : Nat → Option Nat) (x : Item) : Option (Nat × Nat) := (f x.2).map (fun r => (x.1, r))

inductive Step (f : Nat → Option Nat) (n : Nat) : St → St → Prop where
  | start (c a : Nat) (rest : List Item) (infl : List Task) (out : List (Nat × Nat)) :
      infl.length < n → Step f n ⟨(c, a) :: rest, infl, out⟩ ⟨rest, infl ++ [(c, f a)], out⟩
  | finish (pend : List Item) (infl : List Task) (out : List (Nat × Nat)) (i : Nat) (h : i < infl.length) :
      Step f n ⟨pend, infl, out⟩ ⟨pend, infl.eraseIdx i, out ++ emit infl[i]⟩

inductive Reach (f : Nat → Option Nat) (n : Nat) : St → St → Prop where
  | refl (s : St) : Reach f n s s
  | step {s t u : St} : Reach f n s t → Step f n t u → Reach f n s u

/-- termination measure: every step decreases it -/
def St.measure (s : St) : Nat := 2 * s.pending.length + s.inflight.length

/-! ### callbacks that may panic

`tokio::spawn` turns a panicking callback into a `JoinError`; all three operators `expect` it
(`from_coord_iter_parallel` since 17fee433), i.e. the panic reaches the consumer and the stream ends
there.  A task result is `none` (panicked) or `some (f arg)`. -/

abbrev PTask := Nat × Option (Option Nat)

structure PSt where
  pending : List Item
  inflight : List PTask
  out : List (Nat × Nat)
  failed : Bool
deriving Repr, DecidableEq

def PSt.init (xs : List Item) : PSt := ⟨xs, [], [], false⟩
def PSt.terminal (s : PSt) : Prop := s.pending = [] ∧ s.inflight = []

def pemit : PTask → List (Nat × Nat)
  | (c, some (some r)) => [(c, r)]
  | _ => []

def pexpect1 (f : Nat → Option (Option Nat)) (x : Item) : Option (Nat × Nat) :=
  match f x.2 with
  | some (some r) => some (x.1, r)
  | _ => none

def isPanic (t : PTask) : Bool := t.2.isNone

inductive PStep (f : Nat → Option (Option Nat)) (n : Nat) : PSt → PSt → Prop where
  | start (c a : Nat) (rest : List Item) (infl : List PTask) (out : List (Nat × Nat)) :
      infl.length < n → PStep f n ⟨(c, a) :: rest, infl, out, false⟩ ⟨rest, infl ++ [(c, f a)], out, false⟩
  | finish (pend : List Item) (infl : List PTask) (out : List (Nat × Nat)) (i : Nat) (h : i < infl.length) :
      PStep f n ⟨pend, infl, out, false⟩
        ⟨pend, infl.eraseIdx i, out ++ pemit infl[i], isPanic infl[i]⟩

inductive PReach (f : Nat → Option (Option Nat)) (n : Nat) : PSt → PSt → Prop where
  | refl (s : PSt) : PReach f n s s
  | step {s t u : PSt} : PReach f n s t → PStep f n t u → PReach f n s u

/-! ### executable scheduler driven by a list of choices (ids of the items that complete) -/

structure XSt where
  st : St
  ids : List Nat      -- original indices of `st.inflight`, same order
  next : Nat          -- original index of the first pending item
deriving Repr

/-- `BufferUnordered::poll_next` first fills the window from the upstream, in input order -/
def fill (f : Nat → Option Nat) (n : Nat) : List Item → List Task → List Nat → Nat → List (Nat × Nat) → XSt
  | [], infl, ids, nx, out => ⟨⟨[], infl, out⟩, ids, nx⟩
  | (c, a) :: rest, infl, ids, nx, out =>
    if infl.length < n then fill f n rest (infl ++ [(c, f a)]) (ids ++ [nx]) (nx + 1) out
    else ⟨⟨(c, a) :: rest, infl, out⟩, ids, nx⟩

def XSt.fill (f : Nat → Option Nat) (n : Nat) (x : XSt) : XSt :=
  Sched.fill f n x.st.pending x.st.inflight x.ids x.next x.st.out

/-- the task of item `id` completes; `none` if it is not in flight -/
def XSt.finishId (x : XSt) (id : Nat) : Option XSt :=
  let i := x.ids.idxOf id
  if h : i < x.st.inflight.length then
    some ⟨⟨x.st.pending, x.st.inflight.eraseIdx i, x.st.out ++ emit x.st.inflight[i]⟩, x.ids.eraseIdx i, x.next⟩
  else none

def runChoices (f : Nat → Option Nat) (n : Nat) (x : XSt) : List Nat → Option XSt
  | [] => some (x.fill f n)
  | c :: cs =>
    match (x.fill f n).finishId c with
    | none => none
    | some x' => runChoices f n x' cs

def XSt.init (xs : List Item) : XSt := ⟨St.init xs, [], 0⟩

/-! ### `for_each_buffered` -/

/-- the loop of `for_each_buffered`: push, hand the buffer over when `len ≥ buffer_size`;
    a non-empty rest at the end -/
def chunksAux {α : Type} (k : Nat) : List α → List α → List (List α)
  | buf, [] => if buf = [] then [] else [buf]
  | buf, x :: xs =>
    if (buf ++ [x]).length ≥ k then (buf ++ [x]) :: chunksAux k [] xs
    else chunksAux k (buf ++ [x]) xs

def chunks {α : Type} (k : Nat) (xs : List α) : List (List α) := chunksAux k [] xs

/-! ### line protocol
`C14 <op> <n> <k> <items> <choices>`; `op` ∈ map | fmap | coord; `n` window; `k` chunk size of the
buffered consumer (`c` = the consumer is `collect()`); items `c:a,…`; choices = item indices in completion order.
answer: `<out sequence>;<chunks separated by |>`  -/

/-- result codes (the harness maps them to blobs): `0` = empty blob, `1 + x` = the one-byte blob `[x]`,
    `1000 + v` = decimal text of `v`, `10^12 + a` = a large blob derived from `a` -/
def resultOf (kind a : Nat) : Nat :=
  match kind with
  | 0 => 0
  | 1 => 1 + a % 256
  | 2 => 1000 + (2 * a + 11)
  | _ => 1000000000000 + a

/-- the callback family of the harness: per item (by its argument) `None` / `Some(empty)` /
    `Some(1 byte)` / `Some(transformed)` / `Some(large)`; `map` is total. -/
def fOf (op : String) : Nat → Option Nat :=
  if op == "map" then fun a => some (resultOf (a % 4) a)
  else fun a => if a % 5 = 0 then none else some (resultOf (a % 5 - 1) a)

def parseItem (s : String) : Option Item :=
  match s.splitOn ":" with
  | [c, a] => do let c ← c.toNat?; let a ← a.toNat?; pure (c, a)
  | _ => none

def showSeq (l : List (Nat × Nat)) : String :=
  if l.isEmpty then "-" else ",".intercalate (l.map (fun p => s!"{p.1}:{p.2}"))

def handle (args : List String) : String :=
  match args with
  | [op, n, k, items, choices] =>
    let its := if items == "-" then some [] else (items.splitOn ",").mapM parseItem
    let chs := if choices == "-" then some [] else (choices.splitOn ",").mapM (·.toNat?)
    let kk : Option (Option Nat) := if k == "c" then some none else k.toNat?.map some
    match n.toNat?, kk, its, chs with
    | some n, some k, some its, some chs =>
      match runChoices (fOf op) n (XSt.init its) chs with
      | none => "bad-choice"
      | some x =>
        if x.st.pending.isEmpty && x.st.inflight.isEmpty then
          match k with
          | none => showSeq x.st.out ++ ";*"          -- consumer is `collect()`
          | some k =>
            let cs := chunks k x.st.out
            showSeq x.st.out ++ ";" ++ (if cs.isEmpty then "-" else "|".intercalate (cs.map showSeq))
        else "incomplete"
    | _, _, _, _ => "bad-op"
  | _ => "bad-op"

/-! ### the sequential combinators (tile_stream.rs): plain list functions, order preserved

* `from_vec`, `from_stream`, `collect`, `next`, `for_each_sync`, `for_each_async`: the stream *is* the list
* `from_coord_vec_async` (153-160): `stream::iter(vec).filter_map(callback)`
* `from_stream_iter` (184-192): `.then(..).flatten()`
* `map_coord` (454-460), `drain_and_count` (481-489) -/

def seqFilterMap (g : Nat → Option (Nat × Nat)) (cs : List Nat) : List (Nat × Nat) := cs.filterMap g
def flattenStreams (xss : List (List (Nat × Nat))) : List (Nat × Nat) := xss.flatten
def mapCoord (g : Nat → Nat) (xs : List (Nat × Nat)) : List (Nat × Nat) := xs.map (fun p => (g p.1, p.2))
def drainCount (xs : List (Nat × Nat)) : Nat := xs.length

/-- the concrete callbacks of the harness for stream `C14s` -/
def gVec (c : Nat) : Option (Nat × Nat) := if c % 3 = 0 then none else some (c + 1, 2 * c)
def gCoord (c : Nat) : Nat := c + 3

def parseItems (s : String) : Option (List Item) :=
  if s == "-" then some [] else (s.splitOn ",").mapM parseItem

/-- `C14s <combinator> <items>`; for `flatten` the streams are separated by `|` -/
def handleS (args : List String) : String :=
  match args with
  | ["mapcoord", items] => (parseItems items).elim "bad-op" (fun l => showSeq (mapCoord gCoord l))
  | ["vecasync", items] => (parseItems items).elim "bad-op" (fun l => showSeq (seqFilterMap gVec (l.map (·.1))))
  | ["flatten", groups] =>
    ((groups.splitOn "|").mapM parseItems).elim "bad-op" (fun l => showSeq (flattenStreams l))
  | ["buffered", k, items] =>
    match k.toNat?, parseItems items with
    | some k, some l =>
      let cs := chunks k l
      if cs.isEmpty then "-" else "|".intercalate (cs.map showSeq)
    | _, _ => "bad-op"
  | ["count", items] => (parseItems items).elim "bad-op" (fun l => toString (drainCount l))
  | [_, items] => (parseItems items).elim "bad-op" showSeq     -- collect / next / sync / async: identity
  | _ => "bad-op"

end VtModel.Sched
