import VtModel.FmtBytes
/-
Model for C12 (interrupted writes).

* A file is a byte list; `writeAt` is a positional write that zero-fills a gap beyond the end
  (what a regular file – and `Cursor<Vec<u8>>` – does).
* A writer run is a list of `DataWriterTrait` operations (`versatiles_core/src/io/data_writer.rs`):
  `append blob` (write at the current position, advance), `write_start blob` (write at offset 0,
  position unchanged), `set_position p`.  `get_position` has no effect and is not recorded.
* Crash state `(i, k)`: operations `0 … i-1` are complete and the first `k` bytes of operation `i`'s
  blob have reached the file (`k = 0`: nothing of it, not even the zero fill).
* `opsV` / `opsP` are the operation sequences of `VersaTilesWriter::write_to_writer`
  (`container/versatiles/writer.rs:43-80`) and `PMTilesWriter::write_to_writer`
  (`container/pmtiles/writer.rs:70-111`), parameterised by the blobs they append (so the
  theorems hold for every tile set, every metadata and every compression).
* `openV` / `openP` are the *open verdicts* of `VersaTilesReader::open_reader`
  (`versatiles/reader.rs:91-125`, `types/file_header.rs:118-170`) and `PMTilesReader::open_reader`
  (`pmtiles/reader.rs:82-116`, `types/header_v3.rs:119-152`) as far as they depend on the header
  fields and on the decompressor.  Parsing of the *inflated* index bytes happens after these
  steps and is not part of the verdict (covered by the correspondence).
* Decompression is a parameter `dec : Comp → Bytes → Option Bytes` (gzip/brotli crates); the
  theorems assume the laws "empty input is rejected" and "a strict prefix of a valid stream is
  rejected", which the harness tests on the real crates for the real index blobs.

Out of model: `BufWriter` / page-cache reordering below the trait level (the model assumes the
bytes of earlier operations are on disk before those of later ones).
-/
namespace VtModel.Crash
open VtModel.Fmt (Bytes beDec beEnc leDec leEnc)

def zeros (n : Nat) : Bytes := List.replicate n (0 : UInt8)

/-- positional write; a gap between the end of the file and `pos` is filled with zeros -/
def writeAt (file : Bytes) (pos : Nat) (b : Bytes) : Bytes :=
  let f := file ++ zeros (pos - file.length)
  f.take pos ++ b ++ f.drop (pos + b.length)

inductive Op where
  | append (b : Bytes)
  | writeStart (b : Bytes)
  | setPosition (p : Nat)
  | truncate            -- `File::create` on the target path: an existing file is emptied
deriving Repr, DecidableEq

structure W where
  file : Bytes
  pos : Nat
deriving Repr, DecidableEq

/-- the first `k` bytes of the operation's blob reach the file (`k ≥ size`: the whole operation).
    An operation that writes no byte does not touch the file. -/
def W.applyCut (w : W) (op : Op) (k : Nat) : W :=
  match op with
  | .append b =>
    if (b.take k).isEmpty then w
    else { file := writeAt w.file w.pos (b.take k), pos := w.pos + (b.take k).length }
  | .writeStart b =>
    if (b.take k).isEmpty then w else { w with file := writeAt w.file 0 (b.take k) }
  | .setPosition p => if k = 0 then w else { w with pos := p }
  | .truncate => if k = 0 then w else { file := [], pos := 0 }

def Op.size : Op → Nat
  | .append b => b.length
  | .writeStart b => b.length
  | .setPosition _ => 1
  | .truncate => 1

def W.apply (w : W) (op : Op) : W := w.applyCut op op.size

def W.empty : W := { file := [], pos := 0 }

def run (ops : List Op) : W := ops.foldl W.apply W.empty

/-- bytes on disk after a crash at `(i, k)`; `i ≥ length`: the completed file -/
def crash (ops : List Op) (i k : Nat) : Bytes :=
  match ops[i]? with
  | none => (run ops).file
  | some op => ((run (ops.take i)).applyCut op k).file

/-- the same when the target path already holds the bytes `old` (`DataWriterFile::from_path` on
    an existing file, `data_writer_file.rs:60-66`); the writer's first operation is then the
    truncation done by `File::create`. -/
def runOn (old : Bytes) (ops : List Op) : W := ops.foldl W.apply { file := old, pos := 0 }

def crashOn (old : Bytes) (ops : List Op) (i k : Nat) : Bytes :=
  match ops[i]? with
  | none => (runOn old ops).file
  | some op => (((ops.take i).foldl W.apply { file := old, pos := 0 }).applyCut op k).file

/-- the states after 0, 1, …, all operations (computed once per case by the driver; `crashWith`
    equals `crashOn`, see `VtProps.C12.crashWith_eq`) -/
def prefixStates (w : W) : List Op → List W
  | [] => [w]
  | op :: ops => w :: prefixStates (w.apply op) ops

def crashWith (states : List W) (ops : List Op) (i k : Nat) : Bytes :=
  match ops[i]?, states[i]? with
  | some op, some w => (w.applyCut op k).file
  | _, _ => ((states[ops.length]?).map (·.file)).getD []

/-! ### integers -/

-- `beDec`, `beEnc`, `leDec`, `leEnc`: `VtModel.Fmt` (shared with the container models)

/-- `read_range` of `DataReaderBlob` / `DataReaderFile`: an error when the range is not inside the file -/
def slice (file : Bytes) (off len : Nat) : Option Bytes :=
  if off + len ≤ file.length then some ((file.drop off).take len) else none

inductive Comp where
  | none
  | gzip
  | brotli
deriving Repr, DecidableEq

abbrev Dec := Comp → Bytes → Option Bytes

/-! ### versatiles -/

/-- "versatiles_v02" -/
def magicV : Bytes := [118, 101, 114, 115, 97, 116, 105, 108, 101, 115, 95, 118, 48, 50]

def fmtOkV (c : UInt8) : Bool :=
  c == 0x00 || c == 0x10 || c == 0x11 || c == 0x12 || c == 0x13 || c == 0x14 ||
  c == 0x20 || c == 0x21 || c == 0x22 || c == 0x23

def compOfCodeV : Nat → Option Comp
  | 0 => some .none
  | 1 => some .gzip
  | 2 => some .brotli
  | _ => none

structure OpenedV where
  comp : Comp
  metaOff : Nat
  metaLen : Nat
  blkOff : Nat
  blkLen : Nat
  index : Bytes        -- inflated block index
deriving Repr, DecidableEq

/-- the metadata step of `open_reader`: read and inflate only if `meta_range.length > 0` -/
def metaStepV (dec : Dec) (file : Bytes) (comp : Comp) (off len : Nat) : Option Unit :=
  if len > 0 then (slice file off len).bind (fun m => (dec comp m).map (fun _ => ()))
  else some ()

/-- the block-index step: `BlockIndex::from_brotli_blob(read_range(blocks_range))` -/
def indexStepV (dec : Dec) (file : Bytes) (off len : Nat) : Option Bytes :=
  (slice file off len).bind (dec .brotli)

/-- `VersaTilesReader::open_reader`: `none` = the open fails -/
def openV (dec : Dec) (file : Bytes) : Option OpenedV :=
  (slice file 0 66).bind fun h =>
  if h.take 14 ≠ magicV then none else
  if !fmtOkV ((h.drop 14).headD 0) then none else
  (compOfCodeV ((h.drop 15).headD 0).toNat).bind fun comp =>
  let metaOff := beDec ((h.drop 34).take 8)
  let metaLen := beDec ((h.drop 42).take 8)
  let blkOff := beDec ((h.drop 50).take 8)
  let blkLen := beDec ((h.drop 58).take 8)
  (metaStepV dec file comp metaOff metaLen).bind fun _ =>
  (indexStepV dec file blkOff blkLen).map fun idx =>
  { comp := comp, metaOff := metaOff, metaLen := metaLen, blkOff := blkOff, blkLen := blkLen, index := idx }

/-- the 66-byte header: 34 bytes that do not change between the provisional and the final header
    (magic, format, compression, zoom range, bbox), then the two ranges -/
def headerV (pre : Bytes) (metaOff metaLen blkOff blkLen : Nat) : Bytes :=
  pre ++ beEnc 8 metaOff ++ beEnc 8 metaLen ++ beEnc 8 blkOff ++ beEnc 8 blkLen

/-- operations of `VersaTilesWriter::write_to_writer`: provisional header, metadata, every tile
    blob / tile index of every block (`mid`, in the order they are appended), block index, final
    header at offset 0. -/
def opsV (pre metaC : Bytes) (mid : List Bytes) (idxC : Bytes) : List Op :=
  [.append (headerV pre 0 0 0 0), .append metaC] ++ mid.map .append ++
  [.append idxC,
   .writeStart (headerV pre 66 metaC.length (66 + metaC.length + mid.flatten.length) idxC.length)]

/-! ### pmtiles -/

/-- "PMTiles" -/
def magicP : Bytes := [80, 77, 84, 105, 108, 101, 115]

/-- `PMTilesCompression::from_u8` followed by `as_value` (Unknown and Zstd are errors) -/
def compOfCodeP : Nat → Option Comp
  | 1 => some .none
  | 2 => some .gzip
  | 3 => some .brotli
  | _ => none

structure OpenedP where
  icomp : Comp
  tcomp : Comp
  ttype : Nat
  rootOff : Nat
  rootLen : Nat
  leafOff : Nat
  leafLen : Nat
  dataOff : Nat
  root : Bytes         -- inflated root directory
deriving Repr, DecidableEq

/-- `PMTilesReader::open_reader` (header, compressions, metadata, root directory, leaves) -/
def openP (dec : Dec) (file : Bytes) : Option OpenedP :=
  (slice file 0 127).bind fun h =>
  if h.take 7 ≠ magicP then none else
  if (h.drop 7).headD 0 ≠ 3 then none else
  let rootOff := leDec ((h.drop 8).take 8)
  let rootLen := leDec ((h.drop 16).take 8)
  let metaOff := leDec ((h.drop 24).take 8)
  let metaLen := leDec ((h.drop 32).take 8)
  let leafOff := leDec ((h.drop 40).take 8)
  let leafLen := leDec ((h.drop 48).take 8)
  let dataOff := leDec ((h.drop 56).take 8)
  let ic := ((h.drop 97).headD 0).toNat
  let tc := ((h.drop 98).headD 0).toNat
  let tt := ((h.drop 99).headD 0).toNat
  if ic > 4 ∨ tc > 4 ∨ tt > 5 then none else            -- `from_u8` errors in `deserialize`
  (compOfCodeP ic).bind fun icomp =>
  (slice file metaOff metaLen).bind fun m =>
  (dec icomp m).bind fun _ =>
  (slice file rootOff rootLen).bind fun rc =>
  (dec icomp rc).bind fun root =>
  (slice file leafOff leafLen).bind fun _ =>
  (compOfCodeP tc).map fun tcomp =>
  { icomp := icomp, tcomp := tcomp, ttype := tt, rootOff := rootOff, rootLen := rootLen,
    leafOff := leafOff, leafLen := leafLen, dataOff := dataOff, root := root }

/-- operations of `PMTilesWriter::write_to_writer`: position 16384, metadata, tile blobs, position
    127, root directory, position at the end of the tile data, leaf directories, header at 0 -/
def opsP (metaC : Bytes) (tiles : List Bytes) (rootC leavesC hdr : Bytes) : List Op :=
  [.setPosition 16384, .append metaC] ++ tiles.map .append ++
  [.setPosition 127, .append rootC, .setPosition (16384 + metaC.length + tiles.flatten.length),
   .append leavesC, .writeStart hdr]

/-- what tile lookups of an opened pmtiles file depend on, besides the bytes outside the header:
    the first 99 header bytes (ranges, counts, clustered flag, both compressions) -/
def coreP (file : Bytes) : Bytes × Bytes := (file.take 99, file.drop 127)

/-! ### line protocol

`C12 <fmt> <ntab> <hex>… <nops> <op>… <ncuts> <i>:<k>…`
* `<fmt>` = `v` | `p`; the table lists the byte strings the real decompressors accept (every other
  non-empty-or-empty input of a compressed kind is rejected; `none` is the identity);
* ops: `a:<hex>`, `w:<hex>`, `p:<n>`, `t` (truncation by `File::create`); an optional `old <hex>`
  after the cuts gives the bytes the path held before the writer was created (default: empty);
* answer: one letter per cut – `e` open fails, `f` opens and the bytes equal the completed file,
  `c` (pmtiles) opens and `coreP` equals that of the completed file, `X` opens but differs. -/

def unhexDigit (c : Char) : Option Nat :=
  if '0' ≤ c ∧ c ≤ '9' then some (c.toNat - 48)
  else if 'a' ≤ c ∧ c ≤ 'f' then some (c.toNat - 87) else none

def unhex (s : String) : Option Bytes :=
  if s == "-" then some [] else
  let rec go : List Char → Option Bytes
    | [] => some []
    | [_] => none
    | a :: b :: rest => do
      let x ← unhexDigit a
      let y ← unhexDigit b
      let r ← go rest
      pure (UInt8.ofNat (x * 16 + y) :: r)
  go s.toList

def tableDec (tab : List Bytes) : Dec := fun c b =>
  match c with
  | .none => some b
  | _ => if tab.contains b then some b else none

def parseOp (s : String) : Option Op :=
  match s.splitOn ":" with
  | ["a", h] => (unhex h).map .append
  | ["w", h] => (unhex h).map .writeStart
  | ["p", n] => n.toNat?.map .setPosition
  | ["t"] => some .truncate
  | _ => none

def parseCut (s : String) : Option (Nat × Nat) :=
  match s.splitOn ":" with
  | [i, k] => do let i ← i.toNat?; let k ← k.toNat?; pure (i, k)
  | _ => none

def takeN {α} (f : String → Option α) : Nat → List String → Option (List α × List String)
  | 0, rest => some ([], rest)
  | n + 1, t :: rest => do
    let x ← f t
    let (xs, r) ← takeN f n rest
    pure (x :: xs, r)
  | _ + 1, [] => none

def verdict (fmt : String) (dec : Dec) (final s : Bytes) : String :=
  if fmt == "v" then
    match openV dec s with
    | none => "e"
    | some _ => if s == final then "f" else "X"
  else
    match openP dec s with
    | none => "e"
    | some _ => if s == final then "f" else if coreP s == coreP final then "c" else "X"

def handleAux (args : List String) : Option String := do
  let fmt :: ntab :: rest := args | none
  let ntab ← ntab.toNat?
  let (tab, rest) ← takeN unhex ntab rest
  let nops :: rest := rest | none
  let nops ← nops.toNat?
  let (ops, rest) ← takeN parseOp nops rest
  let ncuts :: rest := rest | none
  let ncuts ← ncuts.toNat?
  let (cuts, rest) ← takeN parseCut ncuts rest
  let old ← match rest with
    | "old" :: h :: _ => unhex h
    | _ => some []
  let states := prefixStates { file := old, pos := 0 } ops
  let final := crashWith states ops ops.length 0
  let dec := tableDec tab
  pure (String.join (cuts.map fun (i, k) => verdict fmt dec final (crashWith states ops i k)))

def handle (args : List String) : String := (handleAux args).getD "bad-op"

end VtModel.Crash
