import VtModel.Basic
/-!
Model of `versatiles_core/src/types/tile_bbox.rs` (`TileBBox`), `tile_coords.rs` (integer part)
and `utils/transform_coord.rs`.

`u32` fields are `Nat`; every place where the Rust code can panic (u32 overflow in the dev
profile, `unwrap`, `assert!`, `panic!`) is an explicit `Outcome.panic`.
The stored field `max` is always `2^level - 1` for boxes built by the constructors and is
modelled as a function of `level`.
-/
namespace VtModel

structure BBox where
  level : Nat
  xmin : Nat
  ymin : Nat
  xmax : Nat
  ymax : Nat
deriving Repr, DecidableEq

namespace BBox

/-- `max = 2^level - 1` -/
def maxv (b : BBox) : Nat := 2 ^ b.level - 1

/-- `TileBBox::new` (tile_bbox.rs:56-75) -/
def new (level xmin ymin xmax ymax : Nat) : Outcome BBox :=
  if level > 31 then .err
  else if xmax > 2 ^ level - 1 then .err
  else if ymax > 2 ^ level - 1 then .err
  else if xmin > xmax then .err
  else if ymin > ymax then .err
  else .ok ⟨level, xmin, ymin, xmax, ymax⟩

/-- `new_full` -/
def newFull (level : Nat) : Outcome BBox :=
  if level > 31 then .err else new level 0 0 (2 ^ level - 1) (2 ^ level - 1)

/-- `new_empty`: `(max+1, max+1, 0, 0)` -/
def newEmpty (level : Nat) : Outcome BBox :=
  if level > 31 then .err else .ok ⟨level, 2 ^ level - 1 + 1, 2 ^ level - 1 + 1, 0, 0⟩

def isEmpty (b : BBox) : Bool := b.xmax < b.xmin || b.ymax < b.ymin

def width (b : BBox) : Nat := if b.xmax < b.xmin then 0 else b.xmax - b.xmin + 1
def height (b : BBox) : Nat := if b.ymax < b.ymin then 0 else b.ymax - b.ymin + 1
/-- `count_tiles` (u64 product of two u32: cannot overflow) -/
def countTiles (b : BBox) : Nat := b.width * b.height

def contains2 (b : BBox) (x y : Nat) : Bool :=
  x ≥ b.xmin && x ≤ b.xmax && y ≥ b.ymin && y ≤ b.ymax

def contains3 (b : BBox) (x y z : Nat) : Bool :=
  z == b.level && b.contains2 x y

/-- `set_empty`: `(1,1,0,0)` -/
def setEmpty (b : BBox) : BBox := { b with xmin := 1, ymin := 1, xmax := 0, ymax := 0 }

/-- `include_coord` -/
def includeCoord (b : BBox) (x y : Nat) : BBox :=
  if b.isEmpty then { b with xmin := x, ymin := y, xmax := x, ymax := y }
  else { b with xmin := min b.xmin x, ymin := min b.ymin y,
                xmax := min (max b.xmax x) b.maxv, ymax := min (max b.ymax y) b.maxv }

/-- `add_border`: `x_max + border` is an unchecked u32 addition -/
def addBorder (b : BBox) (bx0 by0 bx1 by1 : Nat) : Outcome BBox :=
  if b.isEmpty then .ok b
  else if b.xmax + bx1 ≥ U32 || b.ymax + by1 ≥ U32 then .panic
  else .ok { b with xmin := b.xmin - bx0, ymin := b.ymin - by0,
                    xmax := min (b.xmax + bx1) b.maxv, ymax := min (b.ymax + by1) b.maxv }

/-- `include_bbox` -/
def includeBBox (a b : BBox) : Outcome BBox :=
  if a.level ≠ b.level then .err
  else if b.isEmpty then .ok a
  else if a.isEmpty then .ok b
  else .ok { a with xmin := min a.xmin b.xmin, ymin := min a.ymin b.ymin,
                    xmax := min (max a.xmax b.xmax) a.maxv, ymax := min (max a.ymax b.ymax) a.maxv }

/-- `intersect_bbox` -/
def intersectBBox (a b : BBox) : Outcome BBox :=
  if a.level ≠ b.level then .err
  else if !a.isEmpty && !b.isEmpty then
    .ok { a with xmin := max a.xmin b.xmin, ymin := max a.ymin b.ymin,
                 xmax := min a.xmax b.xmax, ymax := min a.ymax b.ymax }
  else .ok a.setEmpty

/-- `overlaps_bbox` -/
def overlapsBBox (a b : BBox) : Outcome Bool :=
  if a.level ≠ b.level then .err
  else if a.isEmpty || b.isEmpty then .ok false
  else .ok (a.xmin ≤ b.xmax && a.xmax ≥ b.xmin && a.ymin ≤ b.ymax && a.ymax ≥ b.ymin)

/-- `shift_by` (saturating) -/
def shiftBy (b : BBox) (x y : Nat) : BBox :=
  { b with xmin := min (b.xmin + x) (U32 - 1), ymin := min (b.ymin + y) (U32 - 1),
           xmax := min (b.xmax + x) (U32 - 1), ymax := min (b.ymax + y) (U32 - 1) }

/-- `subtract` / `subtract_coord2` (saturating) -/
def subtract (b : BBox) (x y : Nat) : BBox :=
  { b with xmin := b.xmin - x, ymin := b.ymin - y, xmax := b.xmax - x, ymax := b.ymax - y }

/-- `scale_down` (`panic!` on 0) -/
def scaleDown (b : BBox) (s : Nat) : Outcome BBox :=
  if s = 0 then .panic
  else .ok { b with xmin := b.xmin / s, ymin := b.ymin / s, xmax := b.xmax / s, ymax := b.ymax / s }

/-- `iter_coords`: row-major `(x, y)`; `y_min..=y_max` × `x_min..=x_max` -/
def iterCoords (b : BBox) : List (Nat × Nat) :=
  if b.xmax < b.xmin then []   -- same list as below (every row is empty); avoids walking the rows
  else
    (List.range' b.ymin (b.ymax + 1 - b.ymin)).flatMap fun y =>
      (List.range' b.xmin (b.xmax + 1 - b.xmin)).map fun x => (x, y)

/-- one cell of `iter_bbox_grid` (tile_bbox.rs:640-650), including the u32 overflow sites
    `coord.x * size`, `x + size - 1` and the two `unwrap`s -/
def gridCell (b : BBox) (size : Nat) (c : Nat × Nat) : Outcome BBox :=
  let x := c.1 * size
  let y := c.2 * size
  if x ≥ U32 || y ≥ U32 then .panic
  else if x + size ≥ U32 + 1 || y + size ≥ U32 + 1 then .panic   -- `x + size - 1` (size ≥ 1)
  else
    match new b.level x y (min (x + size - 1) b.maxv) (min (y + size - 1) b.maxv) with
    | .ok cell => (cell.intersectBBox b).unwrap
    | _ => .panic

def mapM {α β} (f : α → Outcome β) : List α → Outcome (List β)
  | [] => .ok []
  | a :: as => match f a with
    | .ok b => match mapM f as with
      | .ok bs => .ok (b :: bs)
      | .err => .err
      | .panic => .panic
    | .err => .err
    | .panic => .panic

/-- `iter_bbox_grid` -/
def iterBBoxGrid (b : BBox) (size : Nat) : Outcome (List BBox) :=
  if size = 0 then .ok []
  else
    match b.scaleDown size with
    | .ok mb =>
      match mapM (gridCell b size) mb.iterCoords with
      | .ok cells => .ok (cells.filter (fun c => !c.isEmpty))
      | .err => .err
      | .panic => .panic
    | _ => .panic

/-- `get_tile_index2/3`: `y * (x_max + 1 - x_min) + x`, computed in u64 (cannot overflow for
    u32 fields), then `as usize` -/
def tileIndex (b : BBox) (x y : Nat) : Outcome Nat :=
  if !b.contains2 x y then .err
  else .ok ((y - b.ymin) * (b.xmax + 1 - b.xmin) + (x - b.xmin))

def tileIndex3 (b : BBox) (x y z : Nat) : Outcome Nat :=
  if z ≠ b.level then .err else b.tileIndex x y

/-- `get_coord2_by_index` / `get_coord3_by_index` (`index : u32`):
    `ensure!((index as u64) < count_tiles())`; `rem`/`div` by a zero width would panic; the
    additions are unchecked u32 -/
def coordByIndex (b : BBox) (i : Nat) : Outcome (Nat × Nat) :=
  if ¬ (i < b.countTiles) then .err
  else if b.width = 0 then .panic
  else if i % b.width + b.xmin ≥ U32 || i / b.width + b.ymin ≥ U32 then .panic
  else .ok (i % b.width + b.xmin, i / b.width + b.ymin)

/-- `TransformCoord for TileBBox::flip_y` -/
def flipY (b : BBox) : Outcome BBox :=
  if b.isEmpty then .ok b
  else if b.maxv < b.ymax then .panic          -- `assert!(self.max >= self.y_max)`
  else if b.maxv < b.ymin then .panic          -- `self.max - self.y_min` underflow
  else .ok { b with ymin := b.maxv - b.ymax, ymax := b.maxv - b.ymin }

/-- `TransformCoord for TileBBox::swap_xy` -/
def swapXY (b : BBox) : BBox :=
  if b.isEmpty then b
  else { b with xmin := b.ymin, ymin := b.xmin, xmax := b.ymax, ymax := b.xmax }

/-- `TransformCoord for TileCoord3::flip_y` (`assert!(max_index >= self.y)`) -/
def coordFlipY (x y z : Nat) : Outcome (Nat × Nat × Nat) :=
  if 2 ^ z - 1 < y then .panic else .ok (x, 2 ^ z - 1 - y, z)

def coordSwapXY (x y z : Nat) : Nat × Nat × Nat := (y, x, z)

/-! ### line protocol -/

def render (b : BBox) : String := s!"{b.level}:{b.xmin},{b.ymin},{b.xmax},{b.ymax}"

def showO {α} (f : α → String) : Outcome α → String
  | .ok a => f a
  | .err => "err"
  | .panic => "panic"

def showCoords (l : List (Nat × Nat)) : String :=
  if l.isEmpty then "-" else ";".intercalate (l.map fun c => s!"{c.1},{c.2}")

def showBoxes (l : List BBox) : String :=
  if l.isEmpty then "-" else ";".intercalate (l.map render)

end BBox
end VtModel
