import VtModel.Source
/-!
Model of the pipeline operations of `versatiles_pipeline/src/operations/**` as source
combinators, and of pipelines as an inductive syntax tree `Pipe` with a `build` semantics
(`factory.rs::build_pipeline`).

* `filterSrc`      – the lookup/stream of `filter_zoom.rs:67-79` and `filter_bbox.rs:57-69`
                     (identical code) over the narrowed pyramid
* `zoomPyr`        – `filter_zoom.rs:34-46` (`set_zoom_min`, `set_zoom_max`)
* `geoPyr`         – `filter_bbox.rs:32-38` + `tile_bbox_pyramid.rs:94-101`; the per-level tile
                     boxes of `TileBBox::from_geo` are a parameter (Float code stays outside)
* `overlaySrc`     – `from_overlayed.rs:83-140`
* `mergedSrc`      – `from_vectortiles_merged.rs:96-147` (payload merge is an opaque function)
* `mapSrc`         – `vectortiles_update_properties.rs:184-200` as a per-tile blob map

Payload operations (`recompress`, `decompress`, `merge_tiles`, `Runner::run`) are the opaque
functions of `Ops`; they are total here, i.e. the stored tiles are assumed to be decodable.
(In Rust a failure is `Err` in the lookup; in the stream it is a panic for from_overlayed
(`recompress(..).unwrap()`) and, since /repo 9545dd82 / a8bacbd4, a skipped tile for
vectortiles_update_properties and from_vectortiles_merged – which is what `expected` prescribes
for a failing lookup.)
-/
namespace VtModel
open BBox

/-- opaque payload operations -/
structure Ops (β : Type) where
  /-- `recompress(blob, from, to)` (utils/compression.rs) -/
  recode : Nat → Nat → β → β
  /-- `decompress(blob, from)` -/
  decomp : Nat → β → β
  /-- `merge_tiles(blobs)` -/
  merge : List β → β
  /-- `Runner::run` of update_properties: decompress with the source compression, rewrite -/
  update : Nat → β → β
  /-- `build_tile(coord, format, fast)` of from_debug (from_debug/mod.rs:62-75), for the formats it
      implements -/
  debug : Nat → Coord → β

/-- a built operation: the source plus its declared tile format and compression
    (`TilesReaderParameters`; compression 0 = uncompressed) -/
structure Op (β : Type) where
  src : Src β
  fmt : Nat
  comp : Nat

/-! ### filters -/

/-- `bbox.intersect_pyramid(&pyramid).unwrap()` (tile_bbox.rs:470-473): the level index panics
    when out of range, a level mismatch is an `Err` that is unwrapped -/
def narrow (pyr : Pyramid) (b : BBox) : Outcome BBox :=
  match pyr.getLevel b.level with
  | .ok lb => (b.intersectBBox lb).unwrap
  | _ => .panic

/-- lookup guarded by the narrowed coverage, stream box intersected with it -/
def filterSrc {β : Type} (pyr : Pyramid) (s : Src β) : Src β where
  lookup := fun c => if pyr.has c then s.lookup c else .ok none
  stream := fun b =>
    match narrow pyr b with
    | .ok b' => s.stream b'
    | .err => .err
    | .panic => .panic
  cover := pyr

/-- `filter_zoom` coverage: `set_zoom_min` then `set_zoom_max` when given -/
def zoomPyr (p : Pyramid) (zmin zmax : Option Nat) : Pyramid :=
  let p1 := match zmin with | some m => p.setZoomMin m | none => p
  match zmax with | some m => p1.setZoomMax m | none => p1

/-- `intersect_geo_bbox` given the per-level tile boxes `q` of the geographic box -/
def geoPyr (p q : Pyramid) : Outcome Pyramid := Pyramid.intersect p q

/-! ### overlay -/

/-- `get_tile_data` of from_overlayed: first `Some` wins, `?` propagates errors -/
def overlayLookup {β : Type} (ops : Ops β) (out : Nat) : List (Op β) → Coord → Outcome (Option β)
  | [], _ => .ok none
  | o :: os, c =>
    match o.src.lookup c with
    | .ok (some p) => .ok (some (ops.recode o.comp out p))
    | .ok none => overlayLookup ops out os c
    | .err => .err
    | .panic => .panic

/-- one step of the loop that computes the bounding box of the still empty slots:
    `include_coord3(get_coord3_by_index(i).unwrap()).unwrap()` for an empty slot -/
def leftStep {γ : Type} (cell : BBox) (slots : List (Option γ)) (acc : Outcome BBox) (i : Nat) : Outcome BBox :=
  match acc with
  | .ok bl =>
    match slots[i]? with
    | some none =>
      match cell.coordByIndex i with
      | .ok c => .ok (bl.includeCoord c.1 c.2)
      | _ => .panic
    | _ => .ok bl
  | e => e

/-- bounding box of the still empty slots (from_overlayed.rs:107-114), starting from
    `new_empty(level).unwrap()` -/
def bboxLeft {γ : Type} (cell : BBox) (slots : List (Option γ)) : Outcome BBox :=
  match BBox.newEmpty cell.level with
  | .ok e => (List.range slots.length).foldl (leftStep cell slots) (.ok e)
  | _ => .panic

/-- `for_each_sync` body (from_overlayed.rs:123-129): `get_tile_index3(&coord).unwrap()`,
    `tiles[index]` (bounds-checked), fill only empty slots -/
def fillSlots {β : Type} (cell : BBox) (f : β → β) :
    List (Option (Coord × β)) → List (Coord × β) → Outcome (List (Option (Coord × β)))
  | slots, [] => .ok slots
  | slots, (c, p) :: rest =>
    match cell.tileIndex3 c.1 c.2.1 c.2.2 with
    | .ok i =>
      match slots[i]? with
      | none => .panic
      | some (some _) => fillSlots cell f slots rest
      | some none => fillSlots cell f (slots.set i (some (c, f p))) rest
    | _ => .panic

/-- the loop over the sources for one 32×32 cell -/
def overlayCell {β : Type} (ops : Ops β) (out : Nat) (cell : BBox) :
    List (Op β) → List (Option (Coord × β)) → Outcome (List (Option (Coord × β)))
  | [], slots => .ok slots
  | o :: os, slots =>
    match bboxLeft cell slots with
    | .ok bl =>
      if bl.isEmpty then overlayCell ops out cell os slots
      else
        match o.src.stream bl with
        | .ok l =>
          match fillSlots cell (ops.recode o.comp out) slots l with
          | .ok slots' => overlayCell ops out cell os slots'
          | .err => .err
          | .panic => .panic
        | .err => .err
        | .panic => .panic
    | _ => .panic

/-- concatenate fallible per-cell results -/
def concatMapO {α γ : Type} (f : α → Outcome (List γ)) : List α → Outcome (List γ)
  | [] => .ok []
  | a :: as =>
    match f a with
    | .ok l =>
      match concatMapO f as with
      | .ok r => .ok (l ++ r)
      | .err => .err
      | .panic => .panic
    | .err => .err
    | .panic => .panic

/-- `bbox.iter_bbox_grid(32).collect()`; for an empty box (any encoding) the iterator is empty
    at once (see `coords3`), the guard only avoids walking an x-empty meta box -/
def grid32 (b : BBox) : Outcome (List BBox) :=
  if b.isEmpty then .ok [] else b.iterBBoxGrid 32

/-- `get_tile_stream` of from_overlayed: `iter_bbox_grid(32)`, per cell a slot vector of
    `count_tiles` entries, output `tiles.into_iter().flatten()` -/
def overlayStream {β : Type} (ops : Ops β) (out : Nat) (srcs : List (Op β)) (b : BBox) :
    Outcome (List (Coord × β)) :=
  match grid32 b with
  | .ok cells =>
    concatMapO (fun cell =>
      match overlayCell ops out cell srcs (List.replicate cell.countTiles none) with
      | .ok slots => .ok (slots.filterMap id)
      | .err => .err
      | .panic => .panic) cells
  | _ => .panic

/-- coverage of overlay / merge: the first source's pyramid, then `include_bbox_pyramid` of
    every source (including the first) -/
def unionCover {β : Type} (first : Pyramid) (srcs : List (Op β)) : Outcome Pyramid :=
  srcs.foldl (fun acc o => acc.bind fun a => Pyramid.includePyramid a o.src.cover) (.ok first)

/-- declared compression of an overlay: the common one, else uncompressed (0) -/
def overlayComp {β : Type} (first : Nat) (srcs : List (Op β)) : Nat :=
  srcs.foldl (fun acc o => if o.comp ≠ acc then 0 else acc) first

def overlaySrc {β : Type} (ops : Ops β) (out : Nat) (cover : Pyramid) (srcs : List (Op β)) : Src β where
  lookup := overlayLookup ops out srcs
  stream := overlayStream ops out srcs
  cover := cover

/-! ### merge (structure only) -/

/-- `get_tile_data` of from_vectortiles_merged: decompressed blobs of all sources that have the
    tile, in source order -/
def mergedBlobs {β : Type} (ops : Ops β) : List (Op β) → Coord → Outcome (List β)
  | [], _ => .ok []
  | o :: os, c =>
    match o.src.lookup c with
    | .ok r =>
      match mergedBlobs ops os c with
      | .ok rest => .ok (match r with | some p => ops.decomp o.comp p :: rest | none => rest)
      | .err => .err
      | .panic => .panic
    | .err => .err
    | .panic => .panic

def mergedLookup {β : Type} (ops : Ops β) (srcs : List (Op β)) (c : Coord) : Outcome (Option β) :=
  match mergedBlobs ops srcs c with
  | .ok [] => .ok none
  | .ok l => .ok (some (ops.merge l))
  | .err => .err
  | .panic => .panic

/-- push every streamed tile into its slot (`tiles[index].push(blob)`) -/
def pushSlots {β : Type} (cell : BBox) (f : β → β) :
    List (List β) → List (Coord × β) → Outcome (List (List β))
  | slots, [] => .ok slots
  | slots, (c, p) :: rest =>
    match cell.tileIndex3 c.1 c.2.1 c.2.2 with
    | .ok i =>
      match slots[i]? with
      | none => .panic
      | some v => pushSlots cell f (slots.set i (v ++ [f p])) rest
    | _ => .panic

def mergedCell {β : Type} (ops : Ops β) (cell : BBox) :
    List (Op β) → List (List β) → Outcome (List (List β))
  | [], slots => .ok slots
  | o :: os, slots =>
    match o.src.stream cell with
    | .ok l =>
      match pushSlots cell (ops.decomp o.comp) slots l with
      | .ok slots' => mergedCell ops cell os slots'
      | .err => .err
      | .panic => .panic
    | .err => .err
    | .panic => .panic

/-- output of one cell: non-empty slots, `get_coord3_by_index(i).unwrap()` -/
def mergedEmit {β : Type} (ops : Ops β) (cell : BBox) (slots : List (List β)) : Outcome (List (Coord × β)) :=
  filterMapO (fun (vi : List β × Nat) =>
    if vi.1.isEmpty then .ok none
    else match cell.coordByIndex vi.2 with
      | .ok c => .ok (some ((c.1, c.2, cell.level), ops.merge vi.1))
      | _ => .panic) slots.zipIdx

def mergedStream {β : Type} (ops : Ops β) (srcs : List (Op β)) (b : BBox) : Outcome (List (Coord × β)) :=
  match grid32 b with
  | .ok cells =>
    concatMapO (fun cell =>
      match mergedCell ops cell srcs (List.replicate cell.countTiles []) with
      | .ok slots => mergedEmit ops cell slots
      | .err => .err
      | .panic => .panic) cells
  | _ => .panic

def mergedSrc {β : Type} (ops : Ops β) (cover : Pyramid) (srcs : List (Op β)) : Src β where
  lookup := mergedLookup ops srcs
  stream := mergedStream ops srcs
  cover := cover

/-! ### per-tile blob map (update_properties) -/

def mapSrc {β : Type} (f : β → β) (s : Src β) : Src β where
  lookup := fun c =>
    match s.lookup c with
    | .ok (some p) => .ok (some (f p))
    | r => r
  stream := fun b =>
    match s.stream b with
    | .ok l => .ok (l.map fun cp => (cp.1, f cp.2))
    | r => r
  cover := s.cover

/-! ### pipelines -/

/-- tile format code of PBF (`TileFormat::PBF`) in the protocol -/
def fmtPBF : Nat := 1

mutual
/-- syntax of a pipeline -/
inductive Pipe where
  /-- `from_container`: the `i`-th source of the environment -/
  | leaf (i : Nat)
  /-- `from_debug format=…` (format code; `fast` only selects the image encoder and is part of the
      opaque tile function) -/
  | debug (fmt : Nat)
  /-- `filter_zoom min=… max=…` (`u8` arguments) -/
  | filterZoom (zmin zmax : Option Nat) (p : Pipe)
  /-- `filter_bbox bbox=[…]`: `.err` = argument rejected by `GeoBBox::check`,
      `.ok q` = the per-level boxes of `TileBBox::from_geo`, `.panic` = `from_geo` failed -/
  | filterBBox (q : Outcome Pyramid) (p : Pipe)
  | overlay (ps : Pipes)
  | merged (ps : Pipes)
  | update (p : Pipe)
inductive Pipes where
  | nil
  | cons (p : Pipe) (ps : Pipes)
end

def Pipes.length : Pipes → Nat
  | .nil => 0
  | .cons _ ps => ps.length + 1

def allO {α : Type} : List (Outcome α) → Outcome (List α)
  | [] => .ok []
  | a :: as =>
    match a with
    | .ok x =>
      match allO as with
      | .ok xs => .ok (x :: xs)
      | .err => .err
      | .panic => .panic
    | .err => .err
    | .panic => .panic

/-- build an overlay from already built sources (from_overlayed.rs:40-70) -/
def buildOverlay {β : Type} (ops : Ops β) (srcs : List (Op β)) : Outcome (Op β) :=
  match srcs with
  | [] => .err
  | [_] => .err                                    -- "must have at least two sources"
  | first :: _ =>
    if srcs.any (fun o => o.fmt ≠ first.fmt) then .err   -- "same tile format"
    else
      match unionCover first.src.cover srcs with
      | .ok cover =>
        let out := overlayComp first.comp srcs
        .ok ⟨overlaySrc ops out cover srcs, first.fmt, out⟩
      | _ => .panic

/-- build a merge (from_vectortiles_merged.rs:50-80): only the first source's format is checked -/
def buildMerged {β : Type} (ops : Ops β) (srcs : List (Op β)) : Outcome (Op β) :=
  match srcs with
  | [] => .err
  | [_] => .err
  | first :: _ =>
    if first.fmt ≠ fmtPBF then .err
    else
      match unionCover first.src.cover srcs with
      | .ok cover => .ok ⟨mergedSrc ops cover srcs, first.fmt, 0⟩
      | _ => .panic

/-- the formats `build_tile` implements: PBF (1), PNG (2), JPG (3), WEBP (4) -/
def debugFmtOK (fmt : Nat) : Bool := fmt == 1 || fmt == 2 || fmt == 3 || fmt == 4

/-- `from_debug` (from_debug/mod.rs): every coordinate has a tile (no coverage test in
    `get_tile_data`), the stream maps `build_tile` over `bbox.into_iter_coords()` in parallel
    (`from_coord_iter_parallel`, failures dropped) – i.e. the default stream of the lookup; the
    advertised coverage is `new_full(31)`, compression uncompressed.  A format `build_tile` does
    not implement makes every lookup `Err` (and the stream empty). -/
def debugOp {β : Type} (ops : Ops β) (fmt : Nat) : Op β :=
  ⟨Src.ofLookup (fun c => if debugFmtOK fmt then .ok (some (ops.debug fmt c)) else .err) (Pyramid.newFull 31), fmt, 0⟩

def buildZoom {β : Type} (zmin zmax : Option Nat) (o : Op β) : Outcome (Op β) :=
  if zmin.getD 0 ≥ 256 ∨ zmax.getD 0 ≥ 256 then .err      -- not a `u8`
  else .ok { o with src := filterSrc (zoomPyr o.src.cover zmin zmax) o.src }

def buildBBox {β : Type} (q : Outcome Pyramid) (o : Op β) : Outcome (Op β) :=
  match q with
  | .err => .err
  | .panic => .panic
  | .ok q =>
    match geoPyr o.src.cover q with
    | .ok pyr => .ok { o with src := filterSrc pyr o.src }
    | _ => .panic

def buildUpdate {β : Type} (ops : Ops β) (o : Op β) : Outcome (Op β) :=
  if o.fmt ≠ fmtPBF then .err
  else .ok ⟨mapSrc (ops.update o.comp) o.src, o.fmt, 0⟩

mutual
/-- `PipelineFactory::build_pipeline`: errors of a sub-pipeline propagate (`?`) -/
def build {β : Type} (ops : Ops β) (env : Nat → Outcome (Op β)) : Pipe → Outcome (Op β)
  | .leaf i => env i
  | .debug fmt => .ok (debugOp ops fmt)
  | .filterZoom zmin zmax p =>
    match build ops env p with
    | .ok o => buildZoom zmin zmax o
    | r => r
  | .filterBBox q p =>
    match build ops env p with
    | .ok o => buildBBox q o
    | r => r
  | .overlay ps =>
    match buildAll ops env ps with
    | .ok srcs => buildOverlay ops srcs
    | .err => .err
    | .panic => .panic
  | .merged ps =>
    match buildAll ops env ps with
    | .ok srcs => buildMerged ops srcs
    | .err => .err
    | .panic => .panic
  | .update p =>
    match build ops env p with
    | .ok o => buildUpdate ops o
    | r => r
def buildAll {β : Type} (ops : Ops β) (env : Nat → Outcome (Op β)) : Pipes → Outcome (List (Op β))
  | .nil => .ok []
  | .cons p ps =>
    match build ops env p with
    | .ok o =>
      match buildAll ops env ps with
      | .ok os => .ok (o :: os)
      | .err => .err
      | .panic => .panic
    | .err => .err
    | .panic => .panic
end

end VtModel
