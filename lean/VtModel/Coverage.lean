import VtModel.Source
import VtModel.MBTiles
import VtModel.BBoxProto
import VtModel.Hilbert
/-!
How the container readers compute the coverage pyramid they advertise (property C03):

* pmtiles (`pmtiles/reader.rs:119-154`, directory walk), tar (`tar/reader.rs:60-105`), directory
  (`directory/reader.rs:96-163`): `include_coord` for every stored coordinate, starting from
  `TileBBoxPyramid::new_empty()`  → `coverOfCoords`;
* mbtiles (`mbtiles/reader.rs:228-296`): per zoom level the MIN/MAX estimate-then-refine queries of
  `VtModel.MBTiles.levelRange`, `set_level_bbox`, final `flip_y` → `mbtilesCover`;
* versatiles (`versatiles/types/block_index.rs:66-73`): `include_bbox` of every block's global box;
  the writer (`versatiles/writer.rs:93-106`) creates one block per cell of `iter_bbox_grid(256)` of
  every non-empty level of the *source's* advertised pyramid → `versatilesCover`.
-/
namespace VtModel.Coverage
open VtModel

/-- one step of the walk: `TileCoord3::new(x, y, z)?` (level ≤ 31) then
    `bbox_pyramid.include_coord(&coord)` -/
def includeStep (acc : Outcome Pyramid) (c : Coord) : Outcome Pyramid :=
  acc.bind fun p => if c.2.2 > 31 then .err else Pyramid.includeCoord p c.1 c.2.1 c.2.2

/-- pmtiles / tar / directory: fold `include_coord` from `new_empty` over the stored coordinates
    (in the order the container lists them) -/
def coverOfCoords (cs : List Coord) : Outcome Pyramid :=
  cs.foldl includeStep (.ok Pyramid.newEmpty)

/-- mbtiles: rows `(z, col, 2^z-1-y)`, zoom loop from MIN to MAX zoom (levels without rows are
    skipped since /repo 425c2638), one `set_level_bbox` per level with rows -/
def mbtilesCover (cs : List Coord) : Outcome Pyramid :=
  let db := MBTiles.writeRows (cs.map fun c => (c, []))
  match MBTiles.qmin db (fun _ => true) (·.z), MBTiles.qmax db (fun _ => true) (·.z) with
  | some z0, some z1 =>
    match MBTiles.coverLevels db true (List.range' z0 (z1 + 1 - z0)) with
    | .ok l => l.foldl (fun acc b => acc.bind fun p => Pyramid.setLevel p b) (.ok Pyramid.newEmpty)
    | .err => .err
    | .panic => .panic
  | _, _ => .err

/-- versatiles: blocks = 256-grid cells of every non-empty level of the source pyramid; the reader
    re-assembles the level boxes with `include_bbox` -/
def versatilesCover (src : Pyramid) : Outcome Pyramid :=
  (Pyramid.iterLevels src).foldl (fun acc b => acc.bind fun p =>
    match b.iterBBoxGrid 256 with
    | .ok cells => cells.foldl (fun acc c => acc.bind fun p => Pyramid.includeBBox p c) (.ok p)
    | .err => .err
    | .panic => .panic) (.ok Pyramid.newEmpty)

/-! ### PMTiles directory entries with run lengths -/

/-- one iteration of `for i in 0..entry.run_length` (pmtiles/reader.rs:141-145):
    `tile_id_to_coord(i + entry.tile_id)?` then `include_coord` -/
def runStep (acc : Outcome Pyramid) (id : Nat) : Outcome Pyramid :=
  acc.bind fun p =>
    if id ≥ U64 then .err                                   -- `checked_add(..).context("tile id overflow")?`
    else match Hilbert.tileIdToCoordLoop id with
      | .ok c => includeStep (.ok p) c
      | .err => .err
      | .panic => .panic

/-- the inner loop over one entry `(tile_id, run_length)`: every id of the run -/
def coverRunLoop (acc : Outcome Pyramid) (id n : Nat) : Outcome Pyramid :=
  (List.range' id n).foldl runStep acc

/-- the coverage walk over tile entries `(tile_id, run_length)` (leaf pointers already resolved) -/
def coverOfRuns (runs : List (Nat × Nat)) : Outcome Pyramid :=
  runs.foldl (fun acc r => coverRunLoop acc r.1 r.2) (.ok Pyramid.newEmpty)

/-- all tile ids addressed by the entries -/
def expandRuns (runs : List (Nat × Nat)) : List Nat := runs.flatMap fun r => List.range' r.1 r.2

/-- versatiles reader: `include_bbox` of every block's global box from `new_empty`
    (block_index.rs:66-73; `HashMap` order – the union is order-insensitive) -/
def coverOfBlocks (blocks : List BBox) : Outcome Pyramid :=
  blocks.foldl (fun acc b => acc.bind fun p => Pyramid.includeBBox p b) (.ok Pyramid.newEmpty)

/-! ### the exact bounding box, as a specification -/

/-- `b` is the bounding box of the coordinates of `cs` at level `z`: it contains all of them and
    each of its four sides is attained; no coordinates ⇒ empty box -/
def IsBoundingBox (b : BBox) (cs : List Coord) (z : Nat) : Prop :=
  (∀ c ∈ cs, c.2.2 = z → b.contains2 c.1 c.2.1 = true) ∧
  ((∃ c ∈ cs, c.2.2 = z) →
    (∃ c ∈ cs, c.2.2 = z ∧ c.1 = b.xmin) ∧ (∃ c ∈ cs, c.2.2 = z ∧ c.1 = b.xmax) ∧
    (∃ c ∈ cs, c.2.2 = z ∧ c.2.1 = b.ymin) ∧ (∃ c ∈ cs, c.2.2 = z ∧ c.2.1 = b.ymax)) ∧
  ((¬ ∃ c ∈ cs, c.2.2 = z) → b.isEmpty = true)

/-! ### line protocol (stream `C03`) -/

def parseCoord (s : String) : Option Coord :=
  match parseNats (s.splitOn ",") with
  | some [x, y, z] => some (x, y, z)
  | _ => none

def parseCoords (s : String) : Option (List Coord) :=
  if s == "-" then some [] else (s.splitOn ";").mapM parseCoord

def showO {α} (f : α → String) : Outcome α → String
  | .ok a => f a
  | .err => "err"
  | .panic => "panic"

/-- `C03 cov <kind> <source pyramid> <tiles>` → advertised pyramid of the re-opened container -/
def handle (args : List String) : String :=
  match args with
  | ["cov", kind, cov, tiles] =>
    match BBoxProto.parsePyr cov, parseCoords tiles with
    | some cov, some cs =>
      match kind with
      -- suffix `0`: some tiles are stored with a zero-length payload – they are tiles like any other
      | "tar" | "dir" | "pmtiles" | "tar0" | "dir0" => showO Pyramid.render (coverOfCoords cs)
      | "mbtiles" | "mbtiles0" => showO Pyramid.render (mbtilesCover cs)
      | "versatiles" => showO Pyramid.render (versatilesCover cov)
      | _ => "bad-op"
    | _, _ => "bad-op"
  | ["members", _kind, tiles] =>
    -- tar members / directory entries in the order the container lists them (any order, duplicates)
    match parseCoords tiles with
    | some cs => showO Pyramid.render (coverOfCoords cs)
    | none => "bad-op"
  | ["runs", rs] =>
    match (rs.splitOn ";").mapM (fun t => match parseNats (t.splitOn ":") with
        | some [a, b] => some (a, b)
        | _ => none) with
    | some runs => showO Pyramid.render (coverOfRuns runs)
    | none => "bad-op"
  | ["blocks", bs] =>
    match (bs.splitOn ";").mapM BBoxProto.parseBox with
    | some l => showO Pyramid.render (coverOfBlocks l)
    | none => "bad-op"
  | _ => "bad-op"

end VtModel.Coverage
