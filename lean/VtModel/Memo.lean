/-
A shared one-entry memo ("the directory used by the previous lookup") in front of a loader, as a
`get_tile_data` of a reader might keep it next to `leaves_cache` (`container/pmtiles/reader.rs`;
the unchanged tree has NO such memo – this model documents the class of defect: a lookup through
a shared memo cell whose *check* and *fetch* are two separate critical sections is not isolated
from concurrent lookups, in the sense of `VtModel.FileOffset.isolated`).

The cell holds `(key, value)`.  A lookup of `key` (true value `dir key`):
  step `check`: `hit := (cell.key == key)`;
  step `act`:   if `hit` then return the cell's CURRENT value (second, separate lock acquisition)
                else compute `dir key`, store `(key, dir key)` in the cell, return it.
With `atomic = true` both happen in one step (one critical section).
An execution is an interleaving of the callers' steps, given by a schedule.
-/
namespace VtModel.Memo

structure Caller where
  key : Nat
  pc : Nat              -- 0 = before check, 1 = between check and act, 2 = done
  hit : Bool
  res : Option Nat
deriving Repr, DecidableEq

structure State where
  cell : Option (Nat × Nat)
  cs : Nat → Caller

/-- the second half of a lookup -/
def act (dir : Nat → Nat) (cell : Option (Nat × Nat)) (key : Nat) (hit : Bool) : Option (Nat × Nat) × Option Nat :=
  if hit then (cell, cell.map (·.2)) else (some (key, dir key), some (dir key))

def isHit (cell : Option (Nat × Nat)) (key : Nat) : Bool :=
  match cell with
  | some (k, _) => k == key
  | none => false

def step (dir : Nat → Nat) (atomic : Bool) (c : Nat) (σ : State) : State :=
  let me := σ.cs c
  if me.pc = 0 then
    let hit := isHit σ.cell me.key
    if atomic then
      let r := act dir σ.cell me.key hit
      { cell := r.1, cs := fun x => if x = c then { me with pc := 2, hit := hit, res := r.2 } else σ.cs x }
    else
      { σ with cs := fun x => if x = c then { me with pc := 1, hit := hit } else σ.cs x }
  else if me.pc = 1 then
    let r := act dir σ.cell me.key me.hit
    { cell := r.1, cs := fun x => if x = c then { me with pc := 2, res := r.2 } else σ.cs x }
  else σ

def exec (dir : Nat → Nat) (atomic : Bool) (σ : State) (sched : List Nat) : State :=
  sched.foldl (fun σ c => step dir atomic c σ) σ

/-- callers `c` look up `keys c`; nothing done yet -/
def init (cell : Option (Nat × Nat)) (keys : Nat → Nat) : State :=
  { cell := cell, cs := fun c => { key := keys c, pc := 0, hit := false, res := none } }

end VtModel.Memo
